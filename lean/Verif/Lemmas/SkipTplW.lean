/-
  Lemmas/SkipTplW: SkipDecoderTpl.Skip over a WEAK cursor — soundness over any source and exactness
  over live sources in one statement (the analogue of Lemmas/SkipBR.lean for the template skipper;
  Lemmas/SkipTpl.lean is the special case of an exact, unbounded cursor).

  `WCursor B rem P live bound`: for every state satisfying the back-end invariant `P` and every
  request `k ≤ bound` (`bound ≥ tplReq = 2^31·16`, the largest request the template can make),
     `SkipN k` returns exactly the next `k` bytes of `rem s` and `rem` loses exactly them,  or
     `SkipN k` fails with an error — and, when `live`, only because fewer than `k` bytes are left.
  `TMw` then says of `skipTplAt`: an error (over a live source only if refTpl rejects), or success
  with refTpl's extent consumed exactly.  Never a panic; the struct loop's fuel suffices.
-/
import Verif.Lemmas.SkipTpl
namespace Verif

/-- 2^31 · 16: the largest request SkipDecoderTpl.Skip can make (a size field is an int32, a
    fixed-size key/value pair has at most 16 bytes) -/
def tplReq : Nat := 34359738368

theorem mul_le_tplReq (n a b : Nat) (hn : n < 2147483648) (ha : a ≤ 8) (hb : b ≤ 8) :
    n * (a + b) ≤ tplReq := by
  have := Nat.mul_le_mul (Nat.le_of_lt hn) (show a + b ≤ 16 by omega)
  unfold tplReq; omega

structure WCursor {σ : Type} (B : Backend σ) (rem : σ → Bytes) (P : σ → Prop) (live : Prop) (bound : Nat) :
    Prop where
  step : ∀ s k, P s → k ≤ bound →
    (∃ s', B.skipN s k = .ok ((rem s).take k, s') ∧ k ≤ (rem s).length ∧ rem s' = (rem s).drop k ∧ P s') ∨
    (∃ e, B.skipN s k = .err e ∧ (live → (rem s).length < k))
  avail : ∀ s, P s → (rem s).length ≤ B.avail s

def TMw {σ : Type} (rem : σ → Bytes) (P : σ → Prop) (live : Prop) (x : TOut σ) (o : Option Nat) (s : σ) : Prop :=
  (∃ e, x = .err e ∧ (live → o = none)) ∨
  (∃ k s', o = some k ∧ x = .ok s' ∧ rem s' = (rem s).drop k ∧ P s')

section
variable {σ : Type} {B : Backend σ} {rem : σ → Bytes} {P : σ → Prop} {live : Prop} {bound : Nat}

theorem tplListLoopW {rec : UInt8 → σ → TOut σ} {f : UInt8 → Bytes → Option Nat} (vt : UInt8)
    (HR : ∀ s, P s → TMw rem P live (rec vt s) (f vt (rem s)) s) :
    ∀ cnt s, P s → TMw rem P live (tplListLoop rec vt cnt s) (refN (f vt) cnt (rem s)) s := by
  intro cnt
  induction cnt with
  | zero => intro s hs; right; exact ⟨0, s, rfl, rfl, by simp, hs⟩
  | succ cnt ih =>
    intro s hs
    simp only [tplListLoop, refN]
    rcases HR s hs with ⟨e, hx, hnone⟩ | ⟨k, s1, ho, hx, hrem, hp1⟩
    · left; exact ⟨e, by simp [hx], fun l => by simp [hnone l]⟩
    · simp only [hx, ho, Out.bind_eq, Out.bind_ok]
      rcases ih s1 hp1 with ⟨e, hy, hnone⟩ | ⟨k2, s2, ho2, hy, hrem2, hp2⟩
      · left; exact ⟨e, hy, fun l => by rw [← hrem, hnone l]⟩
      · right
        exact ⟨k + k2, s2, by rw [← hrem, ho2], hy, by rw [hrem2, hrem, List.drop_drop], hp2⟩

theorem tplMapLoopW {rec : UInt8 → σ → TOut σ} {f : UInt8 → Bytes → Option Nat} (kt vt : UInt8)
    (HK : ∀ s, P s → TMw rem P live (rec kt s) (f kt (rem s)) s)
    (HV : ∀ s, P s → TMw rem P live (rec vt s) (f vt (rem s)) s) :
    ∀ cnt s, P s → TMw rem P live (tplMapLoop rec kt vt cnt s) (refKV (f kt) (f vt) cnt (rem s)) s := by
  intro cnt
  induction cnt with
  | zero => intro s hs; right; exact ⟨0, s, rfl, rfl, by simp, hs⟩
  | succ cnt ih =>
    intro s hs
    simp only [tplMapLoop, refKV]
    rcases HK s hs with ⟨e, hx, hnone⟩ | ⟨k, s1, ho, hx, hrem, hp1⟩
    · left; exact ⟨e, by simp [hx], fun l => by simp [hnone l]⟩
    · simp only [hx, ho, Out.bind_eq, Out.bind_ok]
      rcases HV s1 hp1 with ⟨e, hy, hnone⟩ | ⟨v, s2, ho1, hy, hrem1, hp2⟩
      · left; exact ⟨e, by simp [hy], fun l => by rw [← hrem]; simp [hnone l]⟩
      · rw [hrem] at ho1
        simp only [hy, ho1, Out.bind_ok]
        rcases ih s2 hp2 with ⟨e, hz, hnone⟩ | ⟨k2, s3, ho2, hz, hrem2, hp3⟩
        · left; refine ⟨e, hz, fun l => ?_⟩
          have := hnone l
          rw [hrem1, hrem, List.drop_drop] at this
          rw [this]
        · right
          rw [hrem1, hrem, List.drop_drop] at ho2
          refine ⟨k + v + k2, s3, by rw [ho2], hz, ?_, hp3⟩
          rw [hrem2, hrem1, hrem, List.drop_drop, List.drop_drop]
          congr 1; omega

/-- one `SkipN k` whose returned bytes are not inspected -/
theorem skipNW (hC : WCursor B rem P live bound) (s : σ) (hs : P s) (k : Nat) (hk : k ≤ bound) :
    TMw rem P live (do let (_, s1) ← B.skipN s k; pure s1) (if k ≤ (rem s).length then some k else none) s := by
  rcases hC.step s k hs hk with ⟨s1, hx, hle, hrem, hp1⟩ | ⟨e, hx, hl⟩
  · right; exact ⟨k, s1, by simp [hle], by simp [hx], hrem, hp1⟩
  · left; refine ⟨e, by simp [hx], fun l => ?_⟩
    have := hl l
    rw [if_neg]; omega

theorem tplStructLoopW (hC : WCursor B rem P live bound) (hb : tplReq ≤ bound)
    {rec : UInt8 → σ → TOut σ} {f : UInt8 → Bytes → Option Nat}
    (HR : ∀ t s, P s → TMw rem P live (rec t s) (f t (rem s)) s) :
    ∀ fuel s, P s → (rem s).length < fuel →
      TMw rem P live (tplStructLoop B rec fuel s) (refFields f fuel (rem s)) s := by
  have hb1 : 1 ≤ bound := Nat.le_trans (by decide) hb
  have hb2 : 2 ≤ bound := Nat.le_trans (by decide) hb
  intro fuel
  induction fuel with
  | zero => intro s _ h; omega
  | succ fuel ih =>
    intro s hs hfuel
    simp only [tplStructLoop]
    rcases hC.step s 1 hs hb1 with ⟨s1, hx, hle, hrem1, hp1⟩ | ⟨e, hx, hl⟩
    · cases hrem : rem s with
      | nil => rw [hrem] at hle; simp at hle
      | cons t rest =>
        rw [hrem] at hx hrem1
        simp only [List.take_succ_cons, List.take_zero, List.drop_succ_cons, List.drop_zero] at hx hrem1
        have hi : idx [t] 0 = .ok t := by simp [idx]
        simp only [hx, Out.bind_eq, Out.bind_ok, hi, refFields, T_STOP_eq]
        by_cases ht : t = 0
        · right
          simp only [ht, if_true, Out.pure_eq]
          exact ⟨1, s1, rfl, rfl, by simp [hrem1, hrem], hp1⟩
        · simp only [ht, if_false]
          rcases hC.step s1 2 hp1 hb2 with ⟨s2, hy, hle2, hrem2, hp2⟩ | ⟨e, hy, hl⟩
          · rw [hrem1] at hy hrem2 hle2
            have hl2 : ¬ rest.length < 2 := by omega
            simp only [hy, Out.bind_ok, hl2, if_false]
            rcases HR t s2 hp2 with ⟨e, hz, hnone⟩ | ⟨k, s3, ho, hz, hrem3, hp3⟩
            · left; exact ⟨e, by simp [hz], fun l => by rw [← hrem2]; simp [hnone l]⟩
            · rw [hrem2] at ho
              simp only [hz, ho, Out.bind_ok]
              have hlen : (rem s3).length < fuel := by
                rw [hrem3, hrem2]; rw [hrem] at hfuel; simp at hfuel ⊢; omega
              rcases ih s3 hp3 hlen with ⟨e, hw, hnone⟩ | ⟨k2, s4, ho2, hw, hrem4, hp4⟩
              · left; refine ⟨e, hw, fun l => ?_⟩
                have := hnone l
                rw [hrem3, hrem2, List.drop_drop] at this
                rw [this]
              · right
                rw [hrem3, hrem2, List.drop_drop] at ho2
                refine ⟨3 + k + k2, s4, by rw [ho2], hw, ?_, hp4⟩
                rw [hrem4, hrem3, hrem2, List.drop_drop, List.drop_drop]
                have : 3 + k + k2 = (2 + k + k2) + 1 := by omega
                rw [this, hrem, List.drop_succ_cons]
                congr 1; omega
          · left
            refine ⟨e, by simp [hy], fun l => ?_⟩
            have := hl l
            rw [hrem1] at this
            simp [this]
    · left
      refine ⟨e, by simp [hx], fun l => ?_⟩
      have := hl l
      have h0 : rem s = [] := by apply List.eq_nil_of_length_eq_zero; omega
      rw [h0]; rfl

theorem tpl_string_caseW (hC : WCursor B rem P live bound) (hb : tplReq ≤ bound) (s : σ) (hs : P s) :
    TMw rem P live (do
        let (b, s1) ← B.skipN s 4
        let v ← u32of b
        let n := toI32 v
        if n < 0 then .err errNeg else do
        let (_, s2) ← B.skipN s1 n.toNat
        pure s2) (refStr (rem s)) s := by
  simp only [refStr, Out.bind_eq]
  rcases hC.step s 4 hs (Nat.le_trans (by decide) hb) with ⟨s1, hx, h4, hrem1, hp1⟩ | ⟨e, hx, hl⟩
  · have hl4 : 4 ≤ ((rem s).take 4).length := by simp; omega
    simp only [hx, Out.bind_ok, u32of_ok _ hl4, rd32_take _ 4 (by omega) h4]
    have hlt := rd32_lt (rem s)
    by_cases hn : rd32 (rem s) < 2147483648
    · have hnn : ¬ toI32 (rd32 (rem s)) < 0 := by rw [toI32_neg_iff _ hlt]; simpa using hn
      simp only [hnn, if_false, toI32_toNat _ hn]
      have hm := skipNW hC s1 hp1 (rd32 (rem s)) (by unfold tplReq at hb; omega)
      simp only [Out.bind_eq] at hm
      rcases hm with ⟨e, hy, hnone⟩ | ⟨k, s2, ho, hy, hrem2, hp2⟩
      · left; refine ⟨e, hy, fun l => ?_⟩
        have := hnone l
        rw [hrem1] at this
        simp only [List.length_drop] at this
        split at this
        · cases this
        · rw [if_neg]; omega
      · right
        rw [hrem1] at ho
        simp only [List.length_drop] at ho
        split at ho
        · cases ho
          refine ⟨4 + rd32 (rem s), s2, ?_, hy, by rw [hrem2, hrem1, List.drop_drop], hp2⟩
          rw [if_pos]; exact ⟨h4, hn, by omega⟩
        · cases ho
    · have hnn : toI32 (rd32 (rem s)) < 0 := by rw [toI32_neg_iff _ hlt]; exact hn
      left; exact ⟨errNeg, by simp [hnn], fun _ => by rw [if_neg]; omega⟩
  · left
    refine ⟨e, by simp [hx], fun l => ?_⟩
    have := hl l
    rw [if_neg]; omega

theorem tpl_map_caseW (hC : WCursor B rem P live bound) (hb : tplReq ≤ bound) (d : Nat)
    (ih : ∀ t s, P s → TMw rem P live (skipTplAt B d t s) (refTpl d t (rem s)) s) (s : σ) (hs : P s) :
    TMw rem P live (do
        let (b, s1) ← B.skipN s 6
        let kt ← idx b 0
        let vt ← idx b 1
        let v ← u32of (b.drop 2)
        let n := toI32 v
        if n < 0 then .err errNeg else do
        let ksz ← (.ok ((fixedSize kt : Nat) : Int) : TOut Int)
        let vsz ← (.ok ((fixedSize vt : Nat) : Int) : TOut Int)
        if ksz > 0 ∧ vsz > 0 then do
          let (_, s2) ← B.skipN s1 (n.toNat * (ksz.toNat + vsz.toNat)); pure s2
        else tplMapLoop (skipTplAt B d) kt vt n.toNat s1)
      (mapBody (tplK (refTpl d)) (tplV (refTpl d)) (rem s)) s := by
  simp only [Out.bind_eq, Out.bind_ok, mapBody]
  rcases hC.step s 6 hs (Nat.le_trans (by decide) hb) with ⟨s1, hx, h6, hrem1, hp1⟩ | ⟨e, hx, hl⟩
  · obtain ⟨kt, vt, x0, x1, x2, x3, tl0, hr0⟩ := exists_cons6 (rem s) h6
    obtain ⟨rest, hr, hrest⟩ : ∃ rest, rem s = kt :: vt :: rest ∧ 4 ≤ rest.length :=
      ⟨x0 :: x1 :: x2 :: x3 :: tl0, hr0, by simp⟩
    clear hr0
    simp only [hr]
    rw [hr] at hx hrem1
    simp only [hx, Out.bind_ok, hrest, true_and]
    have e0 : idx (List.take 6 (kt :: vt :: rest)) 0 = .ok kt := by simp [idx]
    have e1 : idx (List.take 6 (kt :: vt :: rest)) 1 = .ok vt := by simp [idx]
    have e2 : u32of (List.drop 2 (List.take 6 (kt :: vt :: rest))) = .ok (rd32 rest) := by
      have : List.drop 2 (List.take 6 (kt :: vt :: rest)) = List.take 4 rest := by simp
      rw [this, u32of_ok _ (by simp; omega), rd32_take rest 4 (by omega) hrest]
    simp only [e0, e1, e2, Out.bind_ok]
    have hlt := rd32_lt rest
    generalize rd32 rest = N at hlt ⊢
    have hrem1' : rem s1 = List.drop 4 rest := by simpa using hrem1
    have hdrop : ∀ X, List.drop X (List.drop 4 rest) = List.drop (6 + X) (rem s) := by
      intro X; rw [hr, List.drop_drop, Nat.add_comm 6, Nat.add_comm 4]; rfl
    generalize List.drop 4 rest = tl at hrem1' hdrop ⊢
    by_cases hn : N < 2147483648
    · have hnn : ¬ toI32 N < 0 := by rw [toI32_neg_iff _ hlt]; simpa using hn
      simp only [hnn, hn, if_true, if_false, toI32_toNat _ hn]
      by_cases hfast : ((fixedSize kt : Nat) : Int) > 0 ∧ ((fixedSize vt : Nat) : Int) > 0
      · have hk : 0 < fixedSize kt := by omega
        have hv : 0 < fixedSize vt := by omega
        simp only [hfast, and_self, if_true, Int.toNat_natCast]
        have hK : tplK (refTpl d) kt vt = fixedFn kt := by unfold tplK; simp [hk, hv]
        have hV : tplV (refTpl d) kt vt = fixedFn vt := by unfold tplV; simp [hk, hv]
        rw [hK, hV, refKV_fixed (fixedSize kt) (fixedSize vt) hk hv (fixedFn kt) (fixedFn vt)
          (fun _ => rfl) (fun _ => rfl)]
        have hm := skipNW hC s1 hp1 (N * (fixedSize kt + fixedSize vt))
          (Nat.le_trans (mul_le_tplReq N _ _ hn (fixedSize_le kt) (fixedSize_le vt)) hb)
        simp only [Out.bind_eq] at hm
        rw [hrem1'] at hm
        rcases hm with ⟨e, hy, hnone⟩ | ⟨k, s2, ho, hy, hrem2, hp2⟩
        · left; refine ⟨e, hy, fun l => ?_⟩
          have := hnone l
          split at this
          · cases this
          · rename_i hfit; simp [hfit]
        · right
          split at ho
          · rename_i hfit
            cases ho
            refine ⟨6 + N * (fixedSize kt + fixedSize vt), s2, by simp [hfit], hy, ?_, hp2⟩
            rw [hrem2, hrem1', hdrop]
          · cases ho
      · simp only [hfast, if_false]
        have hK : tplK (refTpl d) kt vt = refTpl d kt := by
          unfold tplK; split
          · rename_i hc; exfalso; apply hfast; omega
          · rfl
        have hV : tplV (refTpl d) kt vt = refTpl d vt := by
          unfold tplV; split
          · rename_i hc; exfalso; apply hfast; omega
          · rfl
        rw [hK, hV]
        have hm := tplMapLoopW (rem := rem) (P := P) (live := live) (f := refTpl d) kt vt
          (fun s hs => ih kt s hs) (fun s hs => ih vt s hs) N s1 hp1
        rw [hrem1'] at hm
        rcases hm with ⟨e, hy, hnone⟩ | ⟨k, s2, ho, hy, hrem2, hp2⟩
        · left; exact ⟨e, hy, fun l => by simp [hnone l]⟩
        · right
          refine ⟨6 + k, s2, by simp [ho], hy, ?_, hp2⟩
          rw [hrem2, hrem1', hdrop]
    · have hnn : toI32 N < 0 := by rw [toI32_neg_iff _ hlt]; exact hn
      left; exact ⟨errNeg, by simp [hnn], fun _ => by simp [hn]⟩
  · left
    refine ⟨e, by simp [hx], fun l => ?_⟩
    have hlt : (rem s).length < 6 := hl l
    match hr : rem s with
    | [] => rfl
    | [_] => rfl
    | kt :: vt :: rest =>
      have : ¬ 4 ≤ rest.length := by rw [hr] at hlt; simp at hlt; omega
      simp [this]

theorem tpl_list_caseW (hC : WCursor B rem P live bound) (hb : tplReq ≤ bound) (d : Nat)
    (ih : ∀ t s, P s → TMw rem P live (skipTplAt B d t s) (refTpl d t (rem s)) s) (s : σ) (hs : P s) :
    TMw rem P live (do
        let (b, s1) ← B.skipN s 5
        let vt ← idx b 0
        let v ← u32of (b.drop 1)
        let n := toI32 v
        if n < 0 then .err errNeg else do
        let vsz ← (.ok ((fixedSize vt : Nat) : Int) : TOut Int)
        if vsz > 0 then do
          let (_, s2) ← B.skipN s1 (n.toNat * vsz.toNat); pure s2
        else tplListLoop (skipTplAt B d) vt n.toNat s1)
      (listBody (gFix (refTpl d)) (rem s)) s := by
  simp only [Out.bind_eq, Out.bind_ok, listBody]
  rcases hC.step s 5 hs (Nat.le_trans (by decide) hb) with ⟨s1, hx, h5, hrem1, hp1⟩ | ⟨e, hx, hl⟩
  · obtain ⟨et, x0, x1, x2, x3, tl0, hr0⟩ := exists_cons5 (rem s) h5
    obtain ⟨rest, hr, hrest⟩ : ∃ rest, rem s = et :: rest ∧ 4 ≤ rest.length :=
      ⟨x0 :: x1 :: x2 :: x3 :: tl0, hr0, by simp⟩
    clear hr0
    simp only [hr]
    rw [hr] at hx hrem1
    simp only [hx, Out.bind_ok, hrest, true_and]
    have e0 : idx (List.take 5 (et :: rest)) 0 = .ok et := by simp [idx]
    have e2 : u32of (List.drop 1 (List.take 5 (et :: rest))) = .ok (rd32 rest) := by
      have : List.drop 1 (List.take 5 (et :: rest)) = List.take 4 rest := by simp
      rw [this, u32of_ok _ (by simp; omega), rd32_take rest 4 (by omega) hrest]
    simp only [e0, e2, Out.bind_ok]
    have hlt := rd32_lt rest
    generalize rd32 rest = N at hlt ⊢
    have hrem1' : rem s1 = List.drop 4 rest := by simpa using hrem1
    have hdrop : ∀ X, List.drop X (List.drop 4 rest) = List.drop (5 + X) (rem s) := by
      intro X; rw [hr, List.drop_drop, Nat.add_comm 5, Nat.add_comm 4]; rfl
    generalize List.drop 4 rest = tl at hrem1' hdrop ⊢
    by_cases hn : N < 2147483648
    · have hnn : ¬ toI32 N < 0 := by rw [toI32_neg_iff _ hlt]; simpa using hn
      simp only [hnn, hn, if_true, if_false, toI32_toNat _ hn]
      by_cases hfast : ((fixedSize et : Nat) : Int) > 0
      · have hv : 0 < fixedSize et := by omega
        simp only [hfast, if_true, Int.toNat_natCast]
        have hL : gFix (refTpl d) et = fixedFn et := by funext b; unfold gFix; simp [hv]
        rw [hL, refN_fixed (fixedSize et) hv (fixedFn et) (fun _ => rfl)]
        have hbnd : N * fixedSize et ≤ bound := by
          have := mul_le_tplReq N (fixedSize et) 0 hn (fixedSize_le et) (by omega)
          simp only [Nat.add_zero] at this
          exact Nat.le_trans this hb
        have hm := skipNW hC s1 hp1 (N * fixedSize et) hbnd
        simp only [Out.bind_eq] at hm
        rw [hrem1'] at hm
        rcases hm with ⟨e, hy, hnone⟩ | ⟨k, s2, ho, hy, hrem2, hp2⟩
        · left; refine ⟨e, hy, fun l => ?_⟩
          have := hnone l
          split at this
          · cases this
          · rename_i hfit; simp [hfit]
        · right
          split at ho
          · rename_i hfit
            cases ho
            refine ⟨5 + N * fixedSize et, s2, by simp [hfit], hy, ?_, hp2⟩
            rw [hrem2, hrem1', hdrop]
          · cases ho
      · simp only [hfast, if_false]
        have hL : gFix (refTpl d) et = refTpl d et := by
          funext b; unfold gFix
          have : ¬ fixedSize et > 0 := by omega
          simp [this]
        rw [hL]
        have hm := tplListLoopW (rem := rem) (P := P) (live := live) (f := refTpl d) et
          (fun s hs => ih et s hs) N s1 hp1
        rw [hrem1'] at hm
        rcases hm with ⟨e, hy, hnone⟩ | ⟨k, s2, ho, hy, hrem2, hp2⟩
        · left; exact ⟨e, hy, fun l => by simp [hnone l]⟩
        · right
          refine ⟨5 + k, s2, by simp [ho], hy, ?_, hp2⟩
          rw [hrem2, hrem1', hdrop]
    · have hnn : toI32 N < 0 := by rw [toI32_neg_iff _ hlt]; exact hn
      left; exact ⟨errNeg, by simp [hnn], fun _ => by simp [hn]⟩
  · left
    refine ⟨e, by simp [hx], fun l => ?_⟩
    have hlt : (rem s).length < 5 := hl l
    match hr : rem s with
    | [] => rfl
    | et :: rest =>
      have : ¬ 4 ≤ rest.length := by rw [hr] at hlt; simp at hlt; omega
      simp [this]

/-- SkipDecoderTpl.Skip over a weak cursor: soundness (any source) and exactness (live sources) -/
theorem skipTplAtW (hC : WCursor B rem P live bound) (hb : tplReq ≤ bound) :
    ∀ d t s, P s → TMw rem P live (skipTplAt B d t s) (refTpl d t (rem s)) s := by
  intro d
  induction d with
  | zero => intro t s _; left; exact ⟨errDepth, rfl, fun _ => rfl⟩
  | succ d ih =>
    intro t s hs
    have hG := refTpl_good d
    simp only [skipTplAt, refTpl, typeSize_eq, Out.bind_eq, Out.bind_ok]
    unfold layerG
    by_cases hf : 0 < fixedSize t
    · have : ((fixedSize t : Nat) : Int) > 0 := by omega
      simp only [this, hf, if_true, Int.toNat_natCast]
      have := skipNW hC s hs (fixedSize t) (by have := fixedSize_le t; unfold tplReq at hb; omega)
      simpa using this
    · have h0 : fixedSize t = 0 := by omega
      simp only [h0, Int.natCast_zero, gt_iff_lt, Int.lt_irrefl, Nat.lt_irrefl, if_false,
        T_STRING_eq, T_MAP_eq, T_LIST_eq, T_SET_eq, T_STRUCT_eq]
      by_cases hstr : t = TT.STRING
      · simp only [hstr, if_true]
        have := tpl_string_caseW hC hb s hs
        simpa using this
      · simp only [hstr, if_false]
        by_cases hst : t = TT.STRUCT
        · simp only [hst, if_true]
          have hav := hC.avail s hs
          have := tplStructLoopW hC hb (fun t s hs => ih t s hs) (B.avail s + 1) s hs (by omega)
          rw [refFields_fuel_eq hG (rem s) (B.avail s + 1) ((rem s).length + 1) (by omega) (by omega)] at this
          exact this
        · simp only [hst, if_false]
          by_cases hm : t = TT.MAP
          · subst hm
            simp only [show ¬ (TT.MAP = TT.LIST ∨ TT.MAP = TT.SET) by decide,
              show ¬ (TT.MAP = TT.SET ∨ TT.MAP = TT.LIST) by decide, if_true, if_false]
            have := tpl_map_caseW hC hb d ih s hs
            simpa using this
          · simp only [hm, if_false]
            by_cases hl : t = TT.LIST ∨ t = TT.SET
            · have hl' : t = TT.SET ∨ t = TT.LIST := hl.symm
              simp only [hl, hl', if_true]
              have := tpl_list_caseW hC hb d ih s hs
              simpa using this
            · have hl' : ¬ (t = TT.SET ∨ t = TT.LIST) := fun h => hl h.symm
              simp only [hl, hl', if_false]
              left; exact ⟨errUnknownType, rfl, fun _ => rfl⟩
end

end Verif

/-
  Lemmas/Pools: the scheduler of Model/Pools — pool invariant, isolation by simulation.
-/
import Verif.Model.Pools
namespace Verif.Pools
open Verif

variable {K : Kind}

/-- the invariant of the shared state and of the live instances: everything in the object pool is
    `Fresh`, every live instance refines some state of the allocator-free machine -/
structure WF (G : Good K) (s : Sys K) : Prop where
  objs : ∀ o ∈ s.objs, G.Fresh o
  live : ∀ j x, s.live j = some x → ∃ a, G.Ref x a

theorem WF.empty (G : Good K) : WF G (Sys.empty : Sys K) :=
  ⟨fun _ h => (by cases h), fun _ _ h => (by cases h)⟩

theorem getObj_fresh (G : Good K) (objs : List K.Obj) (a : K.Arg) (pick : Option Nat)
    (h : ∀ o ∈ objs, G.Fresh o) :
    G.Fresh (getObj K objs a pick).1 ∧ ∀ o ∈ (getObj K objs a pick).2, G.Fresh o := by
  unfold getObj
  cases pick with
  | none => exact ⟨G.zero_fresh a, h⟩
  | some j =>
    simp only []
    cases hj : objs[j]? with
    | none => exact ⟨G.zero_fresh a, h⟩
    | some o =>
      simp only []
      split
      · exact ⟨h o (List.mem_of_getElem? hj), fun o' ho' => h o' (List.mem_of_mem_eraseIdx ho')⟩
      · exact ⟨G.zero_fresh a, h⟩

theorem WF.step (G : Good K) {s : Sys K} (h : WF G s) (e : Ev K) : WF G (s.step e) := by
  cases e with
  | create i a pick =>
    simp only [Sys.step]
    cases hl : s.live i with
    | some _ => exact h
    | none =>
      simp only []
      have hg := getObj_fresh G s.objs a pick h.objs
      refine ⟨hg.2, fun j x hx => ?_⟩
      simp only [] at hx
      split at hx
      · cases hx; exact ⟨_, G.init_ref _ a hg.1⟩
      · exact h.live j x hx
  | op i o picks fresh =>
    simp only [Sys.step]
    cases hl : s.live i with
    | none => exact h
    | some st =>
      simp only []
      obtain ⟨x, hx⟩ := h.live i st hl
      refine ⟨h.objs, fun j y hy => ?_⟩
      simp only [] at hy
      split at hy
      · cases hy; exact ⟨_, (G.step_ref _ st x o hx).1⟩
      · exact h.live j y hy
  | release i =>
    simp only [Sys.step]
    cases hl : s.live i with
    | none => exact h
    | some st =>
      simp only []
      obtain ⟨x, hx⟩ := h.live i st hl
      refine ⟨fun o ho => ?_, fun j y hy => ?_⟩
      · rcases List.mem_cons.mp ho with rfl | ho
        · exact G.release_fresh st x hx
        · exact h.objs o ho
      · simp only [] at hy
        split at hy
        · cases hy
        · exact h.live j y hy

theorem WF.run (G : Good K) {s : Sys K} (h : WF G s) (evs : List (Ev K)) : WF G (s.run evs) := by
  induction evs generalizing s with
  | nil => exact h
  | cons e evs ih => exact ih (h.step G e)

/-! ## an event of another instance does not touch instance `i` -/

theorem step_live_other (s : Sys K) (e : Ev K) (i : Nat) (hne : e.inst ≠ i) : (s.step e).live i = s.live i := by
  cases e with
  | create j a pick =>
    simp only [Ev.inst] at hne
    simp only [Sys.step]; split
    · rfl
    · simp only []; rw [if_neg (Ne.symm hne)]
  | op j o picks fresh =>
    simp only [Ev.inst] at hne
    simp only [Sys.step]; split
    · rfl
    · simp only []; rw [if_neg (Ne.symm hne)]
  | release j =>
    simp only [Ev.inst] at hne
    simp only [Sys.step]; split
    · rfl
    · simp only []; rw [if_neg (Ne.symm hne)]

theorem outputs_append (s : Sys K) (l : List (Nat × K.Out)) (i : Nat) :
    ({ s with log := s.log ++ l } : Sys K).outputs i =
      s.outputs i ++ l.filterMap (fun e => if e.1 = i then some e.2 else none) := by
  simp [Sys.outputs, List.filterMap_append]

theorem step_outputs_other (s : Sys K) (e : Ev K) (i : Nat) (hne : e.inst ≠ i) :
    (s.step e).outputs i = s.outputs i := by
  cases e with
  | create j a pick => simp only [Sys.step]; split <;> rfl
  | op j o picks fresh =>
    simp only [Ev.inst] at hne
    simp only [Sys.step]; split
    · rfl
    · simp [Sys.outputs, List.filterMap_append, hne]
  | release j => simp only [Sys.step]; split <;> rfl

/-! ## the simulation -/

/-- instance `i` in the whole system `s` and in its solo run `t` -/
structure Rel (G : Good K) (i : Nat) (s t : Sys K) : Prop where
  wfs : WF G s
  wft : WF G t
  live : (s.live i = none ∧ t.live i = none) ∨
         (∃ x y a, s.live i = some x ∧ t.live i = some y ∧ G.Ref x a ∧ G.Ref y a)
  out : s.outputs i = t.outputs i

theorem Rel.other (G : Good K) {i : Nat} {s t : Sys K} (h : Rel G i s t) (e : Ev K) (hne : e.inst ≠ i) :
    Rel G i (s.step e) t :=
  ⟨h.wfs.step G e, h.wft, by rw [step_live_other s e i hne]; exact h.live,
   by rw [step_outputs_other s e i hne]; exact h.out⟩

theorem Rel.same (G : Good K) {i : Nat} {s t : Sys K} (h : Rel G i s t) (e : Ev K) (he : e.inst = i) :
    Rel G i (s.step e) (t.step e.solo) := by
  refine ⟨h.wfs.step G e, h.wft.step G _, ?_, ?_⟩
  · cases e with
    | create j a pick =>
      simp only [Ev.inst] at he; subst he
      simp only [Ev.solo, Sys.step]
      rcases h.live with ⟨hs, ht⟩ | ⟨x, y, a', hs, ht, hx, hy⟩
      · rw [hs, ht]; simp only [if_true]
        right
        have hg := getObj_fresh G s.objs a pick h.wfs.objs
        have hg' := getObj_fresh G t.objs a none h.wft.objs
        exact ⟨_, _, G.ainit a, rfl, rfl, G.init_ref _ a hg.1, G.init_ref _ a hg'.1⟩
      · rw [hs, ht]; right; exact ⟨x, y, a', hs, ht, hx, hy⟩
    | op j o picks fresh =>
      simp only [Ev.inst] at he; subst he
      simp only [Ev.solo, Sys.step]
      rcases h.live with ⟨hs, ht⟩ | ⟨x, y, a', hs, ht, hx, hy⟩
      · rw [hs, ht]; left; exact ⟨hs, ht⟩
      · rw [hs, ht]; simp only [if_true]
        right
        exact ⟨_, _, (G.astep a' o).1, rfl, rfl, (G.step_ref _ x a' o hx).1, (G.step_ref _ y a' o hy).1⟩
    | release j =>
      simp only [Ev.inst] at he; subst he
      simp only [Ev.solo, Sys.step]
      rcases h.live with ⟨hs, ht⟩ | ⟨x, y, a', hs, ht, hx, hy⟩
      · rw [hs, ht]; left; exact ⟨hs, ht⟩
      · rw [hs, ht]; left; simp
  · cases e with
    | create j a pick =>
      simp only [Ev.solo, Sys.step]
      have := h.out
      split <;> split <;> exact this
    | op j o picks fresh =>
      simp only [Ev.inst] at he; subst he
      simp only [Ev.solo, Sys.step]
      rcases h.live with ⟨hs, ht⟩ | ⟨x, y, a', hs, ht, hx, hy⟩
      · rw [hs, ht]; exact h.out
      · rw [hs, ht]
        simp only [Sys.outputs, List.filterMap_append, List.filterMap_cons, List.filterMap_nil, if_true]
        have h1 := (G.step_ref (dirtyOf s.bufs picks fresh) x a' o hx).2
        have h2 := (G.step_ref (dirtyOf t.bufs [] (fun _ _ => 0)) y a' o hy).2
        rw [h1, h2]
        have := h.out
        simp only [Sys.outputs] at this
        rw [this]
    | release j =>
      simp only [Ev.solo, Sys.step]
      have := h.out
      split <;> split <;> exact this

theorem solo_cons (i : Nat) (e : Ev K) (evs : List (Ev K)) :
    solo i (e :: evs) = if e.inst = i then e.solo :: solo i evs else solo i evs := by
  unfold solo
  by_cases h : e.inst = i <;> simp [h]

theorem Rel.run (G : Good K) (i : Nat) (evs : List (Ev K)) :
    ∀ {s t : Sys K}, Rel G i s t → Rel G i (s.run evs) (t.run (solo i evs)) := by
  induction evs with
  | nil => intro s t h; exact h
  | cons e evs ih =>
    intro s t h
    rw [solo_cons]
    by_cases he : e.inst = i
    · rw [if_pos he]; exact ih (h.same G e he)
    · rw [if_neg he]; exact ih (h.other G e he)

theorem Rel.start (G : Good K) (i : Nat) : Rel G i (Sys.empty : Sys K) Sys.empty :=
  ⟨WF.empty G, WF.empty G, Or.inl ⟨rfl, rfl⟩, rfl⟩

/-- isolation for a good kind -/
theorem isolation_of_good (G : Good K) (evs : List (Ev K)) (i : Nat) :
    ((Sys.empty : Sys K).run evs).outputs i = alone i evs :=
  ((Rel.start G i).run G i evs).out

end Verif.Pools

/-
  Lemmas/GrammarLocal: the reference grammar is *local* — whether a value is present and how long it
  is depends only on the bytes of the value itself, never on what follows. Consequences: a value
  followed by arbitrary bytes has the same extent; a strict prefix of a value is never a value.
-/
import Verif.Lemmas.Grammar
namespace Verif

/-- f's answer depends only on the bytes it reports -/
def Local (f : Bytes → Option Nat) : Prop := ∀ b n, f b = some n → ∀ c, f (b.take n ++ c) = some n

theorem take_add_append (b : Bytes) (a r : Nat) (c : Bytes) :
    b.take (a + r) ++ c = b.take a ++ ((b.drop a).take r ++ c) := by
  rw [List.take_add, List.append_assoc]

theorem drop_take_append (b : Bytes) (a : Nat) (h : a ≤ b.length) (c : Bytes) :
    (b.take a ++ c).drop a = c := by
  have : (b.take a).length = a := by simp; omega
  rw [List.drop_append_of_le_length (by omega)]
  simp [List.drop_eq_nil_of_le (Nat.le_of_eq this)]

theorem refN_local {f : Bytes → Option Nat} (hl : Local f) (hg : Good f) :
    ∀ n, Local (refN f n) := by
  intro n
  induction n with
  | zero => intro b k hk c; simp only [refN, Option.some.injEq] at hk; subst hk; simp [refN]
  | succ n ih =>
    intro b k hk c
    simp only [refN] at hk ⊢
    cases hf : f b with
    | none => simp [hf] at hk
    | some a =>
      simp only [hf] at hk
      cases hr : refN f n (b.drop a) with
      | none => simp [hr] at hk
      | some r =>
        simp only [hr, Option.some.injEq] at hk
        subst hk
        have ha := hg b a hf
        rw [take_add_append, hl b a hf]
        simp only [drop_take_append b a ha.2, ih _ _ hr c]

theorem refKV_local {f g : Bytes → Option Nat} (hlf : Local f) (hgf : Good f) (hlg : Local g) (hgg : Good g) :
    ∀ n, Local (refKV f g n) := by
  intro n
  induction n with
  | zero => intro b k hk c; simp only [refKV, Option.some.injEq] at hk; subst hk; simp [refKV]
  | succ n ih =>
    intro b k hk c
    simp only [refKV] at hk ⊢
    cases hf : f b with
    | none => simp [hf] at hk
    | some a =>
      simp only [hf] at hk
      cases hv : g (b.drop a) with
      | none => simp [hv] at hk
      | some v =>
        simp only [hv] at hk
        cases hr : refKV f g n (b.drop (a + v)) with
        | none => simp [hr] at hk
        | some r =>
          simp only [hr, Option.some.injEq] at hk
          subst hk
          have ha := hgf b a hf
          have hv' := hgg _ v hv
          simp only [List.length_drop] at hv'
          have hr' : refKV f g n ((b.drop a).drop v) = some r := by rw [List.drop_drop]; exact hr
          rw [Nat.add_assoc, take_add_append, hlf b a hf]
          simp only [drop_take_append b a ha.2]
          rw [take_add_append, hlg _ v hv]
          have h1 : ((b.drop a).take v ++ (((b.drop a).drop v).take r ++ c)).drop v = ((b.drop a).drop v).take r ++ c :=
            drop_take_append (b.drop a) v (by simp; omega) _
          have h2 : (b.take a ++ ((b.drop a).take v ++ (((b.drop a).drop v).take r ++ c))).drop (a + v)
              = ((b.drop a).drop v).take r ++ c := by
            rw [← List.drop_drop, drop_take_append b a ha.2, h1]
          simp only [h2, ih _ _ hr' c, Nat.add_assoc]

/-- more fuel never changes a successful field scan, and `extent + 1` is always enough -/
theorem refFields_fuel {f : UInt8 → Bytes → Option Nat} :
    ∀ fuel fuel' b k, refFields f fuel b = some k → k < fuel' → refFields f fuel' b = some k := by
  intro fuel
  induction fuel with
  | zero => intro fuel' b k h; simp [refFields] at h
  | succ fuel ih =>
    intro fuel' b k h hk
    cases fuel' with
    | zero => omega
    | succ fuel' =>
      cases b with
      | nil => simp [refFields] at h
      | cons t rest =>
        simp only [refFields] at h ⊢
        by_cases ht : t = 0
        · simpa [ht] using h
        · simp only [ht, if_false] at h ⊢
          by_cases hl : rest.length < 2
          · simp [hl] at h
          · simp only [hl, if_false] at h ⊢
            cases hf : f t (rest.drop 2) with
            | none => simp [hf] at h
            | some a =>
              simp only [hf] at h
              cases hr : refFields f fuel (rest.drop (2 + a)) with
              | none => simp [hr] at h
              | some r =>
                simp only [hr, Option.some.injEq] at h
                have := ih fuel' _ r hr (by omega)
                simp [this, h]

theorem refFields_local {f : UInt8 → Bytes → Option Nat} (hl : ∀ t, Local (f t)) (hg : ∀ t, Good (f t)) :
    ∀ fuel, Local (refFields f fuel) := by
  intro fuel
  induction fuel with
  | zero => intro b k hk; simp [refFields] at hk
  | succ fuel ih =>
    intro b k hk c
    cases b with
    | nil => simp [refFields] at hk
    | cons t rest =>
      simp only [refFields] at hk
      by_cases ht : t = 0
      · simp only [ht, if_true, Option.some.injEq] at hk
        subst hk; simp [refFields, ht]
      · simp only [ht, if_false] at hk
        by_cases hlen : rest.length < 2
        · simp [hlen] at hk
        · simp only [hlen, if_false] at hk
          cases hf : f t (rest.drop 2) with
          | none => simp [hf] at hk
          | some a =>
            simp only [hf] at hk
            cases hr : refFields f fuel (rest.drop (2 + a)) with
            | none => simp [hr] at hk
            | some r =>
              simp only [hr, Option.some.injEq] at hk
              subst hk
              have ha := hg t _ a hf
              simp only [List.length_drop] at ha
              have e1 : (t :: rest).take (3 + a + r) ++ c
                  = t :: (rest.take 2 ++ ((rest.drop 2).take a ++ (((rest.drop 2).drop a).take r ++ c))) := by
                have : 3 + a + r = (2 + (a + r)) + 1 := by omega
                rw [this, List.take_succ_cons, List.cons_append, take_add_append, take_add_append]
              rw [e1]
              simp only [refFields, ht, if_false]
              have hl2 : ¬ (rest.take 2 ++ ((rest.drop 2).take a ++ (((rest.drop 2).drop a).take r ++ c))).length < 2 := by
                simp; omega
              simp only [hl2, if_false]
              have d2 : (rest.take 2 ++ ((rest.drop 2).take a ++ (((rest.drop 2).drop a).take r ++ c))).drop 2
                  = (rest.drop 2).take a ++ (((rest.drop 2).drop a).take r ++ c) :=
                drop_take_append rest 2 (by omega) _
              rw [d2, hl t _ a hf]
              have d3 : (rest.take 2 ++ ((rest.drop 2).take a ++ (((rest.drop 2).drop a).take r ++ c))).drop (2 + a)
                  = ((rest.drop 2).drop a).take r ++ c := by
                rw [← List.drop_drop, d2, drop_take_append (rest.drop 2) a (by simp; omega)]
              simp only [d3]
              have hr' : refFields f fuel ((rest.drop 2).drop a) = some r := by rw [List.drop_drop]; exact hr
              have := ih _ r hr' c
              simp only [this]

theorem rd32_take_append (b : Bytes) (n : Nat) (c : Bytes) (hn : 4 ≤ n) (hb : 4 ≤ b.length) :
    rd32 (b.take n ++ c) = rd32 b := by
  obtain ⟨m, rfl⟩ : ∃ m, n = m + 1 + 1 + 1 + 1 := ⟨n - 4, by omega⟩
  match b, hb with
  | x0 :: x1 :: x2 :: x3 :: tl, _ =>
    rw [List.take_succ_cons, List.take_succ_cons, List.take_succ_cons, List.take_succ_cons]
    rfl

theorem refStr_local : Local refStr := by
  intro b n h c
  unfold refStr at h ⊢
  split at h
  · rename_i hc
    simp only [Option.some.injEq] at h
    subst h
    have h4 : 4 ≤ b.length := hc.1
    have hrd : rd32 (b.take (4 + rd32 b) ++ c) = rd32 b :=
      rd32_take_append b _ c (by omega) h4
    have hlen : (b.take (4 + rd32 b) ++ c).length = 4 + rd32 b + c.length := by
      simp; omega
    simp only [hrd, hlen, hc.2.1, true_and]
    have : 4 ≤ 4 + rd32 b + c.length ∧ 4 + rd32 b ≤ 4 + rd32 b + c.length := by omega
    simp [this]
  · simp at h

theorem layer_local {E : UInt8 → Bytes → Option Nat} (hl : ∀ t, Local (E t)) (hg : ∀ t, Good (E t))
    (t : UInt8) : Local (layer E t) := by
  intro b n h c
  have hgood := layer_good hg t b n h
  unfold layer at h ⊢
  by_cases hf : fixedSize t > 0
  · simp only [hf, if_true] at h ⊢
    split at h
    · simp only [Option.some.injEq] at h; subst h
      have : fixedSize t ≤ (b.take (fixedSize t) ++ c).length := by simp; omega
      simp only [this, if_true]
    · simp at h
  · simp only [hf, if_false] at h ⊢
    by_cases hs : t = TT.STRING
    · simp only [hs, if_true] at h ⊢; exact refStr_local b n h c
    · simp only [hs, if_false] at h ⊢
      by_cases hst : t = TT.STRUCT
      · simp only [hst, if_true] at h ⊢
        have h1 := refFields_local hl hg _ b n h c
        exact refFields_fuel _ _ _ _ h1 (by simp; omega)
      · simp only [hst, if_false] at h ⊢
        by_cases hls : t = TT.LIST ∨ t = TT.SET
        · simp only [hls, if_true] at h ⊢
          cases b with
          | nil => simp at h
          | cons et rest =>
            simp only at h
            split at h
            · rename_i hc
              cases hr : refN (E et) (rd32 rest) (rest.drop 4) with
              | none => simp [hr] at h
              | some r =>
                simp only [hr, Option.map_some, Option.some.injEq] at h
                subst h
                have hle := refN_le (hg et) _ _ _ hr
                simp only [List.length_drop] at hle
                have e1 : (et :: rest).take (5 + r) ++ c = et :: (rest.take 4 ++ ((rest.drop 4).take r ++ c)) := by
                  have : 5 + r = (4 + r) + 1 := by omega
                  rw [this, List.take_succ_cons, List.cons_append, take_add_append]
                rw [e1]
                simp only
                have hrd : rd32 (rest.take 4 ++ ((rest.drop 4).take r ++ c)) = rd32 rest :=
                  rd32_take_append rest 4 _ (by omega) hc.1
                have hlen4 : 4 ≤ (rest.take 4 ++ ((rest.drop 4).take r ++ c)).length := by simp; omega
                have d4 : (rest.take 4 ++ ((rest.drop 4).take r ++ c)).drop 4 = (rest.drop 4).take r ++ c :=
                  drop_take_append rest 4 hc.1 _
                simp only [hrd, hlen4, hc.2, and_self, if_true, d4]
                rw [refN_local (hl et) (hg et) _ _ r hr c]
                simp
            · simp at h
        · simp only [hls, if_false] at h ⊢
          by_cases hm : t = TT.MAP
          · simp only [hm, if_true] at h ⊢
            match b, h with
            | [], h => simp at h
            | [_], h => simp at h
            | kt :: vt :: rest, h =>
              simp only at h
              split at h
              · rename_i hc
                cases hr : refKV (E kt) (E vt) (rd32 rest) (rest.drop 4) with
                | none => simp [hr] at h
                | some r =>
                  simp only [hr, Option.map_some, Option.some.injEq] at h
                  subst h
                  have hle := refKV_le (hg kt) (hg vt) _ _ _ hr
                  simp only [List.length_drop] at hle
                  have e1 : (kt :: vt :: rest).take (6 + r) ++ c
                      = kt :: vt :: (rest.take 4 ++ ((rest.drop 4).take r ++ c)) := by
                    have : 6 + r = ((4 + r) + 1) + 1 := by omega
                    rw [this, List.take_succ_cons, List.take_succ_cons, List.cons_append, List.cons_append,
                      take_add_append]
                  rw [e1]
                  simp only
                  have hrd : rd32 (rest.take 4 ++ ((rest.drop 4).take r ++ c)) = rd32 rest :=
                    rd32_take_append rest 4 _ (by omega) hc.1
                  have hlen4 : 4 ≤ (rest.take 4 ++ ((rest.drop 4).take r ++ c)).length := by simp; omega
                  have d4 : (rest.take 4 ++ ((rest.drop 4).take r ++ c)).drop 4 = (rest.drop 4).take r ++ c :=
                    drop_take_append rest 4 hc.1 _
                  simp only [hrd, hlen4, hc.2, and_self, if_true, d4]
                  rw [refKV_local (hl kt) (hg kt) (hl vt) (hg vt) _ _ r hr c]
                  simp
              · simp at h
          · simp [hm] at h

theorem refLen_local : ∀ d t, Local (refLen d t) := by
  intro d
  induction d with
  | zero => intro t b n h; simp [refLen] at h
  | succ d ih => intro t; simp only [refLen]; exact layer_local ih (refLen_good d) t

/-- a well-formed value followed by arbitrary further bytes has exactly the value's extent -/
theorem refLen_append {d t} {v : Bytes} (h : refLen d t v = some v.length) (rest : Bytes) :
    refLen d t (v ++ rest) = some v.length := by
  have := refLen_local d t v v.length h rest
  simpa using this

/-- the extent of a value is unique across depth budgets -/
theorem refLen_unique {d d' t b n m} (h : refLen d t b = some n) (h' : refLen d' t b = some m) : n = m := by
  have h1 := refLen_mono (Nat.le_max_left d d') t b n h
  have h2 := refLen_mono (Nat.le_max_right d d') t b m h'
  rw [h1] at h2; exact Option.some.inj h2

/-- every strict prefix of a well-formed value is rejected, at every depth budget -/
theorem refLen_strict_prefix {d t b n} (h : refLen d t b = some n) (m : Nat) (hm : m < n) (d' : Nat) :
    refLen d' t (b.take m) = none := by
  cases hp : refLen d' t (b.take m) with
  | none => rfl
  | some k =>
    exfalso
    have hk := (refLen_good d' t _ k hp).2
    have hn := refLen_le h
    simp only [List.length_take] at hk
    -- extend the prefix back to b: locality gives the same extent k on b
    have hext := refLen_local d' t _ k hp (b.drop k)
    have : (b.take m).take k ++ b.drop k = b := by
      rw [List.take_take, Nat.min_eq_left (by omega), List.take_append_drop]
    rw [this] at hext
    have := refLen_unique h hext
    omega

end Verif

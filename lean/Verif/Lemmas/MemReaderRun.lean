/-
  Lemmas/MemReaderRun: reader histories.  `RStep` = one operation that is not Release, or one step of
  the environment (co-tenant / user allocations); `RStepR` adds Release.  The invariant holds along
  every history; protected bytes survive every Release-free history; caller memory survives everything.
-/
import Verif.Lemmas.MemReader
import Verif.Lemmas.MemSkip
namespace Verif.Mem
open Verif Verif.Heap

abbrev RSt := MRd × Heap

/-- one step between two Releases -/
inductive RStep : RSt → RSt → Prop
  | next (r : MRd) (h : Heap) (n : Int) : RStep (r, h) ((r.next h n).2.1, (r.next h n).2.2)
  | peek (r : MRd) (h : Heap) (n : Int) : RStep (r, h) ((r.peek h n).2.1, (r.peek h n).2.2)
  | skip (r : MRd) (h : Heap) (n : Int) : RStep (r, h) ((r.skip h n).2.1, (r.skip h n).2.2)
  | readBinary (r : MRd) (h : Heap) (bs : Slice) (hbs : GcDst h bs) :
      RStep (r, h) ((r.readBinary h bs).2.1, (r.readBinary h bs).2.2)
  /-- SkipDecoder.Next(t) on top of this reader (a run of Peeks, then one Next) -/
  | skipNext (r : MRd) (h : Heap) (t : UInt8) (s : Slice) (r' : MRd) (h' : Heap)
      (hrun : memSkipDecNext r h t = .ok (s, r', h')) : RStep (r, h) (r', h')
  /-- the environment: the co-tenant overwrites freed objects, allocates, scribbles over its own memory -/
  | env (r : MRd) (h h' : Heap) (he : Env h h') : RStep (r, h) (r, h')
  /-- the user allocates memory of its own (e.g. a destination for ReadBinary) -/
  | alloc (r : MRd) (h h' : Heap) (he : Extends h h') (hf : h'.faults = h.faults) : RStep (r, h) (r, h')

/-- any step of a history -/
inductive RStepR : RSt → RSt → Prop
  | step {a b : RSt} (s : RStep a b) : RStepR a b
  | release (r : MRd) (h : Heap) : RStepR (r, h) ((r.release h).1, (r.release h).2)

inductive RSteps : RSt → RSt → Prop
  | refl (a : RSt) : RSteps a a
  | cons {a b c : RSt} (s : RStep a b) (t : RSteps b c) : RSteps a c

inductive RStepsR : RSt → RSt → Prop
  | refl (a : RSt) : RStepsR a a
  | cons {a b c : RSt} (s : RStepR a b) (t : RStepsR b c) : RStepsR a c

theorem RStep.ok {a b : RSt} (s : RStep a b) (hi : RInv a.1 a.2) : StepOK a.1 a.2 b.1 b.2 := by
  cases s with
  | next r h n => exact (next_ok r h n hi).1
  | peek r h n => exact (peek_ok r h n hi).1
  | skip r h n => exact skip_ok r h n hi
  | readBinary r h bs hbs => exact readBinary_ok r h bs hi hbs
  | skipNext r h t s r' h' hrun => exact (memSkipDecNext_ok r h t s r' h' hrun hi).1
  | env r h h' he =>
    obtain ⟨i, f⟩ := hi.env he
    refine ⟨i, f, fun o x hx => ?_⟩
    obtain ⟨x', hx', a1, a2, a3, _⟩ := he.keep o x hx
    exact ⟨x', hx', a1, a2, a3⟩
  | alloc r h h' he hf =>
    exact ⟨hi.of_extends he (by rw [hf]; exact hi.nofault), Frame.of_extends hi he, Keeps.of_extends he⟩

theorem RSteps.ok {a b : RSt} (t : RSteps a b) (hi : RInv a.1 a.2) : StepOK a.1 a.2 b.1 b.2 := by
  induction t with
  | refl a => exact StepOK.refl hi
  | cons s _ ih => exact (s.ok hi).trans (ih (s.ok hi).inv)

theorem RStepsR.inv {a b : RSt} (t : RStepsR a b) (hi : RInv a.1 a.2) : RInv b.1 b.2 := by
  induction t with
  | refl a => exact hi
  | cons s _ ih =>
    apply ih
    cases s with
    | step s => exact (s.ok hi).inv
    | release r h => exact (release_ok r h hi).1

/-- caller-owned objects: still there, still the caller's, byte for byte what they were -/
def CallerSame (h h' : Heap) : Prop := ∀ o x, h.obj? o = some x → x.owner = .caller →
  ∃ x', h'.obj? o = some x' ∧ x'.owner = .caller ∧ x'.wfrom = x.wfrom ∧ x'.data = x.data

theorem CallerSame.refl (h : Heap) : CallerSame h h := fun _ x hx hc => ⟨x, hx, hc, rfl, rfl⟩
theorem CallerSame.trans {a b c : Heap} (h1 : CallerSame a b) (h2 : CallerSame b c) : CallerSame a c :=
  fun o x hx hc => by
    obtain ⟨y, hy, c1, w1, d1⟩ := h1 o x hx hc
    obtain ⟨z, hz, c2, w2, d2⟩ := h2 o y hy c1
    exact ⟨z, hz, c2, w2.trans w1, d2.trans d1⟩

theorem StepOK.callerSame {r r' : MRd} {h h' : Heap} (s : StepOK r h r' h') : CallerSame h h' := by
  intro o x hx hc
  obtain ⟨x', hx', ho, hw, hl⟩ := s.keeps o x hx
  refine ⟨x', hx', by rw [ho]; exact hc, hw, ?_⟩
  apply List.ext_getElem?; intro p
  have := (s.frame o p (Or.inr (Or.inr ⟨x, hx, hc⟩))).2
  rw [byte?_of_obj? h' o p x' hx', byte?_of_obj? h o p x hx] at this
  exact this

theorem RStepsR.callerSame {a b : RSt} (t : RStepsR a b) (hi : RInv a.1 a.2) : CallerSame a.2 b.2 := by
  induction t with
  | refl a => exact CallerSame.refl _
  | cons s _ ih =>
    cases s with
    | step s => exact (s.ok hi).callerSame.trans (ih (s.ok hi).inv)
    | release r h =>
      obtain ⟨i, k, _⟩ := release_ok r h hi
      refine CallerSame.trans ?_ (ih i)
      intro o x hx hc
      exact ⟨x, k o x hx (by rw [hc]; decide), hc, rfl, rfl⟩

/-- bytes seen through a slice inside the protected region do not change along a Release-free history -/
theorem view_stable {r : MRd} {h : Heap} {b : RSt} (s : Slice) (hi : RInv r h) (hp : InProt r h s)
    (t : RSteps (r, h) b) : b.2.view s = h.view s := by
  have ok := t.ok hi
  unfold Heap.view
  apply bytes_congr
  intro q h1 h2
  exact (ok.frame s.obj q (hp q h1 h2)).2

/-! ## initial states -/

theorem RInv.newDefault (src : Src) (h : Heap) (hf : h.faults = []) : RInv (MRd.newDefault src) h where
  nofault := hf
  ri_le := Nat.le_refl _
  len_le := Nat.le_refl _
  nil_pend := fun _ => rfl
  buf_ok := fun hc => by simp [MRd.newDefault, Slice.nil] at hc
  ro_src := fun hr => by simp [MRd.newDefault] at hr
  pend_ok := fun s hs => by simp [MRd.newDefault] at hs
  pend_nodup := by simp [MRd.newDefault]

/-- NewBytesReader on a slice of caller memory (any capacity, power of two or not) -/
theorem RInv.newBytes (buf : Slice) (h : Heap) (hf : h.faults = []) (hlen : buf.len ≤ buf.cap)
    (hb : ∃ x, h.obj? buf.obj = some x ∧ buf.off + buf.cap ≤ x.data.length ∧ x.owner = .caller) :
    RInv (MRd.newBytes buf) h := by
  unfold MRd.newBytes
  by_cases hc : buf.cap > 0
  · rw [if_pos hc]
    obtain ⟨x, hx, hbd, hcl⟩ := hb
    exact {
      nofault := hf
      ri_le := Nat.zero_le _
      len_le := hlen
      nil_pend := fun _ => rfl
      buf_ok := fun _ => ⟨x, hx, hbd, fun _ => hcl, fun hr => by simp at hr⟩
      ro_src := fun _ => rfl
      pend_ok := fun s hs => by simp at hs
      pend_nodup := by simp }
  · rw [if_neg hc]; exact RInv.newDefault _ h hf

end Verif.Mem

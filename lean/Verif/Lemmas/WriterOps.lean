/-
  Lemmas/WriterOps: the writer invariant `WInv` and what every model operation does to it and to
  the logical content: acquire (first allocation, growth), Malloc, WriteBinary, caller fill, Flush.
-/
import Verif.Lemmas.WriterInv
namespace Verif
open WLog

/-! ## sub-ranges of equal prefixes -/

theorem gslice_eq_of_prefix (c d : Bytes) (l lo hi : Nat) (h : gslice c 0 l = gslice d 0 l)
    (h2 : hi ≤ l) : gslice c lo hi = gslice d lo hi := by
  unfold gslice at *
  simp only [List.drop_zero] at h
  have e1 : c.take hi = (c.take l).take hi := by rw [List.take_take]; congr 1; omega
  have e2 : d.take hi = (d.take l).take hi := by rw [List.take_take]; congr 1; omega
  rw [e1, e2, h]

/-! ## the stitching loop of Flush -/

theorem stitch_spec (v : WView) (heap : Nat → Bytes) (ps : List (Nat × Nat)) (off : Nat)
    (hc : Chain off ps v.len) (hcur : v.len ≤ (heap v.obj).length)
    (hl : ∀ p ∈ ps, p.2 ≤ (heap p.1).length) (hne : ∀ p ∈ ps, p.1 ≠ v.obj) :
    ∃ heap' off', stitch v heap ps off = .ok (heap', off') ∧
      (∀ i, i ≠ v.obj → heap' i = heap i) ∧
      (heap' v.obj).length = (heap v.obj).length ∧
      gslice (heap' v.obj) 0 off = gslice (heap v.obj) 0 off ∧
      gslice (heap' v.obj) off v.len = logicalFrom heap v.obj v.len off ps ∧
      logicalFrom heap' v.obj v.len off ps = logicalFrom heap v.obj v.len off ps := by
  induction ps generalizing heap off with
  | nil => exact ⟨heap, off, rfl, fun _ _ => rfl, rfl, rfl, rfl, rfl⟩
  | cons p ps ih =>
    obtain ⟨p, l⟩ := p
    have h1 := hc.1
    have h2 := hc.2.le
    have hpl := hl (p, l) (List.mem_cons_self ..)
    have hpne := hne (p, l) (List.mem_cons_self ..)
    have hk : min (v.len - off) (l - off) = l - off := by omega
    have hseg : (gslice (heap p) off l).take (l - off) = gslice (heap p) off l := by
      apply List.take_of_length_le; rw [length_gslice _ _ _ hpl]; exact Nat.le_refl _
    have hseglen : (gslice (heap p) off l).length = l - off := length_gslice _ _ _ hpl
    simp only [stitch, hk, hseg]
    rw [if_neg (by omega), if_neg (by omega)]
    have hoff : off + (l - off) = l := by omega
    rw [hoff]
    have hfit : off + (gslice (heap p) off l).length ≤ (heap v.obj).length := by rw [hseglen]; omega
    let heap1 := hwrite heap v.obj off (gslice (heap p) off l)
    have hlen1 : (heap1 v.obj).length = (heap v.obj).length := by
      show (hwrite heap v.obj off (gslice (heap p) off l) v.obj).length = _
      rw [hwrite_same, length_overwrite _ _ _ hfit]
    obtain ⟨heap', off', e, f1, f2, f3, f4, f5⟩ := ih heap1 l hc.2 (by rw [hlen1]; exact hcur)
      (fun q hq => by
        show q.2 ≤ (hwrite heap v.obj off (gslice (heap p) off l) q.1).length
        rw [hwrite_other _ _ _ _ _ (hne q (List.mem_cons_of_mem _ hq))]
        exact hl q (List.mem_cons_of_mem _ hq))
      (fun q hq => hne q (List.mem_cons_of_mem _ hq))
    have hwb := logicalFrom_write_below heap v.obj v.len l ps off (gslice (heap p) off l)
      (by rw [hseglen]; omega) hc.2 hcur (fun q hq => hne q (List.mem_cons_of_mem _ hq))
    refine ⟨heap', off', e, ?_, ?_, ?_, ?_, ?_⟩
    rotate_left 4
    · simp only [logicalFrom]
      rw [f5, f1 p hpne]
      show gslice (hwrite heap v.obj off (gslice (heap p) off l) p) off l ++ _ = _
      rw [hwrite_other _ _ _ _ _ hpne]
      exact congrArg _ hwb
    · intro i hi; rw [f1 i hi]; exact hwrite_other _ _ _ _ _ hi
    · rw [f2, hlen1]
    · rw [gslice_eq_of_prefix _ _ l 0 off f3 h1]
      show gslice (hwrite heap v.obj off (gslice (heap p) off l) v.obj) 0 off = _
      rw [hwrite_same]
      exact gslice_overwrite_out _ _ _ _ _ (Or.inr (Nat.le_refl _)) hfit
    · rw [gslice_split _ off l v.len h1 h2 (by rw [f2, hlen1]; exact hcur), f4]
      simp only [logicalFrom]
      congr 1
      · rw [gslice_eq_of_prefix _ _ l off l f3 (Nat.le_refl _)]
        show gslice (hwrite heap v.obj off (gslice (heap p) off l) v.obj) off l = _
        rw [hwrite_same]
        have := gslice_overwrite_exact (heap v.obj) off (gslice (heap p) off l) hfit
        rw [hseglen, hoff] at this
        exact this

/-! ## the invariant -/

structure BufOK (heap : Nat → Bytes) (next : Nat) (v : WView) (pending : List (Nat × Nat))
    (regions : List WRegion) : Prop where
  len_le_cap : v.len ≤ v.cap
  heap_len : (heap v.obj).length = v.cap
  obj_lt : v.obj < next
  chain : Chain 0 pending v.len
  pend_lt : ∀ p ∈ pending, p.1 < next
  pend_ne : ∀ p ∈ pending, p.1 ≠ v.obj
  pend_len : ∀ p ∈ pending, p.2 ≤ (heap p.1).length
  pend_nodup : (pending.map Prod.fst).Nodup
  pend_cap : pending ≠ [] → 0 < v.cap
  owned : ∀ r ∈ regions, r.n = 0 ∨ Owned v.obj v.len 0 pending r.obj r.off r.n
  rchain : RChain 0 regions v.len

structure WInv (w : Wr) : Prop where
  stats_len : w.stats.length = Facts.statsBucketNum
  stats_idx : w.statsIdx < Facts.statsBucketNum
  nil_buf : w.buf = none → w.pending = [] ∧ (∀ r ∈ w.regions, r.n = 0) ∧ RChain 0 w.regions 0
  buf_ok : ∀ v, w.buf = some v → BufOK w.heap w.next v w.pending w.regions

theorem length_fresh (a : WAlloc) (id cap : Nat) : (a.fresh id cap).length = cap := by
  simp [WAlloc.fresh]

/-- the allocator hands out at least the capacity asked for (Go: cap(make([]byte, n, c)) ≥ c) -/
def WAlloc.Sound (a : WAlloc) : Prop := ∀ c, c ≤ a.poolCap c

theorem allocCap_ge (a : WAlloc) (ha : a.Sound) (dc : Bool) (c : Nat) :
    c ≤ (if dc then c else a.poolCap c) := by
  split
  · exact Nat.le_refl _
  · exact ha c

/-- what acquire guarantees -/
structure WAcqPost (w w1 : Wr) (n : Nat) : Prop where
  inv : WInv w1
  logical : w1.logical = w.logical
  len : w1.bufLen = w.bufLen
  room : (∃ v, w1.buf = some v ∧ v.len + n ≤ v.cap) ∨ (w1.buf = none ∧ n = 0)
  regions : w1.regions = w.regions
  nextRegion : w1.nextRegion = w.nextRegion
  err : w1.err = w.err
  dc : w1.disableCache = w.disableCache
  sink : w1.sink = w.sink
  target : w1.target = w.target
  same_or_pos : w1 = w ∨ 0 < n
  heap_old : ∀ i, i < w.next → w1.heap i = w.heap i
  next_le : w.next ≤ w1.next

theorem firstAlloc_spec (a : WAlloc) (ha : a.Sound) (w : Wr) (hw : WInv w) (n : Nat)
    (hcap : w.bufCap = 0) :
    WInv (w.firstAlloc a n) ∧ (w.firstAlloc a n).logical = w.logical ∧
    (∃ v, (w.firstAlloc a n).buf = some v ∧ v.len = 0 ∧ n ≤ v.cap ∧ 0 < v.cap) ∧ w.bufLen = 0 := by
  have hfacts : 1 ≤ Facts.defaultBufSize := by decide
  -- the requested size
  let m0 := statsMax w.stats
  let m1 := if m0 < Facts.defaultBufSize then Facts.defaultBufSize else m0
  have hm1 : 1 ≤ m1 := by show 1 ≤ (if m0 < Facts.defaultBufSize then Facts.defaultBufSize else m0); split <;> omega
  have hd := w_doubleUntil_spec n m1 n hm1 (by omega)
  have hge := allocCap_ge a ha w.disableCache (doubleUntil n m1 n)
  -- the old buffer is nil or empty with capacity 0: nothing parked, no non-empty region
  have hold : w.pending = [] ∧ (∀ r ∈ w.regions, r.n = 0) ∧ RChain 0 w.regions 0 ∧ w.logical = [] ∧ w.bufLen = 0 := by
    cases hb : w.buf with
    | none =>
      obtain ⟨h1, h2, h3⟩ := hw.nil_buf hb
      exact ⟨h1, h2, h3, by simp [Wr.logical, hb], by simp [Wr.bufLen, hb]⟩
    | some v =>
      have ok := hw.buf_ok v hb
      have hc0 : v.cap = 0 := by simpa [Wr.bufCap, hb] using hcap
      have hl0 : v.len = 0 := by have := ok.len_le_cap; omega
      have hp : w.pending = [] := by
        cases hpp : w.pending with
        | nil => rfl
        | cons _ _ => have := ok.pend_cap (by simp [hpp]); omega
      refine ⟨hp, ?_, ?_, ?_, ?_⟩
      · intro r hr
        rcases ok.owned r hr with h | h
        · exact h
        · rw [hp] at h; have := h.2.2; omega
      · have := ok.rchain; rw [hl0] at this; exact this
      · simp [Wr.logical, hb, hp, logicalFrom, hl0, gslice_empty]
      · simp [Wr.bufLen, hb, hl0]
  obtain ⟨hp, hr0, hrc, hlog, hlen0⟩ := hold
  refine ⟨?_, ?_, ?_, hlen0⟩
  · refine ⟨hw.stats_len, hw.stats_idx, ?_, ?_⟩
    · intro h; simp [Wr.firstAlloc, Wr.allocBuf] at h
    · intro v hv
      simp only [Wr.firstAlloc, Wr.allocBuf, Option.some.injEq] at hv
      subst hv
      simp only [Wr.firstAlloc, Wr.allocBuf]
      refine ⟨Nat.zero_le _, ?_, Nat.lt_succ_self _, ?_, ?_, ?_, ?_, ?_, ?_, ?_, ?_⟩
      · simp [length_fresh]
      · rw [hp]; exact Nat.le_refl _
      · rw [hp]; intro p h; cases h
      · rw [hp]; intro p h; cases h
      · rw [hp]; intro p h; cases h
      · rw [hp]; exact List.nodup_nil
      · intro h; exact absurd hp h
      · intro r hr; exact Or.inl (hr0 r hr)
      · exact hrc
  · rw [hlog]
    simp [Wr.logical, Wr.firstAlloc, Wr.allocBuf, hp, logicalFrom, gslice_empty]
  · refine ⟨_, rfl, rfl, ?_, ?_⟩
    · exact Nat.le_trans hd.1 hge
    · have : 1 ≤ doubleUntil n m1 n := Nat.le_trans hm1 hd.2
      exact Nat.lt_of_lt_of_le this hge


theorem Owned.fits {heap : Nat → Bytes} {cur len lo : Nat} {ps : List (Nat × Nat)} {o a n : Nat}
    (h : Owned cur len lo ps o a n) (hl : ∀ p ∈ ps, p.2 ≤ (heap p.1).length)
    (hcur : len ≤ (heap cur).length) : a + n ≤ (heap o).length := by
  induction ps generalizing lo with
  | nil => obtain ⟨h1, _, h3⟩ := h; subst h1; omega
  | cons p ps ih =>
    obtain ⟨p, l⟩ := p
    rcases h with ⟨h1, _, h3⟩ | h
    · subst h1; have := hl (o, l) (List.mem_cons_self ..); simp only at this; omega
    · exact ih h (fun q hq => hl q (List.mem_cons_of_mem _ hq))

theorem grow_spec (a : WAlloc) (ha : a.Sound) (w : Wr) (hw : WInv w) (v : WView)
    (hb : w.buf = some v) (hcap : 0 < v.cap) (n : Nat) :
    WInv (w.grow a v n) ∧ (w.grow a v n).logical = w.logical ∧
    (∃ v1, (w.grow a v n).buf = some v1 ∧ v1.len = v.len ∧ v1.len + n ≤ v1.cap) := by
  have ok := hw.buf_ok v hb
  have hlc := ok.len_le_cap
  have hg := growCap_spec n (v.cap * 2) v.len n (by omega) (by omega) (by omega)
  have hge := allocCap_ge a ha w.disableCache (growCap n (v.cap * 2) v.len n)
  refine ⟨?_, ?_, ?_⟩
  · refine ⟨hw.stats_len, hw.stats_idx, ?_, ?_⟩
    · intro h; simp [Wr.grow, Wr.allocBuf] at h
    · intro v1 hv1
      simp only [Wr.grow, Wr.allocBuf, Option.some.injEq] at hv1
      subst hv1
      simp only [Wr.grow, Wr.allocBuf]
      refine ⟨by simp only; omega, ?_, Nat.lt_succ_self _, ok.chain.snoc v.obj, ?_, ?_, ?_, ?_, ?_, ?_, ok.rchain⟩
      · simp [length_fresh]
      · intro p hp
        rcases List.mem_append.mp hp with hp | hp
        · have := ok.pend_lt p hp; omega
        · simp only [List.mem_singleton] at hp; subst hp; have := ok.obj_lt; simp only; omega
      · intro p hp
        rcases List.mem_append.mp hp with hp | hp
        · have := ok.pend_lt p hp; simp only; omega
        · simp only [List.mem_singleton] at hp; subst hp; have := ok.obj_lt; simp only; omega
      · intro p hp
        rcases List.mem_append.mp hp with hp | hp
        · have h1 := ok.pend_lt p hp
          rw [if_neg (by omega)]; exact ok.pend_len p hp
        · simp only [List.mem_singleton] at hp; subst hp
          have h1 := ok.obj_lt
          simp only
          rw [if_neg (by omega), ok.heap_len]; exact hlc
      · rw [List.map_append, List.nodup_append]
        refine ⟨ok.pend_nodup, by simp, ?_⟩
        intro x hx y hy
        simp only [List.map_cons, List.map_nil, List.mem_singleton] at hy
        subst hy
        obtain ⟨q, hq, rfl⟩ := List.mem_map.mp hx
        exact ok.pend_ne q hq
      · intro _; simp only; omega
      · intro r hr
        rcases ok.owned r hr with h | h
        · exact Or.inl h
        · exact Or.inr (h.snoc _)
  · simp only [Wr.logical, Wr.grow, Wr.allocBuf, hb]
    apply logicalFrom_grow
    · intro i hi; rw [if_neg hi]
    · have := ok.obj_lt; omega
    · intro p hp; have := ok.pend_lt p hp; omega
  · refine ⟨_, rfl, rfl, ?_⟩
    simp only; omega

theorem acquire_spec (a : WAlloc) (ha : a.Sound) (w : Wr) (hw : WInv w) (n : Nat) :
    ∃ w1, w.acquire a n = some w1 ∧ WAcqPost w w1 n := by
  unfold Wr.acquire
  by_cases hfast : w.bufLen + n ≤ w.bufCap
  · rw [if_pos hfast]
    refine ⟨w, rfl, hw, rfl, rfl, ?_, rfl, rfl, rfl, rfl, rfl, rfl, Or.inl rfl, fun _ _ => rfl, Nat.le_refl _⟩
    cases hb : w.buf with
    | none => right; simp [Wr.bufLen, Wr.bufCap, hb] at hfast; exact ⟨rfl, hfast⟩
    | some v => left; simp [Wr.bufLen, Wr.bufCap, hb] at hfast; exact ⟨v, rfl, hfast⟩
  · rw [if_neg hfast]
    unfold Wr.acquireSlow
    by_cases hcap : w.bufCap = 0
    · -- first allocation
      obtain ⟨i1, i2, ⟨v1, hv1, hl1, hn1, hc1⟩, hlen0⟩ := firstAlloc_spec a ha w hw n hcap
      have hnpos : 0 < n := by omega
      simp only [hcap, if_true, hv1]
      rw [if_neg (by omega)]
      refine ⟨_, rfl, i1, i2, ?_, Or.inl ⟨v1, hv1, by omega⟩, rfl, rfl, rfl, rfl, rfl, rfl, Or.inr hnpos, ?_, ?_⟩
      · simp [Wr.bufLen, hv1, hl1] ; exact hlen0.symm
      · intro i hi; simp only [Wr.firstAlloc, Wr.allocBuf]; rw [if_neg (by omega)]
      · simp only [Wr.firstAlloc, Wr.allocBuf]; omega
    · -- growth
      cases hb : w.buf with
      | none => simp [Wr.bufCap, hb] at hcap
      | some v =>
        have ok := hw.buf_ok v hb
        have hlc := ok.len_le_cap
        have hvc : v.cap ≠ 0 := by simpa [Wr.bufCap, hb] using hcap
        have hf : ¬ (v.len + n ≤ v.cap) := by simpa [Wr.bufLen, Wr.bufCap, hb] using hfast
        obtain ⟨i1, i2, v1, hv1, hl1, hr1⟩ := grow_spec a ha w hw v hb (by omega) n
        simp only [hcap, if_false, hb]
        rw [if_pos (by omega), if_neg hvc]
        refine ⟨_, rfl, i1, i2, ?_, Or.inl ⟨v1, hv1, hr1⟩, rfl, rfl, rfl, rfl, rfl, rfl, Or.inr (by omega), ?_, ?_⟩
        · simp [Wr.bufLen, hv1, hl1, hb]
        · intro i hi; simp only [Wr.grow, Wr.allocBuf]; rw [if_neg (by omega)]
        · simp only [Wr.grow, Wr.allocBuf]; omega

end Verif

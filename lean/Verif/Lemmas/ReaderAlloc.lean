/-
  Lemmas/ReaderAlloc: the domain in which the reader model mirrors the Go code — allocation succeeds.

  `mcache.Malloc` has 46 size classes (`caches[i]`, i ≤ 45, github.com/bytedance/gopkg lang/mcache):
  a capacity request above 2^45 PANICS with index out of range (audit witness, unchanged tree:
  `NewDefaultReader(src).Next(1<<46)` → `PANIC index`, while the model — Nat arithmetic, no allocator
  limit — answers `err eof`); `Next(1<<62+1)` never returns (`maxSize *= 2` wraps to 0).  The model
  has no such branch, so every C04 theorem carries `Rd.InDomain r n : n + ri ≤ 2^43`, and this file
  proves that inside that domain the model never asks the allocator for more than its largest
  class: every capacity it computes is ≤ 2^45 (`AllocInv`, `prepare_alloc`, `step_alloc`).
  (2^43, not 2^45: the grow loop doubles past `n + ri` and mcache rounds up to a power of two.)
-/
import Verif.Lemmas.ReaderRefine
namespace Verif

/-- 2^45: mcache's largest size class -/
notation "allocMax" => (35184372088832 : Nat)

/-- the request is in the domain of the model: `n + ri ≤ 2^43`.  Beyond, the real code panics inside
    mcache (from 2^45) or spins forever (above 2^62); the model does neither. -/
def Rd.InDomain (r : Rd) (n : Nat) : Prop := n + r.ri ≤ 8796093022208

theorem Rd.InDomain.small {r : Rd} {n : Nat} (h : r.InDomain n) : r.Small n := by
  unfold Rd.InDomain at h; unfold Rd.Small; omega

/-- every capacity the reader holds or has recorded is an allocatable one -/
structure AllocInv (r : Rd) : Prop where
  cap_le : r.cap ≤ allocMax
  stats_le : ∀ s ∈ r.stats, s ≤ allocMax

theorem two_pow_45 : (2:Nat)^45 = allocMax := by decide

theorem pow2ceil_le_alloc (x : Nat) (hx : x ≤ allocMax) : pow2ceil x ≤ allocMax := by
  unfold pow2ceil; rw [pow2ceilAux_eq]
  exact doubleUntil_le 64 1 x 45 allocMax (by rw [two_pow_45]) hx

/-- the capacity `prepare` asks the allocator for is within mcache's classes -/
theorem prepare_alloc (r : Rd) (n : Nat) (h : Inv r) (ha : AllocInv r) (hd : r.InDomain n) :
    (r.prepare n).cap ≤ allocMax := by
  have hri := h.ri_le; have hlen := h.len_le; have hcap := ha.cap_le
  unfold Rd.InDomain at hd
  by_cases hc : r.cap = 0
  · obtain ⟨hri0, hbuf⟩ := h.cap_zero hc
    have hm0 := statsMax_le r.stats allocMax ha.stats_le
    generalize hm1 : (if statsMax r.stats < Facts.defaultBufSize then Facts.defaultBufSize
      else statsMax r.stats) = m1
    have hm1pos : 0 < m1 := by
      have : 0 < Facts.defaultBufSize := by decide
      subst hm1; split <;> omega
    have hm1le : m1 ≤ allocMax := by
      subst hm1; split
      · decide
      · exact hm0
    have hdd := doubleUntil_spec 64 m1 n hm1pos (by
      rw [two_pow_64]
      calc n ≤ 1 * capMax := by omega
        _ ≤ m1 * capMax := Nat.mul_le_mul_right _ hm1pos)
    generalize hm2 : doubleUntil 64 m1 n = m2 at hdd
    have hm2le : m2 ≤ allocMax := by omega
    have hp := pow2ceil_le_alloc m2 hm2le
    have hp2 := pow2ceil_spec m2 (by omega)
    have hnogrow : ¬ (n > pow2ceil m2 - r.ri) := by omega
    unfold Rd.prepare
    simp only [hc, if_true, hm1, hm2, hnogrow, if_false]
    exact hp
  · by_cases hg : n > r.cap - r.ri
    · have hnpos : 0 < n := by omega
      have hdd := doubleUntil_spec 64 (r.cap * 2) (n + r.ri) (by omega) (by
        rw [two_pow_64]
        calc n + r.ri ≤ 1 * capMax := by omega
          _ ≤ (r.cap * 2) * capMax := Nat.mul_le_mul_right _ (by omega))
      generalize hnc : doubleUntil 64 (r.cap * 2) (n + r.ri) = ncap at hdd
      have hncle : ncap ≤ allocMax := by omega
      have hp := pow2ceil_le_alloc ncap hncle
      unfold Rd.prepare
      simp only [hc, if_false, hg, if_true, growCap_eq _ _ _ _ hnpos, hnc]
      exact hp
    · unfold Rd.prepare
      simp only [hc, if_false, hg]
      exact hcap

theorem acquire_alloc (r : Rd) (n m : Nat) (r' : Rd) (h : Inv r) (ha : AllocInv r) (hd : r.InDomain n)
    (hacq : r.acquire n = some (m, r')) : AllocInv r' := by
  have hpost := acquire_post r n m r' h hd.small hacq
  refine ⟨?_, by rw [hpost.stats]; exact ha.stats_le⟩
  unfold Rd.acquire at hacq
  split at hacq
  · simp only [Option.some.injEq, Prod.mk.injEq] at hacq
    obtain ⟨_, hr⟩ := hacq; subst hr; exact ha.cap_le
  · unfold Rd.acquireSlow at hacq
    split at hacq
    · simp only [Option.some.injEq, Prod.mk.injEq] at hacq
      obtain ⟨_, hr⟩ := hacq; subst hr; exact ha.cap_le
    · simp only [] at hacq
      rw [(readLoop_post _ _ _ _ _ _ hacq).cap]
      exact prepare_alloc r n h ha hd

theorem release_alloc (r : Rd) (ha : AllocInv r) : AllocInv r.release := by
  have hc := ha.cap_le
  unfold Rd.release
  split
  · exact ⟨by simp, listSet_le _ _ _ _ ha.stats_le hc⟩
  · split
    · exact ⟨by simp only []; omega, ha.stats_le⟩
    · exact ⟨hc, ha.stats_le⟩

/-- ONE STEP inside the domain: every capacity stays allocatable -/
theorem step_alloc (r : Rd) (op : ROp) (h : Inv r) (ha : AllocInv r) (hd : r.InDomain op.size) :
    AllocInv (r.step op).2 := by
  cases op with
  | next n =>
    have hd : r.InDomain n.toNat := hd
    rcases next_cases r n h hd.small with ⟨_, hn⟩ | ⟨_, m, r1, hacq, _, hc⟩
    · simpa [Rd.step, hn] using ha
    · have h1 := acquire_alloc r _ m r1 h ha hd hacq
      rcases hc with ⟨_, hn⟩ | ⟨_, hn⟩
      · simpa [Rd.step, hn] using h1
      · simp only [Rd.step, hn]; exact ⟨h1.cap_le, h1.stats_le⟩
  | peek n =>
    have hd : r.InDomain n.toNat := hd
    rcases peek_cases r n h hd.small with ⟨_, hn⟩ | ⟨_, m, r1, hacq, _, hc⟩
    · simpa [Rd.step, hn] using ha
    · have h1 := acquire_alloc r _ m r1 h ha hd hacq
      rcases hc with ⟨_, hn⟩ | ⟨_, hn⟩
      · simpa [Rd.step, hn] using h1
      · simpa [Rd.step, hn] using h1
  | skip n =>
    have hd : r.InDomain n.toNat := hd
    rcases skip_cases r n h hd.small with ⟨_, hn⟩ | ⟨_, m, r1, hacq, _, hc⟩
    · simpa [Rd.step, hn] using ha
    · have h1 := acquire_alloc r _ m r1 h ha hd hacq
      rcases hc with ⟨_, hn⟩ | ⟨_, hn⟩
      · simpa [Rd.step, hn] using h1
      · simp only [Rd.step, hn]; exact ⟨h1.cap_le, h1.stats_le⟩
  | readBinary k =>
    have hd : r.InDomain k := hd
    obtain ⟨m, r1, hacq, _, hn⟩ := readBinary_cases r k h hd.small
    have h1 := acquire_alloc r _ m r1 h ha hd hacq
    simp only [Rd.step, hn]; exact ⟨h1.cap_le, h1.stats_le⟩
  | release e => simpa [Rd.step, Rd.releaseE] using release_alloc r ha
  | readLen => simpa [Rd.step] using ha

theorem alloc_newDefault (src : Src) : AllocInv (Rd.newDefault src) := by
  constructor <;> simp [Rd.newDefault]

theorem alloc_newBytes (data : Bytes) (cap : Nat) (hc : cap ≤ allocMax) : AllocInv (Rd.newBytes data cap) := by
  unfold Rd.newBytes; split
  · constructor <;> simp; exact hc
  · exact alloc_newDefault _

/-- the domain bound that does not mention the model state: stream and requests below 2^42 -/
theorem inDomain_of_bounds (c : Cur) (r : Rd) (n : Nat) (h : Abs c r)
    (hS : c.S.length ≤ 4398046511104) (hn : n ≤ 4398046511104) : r.InDomain n := by
  obtain ⟨pre, hsp, _⟩ := h.split
  have hri := h.inv.ri_le
  have : r.buf.length ≤ c.S.length := by rw [hsp]; simp; omega
  unfold Rd.InDomain; omega

/-- WHOLE HISTORIES inside the domain: every capacity the model ever computes is allocatable —
    the allocator's panic branch, which the model does not have, is never needed -/
theorem trace_alloc (c : Cur) (r : Rd) (ops : List ROp) (h : Abs c r) (ha : AllocInv r)
    (hS : c.S.length ≤ 4398046511104) (hops : ∀ op ∈ ops, op.size ≤ 4398046511104) :
    AllocInv (r.trace ops).2 := by
  induction ops generalizing c r with
  | nil => exact ha
  | cons op ops ih =>
    have hd := inDomain_of_bounds c r op.size h hS (hops op (by simp))
    obtain ⟨c1, hc1, h1⟩ := step_refines c r op h hd.small
    have hS1 : c1.S = c.S := by
      cases op <;> cases hr : (r.step _).1 <;> rw [hr] at hc1 <;> simp only [Cur.step] at hc1 <;>
        (repeat' split at hc1) <;> simp_all <;> (subst hc1; rfl)
    simp only [Rd.trace]
    exact ih c1 _ h1 (step_alloc r op h.inv ha hd) (by rw [hS1]; exact hS)
      (fun o ho => hops o (by simp [ho]))

end Verif

/-
  Lemmas/ReaderRefine: the reader model refines the cursor contract (Spec/Cursor), one step at a time.
-/
import Verif.Lemmas.ReaderOps
namespace Verif

/-- abstraction relation: the model state `r` stands at cursor `c` over the full stream `c.S`:
    `S = pre ++ buf ++ (not yet read from the source)`, `pre` = everything released so far -/
structure Abs (c : Cur) (r : Rd) : Prop where
  inv : Inv r
  split : ∃ pre, c.S = pre ++ r.buf ++ r.src.stream ∧ c.mark = pre.length
  pos : c.pos = c.mark + r.ri

/-- what the contract's cursor has not consumed is exactly what the reader still owes -/
theorem Abs.rest {c : Cur} {r : Rd} (h : Abs c r) : c.rest = r.remaining := by
  obtain ⟨pre, hS, hm⟩ := h.split
  have hri := h.inv.ri_le
  unfold Cur.rest Rd.remaining
  rw [hS, h.pos, hm, List.append_assoc, ← List.drop_drop, List.drop_left,
    List.drop_append_of_le_length hri]

theorem Abs.acquire {c : Cur} {r r1 : Rd} {n m : Nat} (h : Abs c r) (ha : AcqPost r n m r1) :
    Abs c r1 := by
  obtain ⟨pre, hS, hm⟩ := h.split
  obtain ⟨d, hd1, hd2⟩ := ha.data
  refine ⟨ha.inv, ⟨pre, ?_, hm⟩, ?_⟩
  · rw [hS, hd1, hd2]; simp [List.append_assoc]
  · rw [ha.ri]; exact h.pos

theorem Abs.advance {c : Cur} {r : Rd} (h : Abs c r) (k : Nat) (hk : k ≤ r.buf.length - r.ri) :
    Abs { c with pos := c.pos + k } { r with ri := r.ri + k } := by
  refine ⟨inv_advance r k h.inv hk, h.split, ?_⟩
  simp only []; rw [h.pos]; omega

theorem abs_init_default (S : Bytes) (script : List Resp) :
    Abs (Cur.init S) (Rd.newDefault ⟨S, script⟩) :=
  ⟨inv_newDefault _, ⟨[], by simp [Cur.init, Rd.newDefault], rfl⟩, rfl⟩

theorem abs_init_bytes (data : Bytes) (cap : Nat) (h : data.length ≤ cap) (hc : cap ≤ capMax) :
    Abs (Cur.init data) (Rd.newBytes data cap) := by
  refine ⟨inv_newBytes data cap h hc, ⟨[], ?_, rfl⟩, ?_⟩
  · unfold Rd.newBytes; split
    · simp [Cur.init]
    · have : data = [] := by apply List.eq_nil_of_length_eq_zero; omega
      simp [Cur.init, Rd.newDefault, this]
  · unfold Rd.newBytes; split <;> rfl

/-- ONE STEP: whatever the model reports is accepted by the contract, and the abstraction
    relation is re-established at the contract's new cursor -/
theorem step_refines (c : Cur) (r : Rd) (op : ROp) (h : Abs c r) (hs : r.Small op.size) :
    ∃ c', c.step op (r.step op).1 = .ok c' ∧ Abs c' (r.step op).2 := by
  have hrest := h.rest
  cases op with
  | next n =>
    rcases next_cases r n h.inv hs with ⟨hneg, hn⟩ | ⟨hpos, m, r1, _, ha, hc⟩
    · exact ⟨c, by simp [Rd.step, hn, RdRes.toRes, Cur.step], by simpa [Rd.step, hn] using h⟩
    · have h1 := h.acquire ha
      rcases hc with ⟨hgt, hn⟩ | ⟨hge, hn⟩
      · have := (ha.short hgt).1
        refine ⟨c, ?_, by simpa [Rd.step, hn] using h1⟩
        cases he : r1.err with
        | none => exact absurd he this
        | some e => simp [Rd.step, hn, RdRes.toRes, Cur.step, he]
      · have hk := ha.enough hge
        refine ⟨{ c with pos := c.pos + n.toNat }, ?_, by simpa [Rd.step, hn] using h1.advance _ hk⟩
        have hnn : ¬ n < 0 := by omega
        simp only [Rd.step, hn, RdRes.toRes, Cur.step, hnn, if_false, Bool.false_eq_true]
        rw [take_length_of_le r1 _ hk, h1.rest, take_eq_remaining_take r1 _ hk]
        simp
  | peek n =>
    rcases peek_cases r n h.inv hs with ⟨hneg, hn⟩ | ⟨hpos, m, r1, _, ha, hc⟩
    · exact ⟨c, by simp [Rd.step, hn, RdRes.toRes, Cur.step], by simpa [Rd.step, hn] using h⟩
    · have h1 := h.acquire ha
      rcases hc with ⟨hgt, hn⟩ | ⟨hge, hn⟩
      · have := (ha.short hgt).1
        refine ⟨c, ?_, by simpa [Rd.step, hn] using h1⟩
        cases he : r1.err with
        | none => exact absurd he this
        | some e => simp [Rd.step, hn, RdRes.toRes, Cur.step, he]
      · have hk := ha.enough hge
        refine ⟨c, ?_, by simpa [Rd.step, hn] using h1⟩
        have hnn : ¬ n < 0 := by omega
        simp only [Rd.step, hn, RdRes.toRes, Cur.step, hnn, if_false, Bool.false_eq_true]
        rw [take_length_of_le r1 _ hk, h1.rest, take_eq_remaining_take r1 _ hk]
        simp
  | skip n =>
    rcases skip_cases r n h.inv hs with ⟨hneg, hn⟩ | ⟨hpos, m, r1, _, ha, hc⟩
    · exact ⟨c, by simp [Rd.step, hn, RdRes.toRes, Cur.step], by simpa [Rd.step, hn] using h⟩
    · have h1 := h.acquire ha
      rcases hc with ⟨hgt, hn⟩ | ⟨hge, hn⟩
      · have := (ha.short hgt).1
        refine ⟨c, ?_, by simpa [Rd.step, hn] using h1⟩
        cases he : r1.err with
        | none => exact absurd he this
        | some e => simp [Rd.step, hn, RdRes.toRes, Cur.step, he]
      · have hk := ha.enough hge
        refine ⟨{ c with pos := c.pos + n.toNat }, ?_, by simpa [Rd.step, hn] using h1.advance _ hk⟩
        have hnn : ¬ n < 0 := by omega
        have hlen : ¬ n.toNat > c.rest.length := by
          rw [h1.rest]; unfold Rd.remaining
          simp only [List.length_append, List.length_drop]; omega
        simp [Rd.step, hn, RdRes.toRes, Cur.step, hnn, hlen]
  | readBinary k =>
    obtain ⟨m, r1, _, ha, hn⟩ := readBinary_cases r k h.inv hs
    have h1 := h.acquire ha
    have hk : min m k ≤ r1.buf.length - r1.ri := by
      rcases ha.outcome with ⟨hm, hle, _⟩ | ⟨hm, _⟩ <;> omega
    refine ⟨{ c with pos := c.pos + min m k }, ?_, by simpa [Rd.step, hn] using h1.advance _ hk⟩
    have hle : ¬ min m k > k := by omega
    have hshort : ¬ (min m k < k ∧ (if k > min m k then r1.err else none).isNone = true) := by
      intro ⟨hlt, hnone⟩
      have hgt : k > m := by omega
      have := (ha.short hgt).1
      rw [if_pos (by omega)] at hnone
      cases he : r1.err with
      | none => exact this he
      | some e => rw [he] at hnone; simp at hnone
    simp only [Rd.step, hn, Cur.step, hle, if_false, hshort]
    rw [take_length_of_le r1 _ hk, h1.rest, take_eq_remaining_take r1 _ hk]
    simp
  | release e =>
    refine ⟨{ c with mark := c.pos }, by simp [Rd.step, Cur.step], ?_⟩
    simp only [Rd.step, Rd.releaseE]
    obtain ⟨pre, hS, hm⟩ := h.split
    have hri := h.inv.ri_le
    refine ⟨release_inv r h.inv, ⟨pre ++ r.buf.take r.ri, ?_, ?_⟩, ?_⟩
    · simp only []
      have hrel : r.release.buf ++ r.release.src.stream = r.release.remaining := by
        unfold Rd.remaining Rd.release; split
        · simp
        · split <;> simp
      rw [List.append_assoc, hrel, release_remaining r h.inv, hS]
      unfold Rd.remaining
      rw [List.append_assoc, List.append_assoc, ← List.append_assoc (r.buf.take r.ri),
        List.take_append_drop]
    · simp only [List.length_append, List.length_take]; rw [h.pos, hm]; omega
    · have := release_readLen r; unfold Rd.readLen at this; simp only []; omega
  | readLen =>
    refine ⟨c, ?_, by simpa [Rd.step] using h⟩
    have : r.ri = c.pos - c.mark := by rw [h.pos]; omega
    simp [Rd.step, Cur.step, Rd.readLen, this]

/-- a history is in range when every request is (`n + ri ≤ 2^63` at the moment it is made) -/
def Rd.SmallOps : Rd → List ROp → Prop
  | _, [] => True
  | r, op :: ops => r.Small op.size ∧ (r.step op).2.SmallOps ops

/-- WHOLE HISTORIES: the contract accepts every report of the model -/
theorem trace_refines (c : Cur) (r : Rd) (ops : List ROp) (h : Abs c r) (hs : r.SmallOps ops) :
    ∃ c', c.run (r.trace ops).1 = .ok c' ∧ Abs c' (r.trace ops).2 := by
  induction ops generalizing c r with
  | nil => exact ⟨c, rfl, h⟩
  | cons op ops ih =>
    obtain ⟨c1, hc1, h1⟩ := step_refines c r op h hs.1
    obtain ⟨c2, hc2, h2⟩ := ih c1 _ h1 hs.2
    refine ⟨c2, ?_, h2⟩
    simp only [Rd.trace, Cur.run, hc1]
    exact hc2

end Verif

/-
  Lemmas/WriterLog: facts about the log spec (Spec/WriterLog): where the items lie in the
  concatenation (`layout`), and what a store into one region does to the concatenation.
-/
import Verif.Lemmas.WriterList
namespace Verif
open WLog

/-- (id, position, length) of every region item, positions counted from `b` -/
def layout : Nat → List Item → List (Nat × Nat × Nat)
  | _, [] => []
  | b, .region id n :: rest => (id, b, n) :: layout (b + n) rest
  | b, .payload bs :: rest => layout (b + bs.length) rest

/-- the concatenation of the items' latest contents -/
def concat (store : Nat → SBytes) (items : List Item) : SBytes :=
  (items.map (Item.content store)).flatten

def lenSum (items : List Item) : Nat := (items.map Item.len).sum

theorem concat_nil (store : Nat → SBytes) : concat store [] = [] := rfl

theorem concat_cons (store : Nat → SBytes) (it : Item) (items : List Item) :
    concat store (it :: items) = it.content store ++ concat store items := by
  simp [concat]

theorem concat_append (store : Nat → SBytes) (xs ys : List Item) :
    concat store (xs ++ ys) = concat store xs ++ concat store ys := by
  simp [concat]

theorem lenSum_append (xs ys : List Item) : lenSum (xs ++ ys) = lenSum xs + lenSum ys := by
  simp [lenSum]

theorem layout_append (b : Nat) (xs ys : List Item) :
    layout b (xs ++ ys) = layout b xs ++ layout (b + lenSum xs) ys := by
  induction xs generalizing b with
  | nil => simp [layout, lenSum]
  | cons x xs ih =>
    cases x with
    | region id n =>
      simp only [List.cons_append, layout, ih, lenSum, List.map_cons, List.sum_cons, Item.len]
      rw [Nat.add_assoc]
    | payload bs =>
      simp only [List.cons_append, layout, ih, lenSum, List.map_cons, List.sum_cons, Item.len]
      rw [Nat.add_assoc]

/-- every region lies at or after `b` and ends inside the concatenation -/
theorem layout_bounds (b : Nat) (items : List Item) (t : Nat × Nat × Nat) (h : t ∈ layout b items) :
    b ≤ t.2.1 ∧ t.2.1 + t.2.2 ≤ b + lenSum items := by
  induction items generalizing b with
  | nil => cases h
  | cons x xs ih =>
    cases x with
    | region id n =>
      simp only [layout, List.mem_cons] at h
      simp only [lenSum, List.map_cons, List.sum_cons, Item.len]
      rcases h with rfl | h
      · simp only; omega
      · have := ih _ h; simp only [lenSum] at this; omega
    | payload bs =>
      simp only [layout] at h
      simp only [lenSum, List.map_cons, List.sum_cons, Item.len]
      have := ih _ h; simp only [lenSum] at this; omega

/-- the ids do not depend on the base position -/
theorem layout_ids (b b' : Nat) (items : List Item) :
    (layout b items).map (·.1) = (layout b' items).map (·.1) := by
  induction items generalizing b b' with
  | nil => rfl
  | cons x xs ih =>
    cases x with
    | region id n => simp only [layout, List.map_cons]; rw [ih (b + n) (b' + n)]
    | payload bs => simp only [layout]; exact ih _ _

/-- every region's stored content has the region's length -/
def StoreOK (store : Nat → SBytes) (items : List Item) : Prop :=
  ∀ t ∈ layout 0 items, (store t.1).length = t.2.2

theorem storeOK_iff (store : Nat → SBytes) (items : List Item) (b : Nat) :
    StoreOK store items ↔ ∀ t ∈ layout b items, (store t.1).length = t.2.2 := by
  have key : ∀ (b b' : Nat) (xs : List Item),
      (∀ t ∈ layout b xs, (store t.1).length = t.2.2) → ∀ t ∈ layout b' xs, (store t.1).length = t.2.2 := by
    intro b b' xs
    induction xs generalizing b b' with
    | nil => intro _ t ht; cases ht
    | cons x xs ih =>
      cases x with
      | region id n =>
        intro h t ht
        simp only [layout, List.mem_cons] at ht h
        rcases ht with rfl | ht
        · exact h (id, b, n) (Or.inl rfl)
        · exact ih (b + n) (b' + n) (fun t ht => h t (Or.inr ht)) t ht
      | payload bs =>
        intro h t ht
        simp only [layout] at ht h
        exact ih _ _ h t ht
  exact ⟨key 0 b items, key b 0 items⟩

theorem length_concat (store : Nat → SBytes) (items : List Item) (h : StoreOK store items) :
    (concat store items).length = lenSum items := by
  induction items with
  | nil => rfl
  | cons x xs ih =>
    rw [concat_cons, List.length_append]
    cases x with
    | region id n =>
      have h0 : (store id).length = n := h (id, 0, n) (by simp [layout])
      have h' : StoreOK store xs := by
        rw [storeOK_iff store xs (0 + n)]
        intro t ht; exact h t (by simp only [layout, List.mem_cons]; exact Or.inr ht)
      rw [ih h']; simp [Item.content, lenSum, Item.len, h0]
    | payload bs =>
      have h' : StoreOK store xs := by
        rw [storeOK_iff store xs (0 + bs.length)]
        intro t ht; exact h t (by simp only [layout]; exact ht)
      rw [ih h']; simp [Item.content, lenSum, Item.len]

/-- a store into an id that no item mentions is invisible -/
theorem concat_congr (store store' : Nat → SBytes) (items : List Item)
    (h : ∀ t ∈ layout 0 items, store' t.1 = store t.1) : concat store' items = concat store items := by
  induction items with
  | nil => rfl
  | cons x xs ih =>
    rw [concat_cons, concat_cons]
    cases x with
    | region id n =>
      have h0 : store' id = store id := h (id, 0, n) (by simp [layout])
      have h' : ∀ t ∈ layout 0 xs, store' t.1 = store t.1 := by
        intro t ht
        have : t.1 ∈ (layout 0 xs).map (·.1) := List.mem_map_of_mem ht
        rw [layout_ids 0 (0 + n)] at this
        obtain ⟨t', ht', e⟩ := List.mem_map.mp this
        rw [← e]; exact h t' (by simp only [layout, List.mem_cons]; exact Or.inr ht')
      rw [ih h']; simp [Item.content, h0]
    | payload bs =>
      have h' : ∀ t ∈ layout 0 xs, store' t.1 = store t.1 := by
        intro t ht
        have : t.1 ∈ (layout 0 xs).map (·.1) := List.mem_map_of_mem ht
        rw [layout_ids 0 (0 + bs.length)] at this
        obtain ⟨t', ht', e⟩ := List.mem_map.mp this
        rw [← e]; exact h t' (by simp only [layout]; exact ht')
      rw [ih h']; simp [Item.content]

/-- THE spec-side fact: storing `bs` at offset `off` of the region that lies at position `p`
    overwrites the concatenation at `p + off`, and nothing else (ids are distinct) -/
theorem concat_fill (store : Nat → SBytes) (items : List Item) (b id p n off : Nat) (bs : SBytes)
    (hmem : (id, p, n) ∈ layout b items) (hnd : ((layout b items).map (·.1)).Nodup)
    (hs : ∀ t ∈ layout b items, (store t.1).length = t.2.2) (hfit : off + bs.length ≤ n) :
    concat (fun i => if i = id then overwrite (store id) off bs else store i) items
      = overwrite (concat store items) (p - b + off) bs := by
  induction items generalizing b with
  | nil => cases hmem
  | cons x xs ih =>
    rw [concat_cons, concat_cons]
    cases x with
    | region id' n' =>
      simp only [layout, List.map_cons, List.nodup_cons] at hnd hmem hs
      have hlen' : (store id').length = n' := hs (id', b, n') (List.mem_cons_self ..)
      have hs' : ∀ t ∈ layout (b + n') xs, (store t.1).length = t.2.2 :=
        fun t ht => hs t (List.mem_cons_of_mem _ ht)
      rcases List.mem_cons.mp hmem with he | hmem'
      · -- the head item is the region
        injection he with e1 e2; injection e2 with e2 e3
        subst e1; subst e2; subst e3
        have hrest : concat (fun i => if i = id then overwrite (store id) off bs else store i) xs
            = concat store xs := by
          apply concat_congr
          intro t ht
          have : t.1 ∈ (layout 0 xs).map (·.1) := List.mem_map_of_mem ht
          rw [layout_ids 0 (p + n)] at this
          have hne : t.1 ≠ id := fun e => hnd.1 (e ▸ this)
          simp [hne]
        rw [hrest]
        simp only [Item.content, if_true]
        have : p - p + off = off := by omega
        rw [this, overwrite_append_left _ _ _ _ (by rw [hlen']; exact hfit)]
      · -- the region lies further right
        have hne : id' ≠ id := by
          intro e
          apply hnd.1
          rw [e]
          exact List.mem_map_of_mem (f := (·.1)) hmem'
        have hb := layout_bounds _ _ _ hmem'
        simp only at hb
        rw [ih (b + n') hmem' hnd.2 hs']
        simp only [Item.content, hne, if_false]
        have : p - b + off = (store id').length + (p - (b + n') + off) := by rw [hlen']; omega
        rw [this, overwrite_append_right _ _ _ _ (by
          have hl : (concat store xs).length = lenSum xs :=
            length_concat store xs ((storeOK_iff store xs (b + n')).mpr hs')
          rw [hl]; omega)]
    | payload pl =>
      simp only [layout] at hnd hmem hs
      have hb := layout_bounds _ _ _ hmem
      simp only at hb
      rw [ih (b + pl.length) hmem hnd hs]
      simp only [Item.content]
      have : p - b + off = (pl.map some).length + (p - (b + pl.length) + off) := by
        rw [List.length_map]; omega
      rw [this, overwrite_append_right _ _ _ _ (by
        have hl : (concat store xs).length = lenSum xs :=
          length_concat store xs ((storeOK_iff store xs (b + pl.length)).mpr hs)
        rw [hl]; omega)]

theorem unflushed_eq (l : Log ε) : l.unflushed = concat l.store l.items := rfl
theorem writtenLen_eq_lenSum (l : Log ε) : l.writtenLen = lenSum l.items := rfl

end Verif

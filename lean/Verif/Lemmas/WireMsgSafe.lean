/- Lemmas/WireMsgSafe: UnmarshalFastMsg (and ApplicationException.FastRead inside it) returns normally on
   every byte string: no panic, no out-of-bounds load, fuel never exhausted; offsets stay inside the input.
   Uses the skip family's exact characterisation of Binary.Skip (Lemmas/SkipBinCor). -/
import Verif.Lemmas.WireMsg
import Verif.Lemmas.SkipBinCor
namespace Verif.Wire

theorem skipBin_le' (b : Bytes) (t : UInt8) (n : Nat) (h : skipBin b t = .ok n) : n ≤ b.length := by
  rw [skipBin_ok_iff] at h
  exact (refBin_good _ t b n h).2

/-- a FastRead result that is a normal Go return: nil error with an offset inside the input, or an error -/
def ReadOK (len : Nat) (x : TOut Nat) : Prop :=
  (∃ n, x = .ok n ∧ n ≤ len) ∨ (∃ e, x = .err e)

/-- ApplicationException.FastRead: on every byte string, from every offset inside it, with enough fuel,
    the loop returns normally -/
theorem appExReadLoop_safe (b : Bytes) : ∀ (fuel : Nat) (e : AppEx) (off : Nat), off ≤ b.length →
    b.length - off < fuel → ReadOK b.length (appExReadLoop fuel e b off).2 := by
  intro fuel
  induction fuel with
  | zero => intro e off _ h; omega
  | succ f ih =>
    intro e off hoff hf
    rw [appExReadLoop, if_neg (by omega)]
    have hfb := binRead_sound .field (b.drop off)
    have hdl : (b.drop off).length = b.length - off := by simp
    rw [binReadFieldBegin_char]
    cases hd : b.drop off with
    | nil => exact Or.inr ⟨_, rfl⟩
    | cons t r =>
      have hlr : r.length + 1 = b.length - off := by rw [← hdl, hd]; simp
      simp only []
      by_cases ht : t = 0
      · simp only [ht, if_true, tstop0]
        exact Or.inl ⟨_, rfl, by omega⟩
      · rw [if_neg ht]
        by_cases hr : r.length < 2
        · rw [if_pos hr]; exact Or.inr ⟨_, rfl⟩
        · rw [if_neg hr]
          simp only [tstop0, if_neg ht]
          rw [if_neg (by omega)]
          have hd3 : (b.drop (off + 3)).length = b.length - (off + 3) := by simp
          split
          · -- string field
            have hs := binRead_sound .str (b.drop (off + 3))
            simp only [binRead] at hs
            cases hrb : binReadBinary (b.drop (off + 3)) with
            | ok p =>
              rw [hrb] at hs; simp [mapOk, Sound] at hs
              exact ih _ _ (by omega) (by omega)
            | err er => exact Or.inr ⟨_, rfl⟩
            | panic s => rw [hrb] at hs; simp [mapOk, Sound] at hs
            | oob => rw [hrb] at hs; simp [mapOk, Sound] at hs
          · split
            · rw [binReadI32_char]
              by_cases h4 : (b.drop (off + 3)).length < 4
              · rw [if_pos h4]; exact Or.inr ⟨_, rfl⟩
              · rw [if_neg h4]; exact ih _ _ (by omega) (by omega)
            · rcases skipBin_total (b.drop (off + 3)) t with ⟨n, hn⟩ | ⟨er, her⟩
              · rw [hn]
                have := skipBin_le' _ _ _ hn
                exact ih _ _ (by omega) (by omega)
              · rw [her]; exact Or.inr ⟨_, rfl⟩

theorem appExRead_safe (e : AppEx) (b : Bytes) : ReadOK b.length (appExRead e b).2 :=
  appExReadLoop_safe b (b.length + 1) e 0 (Nat.zero_le _) (by omega)

/-- UnmarshalFastMsg returns normally on every byte string whenever the payload's FastRead does -/
theorem unmarshal_safe {α} (C : Codec α) (hC : ∀ t b, ReadOK b.length (C.read t b).2) (b : Bytes) (msg : α) :
    ∃ u, unmarshalFastMsg C b msg = .ok u := by
  unfold unmarshalFastMsg
  have hs := binRead_sound .msg b
  simp only [binRead] at hs
  cases hm : binReadMessageBegin b with
  | err e => exact ⟨_, rfl⟩
  | panic s => rw [hm] at hs; simp [mapOk, Sound] at hs
  | oob => rw [hm] at hs; simp [mapOk, Sound] at hs
  | ok h =>
    rw [hm] at hs; simp [mapOk, Sound] at hs
    simp only []
    rw [if_neg (by omega)]
    split
    · rcases appExRead_safe ⟨Facts.aeUNKNOWN, []⟩ (b.drop h.2.2.2) with ⟨n, hn, _⟩ | ⟨er, her⟩
      · rw [hn]; exact ⟨_, rfl⟩
      · rw [her]; exact ⟨_, rfl⟩
    · rcases hC msg (b.drop h.2.2.2) with ⟨n, hn, _⟩ | ⟨er, her⟩
      · rw [hn]; exact ⟨_, rfl⟩
      · rw [her]; exact ⟨_, rfl⟩


end Verif.Wire

/- Lemmas/SkipBinCor: corollaries of the exact characterisation of Binary.Skip. -/
import Verif.Lemmas.SkipBin
import Verif.Lemmas.GrammarLocal
namespace Verif

theorem skipBin_ok_iff (b : Bytes) (t : UInt8) (n : Nat) :
    skipBin b t = .ok n ↔ refBin Facts.defaultRecursionDepth t b = some n := by
  have h := skipBin_matches b t
  unfold Matches at h
  cases hr : refBin Facts.defaultRecursionDepth t b with
  | none => rw [hr] at h; obtain ⟨e, he⟩ := h; simp [he]
  | some m => rw [hr] at h; simp [h]

theorem skipBin_total (b : Bytes) (t : UInt8) : (∃ n, skipBin b t = .ok n) ∨ (∃ e, skipBin b t = .err e) := by
  have h := skipBin_matches b t
  unfold Matches at h
  cases hr : refBin Facts.defaultRecursionDepth t b with
  | none => rw [hr] at h; exact Or.inr h
  | some m => rw [hr] at h; exact Or.inl ⟨m, h⟩

theorem refLen_unknown_type (d : Nat) (t : UInt8) (b : Bytes)
    (ht : fixedSize t = 0 ∧ t ≠ TT.STRING ∧ t ≠ TT.STRUCT ∧ t ≠ TT.MAP ∧ t ≠ TT.SET ∧ t ≠ TT.LIST) :
    refLen d t b = none := by
  cases d with
  | zero => simp [refLen]
  | succ d => simp [refLen, layer, ht.1, ht.2.1, ht.2.2.1, ht.2.2.2.1, ht.2.2.2.2.1, ht.2.2.2.2.2]

theorem refLen_neg_string (d : Nat) (b : Bytes) (h : ¬ rd32 b < 2147483648) : refLen d TT.STRING b = none := by
  cases d with
  | zero => simp [refLen]
  | succ d => simp [refLen, layer, fixedSize_STRING, refStr, h]

theorem refLen_neg_list (d : Nat) (t et : UInt8) (rest : Bytes) (ht : t = TT.LIST ∨ t = TT.SET)
    (h : ¬ rd32 rest < 2147483648) : refLen d t (et :: rest) = none := by
  have hf : fixedSize t = 0 := by rcases ht with h | h <;> subst h <;> decide
  have hs : t ≠ TT.STRING := by rcases ht with h | h <;> subst h <;> decide
  have hst : t ≠ TT.STRUCT := by rcases ht with h | h <;> subst h <;> decide
  cases d with
  | zero => simp [refLen]
  | succ d => simp [refLen, layer, hf, hs, hst, ht, h]

theorem refLen_neg_map (d : Nat) (kt vt : UInt8) (rest : Bytes)
    (h : ¬ rd32 rest < 2147483648) : refLen d TT.MAP (kt :: vt :: rest) = none := by
  cases d with
  | zero => simp [refLen]
  | succ d =>
    simp [refLen, layer, show fixedSize TT.MAP = 0 by decide, show TT.MAP ≠ TT.STRING by decide,
      show TT.MAP ≠ TT.STRUCT by decide, show ¬ (TT.MAP = TT.LIST ∨ TT.MAP = TT.SET) by decide, h]

end Verif

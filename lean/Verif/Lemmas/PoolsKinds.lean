/-
  Lemmas/PoolsKinds: the instance kinds of Model/Pools are `Good` (isolated): each refines a machine
  that has neither a pooled object nor an allocator.
    kDR   the reader model itself (content level: buffers are values, no dirty memory in it)
    kBR   BufferReader: `NewBufferReader` overwrites the only field
    kBSD  BytesSkipDecoder: `Reset(b)` overwrites both fields
    kSD   SkipDecoder: `New` leaves `rn` as found in the pool; `Next` starts with `p.rn = 0`
    kRSD  ReaderSkipDecoder: `Reset(r)` leaves the BUFFER as found in the pool, and growing takes
          dirty memory from the shared pool; by `rsdNext_spec` neither ever shows
    kDW, kBW  DefaultWriter / BufferWriter: in Lemmas/PoolsWriter (refine the append-only log)
  and `Good` is closed under `Kind.sum` (systems with instances of several types).
-/
import Verif.Lemmas.Pools
import Verif.Lemmas.PoolsRsd
import Verif.Lemmas.PoolsWriter
import Verif.Lemmas.PoolsTth
namespace Verif.Pools
open Verif

/-- a kind whose operations ignore the pool's memory and whose `New…` ignores the object it got;
    `Fresh` = what an object at rest in the pool looks like (established by `release`) -/
def Good.ofEq (K : Kind) (ainit : K.Arg → K.St) (Fresh : K.Obj → Prop)
    (hzero : ∀ a, Fresh (K.zero a)) (hrel : ∀ s, Fresh (K.release s).1)
    (hinit : ∀ o a, K.init o a = ainit a)
    (hstep : ∀ d s o, (K.step d s o).1 = (K.step (fun _ _ => 0) s o).1 ∧
                      (K.step d s o).2.1 = (K.step (fun _ _ => 0) s o).2.1) : Good K where
  Abs := K.St
  ainit := ainit
  astep x o := ((K.step (fun _ _ => 0) x o).1, (K.step (fun _ _ => 0) x o).2.1)
  Ref s x := s = x
  Fresh := Fresh
  zero_fresh := hzero
  init_ref o a _ := hinit o a
  step_ref d s x o h := by subst h; exact hstep d s o
  release_fresh s _ _ := hrel s

/-- DefaultReader is not an object-pool type (`Obj = Unit`): nothing of it rests in a pool -/
def goodDR : Good kDR :=
  Good.ofEq kDR (fun src => Rd.newDefault src) (fun _ => True) (fun _ => trivial) (fun _ => trivial)
    (fun _ _ => rfl) (fun _ _ _ => ⟨rfl, rfl⟩)

/-- a BufferReader at rest holds no reader: `r == nil` (its only field) -/
def goodBR : Good kBR :=
  Good.ofEq kBR (fun src => some ⟨some (Rd.newDefault src)⟩) (fun o => o.r = none) (fun _ => rfl)
    (fun s => by cases s <;> rfl) (fun _ _ => rfl) (fun _ _ _ => ⟨rfl, rfl⟩)

/-- a BytesSkipDecoder at rest: `n == 0`, `b == nil` (both fields) -/
def goodBSD : Good kBSD :=
  Good.ofEq kBSD (fun b => some ⟨0, b⟩) (fun o => o.n = 0 ∧ o.b = []) (fun _ => ⟨rfl, rfl⟩)
    (fun s => by cases s <;> exact ⟨rfl, rfl⟩) (fun _ _ => rfl) (fun _ _ _ => ⟨rfl, rfl⟩)

/-! ### SkipDecoder: a stale `rn` is never read -/

theorem sdNext_congr (p q : SkipDecoderObj) (t : UInt8) (h : p.r = q.r) : sdNext p t = sdNext q t := by
  unfold sdNext; rw [h]

def goodSD : Good kSD where
  Abs := Option SkipDecoderObj
  ainit src := some ⟨some (Rd.newDefault src), 0⟩
  astep x t := ((kSD.step (fun _ _ => 0) x t).1, (kSD.step (fun _ _ => 0) x t).2.1)
  Ref s x := s.map (·.r) = x.map (·.r)
  Fresh o := o.r = none ∧ o.rn = 0          -- a SkipDecoder at rest is `SkipDecoder{}` (both fields)
  zero_fresh _ := ⟨rfl, rfl⟩
  init_ref _ _ _ := rfl
  step_ref d s x t h := by
    have : kSD.step d s t = kSD.step (fun _ _ => 0) x t := by
      cases s with
      | none => cases x with
        | none => rfl
        | some q => simp at h
      | some p => cases x with
        | none => simp at h
        | some q =>
          simp only [Option.map_some, Option.some.injEq] at h
          simp only [kSD, liftT, sdNext_congr p q t h]
    rw [this]; exact ⟨rfl, rfl⟩
  release_fresh s _ _ := by cases s <;> exact ⟨rfl, rfl⟩

/-! ### ReaderSkipDecoder -/

/-- the allocator-free, buffer-free machine: the source, or `none` after a failed call -/
def rsdAStep (a : Option Src) (t : UInt8) : Option Src × TOut (Bytes × Nat) :=
  match a with
  | none => (none, .panic "used-after-failure")
  | some src =>
    match readerDecNext src t with
    | .ok y => (some y.2, .ok (y.1, y.2.stream.length))
    | .err e => (none, .err e)
    | .panic s => (none, .panic s)
    | .oob => (none, .oob)

def rsdRef (s : Option ReaderSkipDecoderObj) (a : Option Src) : Prop :=
  match s, a with
  | none, none => True
  | some p, some src => p.r = some src
  | _, _ => False

theorem rsd_step_ref (d : Dirty) (s : Option ReaderSkipDecoderObj) (a : Option Src) (t : UInt8)
    (h : rsdRef s a) :
    rsdRef (kRSD.step d s t).1 (rsdAStep a t).1 ∧ (kRSD.step d s t).2.1 = (rsdAStep a t).2 := by
  cases s with
  | none => cases a with
    | none => exact ⟨trivial, rfl⟩
    | some src => exact h.elim
  | some p => cases a with
    | none => exact h.elim
    | some src =>
      have hp : p.r = some src := h
      have hs := rsdNext_spec d p src t hp
      simp only [kRSD, liftT, rsdAStep]
      generalize rsdNext d p t = x at hs
      generalize readerDecNext src t = y at hs
      cases x <;> cases y <;> simp only [OutRel] at hs <;> try (exact hs.elim)
      · rename_i r y
        simp only [rsdRef]
        exact ⟨hs.2, by rw [hs.1]⟩
      · subst hs; exact ⟨trivial, rfl⟩
      · subst hs; exact ⟨trivial, rfl⟩
      · exact ⟨trivial, rfl⟩

def goodRSD : Good kRSD where
  Abs := Option Src
  ainit src := some src
  astep := rsdAStep
  Ref := rsdRef
  -- a ReaderSkipDecoder at rest: `r == nil`, `n == 0`; the field `b` (its private mcache buffer, any
  -- length, any content) is the ONE thing the code retains on purpose
  Fresh o := o.r = none ∧ o.n = 0
  zero_fresh _ := ⟨rfl, rfl⟩
  init_ref _ _ _ := rfl
  step_ref d s x t h := rsd_step_ref d s x t h
  release_fresh s _ _ := by cases s <;> exact ⟨rfl, rfl⟩

/-! ### systems with instances of several types -/

def Good.sum {K1 K2 : Kind} (G1 : Good K1) (G2 : Good K2) : Good (Kind.sum K1 K2) where
  Abs := G1.Abs ⊕ G2.Abs
  ainit := fun
    | .inl a => .inl (G1.ainit a)
    | .inr a => .inr (G2.ainit a)
  astep := fun x o =>
    match x, o with
    | .inl x, .inl o => (.inl (G1.astep x o).1, some (.inl (G1.astep x o).2))
    | .inr x, .inr o => (.inr (G2.astep x o).1, some (.inr (G2.astep x o).2))
    | x, _ => (x, none)
  Ref := fun s x =>
    match s, x with
    | .inl s, .inl x => G1.Ref s x
    | .inr s, .inr x => G2.Ref s x
    | _, _ => False
  Fresh := fun
    | .inl o => G1.Fresh o
    | .inr o => G2.Fresh o
  zero_fresh := fun
    | .inl a => G1.zero_fresh a
    | .inr a => G2.zero_fresh a
  init_ref := fun o a h => by
    cases o <;> cases a
    · exact G1.init_ref _ _ h
    · exact G2.init_ref _ _ (G2.zero_fresh _)
    · exact G1.init_ref _ _ (G1.zero_fresh _)
    · exact G2.init_ref _ _ h
  step_ref := fun d s x o h => by
    cases s <;> cases x <;> cases o <;> first | exact h.elim | skip
    · exact ⟨(G1.step_ref d _ _ _ h).1, by simp only [Kind.sum]; rw [(G1.step_ref d _ _ _ h).2]⟩
    · exact ⟨h, rfl⟩
    · exact ⟨h, rfl⟩
    · exact ⟨(G2.step_ref d _ _ _ h).1, by simp only [Kind.sum]; rw [(G2.step_ref d _ _ _ h).2]⟩
  release_fresh := fun s x h => by
    cases s <;> cases x <;> first | exact h.elim | skip
    · exact G1.release_fresh _ _ h
    · exact G2.release_fresh _ _ h

end Verif.Pools

namespace Verif.Pools
open Verif

/-- a system with instances of all the reading kinds at once: DefaultReader, BufferReader,
    SkipDecoder, BytesSkipDecoder, ReaderSkipDecoder -/
def Readers : Kind := Kind.sum kDR (Kind.sum kBR (Kind.sum kSD (Kind.sum kBSD kRSD)))

def goodReaders : Good Readers := goodDR.sum (goodBR.sum (goodSD.sum (goodBSD.sum goodRSD)))

/-- … and of every kind: the five reading kinds, DefaultWriter, BufferWriter and the header codec -/
def All : Kind := Kind.sum Readers (Kind.sum kDW (Kind.sum kBW kTTH))

def goodAll : Good All := goodReaders.sum (goodDW.sum (goodBW.sum goodTTH))

end Verif.Pools

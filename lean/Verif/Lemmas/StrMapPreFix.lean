/-
  Lemmas/StrMapPreFix: the two repaired defects of container/strmap, as theorems about the code AS IT
  WAS (so that each repair's effect is machine-checked, and a reverse patch is a proved violation).

  F8  (repaired by 46c6b2e): `Get` without the `len(hashtable) == 0` guard divides by zero on a
      never-loaded map — `Model.getNoGuard`, theorem `C07.never_loaded_needs_guard`.
  F13 (repaired by 3480123): `LoadFromSlice` checked `len(k) > math.MaxUint32` inside the append
      loop, AFTER data/items/hashtable had been truncated, so the error return "key too large" left
      the map with the pairs before the offending key in `items`, an empty table, and the previous
      content lost. Below: that version of the function and the proof that a failed load changed the
      map (for every hash, sorter, previous state and position of the offending key).
-/
import Verif.Lemmas.StrMapLoad
namespace Verif.SMap.PreFix
open Verif Verif.SMap

variable {V : Type}

/-- the append loop before 3480123: returns (error?, bytes appended, items appended) -/
def appendLoopOld (h : Bytes → Nat) : List (Bytes × V) → Nat → Option LErr × Bytes × List (Item V)
  | [], _ => (none, [], [])
  | kv :: r, off =>
    if kv.1.length > maxU32 then (some .keyTooLarge, [], [])
    else
      let t := appendLoopOld h r (off + kv.1.length)
      (t.1, kv.1 ++ t.2.1, ⟨off, kv.1.length % two32, h kv.1 % two32, kv.2⟩ :: t.2.2)

/-- `LoadFromSlice` before 3480123 -/
def loadFromSliceOld (h : Bytes → Nat) (sorter : List (Item V) → List (Item V))
    (m : StrMap V) (kk : List Bytes) (vv : List V) : Out LErr Unit × StrMap V :=
  if kk.length ≠ vv.length then (.err .kvLen, m)
  else
    let t := appendLoopOld h (kk.zip vv) 0
    let m1 : StrMap V := ⟨t.2.1, t.2.2, #[], m.ht ++ m.spare⟩
    match t.1 with
    | some e => (.err e, m1)
    | none => makeHashtable sorter m1

/-- F13: with the old order, a load failing with "key too large" returned the error and left
    `Len()` = number of pairs before the offending key, every `Get` absent: the previous content
    (whatever it was) is gone. Witness replayed on the real code before the repair:
    {a:1,b:2}; LoadFromSlice(["c", 4GiB+1 bytes], [3,4]) → err, Len 1, Get a/c absent. -/
theorem key_too_large_changed (h : Bytes → Nat) (sorter : List (Item V) → List (Item V))
    (st : StrMap V) (pre : List (Bytes × V)) (big : Bytes × V) (post : List (Bytes × V)) (s : Bytes)
    (hpre : ∀ kv ∈ pre, kv.1.length ≤ maxU32) (hbig : big.1.length > maxU32) :
    let r := loadFromSliceOld h sorter st ((pre ++ big :: post).map (·.1)) ((pre ++ big :: post).map (·.2))
    r.1 = .err .keyTooLarge ∧ len r.2 = pre.length ∧ get h r.2 s = .ok none := by
  have key : ∀ (l : List (Bytes × V)) (off : Nat), (∀ kv ∈ l, kv.1.length ≤ maxU32) →
      (appendLoopOld h (l ++ big :: post) off).1 = some .keyTooLarge ∧
      (appendLoopOld h (l ++ big :: post) off).2.2.length = l.length := by
    intro l
    induction l with
    | nil => intro off _; simp [appendLoopOld, hbig]
    | cons kv l ih =>
      intro off hl
      have h1 : ¬ (kv.1.length > maxU32) := by have := hl kv List.mem_cons_self; omega
      have := ih (off + kv.1.length) (fun x hx => hl x (List.mem_cons_of_mem _ hx))
      simp only [List.cons_append, appendLoopOld, h1, if_false, List.length_cons, this.1, this.2]
      exact ⟨trivial, trivial⟩
  obtain ⟨k1, k2⟩ := key pre 0 hpre
  intro r
  have hl : ¬ (((pre ++ big :: post).map (·.1)).length ≠ ((pre ++ big :: post).map (·.2)).length) := by simp
  simp only [r, loadFromSliceOld, hl, if_false, zip_fst_snd, k1]
  refine ⟨trivial, k2, ?_⟩
  simp [SMap.get]

/-- … hence "a failed load changes nothing" was false for the old code: a concrete loaded map whose
    key is lost -/
theorem failed_load_changed_old (big : Bytes) (hbig : big.length > maxU32) :
    ∃ (st : StrMap Nat) (kk : List Bytes) (vv : List Nat) (s : Bytes),
      (∃ v, get (fun _ => 0) st s = .ok (some v)) ∧
      (loadFromSliceOld (fun _ => 0) msort st kk vv).1 = .err .keyTooLarge ∧
      get (fun _ => 0) (loadFromSliceOld (fun _ => 0) msort st kk vv).2 s = .ok none := by
  have hs : IsSlotSort (msort (V := Nat)) := by
    intro l
    refine ⟨List.mergeSort_perm _ _, ?_⟩
    have := List.pairwise_mergeSort (le := fun (a b : Item Nat) => decide (a.slot ≤ b.slot))
      (by intro a b c; simp only [decide_eq_true_eq]; omega)
      (by intro a b; simp only [Bool.or_eq_true, decide_eq_true_eq]; omega) l
    exact this.imp (by intro a b; simp)
  obtain ⟨st, hst, hL⟩ := loadFromSlice_spec (fun _ => 0) msort hs StrMap.init [([97], 1)]
    (by decide) (by decide)
  refine ⟨st, [big], [7], [97], ⟨1, ?_⟩, ?_, ?_⟩
  · rw [hL.get_eq (by decide) [97]]; rfl
  · exact (key_too_large_changed (fun _ => 0) msort st [] (big, 7) [] [97] (by intro kv hkv; cases hkv) hbig).1
  · exact (key_too_large_changed (fun _ => 0) msort st [] (big, 7) [] [97] (by intro kv hkv; cases hkv) hbig).2.2

end Verif.SMap.PreFix

/-
  Lemmas/ComposeTth: ttheader.Decode over the REAL buffered reader model `Rd` (Model/Reader).

  Lemmas/TthStream proves Decode against an abstract contract `ReaderOK` that quantifies over ALL reader
  states and ALL request sizes.  C04's results about `Rd.next` hold for states satisfying its invariant
  `Inv` and for requests in range (`Small`), so the contract is restated here with an invariant `P`, a
  request bound, and a liveness predicate `live s n` ("n more bytes can still be delivered"):

      CmpReader next rem pos P live bnd

  and Decode is proved against it once more (`cmp_decodeG`: the proof of `decodeG_contract` with the
  invariant threaded through — Decode asks for 14 and then for at most 65536 bytes).  Then the
  instances, all from C04 (`C04.next_ok`, `C04.fail_nonnil`, `C04.never_nofuel`, `rdc_inst` =
  `next_cases` + `acquire_live` + `live_canServe`):
      cmp_rd_any     any source (live := False): soundness
      cmp_rd_steady  C04's `Rd.Live` (stream handed over, or no error yet and a `Steady` script)
      cmp_rd_live    C01's operational `Wire.Live r n` ("the next n bytes are served however they are
                     asked for"), the weakest hypothesis under which success can be promised.
-/
import Verif.Lemmas.TthStream
import Verif.Lemmas.TthRt
import Verif.Lemmas.SkipBRInst
import Verif.Lemmas.WireRd
import Verif.Props.C04
namespace Verif.Compose
open Verif Verif.TTH Verif.Frame

/-- the bufiox.Reader contract as far as Decode uses it, for states satisfying `P` and requests up to
    `bnd`: `Next(n)` returns exactly the next n bytes of the remaining stream, advances by n, keeps `P`
    and what was deliverable beyond n still is; or it fails with a NON-NIL error, moves nothing, and
    the state was not live for n bytes. -/
structure CmpReader {σ : Type} (next : σ → Int → RdRes × σ) (rem : σ → Bytes) (pos : σ → Nat)
    (P : σ → Prop) (live : σ → Nat → Prop) (bnd : Nat) : Prop where
  ok : ∀ (s : σ) (n : Nat) (bs : Bytes), P s → n ≤ bnd → (next s n).1 = .ok bs →
    n ≤ (rem s).length ∧ bs = (rem s).take n ∧ rem (next s n).2 = (rem s).drop n ∧
    pos (next s n).2 = pos s + n ∧ P (next s n).2 ∧ ∀ m, live s (n + m) → live (next s n).2 m
  fail : ∀ (s : σ) (n : Nat) (e : Option RErr), P s → n ≤ bnd → (next s n).1 = .fail e →
    e ≠ none ∧ pos (next s n).2 = pos s ∧ rem (next s n).2 = rem s ∧ ¬ live s n
  fuel : ∀ (s : σ) (n : Nat), P s → n ≤ bnd → (next s n).1 ≠ .nofuel
  mono : ∀ (s : σ) (n m : Nat), live s (n + m) → live s n

theorem cmp_decodeMeta_size (bs : Bytes) (h : bs.length = 14) (m : Meta) (hm : decodeMeta bs = .ok m) :
    m.size = 4 * rd16 (bs.drop 12) ∧ m.size ≤ 65536 := by
  rw [decodeMeta_eq bs h] at hm
  split at hm
  · cases hm
  · split at hm
    · cases hm
    · rename_i hsz
      have := Out.ok.inj hm
      subst this
      exact ⟨rfl, by show 4 * rd16 (bs.drop 12) ≤ 65536; omega⟩

/-- Decode over any reader keeping the contract, from a state satisfying the invariant: either exactly
    what Decode of the remaining stream (as one slice) gives — same result, same number of bytes
    consumed, exactly those bytes gone from the remaining stream, invariant kept — or the reader's own
    error, having consumed no more than that, and then the state was NOT live for
    14 + declared-size bytes. -/
theorem cmp_decodeG {σ : Type} (next : σ → Int → RdRes × σ) (rem : σ → Bytes) (pos : σ → Nat)
    (P : σ → Prop) (live : σ → Nat → Prop) (bnd : Nat)
    (hc : CmpReader next rem pos P live bnd) (hb : 65536 ≤ bnd) (s : σ) (hP : P s) :
    ((decodeG next s).1 = (decodeCur (rem s)).1 ∧
      pos (decodeG next s).2 = pos s + (decodeCur (rem s)).2 ∧
      rem (decodeG next s).2 = (rem s).drop (decodeCur (rem s)).2 ∧ P (decodeG next s).2) ∨
    (∃ e, (decodeG next s).1 = .err (.rd e) ∧ pos (decodeG next s).2 ≤ pos s + (decodeCur (rem s)).2 ∧
      ¬ live s (14 + declared (rem s))) := by
  unfold decodeG decodeCur
  simp only [decodeG]
  have h14 : (Facts.ttMetaSize : Nat) ≤ bnd := by
    have : Facts.ttMetaSize = 14 := rfl
    omega
  -- first Next
  cases h1 : (next s (Facts.ttMetaSize : Nat)).1 with
  | nofuel => exact absurd h1 (hc.fuel s _ hP h14)
  | fail e =>
    obtain ⟨hne, hp, _, hnl⟩ := hc.fail s _ e hP h14 h1
    cases e with
    | none => exact absurd rfl hne
    | some e =>
      right
      refine ⟨e, ?_, ?_, ?_⟩
      · simp only [nextBytes, Out.bind_err]
      · simp only [nextBytes, Out.bind_err, hp]; omega
      · intro hl
        exact hnl (hc.mono s _ _ hl)
  | ok bs =>
    obtain ⟨hlen, hbs, hrem, hp, hP1, hlive1⟩ := hc.ok s _ bs hP h14 h1
    have hcur : TTH.Cur.next ⟨rem s, 0⟩ (Facts.ttMetaSize : Nat) = (.ok bs, ⟨rem s, Facts.ttMetaSize⟩) := by
      unfold TTH.Cur.next
      have h0 : ¬ ((Facts.ttMetaSize : Nat) : Int) < 0 := by omega
      simp only [h0, if_false, Int.toNat_natCast, Nat.sub_zero, hlen, if_true, List.drop_zero, hbs, Nat.zero_add]
    simp only [hcur, nextBytes, Out.bind_ok]
    cases hm : decodeMeta bs with
    | err e => left; simp only [hp, hrem]; exact ⟨trivial, trivial, trivial, hP1⟩
    | panic w => left; simp only [hp, hrem]; exact ⟨trivial, trivial, trivial, hP1⟩
    | oob => left; simp only [hp, hrem]; exact ⟨trivial, trivial, trivial, hP1⟩
    | ok m =>
      simp only
      have hbl : bs.length = 14 := by
        rw [hbs, List.length_take]
        have : Facts.ttMetaSize = 14 := rfl
        omega
      obtain ⟨hsz, hsz2⟩ := cmp_decodeMeta_size bs hbl m hm
      have hmb : m.size ≤ bnd := by omega
      have hdecl : m.size = declared (rem s) := by
        rw [hsz, hbs]
        show 4 * rd16 (((rem s).take Facts.ttMetaSize).drop 12) = 4 * rd16 ((rem s).drop 12)
        rw [rd16_take_drop _ _ _ (by decide)]
      cases h2 : (next (next s (Facts.ttMetaSize : Nat)).2 (m.size : Nat)).1 with
      | nofuel => exact absurd h2 (hc.fuel _ _ hP1 hmb)
      | fail e =>
        obtain ⟨hne, hp2, _, hnl⟩ := hc.fail _ _ e hP1 hmb h2
        cases e with
        | none => exact absurd rfl hne
        | some e =>
          right
          refine ⟨e, by simp only [Out.bind_err], ?_, ?_⟩
          · rw [hp2, hp]
            have : (TTH.Cur.next ⟨rem s, Facts.ttMetaSize⟩ (m.size : Nat)).2.pos ≥ Facts.ttMetaSize := by
              unfold TTH.Cur.next; split
              · exact Nat.le_refl _
              · split
                · simp only; omega
                · exact Nat.le_refl _
            omega
          · intro hl
            rw [← hdecl] at hl
            exact hnl (hlive1 _ hl)
      | ok bs2 =>
        obtain ⟨hlen2, hbs2, hrem2, hp2, hP2, _⟩ := hc.ok _ _ bs2 hP1 hmb h2
        rw [hrem] at hlen2 hbs2 hrem2
        left
        have hcur2 : TTH.Cur.next ⟨rem s, Facts.ttMetaSize⟩ (m.size : Nat)
            = (.ok bs2, ⟨rem s, Facts.ttMetaSize + m.size⟩) := by
          unfold TTH.Cur.next
          have h0 : ¬ ((m.size : Nat) : Int) < 0 := by omega
          simp only [List.length_drop] at hlen2
          simp only [h0, if_false, Int.toNat_natCast, hlen2, if_true, hbs2]
        simp only [hcur2, Out.bind_ok, hp2, hp, hrem2, List.drop_drop]
        exact ⟨trivial, by omega, trivial, hP2⟩

/-! ## the instances: C04's reader -/

theorem cmp_take_drop_of_append (R b R' : Bytes) (n : Nat) (h : R = b ++ R') (hl : b.length = n) :
    n ≤ R.length ∧ b = R.take n ∧ R' = R.drop n := by
  subst h; subst hl
  simp

/-- the part of the contract that holds over ANY source: C04's `next_ok`, `fail_nonnil`, `never_nofuel` -/
theorem cmp_rd_ok (r : Rd) (n : Nat) (bs : Bytes) (h : RdOK r) (hn : n ≤ bigReq)
    (hr : (r.next (n : Int)).1 = .ok bs) :
    n ≤ r.remaining.length ∧ bs = r.remaining.take n ∧ (r.next (n : Int)).2.remaining = r.remaining.drop n ∧
    (r.next (n : Int)).2.readLen = r.readLen + n ∧ RdOK (r.next (n : Int)).2 := by
  have hs := h.inDomain n hn
  have hs' : r.InDomain ((n : Int)).toNat := by simpa using hs
  obtain ⟨_, hlen, hsplit, hrl, hinv⟩ := C04.next_ok r n bs (r.next (n : Int)).2 h.1 hs' (by rw [← hr])
  simp only [Int.toNat_natCast] at hlen hrl
  obtain ⟨a, b, c⟩ := cmp_take_drop_of_append _ _ _ n hsplit hlen
  refine ⟨a, b, c, hrl, hinv, ?_⟩
  have hri : (r.next (n : Int)).2.ri = r.ri + n := hrl
  rw [c, hri, List.length_drop]
  have := h.2
  omega

theorem cmp_rd_fail (r : Rd) (n : Nat) (e : Option RErr) (h : RdOK r) (hn : n ≤ bigReq)
    (hr : (r.next (n : Int)).1 = .fail e) :
    e ≠ none ∧ (r.next (n : Int)).2.readLen = r.readLen ∧ (r.next (n : Int)).2.remaining = r.remaining ∧
    RdOK (r.next (n : Int)).2 := by
  have hs := h.inDomain n hn
  have hs' : r.InDomain ((n : Int)).toNat := by simpa using hs
  obtain ⟨hne, hrem, hrl, hinv⟩ :=
    C04.fail_nonnil r n e (r.next (n : Int)).2 h.1 hs' (Or.inl (by rw [← hr]))
  refine ⟨hne, hrl, hrem, hinv, ?_⟩
  have hri : (r.next (n : Int)).2.ri = r.ri := hrl
  rw [hrem, hri]; exact h.2

/-- ANY source: the reader keeps the contract with the vacuous liveness (nothing is promised) -/
theorem cmp_rd_any : CmpReader Rd.next Rd.remaining Rd.readLen RdOK (fun _ _ => False) bigReq where
  ok r n bs h hn hr := by
    obtain ⟨a, b, c, d, e⟩ := cmp_rd_ok r n bs h hn hr
    exact ⟨a, b, c, d, e, fun _ hf => hf⟩
  fail r n e h hn hr := by
    obtain ⟨a, b, c, _⟩ := cmp_rd_fail r n e h hn hr
    exact ⟨a, b, c, fun hf => hf⟩
  fuel r n _ _ := (C04.never_nofuel r n 0).1
  mono _ _ _ h := h

/-- C04's liveness: over a `Rd.Live` source (everything handed over already, or no error seen and a
    `Steady` rest of the script) a request that fits into what is left never fails -/
theorem cmp_rd_steady :
    CmpReader Rd.next Rd.remaining Rd.readLen (fun r => RdOK r ∧ r.Live) (fun r n => n ≤ r.remaining.length)
      bigReq where
  ok r n bs h hn hr := by
    obtain ⟨a, b, c, d, e⟩ := cmp_rd_ok r n bs h.1 hn hr
    refine ⟨a, b, c, d, ⟨e, ?_⟩, ?_⟩
    · -- liveness is kept: `rdc_inst True` (from C04's acquire_keeps_live)
      rcases (rdc_inst True).next r n ⟨h.1, fun _ => h.2⟩ (by omega) (by simpa using hn) with
        ⟨r', hx, _, _, _, hp'⟩ | ⟨e', r', hx, _⟩
      · rw [hx]; exact hp'.2 trivial
      · rw [hx] at hr; cases hr
    · intro m hm
      rw [c, List.length_drop]; omega
  fail r n e h hn hr := by
    obtain ⟨a, b, c, _⟩ := cmp_rd_fail r n e h.1 hn hr
    refine ⟨a, b, c, ?_⟩
    rcases (rdc_inst True).next r n ⟨h.1, fun _ => h.2⟩ (by omega) (by simpa using hn) with
      ⟨r', hx, _, _, _, _⟩ | ⟨e', r', hx, hl⟩
    · rw [hx] at hr; cases hr
    · have := hl trivial
      simp only [Int.toNat_natCast] at this
      omega
  fuel r n _ _ := (C04.never_nofuel r n 0).1
  mono _ _ _ h := by omega

theorem cmp_wire_remaining (r : Rd) : Wire.remaining r = r.remaining := rfl

/-- C01's operational liveness `Wire.Live r n` (however the next n bytes are asked for, they are served) -/
theorem cmp_rd_live : CmpReader Rd.next Rd.remaining Rd.readLen RdOK Wire.Live bigReq where
  ok r n bs h hn hr := by
    obtain ⟨a, b, c, d, e⟩ := cmp_rd_ok r n bs h hn hr
    refine ⟨a, b, c, d, e, ?_⟩
    intro m hm
    by_cases h0 : n = 0
    · subst h0
      have hz := Wire.next_zero_ok r
      have : (r.next ((0 : Nat) : Int)).2 = r := by rw [hz]
      rw [this]; simpa using hm
    · cases hm with
      | mk _ _ _ _ c' _ =>
        have := c' n bs (r.next (n : Int)).2 (by omega) (by omega) (by rw [← hr])
        simpa using this
  fail r n e h hn hr := by
    obtain ⟨a, b, c, _⟩ := cmp_rd_fail r n e h hn hr
    refine ⟨a, b, c, ?_⟩
    intro hl
    cases hl with
    | mk _ _ a' _ _ _ =>
      obtain ⟨bs, r1, hx⟩ := a' n (Nat.le_refl n)
      rw [hx] at hr; cases hr
  fuel r n _ _ := (C04.never_nofuel r n 0).1
  mono r n m h := h.mono' n (by omega)

/-- Decode looks at no byte beyond the 14 + declared it consumes -/
theorem cmp_decodeCur_prefix (b : Bytes) (h : 14 + declared b ≤ b.length) :
    decodeCur (b.take (14 + declared b)) = decodeCur b := by
  have hd : declared (b.take (14 + declared b)) = declared b := by
    unfold declared sizeField; rw [rd16_take_drop _ _ _ (by omega)]
  rw [decodeCur_chain, decodeCur_chain b, hd]
  have e4 : rd16 ((b.take (14 + declared b)).drop 4) = rd16 (b.drop 4) := rd16_take_drop _ _ _ (by omega)
  have e6 : rd16 ((b.take (14 + declared b)).drop 6) = rd16 (b.drop 6) := rd16_take_drop _ _ _ (by omega)
  have e8 : rd32 ((b.take (14 + declared b)).drop 8) = rd32 (b.drop 8) := rd32_take_drop _ _ _ (by omega)
  have e0 : totalLen (b.take (14 + declared b)) = totalLen b := by
    unfold totalLen; exact TTH.rd32_take _ _ (by omega)
  have el : (b.take (14 + declared b)).length = 14 + declared b := by rw [List.length_take]; omega
  have ei : ((b.take (14 + declared b)).drop 14).take (declared b) = (b.drop 14).take (declared b) := by
    rw [List.drop_take, List.take_take]
    congr 1; omega
  rw [e4, e6, e8, e0, el, ei]
  have h1 : ¬ (14 + declared b < 14) := by omega
  have h2 : ¬ (b.length < 14) := by omega
  have h3 : ¬ (14 + declared b - 14 < declared b) := by omega
  have h4 : ¬ (b.length - 14 < declared b) := by omega
  simp only [h1, h2, h3, h4, if_false]

/-- a successful Decode consumed 14 + declared bytes, and they were there -/
theorem cmp_decodeCur_ok (b : Bytes) (d : DecParam) (h : (decodeCur b).1 = .ok d) :
    (decodeCur b).2 = 14 + declared b ∧ 14 + declared b ≤ b.length ∧ d.headerLen = ((14 + declared b : Nat) : Int) := by
  have hs := decodeCur_spec b
  cases hv : refValid b with
  | none =>
    rw [hv] at hs; obtain ⟨e, he, _⟩ := hs
    rw [he] at h; cases h
  | some secs =>
    rw [hv] at hs
    simp only at hs
    have hc := (decodeCur_consumed b).1
    rw [hs] at h hc ⊢
    have := Out.ok.inj h
    subst this
    refine ⟨rfl, hc, ?_⟩
    simp only [toParam]; omega

/-- C04's liveness implies C01's operational liveness: over a `Rd.Live` source (stream handed over, or
    no error yet and a `Steady` script) every way of asking for the next `n ≤ |remaining|` bytes — in any
    pieces, by Next or by ReadBinary — is served -/
theorem cmp_steady_wire_live : ∀ (n : Nat) (r : Rd), RdOK r → r.Live → n ≤ r.remaining.length → Wire.Live r n := by
  intro n
  induction n using Nat.strongRecOn with
  | _ n ih =>
    intro r h hl hn
    have hsz := h.2
    have hbig : ∀ k, k ≤ n → k ≤ bigReq := by
      intro k hk; unfold bigReq; unfold sizeBound at hsz; omega
    have hp : RdP True r := ⟨h, fun _ => hl⟩
    refine .mk r n ?_ ?_ ?_ ?_
    · intro k hk
      rcases (rdc_inst True).next r k hp (by omega) (by simpa using hbig k hk) with
        ⟨r', hx, _⟩ | ⟨e, r', _, hlt⟩
      · exact ⟨_, r', hx⟩
      · have := hlt trivial; simp only [Int.toNat_natCast] at this; omega
    · intro k hk
      obtain ⟨m, r1, hacq, ha, hrb⟩ := readBinary_cases r k h.1 (h.small k (hbig k hk))
      obtain ⟨_, _, _, hfail, hok⟩ := acq_facts liveLike_live r k m r1 hp (hbig k hk) hacq ha
      have hge : ¬ k > m := by
        intro hgt
        have := (hfail hgt).2 trivial
        omega
      have hmin : min m k = k := by omega
      rw [hmin] at hrb
      rw [if_neg (by omega)] at hrb
      exact ⟨_, _, hrb⟩
    · intro k bs r1 hk0 hk hx
      rcases (rdc_inst True).next r k hp (by omega) (by simpa using hbig k hk) with
        ⟨r', hx', hfit, hrem, _, hp'⟩ | ⟨e, r', hx', _⟩
      · rw [hx'] at hx
        have : r' = r1 := (Prod.mk.inj hx).2
        subst this
        simp only [Int.toNat_natCast] at hrem hfit
        exact ih (n - k) (by omega) r' hp'.1 (hp'.2 trivial) (by rw [hrem, List.length_drop]; omega)
      · rw [hx'] at hx; cases (Prod.mk.inj hx).1
    · intro k out r1 hk0 hk hx
      obtain ⟨m, r2, hacq, ha, hrb⟩ := readBinary_cases r k h.1 (h.small k (hbig k hk))
      obtain ⟨hrem, hri, hl2, hfail, hok⟩ := acq_facts liveLike_live r k m r2 hp (hbig k hk) hacq ha
      have hge : ¬ k > m := by
        intro hgt
        have := (hfail hgt).2 trivial
        omega
      have hmin : min m k = k := by omega
      rw [hmin] at hrb
      rw [hrb] at hx
      have hr1 : ({ r2 with ri := r2.ri + k } : Rd) = r1 := (Prod.mk.inj hx).2
      subst hr1
      obtain ⟨hkb, _⟩ := hok hge
      have hrem' := advance_remaining r2 k hkb
      refine ih (n - k) (by omega) _ ⟨inv_advance r2 _ ha.inv hkb, ?_⟩ ((hl2 trivial).frame rfl rfl) ?_
      · rw [hrem', hrem, List.length_drop]
        simp only []
        omega
      · rw [hrem', hrem, List.length_drop]; omega

end Verif.Compose

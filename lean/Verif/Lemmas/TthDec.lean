/-
  Lemmas/TthDec: the model's decoder (Model/TTHeader, index arithmetic over the whole info slice) against
  the reference parser of Spec/Frame (which consumes a byte list): primitives, the two counted loops,
  the section loop (for every fuel), and the fact that the fuel never runs out.
-/
import Verif.Model.TTHeader
import Verif.Lemmas.TthRef
namespace Verif.TTH
open Verif.Frame (Sec takeStr2 refStrKVs refIntKVs refSecs)


theorem bytes2Uint8_drop (b : Bytes) (idx : Nat) :
    bytes2Uint8 b idx = .ok ((b.drop idx).head?.map UInt8.toNat) := by
  unfold bytes2Uint8 index
  rw [List.head?_drop]
  split
  · rename_i h
    have : b.length ≤ idx := by omega
    simp [List.getElem?_eq_none this]
  · rename_i h
    have : idx < b.length := by omega
    simp [List.getElem?_eq_getElem this]

theorem bytes2Uint16_drop (b : Bytes) (idx : Nat) :
    bytes2Uint16 b idx = .ok (if (b.drop idx).length < 2 then none else some (rd16 (b.drop idx))) := by
  unfold bytes2Uint16 sliceFrom beU16
  simp only [List.length_drop]
  split
  · rename_i h
    have : b.length - idx < 2 := by omega
    simp [this]
  · rename_i h
    have h1 : ¬ idx > b.length := by omega
    have h2 : ¬ b.length - idx < 2 := by omega
    simp [h1, h2]

theorem readString2BLen_drop (b : Bytes) (idx : Nat) :
    readString2BLen b idx = .ok ((takeStr2 (b.drop idx)).map fun x => (x.1, x.1.length + 2)) := by
  unfold readString2BLen
  rw [bytes2Uint16_drop]
  unfold takeStr2
  simp only [List.drop_drop, List.length_drop]
  by_cases h : b.length - idx < 2
  · simp [h]
  · simp only [h, if_false, Out.bind_ok]
    by_cases h2 : b.length - (idx + 2) < rd16 (b.drop idx)
    · have : (b.length : Int) - ((idx : Int) + 2) < (rd16 (b.drop idx) : Int) := by omega
      simp [h2, this]
    · have h3 : ¬ (b.length : Int) - ((idx : Int) + 2) < (rd16 (b.drop idx) : Int) := by omega
      unfold slice
      have h4 : ¬ idx + 2 + rd16 (b.drop idx) > b.length := by omega
      have h5 : ¬ idx + 2 > idx + 2 + rd16 (b.drop idx) := by omega
      simp [h2, h3, h4, h5]
      omega

theorem takeStr2_drop_rest {b : Bytes} {idx : Nat} {x : Bytes × Bytes} (h : takeStr2 (b.drop idx) = some x) :
    x.2 = b.drop (idx + (x.1.length + 2)) := by
  unfold takeStr2 at h
  split at h; · cases h
  split at h; · cases h
  rename_i h1 h2
  simp only [Option.some.injEq] at h
  subst h
  simp only [List.drop_drop, List.length_take, List.length_drop] at *
  congr 1
  omega

/-! ### counted loops -/

theorem readStrKVs_ref (b : Bytes) : ∀ (n idx : Nat) (m : StrMap),
    match refStrKVs n (b.drop idx) with
    | none => readStrKVs b n idx m = .err .section
    | some x => ∃ idx', readStrKVs b n idx m = .ok (idx', x.1.reverse ++ m) ∧ x.2 = b.drop idx' := by
  intro n
  induction n with
  | zero => intro idx m; simp [refStrKVs, readStrKVs]
  | succ n ih =>
    intro idx m
    simp only [refStrKVs, readStrKVs, readString2BLen_drop, Out.bind_ok]
    cases hk : takeStr2 (b.drop idx) with
    | none => simp
    | some k =>
      have hkr := takeStr2_drop_rest hk
      simp only [Option.map_some, Option.bind_some]
      rw [hkr]
      cases hv : takeStr2 (b.drop (idx + (k.1.length + 2))) with
      | none => simp
      | some v =>
        have hvr := takeStr2_drop_rest hv
        simp only [Option.map_some, Option.bind_some]
        rw [hvr]
        have := ih (idx + (k.1.length + 2) + (v.1.length + 2)) ((k.1, v.1) :: m)
        cases hr : refStrKVs n (b.drop (idx + (k.1.length + 2) + (v.1.length + 2))) with
        | none => rw [hr] at this; simpa using this
        | some x =>
          rw [hr] at this
          obtain ⟨idx', h1, h2⟩ := this
          simp only [Option.bind_some]
          exact ⟨idx', by rw [h1]; simp, h2⟩

theorem readIntKVs_ref (b : Bytes) : ∀ (n idx : Nat) (m : IntMap),
    match refIntKVs n (b.drop idx) with
    | none => readIntKVs b n idx m = .err .section
    | some x => ∃ idx', readIntKVs b n idx m = .ok (idx', x.1.reverse ++ m) ∧ x.2 = b.drop idx' := by
  intro n
  induction n with
  | zero => intro idx m; simp [refIntKVs, readIntKVs]
  | succ n ih =>
    intro idx m
    simp only [refIntKVs, readIntKVs, readString2BLen_drop, bytes2Uint16_drop, Out.bind_ok]
    simp only [List.length_drop, List.drop_drop]
    by_cases hk : b.length - idx < 2
    · simp [hk]
    · simp only [hk, if_false]
      cases hv : takeStr2 (b.drop (idx + 2)) with
      | none => simp
      | some v =>
        have hvr := takeStr2_drop_rest hv
        simp only [Option.map_some, Option.bind_some]
        rw [hvr]
        have := ih (idx + 2 + (v.1.length + 2)) ((rd16 (b.drop idx), v.1) :: m)
        cases hr : refIntKVs n (b.drop (idx + 2 + (v.1.length + 2))) with
        | none => rw [hr] at this; simpa using this
        | some x =>
          rw [hr] at this
          obtain ⟨idx', h1, h2⟩ := this
          simp only [Option.bind_some]
          exact ⟨idx', by rw [h1]; simp, h2⟩

/-! ### the section loop -/

/-- what one section does to the model's maps (`none` = nil map) -/
def applyM (m : Maps) : Sec → Maps
  | .pad => m
  | .str kvs => { m with str := some (kvs.reverse ++ mk m.str) }
  | .int kvs => { m with int := some (kvs.reverse ++ mk m.int) }
  | .acl t => { m with str := some ((gdprKey, t) :: mk m.str) }

def applyMs (m : Maps) (secs : List Sec) : Maps := secs.foldl applyM m

theorem u8_toNat_eq (x : UInt8) (n : Nat) (h : n < 256) : x.toNat = n ↔ x = UInt8.ofNat n := by
  constructor
  · intro hx; apply UInt8.toNat_inj.mp; simp [UInt8.toNat_ofNat', hx]; omega
  · intro hx; subst hx; simp [UInt8.toNat_ofNat']; omega

theorem readStrKVInfo_ref (b : Bytes) (idx : Nat) (m : StrMap) (r : Bytes) (hr : b.drop idx = r) :
    match (if r.length < 2 then none else refStrKVs (rd16 r) (r.drop 2)) with
    | none => readStrKVInfo b idx m = .err .section
    | some x => ∃ idx', readStrKVInfo b idx m = .ok (idx', x.1.reverse ++ m) ∧ x.2 = b.drop idx' := by
  subst hr
  unfold readStrKVInfo
  rw [bytes2Uint16_drop]
  simp only [List.length_drop, List.drop_drop]
  by_cases h : b.length - idx < 2
  · simp [h]
  · simp only [h, if_false, Out.bind_ok]
    by_cases h0 : rd16 (b.drop idx) ≤ 0
    · have : rd16 (b.drop idx) = 0 := by omega
      simp [this, refStrKVs]
    · simp only [h0, if_false]
      exact readStrKVs_ref b _ _ _

theorem readIntKVInfo_ref (b : Bytes) (idx : Nat) (m : IntMap) (r : Bytes) (hr : b.drop idx = r) :
    match (if r.length < 2 then none else refIntKVs (rd16 r) (r.drop 2)) with
    | none => readIntKVInfo b idx m = .err .section
    | some x => ∃ idx', readIntKVInfo b idx m = .ok (idx', x.1.reverse ++ m) ∧ x.2 = b.drop idx' := by
  subst hr
  unfold readIntKVInfo
  rw [bytes2Uint16_drop]
  simp only [List.length_drop, List.drop_drop]
  by_cases h : b.length - idx < 2
  · simp [h]
  · simp only [h, if_false, Out.bind_ok]
    by_cases h0 : rd16 (b.drop idx) ≤ 0
    · have : rd16 (b.drop idx) = 0 := by omega
      simp [this, refIntKVs]
    · simp only [h0, if_false]
      exact readIntKVs_ref b _ _ _

theorem readACLToken_ref (b : Bytes) (idx : Nat) (m : StrMap) :
    match takeStr2 (b.drop idx) with
    | none => readACLToken b idx m = .err .section
    | some x => readACLToken b idx m = .ok (idx + (x.1.length + 2), (gdprKey, x.1) :: m)
                ∧ x.2 = b.drop (idx + (x.1.length + 2)) := by
  unfold readACLToken
  rw [readString2BLen_drop]
  cases h : takeStr2 (b.drop idx) with
  | none => simp
  | some x => simp [takeStr2_drop_rest h]

theorem drop_succ_of_cons {b : Bytes} {idx : Nat} {x : UInt8} {r : Bytes} (h : b.drop idx = x :: r) :
    b.drop (idx + 1) = r := by
  have : b.drop (idx + 1) = (b.drop idx).drop 1 := by rw [List.drop_drop]
  rw [this, h]; rfl

theorem refStrKVs_rest_le {n : Nat} {b : Bytes} {x : Frame.StrMap × Bytes} (h : refStrKVs n b = some x) :
    x.2.length ≤ b.length := by
  obtain ⟨_, hb, _⟩ := Frame.refStrKVs_some n b x.1 x.2 h
  rw [hb, List.length_append]; omega

theorem refIntKVs_rest_le {n : Nat} {b : Bytes} {x : Frame.IntMap × Bytes} (h : refIntKVs n b = some x) :
    x.2.length ≤ b.length := by
  obtain ⟨_, hb, _⟩ := Frame.refIntKVs_some n b x.1 x.2 h
  rw [hb, List.length_append]; omega

theorem takeStr2_rest_le {b : Bytes} {x : Bytes × Bytes} (h : takeStr2 b = some x) : x.2.length ≤ b.length := by
  obtain ⟨hb, _⟩ := Frame.takeStr2_some (s := x.1) (r := x.2) h
  rw [hb, List.length_append]; omega

/-- the model's section loop against the reference parser, for every fuel; with enough fuel the
    loop never reports `nofuel` (every iteration consumes at least one byte) -/
theorem readKVInfo_ref (b : Bytes) : ∀ (fuel idx : Nat) (m : Maps),
    match refSecs fuel (b.drop idx) with
    | some secs => readKVInfo b fuel idx m = .ok (applyMs m secs)
    | none => ∃ e, readKVInfo b fuel idx m = .err e ∧ ((b.drop idx).length < fuel → e ≠ .nofuel) := by
  intro fuel
  induction fuel with
  | zero => intro idx m; simp [refSecs, readKVInfo]
  | succ f ih =>
    intro idx m
    cases hb : b.drop idx with
    | nil => simp [refSecs, readKVInfo, bytes2Uint8_drop, hb, applyMs]
    | cons x r =>
      have hr := drop_succ_of_cons hb
      -- the continuation after a section that ended at idx' with the rest `rest`
      have cont : ∀ (idx' : Nat) (m' : Maps) (rest : Bytes) (mkSec : Sec), rest = b.drop idx' →
          rest.length ≤ r.length → applyM m mkSec = m' →
          match (refSecs f rest).bind fun t => some (mkSec :: t) with
          | some secs => readKVInfo b f idx' m' = .ok (applyMs m secs)
          | none => ∃ e, readKVInfo b f idx' m' = .err e ∧ ((x :: r).length < f + 1 → e ≠ .nofuel) := by
        intro idx' m' rest mkSec e2 hle hm'
        have := ih idx' m'
        rw [← e2] at this
        cases ht : refSecs f rest with
        | none =>
          rw [ht] at this
          obtain ⟨e, he1, he2⟩ := this
          exact ⟨e, he1, fun hlt => he2 (by simp only [List.length_cons] at hlt; omega)⟩
        | some t =>
          rw [ht] at this
          simp only [Option.bind_some]
          rw [this, ← hm']
          rfl
      simp only [refSecs, readKVInfo, bytes2Uint8_drop, hb, List.head?_cons, Option.map_some, Out.bind_ok,
        Facts.ttInfoPadding, Facts.ttInfoKeyValue, Facts.ttInfoIntKeyValue, Facts.ttInfoACLToken]
      by_cases h0 : x = 0
      · subst h0
        simp only [show (0 : UInt8).toNat = 0 from rfl, if_true]
        exact cont (idx + 1) m r .pad hr.symm (Nat.le_refl _) rfl
      · have n0 : x.toNat ≠ 0 := fun h => h0 ((u8_toNat_eq x 0 (by omega)).mp h)
        simp only [h0, n0, if_false]
        by_cases h1 : x = 1
        · subst h1
          simp only [show (1 : UInt8).toNat = 1 from rfl, if_true]
          have hs := readStrKVInfo_ref b (idx + 1) (mk m.str) r hr
          by_cases hl : r.length < 2
          · simp only [hl, if_true] at hs ⊢
            exact ⟨_, by rw [hs]; rfl, by simp⟩
          · simp only [hl, if_false] at hs ⊢
            cases hx : refStrKVs (rd16 r) (r.drop 2) with
            | none => rw [hx] at hs; exact ⟨_, by rw [hs]; rfl, by simp⟩
            | some xx =>
              rw [hx] at hs
              obtain ⟨idx', e1, e2⟩ := hs
              rw [e1]
              simp only [Option.bind_some, Out.bind_ok]
              have hle : xx.2.length ≤ r.length := by
                have := refStrKVs_rest_le hx; simp only [List.length_drop] at this; omega
              exact cont idx' _ xx.2 (.str xx.1) e2 hle rfl
        · have n1 : x.toNat ≠ 1 := fun h => h1 ((u8_toNat_eq x 1 (by omega)).mp h)
          simp only [h1, n1, if_false]
          by_cases h16 : x = 16
          · subst h16
            simp only [show (16 : UInt8).toNat = 16 from rfl, if_true]
            have hs := readIntKVInfo_ref b (idx + 1) (mk m.int) r hr
            by_cases hl : r.length < 2
            · simp only [hl, if_true] at hs ⊢
              exact ⟨_, by rw [hs]; rfl, by simp⟩
            · simp only [hl, if_false] at hs ⊢
              cases hx : refIntKVs (rd16 r) (r.drop 2) with
              | none => rw [hx] at hs; exact ⟨_, by rw [hs]; rfl, by simp⟩
              | some xx =>
                rw [hx] at hs
                obtain ⟨idx', e1, e2⟩ := hs
                rw [e1]
                simp only [Option.bind_some, Out.bind_ok]
                have hle : xx.2.length ≤ r.length := by
                  have := refIntKVs_rest_le hx; simp only [List.length_drop] at this; omega
                exact cont idx' _ xx.2 (.int xx.1) e2 hle rfl
          · have n16 : x.toNat ≠ 16 := fun h => h16 ((u8_toNat_eq x 16 (by omega)).mp h)
            simp only [h16, n16, if_false]
            by_cases h17 : x = 17
            · subst h17
              simp only [show (17 : UInt8).toNat = 17 from rfl, if_true]
              have hs := readACLToken_ref b (idx + 1) (mk m.str)
              rw [hr] at hs
              cases hx : takeStr2 r with
              | none => rw [hx] at hs; exact ⟨_, by rw [hs]; rfl, by simp⟩
              | some xx =>
                rw [hx] at hs
                obtain ⟨e1, e2⟩ := hs
                rw [e1]
                simp only [Option.bind_some, Out.bind_ok]
                exact cont _ _ xx.2 (.acl xx.1) e2 (takeStr2_rest_le hx) rfl
            · have n17 : x.toNat ≠ 17 := fun h => h17 ((u8_toNat_eq x 17 (by omega)).mp h)
              simp only [h17, n17, if_false]
              exact ⟨_, rfl, by simp⟩

end Verif.TTH

/-
  Lemmas/FcWrite: the generated writers as segment lists.

  A statement sequence `f : WStep` *realises* a segment list `sg` when, on every buffer with enough room
  after the current offset, it stores exactly the linear image of `sg` there, leaves everything else
  untouched, advances `off` by that length and hands the large strings to the direct writer with
  `remainCap = len(buffer) − (offset of the string's first byte)`.
-/
import Verif.Model.FastCodec
namespace Verif

/-! ## segments: linear image and direct writes -/

/-- is the string stored inline? -/
def inlineStr (thr : Nat) (w : Bool) (s : Bytes) : Bool := !w || decide (s.length < thr)

def Seg.lin (thr : Nat) (w : Bool) : Seg → Bytes
  | .fixed bs => bs
  | .str s => if inlineStr thr w s then encStr s else be32 s.length

/-- what ends up in the linear buffer -/
def linSegs (thr : Nat) (w : Bool) (sg : List Seg) : Bytes := sg.flatMap (Seg.lin thr w)

/-- what the direct writer receives, for a buffer of L bytes when writing starts at offset `off` -/
def directsOf (thr : Nat) (w : Bool) (L : Nat) : Nat → List Seg → Directs
  | _, [] => []
  | off, .fixed bs :: r => directsOf thr w L (off + bs.length) r
  | off, .str s :: r =>
    if inlineStr thr w s then directsOf thr w L (off + (4 + s.length)) r
    else (s, L - off - 4) :: directsOf thr w L (off + 4) r

theorem linSegs_nil (thr w) : linSegs thr w [] = [] := rfl
theorem linSegs_cons (thr w) (s : Seg) (r : List Seg) : linSegs thr w (s :: r) = s.lin thr w ++ linSegs thr w r := by
  simp [linSegs]
theorem linSegs_append (thr w) (a b : List Seg) : linSegs thr w (a ++ b) = linSegs thr w a ++ linSegs thr w b := by
  simp [linSegs]
theorem encSegs_cons (s : Seg) (r : List Seg) : encSegs (s :: r) = s.enc ++ encSegs r := by simp [encSegs]
theorem encSegs_append (a b : List Seg) : encSegs (a ++ b) = encSegs a ++ encSegs b := by simp [encSegs]

theorem directsOf_append (thr w L) : ∀ (a b : List Seg) (off : Nat),
    directsOf thr w L off (a ++ b) = directsOf thr w L off a ++ directsOf thr w L (off + (linSegs thr w a).length) b
  | [], b, off => by simp [directsOf, linSegs]
  | .fixed bs :: r, b, off => by
    simp only [List.cons_append, directsOf, linSegs_cons, Seg.lin, List.length_append]
    rw [directsOf_append thr w L r b]; simp [Nat.add_assoc]
  | .str s :: r, b, off => by
    simp only [List.cons_append, directsOf, linSegs_cons, Seg.lin]
    split
    · rw [directsOf_append thr w L r b]; simp [Nat.add_assoc]
    · rw [directsOf_append thr w L r b]; simp [Nat.add_assoc]

/-- without a direct writer everything is inline -/
theorem linSegs_nil_writer (thr : Nat) (sg : List Seg) : linSegs thr false sg = encSegs sg := by
  induction sg with
  | nil => rfl
  | cons s r ih => cases s <;> simp [linSegs_cons, encSegs_cons, Seg.lin, Seg.enc, inlineStr, ih]

theorem directsOf_nil_writer (thr L : Nat) : ∀ (sg : List Seg) (off : Nat), directsOf thr false L off sg = []
  | [], _ => rfl
  | .fixed _ :: r, off => by simp [directsOf, directsOf_nil_writer thr L r]
  | .str _ :: r, off => by simp [directsOf, inlineStr, directsOf_nil_writer thr L r]

/-! ## primitives on a buffer `P ++ T` at offset `P.length` -/

theorem patch_app (P T bs : Bytes) (i : Nat) (hi : i = P.length) :
    patch (P ++ T) i bs = P ++ bs ++ T.drop bs.length := by
  subst hi
  simp [patch, List.take_left', List.drop_length_add_append]

theorem putByte_app (P T : Bytes) (i : Nat) (x : UInt8) (hi : i = P.length) (h : 1 ≤ T.length) :
    putByte (P ++ T) i x = .ok (P ++ [x] ++ T.drop 1) := by
  unfold putByte
  rw [if_pos (by simp; omega), patch_app P T [x] i hi]; rfl

theorem put16_app (P T : Bytes) (i n : Nat) (hi : i = P.length) (h : 2 ≤ T.length) :
    put16 (P ++ T) i n = .ok (P ++ be16 n ++ T.drop 2) := by
  unfold put16
  rw [if_neg (by simp; omega), if_neg (by simp; omega), patch_app P T _ i hi]; rfl

theorem put32_app (P T : Bytes) (i n : Nat) (hi : i = P.length) (h : 4 ≤ T.length) :
    put32 (P ++ T) i n = .ok (P ++ be32 n ++ T.drop 4) := by
  unfold put32
  rw [if_neg (by simp; omega), if_neg (by simp; omega), patch_app P T _ i hi]; rfl

theorem copyAt_app (P T v : Bytes) (i : Nat) (hi : i = P.length) (h : v.length ≤ T.length) :
    copyAt (P ++ T) i v = .ok (P ++ v ++ T.drop v.length, v.length) := by
  unfold copyAt
  have hm : min ((P ++ T).length - i) v.length = v.length := by simp; omega
  rw [if_neg (by simp; omega), hm, List.take_of_length_le (Nat.le_refl _), patch_app P T _ i hi]

/-! ## realisation -/

def Realises (thr : Nat) (w : Bool) (f : WStep) (sg : List Seg) : Prop :=
  ∀ (P T : Bytes) (ds : Directs), (linSegs thr w sg).length ≤ T.length →
    f (⟨P ++ T, ds⟩, P.length) =
      .ok (⟨P ++ linSegs thr w sg ++ T.drop (linSegs thr w sg).length,
            ds ++ directsOf thr w (P.length + T.length) P.length sg⟩,
           P.length + (linSegs thr w sg).length)

theorem realises_nil (thr w) : Realises thr w (wAll []) [] := by
  intro P T ds _
  simp [wAll, linSegs, directsOf]

theorem realises_cons (thr w) (f : WStep) (fs : List WStep) (sg sgs : List Seg)
    (hf : Realises thr w f sg) (hfs : Realises thr w (wAll fs) sgs) :
    Realises thr w (wAll (f :: fs)) (sg ++ sgs) := by
  intro P T ds hlen
  rw [linSegs_append, List.length_append] at hlen
  simp only [wAll]
  rw [hf P T ds (by omega), Out.bind_ok]
  have h2 := hfs (P ++ linSegs thr w sg) (T.drop (linSegs thr w sg).length)
    (ds ++ directsOf thr w (P.length + T.length) P.length sg) (by simp; omega)
  have hl : (P ++ linSegs thr w sg).length = P.length + (linSegs thr w sg).length := by simp
  rw [hl] at h2
  rw [h2, linSegs_append, directsOf_append]
  have hL : P.length + (linSegs thr w sg).length + (T.drop (linSegs thr w sg).length).length
      = P.length + T.length := by simp; omega
  rw [hL]
  simp [List.append_assoc, List.drop_drop, Nat.add_assoc]

theorem wAll_append (a b : List WStep) (s : WS × Nat) : wAll (a ++ b) s = (wAll a s).bind (wAll b) := by
  induction a generalizing s with
  | nil => simp [wAll]
  | cons f fs ih =>
    simp only [List.cons_append, wAll]
    cases f s <;> simp [ih]

theorem realises_append (thr w) (fs gs : List WStep) (sg sgs : List Seg)
    (hf : Realises thr w (wAll fs) sg) (hg : Realises thr w (wAll gs) sgs) :
    Realises thr w (wAll (fs ++ gs)) (sg ++ sgs) := by
  intro P T ds hlen
  rw [linSegs_append, List.length_append] at hlen
  rw [wAll_append, hf P T ds (by omega), Out.bind_ok]
  have h2 := hg (P ++ linSegs thr w sg) (T.drop (linSegs thr w sg).length)
    (ds ++ directsOf thr w (P.length + T.length) P.length sg) (by simp; omega)
  have hl : (P ++ linSegs thr w sg).length = P.length + (linSegs thr w sg).length := by simp
  rw [hl] at h2
  rw [h2, linSegs_append, directsOf_append]
  have hL : P.length + (linSegs thr w sg).length + (T.drop (linSegs thr w sg).length).length
      = P.length + T.length := by simp; omega
  rw [hL]
  simp [List.append_assoc, List.drop_drop, Nat.add_assoc]

theorem realises_one (thr w) (f : WStep) (sg : List Seg) (hf : Realises thr w f sg) :
    Realises thr w (wAll [f]) sg := by
  have := realises_cons thr w f [] sg [] hf (realises_nil thr w)
  simpa using this

/-! ## the statements of the generated code -/

theorem stFieldBegin_realises (thr w) (t : UInt8) (id : Nat) :
    Realises thr w (stFieldBegin t id) [.fixed (t :: be16 id)] := by
  intro P T ds hlen
  simp only [linSegs, List.flatMap_cons, List.flatMap_nil, Seg.lin, List.append_nil, List.length_cons,
    be16_length] at hlen ⊢
  simp only [stFieldBegin, Out.bind_eq, Out.pure_eq]
  rw [putByte_app P T _ t rfl (by omega), Out.bind_ok,
    put16_app (P ++ [t]) (T.drop 1) _ id (by simp) (by simp; omega), Out.bind_ok]
  simp [directsOf]

theorem stMapBegin_realises (thr w) (kt vt : UInt8) (n : Nat) :
    Realises thr w (stMapBegin kt vt n) [.fixed (kt :: vt :: be32 n)] := by
  intro P T ds hlen
  simp only [linSegs, List.flatMap_cons, List.flatMap_nil, Seg.lin, List.append_nil, List.length_cons,
    be32_length] at hlen ⊢
  simp only [stMapBegin, Out.bind_eq, Out.pure_eq]
  rw [putByte_app P T _ kt rfl (by omega), Out.bind_ok,
    putByte_app (P ++ [kt]) (T.drop 1) _ vt (by simp) (by simp; omega), Out.bind_ok,
    put32_app (P ++ [kt] ++ [vt]) ((T.drop 1).drop 1) _ n (by simp) (by simp; omega), Out.bind_ok]
  simp [directsOf, List.drop_drop]

theorem stI32_realises (thr w) (v : Int) : Realises thr w (stI32 v) [.fixed (encI32 v)] := by
  intro P T ds hlen
  simp only [linSegs, List.flatMap_cons, List.flatMap_nil, Seg.lin, List.append_nil, encI32, be32_length] at hlen ⊢
  simp only [stI32, Out.bind_eq, Out.pure_eq]
  rw [put32_app P T _ _ rfl (by omega), Out.bind_ok]
  simp [directsOf]

theorem stStop_realises (thr w) : Realises thr w stStop [.fixed [0]] := by
  intro P T ds hlen
  simp only [linSegs, List.flatMap_cons, List.flatMap_nil, Seg.lin, List.append_nil, List.length_cons,
    List.length_nil] at hlen ⊢
  simp only [stStop, Out.bind_eq, Out.pure_eq]
  rw [putByte_app P T _ 0 rfl (by omega), Out.bind_ok]
  simp [directsOf]

theorem stStr_realises (thr : Nat) (w : Bool) (v : Bytes) : Realises thr w (stStr thr w v) [.str v] := by
  intro P T ds hlen
  simp only [linSegs, List.flatMap_cons, List.flatMap_nil, Seg.lin, List.append_nil] at hlen ⊢
  simp only [stStr, writeStringNocopy, Out.bind_eq, Out.pure_eq]
  rw [if_neg (by simp)]
  by_cases hin : inlineStr thr w v = true
  · rw [if_pos hin] at hlen ⊢
    have hin' : (!w || decide (v.length < thr)) = true := hin
    rw [if_pos hin']
    simp only [encStr_length] at hlen
    simp only [writeString, Out.bind_eq, Out.pure_eq]
    rw [if_neg (by simp), put32_app P T _ _ rfl (by omega), Out.bind_ok,
      copyAt_app (P ++ be32 v.length) (T.drop 4) v _ (by simp) (by simp; omega), Out.bind_ok, Out.bind_ok]
    simp [directsOf, hin, encStr, List.drop_drop, Nat.add_comm]
  · rw [if_neg hin] at hlen ⊢
    have hin' : ¬ ((!w || decide (v.length < thr)) = true) := hin
    rw [if_neg hin']
    simp only [be32_length] at hlen
    rw [put32_app P T _ _ rfl (by omega), Out.bind_ok, Out.bind_ok]
    simp [directsOf, hin]

/-- segments of the entries of a map in iteration order -/
def segsKVs (it : SMap) : List Seg := it.flatMap (fun kv => [.str kv.1, .str kv.2])

theorem stKVs_realises (thr : Nat) (w : Bool) (it : SMap) :
    Realises thr w (wAll (stKVs thr w it)) (segsKVs it) := by
  induction it with
  | nil => exact realises_nil thr w
  | cons kv r ih =>
    have h1 : stKVs thr w (kv :: r) = stStr thr w kv.1 :: stStr thr w kv.2 :: stKVs thr w r := by
      simp [stKVs]
    have h2 : segsKVs (kv :: r) = [.str kv.1] ++ ([.str kv.2] ++ segsKVs r) := by simp [segsKVs]
    rw [h1, h2]
    exact realises_cons thr w _ _ _ _ (stStr_realises thr w kv.1)
      (realises_cons thr w _ _ _ _ (stStr_realises thr w kv.2) ih)

/-- segments of the optional map field -/
def segsExtra (id : Nat) (extra : Option SMap) (it : SMap) : List Seg :=
  match extra with
  | none => []
  | some m => [.fixed (13 :: be16 id), .fixed (11 :: 11 :: be32 m.length)] ++ segsKVs it

theorem stExtra_realises (thr : Nat) (w : Bool) (id : Nat) (extra : Option SMap) (it : SMap) :
    Realises thr w (wAll (stExtra thr w id extra it)) (segsExtra id extra it) := by
  cases extra with
  | none => exact realises_nil thr w
  | some m =>
    simp only [stExtra, segsExtra]
    exact realises_cons thr w _ _ [_] _ (stFieldBegin_realises thr w 13 id)
      (realises_cons thr w _ _ [_] _ (stMapBegin_realises thr w 11 11 m.length) (stKVs_realises thr w it))

def segsBase (p : Base) (it : SMap) : List Seg :=
  [.fixed (11 :: be16 1), .str p.logID, .fixed (11 :: be16 2), .str p.caller,
   .fixed (11 :: be16 3), .str p.addr] ++ (segsExtra 6 p.extra it ++ [.fixed [0]])

def segsResp (p : BaseResp) (it : SMap) : List Seg :=
  [.fixed (11 :: be16 1), .str p.statusMessage, .fixed (8 :: be16 2), .fixed (encI32 p.statusCode)] ++
    (segsExtra 3 p.extra it ++ [.fixed [0]])

def segsEx (e : AppEx) : List Seg :=
  [.fixed (11 :: be16 1), .str e.msg, .fixed (8 :: be16 2), .fixed (encI32 e.typ), .fixed [0]]

theorem base_realises (thr : Nat) (w : Bool) (p : Base) (it : SMap) :
    Realises thr w (wAll ([stFieldBegin 11 1, stStr thr w p.logID, stFieldBegin 11 2, stStr thr w p.caller,
      stFieldBegin 11 3, stStr thr w p.addr] ++ stExtra thr w 6 p.extra it ++ [stStop])) (segsBase p it) := by
  rw [List.append_assoc]
  refine realises_append thr w _ _ _ _ ?_ ?_
  · exact realises_cons thr w _ _ [_] _ (stFieldBegin_realises thr w 11 1)
      (realises_cons thr w _ _ [_] _ (stStr_realises thr w _)
      (realises_cons thr w _ _ [_] _ (stFieldBegin_realises thr w 11 2)
      (realises_cons thr w _ _ [_] _ (stStr_realises thr w _)
      (realises_cons thr w _ _ [_] _ (stFieldBegin_realises thr w 11 3)
      (realises_one thr w _ _ (stStr_realises thr w _))))))
  · exact realises_append thr w _ _ _ _ (stExtra_realises thr w 6 p.extra it)
      (realises_one thr w _ _ (stStop_realises thr w))

theorem resp_realises (thr : Nat) (w : Bool) (p : BaseResp) (it : SMap) :
    Realises thr w (wAll ([stFieldBegin 11 1, stStr thr w p.statusMessage, stFieldBegin 8 2, stI32 p.statusCode]
      ++ stExtra thr w 3 p.extra it ++ [stStop])) (segsResp p it) := by
  rw [List.append_assoc]
  refine realises_append thr w _ _ _ _ ?_ ?_
  · exact realises_cons thr w _ _ [_] _ (stFieldBegin_realises thr w 11 1)
      (realises_cons thr w _ _ [_] _ (stStr_realises thr w _)
      (realises_cons thr w _ _ [_] _ (stFieldBegin_realises thr w 8 2)
      (realises_one thr w _ _ (stI32_realises thr w _))))
  · exact realises_append thr w _ _ _ _ (stExtra_realises thr w 3 p.extra it)
      (realises_one thr w _ _ (stStop_realises thr w))

theorem ex_realises (e : AppEx) :
    Realises 0 false (wAll [stFieldBegin 11 1, stStr 0 false e.msg, stFieldBegin 8 2, stI32 e.typ, stStop])
      (segsEx e) := by
  exact realises_cons 0 false _ _ [_] _ (stFieldBegin_realises 0 false 11 1)
      (realises_cons 0 false _ _ [_] _ (stStr_realises 0 false _)
      (realises_cons 0 false _ _ [_] _ (stFieldBegin_realises 0 false 8 2)
      (realises_cons 0 false _ _ [_] _ (stI32_realises 0 false _)
      (realises_one 0 false _ _ (stStop_realises 0 false)))))

/-! ## the headers regenerated from the source are the IDL's (a changed literal in the Go code breaks these) -/

theorem fastWriteHeadersBase_eq : Facts.fastWriteHeadersBase = [(11, 1), (11, 2), (11, 3), (13, 6)] := by decide
theorem fastWriteHeadersBaseResp_eq : Facts.fastWriteHeadersBaseResp = [(11, 1), (8, 2), (13, 3)] := by decide

theorem stHdr_base0 : stHdr Facts.fastWriteHeadersBase 0 = stFieldBegin 11 1 := by
  simp [stHdr, fastWriteHeadersBase_eq]
theorem stHdr_base1 : stHdr Facts.fastWriteHeadersBase 1 = stFieldBegin 11 2 := by
  simp [stHdr, fastWriteHeadersBase_eq]
theorem stHdr_base2 : stHdr Facts.fastWriteHeadersBase 2 = stFieldBegin 11 3 := by
  simp [stHdr, fastWriteHeadersBase_eq]
theorem stHdr_base3 : stHdr Facts.fastWriteHeadersBase 3 = stFieldBegin 13 6 := by
  simp [stHdr, fastWriteHeadersBase_eq]
theorem stHdr_resp0 : stHdr Facts.fastWriteHeadersBaseResp 0 = stFieldBegin 11 1 := by
  simp [stHdr, fastWriteHeadersBaseResp_eq]
theorem stHdr_resp1 : stHdr Facts.fastWriteHeadersBaseResp 1 = stFieldBegin 8 2 := by
  simp [stHdr, fastWriteHeadersBaseResp_eq]
theorem stHdr_resp2 : stHdr Facts.fastWriteHeadersBaseResp 2 = stFieldBegin 13 3 := by
  simp [stHdr, fastWriteHeadersBaseResp_eq]

theorem stExtraH_base (thr : Nat) (w : Bool) (extra : Option SMap) (it : SMap) :
    stExtraH thr w Facts.fastWriteHeadersBase 3 extra it = stExtra thr w 6 extra it := by
  cases extra <;> simp [stExtraH, stExtra, stHdr_base3]
theorem stExtraH_resp (thr : Nat) (w : Bool) (extra : Option SMap) (it : SMap) :
    stExtraH thr w Facts.fastWriteHeadersBaseResp 2 extra it = stExtra thr w 3 extra it := by
  cases extra <;> simp [stExtraH, stExtra, stHdr_resp2]

/-! ## segment lists print the structs -/

theorem encSegs_kvs (it : SMap) : encSegs (segsKVs it) = encKVs it := by
  induction it with
  | nil => rfl
  | cons kv r ih =>
    have : segsKVs (kv :: r) = [.str kv.1, .str kv.2] ++ segsKVs r := by simp [segsKVs]
    rw [this, encSegs_append, ih]
    simp [encSegs, Seg.enc, encKVs]

theorem encSegs_base (p : Base) (it : SMap) : encSegs (segsBase p it) = encBase (some p) it := by
  cases h : p.extra with
  | none =>
    simp [segsBase, segsExtra, h, encBase, Base.fields, encSegs, Seg.enc, encFields, Fld.enc, fStr, TT.STRING]
  | some m =>
    have hk := encSegs_kvs it
    simp only [segsBase, segsExtra, h, encSegs_append, hk]
    simp [encBase, Base.fields, h, encSegs, Seg.enc, encFields, Fld.enc, fStr, fMapSS, encMapSS, TT.STRING, TT.MAP]

theorem encSegs_resp (p : BaseResp) (it : SMap) : encSegs (segsResp p it) = encBaseResp (some p) it := by
  cases h : p.extra with
  | none =>
    simp [segsResp, segsExtra, h, encBaseResp, BaseResp.fields, encSegs, Seg.enc, encFields, Fld.enc, fStr, fI32,
      TT.STRING, TT.I32]
  | some m =>
    have hk := encSegs_kvs it
    simp only [segsResp, segsExtra, h, encSegs_append, hk]
    simp [encBaseResp, BaseResp.fields, h, encSegs, Seg.enc, encFields, Fld.enc, fStr, fI32, fMapSS, encMapSS,
      TT.STRING, TT.MAP, TT.I32]

theorem encSegs_ex (e : AppEx) : encSegs (segsEx e) = encAppEx e := by
  simp [segsEx, encAppEx, AppEx.fields, encSegs, Seg.enc, encFields, Fld.enc, fStr, fI32, TT.STRING, TT.I32]

end Verif

/- Lemmas/Apache: the bytes.Buffer model refines the FIFO queue. -/
import Verif.Spec.Apache
namespace Verif.Apx

theorem Buf.new_wf (init : Bytes) : (Buf.new init).WF := Nat.zero_le _

theorem Buf.len_eq (s : Buf) : s.len = s.bytes.length := by
  simp [Buf.len, Buf.bytes]

/-- the guard of `len(b.buf) - b.off`: no underflow -/
theorem Buf.len_add_off (s : Buf) (h : s.WF) : s.len + s.off = s.buf.length := by
  unfold Buf.len Buf.WF at *; omega

theorem drop_min_take (q : Bytes) (n : Nat) : q.drop (q.take n).length = q.drop n := by
  rw [List.length_take]
  by_cases h : n ≤ q.length
  · rw [Nat.min_eq_left h]
  · have h' : q.length ≤ n := by omega
    rw [Nat.min_eq_right h', List.drop_of_length_le h', List.drop_of_length_le (Nat.le_refl _)]

theorem step_refines (s : Buf) (h : s.WF) (op : Op) :
    (step s op).1.WF ∧ (step s op).1.bytes = (specStep s.bytes op).1 ∧
      (step s op).2 = (specStep s.bytes op).2 := by
  unfold Buf.WF at h
  cases op with
  | write hd p =>
    refine ⟨?_, ?_, rfl⟩
    · simp only [step, Buf.write, Buf.WF, List.length_append]; omega
    · simp only [step, Buf.write, Buf.bytes, specStep]
      exact List.drop_append_of_le_length h
  | read hd n =>
    by_cases he : s.buf.length ≤ s.off
    · have hq : List.drop s.off s.buf = [] := List.drop_of_length_le he
      by_cases hn : n = 0 <;>
        simp [step, Buf.read, Buf.empty, he, hn, hq, specStep, Buf.reset, Buf.WF, Buf.bytes]
    · have hq : List.drop s.off s.buf ≠ [] := by
        simp only [ne_eq, List.drop_eq_nil_iff]; omega
      refine ⟨?_, ?_, ?_⟩
      · simp only [step, Buf.read, Buf.empty, he, decide_false, Bool.false_eq_true, if_false, Buf.WF,
          List.length_take, List.length_drop]
        omega
      · simp only [step, Buf.read, Buf.empty, he, decide_false, Bool.false_eq_true, if_false,
          specStep, hq, Buf.bytes]
        rw [← List.drop_drop]
        exact drop_min_take _ _
      · simp [step, Buf.read, Buf.empty, he, specStep, hq, Buf.bytes]
  | reset => simp [step, specStep, Buf.reset, Buf.WF, Buf.bytes]
  | close => simp [step, specStep, Buf.reset, Buf.WF, Buf.bytes]
  | noop => simp [step, specStep, Buf.WF, h]

theorem run_refines (ops : List Op) : ∀ (s : Buf), s.WF →
    (run s ops).1.WF ∧ (run s ops).1.bytes = (specRun s.bytes ops).1 ∧
      (run s ops).2 = (specRun s.bytes ops).2 := by
  induction ops with
  | nil => intro s h; exact ⟨h, rfl, rfl⟩
  | cons op ops ih =>
    intro s h
    obtain ⟨h1, h2, h3⟩ := step_refines s h op
    obtain ⟨i1, i2, i3⟩ := ih (step s op).1 h1
    refine ⟨i1, ?_, ?_⟩
    · simp only [run, specRun]; rw [i2, h2]
    · simp only [run, specRun]; rw [i3, h2, h3]

theorem step_swap (s : Buf) (op : Op) : step s (swapHandle op) = step s op := by
  cases op with
  | write hd p => cases hd <;> rfl
  | read hd n => cases hd <;> rfl
  | _ => rfl

end Verif.Apx

/-
  Lemmas/TthRt: Encode against the documented layout, and Decode of a laid-out frame.
    lookup_perm / lookup_reverse   duplicate-free association lists answer alike in every order
    rawInfo_length / bounds / rawInfo_eq
                                   Go's accumulated size is the spec's info size (always); if it fits 64 KiB
                                   every length/count fits 16 bits and the written bytes are the spec's info
    encode_layout_lemma            Encode = size error (info size > limit) or meta ++ layout
    layout_valid / decode_layout   a laid-out frame ++ payload is valid and decodes to the same parameters
    setTotalLen_layout             the caller's PutUint32 on the total-length field
-/
import Verif.Lemmas.TthEnc
import Verif.Lemmas.TthDecode
namespace Verif.TTH
open Verif.Frame (Params plainStr aclKey str2 encStrKV encIntKV Sec encSec encSecs secsOf padLen infoSize layout)

/-- the encoder's parameter record as the spec's parameter set -/
def fp (p : EncParam) : Params :=
  { flags := p.flags, seq := p.seq, proto := p.proto, intKV := p.intKV, strKV := p.strKV }

/-! ### association lists with duplicate-free keys -/

theorem lookup_of_mem {κ ν : Type} [BEq κ] [LawfulBEq κ] : ∀ (l : List (κ × ν)) (k : κ) (v : ν),
    (l.map (·.1)).Nodup → (k, v) ∈ l → l.lookup k = some v := by
  intro l
  induction l with
  | nil => intro k v _ h; cases h
  | cons kv rest ih =>
    intro k v hn hm
    obtain ⟨k', v'⟩ := kv
    simp only [List.map_cons, List.nodup_cons] at hn
    simp only [List.mem_cons, Prod.mk.injEq] at hm
    simp only [List.lookup_cons]
    rcases hm with ⟨rfl, rfl⟩ | hm
    · simp
    · have : (k == k') = false := by
        apply beq_false_of_ne
        intro h; subst h
        exact hn.1 (List.mem_map.mpr ⟨(k, v), hm, rfl⟩)
      simp only [this]
      exact ih k v hn.2 hm

theorem mem_of_lookup {κ ν : Type} [BEq κ] [LawfulBEq κ] : ∀ (l : List (κ × ν)) (k : κ) (v : ν),
    l.lookup k = some v → (k, v) ∈ l := by
  intro l
  induction l with
  | nil => intro k v h; simp at h
  | cons kv rest ih =>
    intro k v h
    obtain ⟨k', v'⟩ := kv
    simp only [List.lookup_cons] at h
    by_cases hk : k == k'
    · simp only [hk, Option.some.injEq] at h
      have : k = k' := by simpa using hk
      subst this; subst h; simp
    · have hk' : (k == k') = false := by simpa using hk
      simp only [hk'] at h
      exact List.mem_cons_of_mem _ (ih k v h)

/-- two orders of the same duplicate-free map answer every lookup alike -/
theorem lookup_perm {κ ν : Type} [BEq κ] [LawfulBEq κ] (l1 l2 : List (κ × ν)) (hp : l1.Perm l2)
    (hn : (l1.map (·.1)).Nodup) (k : κ) : l1.lookup k = l2.lookup k := by
  have hn2 : (l2.map (·.1)).Nodup := (hp.map _).nodup_iff.mp hn
  cases h1 : l1.lookup k with
  | some v => exact (lookup_of_mem l2 k v hn2 (hp.mem_iff.mp (mem_of_lookup l1 k v h1))).symm
  | none =>
    cases h2 : l2.lookup k with
    | none => rfl
    | some v =>
      have := lookup_of_mem l1 k v hn (hp.mem_iff.mpr (mem_of_lookup l2 k v h2))
      rw [h1] at this; cases this

theorem lookup_reverse {κ ν : Type} [BEq κ] [LawfulBEq κ] (l : List (κ × ν)) (hn : (l.map (·.1)).Nodup)
    (k : κ) : l.reverse.lookup k = l.lookup k :=
  (lookup_perm l l.reverse (List.reverse_perm l).symm hn k).symm

/-! ### the raw printer in terms of the spec's entry lists -/

def rawKV2 (kv : Bytes × Bytes) : Bytes := rawStr2 kv.1 ++ rawStr2 kv.2

theorem plainStr_cons (kv : Bytes × Bytes) (r : StrMap) :
    plainStr (kv :: r) = if kv.1 = gdprKey then plainStr r else kv :: plainStr r := by
  simp only [plainStr, List.filter_cons, gdprKey_eq]
  by_cases h : kv.1 = aclKey
  · have hb : (kv.1 != aclKey) = false := by rw [h]; simp
    rw [hb, if_pos h]; simp
  · have hb : (kv.1 != aclKey) = true := bne_iff_ne.mpr h
    rw [hb, if_neg h]; simp

theorem flatMap_rawStrKV (m : StrMap) : m.flatMap rawStrKV = (plainStr m).flatMap rawKV2 := by
  induction m with
  | nil => rfl
  | cons kv rest ih =>
    rw [plainStr_cons]
    simp only [List.flatMap_cons, rawStrKV]
    by_cases hk : kv.1 = gdprKey
    · simp only [hk, if_true, List.nil_append]
      exact ih
    · simp only [hk, if_false, List.flatMap_cons, rawKV2, ih]

theorem lookup_none_plain : ∀ (m : StrMap), m.lookup gdprKey = none → plainStr m = m := by
  intro m
  induction m with
  | nil => intro _; rfl
  | cons kv rest ih =>
    intro h
    obtain ⟨k, v⟩ := kv
    rw [List.lookup_cons] at h
    by_cases hk : gdprKey == k
    · simp [hk] at h
    · have hk' : (gdprKey == k) = false := by simpa using hk
      rw [hk'] at h
      have hne : ¬ k = gdprKey := fun e => hk (by rw [e]; exact beq_self_eq_true _)
      rw [plainStr_cons]
      simp only [hne, if_false, ih h]

theorem plain_length_of_mem : ∀ (m : StrMap), (m.map (·.1)).Nodup → (∃ v, (gdprKey, v) ∈ m) →
    (plainStr m).length + 1 = m.length := by
  intro m
  induction m with
  | nil => intro _ ⟨v, h⟩; cases h
  | cons kv rest ih =>
    intro hn ⟨v, hv⟩
    simp only [List.map_cons, List.nodup_cons] at hn
    rw [plainStr_cons]
    by_cases hk : kv.1 = gdprKey
    · simp only [hk, if_true, List.length_cons]
      -- the rest has no token key
      have hnone : rest.lookup gdprKey = none := by
        cases hl : rest.lookup gdprKey with
        | none => rfl
        | some v' =>
          exfalso
          exact hn.1 (List.mem_map.mpr ⟨(gdprKey, v'), mem_of_lookup rest _ _ hl, hk.symm⟩)
      rw [lookup_none_plain rest hnone]
    · simp only [hk, if_false, List.length_cons]
      have hv' : (gdprKey, v) ∈ rest := by
        simp only [List.mem_cons] at hv
        rcases hv with rfl | hv
        · exact absurd rfl hk
        · exact hv
      have := ih hn.2 ⟨v, hv'⟩
      omega

/-- `strKVSize` of the encoder is the number of entries of the spec's 0x01 section -/
theorem strCount_eq (m : StrMap) (hn : (m.map (·.1)).Nodup) : strCount m = ((plainStr m).length : Int) := by
  unfold strCount
  cases h : m.lookup gdprKey with
  | none => simp only; rw [lookup_none_plain m h]
  | some v =>
    simp only
    have := plain_length_of_mem m hn ⟨v, mem_of_lookup m _ v h⟩
    omega

theorem length_le_flatMap {α : Type} (f : α → Bytes) : ∀ (l : List α) (x : α), x ∈ l →
    (f x).length ≤ (l.flatMap f).length := by
  intro l
  induction l with
  | nil => intro x h; cases h
  | cons a r ih =>
    intro x h
    simp only [List.flatMap_cons, List.length_append]
    simp only [List.mem_cons] at h
    rcases h with rfl | h
    · omega
    · have := ih x h; omega

theorem count_le_flatMap {α : Type} (f : α → Bytes) (c : Nat) (hf : ∀ x, c ≤ (f x).length) : ∀ (l : List α),
    l.length * c ≤ (l.flatMap f).length := by
  intro l
  induction l with
  | nil => simp
  | cons a r ih =>
    simp only [List.flatMap_cons, List.length_append, List.length_cons]
    have := hf a
    rw [Nat.add_mul]; omega

@[simp] theorem rawStr2_length (s : Bytes) : (rawStr2 s).length = s.length + 2 := by
  simp [rawStr2]; omega

theorem rawStr2_eq (s : Bytes) (h : s.length < 65536) : rawStr2 s = str2 s := by
  simp [rawStr2, str2, Nat.mod_eq_of_lt h]

theorem u16OfInt_nat (n : Nat) (h : n < 65536) : u16OfInt (n : Int) = n := by
  unfold u16OfInt; omega

/-! ### the spec's `info`, section by section -/

def aclPart (m : StrMap) : Bytes :=
  match m.lookup aclKey with
  | some t => 0x11 :: str2 t
  | none => []
def strPart (m : StrMap) : Bytes :=
  if (plainStr m).isEmpty then [] else 0x01 :: (be16 (plainStr m).length ++ (plainStr m).flatMap encStrKV)
def intPart (m : IntMap) : Bytes :=
  if m.isEmpty then [] else 0x10 :: (be16 m.length ++ m.flatMap encIntKV)

theorem info_parts (q : Params) :
    Frame.info q = [UInt8.ofNat q.proto, 0] ++ aclPart q.strKV ++ strPart q.strKV ++ intPart q.intKV := by
  unfold Frame.info secsOf encSecs aclPart strPart intPart
  cases q.strKV.lookup aclKey <;> cases (plainStr q.strKV).isEmpty <;> cases q.intKV.isEmpty <;>
    simp [encSec]

/-- the same sections as the encoder writes them, over the spec's entry lists -/
theorem rawStrSec_eq (m : StrMap) (hn : (m.map (·.1)).Nodup) :
    rawStrSec m = if (plainStr m).isEmpty then []
      else 0x01 :: (be16 ((plainStr m).length % 65536) ++ (plainStr m).flatMap rawKV2) := by
  unfold rawStrSec
  rw [strCount_eq m hn, flatMap_rawStrKV]
  cases h : plainStr m with
  | nil => simp
  | cons a r =>
    have : ((a :: r).length : Int) > 0 := by simp only [List.length_cons]; omega
    simp only [this, if_true, List.isEmpty_cons, Bool.false_eq_true, if_false, Facts.ttInfoKeyValue]
    congr 2

theorem rawIntSec_eq (m : IntMap) :
    rawIntSec m = if m.isEmpty then [] else 0x10 :: (be16 (m.length % 65536) ++ m.flatMap rawIntKV) := by
  unfold rawIntSec
  cases m with
  | nil => simp
  | cons a r =>
    have : ((a :: r).length : Int) > 0 := by simp only [List.length_cons]; omega
    simp only [this, if_true, List.isEmpty_cons, Bool.false_eq_true, if_false, Facts.ttInfoIntKeyValue]
    congr 2

theorem rawAcl_eq (m : StrMap) :
    rawAcl m = match m.lookup aclKey with
      | some t => 0x11 :: rawStr2 t
      | none => [] := by
  unfold rawAcl
  rw [gdprKey_eq]
  cases m.lookup aclKey <;> simp [Facts.ttInfoACLToken]

theorem flatMap_length_congr {α : Type} (f g : α → Bytes) (h : ∀ x, (f x).length = (g x).length) :
    ∀ (l : List α), (l.flatMap f).length = (l.flatMap g).length := by
  intro l; induction l with
  | nil => rfl
  | cons a r ih => simp only [List.flatMap_cons, List.length_append, ih, h a]

theorem flatMap_congr' {α : Type} (f g : α → Bytes) : ∀ (l : List α), (∀ x ∈ l, f x = g x) →
    l.flatMap f = l.flatMap g := by
  intro l; induction l with
  | nil => intro _; rfl
  | cons a r ih =>
    intro h
    simp only [List.flatMap_cons]
    rw [h a (by simp), ih (fun x hx => h x (by simp [hx]))]

/-- Go's accumulated write size is the spec's info length — always, truncated length fields or not -/
theorem rawInfo_length (p : EncParam) (hn : (p.strKV.map (·.1)).Nodup) :
    (rawInfo p).length = (Frame.info (fp p)).length := by
  rw [info_parts]
  unfold rawInfo
  simp only [fp, List.length_append]
  have h1 : (rawAcl p.strKV).length = (aclPart p.strKV).length := by
    rw [rawAcl_eq]; unfold aclPart
    cases p.strKV.lookup aclKey <;> simp
  have h2 : (rawStrSec p.strKV).length = (strPart p.strKV).length := by
    rw [rawStrSec_eq _ hn]; unfold strPart
    cases (plainStr p.strKV).isEmpty
    · simp only [Bool.false_eq_true, if_false, List.length_cons, List.length_append, be16_length]
      rw [flatMap_length_congr rawKV2 encStrKV (by intro x; simp [rawKV2, encStrKV])]
    · simp
  have h3 : (rawIntSec p.intKV).length = (intPart p.intKV).length := by
    rw [rawIntSec_eq]; unfold intPart
    cases p.intKV.isEmpty
    · simp only [Bool.false_eq_true, if_false, List.length_cons, List.length_append, be16_length]
      rw [flatMap_length_congr rawIntKV encIntKV (by intro x; simp [rawIntKV, encIntKV])]
    · simp
  rw [h1, h2, h3]

theorem rawSize_eq (p : EncParam) (hn : (p.strKV.map (·.1)).Nodup) : rawSize p = infoSize (fp p) := by
  unfold rawSize infoSize padLen
  rw [rawInfo_length p hn]

/-- if the written info fits the 64 KiB limit, every length and count fits its 16-bit field:
    the encoder's truncations `uint16(len)` are then the identity -/
theorem bounds (p : EncParam) (hn : (p.strKV.map (·.1)).Nodup) (hs : (rawInfo p).length ≤ 65536) :
    (∀ t, p.strKV.lookup aclKey = some t → t.length < 65536) ∧
    ((plainStr p.strKV).length < 65536 ∧
      ∀ kv ∈ plainStr p.strKV, kv.1.length < 65536 ∧ kv.2.length < 65536) ∧
    (p.intKV.length < 65536 ∧ ∀ kv ∈ p.intKV, kv.2.length < 65536) := by
  unfold rawInfo at hs
  simp only [List.length_append, List.length_cons, List.length_nil] at hs
  refine ⟨?_, ?_, ?_⟩
  · intro t ht
    have : (rawAcl p.strKV).length = t.length + 3 := by rw [rawAcl_eq, ht]; simp
    omega
  · have h2 := rawStrSec_eq p.strKV hn
    cases he : (plainStr p.strKV).isEmpty with
    | true =>
      have : plainStr p.strKV = [] := by simpa using he
      rw [this]; simp
    | false =>
      rw [he] at h2
      simp only [Bool.false_eq_true, if_false] at h2
      have hl : (rawStrSec p.strKV).length = 3 + ((plainStr p.strKV).flatMap rawKV2).length := by
        rw [h2]; simp; omega
      have hc := count_le_flatMap rawKV2 4 (by intro x; simp [rawKV2]; omega) (plainStr p.strKV)
      refine ⟨by omega, ?_⟩
      intro kv hkv
      have := length_le_flatMap rawKV2 _ kv hkv
      simp only [rawKV2, List.length_append, rawStr2_length] at this
      omega
  · have h3 := rawIntSec_eq p.intKV
    cases he : p.intKV.isEmpty with
    | true =>
      have : p.intKV = [] := by simpa using he
      rw [this]; simp
    | false =>
      rw [he] at h3
      simp only [Bool.false_eq_true, if_false] at h3
      have hl : (rawIntSec p.intKV).length = 3 + (p.intKV.flatMap rawIntKV).length := by
        rw [h3]; simp; omega
      have hc := count_le_flatMap rawIntKV 4 (by intro x; simp [rawIntKV]; omega) p.intKV
      refine ⟨by omega, ?_⟩
      intro kv hkv
      have := length_le_flatMap rawIntKV _ kv hkv
      simp only [rawIntKV, List.length_append, rawStr2_length, be16_length] at this
      omega

/-- … and then what the encoder writes is the documented info area -/
theorem rawInfo_eq (p : EncParam) (hn : (p.strKV.map (·.1)).Nodup) (hs : (rawInfo p).length ≤ 65536) :
    rawInfo p = Frame.info (fp p) := by
  obtain ⟨b1, ⟨b2, b3⟩, ⟨b4, b5⟩⟩ := bounds p hn hs
  rw [info_parts]
  unfold rawInfo
  simp only [fp]
  have h1 : rawAcl p.strKV = aclPart p.strKV := by
    rw [rawAcl_eq]; unfold aclPart
    cases h : p.strKV.lookup aclKey with
    | none => rfl
    | some t => simp only; rw [rawStr2_eq t (b1 t h)]
  have h2 : rawStrSec p.strKV = strPart p.strKV := by
    rw [rawStrSec_eq _ hn]; unfold strPart
    rw [Nat.mod_eq_of_lt b2]
    rw [flatMap_congr' rawKV2 encStrKV _ (by
      intro kv hkv
      simp only [rawKV2, encStrKV]
      rw [rawStr2_eq _ (b3 kv hkv).1, rawStr2_eq _ (b3 kv hkv).2])]
  have h3 : rawIntSec p.intKV = intPart p.intKV := by
    rw [rawIntSec_eq]; unfold intPart
    rw [Nat.mod_eq_of_lt b4]
    rw [flatMap_congr' rawIntKV encIntKV _ (by
      intro kv hkv
      simp only [rawIntKV, encIntKV]
      rw [rawStr2_eq _ (b5 kv hkv)])]
  rw [h1, h2, h3]

/-! ### Encode against the layout -/

theorem be32_magic_flags (f : Nat) (h : f < 65536) :
    be32 ((Facts.ttMagic + f) % 4294967296) = be16 0x1000 ++ be16 f := by
  have : (Facts.ttMagic + f) % 4294967296 = 268435456 + f := by simp only [Facts.ttMagic]; omega
  rw [this]
  simp only [be32, be16, List.cons_append, List.nil_append, List.cons.injEq, and_true]
  refine ⟨?_, ?_, ?_, ?_⟩ <;> apply UInt8.toNat_inj.mp <;> simp [UInt8.toNat_ofNat'] <;> omega

theorem toI32_ofInt (s : Int) (h1 : -2147483648 ≤ s) (h2 : s < 2147483648) : toI32 (ofInt 32 s) = s := by
  unfold toI32 ofInt
  have : ((2 : Nat) ^ 32 : Nat) = 4294967296 := by decide
  rw [this]
  omega

theorem ofInt32_lt (s : Int) : ofInt 32 s < 4294967296 := by
  unfold ofInt
  have : ((2 : Nat) ^ 32 : Nat) = 4294967296 := by decide
  rw [this]
  omega

theorem padLen_mod (n : Nat) : (n + padLen n) % 4 = 0 := by unfold padLen; omega

theorem infoSize_mod4 (q : Params) : infoSize q % 4 = 0 := padLen_mod _

/-- the four bytes of fresh memory Encode leaves in the total-length field -/
def lenField (w : W) : Bytes := ((List.range 14).map (w.dirt w.n)).take 4

theorem lenField_length (w : W) : (lenField w).length = 4 := by simp [lenField]

/-- the size check of Encode is made on a 64-bit value (Tie A): a regression to `uint32(...)` breaks this -/
theorem ttEncodeSizeCheckBits_eq : Facts.ttEncodeSizeCheckBits = 64 := by decide

/-- Encode on a healthy writer, against the documented layout -/
theorem encode_layout_lemma (p : EncParam) (w : W) (hb : w.broken = false) (hd : (fp p).Dom)
    (h64 : infoSize (fp p) < 2 ^ 64) :
    (infoSize (fp p) > 65536 → encode p w = .err .size) ∧
    (infoSize (fp p) ≤ 65536 → ∃ L, encode p w = .ok (w.n, w.app (metaBytes p w (infoSize (fp p)) :: L)) ∧
        (w.app (metaBytes p w (infoSize (fp p)) :: L)).bytes = w.bytes ++ layout (lenField w) (fp p)) := by
  have hn : (p.strKV.map (·.1)).Nodup := hd.strNodup
  have hr := encode_raw p w hb
  rw [rawSize_eq p hn, ttEncodeSizeCheckBits_eq, Nat.mod_eq_of_lt h64] at hr
  simp only [Facts.ttMaxHeaderSize] at hr
  constructor
  · intro hbig; simpa [hbig] using hr
  · intro hsmall
    have : ¬ infoSize (fp p) > 65536 := by omega
    simp only [this, if_false] at hr
    obtain ⟨L, h1, h2⟩ := hr
    refine ⟨L, h1, ?_⟩
    have hlen : (rawInfo p).length ≤ 65536 := by
      rw [rawInfo_length p hn]; unfold infoSize at hsmall; omega
    rw [W.bytes_app, List.flatten_cons, h2, rawInfo_eq p hn hlen]
    congr 1
    unfold layout metaBytes lenField Frame.seqBits
    have hf : (fp p).flags = p.flags := rfl
    have hq : (fp p).seq = p.seq := rfl
    rw [be32_magic_flags p.flags hd.flags, Nat.mod_eq_of_lt (by omega : infoSize (fp p) / 4 < 65536), hf, hq]
    simp only [padLen, List.append_assoc]

/-! ### Decode of a laid-out frame -/

theorem frame_drops (lf m f s z rest : Bytes) (h0 : lf.length = 4) (h1 : m.length = 2) (h2 : f.length = 2)
    (h3 : s.length = 4) (h4 : z.length = 2) :
    let b := lf ++ (m ++ (f ++ (s ++ (z ++ rest))))
    b.drop 4 = m ++ (f ++ (s ++ (z ++ rest))) ∧ b.drop 6 = f ++ (s ++ (z ++ rest)) ∧
    b.drop 8 = s ++ (z ++ rest) ∧ b.drop 12 = z ++ rest ∧ b.drop 14 = rest := by
  intro b
  refine ⟨List.drop_left' h0, ?_, ?_, ?_, ?_⟩
  · show (lf ++ (m ++ (f ++ (s ++ (z ++ rest))))).drop 6 = _
    rw [← List.append_assoc]; exact List.drop_left' (by simp [h0, h1])
  · show (lf ++ (m ++ (f ++ (s ++ (z ++ rest))))).drop 8 = _
    rw [← List.append_assoc, ← List.append_assoc]; exact List.drop_left' (by simp [h0, h1, h2])
  · show (lf ++ (m ++ (f ++ (s ++ (z ++ rest))))).drop 12 = _
    rw [← List.append_assoc, ← List.append_assoc, ← List.append_assoc]
    exact List.drop_left' (by simp [h0, h1, h2, h3])
  · show (lf ++ (m ++ (f ++ (s ++ (z ++ rest))))).drop 14 = _
    rw [← List.append_assoc, ← List.append_assoc, ← List.append_assoc, ← List.append_assoc]
    exact List.drop_left' (by simp [h0, h1, h2, h3, h4])

theorem encSecs_pads (k : Nat) : encSecs (List.replicate k Sec.pad) = List.replicate k 0 := by
  induction k with
  | zero => rfl
  | succ k ih => rw [List.replicate_succ, Frame.encSecs_cons, ih]; rfl

theorem encSecs_append (a b : List Sec) : encSecs (a ++ b) = encSecs a ++ encSecs b := by
  simp [encSecs]

theorem layout_struct (lf payload : Bytes) (q : Params) :
    layout lf q ++ payload = lf ++ (be16 0x1000 ++ (be16 q.flags ++ (be32 (Frame.seqBits q.seq) ++
      (be16 (infoSize q / 4) ++ (Frame.info q ++ (List.replicate (padLen (Frame.info q).length) 0 ++ payload)))))) := by
  simp [layout, List.append_assoc]

theorem info_struct (q : Params) :
    Frame.info q = UInt8.ofNat q.proto :: 0 :: encSecs (secsOf q) := rfl

/-- every section the encoder emits fits its 16-bit fields when the info area fits the limit -/
theorem secsOf_wf (p : EncParam) (hd : (fp p).Dom) (hs : infoSize (fp p) ≤ 65536) :
    ∀ s ∈ secsOf (fp p), Frame.wfSec s := by
  have hn : (p.strKV.map (·.1)).Nodup := hd.strNodup
  have hlen : (rawInfo p).length ≤ 65536 := by
    rw [rawInfo_length p hn]; unfold infoSize at hs; omega
  obtain ⟨b1, ⟨b2, b3⟩, ⟨b4, b5⟩⟩ := bounds p hn hlen
  intro s hsm
  simp only [secsOf, fp, List.mem_append] at hsm
  rcases hsm with (hsm | hsm) | hsm
  · cases h : p.strKV.lookup aclKey with
    | none => rw [h] at hsm; cases hsm
    | some t =>
      rw [h] at hsm
      simp only [List.mem_singleton] at hsm
      subst hsm
      exact b1 t h
  · cases he : (plainStr p.strKV).isEmpty with
    | true => simp [he] at hsm
    | false =>
      simp only [he, Bool.false_eq_true, if_false, List.mem_singleton] at hsm
      subst hsm
      exact ⟨b2, b3⟩
  · cases he : p.intKV.isEmpty with
    | true => simp [he] at hsm
    | false =>
      simp only [he, Bool.false_eq_true, if_false, List.mem_singleton] at hsm
      subst hsm
      exact ⟨b4, fun kv hkv => ⟨hd.intKeys kv hkv, b5 kv hkv⟩⟩

/-- a laid-out frame followed by any payload is a valid frame whose sections are those of the
    parameter set followed by the padding -/
theorem layout_valid (p : EncParam) (lf payload : Bytes) (hlf : lf.length = 4) (hd : (fp p).Dom)
    (hsup : p.proto ∈ Frame.supported) (hs : infoSize (fp p) ≤ 65536) :
    Frame.Valid (layout lf (fp p) ++ payload)
      (secsOf (fp p) ++ List.replicate (padLen (Frame.info (fp p)).length) Sec.pad) := by
  have hS4 := infoSize_mod4 (fp p)
  have hI2 : 2 ≤ (Frame.info (fp p)).length := by rw [info_struct]; simp
  have hSdef : infoSize (fp p) = (Frame.info (fp p)).length + padLen (Frame.info (fp p)).length := rfl
  obtain ⟨d4, d6, d8, d12, d14⟩ := frame_drops lf (be16 0x1000) (be16 (fp p).flags)
    (be32 (Frame.seqBits (fp p).seq)) (be16 (infoSize (fp p) / 4))
    (Frame.info (fp p) ++ (List.replicate (padLen (Frame.info (fp p)).length) 0 ++ payload))
    hlf (by simp) (by simp) (by simp) (by simp)
  simp only [← layout_struct] at d4 d6 d8 d12 d14
  have hsf : Frame.sizeField (layout lf (fp p) ++ payload) = infoSize (fp p) / 4 := by
    unfold Frame.sizeField; rw [d12]; exact rd16_be16 _ (by omega) _
  have hdecl : Frame.declared (layout lf (fp p) ++ payload) = infoSize (fp p) := by
    unfold Frame.declared; rw [hsf]; omega
  have hlen : (layout lf (fp p) ++ payload).length = 14 + infoSize (fp p) + payload.length := by
    rw [layout_struct]; simp [hlf]; omega
  have hproto : rd8 ((layout lf (fp p) ++ payload).drop 14) = p.proto := by
    rw [d14, info_struct]
    simp only [List.cons_append, rd8, List.headD_cons, fp, UInt8.toNat_ofNat']
    have := hd.proto; simp only [fp] at this; omega
  have hnt : Frame.numTransforms (layout lf (fp p) ++ payload) = 0 := by
    unfold Frame.numTransforms
    have : (layout lf (fp p) ++ payload).drop 15 = ((layout lf (fp p) ++ payload).drop 14).drop 1 := by
      rw [List.drop_drop]
    rw [this, d14, info_struct]
    rfl
  refine { hdr := by omega, magic := ?_, sizeLo := by omega, sizeHi := by omega, complete := by omega,
           proto := by rw [hproto]; exact hsup, transforms := by omega, wf := ?_, sections := ?_ }
  · rw [d4]; exact rd16_be16 _ (by omega) _
  · intro s hsm
    rw [List.mem_append] at hsm
    rcases hsm with hsm | hsm
    · exact secsOf_wf p hd hs s hsm
    · rw [List.mem_replicate] at hsm; rw [hsm.2]; trivial
  · rw [hnt, hdecl]
    have : (layout lf (fp p) ++ payload).drop (16 + 0) = ((layout lf (fp p) ++ payload).drop 14).drop 2 := by
      rw [List.drop_drop]
    rw [this, d14, info_struct, encSecs_append, encSecs_pads]
    simp only [List.cons_append, List.drop_succ_cons, List.drop_zero]
    rw [← List.append_assoc]
    apply List.take_left'
    rw [hSdef, info_struct]
    simp only [List.length_append, List.length_cons, List.length_replicate]
    omega

/-! ### what the sections of a parameter set denote -/

theorem applySecs_pads (m : Frame.IntMap × Frame.StrMap) (k : Nat) :
    Frame.applySecs m (List.replicate k Sec.pad) = m := by
  induction k with
  | zero => rfl
  | succ k ih => rw [List.replicate_succ]; simp only [Frame.applySecs, List.foldl_cons, Frame.applySec] at ih ⊢; exact ih

def aclEntry (m : StrMap) : StrMap :=
  match m.lookup aclKey with
  | some t => [(aclKey, t)]
  | none => []

theorem applySecs_secsOf (q : Params) (k : Nat) :
    Frame.applySecs ([], []) (secsOf q ++ List.replicate k Sec.pad)
      = (q.intKV.reverse, (plainStr q.strKV).reverse ++ aclEntry q.strKV) := by
  unfold Frame.applySecs
  rw [List.foldl_append]
  have := applySecs_pads (List.foldl Frame.applySec ([], []) (secsOf q)) k
  unfold Frame.applySecs at this
  rw [this]
  unfold secsOf aclEntry
  cases h1 : q.strKV.lookup aclKey <;> cases h2 : (plainStr q.strKV).isEmpty <;> cases h3 : q.intKV.isEmpty <;>
    simp [Frame.applySec, List.isEmpty_iff.mp, *] <;>
    (first | (have := List.isEmpty_iff.mp h2; simp [this]) | skip) <;>
    (first | (have := List.isEmpty_iff.mp h3; simp [this]) | skip)

theorem lookup_plain (m : StrMap) (k : Bytes) :
    (plainStr m).lookup k = if k = aclKey then none else m.lookup k := by
  induction m with
  | nil => simp [plainStr]
  | cons kv rest ih =>
    obtain ⟨k', v'⟩ := kv
    rw [plainStr_cons]
    by_cases hk' : k' = gdprKey
    · simp only [hk', if_true, ih, List.lookup_cons]
      by_cases hk : k = aclKey
      · simp [hk]
      · have : (k == gdprKey) = false := by rw [gdprKey_eq]; simpa using hk
        simp [hk, this]
    · simp only [hk', if_false, List.lookup_cons, ih]
      by_cases hk : k = aclKey
      · subst hk
        have : (aclKey == k') = false := by
          rw [← gdprKey_eq]; apply beq_false_of_ne; exact fun e => hk' e.symm
        simp [this]
      · simp [hk]

theorem plain_nodup (m : StrMap) (hn : (m.map (·.1)).Nodup) : ((plainStr m).map (·.1)).Nodup := by
  unfold plainStr
  exact hn.sublist (List.Sublist.map _ List.filter_sublist)

/-- the decoded string map answers like the parameter's string map -/
theorem str_lookup (m : StrMap) (hn : (m.map (·.1)).Nodup) (k : Bytes) :
    ((plainStr m).reverse ++ aclEntry m).lookup k = m.lookup k := by
  rw [List.lookup_append, lookup_reverse _ (plain_nodup m hn), lookup_plain]
  unfold aclEntry
  by_cases hk : k = aclKey
  · subst hk
    simp only [if_true, Option.none_or]
    cases m.lookup aclKey <;> simp
  · simp only [hk, if_false]
    cases h : m.lookup aclKey with
    | none => simp
    | some t =>
      have : (k == aclKey) = false := by simpa using hk
      simp [List.lookup_cons, this]

theorem layout_length (lf : Bytes) (q : Params) (hlf : lf.length = 4) :
    (layout lf q).length = 14 + infoSize q := by
  unfold layout infoSize; simp [hlf]; omega

theorem rd32_prefix (lf r : Bytes) (hlf : lf.length = 4) : rd32 (lf ++ r) = rd32 lf := by
  match lf, hlf with
  | [a, b, c, d], _ => rfl

/-- **round trip on the layout**: Decode of a laid-out frame followed by any payload -/
theorem decode_layout (p : EncParam) (lf payload : Bytes) (cap : Nat) (hlf : lf.length = 4) (hd : (fp p).Dom)
    (hsup : p.proto ∈ Frame.supported) (hs : infoSize (fp p) ≤ 65536)
    (hcap : (layout lf (fp p) ++ payload).length ≤ cap) :
    ∃ d, decodeBytes (layout lf (fp p) ++ payload) cap = (.ok d, (layout lf (fp p)).length) ∧
      d.flags = p.flags ∧ d.seq = p.seq ∧ d.proto = p.proto ∧
      (∀ k, (mk d.intKV).lookup k = p.intKV.lookup k) ∧ (∀ k, (mk d.strKV).lookup k = p.strKV.lookup k) ∧
      d.headerLen = ((layout lf (fp p)).length : Int) ∧
      d.payloadLen = (rd32 lf : Int) + 4 - ((layout lf (fp p)).length : Int) := by
  have hv := layout_valid p lf payload hlf hd hsup hs
  have hspec := decodeCur_spec (layout lf (fp p) ++ payload)
  rw [(Frame.refValid_iff _ _).mpr hv] at hspec
  simp only at hspec
  obtain ⟨d4, d6, d8, d12, d14⟩ := frame_drops lf (be16 0x1000) (be16 (fp p).flags)
    (be32 (Frame.seqBits (fp p).seq)) (be16 (infoSize (fp p) / 4))
    (Frame.info (fp p) ++ (List.replicate (padLen (Frame.info (fp p)).length) 0 ++ payload))
    hlf (by simp) (by simp) (by simp) (by simp)
  simp only [← layout_struct] at d4 d6 d8 d12 d14
  have hS4 := infoSize_mod4 (fp p)
  have hdecl : Frame.declared (layout lf (fp p) ++ payload) = infoSize (fp p) := by
    unfold Frame.declared Frame.sizeField; rw [d12, rd16_be16 _ (by omega) _]; omega
  have hflags : rd16 ((layout lf (fp p) ++ payload).drop 6) = p.flags := by
    rw [d6]; exact rd16_be16 _ hd.flags _
  have hseq : toI32 (rd32 ((layout lf (fp p) ++ payload).drop 8)) = p.seq := by
    rw [d8, rd32_be32 (Frame.seqBits (fp p).seq) (ofInt32_lt _) _]
    exact toI32_ofInt p.seq hd.seq.1 hd.seq.2
  have hproto : rd8 ((layout lf (fp p) ++ payload).drop 14) = p.proto := by
    rw [d14, info_struct]
    simp only [List.cons_append, rd8, List.headD_cons, fp, UInt8.toNat_ofNat']
    have := hd.proto; simp only [fp] at this; omega
  have htot : Frame.totalLen (layout lf (fp p) ++ payload) = rd32 lf := by
    unfold Frame.totalLen; rw [layout_struct]; exact rd32_prefix _ _ hlf
  have hmaps := pairOf_applyMs (secsOf (fp p) ++ List.replicate (padLen (Frame.info (fp p)).length) Sec.pad)
    ⟨none, none⟩
  rw [show pairOf ⟨none, none⟩ = ([], []) from rfl, applySecs_secsOf] at hmaps
  refine ⟨toParam (layout lf (fp p) ++ payload) (applyMs ⟨none, none⟩
      (secsOf (fp p) ++ List.replicate (padLen (Frame.info (fp p)).length) Sec.pad)), ?_, ?_, ?_, ?_, ?_, ?_, ?_, ?_⟩
  · rw [decodeBytes_eq_cur _ _ hcap, hspec, hdecl, layout_length _ _ hlf]
  · exact hflags
  · exact hseq
  · exact hproto
  · intro k
    have : mk (applyMs ⟨none, none⟩ (secsOf (fp p) ++ List.replicate (padLen (Frame.info (fp p)).length) Sec.pad)).int
        = (fp p).intKV.reverse := congrArg Prod.fst hmaps
    simp only [toParam, this]
    exact lookup_reverse _ hd.intNodup k
  · intro k
    have : mk (applyMs ⟨none, none⟩ (secsOf (fp p) ++ List.replicate (padLen (Frame.info (fp p)).length) Sec.pad)).str
        = (plainStr (fp p).strKV).reverse ++ aclEntry (fp p).strKV := congrArg Prod.snd hmaps
    simp only [toParam, this]
    exact str_lookup _ hd.strNodup k
  · simp only [toParam, hdecl, layout_length _ _ hlf]; omega
  · simp only [toParam, hdecl, htot, layout_length _ _ hlf]; omega

/-- Encode does not look at the protocol id, Decode does: a laid-out frame whose protocol id is not in the
    allow-list is refused with the protocol error, after both Next calls (14 + declared bytes consumed) -/
theorem decode_layout_unsupported (p : EncParam) (lf payload : Bytes) (cap : Nat) (hlf : lf.length = 4)
    (hd : (fp p).Dom) (hsup : p.proto ∉ Frame.supported) (hs : infoSize (fp p) ≤ 65536)
    (hcap : (layout lf (fp p) ++ payload).length ≤ cap) :
    decodeBytes (layout lf (fp p) ++ payload) cap = (.err .protocol, (layout lf (fp p)).length) := by
  obtain ⟨d4, d6, d8, d12, d14⟩ := frame_drops lf (be16 0x1000) (be16 (fp p).flags)
    (be32 (Frame.seqBits (fp p).seq)) (be16 (infoSize (fp p) / 4))
    (Frame.info (fp p) ++ (List.replicate (padLen (Frame.info (fp p)).length) 0 ++ payload))
    hlf (by simp) (by simp) (by simp) (by simp)
  simp only [← layout_struct] at d4 d6 d8 d12 d14
  have hS4 := infoSize_mod4 (fp p)
  have hI2 : 2 ≤ (Frame.info (fp p)).length := by rw [info_struct]; simp
  have hSdef : infoSize (fp p) = (Frame.info (fp p)).length + padLen (Frame.info (fp p)).length := rfl
  have hdecl : Frame.declared (layout lf (fp p) ++ payload) = infoSize (fp p) := by
    unfold Frame.declared Frame.sizeField; rw [d12, rd16_be16 _ (by omega) _]; omega
  have hlen : (layout lf (fp p) ++ payload).length = 14 + infoSize (fp p) + payload.length := by
    rw [layout_struct]; simp [hlf]; omega
  have hmagic : rd16 ((layout lf (fp p) ++ payload).drop 4) = 0x1000 := by
    rw [d4]; exact rd16_be16 _ (by omega) _
  have hproto : rd8 ((layout lf (fp p) ++ payload).drop 14) = p.proto := by
    rw [d14, info_struct]
    simp only [List.cons_append, rd8, List.headD_cons, fp, UInt8.toNat_ofNat']
    have := hd.proto; simp only [fp] at this; omega
  rw [decodeBytes_eq_cur _ _ hcap, decodeCur_chain]
  have c1 : ¬ (layout lf (fp p) ++ payload).length < 14 := by omega
  have c2 : ¬ (Frame.declared (layout lf (fp p) ++ payload) > 65536 ∨
      Frame.declared (layout lf (fp p) ++ payload) < 2) := by omega
  have c3 : ¬ (layout lf (fp p) ++ payload).length - 14 < Frame.declared (layout lf (fp p) ++ payload) := by omega
  simp only [c1, hmagic, ne_eq, not_true_eq_false, c2, c3, if_false]
  have hl : (((layout lf (fp p) ++ payload).drop 14).take (Frame.declared (layout lf (fp p) ++ payload))).length
      = Frame.declared (layout lf (fp p) ++ payload) := by
    simp only [List.length_take, List.length_drop]; omega
  rw [decodeInfo_eq _ _ hl (by simp only; omega) (by simp only; omega)]
  have e1 : rd8 (((layout lf (fp p) ++ payload).drop 14).take (Frame.declared (layout lf (fp p) ++ payload)))
      = p.proto := by rw [rd8_take _ _ (by omega)]; exact hproto
  have hns : ¬ (Frame.supported.contains p.proto = true) := by simpa using hsup
  rw [e1, hdecl, layout_length _ _ hlf]
  simp [hsup]

/-- the caller's PutUint32(totalLenField, total) after Encode: the frame becomes the layout with that
    length field -/
theorem setTotalLen_layout (p : EncParam) (w : W) (L : List Bytes) (total : Nat) (hd : (fp p).Dom)
    (hs : infoSize (fp p) ≤ 65536)
    (hbytes : (w.app (metaBytes p w (infoSize (fp p)) :: L)).bytes = w.bytes ++ layout (lenField w) (fp p)) :
    ∃ w'', setTotalLen (w.app (metaBytes p w (infoSize (fp p)) :: L)) w.n total = .ok w'' ∧
      w''.bytes = w.bytes ++ layout (be32 (total % 4294967296)) (fp p) := by
  unfold setTotalLen
  have hml : (metaBytes p w (infoSize (fp p))).length = 14 := by simp [metaBytes]
  rw [put_app' w _ L 0 (be32 (total % 4294967296)) (by simp [hml])]
  refine ⟨_, rfl, ?_⟩
  rw [W.bytes_app, List.flatten_cons] at hbytes ⊢
  have hL : L.flatten = (layout (lenField w) (fp p)).drop 14 := by
    have h1 := List.append_cancel_left hbytes
    have h2 := congrArg (List.drop 14) h1
    rw [List.drop_left' hml] at h2
    exact h2
  have hm : metaBytes p w (infoSize (fp p)) = (layout (lenField w) (fp p)).take 14 := by
    have h1 := List.append_cancel_left hbytes
    have h2 := congrArg (List.take 14) h1
    rw [List.take_left' hml] at h2
    exact h2
  congr 1
  rw [hL]
  -- both layouts share everything after the length field
  have e1 : ∀ lf : Bytes, lf.length = 4 → layout lf (fp p) = lf ++ (layout lf (fp p)).drop 4 := by
    intro lf hlf
    unfold layout
    simp only [List.append_assoc]
    rw [List.drop_left' hlf]
  have e2 : ∀ lf : Bytes, lf.length = 4 → (layout lf (fp p)).drop 4 =
      be16 0x1000 ++ be16 (fp p).flags ++ be32 (Frame.seqBits (fp p).seq) ++ be16 (infoSize (fp p) / 4)
        ++ Frame.info (fp p) ++ List.replicate (padLen (Frame.info (fp p)).length) 0 := by
    intro lf hlf
    unfold layout
    simp only [List.append_assoc]
    rw [List.drop_left' hlf]
  have hk : poke (metaBytes p w (infoSize (fp p))) 0 (be32 (total % 4294967296))
      = be32 (total % 4294967296) ++ ((layout (lenField w) (fp p)).take 14).drop 4 := by
    rw [hm]; simp [poke]
  rw [hk, e1 (be32 (total % 4294967296)) (by simp), e2 _ (by simp)]
  have hd14 : (layout (lenField w) (fp p)).drop 14 = ((layout (lenField w) (fp p)).drop 4).drop 10 := by
    rw [List.drop_drop]
  have ht14 : ((layout (lenField w) (fp p)).take 14).drop 4 = ((layout (lenField w) (fp p)).drop 4).take 10 := by
    rw [List.drop_take]
  rw [hd14, ht14, e2 _ (lenField_length w), List.append_assoc, List.take_append_drop]
end Verif.TTH

/-
  Lemmas/ComposeMsg: MarshalFastMsg / UnmarshalFastMsg (Model/WireMsg, abstract payload `Codec`)
  instantiated with the shipped FastCodec structs Base / BaseResp of the fc family (Model/FastCodec).

  The abstract `CodecOK` of Lemmas/WireMsg demands `read t (enc x) = (x, …)` for EVERY target `t` and with
  the result EQUAL to `x`.  The generated readers do not satisfy that literally: FastRead does not reset
  its receiver (a map already present is merged into) and the map comes back in the order the writer
  iterated (the same map, another association list).  So the instance is made against the two facts
  MarshalFastMsg really needs (`BLength = length of the encoding`, `FastWriteNocopy stores exactly the
  encoding`) and the reader's own theorem (`C11.read_write_*`), for every pair of iteration orders.
-/
import Verif.Lemmas.WireMsg
import Verif.Props.C11
namespace Verif.Compose
open Verif Verif.Wire

/-- `x.FastWriteNocopy(buf[off:], nil)` seen from the caller's buffer: `buf[off:]` is a slice panic when
    `off > len(buf)`, the bytes below `off` are not touched -/
def cmpLiftWrite (f : Bytes → TOut (WS × Nat)) (buf : Bytes) (off : Nat) : TOut (Bytes × Nat) :=
  if off > buf.length then .panic "slice" else
  match f (buf.drop off) with
  | .ok r => .ok (buf.take off ++ r.1.buf, r.2)
  | .err e => .err e
  | .panic s => .panic s
  | .oob => .oob

/-- `x.FastRead(b)`: the receiver afterwards and `(off, err)` as the message level consumes it -/
def cmpLiftRead {α : Type} (f : α → Bytes → TOut (RR α)) (t : α) (b : Bytes) : α × TOut Nat :=
  match f t b with
  | .ok r => (r.p, match r.err with | none => .ok r.off | some e => .err e)
  | .err e => (t, .err e)
  | .panic s => (t, .panic s)
  | .oob => (t, .oob)

/-- (*Base) as a payload of MarshalFastMsg / UnmarshalFastMsg: `it1` is the order in which BLength walks
    the map, `it2` the order of the writer, `thr` the nocopy threshold (irrelevant with a nil writer) -/
def cmpBaseCodec (thr : Nat) (it1 it2 : SMap) : Codec Base where
  blength x := bLengthBase (some x) it1
  write x := cmpLiftWrite (fastWriteNocopyBase thr false (some x) it2)
  read := cmpLiftRead fastReadBase

def cmpBaseRespCodec (thr : Nat) (it1 it2 : SMap) : Codec BaseResp where
  blength x := bLengthBaseResp (some x) it1
  write x := cmpLiftWrite (fastWriteNocopyBaseResp thr false (some x) it2)
  read := cmpLiftRead fastReadBaseResp

/-- a writer that stores `e` at the start of any buffer of at least `n` bytes and leaves the rest alone,
    seen from the caller's buffer: `putAt` -/
theorem cmpLiftWrite_ok (f : Bytes → TOut (WS × Nat)) (e : Bytes) (n : Nat) (hn : e.length = n)
    (hf : ∀ b : Bytes, n ≤ b.length → f b = .ok (⟨e ++ b.drop n, []⟩, n))
    (buf : Bytes) (off : Nat) (h : off + n ≤ buf.length) :
    cmpLiftWrite f buf off = .ok (putAt buf off e, n) := by
  unfold cmpLiftWrite
  rw [if_neg (by omega), hf (buf.drop off) (by simp; omega)]
  simp only [putAt, List.drop_drop, hn, List.append_assoc]

/-- MarshalFastMsg with a payload codec of which only the two write-side facts are known
    (the proof of `Wire.marshal_ok`, which takes the whole `CodecOK`, uses no more) -/
theorem cmp_marshal_ok {α} (C : Codec α) (e : Bytes) (d : Nat → UInt8) (method : Bytes) (typ seq : Int) (msg : α)
    (hm : method ≠ []) (hlen : e.length = C.blength msg)
    (hw : ∀ buf off, off + C.blength msg ≤ buf.length → C.write msg buf off = .ok (putAt buf off e, C.blength msg)) :
    marshalFastMsg C d method typ seq msg = .ok (encM (.messageBegin method typ seq) ++ e) := by
  unfold marshalFastMsg
  rw [if_neg hm]
  dsimp only
  generalize hb : (List.range (lenMessageBegin method + C.blength msg)).map d = b
  have hl : b.length = lenMessageBegin method + C.blength msg := by subst hb; simp
  unfold lenMessageBegin at hl
  have w1 := wMessageBegin_ok b 0 method typ seq (by omega)
  simp only [w1]
  have l1 : (putAt b 0 (be32 (msgHeader typ) ++ be32 method.length ++ method ++ be32 (ofInt 32 seq))).length
      = b.length := putAt_length _ _ _ (by simp; omega)
  have w2 := hw (putAt b 0 (be32 (msgHeader typ) ++ be32 method.length ++ method ++ be32 (ofInt 32 seq)))
    (12 + method.length) (by rw [l1]; omega)
  simp only [w2]
  have := put2 b 0 (be32 (msgHeader typ) ++ be32 method.length ++ method ++ be32 (ofInt 32 seq)) e
    (12 + method.length) (by simp; omega) (by simp [hlen]; omega)
  rw [this, putAt_full _ _ (by simp [hlen]; omega)]
  simp [encM]

theorem cmpLiftRead_ok {α : Type} (f : α → Bytes → TOut (RR α)) (t x : α) (b : Bytes) (n : Nat)
    (h : f t b = .ok ⟨x, n, none⟩) : cmpLiftRead f t b = (x, .ok n) := by
  unfold cmpLiftRead; rw [h]

theorem cmpBaseCodec_read (thr : Nat) (it1 it2 : SMap) :
    (cmpBaseCodec thr it1 it2).read = cmpLiftRead fastReadBase := rfl
theorem cmpBaseRespCodec_read (thr : Nat) (it1 it2 : SMap) :
    (cmpBaseRespCodec thr it1 it2).read = cmpLiftRead fastReadBaseResp := rfl

/-- MarshalFastMsg of a *Base: header ++ encoding in the writer's order -/
theorem cmp_marshal_base (thr : Nat) (dirt : Nat → UInt8) (method : Bytes) (typ seq : Int) (p : Base)
    (it1 it2 : SMap) (hm : method ≠ []) (h1 : IterOf p.extra it1) (h2 : IterOf p.extra it2) :
    marshalFastMsg (cmpBaseCodec thr it1 it2) dirt method typ seq p
      = .ok (encM (.messageBegin method typ seq) ++ encBase (some p) it2) := by
  have hq1 : ∀ q, some p = some q → IterOf q.extra it1 := by intro q hq; cases hq; exact h1
  have hq2 : ∀ q, some p = some q → IterOf q.extra it2 := by intro q hq; cases hq; exact h2
  have hlen : (encBase (some p) it2).length = bLengthBase (some p) it1 :=
    (bLengthBase_eq (some p) it1 it2 hq1 hq2).symm
  have hw : ∀ buf off, off + bLengthBase (some p) it1 ≤ buf.length →
      cmpLiftWrite (fastWriteNocopyBase thr false (some p) it2) buf off
        = .ok (putAt buf off (encBase (some p) it2), bLengthBase (some p) it1) :=
    fun buf off h => cmpLiftWrite_ok _ _ _ hlen
      (fun b hb => (C11.blength_eq_write_base thr (some p) it1 it2 b hq1 hq2 hb).2) buf off h
  exact cmp_marshal_ok (cmpBaseCodec thr it1 it2) (encBase (some p) it2) dirt method typ seq p hm hlen hw

theorem cmp_marshal_baseresp (thr : Nat) (dirt : Nat → UInt8) (method : Bytes) (typ seq : Int) (p : BaseResp)
    (it1 it2 : SMap) (hm : method ≠ []) (h1 : IterOf p.extra it1) (h2 : IterOf p.extra it2) :
    marshalFastMsg (cmpBaseRespCodec thr it1 it2) dirt method typ seq p
      = .ok (encM (.messageBegin method typ seq) ++ encBaseResp (some p) it2) := by
  have hq1 : ∀ q, some p = some q → IterOf q.extra it1 := by intro q hq; cases hq; exact h1
  have hq2 : ∀ q, some p = some q → IterOf q.extra it2 := by intro q hq; cases hq; exact h2
  have hlen : (encBaseResp (some p) it2).length = bLengthBaseResp (some p) it1 :=
    (bLengthBaseResp_eq (some p) it1 it2 hq1 hq2).symm
  have hw : ∀ buf off, off + bLengthBaseResp (some p) it1 ≤ buf.length →
      cmpLiftWrite (fastWriteNocopyBaseResp thr false (some p) it2) buf off
        = .ok (putAt buf off (encBaseResp (some p) it2), bLengthBaseResp (some p) it1) :=
    fun buf off h => cmpLiftWrite_ok _ _ _ hlen
      (fun b hb => (C11.blength_eq_write_baseresp thr (some p) it1 it2 b hq1 hq2 hb).2) buf off h
  exact cmp_marshal_ok (cmpBaseRespCodec thr it1 it2) (encBaseResp (some p) it2) dirt method typ seq p hm hlen hw

/-- UnmarshalFastMsg of header ++ encoded *Base into a receiver without map -/
theorem cmp_unmarshal_base (thr : Nat) (method : Bytes) (typ seq : Int) (p target : Base) (it1 it2 : SMap)
    (hn : method.length < 2147483648) (hs : inI32 seq) (hne : msgType16 typ ≠ Facts.mEXCEPTION)
    (hp : BaseOK p) (h2 : IterOf p.extra it2) (h0 : target.extra = none) :
    unmarshalFastMsg (cmpBaseCodec thr it1 it2)
        (encM (.messageBegin method typ seq) ++ encBase (some p) it2) target
      = .ok ⟨method, seq, none, { p with extra := p.extra.map (fun _ => it2) }⟩ := by
  obtain ⟨hrd, _⟩ := C11.read_write_base target p it2 [] h0 hp h2
  rw [List.append_nil] at hrd
  have := cmpLiftRead_ok _ _ _ _ _ hrd
  rw [unmarshal_plain _ method _ typ seq target hn hs hne, cmpBaseCodec_read, this]

theorem cmp_unmarshal_baseresp (thr : Nat) (method : Bytes) (typ seq : Int) (p target : BaseResp)
    (it1 it2 : SMap) (hn : method.length < 2147483648) (hs : inI32 seq)
    (hne : msgType16 typ ≠ Facts.mEXCEPTION) (hp : BaseRespOK p) (h2 : IterOf p.extra it2)
    (h0 : target.extra = none) :
    unmarshalFastMsg (cmpBaseRespCodec thr it1 it2)
        (encM (.messageBegin method typ seq) ++ encBaseResp (some p) it2) target
      = .ok ⟨method, seq, none, { p with extra := p.extra.map (fun _ => it2) }⟩ := by
  obtain ⟨hrd, _⟩ := C11.read_write_baseresp target p it2 [] h0 hp h2
  rw [List.append_nil] at hrd
  have := cmpLiftRead_ok _ _ _ _ _ hrd
  rw [unmarshal_plain _ method _ typ seq target hn hs hne, cmpBaseRespCodec_read, this]

end Verif.Compose

/-
  Lemmas/MemSkip: the skip decoders over `Mem`.
  * a generic fact about the grammar walker `skipTplAt`: any reflexive-transitive relation on back-end
    states that every successful `SkipN` respects is respected by a whole successful `Skip`;
  * SkipDecoder over bufiox: `Next` is a Release-free sequence of reader operations and its result lies
    in the protected region (so `slice_stable` applies to it);
  * ReaderSkipDecoder: `growSlow` copies then frees; the invariant (own live buffer, no fault) holds
    along `Next`, whatever the source does.
-/
import Verif.Lemmas.MemReader
import Verif.Model.MemDecode
namespace Verif.Mem
open Verif Verif.Heap

theorem out_bind_ok {ε α β : Type} (x : Out ε α) (f : α → Out ε β) (b : β) (h : x.bind f = .ok b) :
    ∃ a, x = .ok a ∧ f a = .ok b := by
  cases x with
  | ok a => exact ⟨a, rfl, h⟩
  | err e => simp [Out.bind] at h
  | panic s => simp [Out.bind] at h
  | oob => simp [Out.bind] at h

section Tpl
variable {σ : Type} (B : Backend σ) (R : σ → σ → Prop)
  (hrefl : ∀ s, R s s) (htrans : ∀ a b c, R a b → R b c → R a c)
  (hstep : ∀ s k b s', B.skipN s k = .ok (b, s') → R s s')
include hrefl htrans hstep

omit hstep in
theorem tplMapLoop_rel (rec : UInt8 → σ → TOut σ) (hrec : ∀ t s s', rec t s = .ok s' → R s s') (kt vt : UInt8) :
    ∀ (cnt : Nat) (s s' : σ), tplMapLoop rec kt vt cnt s = .ok s' → R s s' := by
  intro cnt
  induction cnt with
  | zero => intro s s' h; simp [tplMapLoop] at h; subst h; exact hrefl s
  | succ n ih =>
    intro s s' h
    unfold tplMapLoop at h
    try simp only [Out.bind_eq] at h
    obtain ⟨s1, h1, h⟩ := out_bind_ok _ _ _ h
    obtain ⟨s2, h2, h⟩ := out_bind_ok _ _ _ h
    exact htrans _ _ _ (hrec _ _ _ h1) (htrans _ _ _ (hrec _ _ _ h2) (ih _ _ h))

omit hstep in
theorem tplListLoop_rel (rec : UInt8 → σ → TOut σ) (hrec : ∀ t s s', rec t s = .ok s' → R s s') (vt : UInt8) :
    ∀ (cnt : Nat) (s s' : σ), tplListLoop rec vt cnt s = .ok s' → R s s' := by
  intro cnt
  induction cnt with
  | zero => intro s s' h; simp [tplListLoop] at h; subst h; exact hrefl s
  | succ n ih =>
    intro s s' h
    unfold tplListLoop at h
    try simp only [Out.bind_eq] at h
    obtain ⟨s1, h1, h⟩ := out_bind_ok _ _ _ h
    exact htrans _ _ _ (hrec _ _ _ h1) (ih _ _ h)

omit hrefl in
theorem tplStructLoop_rel (rec : UInt8 → σ → TOut σ) (hrec : ∀ t s s', rec t s = .ok s' → R s s') :
    ∀ (fuel : Nat) (s s' : σ), tplStructLoop B rec fuel s = .ok s' → R s s' := by
  intro fuel
  induction fuel with
  | zero => intro s s' h; simp [tplStructLoop] at h
  | succ n ih =>
    intro s s' h
    unfold tplStructLoop at h
    try simp only [Out.bind_eq] at h
    obtain ⟨⟨b, s1⟩, h1, h⟩ := out_bind_ok _ _ _ h
    simp only [] at h
    obtain ⟨tp, _, h⟩ := out_bind_ok _ _ _ h
    have r1 := hstep _ _ _ _ h1
    split at h
    · (have h' : (Out.ok _ : TOut σ) = Out.ok s' := h; injection h' with h'; subst h'); exact r1
    · try simp only [Out.bind_eq] at h
      obtain ⟨⟨b2, s2⟩, h2, h⟩ := out_bind_ok _ _ _ h
      simp only [] at h
      obtain ⟨s3, h3, h⟩ := out_bind_ok _ _ _ h
      exact htrans _ _ _ r1 (htrans _ _ _ (hstep _ _ _ _ h2) (htrans _ _ _ (hrec _ _ _ h3) (ih _ _ h)))

theorem skipTplAt_rel : ∀ (d : Nat) (t : UInt8) (s s' : σ), skipTplAt B d t s = .ok s' → R s s' := by
  intro d
  induction d with
  | zero => intro t s s' h; simp [skipTplAt] at h
  | succ d ih =>
    intro t s s' h
    unfold skipTplAt at h
    try simp only [Out.bind_eq] at h
    obtain ⟨sz, _, h⟩ := out_bind_ok _ _ _ h
    split at h
    · try simp only [Out.bind_eq] at h
      obtain ⟨⟨b, s1⟩, h1, h⟩ := out_bind_ok _ _ _ h
      (have h' : (Out.ok _ : TOut σ) = Out.ok s' := h; injection h' with h'; subst h')
      exact hstep _ _ _ _ h1
    · split at h
      · -- STRING
        try simp only [Out.bind_eq] at h
        obtain ⟨⟨b, s1⟩, h1, h⟩ := out_bind_ok _ _ _ h
        simp only [] at h
        obtain ⟨v, _, h⟩ := out_bind_ok _ _ _ h
        split at h
        · simp at h
        · try simp only [Out.bind_eq] at h
          obtain ⟨⟨b2, s2⟩, h2, h⟩ := out_bind_ok _ _ _ h
          (have h' : (Out.ok _ : TOut σ) = Out.ok s' := h; injection h' with h'; subst h')
          exact htrans _ _ _ (hstep _ _ _ _ h1) (hstep _ _ _ _ h2)
      · split at h
        · -- STRUCT
          exact tplStructLoop_rel B R htrans hstep _ ih _ _ _ h
        · split at h
          · -- MAP
            try simp only [Out.bind_eq] at h
            obtain ⟨⟨b, s1⟩, h1, h⟩ := out_bind_ok _ _ _ h
            simp only [] at h
            obtain ⟨kt, _, h⟩ := out_bind_ok _ _ _ h
            obtain ⟨vt, _, h⟩ := out_bind_ok _ _ _ h
            obtain ⟨v, _, h⟩ := out_bind_ok _ _ _ h
            have r1 := hstep _ _ _ _ h1
            split at h
            · simp at h
            · try simp only [Out.bind_eq] at h
              obtain ⟨ksz, _, h⟩ := out_bind_ok _ _ _ h
              obtain ⟨vsz, _, h⟩ := out_bind_ok _ _ _ h
              split at h
              · try simp only [Out.bind_eq] at h
                obtain ⟨⟨b2, s2⟩, h2, h⟩ := out_bind_ok _ _ _ h
                (have h' : (Out.ok _ : TOut σ) = Out.ok s' := h; injection h' with h'; subst h')
                exact htrans _ _ _ r1 (hstep _ _ _ _ h2)
              · exact htrans _ _ _ r1 (tplMapLoop_rel R hrefl htrans _ ih _ _ _ _ _ h)
          · split at h
            · -- SET / LIST
              try simp only [Out.bind_eq] at h
              obtain ⟨⟨b, s1⟩, h1, h⟩ := out_bind_ok _ _ _ h
              simp only [] at h
              obtain ⟨vt, _, h⟩ := out_bind_ok _ _ _ h
              obtain ⟨v, _, h⟩ := out_bind_ok _ _ _ h
              have r1 := hstep _ _ _ _ h1
              split at h
              · simp at h
              · try simp only [Out.bind_eq] at h
                obtain ⟨vsz, _, h⟩ := out_bind_ok _ _ _ h
                split at h
                · try simp only [Out.bind_eq] at h
                  obtain ⟨⟨b2, s2⟩, h2, h⟩ := out_bind_ok _ _ _ h
                  (have h' : (Out.ok _ : TOut σ) = Out.ok s' := h; injection h' with h'; subst h')
                  exact htrans _ _ _ r1 (hstep _ _ _ _ h2)
                · exact htrans _ _ _ r1 (tplListLoop_rel R hrefl htrans _ ih _ _ _ _ h)
            · simp at h

end Tpl

/-! ## SkipDecoder over a bufiox reader -/

/-- one SkipN of the SkipDecoder is a Peek plus a (checked) look at the window -/
theorem memBufiox_skipN_ok (s : MSkipDec) (k : Nat) (b : Bytes) (s' : MSkipDec)
    (hrun : memBufioxBackend.skipN s k = .ok (b, s')) (hi : RInv s.r s.h) : StepOK s.r s.h s'.r s'.h := by
  unfold memBufioxBackend at hrun
  simp only [] at hrun
  have hp := peek_ok s.r s.h ((s.rn + k : Nat) : Int) hi
  generalize s.r.peek s.h ((s.rn + k : Nat) : Int) = res at hrun hp
  obtain ⟨res1, r', h'⟩ := res
  cases res1 with
  | ok buf =>
    simp only [] at hrun
    by_cases hrn : s.rn > buf.len
    · rw [if_pos hrn] at hrun; cases hrun
    · rw [if_neg hrn] at hrun
      simp only [Out.ok.injEq, Prod.mk.injEq] at hrun
      obtain ⟨_, rfl⟩ := hrun
      obtain ⟨_, _, hread⟩ := hp.2 buf rfl
      have hchk : (h'.read (buf.sub s.rn buf.len).obj (buf.sub s.rn buf.len).off (buf.sub s.rn buf.len).len).2 = h' := by
        unfold Heap.read; simp only [Slice.sub]
        by_cases h0 : buf.len - s.rn = 0
        · rw [h0, chk_zero]
        · obtain ⟨x, hx, hb, hf⟩ := hread (by omega)
          exact chk_read_ok h' _ _ _ x hx (by omega) hf
      simp only [hchk]
      exact hp.1
  | fail e =>
    cases e with
    | some e => simp at hrun
    | none =>
      simp only [] at hrun
      by_cases hrn : s.rn > 0
      · rw [if_pos hrn] at hrun; cases hrun
      · rw [if_neg hrn] at hrun
        simp only [Out.ok.injEq, Prod.mk.injEq] at hrun
        obtain ⟨_, rfl⟩ := hrun
        exact hp.1
  | nofuel => simp at hrun

/-- SkipDecoder.Next: a Release-free step of the reader whose result lies in the protected region -/
theorem memSkipDecNext_ok (r : MRd) (h : Heap) (t : UInt8) (s : Slice) (r' : MRd) (h' : Heap)
    (hrun : memSkipDecNext r h t = .ok (s, r', h')) (hi : RInv r h) :
    StepOK r h r' h' ∧ InProt r' h' s := by
  unfold memSkipDecNext at hrun
  simp only [Out.bind_eq] at hrun
  obtain ⟨s1, h1, hrun⟩ := out_bind_ok _ _ _ hrun
  have hrel := skipTplAt_rel memBufioxBackend
    (fun (a b : MSkipDec) => RInv a.r a.h → StepOK a.r a.h b.r b.h)
    (fun a hi => StepOK.refl hi)
    (fun a b c hab hbc hi => (hab hi).trans (hbc (hab hi).inv))
    (fun a k b a' hk hi => memBufiox_skipN_ok a k b a' hk hi)
    _ _ _ _ h1 hi
  have hn := next_ok s1.r s1.h (s1.rn : Int) hrel.inv
  generalize s1.r.next s1.h (s1.rn : Int) = res at hrun hn
  obtain ⟨res1, r2, h2⟩ := res
  cases res1 with
  | ok b =>
    have : (Out.ok (b, r2, h2) : TOut (Slice × MRd × Heap)) = Out.ok (s, r', h') := hrun
    injection this with this
    simp only [Prod.mk.injEq] at this
    obtain ⟨rfl, rfl, rfl⟩ := this
    exact ⟨hrel.trans hn.1, (hn.2 b rfl).1⟩
  | fail e =>
    cases e with
    | some e => simp at hrun
    | none =>
      have : (Out.ok (Slice.nil, r2, h2) : TOut (Slice × MRd × Heap)) = Out.ok (s, r', h') := hrun
      injection this with this
      simp only [Prod.mk.injEq] at this
      obtain ⟨rfl, rfl, rfl⟩ := this
      exact ⟨hrel.trans hn.1, fun p h1 h2 => by simp [Slice.nil] at h1 h2⟩
  | nofuel => simp at hrun

/-! ## ReaderSkipDecoder -/

/-- the decoder owns at most one pool buffer, which is live, and has logged no fault -/
structure RsdInv (p : MRsd) : Prop where
  nofault : p.h.faults = []
  n_le : p.n ≤ p.b.len
  len_le : p.b.len ≤ p.b.cap
  buf_ok : 0 < p.b.cap → ∃ x, p.h.obj? p.b.obj = some x ∧ x.owner = .live ∧ p.b.off = 0 ∧ p.b.cap = x.data.length

/-- readerSkip_copy_then_free, one growSlow: the new buffer is a fresh live pool object holding the `n`
    bytes read so far; the old buffer (if any) is freed AFTER the copy and is never touched again in
    this call (no fault); nothing else changes. -/
theorem growSlow_ok (p : MRsd) (k : Nat) (hi : RsdInv p) :
    RsdInv (p.growSlow k) ∧ (p.growSlow k).n = p.n ∧ (p.growSlow k).src = p.src ∧
    p.n + k ≤ (p.growSlow k).b.len ∧ (p.growSlow k).b.obj = p.h.size ∧
    (p.growSlow k).h.bytes (p.growSlow k).b.obj (p.growSlow k).b.off p.n = p.h.bytes p.b.obj p.b.off p.n ∧
    (0 < p.b.cap → ∃ x, (p.growSlow k).h.obj? p.b.obj = some x ∧ x.owner = .freed) := by
  have hn := hi.n_le
  have hl := hi.len_le
  unfold MRsd.growSlow
  simp only []
  obtain ⟨xn, hxn, hxnl, hxnlen⟩ := malloc_new p.h (p.n + k) 0
  have hcapge := (malloc_cap_ge p.h (p.n + k) 0).1
  have hext := extends_malloc p.h (p.n + k) 0
  have has : decide (p.n ≤ p.b.cap) = true := decide_eq_true (by omega)
  rw [has]; simp only [assert_true, malloc_obj, malloc_off, malloc_len]
  have hmin : min (p.n + k) p.n = p.n := by omega
  rw [hmin]
  generalize hh2 : (p.h.malloc (p.n + k) 0).2.copy p.h.size 0 p.b.obj p.b.off p.n = h2
  have hbnd : ∀ x, (p.h.malloc (p.n + k) 0).2.obj? p.h.size = some x → 0 + p.n ≤ x.data.length := by
    intro x hx; rw [hxn] at hx; cases hx; omega
  have hss : SameShape (p.h.malloc (p.n + k) 0).2 h2 := by rw [← hh2]; exact sameShape_copy _ _ _ _ _ _ hbnd
  obtain ⟨xn2, hxn2, ho2, _, hl2⟩ := hss.obj? _ xn hxn
  -- the copy is fault-free and the new buffer holds the old prefix
  have hcopy : h2.faults = [] ∧ h2.bytes p.h.size 0 p.n = p.h.bytes p.b.obj p.b.off p.n ∧
      ∀ o, o ≠ p.h.size → h2.obj? o = (p.h.malloc (p.n + k) 0).2.obj? o := by
    refine ⟨?_, ?_, fun o ho => by rw [← hh2]; exact copy_obj?_ne _ _ _ _ _ _ o ho⟩
    · by_cases h0 : p.n = 0
      · rw [← hh2, h0, copy_zero]; simp [hi.nofault]
      · obtain ⟨xb, hxb, hlive, hoff, hcapl⟩ := hi.buf_ok (by omega)
        rw [← hh2, copy_faults_ok _ _ _ _ _ _ xb xn (hext _ xb hxb) hxn (by omega) (by omega)
          (by rw [hlive]; decide) (by rw [hxnl]; decide) (by rw [hxnl]; intro hc; cases hc)]
        simp [hi.nofault]
    · by_cases h0 : p.n = 0
      · rw [h0]; simp [Heap.bytes]; split <;> (split <;> simp)
      · obtain ⟨xb, hxb, hlive, hoff, hcapl⟩ := hi.buf_ok (by omega)
        rw [← hh2, bytes_copy _ _ _ _ _ _ xb xn (hext _ xb hxb) hxn (by omega) (by omega)]
        apply bytes_congr
        intro q _ _
        exact hext.byte? _ q xb hxb
  obtain ⟨hf2, hbytes, hne2⟩ := hcopy
  by_cases hc0 : p.b.cap = 0
  · -- nothing to free
    rw [free_cap0 h2 p.b hc0]
    refine ⟨⟨hf2, by show p.n ≤ p.n + k; omega, by show p.n + k ≤ _; exact hcapge, fun _ =>
      ⟨xn2, hxn2, by rw [ho2]; exact hxnl, rfl, by rw [hl2]; exact hxnlen.symm⟩⟩, trivial, trivial, Nat.le_refl _, trivial,
      hbytes, fun hpos => by omega⟩
  · obtain ⟨xb, hxb, hlive, hoff, hcapl⟩ := hi.buf_ok (by omega)
    have hblt := obj?_lt p.h _ xb hxb
    have hxb2 : h2.obj? p.b.obj = some xb := by rw [hne2 _ (by omega)]; exact hext _ xb hxb
    obtain ⟨f1, _, _, f4, f5⟩ := free_live h2 p.b xb hxb2 hlive hoff hcapl (by omega)
    refine ⟨⟨by rw [f1]; exact hf2, by show p.n ≤ p.n + k; omega, by show p.n + k ≤ _; exact hcapge, fun _ =>
      ⟨xn2, by show (h2.free p.b).obj? p.h.size = _; rw [f4 _ (by omega)]; exact hxn2, by rw [ho2]; exact hxnl, rfl,
        by rw [hl2]; exact hxnlen.symm⟩⟩, trivial, trivial, Nat.le_refl _, trivial, ?_, fun _ => ⟨_, f5, rfl⟩⟩
    rw [← hbytes]
    apply bytes_congr
    intro q _ _
    unfold Heap.byte?
    show ((h2.free p.b).obj? p.h.size).bind _ = _
    rw [f4 _ (by omega)]

theorem grow_ok_rsd (p : MRsd) (k : Nat) (hi : RsdInv p) :
    RsdInv (p.grow k) ∧ (p.grow k).n = p.n ∧ p.n + k ≤ (p.grow k).b.len := by
  unfold MRsd.grow
  by_cases hg : p.b.len - p.n ≥ k
  · rw [if_pos hg]; have := hi.n_le; exact ⟨hi, rfl, by omega⟩
  · rw [if_neg hg]
    obtain ⟨a, b, _, d, _⟩ := growSlow_ok p k hi
    exact ⟨a, b, d⟩

/-- the ReadFull loop writes inside the window `[base, base + k)` of the decoder's own live buffer -/
theorem rsdReadFull_ok (fuel : Nat) : ∀ (p : MRsd) (base k i : Nat), RsdInv p → i ≤ k →
    p.b.off + p.n ≤ base → base + k ≤ p.b.off + p.b.cap →
    RsdInv (rsdReadFull fuel p base k i).2.2 ∧ (rsdReadFull fuel p base k i).2.2.b = p.b ∧
    (rsdReadFull fuel p base k i).2.2.n = p.n := by
  induction fuel with
  | zero => intro p base k i hi _ _ _; exact ⟨hi, rfl, rfl⟩
  | succ fuel ih =>
    intro p base k i hi hik hb1 hb2
    unfold rsdReadFull
    by_cases hdone : i ≥ k
    · rw [if_pos hdone]; exact ⟨hi, rfl, rfl⟩
    · rw [if_neg hdone]
      simp only []
      generalize hres : p.src.read (k - i) = res
      have hdl : res.1.length ≤ k - i := by rw [← hres]; exact Src.read_len _ _
      have hpos : 0 < p.b.cap := by omega
      obtain ⟨x, hx, hlive, hoff, hcapl⟩ := hi.buf_ok hpos
      have hbnd : ∀ y, p.h.obj? p.b.obj = some y → base + i + res.1.length ≤ y.data.length := by
        intro y hy; rw [hx] at hy; cases hy; omega
      have hss := sameShape_write p.h p.b.obj (base + i) res.1 hbnd
      have hf : (p.h.write p.b.obj (base + i) res.1).faults = [] := by
        rw [write_faults_ok p.h _ _ _ x hx (by omega) (by rw [hlive]; decide) (by rw [hlive]; intro hc; cases hc)]
        exact hi.nofault
      obtain ⟨x', hx', ho', _, hl'⟩ := hss.obj? _ x hx
      have hi1 : RsdInv { p with src := res.2.2, h := p.h.write p.b.obj (base + i) res.1 } :=
        ⟨hf, hi.n_le, hi.len_le, fun _ => ⟨x', hx', by rw [ho']; exact hlive, hoff, by rw [hl']; exact hcapl⟩⟩
      cases he : res.2.1 with
      | some e => exact ⟨hi1, rfl, rfl⟩
      | none =>
        simp only []
        exact ih _ base k (i + res.1.length) hi1 (by omega) hb1 hb2

theorem memReader_skipN_ok (p : MRsd) (k : Nat) (b : Bytes) (p' : MRsd)
    (hrun : memReaderBackend.skipN p k = .ok (b, p')) (hi : RsdInv p) : RsdInv p' := by
  unfold memReaderBackend at hrun
  simp only [] at hrun
  obtain ⟨g1, g2, g3⟩ := grow_ok_rsd p k hi
  generalize p.grow k = p1 at hrun g1 g2 g3
  have hl1 := g1.len_le
  have has : decide (p1.n + k ≤ p1.b.cap) = true := decide_eq_true (by omega)
  rw [has] at hrun; simp only [assert_true] at hrun
  obtain ⟨pb, pn, psrc, ph⟩ := p1
  simp only [] at hrun g1 g2 g3 hl1
  obtain ⟨r1, r2, r3⟩ := rsdReadFull_ok (psrc.script.length + 2) ⟨pb, pn, psrc, ph⟩ (pb.off + pn) k 0 g1 (Nat.zero_le _)
    (Nat.le_refl _) (by show pb.off + pn + k ≤ pb.off + pb.cap; omega)
  simp only [] at r2 r3
  split at hrun
  · simp at hrun
  · simp only [Out.ok.injEq, Prod.mk.injEq] at hrun
    obtain ⟨_, rfl⟩ := hrun
    generalize (rsdReadFull (psrc.script.length + 2) ⟨pb, pn, psrc, ph⟩ (pb.off + pn) k 0).2.2 = q at r1 r2 r3
    have hchk : (q.h.read q.b.obj (q.b.off + q.n) k).2 = q.h := by
      unfold Heap.read; simp only []
      by_cases hk0 : k = 0
      · rw [hk0, chk_zero]
      · obtain ⟨x, hx, hlive, hoff, hcapl⟩ := r1.buf_ok (by rw [r2]; omega)
        exact chk_read_ok _ _ _ _ x hx (by rw [r2, r3]; rw [r2] at hcapl hoff; omega) (by rw [hlive]; decide)
    refine ⟨by show (q.h.read _ _ _).2.faults = []; rw [hchk]; exact r1.nofault,
      by show q.n + k ≤ q.b.len; rw [r2, r3]; omega, r1.len_le, fun hc => ?_⟩
    show ∃ x, (q.h.read _ _ _).2.obj? _ = some x ∧ _
    rw [hchk]; exact r1.buf_ok hc

/-- ReaderSkipDecoder.Next keeps the invariant (whatever the source delivers, however often the buffer
    is reallocated) and returns a slice of the decoder's own live buffer -/
theorem memReaderDecNext_ok (p : MRsd) (t : UInt8) (s : Slice) (p' : MRsd)
    (hrun : memReaderDecNext p t = .ok (s, p')) (hi : RsdInv p) :
    RsdInv p' ∧ s = p'.b.sub 0 p'.n ∧
    (0 < s.len → ∃ x, p'.h.obj? s.obj = some x ∧ x.owner = .live ∧ s.off + s.len ≤ x.data.length) := by
  unfold memReaderDecNext at hrun
  simp only [Out.bind_eq] at hrun
  obtain ⟨p1, h1, hrun⟩ := out_bind_ok _ _ _ hrun
  have hi0 : RsdInv { p with n := 0 } := ⟨hi.nofault, Nat.zero_le _, hi.len_le, hi.buf_ok⟩
  have hrel := skipTplAt_rel memReaderBackend (fun (a b : MRsd) => RsdInv a → RsdInv b)
    (fun a hi => hi) (fun a b c hab hbc hi => hbc (hab hi))
    (fun a k b a' hk hi => memReader_skipN_ok a k b a' hk hi) _ _ _ _ h1 hi0
  have : (Out.ok (p1.b.sub 0 p1.n, { p1 with h := p1.h.assert (decide (p1.n ≤ p1.b.cap)) }) : TOut (Slice × MRsd))
      = Out.ok (s, p') := hrun
  injection this with this
  simp only [Prod.mk.injEq] at this
  obtain ⟨rfl, rfl⟩ := this
  have hn := hrel.n_le
  have hl := hrel.len_le
  have has : decide (p1.n ≤ p1.b.cap) = true := decide_eq_true (by omega)
  rw [has]; simp only [assert_true]
  refine ⟨hrel, trivial, fun hpos => ?_⟩
  have hpn : 0 < p1.n := by simpa [Slice.sub] using hpos
  obtain ⟨x, hx, hlive, hoff, hcapl⟩ := hrel.buf_ok (by omega)
  exact ⟨x, hx, hlive, by simp [Slice.sub]; omega⟩

/-- environment steps between two calls: the decoder's buffer is live, so neither the invariant nor
    the bytes of the slice last returned change -/
theorem RsdInv.env {p : MRsd} {h' : Heap} (hi : RsdInv p) (he : Env p.h h') :
    RsdInv { p with h := h' } ∧ h'.view (p.b.sub 0 p.n) = p.h.view (p.b.sub 0 p.n) := by
  refine ⟨⟨by rw [he.faults]; exact hi.nofault, hi.n_le, hi.len_le, fun hc => ?_⟩, ?_⟩
  · obtain ⟨x, hx, hlive, hoff, hcapl⟩ := hi.buf_ok hc
    obtain ⟨x', hx', ho, _, hl, _⟩ := he.keep _ x hx
    exact ⟨x', hx', by rw [ho]; exact hlive, hoff, by rw [hl]; exact hcapl⟩
  · unfold Heap.view
    apply bytes_congr
    intro q h1 h2
    simp only [Slice.sub] at h1 h2 ⊢
    have hn := hi.n_le
    have hl := hi.len_le
    obtain ⟨x, hx, hlive, _⟩ := hi.buf_ok (by omega)
    exact Heap.Env.byte? he _ q x hx (by rw [hlive]; decide)

theorem RsdInv.init (src : Src) (h : Heap) (hf : h.faults = []) : RsdInv ⟨Slice.nil, 0, src, h⟩ :=
  ⟨hf, Nat.le_refl _, Nat.le_refl _, fun hc => by simp [Slice.nil] at hc⟩

/-- histories of one ReaderSkipDecoder: successful `Next` calls, Release + re-get of the same pooled
    decoder (the buffer is retained, nothing is freed), environment steps.  (A failing `Next` ends the
    modelled history: the error outcome carries no state.) -/
inductive RsdStep : MRsd → MRsd → Prop
  | next (p : MRsd) (t : UInt8) (s : Slice) (p' : MRsd) (hrun : memReaderDecNext p t = .ok (s, p')) : RsdStep p p'
  | release (p : MRsd) : RsdStep p p.release
  | env (p : MRsd) (h' : Heap) (he : Env p.h h') : RsdStep p { p with h := h' }

inductive RsdSteps : MRsd → MRsd → Prop
  | refl (p : MRsd) : RsdSteps p p
  | cons {a b c : MRsd} (s : RsdStep a b) (t : RsdSteps b c) : RsdSteps a c

theorem RsdStep.inv : ∀ {a b : MRsd}, RsdStep a b → RsdInv a → RsdInv b
  | _, _, .next p t s p' hrun, hi => (memReaderDecNext_ok p t s p' hrun hi).1
  | _, _, .release _, hi => ⟨hi.nofault, Nat.zero_le _, hi.len_le, hi.buf_ok⟩
  | _, _, .env _ _ he, hi => (hi.env he).1

theorem RsdSteps.inv {a b : MRsd} (t : RsdSteps a b) (hi : RsdInv a) : RsdInv b := by
  induction t with
  | refl p => exact hi
  | cons s _ ih => exact ih (s.inv hi)

end Verif.Mem

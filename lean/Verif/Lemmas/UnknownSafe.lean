/-
  Lemmas/UnknownSafe: on EVERY byte string the unknown-field reader either fails with an error or succeeds
  with a consumed count inside the slice it was given: no `buf[k:]` can panic, and the fuel of the two
  `for {}` loops never runs out (each iteration consumes ≥ 1 byte), i.e. the Go loops terminate.
-/
import Verif.Lemmas.UnknownBase
import Verif.Lemmas.UnknownEqns
namespace Verif

/-- an error, or success with a consumed count within a slice of length `len` (never panic / oob) -/
def InB {α : Type} (len : Nat) : UOut (α × Nat) → Prop
  | .ok p => p.2 ≤ len
  | .err _ => True
  | _ => False

/-- an error or a success (never panic / oob) -/
def NoPanic {β : Type} : UOut β → Prop
  | .ok _ => True
  | .err _ => True
  | _ => False

theorem NoPanic.safe {β : Type} {x : UOut β} (h : NoPanic x) : x.Safe := by
  cases x <;> simp [NoPanic, Out.Safe] at h ⊢

theorem readElems_inB {α : Type} (rd : Bytes → UInt16 → UOut (α × Nat)) (H : ∀ s i, InB s.length (rd s i))
    (b : Bytes) : ∀ cnt i off, off ≤ b.length → InB b.length (readElems rd cnt i b off)
  | 0, _, _, h => by simpa [readElems, InB] using h
  | cnt+1, i, off, h => by
    simp only [readElems, ufSliceFrom_ok b off h, Out.bind_ok]
    have h1 := H (b.drop off) (UInt16.ofNat i)
    generalize rd (b.drop off) (UInt16.ofNat i) = r at h1
    cases r with
    | ok p =>
      simp only [InB, List.length_drop] at h1
      have h2 := readElems_inB rd H b cnt (i + 1) (off + p.2) (by omega)
      simp only [Out.bind_ok]
      generalize readElems rd cnt (i + 1) b (off + p.2) = r2 at h2
      cases r2 <;> simp_all [InB]
    | err e => simp [InB]
    | panic s => simp [InB] at h1
    | oob => simp [InB] at h1

theorem readKVs_inB {α : Type} (rk rv : Bytes → UInt16 → UOut (α × Nat)) (HK : ∀ s i, InB s.length (rk s i))
    (HV : ∀ s i, InB s.length (rv s i)) (b : Bytes) :
    ∀ cnt i off, off ≤ b.length → InB b.length (ufReadKVs rk rv cnt i b off)
  | 0, _, _, h => by simpa [ufReadKVs, InB] using h
  | cnt+1, i, off, h => by
    simp only [ufReadKVs, ufSliceFrom_ok b off h, Out.bind_ok]
    have h1 := HK (b.drop off) (UInt16.ofNat i)
    generalize rk (b.drop off) (UInt16.ofNat i) = r at h1
    cases r with
    | ok p =>
      simp only [InB, List.length_drop] at h1
      simp only [Out.bind_ok, ufSliceFrom_ok b (off + p.2) (by omega)]
      have h1' := HV (b.drop (off + p.2)) (UInt16.ofNat i)
      generalize rv (b.drop (off + p.2)) (UInt16.ofNat i) = r' at h1'
      cases r' with
      | ok q =>
        simp only [InB, List.length_drop] at h1'
        have h2 := readKVs_inB rk rv HK HV b cnt (i + 1) (off + p.2 + q.2) (by omega)
        simp only [Out.bind_ok]
        generalize ufReadKVs rk rv cnt (i + 1) b (off + p.2 + q.2) = r2 at h2
        cases r2 <;> simp_all [InB]
      | err e => simp [InB]
      | panic s => simp [InB] at h1'
      | oob => simp [InB] at h1'
    | err e => simp [InB]
    | panic s => simp [InB] at h1
    | oob => simp [InB] at h1

/-- ReadFieldBegin: an error, or 1 ≤ l ≤ len(buf) -/
theorem rdFieldBegin_cases (s : Bytes) :
    (∃ e, rdFieldBegin s = .err e) ∨ ∃ t id l, rdFieldBegin s = .ok (t, id, l) ∧ 1 ≤ l ∧ l ≤ s.length := by
  cases s with
  | nil => exact .inl ⟨_, rfl⟩
  | cons t rest =>
    simp only [rdFieldBegin]
    split
    · exact .inr ⟨_, _, _, rfl, by omega, by simp⟩
    · split
      · exact .inl ⟨_, rfl⟩
      · exact .inr ⟨_, _, _, rfl, by omega, by simp; omega⟩

theorem readFields_inB {α : Type} (rd : Bytes → UInt8 → UInt16 → UOut (α × Nat))
    (H : ∀ s t i, InB s.length (rd s t i)) (b : Bytes) :
    ∀ fuel off, off ≤ b.length → b.length - off + 1 ≤ fuel → InB b.length (readFields rd fuel b off)
  | 0, _, _, hf => by omega
  | fuel+1, off, h, hf => by
    simp only [readFields, ufSliceFrom_ok b off h, Out.bind_ok]
    rcases rdFieldBegin_cases (b.drop off) with ⟨e, he⟩ | ⟨t, id, l, hl, h1, h2⟩
    · simp [he, InB]
    · simp only [hl, Out.bind_ok, List.length_drop] at h2 ⊢
      split
      · simp [InB]; omega
      · simp only [ufSliceFrom_ok b (off + l) (by omega), Out.bind_ok]
        have h1' := H (b.drop (off + l)) t id
        generalize rd (b.drop (off + l)) t id = r at h1'
        cases r with
        | ok p =>
          simp only [InB, List.length_drop] at h1'
          have h3 := readFields_inB rd H b fuel (off + l + p.2) (by omega) (by omega)
          simp only [Out.bind_ok]
          generalize readFields rd fuel b (off + l + p.2) = r2 at h3
          cases r2 <;> simp_all [InB]
        | err e => simp [InB]
        | panic s => simp [InB] at h1'
        | oob => simp [InB] at h1'

theorem convertLoop_noPanic {α : Type} (rd : Bytes → UInt8 → UInt16 → UOut (α × Nat))
    (H : ∀ s t i, InB s.length (rd s t i)) (b : Bytes) :
    ∀ fuel off, off ≤ b.length → b.length - off + 1 ≤ fuel → NoPanic (convertLoop rd fuel b off)
  | 0, _, _, hf => by omega
  | fuel+1, off, h, hf => by
    simp only [convertLoop]
    split
    · simp [NoPanic]
    · rename_i hne
      simp only [ufSliceFrom_ok b off h, Out.bind_ok]
      rcases rdFieldBegin_cases (b.drop off) with ⟨e, he⟩ | ⟨t, id, l, hl, h1, h2⟩
      · simp [he, NoPanic]
      · simp only [hl, Out.bind_ok, List.length_drop] at h2 ⊢
        simp only [ufSliceFrom_ok b (off + l) (by omega), Out.bind_ok]
        have h1' := H (b.drop (off + l)) t id
        generalize rd (b.drop (off + l)) t id = r at h1'
        cases r with
        | ok p =>
          simp only [InB, List.length_drop] at h1'
          have h3 := convertLoop_noPanic rd H b fuel (off + l + p.2) (by omega) (by omega)
          simp only [Out.bind_ok]
          generalize convertLoop rd fuel b (off + l + p.2) = r2 at h3
          cases r2 <;> simp_all [NoPanic]
        | err e => simp [NoPanic]
        | panic s => simp [InB] at h1'
        | oob => simp [InB] at h1'

theorem scalarUF_inB {α : Type} (id : UInt16) (t : UInt8) (len : Nat) (r : UOut (UVal α × Nat)) (h : InB len r) :
    InB len (scalarUF id t r) := by
  cases r <;> simp_all [scalarUF, InB]

theorem rdBool_inB {α : Type} (b : Bytes) : InB b.length (rdBool (α := α) b) := by
  cases b <;> simp [rdBool, InB]
theorem rdByte_inB {α : Type} (b : Bytes) : InB b.length (rdByte (α := α) b) := by
  cases b <;> simp [rdByte, InB]
theorem rdI16_inB {α : Type} (b : Bytes) : InB b.length (rdI16 (α := α) b) := by
  simp only [rdI16]; split <;> simp [InB]; omega
theorem rdI32_inB {α : Type} (b : Bytes) : InB b.length (rdI32 (α := α) b) := by
  simp only [rdI32]; split <;> simp [InB]; omega
theorem rdI64_inB {α : Type} (b : Bytes) : InB b.length (rdI64 (α := α) b) := by
  simp only [rdI64]; split <;> simp [InB]; omega
theorem rdDouble_inB {α : Type} (b : Bytes) : InB b.length (rdDouble (α := α) b) := by
  simp only [rdDouble]; split <;> simp [InB]; omega
theorem rdStr_inB {α : Type} (b : Bytes) : InB b.length (rdStr (α := α) b) := by
  simp only [rdStr]; split
  · simp [InB]
  · split
    · simp [InB]
    · split <;> simp [InB]; omega

theorem readListLike_inB {α : Type} (rd : UInt8 → Bytes → UInt16 → UOut (α × Nat))
    (H : ∀ t s i, InB s.length (rd t s i)) (id : UInt16) (t : UInt8) (b : Bytes) :
    InB b.length (readListLike rd id t b) := by
  cases b with
  | nil => simp [readListLike, InB]
  | cons et rest =>
    simp only [readListLike]
    split
    · simp [InB]
    · have h := readElems_inB (rd et) (H et) (et :: rest) (rd32 rest) 0 5 (by simp; omega)
      generalize readElems (rd et) (rd32 rest) 0 (et :: rest) 5 = r at h
      cases r <;> simp_all [InB]

theorem readMapLike_inB {α : Type} (rd : UInt8 → Bytes → UInt16 → UOut (α × Nat))
    (H : ∀ t s i, InB s.length (rd t s i)) (id : UInt16) (t : UInt8) (b : Bytes) :
    InB b.length (readMapLike rd id t b) := by
  match b with
  | [] => simp [readMapLike, InB]
  | [_] => simp [readMapLike, InB]
  | kt :: vt :: rest =>
    simp only [readMapLike]
    split
    · simp [InB]
    · have h := readKVs_inB (rd kt) (rd vt) (H kt) (H vt) (kt :: vt :: rest) (rd32 rest) 0 6 (by simp; omega)
      generalize ufReadKVs (rd kt) (rd vt) (rd32 rest) 0 (kt :: vt :: rest) 6 = r at h
      cases r <;> simp_all [InB]

/-- readUnknownField on every input, every type byte, every depth limit: error, or success within the slice -/
theorem readUF_inB : ∀ (m : Nat) (b : Bytes) (t : UInt8) (id : UInt16), InB b.length (readUF m b t id)
  | 0, _, _, _ => by simp [readUF, InB]
  | m+1, b, t, id => by
    have ih := readUF_inB m
    by_cases hBOOL : t = UT.BOOL
    · rw [readUF_BOOL m b t id hBOOL]; exact scalarUF_inB _ _ _ _ (rdBool_inB b)
    by_cases hBYTE : t = UT.BYTE
    · rw [readUF_BYTE m b t id hBYTE]; exact scalarUF_inB _ _ _ _ (rdByte_inB b)
    by_cases hI16 : t = UT.I16
    · rw [readUF_I16 m b t id hI16]; exact scalarUF_inB _ _ _ _ (rdI16_inB b)
    by_cases hI32 : t = UT.I32
    · rw [readUF_I32 m b t id hI32]; exact scalarUF_inB _ _ _ _ (rdI32_inB b)
    by_cases hI64 : t = UT.I64
    · rw [readUF_I64 m b t id hI64]; exact scalarUF_inB _ _ _ _ (rdI64_inB b)
    by_cases hDOUBLE : t = UT.DOUBLE
    · rw [readUF_DOUBLE m b t id hDOUBLE]; exact scalarUF_inB _ _ _ _ (rdDouble_inB b)
    by_cases hSTRING : t = UT.STRING
    · rw [readUF_STRING m b t id hSTRING]; exact scalarUF_inB _ _ _ _ (rdStr_inB b)
    by_cases hSET : t = UT.SET
    · rw [readUF_SET m b t id hSET]; exact readListLike_inB _ (fun t s i => ih s t i) _ _ _
    by_cases hLIST : t = UT.LIST
    · rw [readUF_LIST m b t id hLIST]; exact readListLike_inB _ (fun t s i => ih s t i) _ _ _
    by_cases hMAP : t = UT.MAP
    · rw [readUF_MAP m b t id hMAP]; exact readMapLike_inB _ (fun t s i => ih s t i) _ _ _
    by_cases hSTRUCT : t = UT.STRUCT
    · rw [readUF_STRUCT m b t id hSTRUCT]
      have h := readFields_inB (fun s ft fid => readUF m s ft fid) (fun s t i => ih s t i) b (b.length + 1) 0
        (by omega) (by omega)
      generalize readFields (fun s ft fid => readUF m s ft fid) (b.length + 1) b 0 = r at h
      cases r <;> simp_all [InB]
    · rw [readUF_unknown m b t id ⟨hBOOL, hBYTE, hI16, hI32, hI64, hDOUBLE, hSTRING, hSET, hLIST, hMAP, hSTRUCT⟩]
      simp [InB]

/-- ConvertUnknownFields with any depth limit never panics and never runs out of loop fuel -/
theorem convertM_noPanic (m : Nat) (b : Bytes) : NoPanic (convertM m b) := by
  simp only [convertM]
  split
  · simp [NoPanic]
  · exact convertLoop_noPanic _ (fun s t i => readUF_inB m s t i) b (b.length + 1) 0 (by omega) (by omega)

end Verif

/-
  Lemmas/ReaderOps: the reader model, part 2: acquire, and the six operations against `remaining`.
-/
import Verif.Lemmas.Reader
namespace Verif

/-- postcondition of `acquire n` -/
structure AcqPost (r : Rd) (n m : Nat) (r' : Rd) : Prop where
  data : ∃ d, r'.buf = r.buf ++ d ∧ r.src.stream = d ++ r'.src.stream
  ri : r'.ri = r.ri
  stats : r'.stats = r.stats
  statsIdx : r'.statsIdx = r.statsIdx
  outcome : (m = n ∧ n ≤ r'.buf.length - r'.ri ∧ r'.err = r.err) ∨
            (m = r'.buf.length - r'.ri ∧ r'.err ≠ none)
  inv : Inv r'

/-- the range in which the MODEL is well behaved: `n + ri ≤ 2^63` (its fuel-64 doubling loops reach
    their targets).  This is a fact about the model only: the Go code panics inside mcache for
    capacity requests above 2^45 and spins for `n > 2^62` — the domain in which the model mirrors the
    code is `Rd.InDomain` (`n + ri ≤ 2^43`, Lemmas/ReaderAlloc.lean), which every Props/C04 theorem
    carries. -/
def Rd.Small (r : Rd) (n : Nat) : Prop := n + r.ri ≤ reqMax

/-- size of the request an operation makes -/
def ROp.size : ROp → Nat
  | .next n | .peek n | .skip n => n.toNat
  | .readBinary n => n
  | _ => 0

theorem acquire_total (r : Rd) (n : Nat) : (r.acquire n).isSome := by
  unfold Rd.acquire
  split
  · rfl
  · unfold Rd.acquireSlow
    split
    · rfl
    · apply readLoop_fuel
      simp only [Nat.sub_zero, Nat.mul_succ]
      omega

theorem acquire_post (r : Rd) (n m : Nat) (r' : Rd) (hinv : Inv r) (hs : r.Small n)
    (h : r.acquire n = some (m, r')) : AcqPost r n m r' := by
  unfold Rd.acquire at h
  split at h
  · rename_i hfast
    simp only [Option.some.injEq, Prod.mk.injEq] at h
    obtain ⟨hm, hr⟩ := h; subst hm hr
    exact ⟨⟨[], by simp, by simp⟩, rfl, rfl, rfl, Or.inl ⟨rfl, hfast, rfl⟩, hinv⟩
  · unfold Rd.acquireSlow at h
    split at h
    · rename_i herr
      simp only [Option.some.injEq, Prod.mk.injEq] at h
      obtain ⟨hm, hr⟩ := h; subst hm hr
      refine ⟨⟨[], by simp, by simp⟩, rfl, rfl, rfl, Or.inr ⟨rfl, ?_⟩, hinv⟩
      intro hnone; rw [hnone] at herr; simp at herr
    · simp only [] at h
      have hp := prepare_spec r n hinv hs
      have hl := readLoop_post _ _ _ _ _ _ h
      obtain ⟨d, hd1, hd2⟩ := hl.data
      refine ⟨⟨d, ?_, ?_⟩, ?_, ?_, ?_, ?_, ?_⟩
      · rw [hd1, hp.buf]
      · rw [← hp.src, hd2]
      · rw [hl.ri, hp.ri]
      · rw [hl.stats, hp.stats]
      · rw [hl.statsIdx, hp.statsIdx]
      · rw [← hp.err]; exact hl.outcome
      · have h1 := hl.len_le hp.len_le
        constructor
        · rw [hl.ri, hp.ri, hd1, hp.buf, List.length_append]; have := hinv.ri_le; omega
        · exact h1
        · rw [hl.cap]; exact hp.cap_le
        · rw [hl.stats, hp.stats]; exact hinv.stats_le

/-- acquire never loses, duplicates or reorders: what the reader still owes is unchanged -/
theorem AcqPost.remaining {r r' : Rd} {n m : Nat} (h : AcqPost r n m r') (hri : r.ri ≤ r.buf.length) :
    r'.remaining = r.remaining := by
  obtain ⟨d, hd1, hd2⟩ := h.data
  unfold Rd.remaining
  rw [h.ri, hd1, hd2, List.drop_append_of_le_length hri, List.append_assoc]

/-- a count below the request comes with a non-nil error -/
theorem AcqPost.short {r r' : Rd} {n m : Nat} (h : AcqPost r n m r') (hlt : n > m) :
    r'.err ≠ none ∧ m = r'.buf.length - r'.ri := by
  rcases h.outcome with ⟨hm, _, _⟩ | ⟨hm, he⟩
  · omega
  · exact ⟨he, hm⟩

/-- a count that covers the request means the bytes are buffered -/
theorem AcqPost.enough {r r' : Rd} {n m : Nat} (h : AcqPost r n m r') (hge : ¬ n > m) :
    n ≤ r'.buf.length - r'.ri := by
  rcases h.outcome with ⟨_, hn, _⟩ | ⟨hm, _⟩ <;> omega

theorem remaining_split (r : Rd) (k : Nat) :
    r.remaining = (r.buf.drop r.ri).take k ++ ({ r with ri := r.ri + k } : Rd).remaining := by
  unfold Rd.remaining
  simp only []
  rw [← List.append_assoc, ← List.drop_drop, List.take_append_drop]

theorem take_length_of_le (r : Rd) (k : Nat) (hk : k ≤ r.buf.length - r.ri) :
    ((r.buf.drop r.ri).take k).length = k := by
  simp only [List.length_take, List.length_drop]; omega

theorem take_eq_remaining_take (r : Rd) (k : Nat) (hk : k ≤ r.buf.length - r.ri) :
    (r.buf.drop r.ri).take k = r.remaining.take k := by
  unfold Rd.remaining
  rw [List.take_append_of_le_length (by simp only [List.length_drop]; omega)]

theorem inv_advance (r : Rd) (k : Nat) (h : Inv r) (hk : k ≤ r.buf.length - r.ri) :
    Inv { r with ri := r.ri + k } := by
  have := h.ri_le
  exact ⟨by simp only []; omega, h.len_le, h.cap_le, h.stats_le⟩

/-! ## Next / Peek / Skip -/

/-- the three outcomes of Next, in one statement -/
theorem next_cases (r : Rd) (n : Int) (hinv : Inv r) (hs : r.Small n.toNat) :
    (n < 0 ∧ r.next n = (.fail (some .negCount), r)) ∨
    (0 ≤ n ∧ ∃ m r1, r.acquire n.toNat = some (m, r1) ∧ AcqPost r n.toNat m r1 ∧
      ((n.toNat > m ∧ r.next n = (.fail r1.err, r1)) ∨
       (¬ n.toNat > m ∧ r.next n = (.ok ((r1.buf.drop r1.ri).take n.toNat),
          { r1 with ri := r1.ri + n.toNat })))) := by
  by_cases hneg : n < 0
  · left; exact ⟨hneg, by simp [Rd.next, hneg]⟩
  · right
    refine ⟨by omega, ?_⟩
    have ht := acquire_total r n.toNat
    generalize hacq : r.acquire n.toNat = a at ht
    cases a with
    | none => simp at ht
    | some p =>
      obtain ⟨m, r1⟩ := p
      refine ⟨m, r1, rfl, acquire_post r _ m r1 hinv hs hacq, ?_⟩
      by_cases hgt : n.toNat > m
      · left; exact ⟨hgt, by simp [Rd.next, hneg, hacq, hgt]⟩
      · right; exact ⟨hgt, by simp [Rd.next, hneg, hacq, hgt]⟩

theorem peek_cases (r : Rd) (n : Int) (hinv : Inv r) (hs : r.Small n.toNat) :
    (n < 0 ∧ r.peek n = (.fail (some .negCount), r)) ∨
    (0 ≤ n ∧ ∃ m r1, r.acquire n.toNat = some (m, r1) ∧ AcqPost r n.toNat m r1 ∧
      ((n.toNat > m ∧ r.peek n = (.fail r1.err, r1)) ∨
       (¬ n.toNat > m ∧ r.peek n = (.ok ((r1.buf.drop r1.ri).take n.toNat), r1)))) := by
  by_cases hneg : n < 0
  · left; exact ⟨hneg, by simp [Rd.peek, hneg]⟩
  · right
    refine ⟨by omega, ?_⟩
    have ht := acquire_total r n.toNat
    generalize hacq : r.acquire n.toNat = a at ht
    cases a with
    | none => simp at ht
    | some p =>
      obtain ⟨m, r1⟩ := p
      refine ⟨m, r1, rfl, acquire_post r _ m r1 hinv hs hacq, ?_⟩
      by_cases hgt : n.toNat > m
      · left; exact ⟨hgt, by simp [Rd.peek, hneg, hacq, hgt]⟩
      · right; exact ⟨hgt, by simp [Rd.peek, hneg, hacq, hgt]⟩

theorem skip_cases (r : Rd) (n : Int) (hinv : Inv r) (hs : r.Small n.toNat) :
    (n < 0 ∧ r.skip n = (.fail (some .negCount), r)) ∨
    (0 ≤ n ∧ ∃ m r1, r.acquire n.toNat = some (m, r1) ∧ AcqPost r n.toNat m r1 ∧
      ((n.toNat > m ∧ r.skip n = (.fail r1.err, r1)) ∨
       (¬ n.toNat > m ∧ r.skip n = (.ok [], { r1 with ri := r1.ri + n.toNat })))) := by
  by_cases hneg : n < 0
  · left; exact ⟨hneg, by simp [Rd.skip, hneg]⟩
  · right
    refine ⟨by omega, ?_⟩
    have ht := acquire_total r n.toNat
    generalize hacq : r.acquire n.toNat = a at ht
    cases a with
    | none => simp at ht
    | some p =>
      obtain ⟨m, r1⟩ := p
      refine ⟨m, r1, rfl, acquire_post r _ m r1 hinv hs hacq, ?_⟩
      by_cases hgt : n.toNat > m
      · left; exact ⟨hgt, by simp [Rd.skip, hneg, hacq, hgt]⟩
      · right; exact ⟨hgt, by simp [Rd.skip, hneg, hacq, hgt]⟩

/-- ReadBinary: the clamp `mc = min m k` -/
theorem readBinary_cases (r : Rd) (k : Nat) (hinv : Inv r) (hs : r.Small k) :
    ∃ m r1, r.acquire k = some (m, r1) ∧ AcqPost r k m r1 ∧
      r.readBinary k = (some ((r1.buf.drop r1.ri).take (min m k), min m k,
                               if k > min m k then r1.err else none),
                        { r1 with ri := r1.ri + min m k }) := by
  have ht := acquire_total r k
  generalize hacq : r.acquire k = a at ht
  cases a with
  | none => simp at ht
  | some p =>
    obtain ⟨m, r1⟩ := p
    refine ⟨m, r1, rfl, acquire_post r _ m r1 hinv hs hacq, ?_⟩
    have hmin : (if m > k then k else m) = min m k := by
      split <;> omega
    simp only [Rd.readBinary, hacq, hmin]

/-! ## Release -/

theorem release_remaining (r : Rd) (hinv : Inv r) : r.release.remaining = r.remaining := by
  have hri := hinv.ri_le
  unfold Rd.release Rd.remaining
  split
  · rename_i h0
    have : r.buf.drop r.ri = [] := by
      apply List.eq_nil_of_length_eq_zero; simp only [List.length_drop]; omega
    simp [this]
  · split <;> simp

theorem release_readLen (r : Rd) : r.release.readLen = 0 := by
  unfold Rd.release Rd.readLen; split
  · rfl
  · split <;> rfl

theorem release_frame (r : Rd) : r.release.err = r.err ∧ r.release.src = r.src := by
  unfold Rd.release; split
  · exact ⟨rfl, rfl⟩
  · split <;> exact ⟨rfl, rfl⟩

theorem listSet_le (l : List Nat) (i v B : Nat) (hl : ∀ s ∈ l, s ≤ B) (hv : v ≤ B) :
    ∀ s ∈ listSet l i v, s ≤ B := by
  intro s hs
  unfold listSet at hs
  rcases List.mem_or_eq_of_mem_set hs with h | h
  · exact hl s h
  · omega

theorem release_inv (r : Rd) (hinv : Inv r) : Inv r.release := by
  have hri := hinv.ri_le; have hlen := hinv.len_le; have hcap := hinv.cap_le
  unfold Rd.release
  split
  · exact ⟨by simp, by simp, by simp, listSet_le _ _ _ _ hinv.stats_le hcap⟩
  · split
    · refine ⟨by simp, ?_, ?_, hinv.stats_le⟩
      · simp only [List.length_drop]; omega
      · simp only []; omega
    · refine ⟨by simp, ?_, hcap, hinv.stats_le⟩
      simp only [List.length_drop]; omega

end Verif

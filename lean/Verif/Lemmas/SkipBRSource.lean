/-
  Lemmas/SkipBRSource: BufferReader.Skip over C04's buffered reader — the wrapped error is the SOURCE's.
  Composes the provenance of Lemmas/SkipBRWrap.lean (every `.wrap se` is the error of the first failing
  Next/Skip call of the reader, every request is within 0…2^35) with C04's provenance of the reader's
  own errors (Lemmas/ReaderProv.lean `step_prov`): `se` is the first error of the source's script
  (io.EOF once the script is exhausted), or io.ErrNoProgress after `maxConsecutiveEmptyReads` quiet reads.
-/
import Verif.Lemmas.SkipBRWrap
import Verif.Lemmas.SkipBRInst
import Verif.Lemmas.ReaderProv
namespace Verif

/-- reader states over a source with script `s0`: C04's invariant with sizes in range, and C04's
    provenance of the reader's error field -/
def SrcInv (s0 : List Resp) (r : Rd) : Prop := RdOK r ∧ Prov s0 r

theorem brReq_le_bigReq : brReq ≤ bigReq := by decide

theorem rdStep_keeps {s0 : List Resp} {r r' : Rd} (h : SrcInv s0 r) (st : RdStep r r') : SrcInv s0 r' := by
  have hP : RdP False r := ⟨h.1, fun f => f.elim⟩
  cases st with
  | @next n b _ hn hx =>
    have hb : n.toNat ≤ bigReq := Nat.le_trans hn.2 brReq_le_bigReq
    have hp := (step_prov s0 r (.next n) h.1.1 (h.1.small n.toNat hb) h.2).1
    have hr' : (r.step (.next n)).2 = r' := by simp [Rd.step, hx]
    rw [hr'] at hp
    rcases (rdc_inst False).next r n hP hn.1 hb with ⟨r1, hx1, _, _, _, hP1⟩ | ⟨e, r1, hx1, _⟩
    · rw [hx] at hx1
      have : r' = r1 := (Prod.mk.inj hx1).2
      subst this
      exact ⟨hP1.1, hp⟩
    · rw [hx] at hx1; cases hx1
  | @nextNil n _ hn hx =>
    have hb : n.toNat ≤ bigReq := Nat.le_trans hn.2 brReq_le_bigReq
    rcases (rdc_inst False).next r n hP hn.1 hb with ⟨r1, hx1, _⟩ | ⟨e, r1, hx1, _⟩
    · rw [hx] at hx1; cases hx1
    · rw [hx] at hx1; cases hx1
  | @skip n b _ hn hx =>
    have hb : n.toNat ≤ bigReq := Nat.le_trans hn.2 brReq_le_bigReq
    have hp := (step_prov s0 r (.skip n) h.1.1 (h.1.small n.toNat hb) h.2).1
    have hr' : (r.step (.skip n)).2 = r' := by simp [Rd.step, hx]
    rw [hr'] at hp
    rcases (rdc_inst False).skip r n hP hn.1 hb with ⟨b1, r1, hx1, _, _, _, hP1⟩ | ⟨e, r1, hx1, _⟩
    · rw [hx] at hx1
      have : r' = r1 := (Prod.mk.inj hx1).2
      subst this
      exact ⟨hP1.1, hp⟩
    · rw [hx] at hx1; cases hx1
  | @skipNil n _ hn hx =>
    have hb : n.toNat ≤ bigReq := Nat.le_trans hn.2 brReq_le_bigReq
    rcases (rdc_inst False).skip r n hP hn.1 hb with ⟨b1, r1, hx1, _⟩ | ⟨e, r1, hx1, _⟩
    · rw [hx] at hx1; cases hx1
    · rw [hx] at hx1; cases hx1

theorem rdReach_keeps {s0 : List Resp} {r r' : Rd} (h : SrcInv s0 r) (hr : RdReach r r') : SrcInv s0 r' := by
  induction hr with
  | refl => exact h
  | step st _ ih => exact ih (rdStep_keeps h st)

/-- the errors the source can hand over: its first scripted error (io.EOF after the script), or
    io.ErrNoProgress when the script has `maxConsecutiveEmptyReads` error-free entries in a row -/
def SrcErrOf (s0 : List Resp) (se : RErr) : Prop :=
  se = firstErr s0 ∨ (se = .noProgress ∧ quietRun Facts.maxConsecutiveEmptyReads s0 0 = true)

theorem rdFails_source {s0 : List Resp} {r : Rd} {se : RErr} (h : SrcInv s0 r) (hf : RdFails r se) :
    SrcErrOf s0 se := by
  obtain ⟨n, r', hn, hx⟩ := hf
  have hb : n.toNat ≤ bigReq := Nat.le_trans hn.2 brReq_le_bigReq
  have hnn : ¬ n < 0 := by have := hn.1; omega
  have conv : ∀ (x : Bool), ((se == firstErr s0 || (se == RErr.noProgress && x)) = true) →
      (se = firstErr s0 ∨ (se = .noProgress ∧ x = true)) := by
    intro x hx
    simpa [Bool.or_eq_true, Bool.and_eq_true, beq_iff_eq] using hx
  rcases hx with hx | hx
  · have := (step_prov s0 r (.next n) h.1.1 (h.1.small n.toNat hb) h.2).2 se (by simp [Rd.step, hx, RdRes.toRes, RRes.err])
    simp only [errAllowed, hnn, if_false] at this
    exact conv _ this
  · have := (step_prov s0 r (.skip n) h.1.1 (h.1.small n.toNat hb) h.2).2 se (by simp [Rd.step, hx, RdRes.toRes, RRes.err])
    simp only [errAllowed, hnn, if_false] at this
    exact conv _ this

/-- every error of BufferReader.Skip over a reader on a source with script `s0`: the source's own error
    wrapped, or a grammar exception -/
theorem skipBR_err_source_any (s0 : List Resp) (r : Rd) (h : SrcInv s0 r) (t : UInt8) (e : TErr)
    (hx : skipBR t r = .err e) :
    (∃ se, e = .wrap se ∧ SrcErrOf s0 se) ∨ e = errNeg ∨ e = errDepth ∨ e = errUnknownType := by
  cases (skipBR_prov t r).2 e hx with
  | wrap hr hf => exact .inl ⟨_, rfl, rdFails_source (rdReach_keeps h hr) hf⟩
  | neg => exact .inr (.inl rfl)
  | depth => exact .inr (.inr (.inl rfl))
  | unknownType => exact .inr (.inr (.inr rfl))

theorem srcInv_newDefault (S : Bytes) (script : List Resp) (hS : S.length ≤ sizeBound) :
    SrcInv script (Rd.newDefault ⟨S, script⟩) := ⟨newDefault_ok S script hS, prov_newDefault S script⟩

theorem srcInv_newBytes (b : Bytes) (cap : Nat) (hcap : b.length ≤ cap) (hcap2 : cap ≤ 18446744073709551616)
    (hb : b.length ≤ sizeBound) : SrcInv [] (Rd.newBytes b cap) :=
  ⟨newBytes_ok b cap hcap hcap2 hb, prov_newBytes b cap⟩

end Verif

/-
  Lemmas/WriterSim: the writer model refines the log spec.
  `WSim w l`: model state w and log l describe the same writer; every operation keeps `WSim` and
  returns the same observable result on both sides (`sim_step`), for every history (`sim_run`).
-/
import Verif.Lemmas.WriterSteps
import Verif.Lemmas.WriterLog
namespace Verif
open WLog

/-- the operations of a history: the four API calls and the caller storing into a region -/
inductive WOp where
  | malloc (n : Int)
  | fill (rid off : Nat) (bs : Bytes)
  | wb (bs : Bytes)
  | flush
  | len
deriving Repr, DecidableEq

/-- what the caller observes from one operation -/
inductive WObs where
  | region (id n : Nat)      -- Malloc returned region number id of length n
  | wrote (n : Nat)          -- WriteBinary returned n
  | done                     -- Flush returned nil / a store happened
  | len (n : Nat)            -- WrittenLen
  | err (e : RErr)
  | stuck (why : String)     -- Go panic / hang (model only; proved unreachable)
deriving Repr, DecidableEq

def obsOfOut {α : Type} (f : α → WObs) : Out RErr α → WObs
  | .ok a => f a
  | .err e => .err e
  | .panic s => .stuck s
  | .oob => .stuck "oob"

def Wr.step (a : WAlloc) (w : Wr) : WOp → WObs × Wr
  | .malloc n => (obsOfOut (fun p => .region p.1 p.2.1) (w.malloc a n).1, (w.malloc a n).2)
  | .fill rid off bs => (.done, (w.fill rid off bs).2)
  | .wb bs => (obsOfOut (fun k => .wrote k) (w.writeBinary a bs).1, (w.writeBinary a bs).2)
  | .flush => (obsOfOut (fun _ => .done) w.flush.1, w.flush.2)
  | .len => (.len w.writtenLen, w)

/-- the log spec as a step function over the same operations (a negative count is answered with
    errNegativeCount and changes nothing, after the sticky-error check) -/
def specStep (l : Log RErr) : WOp → WObs × Log RErr
  | .malloc n =>
    match l.err with
    | some e => (.err e, l)
    | none =>
      if n < 0 then (.err .negCount, l) else
      ((match (l.malloc n.toNat).1 with | .ok id => .region id n.toNat | .error e => .err e),
       (l.malloc n.toNat).2)
  | .fill rid off bs => (.done, l.fill rid off bs)
  | .wb bs =>
    ((match (l.write bs).1 with | .ok k => .wrote k | .error e => .err e), (l.write bs).2)
  | .flush => ((match l.flush.1 with | none => .done | some e => .err e), l.flush.2)
  | .len => (.len l.writtenLen, l)

def Wr.run (a : WAlloc) (w : Wr) : List WOp → List WObs × Wr
  | [] => ([], w)
  | op :: ops => (((w.step a op).1 :: ((w.step a op).2.run a ops).1), ((w.step a op).2.run a ops).2)

def specRun (l : Log RErr) : List WOp → List WObs × Log RErr
  | [] => ([], l)
  | op :: ops => (((specStep l op).1 :: (specRun (specStep l op).2 ops).1), (specRun (specStep l op).2 ops).2)

def regTriple (r : WRegion) : Nat × Nat × Nat := (r.id, r.off, r.n)

structure WSim (w : Wr) (l : Log RErr) : Prop where
  inv : WInv w
  err : l.err = w.err
  content : Match w.logical (concat l.store l.items)
  lay : w.regions.map regTriple = layout 0 l.items
  ids : l.nextId = w.nextRegion
  ids_lt : ∀ t ∈ layout 0 l.items, t.1 < l.nextId
  ids_nodup : ((layout 0 l.items).map (·.1)).Nodup
  store_ok : StoreOK l.store l.items
  wlen : lenSum l.items = w.bufLen
  sunk : Match w.sunk l.emitted
  sink : w.disableCache = false → l.fail = w.sink.fail ∧ l.calls = w.sink.calls.length
  sinkB : w.disableCache = true → ∀ k, l.fail k = none
  nonempty : w.disableCache = false → ∀ v, w.buf = some v → 0 < v.len

/-! ## initial states -/

theorem stats_facts : emptyStats.length = Facts.statsBucketNum ∧ 0 < Facts.statsBucketNum := by
  constructor
  · simp [emptyStats]
  · decide

theorem sim_newDefault (fail : Nat → Option RErr) : WSim (Wr.newDefault fail) (Log.new fail []) := by
  refine ⟨⟨stats_facts.1, stats_facts.2, fun _ => ⟨rfl, ⟨fun r hr => (by cases hr), Nat.le_refl (0 : Nat)⟩⟩,
    fun v h => by simp [Wr.newDefault] at h⟩, rfl, ?_, rfl, rfl, ?_, ?_, ?_, rfl, ?_, fun _ => ⟨rfl, rfl⟩, ?_, ?_⟩
  · simp [Wr.logical, Wr.newDefault, Log.new, concat, Item.content, Match]
  · intro t ht; simp [Log.new, layout] at ht
  · simp [Log.new, layout]
  · intro t ht; simp [Log.new, layout] at ht
  · simp [Wr.sunk, Wr.newDefault, WSink.accepted, Log.new, Match]
  · intro h; simp [Wr.newDefault] at h
  · intro _ v h; simp [Wr.newDefault] at h

theorem sim_newBytesNil : WSim Wr.newBytesNil (Log.new (fun _ => none) []) := by
  refine ⟨⟨stats_facts.1, stats_facts.2, fun _ => ⟨rfl, ⟨fun r hr => (by cases hr), Nat.le_refl (0 : Nat)⟩⟩,
    fun v h => by simp [Wr.newBytesNil, Wr.newDefault] at h⟩, rfl, ?_, rfl, rfl, ?_, ?_, ?_, rfl, ?_, ?_, ?_, ?_⟩
  · simp [Wr.logical, Wr.newBytesNil, Wr.newDefault, Log.new, concat, Item.content, Match]
  · intro t ht; simp [Log.new, layout] at ht
  · simp [Log.new, layout]
  · intro t ht; simp [Log.new, layout] at ht
  · simp [Wr.sunk, Wr.newBytesNil, Wr.newDefault, WSink.accepted, Log.new, Match]
  · intro h; simp [Wr.newBytesNil] at h
  · intro _ k; rfl
  · intro h; simp [Wr.newBytesNil] at h

theorem sim_newBytes (init spare : Bytes) : WSim (Wr.newBytes init spare) (Log.new (fun _ => none) init) := by
  refine ⟨⟨stats_facts.1, stats_facts.2, fun h => by simp [Wr.newBytes] at h, ?_⟩, rfl, ?_, rfl, rfl, ?_, ?_, ?_, ?_, ?_, ?_, ?_, ?_⟩
  · intro v hv
    simp only [Wr.newBytes, Option.some.injEq] at hv
    subst hv
    refine ⟨by simp, by simp [Wr.newBytes], by simp [Wr.newBytes], ?_, ?_, ?_, ?_, ?_, ?_, ?_, ?_⟩ <;>
      simp [Wr.newBytes, Chain, RChain]
  · have : gslice (init ++ spare) 0 init.length = init := by
      unfold gslice; simp
    simp [Wr.logical, Wr.newBytes, logicalFrom, Log.new, concat, Item.content, this, match_map_some]
  · intro t ht; simp [Log.new, layout] at ht
  · simp [Log.new, layout]
  · intro t ht; simp [Log.new, layout] at ht
  · simp [Log.new, lenSum, Item.len, Wr.bufLen, Wr.newBytes]
  · simp [Wr.sunk, Wr.newBytes, WSink.accepted, Log.new, Match]
  · intro h; simp [Wr.newBytes] at h
  · intro _ k; rfl
  · intro h; simp [Wr.newBytes] at h


/-! ## one step -/

theorem sim_len (a : WAlloc) (w : Wr) (l : Log RErr) (h : WSim w l) :
    (w.step a .len).1 = (specStep l .len).1 ∧ WSim (w.step a .len).2 (specStep l .len).2 := by
  refine ⟨?_, h⟩
  simp only [Wr.step, specStep, Wr.writtenLen]
  rw [writtenLen_eq_lenSum, h.wlen]

theorem sim_malloc (a : WAlloc) (ha : a.Sound) (w : Wr) (l : Log RErr) (h : WSim w l) (n : Int) :
    (w.step a (.malloc n)).1 = (specStep l (.malloc n)).1 ∧
    WSim (w.step a (.malloc n)).2 (specStep l (.malloc n)).2 := by
  cases he : w.err with
  | some e =>
    have hle : l.err = some e := by rw [h.err, he]
    simp only [Wr.step, specStep, Wr.malloc, he, hle, obsOfOut]
    exact ⟨trivial, h⟩
  | none =>
    have hle : l.err = none := by rw [h.err, he]
    by_cases hn : n < 0
    · simp only [Wr.step, specStep, Wr.malloc, he, hle, hn, if_true, obsOfOut]
      exact ⟨trivial, h⟩
    · obtain ⟨w2, cap, R, hm, P⟩ := malloc_spec a ha w h.inv he n (by omega)
      simp only [Wr.step, specStep, hm, hle, hn, if_false, obsOfOut, Log.malloc]
      refine ⟨by rw [h.ids], ?_⟩
      obtain ⟨o, hreg⟩ := P.regions
      have hfresh : ∀ t ∈ layout 0 l.items, t.1 ≠ l.nextId := fun t ht => Nat.ne_of_lt (h.ids_lt t ht)
      have hlay : layout 0 (l.items ++ [Item.region l.nextId n.toNat])
          = layout 0 l.items ++ [(l.nextId, lenSum l.items, n.toNat)] := by
        rw [layout_append]; simp [layout]
      refine ⟨P.inv, by rw [P.err, he], ?_, ?_, ?_, ?_, ?_, ?_, ?_, ?_, ?_, ?_, ?_⟩
      all_goals try dsimp only
      · -- content
        rw [P.logical, concat_append]
        apply match_append
        · rw [concat_congr l.store _ l.items (fun t ht => by simp [hfresh t ht])]
          exact h.content
        · simp only [concat, List.map_cons, List.map_nil, Item.content, if_true, List.flatten_cons,
            List.flatten_nil, List.append_nil]
          rw [← P.rlen]; exact match_replicate_none R
      · rw [hreg, hlay, List.map_append, h.lay, h.wlen]
        simp [regTriple, h.ids]
      · rw [P.nextRegion, h.ids]
      · intro t ht
        rw [hlay] at ht
        rcases List.mem_append.mp ht with ht | ht
        · have := h.ids_lt t ht; omega
        · simp only [List.mem_singleton] at ht; subst ht; simp
      · rw [hlay, List.map_append, List.nodup_append]
        refine ⟨h.ids_nodup, by simp, ?_⟩
        intro x hx y hy
        simp only [List.map_cons, List.map_nil, List.mem_singleton] at hy
        subst hy
        obtain ⟨t, ht, rfl⟩ := List.mem_map.mp hx
        exact hfresh t ht
      · intro t ht
        rw [hlay] at ht
        rcases List.mem_append.mp ht with ht | ht
        · simp only [hfresh t ht, if_false]; exact h.store_ok t ht
        · simp only [List.mem_singleton] at ht; subst ht; simp
      · rw [lenSum_append, P.len, h.wlen]; simp [lenSum, Item.len]
      · simp only [Wr.sunk, P.sink]; exact h.sunk
      · intro hd; rw [P.dc] at hd; rw [P.sink]; exact h.sink hd
      · intro hd; rw [P.dc] at hd; exact h.sinkB hd
      · intro hd v2 hv2
        rw [P.dc] at hd
        have hl2 : v2.len = w.bufLen + n.toNat := by rw [← P.len]; simp [Wr.bufLen, hv2]
        rcases P.buf_origin (by rw [hv2]; simp) with hb | hb
        · cases hwb : w.buf with
          | none => exact absurd hwb hb
          | some v => have := h.nonempty hd v hwb; simp [Wr.bufLen, hwb] at hl2; omega
        · omega

theorem sim_wb (a : WAlloc) (ha : a.Sound) (w : Wr) (l : Log RErr) (h : WSim w l) (bs : Bytes) :
    (w.step a (.wb bs)).1 = (specStep l (.wb bs)).1 ∧
    WSim (w.step a (.wb bs)).2 (specStep l (.wb bs)).2 := by
  cases he : w.err with
  | some e =>
    have hle : l.err = some e := by rw [h.err, he]
    simp only [Wr.step, specStep, Wr.writeBinary, he, hle, obsOfOut, Log.write]
    exact ⟨trivial, h⟩
  | none =>
    have hle : l.err = none := by rw [h.err, he]
    obtain ⟨w2, hm, P⟩ := writeBinary_spec a ha w h.inv he bs
    simp only [Wr.step, specStep, hm, hle, obsOfOut, Log.write]
    refine ⟨trivial, ?_⟩
    have hlay : layout 0 (l.items ++ [Item.payload bs]) = layout 0 l.items := by
      rw [layout_append]; simp [layout]
    refine ⟨P.inv, by rw [P.err, he], ?_, ?_, ?_, ?_, ?_, ?_, ?_, ?_, ?_, ?_, ?_⟩
    all_goals try dsimp only
    · rw [P.logical, concat_append]
      apply match_append h.content
      simp only [concat, List.map_cons, List.map_nil, Item.content, List.flatten_cons,
        List.flatten_nil, List.append_nil]
      exact match_map_some bs
    · rw [P.regions, hlay]; exact h.lay
    · rw [P.nextRegion, h.ids]
    · rw [hlay]; exact h.ids_lt
    · rw [hlay]; exact h.ids_nodup
    · intro t ht; rw [hlay] at ht; exact h.store_ok t ht
    · rw [lenSum_append, P.len, h.wlen]; simp [lenSum, Item.len]
    · simp only [Wr.sunk, P.sink]; exact h.sunk
    · intro hd; rw [P.dc] at hd; rw [P.sink]; exact h.sink hd
    · intro hd; rw [P.dc] at hd; exact h.sinkB hd
    · intro hd v2 hv2
      rw [P.dc] at hd
      have hl2 : v2.len = w.bufLen + bs.length := by rw [← P.len]; simp [Wr.bufLen, hv2]
      rcases P.buf_origin (by rw [hv2]; simp) with hb | hb
      · cases hwb : w.buf with
        | none => exact absurd hwb hb
        | some v => have := h.nonempty hd v hwb; simp [Wr.bufLen, hwb] at hl2; omega
      · omega


/-! ## the caller stores into a region -/

theorem mem_layout_of_region {w : Wr} {l : Log RErr} (h : WSim w l) {r : WRegion} (hr : r ∈ w.regions) :
    (r.id, r.off, r.n) ∈ layout 0 l.items := by
  rw [← h.lay]; exact List.mem_map_of_mem (f := regTriple) hr

/-- a store under an id that is not a region of the current epoch is invisible -/
theorem sim_store_irrelevant {w : Wr} {l : Log RErr} (h : WSim w l) (rid : Nat) (x : SBytes)
    (hid : rid ∉ (layout 0 l.items).map (·.1)) :
    WSim w { l with store := fun i => if i = rid then x else l.store i } := by
  have hne : ∀ t ∈ layout 0 l.items, t.1 ≠ rid := fun t ht e => hid (e ▸ List.mem_map_of_mem ht)
  refine ⟨h.inv, h.err, ?_, h.lay, h.ids, h.ids_lt, h.ids_nodup, ?_, h.wlen, h.sunk, h.sink, h.sinkB, h.nonempty⟩
  · dsimp only
    rw [concat_congr l.store _ l.items (fun t ht => by simp [hne t ht])]
    exact h.content
  · intro t ht
    dsimp only
    rw [if_neg (hne t ht)]
    exact h.store_ok t ht

theorem sim_fill (a : WAlloc) (w : Wr) (l : Log RErr) (h : WSim w l) (rid off : Nat) (bs : Bytes) :
    (w.step a (.fill rid off bs)).1 = (specStep l (.fill rid off bs)).1 ∧
    WSim (w.step a (.fill rid off bs)).2 (specStep l (.fill rid off bs)).2 := by
  refine ⟨rfl, ?_⟩
  simp only [Wr.step, specStep]
  rcases fill_spec w h.inv rid off bs with ⟨_, r, hfind, hfit, P⟩ | ⟨_, hsame, hno⟩
  · -- the store happens on both sides
    have hmem : r ∈ w.regions := List.mem_of_find?_eq_some hfind
    have hid : r.id = rid := by simpa using List.find?_some hfind
    have hlm := mem_layout_of_region h hmem
    rw [hid] at hlm
    have hsl : (l.store rid).length = r.n := h.store_ok _ hlm
    have hb := layout_bounds _ _ _ hlm
    have hcl : (concat l.store l.items).length = lenSum l.items := length_concat _ _ h.store_ok
    have hll : w.logical.length = lenSum l.items := by rw [Match.length_eq h.content, hcl]
    simp only at hb
    unfold Log.fill
    rw [if_pos (by rw [hsl]; exact hfit)]
    refine ⟨P.inv, by rw [P.err]; exact h.err, ?_, by rw [P.regions]; exact h.lay, by rw [P.nextRegion]; exact h.ids,
      h.ids_lt, h.ids_nodup, ?_, ?_, ?_, ?_, ?_, ?_⟩
    all_goals try dsimp only
    · rw [P.logical]
      have := concat_fill l.store l.items 0 rid r.off r.n off (bs.map some) hlm h.ids_nodup
        ((storeOK_iff _ _ 0).mp h.store_ok) (by simpa using hfit)
      rw [this]
      simpa using match_overwrite h.content (r.off + off) bs (by rw [hll]; omega)
    · intro t ht
      dsimp only
      split
      · rename_i e
        rw [length_overwrite _ _ _ (by rw [List.length_map, hsl]; exact hfit), ← e]
        exact h.store_ok t ht
      · exact h.store_ok t ht
    · rw [h.wlen]; simp [Wr.bufLen, P.buf]
    · simp only [Wr.sunk, P.sink]; exact h.sunk
    · intro hd; rw [P.dc] at hd; rw [P.sink]; exact h.sink hd
    · intro hd; rw [P.dc] at hd; exact h.sinkB hd
    · intro hd v hv; rw [P.dc] at hd; rw [P.buf] at hv; exact h.nonempty hd v hv
  · -- no store in the model: the region is unknown or the bytes do not fit
    rw [hsame]
    unfold Log.fill
    by_cases hid : rid ∈ (layout 0 l.items).map (·.1)
    · -- a region of this epoch: then the bytes do not fit, and the spec ignores the store too
      obtain ⟨t, ht, e⟩ := List.mem_map.mp hid
      rw [← h.lay] at ht
      obtain ⟨r, hr, e2⟩ := List.mem_map.mp ht
      have hrid : r.id = rid := by rw [← e, ← e2]; rfl
      cases hf : w.regions.find? (fun r => decide (r.id = rid)) with
      | none =>
        have := List.find?_eq_none.mp hf r hr
        simp [hrid] at this
      | some r' =>
        have hr' : r' ∈ w.regions := List.mem_of_find?_eq_some hf
        have hid' : r'.id = rid := by simpa using List.find?_some hf
        have hlm := mem_layout_of_region h hr'
        rw [hid'] at hlm
        have hsl : (l.store rid).length = r'.n := h.store_ok _ hlm
        have := hno r' hf
        rw [if_neg (by rw [hsl]; omega)]
        exact h
    · split
      · exact sim_store_irrelevant h rid _ hid
      · exact h


/-! ## Flush -/

theorem accepted_snoc (calls : List (Bytes × Option RErr)) (fail : Nat → Option RErr) (d : Bytes)
    (r : Option RErr) :
    (WSink.accepted ⟨calls ++ [(d, r)], fail⟩) =
      WSink.accepted ⟨calls, fail⟩ ++ (if r.isNone then [d] else []) := by
  cases r <;> simp [WSink.accepted, List.filter_append]

theorem sunk_flushedOk (w : Wr) (heap1 : Nat → Bytes) (v : WView) (t : Option WView) :
    (w.flushedOk heap1 v t).sunk = w.sunk ++ w.logical := by
  simp [Wr.sunk, Wr.flushedOk, accepted_snoc]

theorem sunk_flushedErr (w : Wr) (heap1 : Nat → Bytes) (e : RErr) :
    (w.flushedErr heap1 e).sunk = w.sunk := by
  simp [Wr.sunk, Wr.flushedErr, accepted_snoc]

/-- WSim after a Flush that emptied the buffer (sink accepted, or nothing to write) -/
theorem sim_flushed {w w' : Wr} {l : Log RErr} (h : WSim w l) (calls' : Nat) (em' : SBytes)
    (hinv : WInv w') (herr : w'.err = w.err) (hbuf : w'.buf = none) (hreg : w'.regions = [])
    (hnr : w'.nextRegion = w.nextRegion) (hdc : w'.disableCache = w.disableCache)
    (hsunk : Match w'.sunk em') (hfail : w'.sink.fail = w.sink.fail)
    (hcalls : w.disableCache = false → calls' = w'.sink.calls.length) :
    WSim w' { l with calls := calls', items := [], emitted := em' } := by
  refine ⟨hinv, by rw [herr]; exact h.err, ?_, by rw [hreg]; rfl, by rw [hnr]; exact h.ids,
    fun t ht => (by cases ht), List.nodup_nil, fun t ht => (by cases ht), ?_, hsunk, ?_, ?_, ?_⟩
  · simp [Wr.logical, hbuf, concat, Match]
  · simp [lenSum, Wr.bufLen, hbuf]
  · intro hd; rw [hdc] at hd
    exact ⟨by rw [hfail]; exact (h.sink hd).1, hcalls hd⟩
  · intro hd; rw [hdc] at hd; exact h.sinkB hd
  · intro _ v hv; rw [hbuf] at hv; cases hv

theorem Log.flush_stuck (l : Log RErr) (e : RErr) (h : l.err = some e) : l.flush = (some e, l) := by
  simp only [Log.flush, h]

theorem Log.flush_zero (l : Log RErr) (h : l.err = none) (hz : l.writtenLen = 0) :
    l.flush = (none, { l with items := [] }) := by
  simp only [Log.flush, h, hz, if_true]

theorem Log.flush_refused (l : Log RErr) (h : l.err = none) (hz : ¬ l.writtenLen = 0) (e : RErr)
    (hf : l.fail (l.calls + 1) = some e) :
    l.flush = (some e, { l with calls := l.calls + 1, err := some e }) := by
  simp only [Log.flush, h, hz, if_false, hf]

theorem Log.flush_accepted (l : Log RErr) (h : l.err = none) (hz : ¬ l.writtenLen = 0)
    (hf : l.fail (l.calls + 1) = none) :
    l.flush = (none, { l with calls := l.calls + 1, items := [], emitted := l.emitted ++ l.unflushed }) := by
  simp only [Log.flush, h, hz, if_false, hf]

theorem sim_flush (a : WAlloc) (w : Wr) (l : Log RErr) (h : WSim w l) :
    (w.step a .flush).1 = (specStep l .flush).1 ∧ WSim (w.step a .flush).2 (specStep l .flush).2 := by
  cases he : w.err with
  | some e =>
    have hle : l.err = some e := by rw [h.err, he]
    simp only [Wr.step, specStep, Wr.flush, he, Log.flush_stuck l e hle, obsOfOut]
    exact ⟨trivial, h⟩
  | none =>
    have hle : l.err = none := by rw [h.err, he]
    have hcl : (concat l.store l.items).length = lenSum l.items := length_concat _ _ h.store_ok
    have hll : w.logical.length = lenSum l.items := by rw [Match.length_eq h.content, hcl]
    cases hb : w.buf with
    | none =>
      have hz : l.writtenLen = 0 := by rw [writtenLen_eq_lenSum, h.wlen]; simp [Wr.bufLen, hb]
      simp only [Wr.step, specStep, flush_nil w he hb, obsOfOut, Log.flush_zero l hle hz]
      refine ⟨trivial, ?_⟩
      exact sim_flushed (w' := { w with regions := [] }) h l.calls l.emitted (flush_nil_inv w h.inv hb)
        rfl hb rfl rfl rfl h.sunk rfl (fun hd => (h.sink hd).2)
    | some v =>
      obtain ⟨heap1, f1, f2, f3, f5, hT, hE, hO⟩ := flush_some w h.inv he v hb
      have hvl : lenSum l.items = v.len := by rw [h.wlen]; simp [Wr.bufLen, hb]
      cases hdc : w.disableCache with
      | true =>
        have hfl := hT hdc
        have hnf : ∀ k, l.fail k = none := h.sinkB hdc
        by_cases hz : l.writtenLen = 0
        · -- empty bytes-writer buffer: the fake sink gets zero bytes
          have hlog : w.logical = [] := List.eq_nil_of_length_eq_zero (by rw [hll, ← writtenLen_eq_lenSum, hz])
          simp only [Wr.step, specStep, hfl, obsOfOut, Log.flush_zero l hle hz]
          refine ⟨trivial, ?_⟩
          exact sim_flushed (w' := w.flushedOk heap1 v (some v)) h l.calls l.emitted
            (flushedOk_inv w h.inv heap1 v _) rfl rfl rfl rfl rfl
            (by rw [sunk_flushedOk, hlog, List.append_nil]; exact h.sunk) rfl
            (fun hd => by rw [hdc] at hd; cases hd)
        · simp only [Wr.step, specStep, hfl, obsOfOut, Log.flush_accepted l hle hz (hnf _)]
          refine ⟨trivial, ?_⟩
          exact sim_flushed (w' := w.flushedOk heap1 v (some v)) h (l.calls + 1) (l.emitted ++ l.unflushed)
            (flushedOk_inv w h.inv heap1 v _) rfl rfl rfl rfl rfl
            (by rw [sunk_flushedOk]; exact match_append h.sunk h.content) rfl
            (fun hd => by rw [hdc] at hd; cases hd)
      | false =>
        have hpos : 0 < v.len := h.nonempty hdc v hb
        have hz : ¬ (l.writtenLen = 0) := by rw [writtenLen_eq_lenSum, hvl]; omega
        obtain ⟨hfe, hce⟩ := h.sink hdc
        cases hf : w.sink.fail (w.sink.calls.length + 1) with
        | some e =>
          have hfl := hE hdc e hf
          have hlf : l.fail (l.calls + 1) = some e := by rw [hfe, hce, hf]
          simp only [Wr.step, specStep, hfl, obsOfOut, Log.flush_refused l hle hz e hlf]
          refine ⟨trivial, ?_⟩
          refine ⟨flushedErr_inv w h.inv heap1 e v hb f1 f2, rfl, ?_, h.lay, h.ids, h.ids_lt, h.ids_nodup,
            h.store_ok, h.wlen, by rw [sunk_flushedErr]; exact h.sunk, ?_, ?_, h.nonempty⟩
          · have : (w.flushedErr heap1 e).logical = w.logical := by
              simp only [Wr.logical, Wr.flushedErr, hb]
              rw [f5]; simp [Wr.logical, hb]
            rw [this]; exact h.content
          · intro _; exact ⟨hfe, by simp [Wr.flushedErr, hce]⟩
          · intro hd; simp [Wr.flushedErr, hdc] at hd
        | none =>
          have hfl := hO hdc hf
          have hlf : l.fail (l.calls + 1) = none := by rw [hfe, hce, hf]
          simp only [Wr.step, specStep, hfl, obsOfOut, Log.flush_accepted l hle hz hlf]
          refine ⟨trivial, ?_⟩
          exact sim_flushed (w' := w.flushedOk heap1 v w.target) h (l.calls + 1) (l.emitted ++ l.unflushed)
            (flushedOk_inv w h.inv heap1 v _) rfl rfl rfl rfl rfl
            (by rw [sunk_flushedOk]; exact match_append h.sunk h.content) rfl
            (fun _ => by simp [Wr.flushedOk, hce])

/-! ## every step, every history -/

theorem sim_step (a : WAlloc) (ha : a.Sound) (w : Wr) (l : Log RErr) (h : WSim w l) (op : WOp) :
    (w.step a op).1 = (specStep l op).1 ∧ WSim (w.step a op).2 (specStep l op).2 := by
  cases op with
  | malloc n => exact sim_malloc a ha w l h n
  | fill rid off bs => exact sim_fill a w l h rid off bs
  | wb bs => exact sim_wb a ha w l h bs
  | flush => exact sim_flush a w l h
  | len => exact sim_len a w l h

theorem sim_run (a : WAlloc) (ha : a.Sound) (w : Wr) (l : Log RErr) (h : WSim w l) (ops : List WOp) :
    (w.run a ops).1 = (specRun l ops).1 ∧ WSim (w.run a ops).2 (specRun l ops).2 := by
  induction ops generalizing w l with
  | nil => exact ⟨rfl, h⟩
  | cons op ops ih =>
    obtain ⟨h1, h2⟩ := sim_step a ha w l h op
    obtain ⟨h3, h4⟩ := ih _ _ h2
    simp only [Wr.run, specRun]
    exact ⟨by rw [h1, h3], h4⟩


/-! ## what a step never touches -/

/-- no operation changes the kind of the writer; only Flush touches the sink, the sticky error and
    the published target -/
theorem step_frame (a : WAlloc) (ha : a.Sound) (w : Wr) (hw : WInv w) (op : WOp) :
    (w.step a op).2.disableCache = w.disableCache ∧
    (op ≠ .flush → (w.step a op).2.target = w.target ∧ (w.step a op).2.err = w.err ∧
      (w.step a op).2.sink = w.sink) := by
  cases op with
  | len => exact ⟨rfl, fun _ => ⟨rfl, rfl, rfl⟩⟩
  | fill rid off bs =>
    simp only [Wr.step]
    rcases fill_spec w hw rid off bs with ⟨_, r, _, _, P⟩ | ⟨_, hsame, _⟩
    · exact ⟨P.dc, fun _ => ⟨P.target, P.err, P.sink⟩⟩
    · rw [hsame]; exact ⟨rfl, fun _ => ⟨rfl, rfl, rfl⟩⟩
  | malloc n =>
    simp only [Wr.step]
    cases he : w.err with
    | some e =>
      have : w.malloc a n = (.err e, w) := by simp [Wr.malloc, he]
      rw [this]; exact ⟨rfl, fun _ => ⟨rfl, he, rfl⟩⟩
    | none =>
      by_cases hn : n < 0
      · have : w.malloc a n = (.err .negCount, w) := by simp [Wr.malloc, he, hn]
        rw [this]; exact ⟨rfl, fun _ => ⟨rfl, he, rfl⟩⟩
      · obtain ⟨w2, cap, R, hm, P⟩ := malloc_spec a ha w hw he n (by omega)
        rw [hm]; exact ⟨P.dc, fun _ => ⟨P.target, by rw [P.err, he], P.sink⟩⟩
  | wb bs =>
    simp only [Wr.step]
    cases he : w.err with
    | some e =>
      have : w.writeBinary a bs = (.err e, w) := by simp [Wr.writeBinary, he]
      rw [this]; exact ⟨rfl, fun _ => ⟨rfl, he, rfl⟩⟩
    | none =>
      obtain ⟨w2, hm, P⟩ := writeBinary_spec a ha w hw he bs
      rw [hm]; exact ⟨P.dc, fun _ => ⟨P.target, by rw [P.err, he], P.sink⟩⟩
  | flush =>
    refine ⟨?_, fun h => absurd rfl h⟩
    simp only [Wr.step]
    cases he : w.err with
    | some e =>
      have : w.flush = (.err e, w) := by simp [Wr.flush, he]
      rw [this]
    | none =>
      cases hb : w.buf with
      | none => rw [flush_nil w he hb]
      | some v =>
        obtain ⟨heap1, _, _, _, _, hT, hE, hO⟩ := flush_some w hw he v hb
        cases hdc : w.disableCache with
        | true => rw [hT hdc]; exact hdc
        | false =>
          cases hf : w.sink.fail (w.sink.calls.length + 1) with
          | some e => rw [hE hdc e hf]; exact hdc
          | none => rw [hO hdc hf]; exact hdc

/-- a bytes writer never gets a sticky error: its sink is fakeIOWriter -/
theorem step_err_bytes (a : WAlloc) (ha : a.Sound) (w : Wr) (hw : WInv w) (hdc : w.disableCache = true)
    (he : w.err = none) (op : WOp) : (w.step a op).2.err = none := by
  by_cases hop : op = .flush
  · subst hop
    simp only [Wr.step]
    cases hb : w.buf with
    | none => rw [flush_nil w he hb]; exact he
    | some v =>
      obtain ⟨heap1, _, _, _, _, hT, _, _⟩ := flush_some w hw he v hb
      rw [hT hdc]; exact he
  · rw [((step_frame a ha w hw op).2 hop).2.1]; exact he


/-! ## flush-free histories (first flush epoch of a bytes writer) -/

/-- flush-free histories only append to the log -/
theorem spec_noflush (l : Log RErr) (ops : List WOp) (hnf : ∀ op ∈ ops, op ≠ .flush) :
    ∃ tail, (specRun l ops).2.items = l.items ++ tail := by
  induction ops generalizing l with
  | nil => exact ⟨[], by simp [specRun]⟩
  | cons op ops ih =>
    have hstep : ∃ t, (specStep l op).2.items = l.items ++ t := by
      cases op with
      | flush => exact absurd rfl (hnf _ (List.mem_cons_self ..))
      | len => exact ⟨[], by simp [specStep]⟩
      | fill rid off bs => refine ⟨[], ?_⟩; simp only [specStep, Log.fill]; split <;> simp
      | wb bs => simp only [specStep, Log.write]; split <;> simp
      | malloc n =>
        simp only [specStep, Log.malloc]
        split
        · exact ⟨[], by simp⟩
        · split
          · exact ⟨[], by simp⟩
          · rename_i he _; simp [he]
    obtain ⟨t, ht⟩ := hstep
    obtain ⟨t2, ht2⟩ := ih (specStep l op).2 (fun o ho => hnf o (List.mem_cons_of_mem _ ho))
    exact ⟨t ++ t2, by simp only [specRun]; rw [ht2, ht, List.append_assoc]⟩

/-- state of a flush-free history of a bytes writer: still a bytes writer, no error, target untouched -/
theorem bytes_noflush (a : WAlloc) (ha : a.Sound) (w : Wr) (l : Log RErr) (h : WSim w l)
    (hdc : w.disableCache = true) (he : w.err = none) (ops : List WOp) (hnf : ∀ op ∈ ops, op ≠ .flush) :
    (w.run a ops).2.disableCache = true ∧ (w.run a ops).2.err = none ∧ (w.run a ops).2.target = w.target := by
  induction ops generalizing w l with
  | nil => exact ⟨hdc, he, rfl⟩
  | cons op ops ih =>
    have hop := hnf op (List.mem_cons_self ..)
    obtain ⟨f1, f2⟩ := step_frame a ha w h.inv op
    obtain ⟨f2, f3, _⟩ := f2 hop
    have h2 := (sim_step a ha w l h op).2
    obtain ⟨i1, i2, i3⟩ := ih _ _ h2 (by rw [f1]; exact hdc) (by rw [f3]; exact he)
      (fun o ho => hnf o (List.mem_cons_of_mem _ ho))
    simp only [Wr.run]
    exact ⟨i1, i2, by rw [i3, f2]⟩



/-! ## bytes writers over whole histories (every flush epoch) -/

/-- a bytes writer stays a bytes writer without a sticky error, through every history -/
theorem bytes_run (a : WAlloc) (ha : a.Sound) (w : Wr) (l : Log RErr) (h : WSim w l)
    (hdc : w.disableCache = true) (he : w.err = none) (ops : List WOp) :
    (w.run a ops).2.disableCache = true ∧ (w.run a ops).2.err = none := by
  induction ops generalizing w l with
  | nil => exact ⟨hdc, he⟩
  | cons op ops ih =>
    have f1 := (step_frame a ha w h.inv op).1
    have f2 := step_err_bytes a ha w h.inv hdc he op
    have h2 := (sim_step a ha w l h op).2
    simp only [Wr.run]
    exact ih _ _ h2 (by rw [f1]; exact hdc) f2

theorem specRun_append (l : Log RErr) (xs ys : List WOp) :
    (specRun l (xs ++ ys)).2 = (specRun (specRun l xs).2 ys).2 := by
  induction xs generalizing l with
  | nil => rfl
  | cons x xs ih => simp only [List.cons_append, specRun]; exact ih _

/-- with a sink that never refuses, Flush always starts the log over -/
theorem Log.flush_items_nil (l : Log RErr) (he : l.err = none) (hf : ∀ k, l.fail k = none) :
    l.flush.2.items = [] := by
  by_cases hz : l.writtenLen = 0
  · rw [Log.flush_zero l he hz]
  · rw [Log.flush_accepted l he hz (hf _)]

end Verif

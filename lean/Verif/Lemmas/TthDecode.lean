/-
  Lemmas/TthDecode: the model's Decode as a whole.
    decodeMeta_eq / decodeInfo_eq   the two halves of Decode on slices of the right length (no panic)
    decodeCur_chain                 Decode over the plain cursor as a chain of checks on the input
    decodeCur_spec                  … which is exactly the reference validity check of Spec/Frame
    decodeBytes_eq_cur              Decode(NewBytesReader(b)) = Decode over the plain cursor (result, ReadLen)
-/
import Verif.Lemmas.TthDec
namespace Verif.TTH
open Verif.Frame (Sec takeStr2 refStrKVs refIntKVs refSecs refValid declared sizeField totalLen numTransforms supported)

theorem and_mask (x : Nat) : x &&& 4294901760 = ((x / 65536) % 65536) * 65536 := by
  have h1 : (x &&& 4294901760) % 2 ^ 16 = 0 := by
    rw [Nat.and_mod_two_pow]; simp
  have h2 : (x &&& 4294901760) >>> 16 = (x / 65536) % 65536 := by
    rw [Nat.shiftRight_and_distrib]
    have : (4294901760 : Nat) >>> 16 = 2 ^ 16 - 1 := by decide
    rw [this, Nat.and_two_pow_sub_one_eq_mod, Nat.shiftRight_eq_div_pow]
  rw [Nat.shiftRight_eq_div_pow] at h2
  have := Nat.div_add_mod (x &&& 4294901760) (2 ^ 16)
  simp only [show (2:Nat)^16 = 65536 from rfl] at *
  omega

theorem rd32_split (l : Bytes) (h : 4 ≤ l.length) : rd32 l = rd16 l * 65536 + rd16 (l.drop 2) := by
  match l, h with
  | a :: c :: d :: e :: r, _ => simp [rd32, rd16]; omega

theorem magic_iff (l : Bytes) (h : 4 ≤ l.length) :
    (rd32 l &&& Facts.ttMagicMask = Facts.ttMagic) ↔ rd16 l = 0x1000 := by
  have h1 := rd16_lt l
  have h2 := rd16_lt (l.drop 2)
  rw [rd32_split l h]
  simp only [Facts.ttMagicMask, Facts.ttMagic, and_mask]
  omega

theorem rd16_take (l : Bytes) (k : Nat) (h : 2 ≤ k) : rd16 (l.take k) = rd16 l := by
  obtain ⟨k, rfl⟩ : ∃ j, k = j + 2 := ⟨k - 2, by omega⟩
  match l with
  | [] => rfl
  | [a] => rfl
  | a :: c :: r => simp [rd16]

theorem rd32_take (l : Bytes) (k : Nat) (h : 4 ≤ k) : rd32 (l.take k) = rd32 l := by
  obtain ⟨k, rfl⟩ : ∃ j, k = j + 4 := ⟨k - 4, by omega⟩
  match l with
  | [] => rfl
  | [a] => rfl
  | [a, c] => rfl
  | [a, c, d] => rfl
  | a :: c :: d :: e :: r => simp [rd32]

theorem rd8_take (l : Bytes) (k : Nat) (h : 1 ≤ k) : rd8 (l.take k) = rd8 l := by
  obtain ⟨k, rfl⟩ : ∃ j, k = j + 1 := ⟨k - 1, by omega⟩
  match l with
  | [] => rfl
  | a :: r => simp [rd8]

/-- Decode between the two Next calls, on a 14-byte slice -/
theorem decodeMeta_eq (hm : Bytes) (h : hm.length = 14) :
    decodeMeta hm =
      if rd16 (hm.drop 4) ≠ 0x1000 then .err .notTTHeader
      else if 4 * rd16 (hm.drop 12) > 65536 ∨ 4 * rd16 (hm.drop 12) < 2 then .err .badSize
      else .ok { total := rd32 hm, flags := rd16 (hm.drop 6), seq := toI32 (rd32 (hm.drop 8)),
                 size := 4 * rd16 (hm.drop 12) } := by
  have hsf := rd16_lt (hm.drop 12)
  have hmag := magic_iff (hm.drop 4) (by simp [h])
  have e1 : rd32 (hm.take 4) = rd32 hm := rd32_take _ _ (by omega)
  have e2 : rd32 ((hm.drop 8).take 4) = rd32 (hm.drop 8) := rd32_take _ _ (by omega)
  have e3 : rd16 ((hm.drop 12).take 2) = rd16 (hm.drop 12) := rd16_take _ _ (by omega)
  have e4 : rd16 (hm.drop 12) * 4 % 4294967296 = 4 * rd16 (hm.drop 12) := by omega
  unfold decodeMeta isTTHeader sliceFrom slice beU32 beU16
  simp only [Facts.ttSize32, Facts.ttSize16, Facts.ttMetaSize, Facts.ttMaxHeaderSize, Facts.ttHeaderSizeBits,
    List.length_drop, List.length_take, List.drop_zero]
  by_cases hm1 : rd16 (hm.drop 4) = 0x1000
  · have : rd32 (hm.drop 4) &&& Facts.ttMagicMask = Facts.ttMagic := hmag.mpr hm1
    simp [this, hm1, e1, e2, e3, e4, h]
  · have : ¬ (rd32 (hm.drop 4) &&& Facts.ttMagicMask = Facts.ttMagic) := fun hh => hm1 (hmag.mp hh)
    simp [this, hm1, h]

theorem transformLoop_ok (info : Bytes) : ∀ (n hd : Nat), hd + n ≤ info.length →
    transformLoop info n hd = .ok (hd + n) := by
  intro n
  induction n with
  | zero => intro hd _; simp [transformLoop]
  | succ n ih =>
    intro hd h
    have hlt : hd < info.length := by omega
    simp only [transformLoop, index, List.getElem?_eq_getElem hlt, Out.bind_ok]
    rw [ih (hd + 1) (by omega)]
    congr 1; omega

theorem checkProtocolID_eq : ∀ p, p < 256 → checkProtocolID p = supported.contains p := by decide +kernel

/-- Decode after the second Next, on a slice of exactly the declared size -/
theorem decodeInfo_eq (m : Meta) (info : Bytes) (hl : info.length = m.size) (h2 : 2 ≤ m.size)
    (hs : m.size ≤ 65536) :
    decodeInfo m info =
      if ¬ supported.contains (rd8 info) then .err .protocol
      else if m.size - 2 < rd8 (info.drop 1) then .err .transforms
      else (readKVInfo info (info.length + 1) (2 + rd8 (info.drop 1)) ⟨none, none⟩).bind fun maps =>
        .ok { flags := m.flags, seq := m.seq, proto := rd8 info, intKV := maps.int, strKV := maps.str,
              headerLen := (m.size : Int) + 14,
              payloadLen := (m.total : Int) + 4 - ((m.size : Int) + 14) } := by
  match info, hl with
  | [], hl => simp at hl; omega
  | [_], hl => simp at hl; omega
  | p0 :: tn :: rest, hl =>
    have hp := checkProtocolID_eq p0.toNat p0.toNat_lt
    simp only [List.length_cons] at hl
    unfold decodeInfo
    simp only [index, List.getElem?_cons_zero, List.getElem?_cons_succ, Out.bind_ok, hp, rd8, List.headD_cons,
      List.drop_succ_cons, List.drop_zero, Facts.ttMetaSize, Facts.ttSize32]
    by_cases hsup : supported.contains p0.toNat
    · simp only [hsup, Bool.not_true, Bool.false_eq_true, if_false, not_true_eq_false]
      by_cases ht : m.size - 2 < tn.toNat
      · have : (m.size : Int) - 2 < (tn.toNat : Int) := by omega
        simp [ht, this]
      · have : ¬ (m.size : Int) - 2 < (tn.toNat : Int) := by omega
        simp only [ht, this, if_false]
        rw [transformLoop_ok _ _ _ (by simp only [List.length_cons]; omega)]
        simp only [Out.bind_ok]
        have e : ((m.size + 14) % 4294967296 : Nat) = m.size + 14 := by omega
        simp only [e]
        push_cast
        rfl
    · have : p0.toNat ∉ supported := by simpa using hsup
      simp [this]

theorem rd16_take_drop (b : Bytes) (n i : Nat) (h : i + 2 ≤ n) : rd16 ((b.take n).drop i) = rd16 (b.drop i) := by
  rw [List.drop_take]; exact rd16_take _ _ (by omega)
theorem rd32_take_drop (b : Bytes) (n i : Nat) (h : i + 4 ≤ n) : rd32 ((b.take n).drop i) = rd32 (b.drop i) := by
  rw [List.drop_take]; exact rd32_take _ _ (by omega)

/-- Decode over the plain cursor, as a chain of checks on the input -/
theorem decodeCur_chain (b : Bytes) :
    decodeCur b =
      if b.length < 14 then (.err (.rd .eof), 0)
      else if rd16 (b.drop 4) ≠ 0x1000 then (.err .notTTHeader, 14)
      else if declared b > 65536 ∨ declared b < 2 then (.err .badSize, 14)
      else if b.length - 14 < declared b then (.err (.rd .eof), 14)
      else (decodeInfo ⟨totalLen b, rd16 (b.drop 6), toI32 (rd32 (b.drop 8)), declared b⟩
              ((b.drop 14).take (declared b)), 14 + declared b) := by
  unfold decodeCur decodeG Cur.next
  simp only [Facts.ttMetaSize, List.drop_zero, Nat.sub_zero, Nat.zero_add,
    show ¬ ((14 : Nat) : Int) < 0 from by omega, if_false, show ((14 : Nat) : Int).toNat = 14 from rfl]
  by_cases h14 : b.length < 14
  · have : ¬ 14 ≤ b.length := by omega
    simp [h14, this, nextBytes]
  · have h14' : 14 ≤ b.length := by omega
    simp only [h14, h14', if_true, if_false, nextBytes, Out.bind_ok]
    have hlen : (b.take 14).length = 14 := by simp; omega
    rw [decodeMeta_eq _ hlen]
    have e4 : rd16 ((b.take 14).drop 4) = rd16 (b.drop 4) := rd16_take_drop _ _ _ (by omega)
    have e6 : rd16 ((b.take 14).drop 6) = rd16 (b.drop 6) := rd16_take_drop _ _ _ (by omega)
    have e8 : rd32 ((b.take 14).drop 8) = rd32 (b.drop 8) := rd32_take_drop _ _ _ (by omega)
    have e12 : rd16 ((b.take 14).drop 12) = rd16 (b.drop 12) := rd16_take_drop _ _ _ (by omega)
    have e0 : rd32 (b.take 14) = rd32 b := rd32_take _ _ (by omega)
    rw [e4, e6, e8, e12, e0]
    by_cases hm : rd16 (b.drop 4) = 0x1000
    · simp only [hm, ne_eq, not_true_eq_false, if_false]
      by_cases hs : declared b > 65536 ∨ declared b < 2
      · have : 4 * rd16 (b.drop 12) > 65536 ∨ 4 * rd16 (b.drop 12) < 2 := hs
        simp [hs, this]
      · have hs' : ¬ (4 * rd16 (b.drop 12) > 65536 ∨ 4 * rd16 (b.drop 12) < 2) := hs
        simp only [hs, hs', if_false]
        have hd : declared b = 4 * rd16 (b.drop 12) := rfl
        have hnn : ¬ (((4 * rd16 (b.drop 12) : Nat) : Int) < 0) := by omega
        simp only [hnn, if_false, Int.toNat_natCast]
        by_cases hc : b.length - 14 < declared b
        · have : ¬ (4 * rd16 (b.drop 12) ≤ b.length - 14) := by omega
          simp [hc, this, nextBytes]
        · have : declared b ≤ b.length - 14 := by omega
          simp only [← hd, hc, this, if_true, if_false, nextBytes, Out.bind_ok, totalLen]
    · simp [hm]

/-- with sufficient fuel the reference parser does not depend on the fuel -/
theorem refSecs_fuel (b : Bytes) (f1 f2 : Nat) (h1 : b.length < f1) (h2 : b.length < f2) :
    refSecs f1 b = refSecs f2 b := by
  cases h : refSecs f1 b with
  | some s => exact ((Frame.refSecs_iff f2 b s h2).mpr ((Frame.refSecs_iff f1 b s h1).mp h)).symm
  | none =>
    cases h' : refSecs f2 b with
    | none => rfl
    | some s =>
      have := (Frame.refSecs_iff f1 b s h1).mpr ((Frame.refSecs_iff f2 b s h2).mp h')
      rw [h] at this; cases this

/-- the parameters a successful Decode reports, read off the input -/
def toParam (b : Bytes) (m : Maps) : DecParam :=
  { flags := rd16 (b.drop 6), seq := toI32 (rd32 (b.drop 8)), proto := rd8 (b.drop 14),
    intKV := m.int, strKV := m.str, headerLen := (declared b : Int) + 14,
    payloadLen := (totalLen b : Int) + 4 - ((declared b : Int) + 14) }

/-- Decode against the reference validity check of the spec -/
theorem decodeCur_spec (b : Bytes) :
    match refValid b with
    | some secs => decodeCur b = (.ok (toParam b (applyMs ⟨none, none⟩ secs)), 14 + declared b)
    | none => ∃ e, (decodeCur b).1 = .err e ∧ e ≠ .nofuel := by
  rw [decodeCur_chain]
  unfold refValid
  by_cases h14 : b.length < 14
  · simp [h14]
  simp only [h14, if_false]
  by_cases hm : rd16 (b.drop 4) = 0x1000
  rotate_left
  · simp [hm]
  simp only [hm, ne_eq, not_true_eq_false, if_false]
  by_cases hs : declared b > 65536 ∨ declared b < 2
  · have : declared b < 2 ∨ declared b > 65536 := hs.symm
    simp [hs, this]
  have hs' : ¬ (declared b < 2 ∨ declared b > 65536) := fun h => hs h.symm
  simp only [hs, hs', if_false]
  by_cases hc : b.length - 14 < declared b
  · have : b.length < 14 + declared b := by omega
    simp [hc, this]
  have hc' : ¬ b.length < 14 + declared b := by omega
  simp only [hc, hc', if_false]
  have hl : ((b.drop 14).take (declared b)).length = declared b := by
    simp only [List.length_take, List.length_drop]; omega
  rw [decodeInfo_eq _ _ hl (by simp only; omega) (by simp only; omega)]
  have e1 : rd8 ((b.drop 14).take (declared b)) = rd8 (b.drop 14) := rd8_take _ _ (by omega)
  have e2 : rd8 (((b.drop 14).take (declared b)).drop 1) = rd8 (b.drop 15) := by
    rw [List.drop_take, List.drop_drop]; exact rd8_take _ _ (by omega)
  rw [e1, e2]
  have hmem : (supported.contains (rd8 (b.drop 14)) = true) = (rd8 (b.drop 14) ∈ supported) := by simp
  simp only [hmem]
  by_cases hp : rd8 (b.drop 14) ∈ supported
  rotate_left
  · simp [hp]
  simp only [hp, not_true_eq_false, if_false]
  have hnt : numTransforms b = rd8 (b.drop 15) := rfl
  by_cases ht : declared b - 2 < rd8 (b.drop 15)
  · have : numTransforms b > declared b - 2 := by omega
    simp [ht, this]
  have ht' : ¬ numTransforms b > declared b - 2 := by omega
  simp only [ht, ht', if_false]
  -- the section loop
  have hk := readKVInfo_ref ((b.drop 14).take (declared b)) (((b.drop 14).take (declared b)).length + 1)
    (2 + rd8 (b.drop 15)) ⟨none, none⟩
  have harea : ((b.drop 14).take (declared b)).drop (2 + rd8 (b.drop 15))
      = (b.drop (16 + numTransforms b)).take (declared b - 2 - numTransforms b) := by
    rw [List.drop_take, List.drop_drop, hnt]
    congr 1
    · omega
    · congr 1; omega
  rw [harea] at hk
  have hfuel := refSecs_fuel ((b.drop (16 + numTransforms b)).take (declared b - 2 - numTransforms b))
    (((b.drop 14).take (declared b)).length + 1)
    (((b.drop (16 + numTransforms b)).take (declared b - 2 - numTransforms b)).length + 1)
    (by simp only [List.length_take, List.length_drop]; omega) (Nat.lt_succ_self _)
  rw [hfuel] at hk
  cases hr : refSecs (((b.drop (16 + numTransforms b)).take (declared b - 2 - numTransforms b)).length + 1)
      ((b.drop (16 + numTransforms b)).take (declared b - 2 - numTransforms b)) with
  | none =>
    rw [hr] at hk
    obtain ⟨e, he, hnf⟩ := hk
    refine ⟨e, by simp only [he]; rfl, hnf ?_⟩
    simp only [List.length_take, List.length_drop]; omega
  | some secs =>
    rw [hr] at hk
    simp only [hk, Out.bind_ok, toParam]

/-! ### the bytes-backed bufiox reader against the plain cursor -/

theorem rd_next_ok (r : Rd) (n : Nat) (h : n ≤ r.buf.length - r.ri) :
    r.next (n : Int) = (.ok ((r.buf.drop r.ri).take n), { r with ri := r.ri + n }) := by
  unfold Rd.next Rd.acquire
  have : ¬ ((n : Int) < 0) := by omega
  simp [this, h]

theorem prepare_fields (r : Rd) (n : Nat) :
    (r.prepare n).src = r.src ∧ (r.prepare n).ri = r.ri ∧ ((r.prepare n).buf = r.buf ∨ (r.prepare n).buf = []) := by
  unfold Rd.prepare
  by_cases hc : r.cap = 0
  · simp only [hc, if_true]
    (repeat' split) <;> simp
  · simp only [hc, if_false]
    (repeat' split) <;> simp

theorem rd_next_fail (r : Rd) (n : Nat) (h : ¬ n ≤ r.buf.length - r.ri) (hs : r.src.script = [])
    (he : r.err = none) : ∃ r', r.next (n : Int) = (.fail (some .eof), r') ∧ r'.ri = r.ri := by
  unfold Rd.next Rd.acquire Rd.acquireSlow
  have h0 : ¬ ((n : Int) < 0) := by omega
  have hm : ¬ (0 ≥ Facts.maxConsecutiveEmptyReads) := by decide
  obtain ⟨hsrc, hri, hbuf'⟩ := prepare_fields r n
  have hbuf : n > (r.prepare n).buf.length - (r.prepare n).ri := by
    rw [hri]
    rcases hbuf' with hb | hb <;> rw [hb] <;> simp <;> omega
  simp only [h0, h, he, if_false, Int.toNat_natCast, Option.isSome_none, Bool.false_eq_true]
  simp only [Rd.readLoop, hm, if_false, Src.read, hsrc, hs, List.append_nil]
  simp only [hbuf, if_true]
  exact ⟨_, rfl, hri⟩

/-- the simulation relation: same bytes, same position, an exhausted source, no sticky error -/
def relRC (r : Rd) (c : Cur) : Prop := r.buf = c.b ∧ r.ri = c.pos ∧ r.src.script = [] ∧ r.err = none

theorem next_sim (r : Rd) (c : Cur) (h : relRC r c) (n : Nat) :
    (r.next (n : Int)).1 = (c.next (n : Int)).1 ∧ (r.next (n : Int)).2.ri = (c.next (n : Int)).2.pos ∧
    (n ≤ c.b.length - c.pos → relRC (r.next (n : Int)).2 (c.next (n : Int)).2) ∧
    (∀ e, (c.next (n : Int)).1 ≠ .fail none ∧ (c.next (n : Int)).1 ≠ .nofuel ∧
      ((c.next (n : Int)).1 = .fail (some e) → ¬ n ≤ c.b.length - c.pos)) := by
  obtain ⟨hb, hp, hs, he⟩ := h
  have h0 : ¬ ((n : Int) < 0) := by omega
  by_cases hn : n ≤ c.b.length - c.pos
  · have hn' : n ≤ r.buf.length - r.ri := by rw [hb, hp]; exact hn
    have hc : c.next (n : Int) = (.ok ((c.b.drop c.pos).take n), { c with pos := c.pos + n }) := by
      unfold Cur.next; simp only [h0, if_false, Int.toNat_natCast, hn, if_true]
    rw [rd_next_ok r n hn', hc]
    refine ⟨by simp only [hb, hp], by simp only [hp], fun _ => ⟨hb, by simp only [hp], hs, he⟩,
      fun e => ⟨by simp, by simp, by simp⟩⟩
  · have hn' : ¬ n ≤ r.buf.length - r.ri := by rw [hb, hp]; exact hn
    obtain ⟨r', e1, e2⟩ := rd_next_fail r n hn' hs he
    have hc : c.next (n : Int) = (.fail (some .eof), c) := by
      unfold Cur.next; simp only [h0, if_false, Int.toNat_natCast, hn]
    rw [e1, hc]
    refine ⟨rfl, by simp only [e2, hp], fun h => absurd h hn, fun e => ⟨by simp, by simp, fun _ => hn⟩⟩

/-- Decode(NewBytesReader(b)) is Decode over the plain cursor: same result, same ReadLen -/
theorem decodeBytes_eq_cur (b : Bytes) (cap : Nat) (hcap : b.length ≤ cap) : decodeBytes b cap = decodeCur b := by
  have hrel : relRC (Rd.newBytes b cap) ⟨b, 0⟩ := by
    unfold Rd.newBytes
    split
    · exact ⟨rfl, rfl, rfl, rfl⟩
    · have : b = [] := by
        have : b.length = 0 := by omega
        exact List.eq_nil_of_length_eq_zero this
      subst this
      exact ⟨rfl, rfl, rfl, rfl⟩
  unfold decodeBytes decodeCur decodeRd decodeG
  have s1 := next_sim _ _ hrel Facts.ttMetaSize
  generalize Rd.next (Rd.newBytes b cap) (Facts.ttMetaSize : Int) = x1 at s1 ⊢
  generalize hc1 : Cur.next ⟨b, 0⟩ (Facts.ttMetaSize : Int) = y1 at s1 ⊢
  obtain ⟨a1, a2, a3, a4⟩ := s1
  simp only [a1]
  cases hm : (nextBytes y1.1).bind decodeMeta with
  | ok m =>
    simp only
    have hok : Facts.ttMetaSize ≤ b.length - 0 := by
      by_cases hle : Facts.ttMetaSize ≤ b.length - 0
      · exact hle
      · exfalso
        have hy : y1.1 = .fail (some .eof) := by
          rw [← hc1]; unfold Cur.next
          have h0 : ¬ ((Facts.ttMetaSize : Nat) : Int) < 0 := by omega
          simp only [h0, if_false, Int.toNat_natCast, hle]
        rw [hy] at hm
        simp [nextBytes] at hm
    have hrel2 := a3 hok
    have s2 := next_sim _ _ hrel2 m.size
    obtain ⟨b1, b2, _, _⟩ := s2
    simp only [b1, Rd.readLen, b2]
  | err e => simp only [Rd.readLen, a2]
  | panic w => simp only [Rd.readLen, a2]
  | oob => simp only [Rd.readLen, a2]

/-- how much Decode consumes: nothing, the 14 meta bytes, or meta + declared size; never more than there is -/
theorem decodeCur_consumed (b : Bytes) :
    (decodeCur b).2 ≤ b.length ∧ (decodeCur b).2 ≤ 14 + declared b := by
  rw [decodeCur_chain]
  by_cases h14 : b.length < 14
  · simp [h14]
  simp only [h14, if_false]
  split
  · simp; omega
  split
  · simp; omega
  split
  · simp; omega
  · rename_i hc; simp only []; omega

/-! ### the model's maps against the spec's maps -/

/-- the ACL-token key of the source (Tie A) is the documented one -/
theorem gdprKey_eq : gdprKey = Frame.aclKey := by decide

/-- ASCII: one byte per character is the UTF-8 encoding Go uses for the constant -/
theorem gdprKey_ascii : Facts.ttGDPRToken.toList.all (fun c => c.toNat < 128) = true := by decide

def pairOf (m : Maps) : Frame.IntMap × Frame.StrMap := (mk m.int, mk m.str)

theorem pairOf_applyM (m : Maps) (s : Sec) : pairOf (applyM m s) = Frame.applySec (pairOf m) s := by
  cases s <;> simp [applyM, Frame.applySec, pairOf, mk, gdprKey_eq]

theorem pairOf_applyMs (secs : List Sec) : ∀ (m : Maps),
    pairOf (applyMs m secs) = Frame.applySecs (pairOf m) secs := by
  induction secs with
  | nil => intro m; rfl
  | cons s t ih =>
    intro m
    simp only [applyMs, Frame.applySecs, List.foldl_cons]
    have := ih (applyM m s)
    simp only [applyMs, Frame.applySecs] at this
    rw [this, pairOf_applyM]

end Verif.TTH

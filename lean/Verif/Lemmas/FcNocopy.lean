/-
  Lemmas/FcNocopy: the generated writers of the three structs as realised segment lists (nil receiver
  included), and what follows for a whole buffer: copy path = printer; no-copy path spliced = printer.
-/
import Verif.Lemmas.FcLen
namespace Verif

def segsBaseO : Option Base → SMap → List Seg
  | none, _ => [.fixed [0]]
  | some p, it => segsBase p it
def segsRespO : Option BaseResp → SMap → List Seg
  | none, _ => [.fixed [0]]
  | some p, it => segsResp p it

theorem encSegs_baseO (p : Option Base) (it : SMap) : encSegs (segsBaseO p it) = encBase p it := by
  cases p with
  | none => rfl
  | some q => exact encSegs_base q it
theorem encSegs_respO (p : Option BaseResp) (it : SMap) : encSegs (segsRespO p it) = encBaseResp p it := by
  cases p with
  | none => rfl
  | some q => exact encSegs_resp q it

/-- (*Base).FastWriteNocopy as a statement sequence realising the struct's segments -/
theorem writeBase_realised (thr : Nat) (w : Bool) (p : Option Base) (it : SMap) :
    ∃ f, Realises thr w f (segsBaseO p it) ∧ ∀ b, fastWriteNocopyBase thr w p it b = f (⟨b, []⟩, 0) := by
  cases p with
  | none => exact ⟨stStop, stStop_realises thr w, fun _ => rfl⟩
  | some q =>
    exact ⟨_, base_realises thr w q it, fun _ => by
      simp only [fastWriteNocopyBase, stHdr_base0, stHdr_base1, stHdr_base2, stExtraH_base]⟩

theorem writeResp_realised (thr : Nat) (w : Bool) (p : Option BaseResp) (it : SMap) :
    ∃ f, Realises thr w f (segsRespO p it) ∧ ∀ b, fastWriteNocopyBaseResp thr w p it b = f (⟨b, []⟩, 0) := by
  cases p with
  | none => exact ⟨stStop, stStop_realises thr w, fun _ => rfl⟩
  | some q =>
    exact ⟨_, resp_realises thr w q it, fun _ => by
      simp only [fastWriteNocopyBaseResp, stHdr_resp0, stHdr_resp1, stExtraH_resp]⟩

/-- everything C11/C15 say about one write of a realised segment list into a buffer that holds it -/
structure WriteFacts (sg : List Seg) (b : Bytes) (res : TOut (WS × Nat)) : Prop where
  ok : ∃ ws n, res = .ok (ws, n) ∧
    (splice ws.buf ws.ds).take (encSegs sg).length = encSegs sg ∧
    (∀ d ∈ ws.ds, d.1.length ≤ d.2) ∧
    n + (ws.ds.map (·.1.length)).sum = (encSegs sg).length ∧
    ws.buf.length = b.length

theorem write_facts (thr : Nat) (w : Bool) (f : WStep) (sg : List Seg) (h : Realises thr w f sg) (b : Bytes)
    (hb : (encSegs sg).length ≤ b.length) : WriteFacts sg b (f (⟨b, []⟩, 0)) := by
  have hle := linSegs_length_le thr w sg
  refine ⟨_, _, realises_run thr w f sg h b (by omega), splice_run thr w sg b hb, ?_, ?_, ?_⟩
  · exact directsOf_room thr w b.length sg 0 (by omega)
  · exact lin_add_directs thr w b.length sg 0
  · simp; omega

/-- without a direct writer: the printer's bytes, then the untouched rest of the buffer; nothing direct -/
theorem write_copy (thr : Nat) (f : WStep) (sg : List Seg) (h : Realises thr false f sg) (b : Bytes)
    (hb : (encSegs sg).length ≤ b.length) :
    f (⟨b, []⟩, 0) = .ok (⟨encSegs sg ++ b.drop (encSegs sg).length, []⟩, (encSegs sg).length) := by
  have := realises_run thr false f sg h b (by rw [linSegs_nil_writer]; exact hb)
  rw [linSegs_nil_writer, directsOf_nil_writer] at this
  exact this

end Verif

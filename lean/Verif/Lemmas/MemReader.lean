/-
  Lemmas/MemReader: the ownership invariant `RInv` of the Mem-level bufiox reader, the protected
  region `Prot` (everything a slice handed out since the last Release may point into), and the step
  lemmas: every non-Release operation and every environment step keeps `RInv`, keeps `Prot` (it only
  grows) and leaves every protected byte unchanged; Release keeps `RInv` and never touches caller memory.
-/
import Verif.Lemmas.MemHeap
import Verif.Model.MemReader
namespace Verif.Mem
open Verif Verif.Heap

/-! ## small facts -/

theorem growCap_ge (f c ri n : Nat) : c ≤ growCap f c ri n := by
  induction f generalizing c with
  | zero => simp [growCap]
  | succ f ih =>
    unfold growCap; split
    · exact Nat.le_trans (by omega) (ih (c * 2))
    · exact Nat.le_refl c

theorem pow2ceilAux_pos (f c n : Nat) (hc : 0 < c) : 0 < pow2ceilAux f c n := by
  induction f generalizing c with
  | zero => simpa [pow2ceilAux] using hc
  | succ f ih => unfold pow2ceilAux; split; exact hc; exact ih _ (by omega)

theorem mcap_pos (c : Nat) : 0 < Heap.mcap c := by
  unfold Heap.mcap; split
  · exact pow2ceilAux_pos _ _ _ (by decide)
  · have : (0:Nat) < 2 ^ 45 := Nat.two_pow_pos 45
    omega

theorem Src.read_len (s : Src) (room : Nat) : (s.read room).1.length ≤ room := by
  unfold Src.read; split
  · simp
  · simp [List.length_take]; omega

theorem Src.read_nil (s : Src) (room : Nat) (hs : s.script = []) :
    (s.read room).1 = [] ∧ (s.read room).2.2 = s := by
  unfold Src.read; rw [hs]; simp

/-! ## the invariant -/

structure RInv (r : MRd) (h : Heap) : Prop where
  nofault : h.faults = []
  ri_le : r.ri ≤ r.buf.len
  len_le : r.buf.len ≤ r.buf.cap
  nil_pend : r.buf.cap = 0 → r.pending = []
  buf_ok : 0 < r.buf.cap → ∃ x, h.obj? r.buf.obj = some x ∧ r.buf.off + r.buf.cap ≤ x.data.length ∧
      (r.readOnly = true → x.owner = .caller) ∧
      (r.readOnly = false → x.owner = .live ∧ r.buf.off = 0 ∧ r.buf.cap = x.data.length)
  ro_src : r.readOnly = true → r.src.script = []
  pend_ok : ∀ s ∈ r.pending, s.obj ≠ r.buf.obj ∧ ∃ x, h.obj? s.obj = some x ∧ x.owner = .live ∧
      s.off = 0 ∧ s.cap = x.data.length ∧ 0 < s.cap
  pend_nodup : (r.pending.map (·.obj)).Nodup

/-- positions a slice handed out since the last Release may point to -/
def Prot (r : MRd) (h : Heap) (o p : Nat) : Prop :=
  (∃ s ∈ r.pending, s.obj = o) ∨
  (0 < r.buf.cap ∧ r.buf.obj = o ∧ p < r.buf.off + r.buf.len) ∨
  (∃ x, h.obj? o = some x ∧ x.owner = .caller)

/-- protected positions stay protected and keep their byte -/
def Frame (r : MRd) (h : Heap) (r' : MRd) (h' : Heap) : Prop :=
  ∀ o p, Prot r h o p → Prot r' h' o p ∧ h'.byte? o p = h.byte? o p

theorem Frame.refl (r : MRd) (h : Heap) : Frame r h r h := fun _ _ hp => ⟨hp, rfl⟩
theorem Frame.trans {r1 r2 r3 : MRd} {h1 h2 h3 : Heap} (a : Frame r1 h1 r2 h2) (b : Frame r2 h2 r3 h3) :
    Frame r1 h1 r3 h3 := fun o p hp =>
  ⟨(b o p (a o p hp).1).1, ((b o p (a o p hp).1).2).trans (a o p hp).2⟩

/-- a protected position belongs to an existing object that is not freed -/
theorem Prot.exists {r : MRd} {h : Heap} (hi : RInv r h) {o p : Nat} (hp : Prot r h o p) :
    ∃ x, h.obj? o = some x ∧ x.owner ≠ .freed := by
  rcases hp with ⟨s, hs, rfl⟩ | ⟨hc, rfl, _⟩ | ⟨x, hx, hc⟩
  · obtain ⟨_, x, hx, hl, _⟩ := hi.pend_ok s hs
    exact ⟨x, hx, by rw [hl]; decide⟩
  · obtain ⟨x, hx, _, hro, hnro⟩ := hi.buf_ok hc
    refine ⟨x, hx, ?_⟩
    cases hr : r.readOnly
    · rw [(hnro hr).1]; decide
    · rw [hro hr]; decide
  · exact ⟨x, hx, by rw [hc]; decide⟩

/-- the invariant only looks at the fault log and at the shape of the objects -/
theorem RInv.of_sameShape {r : MRd} {h h' : Heap} (hi : RInv r h) (hs : SameShape h h')
    (hf : h'.faults = []) : RInv r h' where
  nofault := hf
  ri_le := hi.ri_le
  len_le := hi.len_le
  nil_pend := hi.nil_pend
  buf_ok := fun hc => by
    obtain ⟨x, hx, hb, hro, hnro⟩ := hi.buf_ok hc
    obtain ⟨x', hx', ho, _, hl⟩ := hs.obj? _ x hx
    exact ⟨x', hx', by omega, fun hr => by rw [ho]; exact hro hr,
      fun hr => ⟨by rw [ho]; exact (hnro hr).1, (hnro hr).2.1, by rw [hl]; exact (hnro hr).2.2⟩⟩
  ro_src := hi.ro_src
  pend_ok := fun s hsm => by
    obtain ⟨hne, x, hx, hl, h0, hc, hp⟩ := hi.pend_ok s hsm
    obtain ⟨x', hx', ho, _, hlen⟩ := hs.obj? _ x hx
    exact ⟨hne, x', hx', by rw [ho]; exact hl, h0, by rw [hlen]; exact hc, hp⟩
  pend_nodup := hi.pend_nodup

/-- ... and survives when the heap is only extended -/
theorem RInv.of_extends {r : MRd} {h h' : Heap} (hi : RInv r h) (he : Extends h h')
    (hf : h'.faults = []) : RInv r h' where
  nofault := hf
  ri_le := hi.ri_le
  len_le := hi.len_le
  nil_pend := hi.nil_pend
  buf_ok := fun hc => by
    obtain ⟨x, hx, rest⟩ := hi.buf_ok hc
    exact ⟨x, he _ x hx, rest⟩
  ro_src := hi.ro_src
  pend_ok := fun s hsm => by
    obtain ⟨hne, x, hx, rest⟩ := hi.pend_ok s hsm
    exact ⟨hne, x, he _ x hx, rest⟩
  pend_nodup := hi.pend_nodup

theorem Frame.of_extends {r : MRd} {h h' : Heap} (hi : RInv r h) (he : Extends h h') : Frame r h r h' := by
  intro o p hp
  obtain ⟨x, hx, _⟩ := hp.exists hi
  refine ⟨?_, he.byte? o p x hx⟩
  rcases hp with hp | hp | ⟨y, hy, hc⟩
  · exact Or.inl hp
  · exact Or.inr (Or.inl hp)
  · exact Or.inr (Or.inr ⟨y, he o y hy, hc⟩)

/-- environment steps keep the invariant and the protected bytes -/
theorem RInv.env {r : MRd} {h h' : Heap} (hi : RInv r h) (he : Env h h') : RInv r h' ∧ Frame r h r h' := by
  refine ⟨?_, ?_⟩
  · exact {
      nofault := by rw [he.faults]; exact hi.nofault
      ri_le := hi.ri_le
      len_le := hi.len_le
      nil_pend := hi.nil_pend
      buf_ok := fun hc => by
        obtain ⟨x, hx, hb, hro, hnro⟩ := hi.buf_ok hc
        obtain ⟨x', hx', ho, _, hl, _⟩ := he.keep _ x hx
        exact ⟨x', hx', by omega, fun hr => by rw [ho]; exact hro hr,
          fun hr => ⟨by rw [ho]; exact (hnro hr).1, (hnro hr).2.1, by rw [hl]; exact (hnro hr).2.2⟩⟩
      ro_src := hi.ro_src
      pend_ok := fun s hsm => by
        obtain ⟨hne, x, hx, hl, h0, hc, hp⟩ := hi.pend_ok s hsm
        obtain ⟨x', hx', ho, _, hlen, _⟩ := he.keep _ x hx
        exact ⟨hne, x', hx', by rw [ho]; exact hl, h0, by rw [hlen]; exact hc, hp⟩
      pend_nodup := hi.pend_nodup }
  · intro o p hp
    obtain ⟨x, hx, hnf⟩ := hp.exists hi
    refine ⟨?_, Heap.Env.byte? he o p x hx hnf⟩
    rcases hp with hp | hp | ⟨y, hy, hc⟩
    · exact Or.inl hp
    · exact Or.inr (Or.inl hp)
    · obtain ⟨y', hy', ho, _⟩ := he.keep o y hy
      exact Or.inr (Or.inr ⟨y', hy', by rw [ho]; exact hc⟩)

/-! ## acquireSlow, phase by phase -/

/-- what every phase of `acquire` guarantees -/
structure AcqOK (r : MRd) (h : Heap) (r' : MRd) (h' : Heap) : Prop where
  inv : RInv r' h'
  frame : Frame r h r' h'
  ri : r'.ri = r.ri
  keeps : Keeps h h'
  gckept : GcKept h h'

theorem AcqOK.size {r r' : MRd} {h h' : Heap} (a : AcqOK r h r' h') : h.size ≤ h'.size := a.keeps.size
theorem AcqOK.refl {r : MRd} {h : Heap} (hi : RInv r h) : AcqOK r h r h :=
  ⟨hi, Frame.refl r h, rfl, Keeps.refl _, GcKept.refl _⟩
theorem AcqOK.trans {r1 r2 r3 : MRd} {h1 h2 h3 : Heap} (a : AcqOK r1 h1 r2 h2) (b : AcqOK r2 h2 r3 h3) :
    AcqOK r1 h1 r3 h3 :=
  ⟨b.inv, a.frame.trans b.frame, b.ri.trans a.ri, a.keeps.trans b.keeps, a.gckept.trans b.gckept⟩

theorem firstAlloc_ok (r : MRd) (h : Heap) (n : Nat) (hi : RInv r h) :
    AcqOK r h (r.firstAlloc h n).1 (r.firstAlloc h n).2 ∧ 0 < (r.firstAlloc h n).1.buf.cap := by
  unfold MRd.firstAlloc
  by_cases hc : r.buf.cap = 0
  · rw [if_pos hc]
    simp only []
    generalize hm : doubleUntil 64 (if statsMax r.stats < Facts.defaultBufSize then Facts.defaultBufSize else statsMax r.stats) n = m2
    have hpend : r.pending = [] := hi.nil_pend hc
    have hcap : 0 < (h.malloc 0 m2).1.cap := by rw [malloc_cap]; exact mcap_pos _
    have hri : r.ri = 0 := by have := hi.ri_le; have := hi.len_le; omega
    refine ⟨⟨?_, ?_, rfl, Keeps.of_extends (extends_malloc h 0 m2), GcKept.of_extends (extends_malloc h 0 m2)⟩, hcap⟩
    · exact {
        nofault := by simp [hi.nofault]
        ri_le := by simp; omega
        len_le := by simp
        nil_pend := fun _ => hpend
        buf_ok := fun _ => by
          obtain ⟨x, hx, hl, hlen⟩ := malloc_new h 0 m2
          exact ⟨x, hx, by simp [hlen], fun hr => by simp at hr, fun _ => ⟨hl, rfl, hlen.symm⟩⟩
        ro_src := fun hr => by simp at hr
        pend_ok := fun s hs => by simp [hpend] at hs
        pend_nodup := by simp [hpend] }
    · intro o p hp
      obtain ⟨x, hx, _⟩ := hp.exists hi
      refine ⟨?_, (extends_malloc h 0 m2).byte? o p x hx⟩
      rcases hp with ⟨s, hs, _⟩ | ⟨hc', _⟩ | ⟨y, hy, hcl⟩
      · simp [hpend] at hs
      · omega
      · exact Or.inr (Or.inr ⟨y, extends_malloc h 0 m2 o y hy, hcl⟩)
  · rw [if_neg hc]
    exact ⟨AcqOK.refl hi, by show 0 < r.buf.cap; omega⟩

theorem copy_obj?_ne (h : Heap) (dst dp src sp n o : Nat) (hne : o ≠ dst) :
    (h.copy dst dp src sp n).obj? o = h.obj? o := by
  unfold Heap.copy; rw [write_obj?_ne _ _ _ _ _ hne, chk_obj?]

theorem grow_ok (r : MRd) (h : Heap) (n : Nat) (hi : RInv r h) (hpos : 0 < r.buf.cap) :
    AcqOK r h (r.grow h n).1 (r.grow h n).2 := by
  unfold MRd.grow
  by_cases hg : n > r.buf.cap - r.ri
  · rw [if_pos hg]
    simp only []
    generalize hnc : growCap 64 (r.buf.cap * 2) r.ri n = ncap
    have hncge : r.buf.cap * 2 ≤ ncap := by rw [← hnc]; exact growCap_ge _ _ _ _
    obtain ⟨xb, hxb, hbb, hro, hnro⟩ := hi.buf_ok hpos
    have hri := hi.ri_le
    have hlen := hi.len_le
    -- the new object
    obtain ⟨xn, hxn, hxnl, hxnlen⟩ := malloc_new h ncap 0
    have hcapge : ncap ≤ (h.malloc ncap 0).1.cap := (malloc_cap_ge h ncap 0).1
    have hext : Extends h (h.malloc ncap 0).2 := extends_malloc h ncap 0
    have hbufLt : r.buf.obj < h.size := obj?_lt h _ xb hxb
    have hxbf : xb.owner ≠ .freed := by
      cases hr : r.readOnly
      · rw [(hnro hr).1]; decide
      · rw [hro hr]; decide
    -- the two asserts before the copy hold
    have ha1 : decide (r.ri ≤ (h.malloc ncap 0).1.len) = true :=
      decide_eq_true (by rw [malloc_len]; omega)
    have ha2 : decide (r.ri ≤ r.buf.len) = true := decide_eq_true (by omega)
    rw [ha1, ha2]; simp only [assert_true]
    have hcn : min ((h.malloc ncap 0).1.len - r.ri) (r.buf.len - r.ri) = r.buf.len - r.ri := by
      simp; omega
    rw [hcn]
    have ha3 : decide (r.ri + (r.buf.len - r.ri) ≤ (h.malloc ncap 0).1.cap) = true :=
      decide_eq_true (by omega)
    rw [ha3]; simp only [assert_true]
    simp only [malloc_obj, malloc_off, Nat.zero_add]
    generalize hh2 : (h.malloc ncap 0).2.copy h.size r.ri r.buf.obj (r.buf.off + r.ri) (r.buf.len - r.ri) = h2
    have hf2 : h2.faults = [] := by
      rw [← hh2, copy_faults_ok _ _ _ _ _ _ xb xn (hext _ xb hxb) hxn (by omega) (by omega) hxbf
        (by rw [hxnl]; decide) (by rw [hxnl]; intro hc; cases hc)]
      simp [hi.nofault]
    have hold : ∀ o, o < h.size → h2.obj? o = h.obj? o := by
      intro o ho
      rw [← hh2, copy_obj?_ne _ _ _ _ _ _ _ (by omega)]
      cases hx : h.obj? o with
      | some x => exact hext o x hx
      | none => have := List.getElem?_eq_none_iff.mp hx; unfold Heap.size at ho; omega
    have hnew : ∃ x, h2.obj? h.size = some x ∧ x.owner = .live ∧ x.data.length = (h.malloc ncap 0).1.cap := by
      have hss := sameShape_copy (h.malloc ncap 0).2 h.size r.ri r.buf.obj (r.buf.off + r.ri) (r.buf.len - r.ri)
        (fun x hx => by rw [hxn] at hx; cases hx; omega)
      rw [hh2] at hss
      obtain ⟨x', hx', ho, _, hl⟩ := hss.obj? _ xn hxn
      exact ⟨x', hx', by rw [ho]; exact hxnl, by rw [hl]; exact hxnlen⟩
    have hsz : h2.size = h.size + 1 := by
      have hss := sameShape_copy (h.malloc ncap 0).2 h.size r.ri r.buf.obj (r.buf.off + r.ri) (r.buf.len - r.ri)
        (fun x hx => by rw [hxn] at hx; cases hx; omega)
      rw [hh2] at hss; rw [hss.size]; simp
    refine ⟨?_, ?_, rfl, fun o x hx => ⟨x, by rw [hold _ (obj?_lt h o x hx)]; exact hx, rfl, rfl, rfl⟩,
      fun o x hx _ => by rw [hold _ (obj?_lt h o x hx)]; exact hx⟩
    · exact {
        nofault := hf2
        ri_le := by simp
        len_le := by simp; omega
        nil_pend := fun hc => by simp at hc; omega
        buf_ok := fun _ => by
          obtain ⟨x, hx, hl, hlen'⟩ := hnew
          exact ⟨x, hx, by simp; omega, fun hr => by simp at hr, fun _ => ⟨hl, rfl, by simp; omega⟩⟩
        ro_src := fun hr => by simp at hr
        pend_ok := fun s hs => by
          simp only [] at hs
          have hs' : s ∈ r.pending ∨ (r.readOnly = false ∧ s = r.buf) := by
            cases hr : r.readOnly
            · rw [hr] at hs; simp at hs; rcases hs with hs | hs
              · exact Or.inl hs
              · exact Or.inr ⟨rfl, hs⟩
            · rw [hr] at hs; simp at hs; exact Or.inl hs
          rcases hs' with hs' | ⟨hr, rfl⟩
          · obtain ⟨_, x, hx, rest⟩ := hi.pend_ok s hs'
            have hlt := obj?_lt h _ x hx
            exact ⟨by simp; omega, x, by rw [hold _ hlt]; exact hx, rest⟩
          · exact ⟨by simp; omega, xb, by rw [hold _ hbufLt]; exact hxb, (hnro hr).1, (hnro hr).2.1,
              (hnro hr).2.2, hpos⟩
        pend_nodup := by
          simp only []
          cases hr : r.readOnly
          · simp only [Bool.false_eq_true, if_false, List.map_append, List.map_cons, List.map_nil]
            rw [List.nodup_append]
            refine ⟨hi.pend_nodup, by simp, ?_⟩
            intro a ha b hb
            simp at hb; subst hb
            simp at ha
            obtain ⟨s, hs, rfl⟩ := ha
            exact (hi.pend_ok s hs).1
          · simp; exact hi.pend_nodup }
    · intro o p hp
      obtain ⟨x, hx, _⟩ := hp.exists hi
      have hlt := obj?_lt h o x hx
      refine ⟨?_, ?_⟩
      · rcases hp with ⟨s, hs, hso⟩ | ⟨_, hbo, _⟩ | ⟨y, hy, hcl⟩
        · refine Or.inl ⟨s, ?_, hso⟩
          simp only []
          cases r.readOnly <;> simp [hs]
        · cases hr : r.readOnly
          · refine Or.inl ⟨r.buf, ?_, hbo⟩
            simp
          · refine Or.inr (Or.inr ⟨xb, ?_, hro hr⟩)
            rw [← hbo, hold _ hbufLt]; exact hxb
        · exact Or.inr (Or.inr ⟨y, by rw [hold _ hlt]; exact hy, hcl⟩)
      · unfold Heap.byte?; rw [hold _ hlt]
  · rw [if_neg hg]
    exact AcqOK.refl hi

theorem prepare_ok (r : MRd) (h : Heap) (n : Nat) (hi : RInv r h) :
    AcqOK r h (r.prepare h n).1 (r.prepare h n).2 := by
  unfold MRd.prepare
  obtain ⟨a, hpos⟩ := firstAlloc_ok r h n hi
  exact a.trans (grow_ok _ _ n a.inv hpos)

theorem readLoop_ok (fuel : Nat) : ∀ (i : Nat) (r : MRd) (h : Heap) (n m : Nat) (r' : MRd) (h' : Heap),
    RInv r h → MRd.readLoop fuel i r h n = some (m, r', h') →
    AcqOK r h r' h' ∧ m ≤ r'.buf.len - r'.ri := by
  induction fuel with
  | zero => intro i r h n m r' h' _ hrun; simp [MRd.readLoop] at hrun
  | succ fuel ih =>
    intro i r h n m r' h' hi hrun
    unfold MRd.readLoop at hrun
    by_cases hmax : i ≥ Facts.maxConsecutiveEmptyReads
    · rw [if_pos hmax] at hrun
      simp only [Option.some.injEq, Prod.mk.injEq] at hrun
      obtain ⟨rfl, rfl, rfl⟩ := hrun
      exact ⟨⟨⟨hi.nofault, hi.ri_le, hi.len_le, hi.nil_pend, hi.buf_ok, hi.ro_src, hi.pend_ok, hi.pend_nodup⟩,
        fun o p hp => ⟨hp, rfl⟩, rfl, Keeps.refl _, GcKept.refl _⟩, Nat.le_refl _⟩
    · rw [if_neg hmax] at hrun
      simp only [] at hrun
      generalize hres : r.src.read (r.buf.cap - r.buf.len) = res at hrun
      have hdl : res.1.length ≤ r.buf.cap - r.buf.len := by rw [← hres]; exact Src.read_len _ _
      generalize hh1 : h.write r.buf.obj (r.buf.off + r.buf.len) res.1 = h1 at hrun
      -- the state after this Read
      have hstep : AcqOK r h { r with buf := { r.buf with len := r.buf.len + res.1.length }, src := res.2.2 } h1 := by
        have hri := hi.ri_le
        have hlen := hi.len_le
        by_cases hd : res.1 = []
        · -- nothing delivered: the heap is unchanged
          have : h1 = h := by rw [← hh1, hd]; simp
          subst this
          have hro' : r.readOnly = true → res.2.2.script = [] := fun hr => by
            rw [← hres, (Src.read_nil _ _ (hi.ro_src hr)).2]; exact hi.ro_src hr
          refine ⟨⟨hi.nofault, by simp [hd]; omega, by simp [hd]; omega, hi.nil_pend, ?_, hro', hi.pend_ok,
            hi.pend_nodup⟩, ?_, rfl, Keeps.refl _, GcKept.refl _⟩
          · simpa using hi.buf_ok
          · intro o p hp; refine ⟨?_, rfl⟩
            rcases hp with hp | ⟨a, b, c⟩ | hp
            · exact Or.inl hp
            · exact Or.inr (Or.inl ⟨a, b, by simp; omega⟩)
            · exact Or.inr (Or.inr hp)
        · -- something delivered: the reader is not read-only and its buffer is a live pool object
          have hdpos : 0 < res.1.length := List.length_pos_iff.mpr hd
          have hnro : r.readOnly = false := by
            cases hr : r.readOnly
            · rfl
            · exfalso; apply hd; rw [← hres]; exact (Src.read_nil _ _ (hi.ro_src hr)).1
          have hpos : 0 < r.buf.cap := by omega
          obtain ⟨xb, hxb, hbb, _, hl⟩ := hi.buf_ok hpos
          obtain ⟨hlive, hoff, hcapl⟩ := hl hnro
          have hbnd : ∀ x, h.obj? r.buf.obj = some x → r.buf.off + r.buf.len + res.1.length ≤ x.data.length := by
            intro x hx; rw [hxb] at hx; cases hx; omega
          have hss : SameShape h h1 := by rw [← hh1]; exact sameShape_write h _ _ _ hbnd
          have hf1 : h1.faults = [] := by
            rw [← hh1, write_faults_ok h _ _ _ xb hxb (by omega) (by rw [hlive]; decide)
              (by rw [hlive]; intro hc; cases hc)]
            exact hi.nofault
          have hinv := hi.of_sameShape hss hf1
          refine ⟨⟨hf1, by simp; omega, by simp; omega, hinv.nil_pend, ?_, fun hr => by simp [hnro] at hr,
            hinv.pend_ok, hinv.pend_nodup⟩, ?_, rfl, Keeps.of_sameShape hss, fun o x hx hg => by
              rw [← hh1, write_obj?_ne h _ _ _ o (by
                intro heq; subst heq; rw [hxb] at hx; cases hx; rw [hlive] at hg; cases hg)]
              exact hx⟩
          · simpa using hinv.buf_ok
          · intro o p hp
            refine ⟨?_, ?_⟩
            · rcases hp with hp | ⟨a, b, c⟩ | ⟨y, hy, hcl⟩
              · exact Or.inl hp
              · exact Or.inr (Or.inl ⟨a, b, by simp; omega⟩)
              · obtain ⟨y', hy', ho, _⟩ := hss.obj? o y hy
                exact Or.inr (Or.inr ⟨y', hy', by rw [ho]; exact hcl⟩)
            · rw [← hh1]
              apply byte?_write_out h _ _ _ o p hbnd
              rcases hp with ⟨s, hs, rfl⟩ | ⟨_, rfl, hlt⟩ | ⟨y, hy, hcl⟩
              · exact Or.inl (hi.pend_ok s hs).1
              · exact Or.inr (Or.inl hlt)
              · left; intro heq; subst heq
                rw [hxb] at hy; cases hy; rw [hlive] at hcl; cases hcl
      cases he : res.2.1 with
      | some e =>
        rw [he] at hrun
        simp only [Option.some.injEq, Prod.mk.injEq] at hrun
        obtain ⟨rfl, rfl, rfl⟩ := hrun
        exact ⟨⟨⟨hstep.inv.nofault, hstep.inv.ri_le, hstep.inv.len_le, hstep.inv.nil_pend, hstep.inv.buf_ok,
          hstep.inv.ro_src, hstep.inv.pend_ok, hstep.inv.pend_nodup⟩, hstep.frame, hstep.ri, hstep.keeps,
          hstep.gckept⟩,
          Nat.le_refl _⟩
      | none =>
        rw [he] at hrun
        simp only [] at hrun
        by_cases hn : n ≤ r.buf.len + res.1.length - r.ri
        · rw [if_pos hn] at hrun
          simp only [Option.some.injEq, Prod.mk.injEq] at hrun
          obtain ⟨rfl, rfl, rfl⟩ := hrun
          exact ⟨hstep, hn⟩
        · rw [if_neg hn] at hrun
          by_cases hprog : res.1.length > 0
          · rw [if_pos hprog] at hrun
            obtain ⟨a, b⟩ := ih _ _ _ _ _ _ _ hstep.inv hrun
            exact ⟨hstep.trans a, b⟩
          · rw [if_neg hprog] at hrun
            obtain ⟨a, b⟩ := ih _ _ _ _ _ _ _ hstep.inv hrun
            exact ⟨hstep.trans a, b⟩

theorem acquire_ok (r : MRd) (h : Heap) (n m : Nat) (r' : MRd) (h' : Heap) (hi : RInv r h)
    (hrun : r.acquire h n = some (m, r', h')) : AcqOK r h r' h' ∧ m ≤ r'.buf.len - r'.ri := by
  unfold MRd.acquire at hrun
  by_cases hfast : n ≤ r.buf.len - r.ri
  · rw [if_pos hfast] at hrun
    simp only [Option.some.injEq, Prod.mk.injEq] at hrun
    obtain ⟨rfl, rfl, rfl⟩ := hrun
    exact ⟨AcqOK.refl hi, hfast⟩
  · rw [if_neg hfast] at hrun
    unfold MRd.acquireSlow at hrun
    by_cases herr : r.err.isSome
    · rw [if_pos herr] at hrun
      simp only [Option.some.injEq, Prod.mk.injEq] at hrun
      obtain ⟨rfl, rfl, rfl⟩ := hrun
      exact ⟨AcqOK.refl hi, Nat.le_refl _⟩
    · rw [if_neg herr] at hrun
      simp only [] at hrun
      have hp := prepare_ok r h n hi
      obtain ⟨a, b⟩ := readLoop_ok _ _ _ _ _ _ _ _ hp.inv hrun
      exact ⟨hp.trans a, b⟩

/-! ## the operations -/

/-- what every non-Release operation guarantees -/
structure StepOK (r : MRd) (h : Heap) (r' : MRd) (h' : Heap) : Prop where
  inv : RInv r' h'
  frame : Frame r h r' h'
  keeps : Keeps h h'

theorem StepOK.refl {r : MRd} {h : Heap} (hi : RInv r h) : StepOK r h r h :=
  ⟨hi, Frame.refl r h, Keeps.refl _⟩
theorem StepOK.trans {r1 r2 r3 : MRd} {h1 h2 h3 : Heap} (a : StepOK r1 h1 r2 h2) (b : StepOK r2 h2 r3 h3) :
    StepOK r1 h1 r3 h3 := ⟨b.inv, a.frame.trans b.frame, a.keeps.trans b.keeps⟩
theorem AcqOK.step {r r' : MRd} {h h' : Heap} (a : AcqOK r h r' h') : StepOK r h r' h' :=
  ⟨a.inv, a.frame, a.keeps⟩

/-- the slice lies in the protected region -/
def InProt (r : MRd) (h : Heap) (s : Slice) : Prop := ∀ p, s.off ≤ p → p < s.off + s.len → Prot r h s.obj p

/-- moving the read index keeps the invariant and the protected region -/
theorem advance_ok (r : MRd) (h : Heap) (k : Nat) (hi : RInv r h) (hk : r.ri + k ≤ r.buf.len) :
    StepOK r h { r with ri := r.ri + k } h :=
  ⟨⟨hi.nofault, hk, hi.len_le, hi.nil_pend, hi.buf_ok, hi.ro_src, hi.pend_ok, hi.pend_nodup⟩,
   fun _ _ hp => ⟨hp, rfl⟩, Keeps.refl _⟩

theorem sub_inProt (r : MRd) (h : Heap) (k : Nat) (hk : r.ri + k ≤ r.buf.len) (hlen : r.buf.len ≤ r.buf.cap)
    (ri' : Nat) : InProt { r with ri := ri' } h (r.buf.sub r.ri (r.ri + k)) := by
  intro p hp1 hp2
  simp only [Slice.sub] at hp1 hp2 ⊢
  exact Or.inr (Or.inl ⟨by show 0 < r.buf.cap; omega, rfl, by show p < r.buf.off + r.buf.len; omega⟩)

/-- a source the library may read: inside an existing object that has not been recycled -/
def Readable (h : Heap) (bs : Slice) : Prop :=
  ∃ x, h.obj? bs.obj = some x ∧ bs.off + bs.len ≤ x.data.length ∧ x.owner ≠ .freed

theorem sub_readable (r : MRd) (h : Heap) (k : Nat) (hi : RInv r h) (hk : r.ri + k ≤ r.buf.len) (hpos : 0 < k) :
    Readable h (r.buf.sub r.ri (r.ri + k)) := by
  have hlen := hi.len_le
  obtain ⟨x, hx, hb, hro, hnro⟩ := hi.buf_ok (by omega)
  refine ⟨x, hx, by simp [Slice.sub]; omega, ?_⟩
  cases hr : r.readOnly
  · rw [(hnro hr).1]; decide
  · rw [hro hr]; decide

theorem next_ok (r : MRd) (h : Heap) (n : Int) (hi : RInv r h) :
    StepOK r h (r.next h n).2.1 (r.next h n).2.2 ∧
    (∀ s, (r.next h n).1 = .ok s → InProt (r.next h n).2.1 (r.next h n).2.2 s ∧ s.len = n.toNat ∧
      (0 < s.len → Readable (r.next h n).2.2 s)) := by
  unfold MRd.next
  by_cases hneg : n < 0
  · rw [if_pos hneg]; exact ⟨StepOK.refl hi, fun s hs => by simp at hs⟩
  · rw [if_neg hneg]
    generalize n.toNat = k
    cases hacq : r.acquire h k with
    | none => exact ⟨StepOK.refl hi, fun s hs => by simp at hs⟩
    | some res =>
      obtain ⟨m, r1, h1⟩ := res
      obtain ⟨a, hm⟩ := acquire_ok r h _ m r1 h1 hi hacq
      simp only []
      by_cases hshort : k > m
      · rw [if_pos hshort]; exact ⟨a.step, fun s hs => by simp at hs⟩
      · rw [if_neg hshort]
        have hri := a.inv.ri_le
        have hlen := a.inv.len_le
        have has : decide (r1.ri + k ≤ r1.buf.cap) = true := decide_eq_true (by omega)
        rw [has]; simp only [assert_true]
        refine ⟨a.step.trans (advance_ok r1 h1 k a.inv (by omega)), ?_⟩
        intro s hs
        simp only [MRes.ok.injEq] at hs
        subst hs
        exact ⟨sub_inProt r1 h1 k (by omega) hlen _, by simp [Slice.sub], fun hpos =>
          sub_readable r1 h1 k a.inv (by omega) (by simpa [Slice.sub] using hpos)⟩

theorem peek_ok (r : MRd) (h : Heap) (n : Int) (hi : RInv r h) :
    StepOK r h (r.peek h n).2.1 (r.peek h n).2.2 ∧
    (∀ s, (r.peek h n).1 = .ok s → InProt (r.peek h n).2.1 (r.peek h n).2.2 s ∧ s.len = n.toNat ∧
      (0 < s.len → Readable (r.peek h n).2.2 s)) := by
  unfold MRd.peek
  by_cases hneg : n < 0
  · rw [if_pos hneg]; exact ⟨StepOK.refl hi, fun s hs => by simp at hs⟩
  · rw [if_neg hneg]
    generalize n.toNat = k
    cases hacq : r.acquire h k with
    | none => exact ⟨StepOK.refl hi, fun s hs => by simp at hs⟩
    | some res =>
      obtain ⟨m, r1, h1⟩ := res
      obtain ⟨a, hm⟩ := acquire_ok r h _ m r1 h1 hi hacq
      simp only []
      by_cases hshort : k > m
      · rw [if_pos hshort]; exact ⟨a.step, fun s hs => by simp at hs⟩
      · rw [if_neg hshort]
        have hri := a.inv.ri_le
        have hlen := a.inv.len_le
        have has : decide (r1.ri + k ≤ r1.buf.cap) = true := decide_eq_true (by omega)
        rw [has]; simp only [assert_true]
        refine ⟨a.step, ?_⟩
        intro s hs
        simp only [MRes.ok.injEq] at hs
        subst hs
        exact ⟨sub_inProt r1 h1 k (by omega) hlen r1.ri, by simp [Slice.sub], fun hpos =>
          sub_readable r1 h1 k a.inv (by omega) (by simpa [Slice.sub] using hpos)⟩

theorem skip_ok (r : MRd) (h : Heap) (n : Int) (hi : RInv r h) :
    StepOK r h (r.skip h n).2.1 (r.skip h n).2.2 := by
  unfold MRd.skip
  by_cases hneg : n < 0
  · rw [if_pos hneg]; exact StepOK.refl hi
  · rw [if_neg hneg]
    generalize n.toNat = k
    cases hacq : r.acquire h k with
    | none => exact StepOK.refl hi
    | some res =>
      obtain ⟨m, r1, h1⟩ := res
      obtain ⟨a, hm⟩ := acquire_ok r h _ m r1 h1 hi hacq
      simp only []
      by_cases hshort : k > m
      · rw [if_pos hshort]; exact a.step
      · rw [if_neg hshort]
        have hri := a.inv.ri_le
        exact a.step.trans (advance_ok r1 h1 k a.inv (by omega))

/-- a destination the library may write: a slice of a Go-heap object -/
def GcDst (h : Heap) (bs : Slice) : Prop :=
  ∃ x, h.obj? bs.obj = some x ∧ x.owner = .gc ∧ bs.off + bs.len ≤ x.data.length

theorem prot_not_gc {r : MRd} {h : Heap} (hi : RInv r h) {o p : Nat} (hp : Prot r h o p) (x : Obj)
    (hx : h.obj? o = some x) : x.owner ≠ .gc := by
  rcases hp with ⟨s, hs, rfl⟩ | ⟨hc, rfl, _⟩ | ⟨y, hy, hcl⟩
  · obtain ⟨_, y, hy, hl, _⟩ := hi.pend_ok s hs
    rw [hx] at hy; cases hy; rw [hl]; decide
  · obtain ⟨y, hy, _, hro, hnro⟩ := hi.buf_ok hc
    rw [hx] at hy; cases hy
    cases hr : r.readOnly
    · rw [(hnro hr).1]; decide
    · rw [hro hr]; decide
  · rw [hx] at hy; cases hy; rw [hcl]; decide

theorem readBinary_ok (r : MRd) (h : Heap) (bs : Slice) (hi : RInv r h) (hbs : GcDst h bs) :
    StepOK r h (r.readBinary h bs).2.1 (r.readBinary h bs).2.2 := by
  unfold MRd.readBinary
  cases hacq : r.acquire h bs.len with
  | none => exact StepOK.refl hi
  | some res =>
    obtain ⟨m0, r1, h1⟩ := res
    obtain ⟨a, hm⟩ := acquire_ok r h _ m0 r1 h1 hi hacq
    simp only []
    generalize hmdef : (if m0 > bs.len then bs.len else m0) = m
    have hm1 : m ≤ bs.len ∧ m ≤ m0 := by rw [← hmdef]; split <;> omega
    have hri := a.inv.ri_le
    have hlen := a.inv.len_le
    have has : decide (r1.ri + m ≤ r1.buf.cap) = true := decide_eq_true (by omega)
    rw [has]; simp only [assert_true]
    have hmin : min bs.len m = m := by omega
    rw [hmin]
    obtain ⟨xd, hxd, hgc, hbd⟩ := hbs
    obtain ⟨xd1, hxd1, ho1, _, hl1⟩ := a.keeps _ xd hxd
    refine a.step.trans ?_
    by_cases hm0 : m = 0
    · subst hm0
      rw [copy_zero]
      exact advance_ok r1 h1 0 a.inv (by omega)
    · -- the source is the reader's buffer
      have hpos : 0 < r1.buf.cap := by omega
      obtain ⟨xb, hxb, hbb, hro, hnro⟩ := a.inv.buf_ok hpos
      have hxbf : xb.owner ≠ .freed := by
        cases hr : r1.readOnly
        · rw [(hnro hr).1]; decide
        · rw [hro hr]; decide
      have hbnd : ∀ x, h1.obj? bs.obj = some x → bs.off + m ≤ x.data.length := by
        intro x hx; rw [hxd1] at hx; cases hx; omega
      have hss := sameShape_copy h1 bs.obj bs.off r1.buf.obj (r1.buf.off + r1.ri) m hbnd
      have hf : (h1.copy bs.obj bs.off r1.buf.obj (r1.buf.off + r1.ri) m).faults = [] := by
        rw [copy_faults_ok h1 _ _ _ _ _ xb xd1 hxb hxd1 (by omega) (by omega) hxbf
          (by rw [ho1, hgc]; decide) (by rw [ho1, hgc]; intro hc; cases hc)]
        exact a.inv.nofault
      have hinv := a.inv.of_sameShape hss hf
      refine ⟨⟨hf, by show r1.ri + m ≤ r1.buf.len; omega, hinv.len_le, hinv.nil_pend, hinv.buf_ok,
        hinv.ro_src, hinv.pend_ok, hinv.pend_nodup⟩, ?_, Keeps.of_sameShape hss⟩
      intro o p hp
      refine ⟨?_, ?_⟩
      · rcases hp with hp | hp | ⟨y, hy, hcl⟩
        · exact Or.inl hp
        · exact Or.inr (Or.inl hp)
        · obtain ⟨y', hy', ho, _⟩ := hss.obj? o y hy
          exact Or.inr (Or.inr ⟨y', hy', by rw [ho]; exact hcl⟩)
      · apply byte?_copy_out h1 _ _ _ _ _ o p hbnd
        left; intro heq; subst heq
        exact prot_not_gc a.inv hp xd1 hxd1 (by rw [ho1]; exact hgc)

/-! ## Release -/

/-- objects that are not live pool buffers (caller memory, Go-heap objects, buffers already recycled)
    are left exactly as they were -/
def NonLiveKept (h h' : Heap) : Prop := ∀ o x, h.obj? o = some x → x.owner ≠ .live → h'.obj? o = some x

theorem release_ok (r : MRd) (h : Heap) (hi : RInv r h) :
    RInv (r.release h).1 (r.release h).2 ∧ NonLiveKept h (r.release h).2 ∧
    (r.release h).2.size = h.size := by
  have hpl : ∀ s ∈ r.pending, ∃ x, h.obj? s.obj = some x ∧ x.owner = .live ∧ s.off = 0 ∧
      s.cap = x.data.length ∧ 0 < s.cap := fun s hs => (hi.pend_ok s hs).2
  obtain ⟨g1, g2, g3, g4⟩ := freeAll_ok r.pending h hpl hi.pend_nodup
  have hbufSame : (h.freeAll r.pending).obj? r.buf.obj = h.obj? r.buf.obj :=
    g3 _ (fun s hs => (hi.pend_ok s hs).1)
  have hnl1 : NonLiveKept h (h.freeAll r.pending) := by
    intro o x hx hnl
    rw [g3 o]; exact hx
    intro s hs heq
    obtain ⟨_, y, hy, hl, _⟩ := hi.pend_ok s hs
    rw [heq, hx] at hy; cases hy; exact hnl hl
  have hf1 : (h.freeAll r.pending).faults = [] := by rw [g1]; exact hi.nofault
  have hri := hi.ri_le
  have hlen := hi.len_le
  unfold MRd.release
  simp only []
  by_cases hdrained : r.buf.len - r.ri = 0
  · rw [if_pos hdrained]
    simp only []
    by_cases hfree : (!r.readOnly) = true ∧ r.buf.cap > 0
    · rw [if_pos hfree]
      have hnro : r.readOnly = false := by simpa using hfree.1
      obtain ⟨xb, hxb, _, _, hl⟩ := hi.buf_ok hfree.2
      obtain ⟨hlive, hoff, hcapl⟩ := hl hnro
      obtain ⟨f1, _, f3, f4, _⟩ := free_live (h.freeAll r.pending) r.buf xb (by rw [hbufSame]; exact hxb)
        hlive hoff hcapl hfree.2
      refine ⟨⟨by rw [f1]; exact hf1, Nat.le_refl _, Nat.le_refl _, fun _ => rfl, fun hc => by
          simp [Slice.nil] at hc, hi.ro_src, fun s hs => by simp at hs, by simp⟩, ?_, by rw [f3, g2]⟩
      intro o x hx hnl
      rw [f4 o]; exact hnl1 o x hx hnl
      intro heq; subst heq; rw [hxb] at hx; cases hx; exact hnl hlive
    · rw [if_neg hfree]
      exact ⟨⟨hf1, Nat.le_refl _, Nat.le_refl _, fun _ => rfl, fun hc => by simp [Slice.nil] at hc,
        hi.ro_src, fun s hs => by simp at hs, by simp⟩, hnl1, g2⟩
  · rw [if_neg hdrained]
    have hpos : 0 < r.buf.cap := by omega
    obtain ⟨xb, hxb, hbb, hro, hnro⟩ := hi.buf_ok hpos
    cases hr : r.readOnly
    · -- compaction inside the live buffer
      simp only [Bool.false_eq_true, if_false]
      obtain ⟨hlive, hoff, hcapl⟩ := hnro hr
      have has : decide (r.ri ≤ r.buf.len) = true := decide_eq_true hri
      rw [has]; simp only [assert_true]
      have hmin : min r.buf.len (r.buf.len - r.ri) = r.buf.len - r.ri := by omega
      rw [hmin]
      have hxb1 : (h.freeAll r.pending).obj? r.buf.obj = some xb := by rw [hbufSame]; exact hxb
      have hbnd : ∀ x, (h.freeAll r.pending).obj? r.buf.obj = some x → r.buf.off + (r.buf.len - r.ri) ≤ x.data.length := by
        intro x hx; rw [hxb1] at hx; cases hx; omega
      have hss := sameShape_copy (h.freeAll r.pending) r.buf.obj r.buf.off r.buf.obj (r.buf.off + r.ri)
        (r.buf.len - r.ri) hbnd
      have hf : ((h.freeAll r.pending).copy r.buf.obj r.buf.off r.buf.obj (r.buf.off + r.ri)
          (r.buf.len - r.ri)).faults = [] := by
        rw [copy_faults_ok _ _ _ _ _ _ xb xb hxb1 hxb1 (by omega) (by omega) (by rw [hlive]; decide)
          (by rw [hlive]; decide) (by rw [hlive]; intro hc; cases hc)]
        exact hf1
      obtain ⟨xb', hxb', ho', _, hl'⟩ := hss.obj? _ xb hxb1
      refine ⟨⟨hf, Nat.zero_le _, by show r.buf.len - r.ri ≤ r.buf.cap; omega, fun hc => rfl, fun _ =>
          ⟨xb', hxb', by show r.buf.off + r.buf.cap ≤ _; omega, fun hr' => by simp at hr',
            fun _ => ⟨by rw [ho']; exact hlive, hoff, by rw [hl']; exact hcapl⟩⟩,
          fun hr' => by simp at hr', fun s hs => by simp at hs, by simp⟩, ?_, by rw [hss.size, g2]⟩
      intro o x hx hnl
      rw [copy_obj?_ne]; exact hnl1 o x hx hnl
      intro heq; subst heq; rw [hxb] at hx; cases hx; exact hnl hlive
    · -- the caller's buffer: only the slice header moves
      simp only [if_true]
      have has : decide (r.ri ≤ r.buf.len) = true := decide_eq_true hri
      rw [has]; simp only [assert_true]
      refine ⟨⟨hf1, Nat.zero_le _, by simp [Slice.sub]; omega, fun _ => rfl, fun _ =>
          ⟨xb, by show (h.freeAll r.pending).obj? r.buf.obj = some xb; rw [hbufSame]; exact hxb,
            by simp [Slice.sub]; omega, fun _ => hro hr, fun hr' => by simp at hr'⟩,
          fun _ => hi.ro_src hr, fun s hs => by simp at hs, by simp⟩, hnl1, g2⟩

end Verif.Mem

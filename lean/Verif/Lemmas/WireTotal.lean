/- Lemmas/WireTotal: on every reader state with the representation invariant, under every source script,
   the stream readers return normally (value or error): no panic, loop fuel never exhausted
   (C04's `acquire_total`), no `(nil, nil)` from Next. -/
import Verif.Lemmas.WireRefine
import Verif.Lemmas.ReaderOps
namespace Verif.Wire

/-- a stream-reader step that returns normally, with `Q` of its value and state on success -/
def Tot {α} (Q : α → Rd → Prop) (x : TOut (α × Rd)) : Prop :=
  match x with
  | .ok p => Q p.1 p.2
  | .err _ => True
  | _ => False

theorem Tot.bind {α β} {Q : α → Rd → Prop} {Q' : β → Rd → Prop} {x : TOut (α × Rd)} {f : α × Rd → TOut (β × Rd)}
    (hx : Tot Q x) (hf : ∀ p, Q p.1 p.2 → Tot Q' (f p)) : Tot Q' (x.bind f) := by
  cases x with
  | ok p => exact hf p hx
  | err e => trivial
  | panic s => exact hx
  | oob => exact hx

theorem tot_brNext (r : Rd) (n : Nat) (hI : RInv r) :
    Tot (fun bs r' => bs.length = n ∧ RInv r') (brNext (n : Int) r) := by
  cases hb : brNext (n : Int) r with
  | ok p => obtain ⟨_, e2, _, e4⟩ := brNext_sound r n p.1 p.2 hI hb; exact ⟨e2, e4⟩
  | err e => trivial
  | panic s =>
    exfalso
    unfold brNext at hb
    have ht := acquire_total r n
    generalize hn : r.next (n : Int) = res at hb
    obtain ⟨x, r1⟩ := res
    cases x with
    | ok b => simp at hb
    | fail e => cases e <;> simp at hb
    | nofuel =>
      unfold Rd.next at hn
      rw [if_neg (by omega)] at hn
      simp only [Int.toNat_natCast] at hn
      cases ha : r.acquire n with
      | none => rw [ha] at ht; simp at ht
      | some q => rw [ha] at hn; simp only at hn; split at hn <;> simp at hn
  | oob =>
    exfalso
    unfold brNext at hb
    generalize hn : r.next (n : Int) = res at hb
    obtain ⟨x, r1⟩ := res
    cases x with
    | ok b => simp at hb
    | fail e => cases e <;> simp at hb
    | nofuel => simp at hb

theorem tot_brReadFull (r : Rd) (k : Nat) (hI : RInv r) :
    Tot (fun _ r' => RInv r') (brReadFull k r) := by
  cases hb : brReadFull k r with
  | ok p => exact (brReadFull_sound r k p.1 p.2 hI hb).2.2.2
  | err e => trivial
  | panic s =>
    exfalso
    unfold brReadFull at hb
    have ht := acquire_total r k
    generalize hn : r.readBinary k = res at hb
    obtain ⟨x, r1⟩ := res
    cases x with
    | none =>
      unfold Rd.readBinary at hn
      cases ha : r.acquire k with
      | none => rw [ha] at ht; simp at ht
      | some q => rw [ha] at hn; simp at hn
    | some q => simp only at hb; split at hb <;> simp at hb
  | oob =>
    exfalso
    unfold brReadFull at hb
    generalize hn : r.readBinary k = res at hb
    obtain ⟨x, r1⟩ := res
    cases x with
    | none => simp at hb
    | some q => simp only at hb; split at hb <;> simp at hb


theorem tot_pure {α β} {Q : β → Rd → Prop} (y : TOut α) (a : α) (hy : y = .ok a) (g : α → TOut (β × Rd))
    (hg : Tot Q (g a)) : Tot Q (y.bind g) := by rw [hy]; exact hg

theorem idx_ok (b : Bytes) (i : Nat) (h : i < b.length) : ∃ x, idx b i = .ok x := by
  unfold idx; rw [List.getElem?_eq_getElem h]; exact ⟨_, rfl⟩

def R1 {α} : α → Rd → Prop := fun _ r => RInv r

theorem tot_brReadI32 (r : Rd) (hI : RInv r) : Tot R1 (brReadI32 r) := by
  unfold brReadI32
  apply Tot.bind (tot_brNext r 4 hI); intro p hp
  obtain ⟨b, r1⟩ := p
  simp only [u32of, if_pos (show 4 ≤ b.length by have := hp.1; simp at this; omega)]
  exact hp.2

theorem tot_brReadBool (r : Rd) (hI : RInv r) : Tot R1 (brReadBool r) := by
  unfold brReadBool
  apply Tot.bind (tot_brNext r 1 hI); intro p hp
  obtain ⟨x, hx⟩ := idx_ok p.1 0 (by have := hp.1; omega)
  exact tot_pure _ x hx _ hp.2

theorem tot_brReadByte (r : Rd) (hI : RInv r) : Tot R1 (brReadByte r) := by
  unfold brReadByte
  apply Tot.bind (tot_brNext r 1 hI); intro p hp
  obtain ⟨x, hx⟩ := idx_ok p.1 0 (by have := hp.1; omega)
  exact tot_pure _ x hx _ hp.2

theorem tot_brReadI16 (r : Rd) (hI : RInv r) : Tot R1 (brReadI16 r) := by
  unfold brReadI16
  apply Tot.bind (tot_brNext r 2 hI); intro p hp
  exact tot_pure _ (rd16 p.1) (by simp [u16of, hp.1]) _ hp.2

theorem tot_brReadI64 (r : Rd) (hI : RInv r) : Tot R1 (brReadI64 r) := by
  unfold brReadI64
  apply Tot.bind (tot_brNext r 8 hI); intro p hp
  exact tot_pure _ (rd64 p.1) (by simp [u64of, hp.1]) _ hp.2

theorem tot_brReadDouble (r : Rd) (hI : RInv r) : Tot R1 (brReadDouble r) := by
  unfold brReadDouble
  apply Tot.bind (tot_brNext r 8 hI); intro p hp
  exact tot_pure _ (rd64 p.1) (by simp [u64of, hp.1]) _ hp.2

theorem tot_brReadFieldBegin (r : Rd) (hI : RInv r) : Tot R1 (brReadFieldBegin r) := by
  unfold brReadFieldBegin
  apply Tot.bind (tot_brNext r 1 hI); intro p hp
  obtain ⟨x, hx⟩ := idx_ok p.1 0 (by have := hp.1; omega)
  apply tot_pure _ x hx
  split
  · exact hp.2
  · apply Tot.bind (tot_brNext p.2 2 hp.2); intro q hq
    exact tot_pure _ (rd16 q.1) (by simp [u16of, hq.1]) _ hq.2

theorem tot_brReadMapBegin (r : Rd) (hI : RInv r) : Tot R1 (brReadMapBegin r) := by
  unfold brReadMapBegin
  apply Tot.bind (tot_brNext r 6 hI); intro p hp
  obtain ⟨x, hx⟩ := idx_ok p.1 0 (by have := hp.1; omega)
  obtain ⟨y, hy⟩ := idx_ok p.1 1 (by have := hp.1; omega)
  apply tot_pure _ x hx
  apply tot_pure _ y hy
  apply tot_pure _ (p.1.drop 2) (by simp [sfrom, hp.1])
  exact tot_pure _ (rd32 (p.1.drop 2)) (by simp [u32of, hp.1]) _ hp.2

theorem tot_brReadListBegin (r : Rd) (hI : RInv r) : Tot R1 (brReadListBegin r) := by
  unfold brReadListBegin
  apply Tot.bind (tot_brNext r 5 hI); intro p hp
  obtain ⟨x, hx⟩ := idx_ok p.1 0 (by have := hp.1; omega)
  apply tot_pure _ x hx
  apply tot_pure _ (p.1.drop 1) (by simp [sfrom, hp.1])
  exact tot_pure _ (rd32 (p.1.drop 1)) (by simp [u32of, hp.1]) _ hp.2

theorem tot_brReadBinary (r : Rd) (hI : RInv r) : Tot R1 (brReadBinary r) := by
  unfold brReadBinary
  apply Tot.bind (tot_brReadI32 r hI); intro p hp
  split
  · trivial
  · exact tot_brReadFull p.2 _ hp

theorem tot_brReadMessageBegin (r : Rd) (hI : RInv r) : Tot R1 (brReadMessageBegin r) := by
  unfold brReadMessageBegin
  apply Tot.bind (tot_brReadI32 r hI); intro h hh
  dsimp only
  split
  · trivial
  · apply Tot.bind (tot_brReadBinary h.2 hh); intro nm hnm
    apply Tot.bind (tot_brReadI32 nm.2 hnm); intro sq hsq
    exact hsq

theorem tot_mapRM {α} (f : α → Val) (x : TOut (α × Rd)) (h : Tot R1 x) : Tot R1 (mapRM f x) := by
  cases x <;> first | exact h | trivial

/-- on every reader state with the representation invariant, under every source script, every stream
    reader returns normally — a value or an error; never a panic (in particular the `(nil, nil)`
    return of finding F2 and an exhausted loop fuel are impossible) -/
theorem brRead_total (k : Kind) (r : Rd) (hI : RInv r) :
    (∃ v r', brRead k r = .ok (v, r')) ∨ (∃ e, brRead k r = .err e) := by
  have key : Tot R1 (brRead k r) := by
    cases k <;> simp only [brRead] <;> apply tot_mapRM
    · exact tot_brReadBool r hI
    · exact tot_brReadByte r hI
    · exact tot_brReadI16 r hI
    · exact tot_brReadI32 r hI
    · exact tot_brReadI64 r hI
    · exact tot_brReadDouble r hI
    · exact tot_brReadBinary r hI
    · exact tot_brReadBinary r hI
    · exact tot_brReadFieldBegin r hI
    · exact tot_brReadMapBegin r hI
    · exact tot_brReadListBegin r hI
    · exact tot_brReadListBegin r hI
    · exact tot_brReadMessageBegin r hI
  cases hx : brRead k r with
  | ok p => exact Or.inl ⟨p.1, p.2, rfl⟩
  | err e => exact Or.inr ⟨e, rfl⟩
  | panic s => rw [hx] at key; exact key.elim
  | oob => rw [hx] at key; exact key.elim


end Verif.Wire

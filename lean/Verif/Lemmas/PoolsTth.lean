/-
  Lemmas/PoolsTth: the header codec as a kind (Model/Pools `kTTH`) is `Good`: the frame produced by
  Encode + total length + Flush does not depend on what the memory handed out by the buffer pool held
  (every byte of every region is written: C06's `encode_raw`, plus the caller's length field), and
  Decode is a function of its argument.
-/
import Verif.Lemmas.Pools
import Verif.Lemmas.TthEnc
namespace Verif.Pools
open Verif Verif.TTH

theorem metaBytes_length (p : EncParam) (w : W) (sz : Nat) : (metaBytes p w sz).length = 14 := by
  simp [metaBytes, be32, be16]

theorem be32_length (n : Nat) : (be32 n).length = 4 := rfl

theorem metaBytes_poke (p : EncParam) (w : W) (sz : Nat) (v : Bytes) (hv : v.length = 4) :
    poke (metaBytes p w sz) 0 v =
      v ++ be32 ((Facts.ttMagic + p.flags) % 4294967296) ++ be32 (ofInt 32 p.seq) ++ be16 ((sz / 4) % 65536) := by
  have h4 : (((List.range 14).map (w.dirt w.n)).take 4).length = 4 := by simp
  simp only [poke, List.take_zero, List.nil_append, Nat.zero_add, hv, metaBytes, List.append_assoc]
  rw [List.drop_append_of_le_length (by omega), List.drop_of_length_le (by omega)]
  simp

/-- the frame in closed form: no dirty byte in it -/
theorem tthEnc_closed (d : Dirty) (p : EncParam) :
    tthEnc d p =
      if rawSize p % 2 ^ Facts.ttEncodeSizeCheckBits > Facts.ttMaxHeaderSize then .err .size
      else
        let body := rawInfo p ++ List.replicate ((4 - (rawInfo p).length % 4) % 4) 0
        .ok (be32 ((14 + body.length - 4) % 4294967296) ++ be32 ((Facts.ttMagic + p.flags) % 4294967296)
              ++ be32 (ofInt 32 p.seq) ++ be16 ((rawSize p / 4) % 65536) ++ body) := by
  unfold tthEnc
  generalize hw : ({ items := [], n := 0, broken := false, dirt := d } : W) = w0
  have hwb : w0.broken = false := by rw [← hw]
  have hwn : w0.n = 0 := by rw [← hw]
  have hwy : w0.bytes = [] := by rw [← hw]; rfl
  have hr := encode_raw p w0 hwb
  by_cases hbig : rawSize p % 2 ^ Facts.ttEncodeSizeCheckBits > Facts.ttMaxHeaderSize
  · rw [if_pos hbig] at hr ⊢
    simp only [hr, Out.bind_err]
  · rw [if_neg hbig] at hr ⊢
    obtain ⟨L, he, hL⟩ := hr
    simp only [he, Out.bind_ok]
    generalize hmb : metaBytes p w0 (rawSize p) = mb
    have hml : mb.length = 14 := by rw [← hmb]; exact metaBytes_length _ _ _
    have hby : (w0.app (mb :: L)).bytes = mb ++ L.flatten := by
      rw [W.bytes_app, hwy]; simp
    simp only [setTotalLen, hby]
    rw [put_app' w0 mb L 0 _ (by rw [hml, be32_length]; omega)]
    simp only [Out.bind_ok, W.bytes_app, hwy, List.nil_append, List.flatten_cons]
    rw [← hmb, metaBytes_poke _ _ _ _ (be32_length _), hmb, hL]
    simp only [List.length_append, hml, List.append_assoc]

theorem tthEnc_dirt (d d' : Dirty) (p : EncParam) : tthEnc d p = tthEnc d' p := by
  rw [tthEnc_closed, tthEnc_closed]

def goodTTH : Good kTTH where
  Abs := Unit
  ainit _ := ()
  astep _ o := ((), (kTTH.step (fun _ _ => 0) () o).2.1)
  Ref _ _ := True
  Fresh _ := True            -- not an object-pool type: `Obj = Unit`
  zero_fresh _ := trivial
  init_ref _ _ _ := trivial
  step_ref d _ _ o _ := by
    refine ⟨trivial, ?_⟩
    cases o with
    | enc p => simp only [kTTH]; rw [tthEnc_dirt d (fun _ _ => 0) p]
    | dec b cap => rfl
  release_fresh _ _ _ := trivial

end Verif.Pools

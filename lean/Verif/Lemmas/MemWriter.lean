/-
  Lemmas/MemWriter: the ownership invariant `WInv` of the Mem-level bufiox writer, the protected
  region `WProt` (everything written or handed out since the last Flush, plus caller memory below its
  write limit), and the step lemmas for Malloc / WriteBinary / Flush and the environment.
-/
import Verif.Lemmas.MemHeap
import Verif.Lemmas.MemReader
import Verif.Model.MemWriter
namespace Verif.Mem
open Verif Verif.Heap

/-- who may own a buffer of this writer: pool objects (full slices) with the cache, Go-heap objects or
    the caller's target without -/
def WOwnerOK (w : MWr) (x : Obj) (s : Slice) : Prop :=
  (w.disableCache = true → (x.owner = .gc ∨ x.owner = .caller)) ∧
  (w.disableCache = false → (x.owner = .live ∧ s.off = 0 ∧ s.cap = x.data.length))

structure WInv (w : MWr) (h : Heap) : Prop where
  nofault : h.faults = []
  len_le : w.buf.len ≤ w.buf.cap
  nil_pend : w.buf.cap = 0 → w.pending = []
  buf_ok : 0 < w.buf.cap → ∃ x, h.obj? w.buf.obj = some x ∧ w.buf.off + w.buf.cap ≤ x.data.length ∧
      WOwnerOK w x w.buf ∧ (x.owner = .caller → w.pending = [] ∧ x.wfrom ≤ w.buf.off + w.buf.len)
  pend_ok : ∀ s ∈ w.pending, s.obj ≠ w.buf.obj ∧ s.len ≤ s.cap ∧ 0 < s.cap ∧ s.len ≤ w.buf.len ∧
      ∃ x, h.obj? s.obj = some x ∧ s.off + s.cap ≤ x.data.length ∧ WOwnerOK w x s
  pend_nodup : (w.pending.map (·.obj)).Nodup
  pend_sorted : (w.pending.map (·.len)).Pairwise (· ≤ ·)
  /-- where the regions are: in the current buffer below `len`, or in a parked buffer below its `len` -/
  reg_ok : ∀ g ∈ w.regions, g.len = 0 ∨
      (0 < w.buf.cap ∧ g.obj = w.buf.obj ∧ g.off + g.len ≤ w.buf.off + w.buf.len) ∨
      (∃ s ∈ w.pending, g.obj = s.obj)
  /-- a checked write through a region would pass -/
  reg_w : ∀ g ∈ w.regions, 0 < g.len → ∃ x, h.obj? g.obj = some x ∧ g.off + g.len ≤ x.data.length ∧
      x.owner ≠ .freed ∧ (x.owner = .caller → x.wfrom ≤ g.off)
  reg_disj : w.regions.Pairwise Slice.Disjoint

/-- positions the library must not write any more before Flush -/
def WProt (w : MWr) (h : Heap) (o p : Nat) : Prop :=
  (∃ s ∈ w.pending, s.obj = o) ∨
  (0 < w.buf.cap ∧ w.buf.obj = o ∧ p < w.buf.off + w.buf.len) ∨
  (∃ x, h.obj? o = some x ∧ x.owner = .caller ∧ p < x.wfrom)

def WFrame (w : MWr) (h : Heap) (w' : MWr) (h' : Heap) : Prop :=
  ∀ o p, WProt w h o p → WProt w' h' o p ∧ h'.byte? o p = h.byte? o p

structure WStepOK (w : MWr) (h : Heap) (w' : MWr) (h' : Heap) : Prop where
  inv : WInv w' h'
  frame : WFrame w h w' h'
  keeps : Keeps h h'
  /-- regions are only added -/
  regs : ∀ g ∈ w.regions, g ∈ w'.regions
  /-- with the cache disabled the pool is never called -/
  nopool : w.disableCache = true → h'.events = h.events
  dc : w'.disableCache = w.disableCache

theorem WStepOK.refl {w : MWr} {h : Heap} (hi : WInv w h) : WStepOK w h w h :=
  ⟨hi, fun _ _ hp => ⟨hp, rfl⟩, Keeps.refl _, fun _ hg => hg, fun _ => rfl, rfl⟩

theorem WStepOK.trans {w1 w2 w3 : MWr} {h1 h2 h3 : Heap} (a : WStepOK w1 h1 w2 h2) (b : WStepOK w2 h2 w3 h3) :
    WStepOK w1 h1 w3 h3 :=
  ⟨b.inv, fun o p hp => ⟨(b.frame o p (a.frame o p hp).1).1, ((b.frame o p (a.frame o p hp).1).2).trans (a.frame o p hp).2⟩,
   a.keeps.trans b.keeps, fun g hg => b.regs g (a.regs g hg),
   fun hd => (b.nopool (by rw [a.dc]; exact hd)).trans (a.nopool hd), b.dc.trans a.dc⟩

theorem WProt.exists {w : MWr} {h : Heap} (hi : WInv w h) {o p : Nat} (hp : WProt w h o p) :
    ∃ x, h.obj? o = some x := by
  rcases hp with ⟨s, hs, rfl⟩ | ⟨hc, rfl, _⟩ | ⟨x, hx, _⟩
  · obtain ⟨_, _, _, _, x, hx, _⟩ := hi.pend_ok s hs; exact ⟨x, hx⟩
  · obtain ⟨x, hx, _⟩ := hi.buf_ok hc; exact ⟨x, hx⟩
  · exact ⟨x, hx⟩

/-- a region-writability fact survives whenever shapes are kept -/
theorem reg_w_keeps {h h' : Heap} (hk : Keeps h h') (g : Slice)
    (hw : ∃ x, h.obj? g.obj = some x ∧ g.off + g.len ≤ x.data.length ∧ x.owner ≠ .freed ∧
      (x.owner = .caller → x.wfrom ≤ g.off)) :
    ∃ x, h'.obj? g.obj = some x ∧ g.off + g.len ≤ x.data.length ∧ x.owner ≠ .freed ∧
      (x.owner = .caller → x.wfrom ≤ g.off) := by
  obtain ⟨x, hx, a, b, c⟩ := hw
  obtain ⟨x', hx', ho, hwf, hl⟩ := hk _ x hx
  exact ⟨x', hx', by omega, by rw [ho]; exact b, by rw [ho, hwf]; exact c⟩

/-- the invariant only looks at the fault log and the shape of the objects -/
theorem WInv.of_keeps {w : MWr} {h h' : Heap} (hi : WInv w h) (hk : Keeps h h') (hf : h'.faults = []) :
    WInv w h' where
  nofault := hf
  len_le := hi.len_le
  nil_pend := hi.nil_pend
  buf_ok := fun hc => by
    obtain ⟨x, hx, hb, ⟨o1, o2⟩, hcl⟩ := hi.buf_ok hc
    obtain ⟨x', hx', ho, hwf, hl⟩ := hk _ x hx
    exact ⟨x', hx', by omega, ⟨fun hd => by rw [ho]; exact o1 hd, fun hd => by rw [ho, hl]; exact o2 hd⟩,
      fun hc' => by rw [ho] at hc'; rw [hwf]; exact hcl hc'⟩
  pend_ok := fun s hs => by
    obtain ⟨a, b, c, d, x, hx, hb, ⟨o1, o2⟩⟩ := hi.pend_ok s hs
    obtain ⟨x', hx', ho, _, hl⟩ := hk _ x hx
    exact ⟨a, b, c, d, x', hx', by omega, ⟨fun hd => by rw [ho]; exact o1 hd, fun hd => by rw [ho, hl]; exact o2 hd⟩⟩
  pend_nodup := hi.pend_nodup
  pend_sorted := hi.pend_sorted
  reg_ok := hi.reg_ok
  reg_w := fun g hg hpos => reg_w_keeps hk g (hi.reg_w g hg hpos)
  reg_disj := hi.reg_disj

/-- the invariant depends on the writer only through buf, pending, regions and disableCache -/
theorem WInv.of_eq {w w' : MWr} {h : Heap} (hi : WInv w h) (hb : w'.buf = w.buf) (hp : w'.pending = w.pending)
    (hr : w'.regions = w.regions) (hd : w'.disableCache = w.disableCache) : WInv w' h := by
  have ho : ∀ x s, WOwnerOK w x s → WOwnerOK w' x s := fun x s ⟨a, b⟩ =>
    ⟨fun hd' => a (by rw [← hd]; exact hd'), fun hd' => b (by rw [← hd]; exact hd')⟩
  exact {
    nofault := hi.nofault
    len_le := by rw [hb]; exact hi.len_le
    nil_pend := by rw [hb, hp]; exact hi.nil_pend
    buf_ok := by
      rw [hb, hp]; intro hc
      obtain ⟨x, hx, a, b, c⟩ := hi.buf_ok hc
      exact ⟨x, hx, a, ho x _ b, c⟩
    pend_ok := by
      rw [hb, hp]; intro s hs
      obtain ⟨a, b, c, d, x, hx, e, f⟩ := hi.pend_ok s hs
      exact ⟨a, b, c, d, x, hx, e, ho x _ f⟩
    pend_nodup := by rw [hp]; exact hi.pend_nodup
    pend_sorted := by rw [hp]; exact hi.pend_sorted
    reg_ok := by rw [hb, hp, hr]; exact hi.reg_ok
    reg_w := by rw [hr]; exact hi.reg_w
    reg_disj := by rw [hr]; exact hi.reg_disj }

theorem WFrame.of_extends {w : MWr} {h h' : Heap} (hi : WInv w h) (he : Extends h h') : WFrame w h w h' := by
  intro o p hp
  obtain ⟨x, hx⟩ := hp.exists hi
  refine ⟨?_, he.byte? o p x hx⟩
  rcases hp with hp | hp | ⟨y, hy, hc⟩
  · exact Or.inl hp
  · exact Or.inr (Or.inl hp)
  · exact Or.inr (Or.inr ⟨y, he o y hy, hc⟩)

/-- environment steps: every object the writer holds is live / gc / caller, so nothing changes -/
theorem WInv.env {w : MWr} {h h' : Heap} (hi : WInv w h) (he : Env h h') : WStepOK w h w h' := by
  have hk : Keeps h h' := fun o x hx => by
    obtain ⟨x', hx', a1, a2, a3, _⟩ := he.keep o x hx
    exact ⟨x', hx', a1, a2, a3⟩
  refine ⟨hi.of_keeps hk (by rw [he.faults]; exact hi.nofault), ?_, hk, fun _ hg => hg, fun _ => he.events, rfl⟩
  intro o p hp
  have hnf : ∃ x, h.obj? o = some x ∧ x.owner ≠ .freed := by
    rcases hp with ⟨s, hs, rfl⟩ | ⟨hc, rfl, _⟩ | ⟨x, hx, hc, _⟩
    · obtain ⟨_, _, _, _, x, hx, _, o1, o2⟩ := hi.pend_ok s hs
      refine ⟨x, hx, ?_⟩
      cases hd : w.disableCache
      · rw [(o2 hd).1]; decide
      · rcases o1 hd with h1 | h1 <;> (rw [h1]; decide)
    · obtain ⟨x, hx, _, ⟨o1, o2⟩, _⟩ := hi.buf_ok hc
      refine ⟨x, hx, ?_⟩
      cases hd : w.disableCache
      · rw [(o2 hd).1]; decide
      · rcases o1 hd with h1 | h1 <;> (rw [h1]; decide)
    · exact ⟨x, hx, by rw [hc]; decide⟩
  obtain ⟨x, hx, hxf⟩ := hnf
  refine ⟨?_, Heap.Env.byte? he o p x hx hxf⟩
  rcases hp with hp | hp | ⟨y, hy, hc, hlt⟩
  · exact Or.inl hp
  · exact Or.inr (Or.inl hp)
  · obtain ⟨y', hy', ho, hwf, _⟩ := he.keep o y hy
    exact Or.inr (Or.inr ⟨y', hy', by rw [ho]; exact hc, by rw [hwf]; exact hlt⟩)

/-! ## acquire -/

/-- a fresh buffer from `alloc` -/
theorem walloc_new (w : MWr) (h : Heap) (len cap : Nat) (hle : len ≤ cap) :
    (w.alloc h len cap).1.obj = h.size ∧ (w.alloc h len cap).1.off = 0 ∧ (w.alloc h len cap).1.len = len ∧
    cap ≤ (w.alloc h len cap).1.cap ∧ len ≤ (w.alloc h len cap).1.cap ∧
    Extends h (w.alloc h len cap).2 ∧ (w.alloc h len cap).2.faults = h.faults ∧
    (w.disableCache = true → (w.alloc h len cap).2.events = h.events) ∧
    (∃ x, (w.alloc h len cap).2.obj? h.size = some x ∧ x.data.length = (w.alloc h len cap).1.cap ∧
      WOwnerOK w x (w.alloc h len cap).1 ∧ x.owner ≠ .caller) := by
  unfold MWr.alloc
  cases hd : w.disableCache
  · simp only [Bool.false_eq_true, if_false]
    obtain ⟨x, hx, hl, hlen⟩ := malloc_new h len cap
    have hc := malloc_cap_ge h len cap
    exact ⟨rfl, rfl, rfl, hc.2, hc.1, extends_malloc h len cap, rfl, fun hd' => by simp at hd',
      ⟨x, hx, hlen, ⟨fun hd' => by simp [hd] at hd', fun _ => ⟨hl, rfl, hlen.symm⟩⟩, by rw [hl]; decide⟩⟩
  · simp only [if_true]
    obtain ⟨x, hx, hl, hlen⟩ := gcAlloc_new h len cap
    exact ⟨rfl, rfl, rfl, Nat.le_refl _, hle, extends_gcAlloc h len cap, rfl, fun _ => rfl,
      ⟨x, hx, hlen, ⟨fun _ => Or.inl hl, fun hd' => by simp [hd] at hd'⟩, by rw [hl]; decide⟩⟩

/-- the growth loop reaches the requested room (no `int` overflow: `n + len < c * 2^fuel`) -/
theorem growCap_spec (f c ri n : Nat) (hn : n + ri ≤ c * 2 ^ f) : n ≤ growCap f c ri n - ri := by
  induction f generalizing c with
  | zero => simp [growCap] at *; omega
  | succ f ih =>
    unfold growCap; split
    · apply ih; rw [Nat.pow_succ] at hn; rw [Nat.mul_assoc, Nat.mul_comm 2]; exact hn
    · omega

theorem doubleUntil_ge (f c n : Nat) : c ≤ doubleUntil f c n := by
  induction f generalizing c with
  | zero => simp [doubleUntil]
  | succ f ih =>
    unfold doubleUntil; split
    · exact Nat.le_trans (by omega) (ih (c * 2))
    · exact Nat.le_refl c

theorem wFirstAlloc_ok (w : MWr) (h : Heap) (n : Nat) (hi : WInv w h) :
    WStepOK w h (w.firstAlloc h n).1 (w.firstAlloc h n).2 ∧ 0 < (w.firstAlloc h n).1.buf.cap ∧
    (w.firstAlloc h n).1.buf.len = w.buf.len ∧ (w.firstAlloc h n).1.regions = w.regions ∧
    (w.firstAlloc h n).1.err = w.err := by
  unfold MWr.firstAlloc
  by_cases hc : w.buf.cap = 0
  · rw [if_pos hc]
    simp only []
    have hm2 : 0 < doubleUntil 64 (if statsMax w.stats < Facts.defaultBufSize then Facts.defaultBufSize else statsMax w.stats) n := by
      have h1 := doubleUntil_ge 64 (if statsMax w.stats < Facts.defaultBufSize then Facts.defaultBufSize else statsMax w.stats) n
      have h2 : 0 < Facts.defaultBufSize := by decide
      by_cases hlt : statsMax w.stats < Facts.defaultBufSize
      · rw [if_pos hlt] at h1 ⊢; omega
      · rw [if_neg hlt] at h1 ⊢; omega
    generalize doubleUntil 64 (if statsMax w.stats < Facts.defaultBufSize then Facts.defaultBufSize else statsMax w.stats) n = m2 at hm2
    have hpend : w.pending = [] := hi.nil_pend hc
    have hlen0 : w.buf.len = 0 := by have := hi.len_le; omega
    obtain ⟨a1, a2, a3, a4, a5, aext, afl, aev, x, hx, hxl, hxo, hxc⟩ := walloc_new w h 0 m2 (Nat.zero_le _)
    have hk : Keeps h (w.alloc h 0 m2).2 := Keeps.of_extends aext
    have hcappos : 0 < (w.alloc h 0 m2).1.cap := by omega
    refine ⟨⟨?_, ?_, hk, fun _ hg => hg, aev, rfl⟩, hcappos, by rw [a3, hlen0], trivial, trivial⟩
    · exact {
        nofault := by rw [afl]; exact hi.nofault
        len_le := by show (w.alloc h 0 m2).1.len ≤ _; rw [a3]; exact Nat.zero_le _
        nil_pend := fun _ => hpend
        buf_ok := fun _ => ⟨x, by show (w.alloc h 0 m2).2.obj? (w.alloc h 0 m2).1.obj = _; rw [a1]; exact hx,
          by show (w.alloc h 0 m2).1.off + (w.alloc h 0 m2).1.cap ≤ _; rw [a2, hxl]; omega,
          hxo, fun hcl => absurd hcl hxc⟩
        pend_ok := fun s hs => by rw [hpend] at hs; simp at hs
        pend_nodup := by show (w.pending.map _).Nodup; rw [hpend]; simp
        pend_sorted := by show (w.pending.map _).Pairwise _; rw [hpend]; simp
        reg_ok := fun g hg => by
          rcases hi.reg_ok g hg with h0 | ⟨hp, _⟩ | ⟨s, hs, _⟩
          · exact Or.inl h0
          · omega
          · rw [hpend] at hs; simp at hs
        reg_w := fun g hg hpos => reg_w_keeps hk g (hi.reg_w g hg hpos)
        reg_disj := hi.reg_disj }
    · intro o p hp
      obtain ⟨y, hy⟩ := hp.exists hi
      refine ⟨?_, aext.byte? o p y hy⟩
      rcases hp with ⟨s, hs, _⟩ | ⟨hc', _⟩ | ⟨z, hz, hcl⟩
      · rw [hpend] at hs; simp at hs
      · omega
      · exact Or.inr (Or.inr ⟨z, aext o z hz, hcl⟩)
  · rw [if_neg hc]
    exact ⟨WStepOK.refl hi, by show 0 < w.buf.cap; omega, rfl, rfl, rfl⟩

theorem wGrow_ok (w : MWr) (h : Heap) (n : Nat) (hi : WInv w h) (hpos : 0 < w.buf.cap)
    (hsz : n + w.buf.len < 2 ^ 64) :
    WStepOK w h (w.grow h n).1 (w.grow h n).2 ∧ (w.grow h n).1.buf.len = w.buf.len ∧
    (w.grow h n).1.regions = w.regions ∧ (w.grow h n).1.err = w.err ∧
    n ≤ (w.grow h n).1.buf.cap - (w.grow h n).1.buf.len := by
  unfold MWr.grow
  by_cases hg : n > w.buf.cap - w.buf.len
  · rw [if_pos hg]
    simp only []
    have hspec := growCap_spec 64 (w.buf.cap * 2) w.buf.len n (by
      have : (2:Nat) ^ 64 ≤ w.buf.cap * 2 * 2 ^ 64 := Nat.le_mul_of_pos_left _ (by omega)
      omega)
    have hncge : w.buf.cap * 2 ≤ growCap 64 (w.buf.cap * 2) w.buf.len n := growCap_ge _ _ _ _
    generalize growCap 64 (w.buf.cap * 2) w.buf.len n = ncap at hspec hncge
    have hlen := hi.len_le
    obtain ⟨a1, a2, a3, a4, a5, aext, afl, aev, x, hx, hxl, hxo, hxc⟩ := walloc_new w h ncap ncap (Nat.le_refl _)
    obtain ⟨xb, hxb, hbb, hbo, hbc⟩ := hi.buf_ok hpos
    have hbufLt : w.buf.obj < h.size := obj?_lt h _ xb hxb
    have hk : Keeps h (w.alloc h ncap ncap).2 := Keeps.of_extends aext
    have has : decide (w.buf.len ≤ (w.alloc h ncap ncap).1.cap) = true := decide_eq_true (by omega)
    rw [has]; simp only [assert_true]
    refine ⟨⟨?_, ?_, hk, fun _ hg => hg, aev, rfl⟩, trivial, trivial, trivial, by
      show n ≤ (w.alloc h ncap ncap).1.cap - w.buf.len; omega⟩
    · exact {
        nofault := by rw [afl]; exact hi.nofault
        len_le := by show w.buf.len ≤ (w.alloc h ncap ncap).1.cap; omega
        nil_pend := fun hc0 => by
          have : (w.alloc h ncap ncap).1.cap = 0 := hc0
          omega
        buf_ok := fun _ => ⟨x, by show (w.alloc h ncap ncap).2.obj? (w.alloc h ncap ncap).1.obj = _; rw [a1]; exact hx,
          by show (w.alloc h ncap ncap).1.off + (w.alloc h ncap ncap).1.cap ≤ _; rw [a2, hxl]; omega,
          hxo, fun hcl => absurd hcl hxc⟩
        pend_ok := fun s hs => by
          have hs' : s ∈ w.pending ∨ s = w.buf := by
            have : s ∈ w.pending ++ [w.buf] := hs
            simpa using this
          show s.obj ≠ (w.alloc h ncap ncap).1.obj ∧ s.len ≤ s.cap ∧ 0 < s.cap ∧ s.len ≤ w.buf.len ∧ _
          rw [a1]
          rcases hs' with hs' | rfl
          · obtain ⟨_, b, c, d, y, hy, hb', ho'⟩ := hi.pend_ok s hs'
            have := obj?_lt h _ y hy
            exact ⟨by omega, b, c, d, y, aext _ y hy, hb', ho'⟩
          · exact ⟨by omega, hlen, hpos, Nat.le_refl _, xb, aext _ xb hxb, hbb, hbo⟩
        pend_nodup := by
          show ((w.pending ++ [w.buf]).map (·.obj)).Nodup
          rw [List.map_append, List.nodup_append]
          refine ⟨hi.pend_nodup, by simp, ?_⟩
          intro a ha b hb
          simp at hb; subst hb
          simp at ha
          obtain ⟨s, hs, rfl⟩ := ha
          exact (hi.pend_ok s hs).1
        pend_sorted := by
          show ((w.pending ++ [w.buf]).map (·.len)).Pairwise (· ≤ ·)
          rw [List.map_append, List.pairwise_append]
          refine ⟨hi.pend_sorted, by simp, ?_⟩
          intro a ha b hb
          simp at hb; subst hb
          simp at ha
          obtain ⟨s, hs, rfl⟩ := ha
          exact (hi.pend_ok s hs).2.2.2.1
        reg_ok := fun g hg => by
          rcases hi.reg_ok g hg with h0 | ⟨_, ho, _⟩ | ⟨s, hs, ho⟩
          · exact Or.inl h0
          · exact Or.inr (Or.inr ⟨w.buf, by show w.buf ∈ w.pending ++ [w.buf]; simp, ho⟩)
          · exact Or.inr (Or.inr ⟨s, by show s ∈ w.pending ++ [w.buf]; simp [hs], ho⟩)
        reg_w := fun g hg hpos' => reg_w_keeps hk g (hi.reg_w g hg hpos')
        reg_disj := hi.reg_disj }
    · intro o p hp
      obtain ⟨y, hy⟩ := hp.exists hi
      refine ⟨?_, aext.byte? o p y hy⟩
      rcases hp with ⟨s, hs, ho⟩ | ⟨_, ho, _⟩ | ⟨z, hz, hcl⟩
      · exact Or.inl ⟨s, by show s ∈ w.pending ++ [w.buf]; simp [hs], ho⟩
      · exact Or.inl ⟨w.buf, by show w.buf ∈ w.pending ++ [w.buf]; simp, ho⟩
      · exact Or.inr (Or.inr ⟨z, aext o z hz, hcl⟩)
  · rw [if_neg hg]
    exact ⟨WStepOK.refl hi, rfl, rfl, rfl, by show n ≤ w.buf.cap - w.buf.len; omega⟩

theorem wAcquire_ok (w : MWr) (h : Heap) (n : Nat) (hi : WInv w h) (hsz : n + w.buf.len < 2 ^ 64) :
    WStepOK w h (w.acquire h n).1 (w.acquire h n).2 ∧ (w.acquire h n).1.buf.len = w.buf.len ∧
    (w.acquire h n).1.regions = w.regions ∧ (w.acquire h n).1.err = w.err ∧
    w.buf.len + n ≤ (w.acquire h n).1.buf.cap := by
  unfold MWr.acquire
  by_cases hfast : w.buf.len + n ≤ w.buf.cap
  · rw [if_pos hfast]; exact ⟨WStepOK.refl hi, rfl, rfl, rfl, hfast⟩
  · rw [if_neg hfast]
    simp only []
    obtain ⟨a, apos, alen, areg, aerr⟩ := wFirstAlloc_ok w h n hi
    obtain ⟨b, blen, breg, berr, bcap⟩ := wGrow_ok _ _ n a.inv apos (by rw [alen]; exact hsz)
    have := b.inv.len_le
    exact ⟨a.trans b, blen.trans alen, breg.trans areg, berr.trans aerr, by rw [blen, alen] at bcap this; omega⟩

/-- advancing `len` over room that was acquired, optionally handing the room out as a region -/
theorem wAdvance_ok (w : MWr) (h : Heap) (k : Nat) (hi : WInv w h) (hk : w.buf.len + k ≤ w.buf.cap)
    (asRegion : Bool) :
    WStepOK w h { w with buf := { w.buf with len := w.buf.len + k },
                         regions := if asRegion then w.buf.sub w.buf.len (w.buf.len + k) :: w.regions else w.regions } h := by
  have hlen := hi.len_le
  refine ⟨?_, ?_, Keeps.refl _, fun g hg => by cases asRegion <;> simp [hg], fun _ => rfl, rfl⟩
  · exact {
      nofault := hi.nofault
      len_le := hk
      nil_pend := hi.nil_pend
      buf_ok := fun hc => by
        obtain ⟨x, hx, hb, ho, hcl⟩ := hi.buf_ok hc
        exact ⟨x, hx, hb, ho, fun hc' => ⟨(hcl hc').1, by have := (hcl hc').2; show x.wfrom ≤ w.buf.off + (w.buf.len + k); omega⟩⟩
      pend_ok := fun s hs => by
        obtain ⟨a, b, c, d, rest⟩ := hi.pend_ok s hs
        exact ⟨a, b, c, by show s.len ≤ w.buf.len + k; omega, rest⟩
      pend_nodup := hi.pend_nodup
      pend_sorted := hi.pend_sorted
      reg_ok := fun g hg => by
        have hold : ∀ g ∈ w.regions, g.len = 0 ∨
            (0 < w.buf.cap ∧ g.obj = w.buf.obj ∧ g.off + g.len ≤ w.buf.off + (w.buf.len + k)) ∨
            (∃ s ∈ w.pending, g.obj = s.obj) := by
          intro g hg
          rcases hi.reg_ok g hg with h0 | ⟨a, b, c⟩ | h2
          · exact Or.inl h0
          · exact Or.inr (Or.inl ⟨a, b, by omega⟩)
          · exact Or.inr (Or.inr h2)
        cases asRegion
        · exact hold g hg
        · simp only [if_true, List.mem_cons] at hg
          rcases hg with rfl | hg
          · by_cases hk0 : k = 0
            · left; simp [Slice.sub, hk0]
            · right; left
              exact ⟨by show 0 < w.buf.cap; omega, rfl, by simp [Slice.sub]; omega⟩
          · exact hold g hg
      reg_w := fun g hg hpos => by
        cases asRegion
        · exact hi.reg_w g hg hpos
        · simp only [if_true, List.mem_cons] at hg
          rcases hg with rfl | hg
          · have hkpos : 0 < k := by simpa [Slice.sub] using hpos
            obtain ⟨x, hx, hb, ⟨o1, o2⟩, hcl⟩ := hi.buf_ok (by omega)
            refine ⟨x, hx, by simp [Slice.sub]; omega, ?_, fun hc' => by simp [Slice.sub]; exact (hcl hc').2⟩
            cases hd : w.disableCache
            · rw [(o2 hd).1]; decide
            · rcases o1 hd with h1 | h1 <;> (rw [h1]; decide)
          · exact hi.reg_w g hg hpos
      reg_disj := by
        cases asRegion
        · exact hi.reg_disj
        · simp only [if_true, List.pairwise_cons]
          refine ⟨fun g hg => ?_, hi.reg_disj⟩
          unfold Slice.Disjoint
          rcases hi.reg_ok g hg with h0 | ⟨_, b, c⟩ | ⟨s, hs, ho⟩
          · exact Or.inr (Or.inl h0)
          · right; right; right; right
            simp [Slice.sub]; omega
          · right; right; left
            simp only [Slice.sub]; rw [ho]; exact Ne.symm (hi.pend_ok s hs).1 }
  · intro o p hp
    refine ⟨?_, rfl⟩
    rcases hp with hp | ⟨a, b, c⟩ | hp
    · exact Or.inl hp
    · exact Or.inr (Or.inl ⟨a, b, by show p < w.buf.off + (w.buf.len + k); omega⟩)
    · exact Or.inr (Or.inr hp)

theorem wMalloc_ok (w : MWr) (h : Heap) (n : Int) (hi : WInv w h) (hsz : n.toNat + w.buf.len < 2 ^ 64) :
    WStepOK w h (w.malloc h n).2.1 (w.malloc h n).2.2 ∧
    (∀ g, (w.malloc h n).1 = .ok g → g ∈ (w.malloc h n).2.1.regions ∧ g.len = n.toNat) := by
  unfold MWr.malloc
  cases he : w.err with
  | some e => exact ⟨WStepOK.refl hi, fun g hg => by simp at hg⟩
  | none =>
    simp only []
    by_cases hneg : n < 0
    · rw [if_pos hneg]; exact ⟨WStepOK.refl hi, fun g hg => by simp at hg⟩
    · rw [if_neg hneg]
      generalize n.toNat = k at hsz
      obtain ⟨a, alen, areg, aerr, acap⟩ := wAcquire_ok w h k hi hsz
      generalize w.acquire h k = p at a alen areg aerr acap
      have has : decide (p.1.buf.len + k ≤ p.1.buf.cap) = true := decide_eq_true (by omega)
      rw [has]; simp only [assert_true]
      have adv := wAdvance_ok p.1 p.2 k a.inv (by omega) true
      simp only [if_true] at adv
      exact ⟨a.trans adv, fun g hg => by
        simp only [MWRes.ok.injEq] at hg; subst hg
        exact ⟨by simp, by simp [Slice.sub]⟩⟩

theorem wWriteBinary_ok (w : MWr) (h : Heap) (bs : Slice) (hi : WInv w h) (hbs : Readable h bs)
    (hsz : bs.len + w.buf.len < 2 ^ 64) :
    WStepOK w h (w.writeBinary h bs).2.1 (w.writeBinary h bs).2.2 := by
  unfold MWr.writeBinary
  cases he : w.err with
  | some e => exact WStepOK.refl hi
  | none =>
    simp only []
    obtain ⟨a, alen, areg, aerr, acap⟩ := wAcquire_ok w h bs.len hi hsz
    generalize w.acquire h bs.len = p at a alen areg aerr acap
    have hmin : min (p.1.buf.cap - p.1.buf.len) bs.len = bs.len := by omega
    rw [hmin]
    obtain ⟨xs, hxs, hbs1, hbs2⟩ := hbs
    obtain ⟨xs', hxs', hso, _, hsl⟩ := a.keeps _ xs hxs
    have adv := wAdvance_ok p.1 p.2 bs.len a.inv (by omega) false
    simp only [Bool.false_eq_true, if_false] at adv
    by_cases h0 : bs.len = 0
    · rw [h0, copy_zero]
      rw [h0] at adv
      exact a.trans adv
    · have hpos : 0 < p.1.buf.cap := by omega
      obtain ⟨xb, hxb, hbb, ⟨o1, o2⟩, hcl⟩ := a.inv.buf_ok hpos
      have hxbf : xb.owner ≠ .freed := by
        cases hd : p.1.disableCache
        · rw [(o2 hd).1]; decide
        · rcases o1 hd with h1 | h1 <;> (rw [h1]; decide)
      have hbnd : ∀ x, p.2.obj? p.1.buf.obj = some x → p.1.buf.off + p.1.buf.len + bs.len ≤ x.data.length := by
        intro x hx; rw [hxb] at hx; cases hx; omega
      have hss := sameShape_copy p.2 p.1.buf.obj (p.1.buf.off + p.1.buf.len) bs.obj bs.off bs.len hbnd
      have hf : (p.2.copy p.1.buf.obj (p.1.buf.off + p.1.buf.len) bs.obj bs.off bs.len).faults = [] := by
        rw [copy_faults_ok p.2 _ _ _ _ _ xs' xb hxs' hxb (by omega) (by omega) (by rw [hso]; exact hbs2) hxbf
          (fun hc => (hcl hc).2)]
        exact a.inv.nofault
      have hk := Keeps.of_sameShape hss
      have hinv := adv.inv.of_keeps hk hf
      refine a.trans ⟨hinv, ?_, hk, adv.regs, fun _ => by simp [Heap.copy], adv.dc⟩
      intro o q hp
      obtain ⟨hp', _⟩ := adv.frame o q hp
      refine ⟨?_, ?_⟩
      · rcases hp' with hp' | hp' | ⟨y, hy, hcl', hlt⟩
        · exact Or.inl hp'
        · exact Or.inr (Or.inl hp')
        · obtain ⟨y', hy', ho, hwf, _⟩ := hss.obj? o y hy
          exact Or.inr (Or.inr ⟨y', hy', by rw [ho]; exact hcl', by rw [hwf]; exact hlt⟩)
      · apply byte?_copy_out p.2 _ _ _ _ _ o q hbnd
        rcases hp with ⟨s, hs, rfl⟩ | ⟨_, rfl, hlt⟩ | ⟨y, hy, hcl', hlt⟩
        · exact Or.inl (a.inv.pend_ok s hs).1
        · exact Or.inr (Or.inl hlt)
        · by_cases heq : o = p.1.buf.obj
          · subst heq
            rw [hxb] at hy; cases hy
            have := (hcl hcl').2
            exact Or.inr (Or.inl (by omega))
          · exact Or.inl heq

/-! ## Flush -/

/-- the stitching loop: no fault, shapes kept, only the current buffer is written, no allocator call -/
theorem stitch_ok (buf : Slice) (l : List Slice) : ∀ (off : Nat) (h : Heap),
    (∀ s ∈ l, off ≤ s.len ∧ s.len ≤ buf.len ∧ Readable h s) →
    (l.map (·.len)).Pairwise (· ≤ ·) →
    (l ≠ [] → ∃ x, h.obj? buf.obj = some x ∧ buf.off + buf.len ≤ x.data.length ∧ x.owner ≠ .freed ∧
      x.owner ≠ .caller) →
    (memStitch buf l off h).2.faults = h.faults ∧ SameShape h (memStitch buf l off h).2 ∧
    (∀ o, o ≠ buf.obj → (memStitch buf l off h).2.obj? o = h.obj? o) ∧
    (memStitch buf l off h).2.events = h.events ∧ (l = [] → (memStitch buf l off h).2 = h) := by
  induction l with
  | nil => intro off h _ _ _; exact ⟨rfl, SameShape.refl _, fun _ _ => rfl, rfl, fun _ => rfl⟩
  | cons a l ih =>
    intro off h hl hs hb
    obtain ⟨hoa, hab, xa, hxa, hba, hfa⟩ := hl a (by simp)
    obtain ⟨xb, hxb, hbb, hfb, hcb⟩ := hb (by simp)
    unfold memStitch
    have as1 : decide (off ≤ buf.len) = true := decide_eq_true (by omega)
    have as2 : decide (off ≤ a.len) = true := decide_eq_true hoa
    rw [as1, as2]; simp only [assert_true]
    have hmin : min (buf.len - off) (a.len - off) = a.len - off := by omega
    rw [hmin]
    generalize hh1 : h.copy buf.obj (buf.off + off) a.obj (a.off + off) (a.len - off) = h1
    have hbnd : ∀ x, h.obj? buf.obj = some x → buf.off + off + (a.len - off) ≤ x.data.length := by
      intro x hx; rw [hxb] at hx; cases hx; omega
    have hss : SameShape h h1 := by rw [← hh1]; exact sameShape_copy h _ _ _ _ _ hbnd
    have hf1 : h1.faults = h.faults := by
      rw [← hh1]
      exact copy_faults_ok h _ _ _ _ _ xa xb hxa hxb (by omega) (by omega) hfa hfb (fun hc => absurd hc hcb)
    have hne1 : ∀ o, o ≠ buf.obj → h1.obj? o = h.obj? o := fun o ho => by
      rw [← hh1]; exact copy_obj?_ne h _ _ _ _ _ o ho
    have hev1 : h1.events = h.events := by rw [← hh1]; simp [Heap.copy]
    simp only [List.map_cons, List.pairwise_cons] at hs
    have hl' : ∀ s ∈ l, off + (a.len - off) ≤ s.len ∧ s.len ≤ buf.len ∧ Readable h1 s := by
      intro s hsm
      obtain ⟨_, h2, x, hx, hbx, hfx⟩ := hl s (by simp [hsm])
      have := hs.1 s.len (List.mem_map_of_mem hsm)
      obtain ⟨x', hx', ho, _, hlen⟩ := hss.obj? _ x hx
      exact ⟨by omega, h2, x', hx', by omega, by rw [ho]; exact hfx⟩
    have hb' : l ≠ [] → ∃ x, h1.obj? buf.obj = some x ∧ buf.off + buf.len ≤ x.data.length ∧
        x.owner ≠ .freed ∧ x.owner ≠ .caller := fun _ => by
      obtain ⟨x', hx', ho, _, hlen⟩ := hss.obj? _ xb hxb
      exact ⟨x', hx', by omega, by rw [ho]; exact hfb, by rw [ho]; exact hcb⟩
    obtain ⟨g1, g2, g3, g4, _⟩ := ih (off + (a.len - off)) h1 hl' hs.2 hb'
    exact ⟨g1.trans hf1, hss.trans g2, fun o ho => (g3 o ho).trans (hne1 o ho), g4.trans hev1,
      fun hnil => by simp at hnil⟩

/-- the state after a completed Flush (and the initial state): no buffer, nothing parked, no region -/
theorem WInv.nilState (w : MWr) (h : Heap) (hf : h.faults = []) (hb : w.buf = Slice.nil)
    (hp : w.pending = []) (hr : w.regions = []) : WInv w h where
  nofault := hf
  len_le := by rw [hb]; exact Nat.le_refl _
  nil_pend := fun _ => hp
  buf_ok := fun hc => by rw [hb] at hc; simp [Slice.nil] at hc
  pend_ok := fun s hs => by rw [hp] at hs; simp at hs
  pend_nodup := by rw [hp]; simp
  pend_sorted := by rw [hp]; simp
  reg_ok := fun g hg => by rw [hr] at hg; simp at hg
  reg_w := fun g hg => by rw [hr] at hg; simp at hg
  reg_disj := by rw [hr]; simp

/-- caller memory below its write limit: still there, still the caller's, unchanged -/
def CallerLow (h h' : Heap) : Prop := ∀ o x, h.obj? o = some x → x.owner = .caller →
  ∃ x', h'.obj? o = some x' ∧ x'.owner = .caller ∧ x'.wfrom = x.wfrom ∧ x'.data.length = x.data.length ∧
    ∀ p, p < x.wfrom → x'.data[p]? = x.data[p]?

theorem CallerLow.refl (h : Heap) : CallerLow h h := fun _ x hx hc => ⟨x, hx, hc, rfl, rfl, fun _ _ => rfl⟩
theorem CallerLow.trans {a b c : Heap} (h1 : CallerLow a b) (h2 : CallerLow b c) : CallerLow a c :=
  fun o x hx hc => by
    obtain ⟨y, hy, c1, w1, l1, d1⟩ := h1 o x hx hc
    obtain ⟨z, hz, c2, w2, l2, d2⟩ := h2 o y hy c1
    exact ⟨z, hz, c2, w2.trans w1, l2.trans l1, fun p hp => (d2 p (by rw [w1]; exact hp)).trans (d1 p hp)⟩

theorem WStepOK.callerLow {w w' : MWr} {h h' : Heap} (s : WStepOK w h w' h') : CallerLow h h' := by
  intro o x hx hc
  obtain ⟨x', hx', ho, hw, hl⟩ := s.keeps o x hx
  refine ⟨x', hx', by rw [ho]; exact hc, hw, hl, fun p hp => ?_⟩
  have := (s.frame o p (Or.inr (Or.inr ⟨x, hx, hc, hp⟩))).2
  rw [byte?_of_obj? h' o p x' hx', byte?_of_obj? h o p x hx] at this
  exact this

/-- the frees of a successful Flush of a pool-backed writer: current buffer, then the parked ones -/
theorem freeBufs_ok (w : MWr) (h : Heap) (hi : WInv w h) (hd : w.disableCache = false) :
    ((if w.buf.cap > 0 then h.free w.buf else h).freeAll w.pending).faults = [] ∧
    NonLiveKept h ((if w.buf.cap > 0 then h.free w.buf else h).freeAll w.pending) := by
  by_cases hpos : w.buf.cap > 0
  · rw [if_pos hpos]
    obtain ⟨xb, hxb, _, ⟨_, o2⟩, _⟩ := hi.buf_ok hpos
    obtain ⟨hlive, hoff, hcapl⟩ := o2 hd
    obtain ⟨f1, _, _, f4, _⟩ := free_live h w.buf xb hxb hlive hoff hcapl hpos
    have hpl : ∀ s ∈ w.pending, ∃ x, (h.free w.buf).obj? s.obj = some x ∧ x.owner = .live ∧ s.off = 0 ∧
        s.cap = x.data.length ∧ 0 < s.cap := by
      intro s hs
      obtain ⟨hne, _, c, _, x, hx, _, _, p2⟩ := hi.pend_ok s hs
      obtain ⟨l1, l2, l3⟩ := p2 hd
      exact ⟨x, by rw [f4 _ hne]; exact hx, l1, l2, l3, c⟩
    obtain ⟨g1, _, g3, _⟩ := freeAll_ok w.pending (h.free w.buf) hpl hi.pend_nodup
    refine ⟨by rw [g1, f1]; exact hi.nofault, ?_⟩
    intro o x hx hnl
    have hne : o ≠ w.buf.obj := by
      intro heq; subst heq; rw [hxb] at hx; cases hx; exact hnl hlive
    rw [g3 o, f4 o hne]; exact hx
    intro s hs heq
    obtain ⟨_, _, _, _, y, hy, _, _, p2⟩ := hi.pend_ok s hs
    rw [heq, hx] at hy; cases hy; exact hnl (p2 hd).1
  · rw [if_neg hpos]
    have : w.pending = [] := hi.nil_pend (by omega)
    rw [this]
    exact ⟨hi.nofault, fun o x hx _ => hx⟩

theorem CallerLow.of_nonLiveKept {h h' : Heap} (hk : NonLiveKept h h') : CallerLow h h' :=
  fun o x hx hc => ⟨x, hk o x hx (by rw [hc]; decide), hc, rfl, rfl, fun _ _ => rfl⟩

theorem wFlush_ok (w : MWr) (h : Heap) (hi : WInv w h) :
    WInv (w.flush h).2.1 (w.flush h).2.2 ∧ CallerLow h (w.flush h).2.2 ∧
    (w.disableCache = true → (w.flush h).2.2.events = h.events) ∧
    (w.flush h).2.1.disableCache = w.disableCache := by
  unfold MWr.flush
  cases he : w.err with
  | some e => exact ⟨hi, CallerLow.refl _, fun _ => rfl, rfl⟩
  | none =>
    simp only []
    by_cases hnil : w.isNil = true
    · rw [if_pos hnil]; exact ⟨hi, CallerLow.refl _, fun _ => rfl, rfl⟩
    · rw [if_neg hnil]
      have hlen := hi.len_le
      -- every parked buffer is readable, they are sorted by length, the current buffer is writable
      have hl : ∀ s ∈ w.pending, 0 ≤ s.len ∧ s.len ≤ w.buf.len ∧ Readable h s := by
        intro s hs
        obtain ⟨_, b, _, d, x, hx, hb, o1, o2⟩ := hi.pend_ok s hs
        refine ⟨Nat.zero_le _, d, x, hx, by omega, ?_⟩
        cases hd : w.disableCache
        · rw [(o2 hd).1]; decide
        · rcases o1 hd with h1 | h1 <;> (rw [h1]; decide)
      have hb : w.pending ≠ [] → ∃ x, h.obj? w.buf.obj = some x ∧ w.buf.off + w.buf.len ≤ x.data.length ∧
          x.owner ≠ .freed ∧ x.owner ≠ .caller := by
        intro hne
        have hpos : 0 < w.buf.cap := by
          rcases Nat.eq_zero_or_pos w.buf.cap with h0 | h0
          · exact absurd (hi.nil_pend h0) hne
          · exact h0
        obtain ⟨x, hx, hbb, ⟨o1, o2⟩, hcl⟩ := hi.buf_ok hpos
        have hnc : x.owner ≠ .caller := fun hc => hne (hcl hc).1
        refine ⟨x, hx, by omega, ?_, hnc⟩
        cases hd : w.disableCache
        · rw [(o2 hd).1]; decide
        · rcases o1 hd with h1 | h1
          · rw [h1]; decide
          · exact absurd h1 hnc
      obtain ⟨s1, s2, s3, s4, s5⟩ := stitch_ok w.buf w.pending 0 h hl hi.pend_sorted hb
      generalize memStitch w.buf w.pending 0 h = st at s1 s2 s3 s4 s5
      -- the sink reads the buffer
      have hrd : (st.2.read w.buf.obj w.buf.off w.buf.len).2 = st.2 := by
        unfold Heap.read; simp only []
        by_cases hl0 : w.buf.len = 0
        · rw [hl0, chk_zero]
        · have hpos : 0 < w.buf.cap := by omega
          obtain ⟨x, hx, hbb, ⟨o1, o2⟩, _⟩ := hi.buf_ok hpos
          obtain ⟨x', hx', ho, _, hlx⟩ := s2.obj? _ x hx
          apply chk_read_ok st.2 _ _ _ x' hx' (by omega)
          rw [ho]
          cases hd : w.disableCache
          · rw [(o2 hd).1]; decide
          · rcases o1 hd with h1 | h1 <;> (rw [h1]; decide)
      rw [hrd]
      have hk : Keeps h st.2 := Keeps.of_sameShape s2
      have hf2 : st.2.faults = [] := by rw [s1]; exact hi.nofault
      -- caller memory: the stitch writes the current buffer only, and that is not the caller's when
      -- anything is parked
      have hcl2 : CallerLow h st.2 := by
        intro o x hx hc
        by_cases hp0 : w.pending = []
        · rw [s5 hp0]; exact ⟨x, hx, hc, rfl, rfl, fun _ _ => rfl⟩
        · obtain ⟨xb, hxb, _, _, hncb⟩ := hb hp0
          have hne : o ≠ w.buf.obj := by
            intro heq; subst heq; rw [hxb] at hx; cases hx; exact hncb hc
          exact ⟨x, by rw [s3 o hne]; exact hx, hc, rfl, rfl, fun _ _ => rfl⟩
      by_cases hd : w.disableCache = true
      · -- bytes writer: the buffer is handed to the caller, nothing is freed
        rw [if_pos hd]
        exact ⟨WInv.nilState _ _ hf2 rfl rfl rfl, hcl2, fun _ => s4, rfl⟩
      · -- pool-backed writer
        rw [if_neg hd]
        have hd' : w.disableCache = false := by simpa using hd
        have hi2 := hi.of_keeps hk hf2
        obtain ⟨q1, q2⟩ := freeBufs_ok w st.2 hi2 hd'
        cases hok : w.sink.okLeft with
        | some k =>
          cases k with
          | zero =>
            simp only []
            exact ⟨hi2.of_eq rfl rfl rfl rfl, hcl2, fun hd'' => absurd hd'' hd, trivial⟩
          | succ k =>
            simp only []
            exact ⟨WInv.nilState _ _ q1 rfl rfl rfl, hcl2.trans (CallerLow.of_nonLiveKept q2),
              fun hd'' => absurd hd'' hd, trivial⟩
        | none =>
          simp only []
          exact ⟨WInv.nilState _ _ q1 rfl rfl rfl, hcl2.trans (CallerLow.of_nonLiveKept q2),
            fun hd'' => absurd hd'' hd, trivial⟩

end Verif.Mem

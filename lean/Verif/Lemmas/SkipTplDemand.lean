/-
  Lemmas/SkipTplDemand: SkipDecoderTpl.Skip over a back end that serves a given list of requests.

  `DCursor B rem P Srv`: `Srv s ks` = "state `s` can serve the requests `ks`, in this order"; serving the
  head request returns exactly the next `k` bytes of `rem s`, advances by `k`, and the tail can still be
  served.  `skipTplAt_dem`: if refTpl accepts a value at the front of `rem s` and the back end can
  serve `tplTrace` of it (Spec/SkipDemand.lean) followed by `ks`, Skip succeeds, consumes exactly the
  value, and `ks` can still be served.

  Instance: ReaderSkipDecoder's read-full back end with `Srv := servesLen` (`reader_dcursor`), hence
  `readerDecNext_demand`: `readerLive t stream script` ⇒ Next(t) returns exactly the value.
-/
import Verif.Spec.SkipDemand
import Verif.Lemmas.SkipTplReader
namespace Verif

structure DCursor {σ : Type} (B : Backend σ) (rem : σ → Bytes) (P : σ → Prop) (Srv : σ → List Nat → Prop) :
    Prop where
  step : ∀ s k ks, P s → Srv s (k :: ks) →
    ∃ s', B.skipN s k = .ok ((rem s).take k, s') ∧ k ≤ (rem s).length ∧ rem s' = (rem s).drop k ∧
      P s' ∧ Srv s' ks
  avail : ∀ s, P s → (rem s).length ≤ B.avail s

section
variable {σ : Type} {B : Backend σ} {rem : σ → Bytes} {P : σ → Prop} {Srv : σ → List Nat → Prop}

/-- the shape of all statements below: `x` succeeds, consumes `n` bytes, `ks` can still be served -/
def Dm (rem : σ → Bytes) (P : σ → Prop) (Srv : σ → List Nat → Prop) (x : TOut σ) (n : Nat) (ks : List Nat)
    (s : σ) : Prop :=
  ∃ s', x = .ok s' ∧ rem s' = (rem s).drop n ∧ P s' ∧ Srv s' ks

theorem tplListLoopD {rec : UInt8 → σ → TOut σ} {f : Bytes → Option Nat} {g : Bytes → List Nat} (vt : UInt8)
    (HR : ∀ s n ks, P s → f (rem s) = some n → Srv s (g (rem s) ++ ks) → Dm rem P Srv (rec vt s) n ks s) :
    ∀ cnt s n ks, P s → refN f cnt (rem s) = some n → Srv s (trN f g cnt (rem s) ++ ks) →
      Dm rem P Srv (tplListLoop rec vt cnt s) n ks s := by
  intro cnt
  induction cnt with
  | zero =>
    intro s n ks hp hr hs
    simp only [refN, Option.some.injEq] at hr
    subst hr
    exact ⟨s, rfl, by simp, hp, by simpa [trN] using hs⟩
  | succ cnt ih =>
    intro s n ks hp hr hs
    simp only [refN] at hr
    simp only [trN] at hs
    cases hf : f (rem s) with
    | none => simp [hf] at hr
    | some k =>
      simp only [hf] at hr hs
      cases hrr : refN f cnt ((rem s).drop k) with
      | none => simp [hrr] at hr
      | some r =>
        simp only [hrr, Option.some.injEq] at hr
        subst hr
        rw [List.append_assoc] at hs
        obtain ⟨s1, hx, hrem1, hp1, hs1⟩ := HR s k _ hp hf hs
        rw [← hrem1] at hrr hs1
        obtain ⟨s2, hy, hrem2, hp2, hs2⟩ := ih s1 r ks hp1 hrr hs1
        refine ⟨s2, ?_, by rw [hrem2, hrem1, List.drop_drop], hp2, hs2⟩
        simp only [tplListLoop, hx, Out.bind_eq, Out.bind_ok, hy]

theorem tplMapLoopD {rec : UInt8 → σ → TOut σ} {fk fv : Bytes → Option Nat} {gk gv : Bytes → List Nat}
    (kt vt : UInt8)
    (HK : ∀ s n ks, P s → fk (rem s) = some n → Srv s (gk (rem s) ++ ks) → Dm rem P Srv (rec kt s) n ks s)
    (HV : ∀ s n ks, P s → fv (rem s) = some n → Srv s (gv (rem s) ++ ks) → Dm rem P Srv (rec vt s) n ks s) :
    ∀ cnt s n ks, P s → refKV fk fv cnt (rem s) = some n → Srv s (trKV fk fv gk gv cnt (rem s) ++ ks) →
      Dm rem P Srv (tplMapLoop rec kt vt cnt s) n ks s := by
  intro cnt
  induction cnt with
  | zero =>
    intro s n ks hp hr hs
    simp only [refKV, Option.some.injEq] at hr
    subst hr
    exact ⟨s, rfl, by simp, hp, by simpa [trKV] using hs⟩
  | succ cnt ih =>
    intro s n ks hp hr hs
    simp only [refKV] at hr
    simp only [trKV] at hs
    cases hf : fk (rem s) with
    | none => simp [hf] at hr
    | some k =>
      simp only [hf] at hr hs
      cases hg : fv ((rem s).drop k) with
      | none => simp [hg] at hr
      | some v =>
        simp only [hg] at hr hs
        cases hrr : refKV fk fv cnt ((rem s).drop (k + v)) with
        | none => simp [hrr] at hr
        | some r =>
          simp only [hrr, Option.some.injEq] at hr
          subst hr
          rw [List.append_assoc, List.append_assoc] at hs
          obtain ⟨s1, hx, hrem1, hp1, hs1⟩ := HK s k _ hp hf hs
          rw [← hrem1] at hg hs1
          obtain ⟨s2, hy, hrem2, hp2, hs2⟩ := HV s1 v _ hp1 hg hs1
          have hrem2' : rem s2 = (rem s).drop (k + v) := by rw [hrem2, hrem1, List.drop_drop]
          rw [← hrem2'] at hrr hs2
          obtain ⟨s3, hz, hrem3, hp3, hs3⟩ := ih s2 r ks hp2 hrr hs2
          refine ⟨s3, ?_, by rw [hrem3, hrem2', List.drop_drop], hp3, hs3⟩
          simp only [tplMapLoop, hx, Out.bind_eq, Out.bind_ok, hy, hz]

theorem tplStructLoopD (hC : DCursor B rem P Srv) {rec : UInt8 → σ → TOut σ} {f : UInt8 → Bytes → Option Nat}
    {g : UInt8 → Bytes → List Nat} (hG : ∀ t, Good (f t))
    (HR : ∀ t s n ks, P s → f t (rem s) = some n → Srv s (g t (rem s) ++ ks) → Dm rem P Srv (rec t s) n ks s) :
    ∀ fs fm s n ks, P s → (rem s).length < fm → refFields f fs (rem s) = some n →
      Srv s (trFields f g fs (rem s) ++ ks) → Dm rem P Srv (tplStructLoop B rec fm s) n ks s := by
  intro fs
  induction fs with
  | zero => intro fm s n ks _ _ hr _; simp [refFields] at hr
  | succ fs ih =>
    intro fm s n ks hp hfm hr hs
    cases fm with
    | zero => omega
    | succ fm =>
      cases hrem : rem s with
      | nil => rw [hrem] at hr; simp [refFields] at hr
      | cons t rest =>
        rw [hrem] at hr hs
        simp only [refFields] at hr
        simp only [trFields] at hs
        by_cases ht : t = 0
        · simp only [ht, if_true, Option.some.injEq] at hr
          simp only [ht, if_true, List.cons_append, List.nil_append] at hs
          subst hr
          obtain ⟨s1, hx, _, hrem1, hp1, hs1⟩ := hC.step s 1 ks hp hs
          rw [hrem] at hx hrem1
          simp only [List.take_succ_cons, List.take_zero, List.drop_succ_cons, List.drop_zero] at hx hrem1
          refine ⟨s1, ?_, by rw [hrem1, hrem]; rfl, hp1, hs1⟩
          have hi : idx [(0 : UInt8)] 0 = .ok 0 := by simp [idx]
          simp only [tplStructLoop, hx, ht, Out.bind_eq, Out.bind_ok, hi, T_STOP_eq, if_true, Out.pure_eq]
        · simp only [ht, if_false] at hr hs
          by_cases hl : rest.length < 2
          · simp [hl] at hr
          · simp only [hl, if_false] at hr
            cases hf : f t (rest.drop 2) with
            | none => simp [hf] at hr
            | some k =>
              simp only [hf] at hr hs
              cases hrr : refFields f fs (rest.drop (2 + k)) with
              | none => simp [hrr] at hr
              | some r =>
                simp only [hrr, Option.some.injEq] at hr
                subst hr
                simp only [List.cons_append, List.append_assoc] at hs
                obtain ⟨s1, hx, _, hrem1, hp1, hs1⟩ := hC.step s 1 _ hp hs
                rw [hrem] at hx hrem1
                simp only [List.take_succ_cons, List.take_zero, List.drop_succ_cons, List.drop_zero] at hx hrem1
                obtain ⟨s2, hy, _, hrem2, hp2, hs2⟩ := hC.step s1 2 _ hp1 hs1
                rw [hrem1] at hy hrem2
                rw [← hrem2] at hf hs2
                obtain ⟨s3, hz, hrem3, hp3, hs3⟩ := HR t s2 k _ hp2 hf hs2
                have hrem3' : rem s3 = rest.drop (2 + k) := by rw [hrem3, hrem2, List.drop_drop]
                have hk := hG t _ k hf
                rw [hrem2] at hk
                simp only [List.length_drop] at hk
                rw [← hrem3'] at hrr hs3
                have hlen : (rem s3).length < fm := by
                  rw [hrem3']; rw [hrem] at hfm; simp at hfm ⊢; omega
                obtain ⟨s4, hw, hrem4, hp4, hs4⟩ := ih fm s3 r ks hp3 hlen hrr hs3
                refine ⟨s4, ?_, ?_, hp4, hs4⟩
                · have hi : idx [t] 0 = .ok t := by simp [idx]
                  simp only [tplStructLoop, hx, Out.bind_eq, Out.bind_ok, hi, T_STOP_eq, ht, if_false, hy, hz, hw]
                · rw [hrem4, hrem3', List.drop_drop]
                  have : 3 + k + r = (2 + k + r) + 1 := by omega
                  rw [this, hrem, List.drop_succ_cons]

theorem skipND (hC : DCursor B rem P Srv) (s : σ) (k : Nat) (ks : List Nat) (hp : P s) (hs : Srv s (k :: ks)) :
    Dm rem P Srv (do let (_, s1) ← B.skipN s k; pure s1) k ks s := by
  obtain ⟨s1, hx, _, hrem1, hp1, hs1⟩ := hC.step s k ks hp hs
  exact ⟨s1, by simp [hx], hrem1, hp1, hs1⟩

/-- SkipDecoderTpl.Skip over a back end that can serve the value's requests -/
theorem skipTplAt_dem (hC : DCursor B rem P Srv) :
    ∀ d t s n ks, P s → refTpl d t (rem s) = some n → Srv s (tplTrace d t (rem s) ++ ks) →
      Dm rem P Srv (skipTplAt B d t s) n ks s := by
  intro d
  induction d with
  | zero => intro t s n ks _ hr _; simp [refTpl] at hr
  | succ d ih =>
    intro t s n ks hp hr hs
    have hG := refTpl_good d
    simp only [refTpl] at hr
    unfold layerG at hr
    simp only [tplTrace] at hs
    simp only [skipTplAt, typeSize_eq, Out.bind_eq, Out.bind_ok]
    by_cases hf : 0 < fixedSize t
    · have : ((fixedSize t : Nat) : Int) > 0 := by omega
      simp only [this, hf, if_true, Int.toNat_natCast]
      simp only [gt_iff_lt, hf, if_true] at hr hs
      split at hr
      · simp only [Option.some.injEq] at hr
        subst hr
        have := skipND hC s (fixedSize t) ks hp (by simpa using hs)
        simpa using this
      · cases hr
    · have h0 : fixedSize t = 0 := by omega
      simp only [h0, Int.natCast_zero, gt_iff_lt, Int.lt_irrefl, Nat.lt_irrefl, if_false,
        T_STRING_eq, T_MAP_eq, T_LIST_eq, T_SET_eq, T_STRUCT_eq]
      simp only [h0, gt_iff_lt, Nat.lt_irrefl, if_false] at hr hs
      by_cases hstr : t = TT.STRING
      · simp only [hstr, if_true] at hr hs ⊢
        unfold refStr at hr
        split at hr
        · rename_i hc
          obtain ⟨h4, hn, hfit⟩ := hc
          simp only [Option.some.injEq] at hr
          subst hr
          simp only [List.cons_append, List.nil_append] at hs
          obtain ⟨s1, hx, _, hrem1, hp1, hs1⟩ := hC.step s 4 _ hp hs
          obtain ⟨s2, hy, _, hrem2, hp2, hs2⟩ := hC.step s1 _ _ hp1 hs1
          have hl4 : 4 ≤ ((rem s).take 4).length := by simp; omega
          have hlt := rd32_lt (rem s)
          have hnn : ¬ toI32 (rd32 (rem s)) < 0 := by rw [toI32_neg_iff _ hlt]; simpa using hn
          refine ⟨s2, ?_, by rw [hrem2, hrem1, List.drop_drop], hp2, hs2⟩
          simp only [hx, Out.bind_ok, u32of_ok _ hl4, rd32_take _ 4 (by omega) h4, hnn, if_false,
            toI32_toNat _ hn, hy, Out.pure_eq]
        · cases hr
      · simp only [hstr, if_false] at hr hs ⊢
        by_cases hst : t = TT.STRUCT
        · simp only [hst, if_true] at hr hs ⊢
          have hav := hC.avail s hp
          exact tplStructLoopD hC hG (fun t s n ks hp hr hs => ih t s n ks hp hr hs)
            ((rem s).length + 1) (B.avail s + 1) s n ks hp (by omega) hr hs
        · simp only [hst, if_false] at hr hs ⊢
          by_cases hm : t = TT.MAP
          · subst hm
            simp only [show ¬ (TT.MAP = TT.LIST ∨ TT.MAP = TT.SET) by decide,
              show ¬ (TT.MAP = TT.SET ∨ TT.MAP = TT.LIST) by decide, if_true, if_false] at hr hs ⊢
            unfold mapBody at hr
            match hrm : rem s, hr, hs with
            | [], hr, _ => cases hr
            | [_], hr, _ => cases hr
            | kt :: vt :: rest, hr, hs =>
              simp only at hr hs
              split at hr
              · rename_i hc
                obtain ⟨hrest, hn⟩ := hc
                simp only [List.cons_append] at hs
                obtain ⟨s1, hx, _, hrem1, hp1, hs1⟩ := hC.step s 6 _ hp hs
                rw [hrm] at hx hrem1
                have e0 : idx (List.take 6 (kt :: vt :: rest)) 0 = .ok kt := by simp [idx]
                have e1 : idx (List.take 6 (kt :: vt :: rest)) 1 = .ok vt := by simp [idx]
                have e2 : u32of (List.drop 2 (List.take 6 (kt :: vt :: rest))) = .ok (rd32 rest) := by
                  have : List.drop 2 (List.take 6 (kt :: vt :: rest)) = List.take 4 rest := by simp
                  rw [this, u32of_ok _ (by simp; omega), rd32_take rest 4 (by omega) hrest]
                have hlt := rd32_lt rest
                have hnn : ¬ toI32 (rd32 rest) < 0 := by rw [toI32_neg_iff _ hlt]; simpa using hn
                have hrem1' : rem s1 = List.drop 4 rest := by simpa using hrem1
                simp only [hx, Out.bind_ok, e0, e1, e2, hnn, if_false, toI32_toNat _ hn]
                by_cases hfast : ((fixedSize kt : Nat) : Int) > 0 ∧ ((fixedSize vt : Nat) : Int) > 0
                · have hk : 0 < fixedSize kt := by omega
                  have hv : 0 < fixedSize vt := by omega
                  simp only [hfast, and_self, if_true, Int.toNat_natCast]
                  simp only [hk, hv, gt_iff_lt, and_self, if_true, List.cons_append, List.nil_append] at hs1
                  have hK : tplK (refTpl d) kt vt = fixedFn kt := by unfold tplK; simp [hk, hv]
                  have hV : tplV (refTpl d) kt vt = fixedFn vt := by unfold tplV; simp [hk, hv]
                  rw [hK, hV, refKV_fixed (fixedSize kt) (fixedSize vt) hk hv (fixedFn kt) (fixedFn vt)
                    (fun _ => rfl) (fun _ => rfl)] at hr
                  split at hr
                  · simp only [Option.map_some, Option.some.injEq] at hr
                    subst hr
                    obtain ⟨s2, hy, hrem2, hp2, hs2⟩ := skipND hC s1 _ ks hp1 hs1
                    refine ⟨s2, by simpa using hy, ?_, hp2, hs2⟩
                    rw [hrem2, hrem1', List.drop_drop]
                    have : 6 + rd32 rest * (fixedSize kt + fixedSize vt) =
                        (4 + rd32 rest * (fixedSize kt + fixedSize vt)) + 2 := by omega
                    rw [this, hrm]; rfl
                  · simp at hr
                · simp only [hfast, if_false]
                  have hnf : ¬ (0 < fixedSize kt ∧ 0 < fixedSize vt) := by
                    intro h; apply hfast; omega
                  simp only [gt_iff_lt, hnf, if_false] at hs1
                  have hK : tplK (refTpl d) kt vt = refTpl d kt := by
                    unfold tplK; split
                    · rename_i hc; exact absurd hc hnf
                    · rfl
                  have hV : tplV (refTpl d) kt vt = refTpl d vt := by
                    unfold tplV; split
                    · rename_i hc; exact absurd hc hnf
                    · rfl
                  rw [hK, hV] at hr
                  cases hrr : refKV (refTpl d kt) (refTpl d vt) (rd32 rest) (List.drop 4 rest) with
                  | none => simp [hrr] at hr
                  | some r =>
                    simp only [hrr, Option.map_some, Option.some.injEq] at hr
                    subst hr
                    rw [← hrem1'] at hrr hs1
                    obtain ⟨s2, hy, hrem2, hp2, hs2⟩ := tplMapLoopD (rem := rem) (P := P) (Srv := Srv) kt vt
                      (fun s n ks hp hr hs => ih kt s n ks hp hr hs)
                      (fun s n ks hp hr hs => ih vt s n ks hp hr hs) (rd32 rest) s1 r ks hp1 hrr hs1
                    refine ⟨s2, hy, ?_, hp2, hs2⟩
                    rw [hrem2, hrem1', List.drop_drop]
                    have : 6 + r = (4 + r) + 2 := by omega
                    rw [this, hrm]; rfl
              · cases hr
          · simp only [hm, if_false] at hr hs ⊢
            by_cases hl : t = TT.LIST ∨ t = TT.SET
            · have hl' : t = TT.SET ∨ t = TT.LIST := hl.symm
              simp only [hl, hl', if_true] at hr hs ⊢
              unfold listBody at hr
              match hrm : rem s, hr, hs with
              | [], hr, _ => cases hr
              | et :: rest, hr, hs =>
                simp only at hr hs
                split at hr
                · rename_i hc
                  obtain ⟨hrest, hn⟩ := hc
                  simp only [List.cons_append] at hs
                  obtain ⟨s1, hx, _, hrem1, hp1, hs1⟩ := hC.step s 5 _ hp hs
                  rw [hrm] at hx hrem1
                  have e0 : idx (List.take 5 (et :: rest)) 0 = .ok et := by simp [idx]
                  have e2 : u32of (List.drop 1 (List.take 5 (et :: rest))) = .ok (rd32 rest) := by
                    have : List.drop 1 (List.take 5 (et :: rest)) = List.take 4 rest := by simp
                    rw [this, u32of_ok _ (by simp; omega), rd32_take rest 4 (by omega) hrest]
                  have hlt := rd32_lt rest
                  have hnn : ¬ toI32 (rd32 rest) < 0 := by rw [toI32_neg_iff _ hlt]; simpa using hn
                  have hrem1' : rem s1 = List.drop 4 rest := by simpa using hrem1
                  simp only [hx, Out.bind_ok, e0, e2, hnn, if_false, toI32_toNat _ hn]
                  by_cases hfast : ((fixedSize et : Nat) : Int) > 0
                  · have hv : 0 < fixedSize et := by omega
                    simp only [hfast, if_true, Int.toNat_natCast]
                    simp only [hv, gt_iff_lt, if_true, List.cons_append, List.nil_append] at hs1
                    have hL : gFix (refTpl d) et = fixedFn et := by funext b; unfold gFix; simp [hv]
                    rw [hL, refN_fixed (fixedSize et) hv (fixedFn et) (fun _ => rfl)] at hr
                    split at hr
                    · simp only [Option.map_some, Option.some.injEq] at hr
                      subst hr
                      obtain ⟨s2, hy, hrem2, hp2, hs2⟩ := skipND hC s1 _ ks hp1 hs1
                      refine ⟨s2, by simpa using hy, ?_, hp2, hs2⟩
                      rw [hrem2, hrem1', List.drop_drop]
                      have : 5 + rd32 rest * fixedSize et = (4 + rd32 rest * fixedSize et) + 1 := by omega
                      rw [this, hrm]; rfl
                    · simp at hr
                  · simp only [hfast, if_false]
                    have hnf : ¬ 0 < fixedSize et := by omega
                    simp only [gt_iff_lt, hnf, if_false] at hs1
                    have hL : gFix (refTpl d) et = refTpl d et := by
                      funext b; unfold gFix; simp [hnf]
                    rw [hL] at hr
                    cases hrr : refN (refTpl d et) (rd32 rest) (List.drop 4 rest) with
                    | none => simp [hrr] at hr
                    | some r =>
                      simp only [hrr, Option.map_some, Option.some.injEq] at hr
                      subst hr
                      rw [← hrem1'] at hrr hs1
                      obtain ⟨s2, hy, hrem2, hp2, hs2⟩ := tplListLoopD (rem := rem) (P := P) (Srv := Srv) et
                        (fun s n ks hp hr hs => ih et s n ks hp hr hs) (rd32 rest) s1 r ks hp1 hrr hs1
                      refine ⟨s2, hy, ?_, hp2, hs2⟩
                      rw [hrem2, hrem1', List.drop_drop]
                      have : 5 + r = (4 + r) + 1 := by omega
                      rw [this, hrm]; rfl
                · cases hr
            · simp only [hl, if_false] at hr
              have hm' : ¬ t = TT.MAP := hm
              simp [hm'] at hr
end

end Verif

namespace Verif

/-! ## the read-full back end serves what `servesLen` says -/

theorem fullLen_zero (script : List Resp) (slen : Nat) : fullLen script slen 0 = some (script, slen) := by
  cases script <;> rfl

/-- `fullLen` (lengths only) predicts the io.ReadFull loop of ReaderSkipDecoder.SkipN -/
theorem fullLen_read : ∀ (fuel : Nat) (stream : Bytes) (script : List Resp) (n : Nat) (acc : Bytes)
    (script' : List Resp) (l' : Nat), acc.length ≤ n → script.length < fuel →
    fullLen script stream.length (n - acc.length) = some (script', l') →
    n - acc.length ≤ stream.length ∧ l' = stream.length - (n - acc.length) ∧
    ∃ e, readFullLoop fuel ⟨stream, script⟩ n acc =
      (acc ++ stream.take (n - acc.length), e, ⟨stream.drop (n - acc.length), script'⟩) := by
  intro fuel
  induction fuel with
  | zero => intro stream script n acc script' l' _ hf _; omega
  | succ fuel ih =>
    intro stream script n acc script' l' hacc hf hfl
    simp only [readFullLoop]
    by_cases hdone : acc.length ≥ n
    · have h0 : n - acc.length = 0 := by omega
      rw [h0, fullLen_zero] at hfl
      simp only [Option.some.injEq, Prod.mk.injEq] at hfl
      obtain ⟨h1, h2⟩ := hfl
      subst h1 h2
      simp only [hdone, if_true, h0, List.take_zero, List.append_nil, List.drop_zero, Nat.sub_zero]
      exact ⟨Nat.zero_le _, trivial, none, rfl⟩
    · simp only [hdone, if_false]
      obtain ⟨m, hm⟩ : ∃ m, n - acc.length = m + 1 := ⟨n - acc.length - 1, by omega⟩
      rw [hm] at hfl ⊢
      cases script with
      | nil => simp [fullLen] at hfl
      | cons r rest =>
        simp only [fullLen] at hfl
        simp only [Src.read]
        generalize hdd : min (min r.k (m + 1)) stream.length = d at hfl ⊢
        have hd1 : d ≤ m + 1 := by omega
        have hd2 : d ≤ stream.length := by omega
        have hlen' : (acc ++ List.take d stream).length = acc.length + d := by
          rw [List.length_append, List.length_take]; omega
        have hrest : rest.length < fuel := by simp at hf; omega
        by_cases hfull : d ≥ m + 1
        · have hdm : d = m + 1 := by omega
          simp only [hfull, if_true, Option.some.injEq, Prod.mk.injEq] at hfl
          obtain ⟨h1, h2⟩ := hfl
          subst h1 h2
          refine ⟨by omega, rfl, ?_⟩
          cases herr : r.err with
          | some e => exact ⟨some e, by simp only [hdm]⟩
          | none =>
            simp only []
            have hn0 : n - (acc ++ List.take d stream).length = 0 := by rw [hlen']; omega
            obtain ⟨_, _, e, hx⟩ := ih (List.drop d stream) rest n (acc ++ List.take d stream) rest
              ((List.drop d stream).length) (by rw [hlen']; omega) hrest (by rw [hn0, fullLen_zero])
            refine ⟨e, ?_⟩
            rw [hx, hn0]
            simp only [List.take_zero, List.append_nil, List.drop_zero, hdm]
        · simp only [hfull, if_false] at hfl
          cases herr : r.err with
          | some e => simp [herr] at hfl
          | none =>
            simp only [herr, Option.isSome_none, Bool.false_eq_true, if_false] at hfl
            simp only []
            have hnd : n - (acc ++ List.take d stream).length = m + 1 - d := by rw [hlen']; omega
            obtain ⟨h1, h2, e, hx⟩ := ih (List.drop d stream) rest n (acc ++ List.take d stream) script' l'
              (by rw [hlen']; omega) hrest (by rw [hnd, List.length_drop]; exact hfl)
            rw [hnd, List.length_drop] at h1 h2
            refine ⟨by omega, by omega, e, ?_⟩
            rw [hx, hnd, List.drop_drop, List.append_assoc, ← List.take_add]
            have : d + (m + 1 - d) = m + 1 := by omega
            rw [this]

/-- ReaderSkipDecoder's back end serves the requests `servesLen` accepts -/
theorem reader_dcursor (S0 : Bytes) :
    DCursor readerBackend (fun s => s.src.stream) (fun s => s.got ++ s.src.stream = S0)
      (fun s ks => servesLen s.src.script s.src.stream.length ks = true) := by
  refine ⟨?_, ?_⟩
  · intro s k ks hgot hs
    simp only [servesLen] at hs
    cases hfl : fullLen s.src.script s.src.stream.length k with
    | none => simp [hfl] at hs
    | some p =>
      obtain ⟨script', l'⟩ := p
      simp only [hfl] at hs
      obtain ⟨hk, hl', e, hx⟩ := fullLen_read (s.src.script.length + 2) s.src.stream s.src.script k []
        script' l' (Nat.zero_le _) (by omega) (by simpa using hfl)
      simp only [List.length_nil, Nat.sub_zero, List.nil_append] at hk hl' hx
      have hsrc : (⟨s.src.stream, s.src.script⟩ : Src) = s.src := rfl
      rw [hsrc] at hx
      have hlen : (List.take k s.src.stream).length ≥ k := by rw [List.length_take]; omega
      refine ⟨{ src := ⟨s.src.stream.drop k, script'⟩, got := s.got ++ s.src.stream.take k }, ?_, hk, rfl, ?_, ?_⟩
      · simp only [readerBackend, hx, hlen, if_true]
      · simp only [List.append_assoc, List.take_append_drop]; exact hgot
      · simp only [List.length_drop]; rw [← hl']; exact hs
  · intro s _; simp [readerBackend]

/-- ReaderSkipDecoder.Next(t): if the script serves the requests of the value at the front of the
    stream (`readerLive`, Spec/SkipDemand.lean), the value is returned exactly and the source has been
    read exactly that far -/
theorem readerDecNext_demand (src : Src) (t : UInt8) (n : Nat)
    (hr : refTpl Facts.defaultRecursionDepth t src.stream = some n)
    (hs : servesLen src.script src.stream.length (tplTrace Facts.defaultRecursionDepth t src.stream) = true) :
    ∃ src', readerDecNext src t = .ok (src.stream.take n, src') ∧ src'.stream = src.stream.drop n := by
  obtain ⟨s1, hx, hrem, hgot, _⟩ := skipTplAt_dem (reader_dcursor src.stream) Facts.defaultRecursionDepth t
    { src := src, got := [] } n [] rfl hr (by simpa using hs)
  have hrem' : s1.src.stream = src.stream.drop n := hrem
  have hgot' : s1.got ++ s1.src.stream = src.stream := hgot
  refine ⟨s1.src, ?_, hrem'⟩
  have hg : s1.got = src.stream.take n := by
    rw [hrem'] at hgot'
    have h2 : s1.got ++ List.drop n src.stream = List.take n src.stream ++ List.drop n src.stream := by
      rw [hgot', List.take_append_drop]
    exact List.append_cancel_right h2
  simp only [readerDecNext, hx, Out.bind_eq, Out.bind_ok, Out.pure_eq, hg]

end Verif

/-
  Lemmas/WriterSteps: what Malloc, WriteBinary, a caller fill and Flush do to the invariant and to
  the logical content of the writer model.
-/
import Verif.Lemmas.WriterOps
namespace Verif
open WLog

/-! ## Malloc -/

structure MallocPost (w w2 : Wr) (n : Nat) (R : Bytes) : Prop where
  inv : WInv w2
  logical : w2.logical = w.logical ++ R
  rlen : R.length = n
  len : w2.bufLen = w.bufLen + n
  regions : ∃ o, w2.regions = w.regions ++ [⟨w.nextRegion, o, w.bufLen, n⟩]
  nextRegion : w2.nextRegion = w.nextRegion + 1
  err : w2.err = w.err
  dc : w2.disableCache = w.disableCache
  sink : w2.sink = w.sink
  target : w2.target = w.target
  buf_origin : w2.buf ≠ none → w.buf ≠ none ∨ 0 < n

theorem malloc_spec (a : WAlloc) (ha : a.Sound) (w : Wr) (hw : WInv w) (he : w.err = none)
    (n : Int) (hn : 0 ≤ n) :
    ∃ w2 cap R, w.malloc a n = (.ok (w.nextRegion, n.toNat, cap), w2) ∧ MallocPost w w2 n.toNat R := by
  obtain ⟨w1, hacq, P⟩ := acquire_spec a ha w hw n.toNat
  unfold Wr.malloc
  simp only [he, hacq]
  rw [if_neg (by omega)]
  rcases P.room with ⟨v, hv, hroom⟩ | ⟨hnone, hn0⟩
  · have ok := P.inv.buf_ok v hv
    have hvl : v.len = w.bufLen := by rw [← P.len]; simp [Wr.bufLen, hv]
    simp only [hv]
    rw [if_neg (by omega)]
    refine ⟨_, _, gslice (w1.heap v.obj) v.len (v.len + n.toNat), by rw [P.nextRegion], ?_⟩
    refine ⟨?_, ?_, ?_, ?_, ?_, ?_, P.err, P.dc, P.sink, P.target, ?_⟩
    · refine ⟨P.inv.stats_len, P.inv.stats_idx, fun h => by simp at h, ?_⟩
      intro v2 hv2
      simp only [Option.some.injEq] at hv2
      subst hv2
      refine ⟨hroom, ok.heap_len, ok.obj_lt, ok.chain.mono (Nat.le_add_right _ _), ok.pend_lt, ok.pend_ne,
        ok.pend_len, ok.pend_nodup, ok.pend_cap, ?_, ok.rchain.snoc _ _ _⟩
      intro r hr
      rcases List.mem_append.mp hr with hr | hr
      · rcases ok.owned r hr with h | h
        · exact Or.inl h
        · exact Or.inr (h.mono (Nat.le_add_right _ _))
      · simp only [List.mem_singleton] at hr; subst hr
        exact Or.inr (Owned.last ok.chain _)
    · rw [← P.logical]
      simp only [Wr.logical, hv]
      exact logicalFrom_extend _ _ _ _ _ _ ok.chain (by rw [ok.heap_len]; exact hroom)
    · rw [length_gslice _ _ _ (by rw [ok.heap_len]; exact hroom)]; omega
    · simp [Wr.bufLen, hvl]
    · exact ⟨v.obj, by simp only [P.regions, hvl]⟩
    · rfl
    · intro _
      rcases P.same_or_pos with h | h
      · left; rw [← h, hv]; simp
      · right; exact h
  · simp only [hnone]
    rw [if_neg (by omega)]
    obtain ⟨np, nr, nc⟩ := P.inv.nil_buf hnone
    have hl0 : w.bufLen = 0 := by rw [← P.len]; simp [Wr.bufLen, hnone]
    refine ⟨_, _, [], by rw [P.nextRegion, hn0], ?_⟩
    refine ⟨?_, ?_, by simp [hn0], ?_, ?_, rfl, P.err, P.dc, P.sink, P.target, ?_⟩
    · refine ⟨P.inv.stats_len, P.inv.stats_idx, ?_, fun v h => by simp at h⟩
      intro _
      refine ⟨np, ?_, ?_⟩
      · intro r hr
        rcases List.mem_append.mp hr with hr | hr
        · exact nr r hr
        · simp only [List.mem_singleton] at hr; subst hr; rfl
      · exact nc.snoc _ _ _
    · rw [← P.logical]; simp [Wr.logical, hnone]
    · rw [hl0, hn0]; simp [Wr.bufLen]
    · exact ⟨0, by simp only [P.regions, hl0, hn0]⟩
    · intro h; simp at h

/-! ## WriteBinary -/

structure WritePost (w w2 : Wr) (bs : Bytes) : Prop where
  inv : WInv w2
  logical : w2.logical = w.logical ++ bs
  len : w2.bufLen = w.bufLen + bs.length
  regions : w2.regions = w.regions
  nextRegion : w2.nextRegion = w.nextRegion
  err : w2.err = w.err
  dc : w2.disableCache = w.disableCache
  sink : w2.sink = w.sink
  target : w2.target = w.target
  buf_origin : w2.buf ≠ none → w.buf ≠ none ∨ 0 < bs.length

theorem writeBinary_spec (a : WAlloc) (ha : a.Sound) (w : Wr) (hw : WInv w) (he : w.err = none)
    (bs : Bytes) :
    ∃ w2, w.writeBinary a bs = (.ok bs.length, w2) ∧ WritePost w w2 bs := by
  obtain ⟨w1, hacq, P⟩ := acquire_spec a ha w hw bs.length
  unfold Wr.writeBinary
  simp only [he, hacq]
  rcases P.room with ⟨v, hv, hroom⟩ | ⟨hnone, hn0⟩
  · have ok := P.inv.buf_ok v hv
    have hvl : v.len = w.bufLen := by rw [← P.len]; simp [Wr.bufLen, hv]
    have hk : min (v.cap - v.len) bs.length = bs.length := by omega
    simp only [hv, hk, List.take_length]
    have hfit : v.len + bs.length ≤ (w1.heap v.obj).length := by rw [ok.heap_len]; exact hroom
    refine ⟨_, rfl, ?_, ?_, ?_, P.regions, P.nextRegion, P.err, P.dc, P.sink, P.target, ?_⟩
    · refine ⟨P.inv.stats_len, P.inv.stats_idx, fun h => by simp at h, ?_⟩
      intro v2 hv2
      simp only [Option.some.injEq] at hv2
      subst hv2
      refine ⟨hroom, ?_, ok.obj_lt, ok.chain.mono (Nat.le_add_right _ _), ok.pend_lt, ok.pend_ne, ?_,
        ok.pend_nodup, ok.pend_cap, ?_, ok.rchain.mono (Nat.le_add_right _ _)⟩
      · simp only; rw [hwrite_same, length_overwrite _ _ _ hfit, ok.heap_len]
      · intro p hp; simp only; rw [hwrite_other _ _ _ _ _ (ok.pend_ne p hp)]; exact ok.pend_len p hp
      · intro r hr
        rcases ok.owned r hr with h | h
        · exact Or.inl h
        · exact Or.inr (h.mono (Nat.le_add_right _ _))
    · rw [← P.logical]
      simp only [Wr.logical, hv]
      exact logicalFrom_append _ _ _ _ _ _ ok.chain hfit ok.pend_ne
    · simp [Wr.bufLen, hvl]
    · intro _
      rcases P.same_or_pos with h | h
      · left; rw [← h, hv]; simp
      · right; exact h
  · have hbs : bs = [] := List.eq_nil_of_length_eq_zero hn0
    simp only [hnone]
    refine ⟨w1, by rw [hn0], P.inv, ?_, ?_, P.regions, P.nextRegion, P.err, P.dc, P.sink, P.target, ?_⟩
    · rw [P.logical, hbs]; simp
    · rw [P.len, hn0]; rfl
    · intro h; exact absurd hnone h

/-! ## the caller stores into a region -/

structure FillPost (w w2 : Wr) (r : WRegion) (off : Nat) (bs : Bytes) : Prop where
  inv : WInv w2
  logical : w2.logical = overwrite w.logical (r.off + off) bs
  buf : w2.buf = w.buf
  pending : w2.pending = w.pending
  regions : w2.regions = w.regions
  nextRegion : w2.nextRegion = w.nextRegion
  err : w2.err = w.err
  dc : w2.disableCache = w.disableCache
  sink : w2.sink = w.sink
  target : w2.target = w.target

theorem fill_spec (w : Wr) (hw : WInv w) (rid off : Nat) (bs : Bytes) :
    ((w.fill rid off bs).1 = .ok ∧
      ∃ r, w.regions.find? (fun r => r.id = rid) = some r ∧ off + bs.length ≤ r.n ∧
        FillPost w (w.fill rid off bs).2 r off bs) ∨
    ((w.fill rid off bs).1 ≠ .ok ∧ (w.fill rid off bs).2 = w ∧
      ∀ r, w.regions.find? (fun r => r.id = rid) = some r → r.n < off + bs.length) := by
  unfold Wr.fill
  cases hf : w.regions.find? (fun r => r.id = rid) with
  | none => right; simp
  | some r =>
    simp only
    by_cases hfit : off + bs.length > r.n
    · right; rw [if_pos hfit]
      refine ⟨by simp, rfl, ?_⟩
      intro r' hr'; injection hr' with hr'; subst hr'; exact hfit
    · left; rw [if_neg hfit]
      refine ⟨rfl, r, rfl, by omega, ?_⟩
      have hmem : r ∈ w.regions := List.mem_of_find?_eq_some hf
      -- a region of length 0 (or an empty store) changes nothing
      by_cases hbs : bs = []
      · subst hbs
        simp only [hwrite_nil]
        exact ⟨hw, by rw [overwrite_nil], rfl, rfl, rfl, rfl, rfl, rfl, rfl, rfl⟩
      · have hbl : 0 < bs.length := List.length_pos_iff.mpr hbs
        cases hb : w.buf with
        | none =>
          have := (hw.nil_buf hb).2.1 r hmem
          omega
        | some v =>
          have ok := hw.buf_ok v hb
          have hown : Owned v.obj v.len 0 w.pending r.obj r.off r.n := by
            rcases ok.owned r hmem with h | h
            · omega
            · exact h
          have hcur : v.len ≤ (w.heap v.obj).length := by rw [ok.heap_len]; exact ok.len_le_cap
          have hfits := hown.fits ok.pend_len hcur
          obtain ⟨_, b2, b3⟩ := hown.bounds ok.chain
          have hwfit : r.off + off + bs.length ≤ (w.heap r.obj).length := by omega
          refine ⟨?_, ?_, hb.symm, rfl, rfl, rfl, rfl, rfl, rfl, rfl⟩
          · refine ⟨hw.stats_len, hw.stats_idx, fun h => by simp at h, ?_⟩
            intro v2 hv2
            simp only [Option.some.injEq] at hv2
            subst hv2
            refine ⟨ok.len_le_cap, ?_, ok.obj_lt, ok.chain, ok.pend_lt, ok.pend_ne, ?_, ok.pend_nodup,
              ok.pend_cap, ok.owned, ok.rchain⟩
            · simp only [hwrite_apply]
              split
              · rename_i e; rw [length_overwrite _ _ _ hwfit, ← e, ok.heap_len]
              · exact ok.heap_len
            · intro p hp
              simp only [hwrite_apply]
              split
              · rename_i e; rw [length_overwrite _ _ _ hwfit, ← e]; exact ok.pend_len p hp
              · exact ok.pend_len p hp
          · simp only [Wr.logical, hb]
            have := logicalFrom_fill w.heap v.obj v.len 0 w.pending r.obj r.off r.n (r.off + off) bs hown
              (Nat.le_add_right _ _) (by omega) ok.chain hcur ok.pend_len ok.pend_ne ok.pend_nodup
            simpa using this


/-! ## Flush -/

/-- state after a Flush whose sink call was accepted -/
def Wr.flushedOk (w : Wr) (heap1 : Nat → Bytes) (v : WView) (tgt : Option WView) : Wr :=
  { w with heap := heap1, target := tgt,
           sink := { w.sink with calls := w.sink.calls ++ [(w.logical, none)] },
           stats := listSet w.stats w.statsIdx v.cap,
           statsIdx := (w.statsIdx + 1) % Facts.statsBucketNum,
           buf := none, pending := [], regions := [] }

/-- state after a Flush whose sink call was refused with e -/
def Wr.flushedErr (w : Wr) (heap1 : Nat → Bytes) (e : RErr) : Wr :=
  { w with heap := heap1, err := some e,
           sink := { w.sink with calls := w.sink.calls ++ [(w.logical, some e)] } }

/-- Flush with a non-nil buffer: stitching succeeds (no slice panic), and the ONE sink call gets
    exactly the logical content -/
theorem flush_some (w : Wr) (hw : WInv w) (he : w.err = none) (v : WView) (hb : w.buf = some v) :
    ∃ heap1, (∀ i, i ≠ v.obj → heap1 i = w.heap i) ∧ (heap1 v.obj).length = v.cap ∧
      gslice (heap1 v.obj) 0 v.len = w.logical ∧
      logicalFrom heap1 v.obj v.len 0 w.pending = w.logical ∧
      (w.disableCache = true → w.flush = (.ok (), w.flushedOk heap1 v (some v))) ∧
      (w.disableCache = false → ∀ e, w.sink.fail (w.sink.calls.length + 1) = some e →
          w.flush = (.err e, w.flushedErr heap1 e)) ∧
      (w.disableCache = false → w.sink.fail (w.sink.calls.length + 1) = none →
          w.flush = (.ok (), w.flushedOk heap1 v w.target)) := by
  have ok := hw.buf_ok v hb
  obtain ⟨heap1, off1, hs, f1, f2, _, f4, f5⟩ := stitch_spec v w.heap w.pending 0 ok.chain
    (by rw [ok.heap_len]; exact ok.len_le_cap) ok.pend_len ok.pend_ne
  have hdata : gslice (heap1 v.obj) 0 v.len = w.logical := by rw [f4]; simp [Wr.logical, hb]
  refine ⟨heap1, f1, by rw [f2, ok.heap_len], hdata, by rw [f5]; simp [Wr.logical, hb], ?_, ?_, ?_⟩
  · intro hdc
    simp only [Wr.flush, he, hb, hs, hdata, Wr.sinkWrite, hdc, if_true, Wr.flushedOk]
  · intro hdc e hf
    simp only [Wr.flush, he, hb, hs, hdata, Wr.sinkWrite, hdc, hf, Wr.flushedErr]
    simp
  · intro hdc hf
    simp only [Wr.flush, he, hb, hs, hdata, Wr.sinkWrite, hdc, hf, Wr.flushedOk]
    simp

theorem flushedOk_inv (w : Wr) (hw : WInv w) (heap1 : Nat → Bytes) (v : WView) (t : Option WView) :
    WInv (w.flushedOk heap1 v t) := by
  have hfacts : 0 < Facts.statsBucketNum := by decide
  exact ⟨by simp [Wr.flushedOk, listSet, hw.stats_len], Nat.mod_lt _ hfacts,
    fun _ => ⟨rfl, ⟨fun r hr => (by cases hr), Nat.le_refl (0 : Nat)⟩⟩, fun v h => by simp [Wr.flushedOk] at h⟩

theorem flushedErr_inv (w : Wr) (hw : WInv w) (heap1 : Nat → Bytes) (e : RErr) (v : WView)
    (hb : w.buf = some v) (f1 : ∀ i, i ≠ v.obj → heap1 i = w.heap i)
    (f2 : (heap1 v.obj).length = v.cap) : WInv (w.flushedErr heap1 e) := by
  have ok := hw.buf_ok v hb
  refine ⟨hw.stats_len, hw.stats_idx, fun h => by simp [Wr.flushedErr, hb] at h, ?_⟩
  intro v2 hv2
  simp only [Wr.flushedErr, hb, Option.some.injEq] at hv2
  subst hv2
  exact ⟨ok.len_le_cap, f2, ok.obj_lt, ok.chain, ok.pend_lt, ok.pend_ne,
    fun p hp => by simp only [Wr.flushedErr]; rw [f1 _ (ok.pend_ne p hp)]; exact ok.pend_len p hp,
    ok.pend_nodup, ok.pend_cap, ok.owned, ok.rchain⟩

theorem flush_nil (w : Wr) (he : w.err = none) (hb : w.buf = none) :
    w.flush = (.ok (), { w with regions := [] }) := by
  simp only [Wr.flush, he, hb]

theorem flush_nil_inv (w : Wr) (hw : WInv w) (hb : w.buf = none) : WInv { w with regions := [] } := by
  obtain ⟨h1, _, _⟩ := hw.nil_buf hb
  exact ⟨hw.stats_len, hw.stats_idx, fun _ => ⟨h1, ⟨fun r hr => (by cases hr), Nat.le_refl (0 : Nat)⟩⟩,
    fun v h => by simp [hb] at h⟩

end Verif

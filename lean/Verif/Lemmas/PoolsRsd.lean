/-
  Lemmas/PoolsRsd: ReaderSkipDecoder with its retained buffer and the pool's dirty memory
  (Model/Pools `rsdBackend`, `rsdNext`) refines the content-level decoder that has no buffer at all
  (Model/SkipStream `readerBackend`, `readerDecNext`): neither the old content of the buffer nor the
  content of the memory the pool hands out is ever part of a result.
-/
import Verif.Lemmas.PoolsSkip
namespace Verif.Pools
open Verif

theorem src_read_len (s : Src) (room : Nat) : (s.read room).1.length ≤ room := by
  unfold Src.read
  split
  · simp
  · simp only [List.length_take]; omega

theorem readFullLoop_le : ∀ (fuel : Nat) (s : Src) (k : Nat) (acc : Bytes), acc.length ≤ k →
    (readFullLoop fuel s k acc).1.length ≤ k := by
  intro fuel
  induction fuel with
  | zero => intro s k acc h; simpa [readFullLoop] using h
  | succ f ih =>
    intro s k acc h
    simp only [readFullLoop]
    split
    · exact h
    · have hl := src_read_len s (k - acc.length)
      split
      · simp only [List.length_append]; omega
      · exact ih _ _ _ (by simp only [List.length_append]; omega)

/-- no error means all `k` bytes are there -/
theorem readFullLoop_none : ∀ (fuel : Nat) (s : Src) (k : Nat) (acc : Bytes),
    (readFullLoop fuel s k acc).2.1 = none → k ≤ (readFullLoop fuel s k acc).1.length := by
  intro fuel
  induction fuel with
  | zero => intro s k acc h; simp [readFullLoop] at h
  | succ f ih =>
    intro s k acc h
    simp only [readFullLoop] at h ⊢
    split
    · omega
    · rename_i hlt
      rw [if_neg hlt] at h
      split
      · rename_i e he; rw [he] at h; simp at h
      · rename_i he; rw [he] at h; exact ih _ _ _ h

/-- the decoder with its buffer (`s`) against the decoder without (`u`): same source, and the first
    `n` bytes of the buffer are exactly the bytes read in this call; what lies behind them — the
    previous tenant's bytes, or dirty pool memory — is unconstrained -/
def RsdRel (s : RsdSt) (u : ReaderDec) : Prop :=
  s.src = u.src ∧ s.n = u.got.length ∧ s.b.take s.n = u.got ∧ s.n ≤ s.b.length

theorem rsdGrow_ok (d : Dirty) (s : RsdSt) (k : Nat) (hn : s.n ≤ s.b.length) :
    ∃ s1, rsdGrow d s k = .ok s1 ∧ s1.src = s.src ∧ s1.n = s.n ∧ s1.b.take s.n = s.b.take s.n ∧
      s.n + k ≤ s1.b.length := by
  unfold rsdGrow
  by_cases h : s.n ≤ s.b.length ∧ s.b.length - s.n ≥ k
  · rw [if_pos h]; exact ⟨s, rfl, rfl, rfl, rfl, by omega⟩
  · rw [if_neg h, if_neg (by omega)]
    refine ⟨_, rfl, rfl, rfl, ?_, ?_⟩
    · simp only []
      rw [List.take_append_of_le_length (by simp only [List.length_take]; omega), List.take_take]
      simp
    · simp only [List.length_append, List.length_take, List.length_map, List.length_range]; omega

theorem take_splice (b : Bytes) (n : Nat) (r : Bytes) (hn : n ≤ b.length) :
    (b.take n ++ r ++ b.drop (n + r.length)).take (n + r.length) = b.take n ++ r := by
  have h1 : (b.take n ++ r).length = n + r.length := by
    simp only [List.length_append, List.length_take]; omega
  rw [List.take_append_of_le_length (by omega), List.take_of_length_le (by omega)]

theorem rsd_hskip (d : Dirty) (s : RsdSt) (u : ReaderDec) (k : Nat) (h : RsdRel s u) :
    OutRel (fun x y => x.1 = y.1 ∧ RsdRel x.2 y.2) ((rsdBackend d).skipN s k) (readerBackend.skipN u k) := by
  obtain ⟨hsrc, hn, hb, hle⟩ := h
  obtain ⟨s1, hg, h1src, h1n, h1b, h1len⟩ := rsdGrow_ok d s k hle
  simp only [rsdBackend, readerBackend, hg]
  rw [if_neg (by omega), h1src, hsrc]
  generalize hres : readFullLoop (u.src.script.length + 2) u.src k [] = res
  have hlen : res.1.length ≤ k := by
    rw [← hres]; exact readFullLoop_le _ _ _ _ (by simp)
  have hnone : res.2.1 = none → k ≤ res.1.length := by
    rw [← hres]; exact readFullLoop_none _ _ _ _
  by_cases hk : res.1.length ≥ k
  · have hk' : res.1.length = k := by omega
    simp only [hk, if_true, OutRel]
    refine ⟨trivial, rfl, ?_, ?_, ?_⟩
    · simp only [List.length_append]; omega
    · simp only []
      rw [h1n, ← hk', take_splice _ _ _ (by omega), h1b, hb]
    · simp only [List.length_append, List.length_take, List.length_drop]; omega
  · simp only [hk, if_false]
    cases hr : res.2.1 with
    | none => exact absurd (hnone hr) (by omega)
    | some e => simp [OutRel]

theorem rsd_havail (s : RsdSt) (u : ReaderDec) (h : RsdRel s u) :
    (rsdBackend d).avail s = readerBackend.avail u := by
  simp only [rsdBackend, readerBackend, h.1]

/-- `ReaderSkipDecoder.Next` on ANY pooled object that `Reset(r)` was called on — any old buffer
    content and length, any stale `n` — and with ANY content of the memory the pool hands out when the
    buffer grows: the outcome is that of the content-level decoder on the same source (same bytes,
    same error), and the object holds the source where that decoder left it. -/
theorem rsdNext_spec (d : Dirty) (p : ReaderSkipDecoderObj) (src : Src) (t : UInt8) (hp : p.r = some src) :
    OutRel (fun x y => x.1 = (y.1, y.2.stream.length) ∧ x.2.1.r = some y.2)
      (rsdNext d p t) (readerDecNext src t) := by
  have h0 : RsdRel ⟨src, 0, p.b, 0, []⟩ ⟨src, []⟩ := ⟨rfl, rfl, by simp, by simp⟩
  have hs := skipTplAt_sim (rsdBackend d) readerBackend RsdRel (rsd_hskip d) (fun s u h => rsd_havail s u h)
    Facts.defaultRecursionDepth t _ _ h0
  unfold rsdNext readerDecNext
  rw [hp]
  simp only [Out.bind_eq]
  generalize skipTplAt (rsdBackend d) Facts.defaultRecursionDepth t ⟨src, 0, p.b, 0, []⟩ = x at hs
  generalize skipTplAt readerBackend Facts.defaultRecursionDepth t ⟨src, []⟩ = y at hs
  cases x <;> cases y <;> simp only [OutRel] at hs <;> try (exact hs.elim)
  · rename_i s1 u1
    obtain ⟨h1, h2, h3, h4⟩ := hs
    simp only [Out.bind, Out.pure_eq]
    rw [if_neg (by omega)]
    simp only [OutRel]
    exact ⟨by rw [h3, h1], by rw [h1]⟩
  · simpa [OutRel, Out.bind] using hs
  · simpa [OutRel, Out.bind] using hs
  · simp [OutRel, Out.bind]

end Verif.Pools

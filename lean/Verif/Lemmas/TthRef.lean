/-
  Lemmas/TthRef: the executable reference parser of Spec/Frame (`refSecs`, `refValid`) is exactly the
  printer relation: `refSecs fuel b = some secs ↔ (∀ s ∈ secs, wfSec s) ∧ b = encSecs secs` for every
  sufficient fuel, and `refValid b = some secs ↔ Valid b secs`. Spec-only (no model, no Facts).
-/
import Verif.Spec.Frame
namespace Verif.Frame

theorem be16_rd16 (b : Bytes) (h : 2 ≤ b.length) : be16 (rd16 b) ++ b.drop 2 = b := by
  match b, h with
  | a :: c :: r, _ =>
    have := a.toNat_lt; have := c.toNat_lt
    simp [be16, rd16]
    apply UInt8.toNat_inj.mp; simp [UInt8.toNat_ofNat']; omega

theorem rd16_be16' (n : Nat) (h : n < 65536) (r : Bytes) : rd16 (be16 n ++ r) = n := rd16_be16 n h r

@[simp] theorem str2_length (s : Bytes) : (str2 s).length = s.length + 2 := by
  simp [str2]; omega

/-! ### one string -/

theorem takeStr2_str2 (s r : Bytes) (h : s.length < 65536) : takeStr2 (str2 s ++ r) = some (s, r) := by
  have h1 : rd16 (str2 s ++ r) = s.length := by
    unfold str2; rw [List.append_assoc]; exact rd16_be16 _ h _
  have h2 : (str2 s ++ r).drop 2 = s ++ r := by simp [str2, be16]
  have h3 : ¬ (str2 s ++ r).length < 2 := by simp; omega
  unfold takeStr2
  rw [if_neg h3, h1, h2]
  simp

theorem takeStr2_some {b s r : Bytes} (h : takeStr2 b = some (s, r)) :
    b = str2 s ++ r ∧ s.length < 65536 := by
  unfold takeStr2 at h
  split at h
  · cases h
  · split at h
    · cases h
    · rename_i h1 h2
      simp only [Option.some.injEq, Prod.mk.injEq] at h
      obtain ⟨hs, hr⟩ := h
      have hlen : s.length = rd16 b := by
        rw [← hs, List.length_take]; omega
      refine ⟨?_, by rw [hlen]; exact rd16_lt b⟩
      calc b = be16 (rd16 b) ++ b.drop 2 := (be16_rd16 b (by omega)).symm
        _ = str2 s ++ r := by
          rw [str2, hlen, List.append_assoc, ← hs, ← hr, List.take_append_drop]

/-! ### key/value runs -/

theorem refStrKVs_enc (kvs : StrMap) (r : Bytes)
    (h : ∀ kv ∈ kvs, kv.1.length < 65536 ∧ kv.2.length < 65536) :
    refStrKVs kvs.length (kvs.flatMap encStrKV ++ r) = some (kvs, r) := by
  induction kvs with
  | nil => simp [refStrKVs]
  | cons kv rest ih =>
    have hk := h kv (by simp)
    have ih' := ih (fun x hx => h x (by simp [hx]))
    simp only [List.length_cons, List.flatMap_cons, refStrKVs, encStrKV, List.append_assoc]
    rw [takeStr2_str2 _ _ hk.1]
    simp only [Option.bind_some]
    rw [takeStr2_str2 _ _ hk.2]
    simp only [Option.bind_some]
    rw [ih']
    simp

theorem refStrKVs_some : ∀ (n : Nat) (b : Bytes) (kvs : StrMap) (r : Bytes),
    refStrKVs n b = some (kvs, r) →
    kvs.length = n ∧ b = kvs.flatMap encStrKV ++ r ∧ ∀ kv ∈ kvs, kv.1.length < 65536 ∧ kv.2.length < 65536 := by
  intro n
  induction n with
  | zero => intro b kvs r h; simp [refStrKVs] at h; obtain ⟨rfl, rfl⟩ := h; simp
  | succ n ih =>
    intro b kvs r h
    simp only [refStrKVs] at h
    cases hk : takeStr2 b with
    | none => simp [hk] at h
    | some k =>
      obtain ⟨ks, kr⟩ := k
      simp only [hk, Option.bind_some] at h
      cases hv : takeStr2 kr with
      | none => simp [hv] at h
      | some v =>
        obtain ⟨vs, vr⟩ := v
        simp only [hv, Option.bind_some] at h
        cases hr : refStrKVs n vr with
        | none => simp [hr] at h
        | some x =>
          obtain ⟨xs, xr⟩ := x
          simp only [hr, Option.bind_some, Option.some.injEq, Prod.mk.injEq] at h
          obtain ⟨rfl, rfl⟩ := h
          obtain ⟨hl, hb, hw⟩ := ih _ _ _ hr
          obtain ⟨hkb, hkl⟩ := takeStr2_some hk
          obtain ⟨hvb, hvl⟩ := takeStr2_some hv
          refine ⟨by simp [hl], ?_, ?_⟩
          · rw [hkb, hvb, hb]; simp [encStrKV]
          · intro kv hkv
            simp only [List.mem_cons] at hkv
            rcases hkv with rfl | hkv
            · exact ⟨hkl, hvl⟩
            · exact hw kv hkv

theorem refIntKVs_enc (kvs : IntMap) (r : Bytes)
    (h : ∀ kv ∈ kvs, kv.1 < 65536 ∧ kv.2.length < 65536) :
    refIntKVs kvs.length (kvs.flatMap encIntKV ++ r) = some (kvs, r) := by
  induction kvs with
  | nil => simp [refIntKVs]
  | cons kv rest ih =>
    have hk := h kv (by simp)
    have ih' := ih (fun x hx => h x (by simp [hx]))
    simp only [List.length_cons, List.flatMap_cons, refIntKVs, encIntKV, List.append_assoc]
    have h1 : ¬ (be16 kv.1 ++ (str2 kv.2 ++ (List.flatMap encIntKV rest ++ r))).length < 2 := by simp
    have h2 : (be16 kv.1 ++ (str2 kv.2 ++ (List.flatMap encIntKV rest ++ r))).drop 2
        = str2 kv.2 ++ (List.flatMap encIntKV rest ++ r) := by simp [be16]
    rw [if_neg h1, h2, takeStr2_str2 _ _ hk.2]
    simp only [Option.bind_some]
    rw [ih', rd16_be16 _ hk.1]
    simp

theorem refIntKVs_some : ∀ (n : Nat) (b : Bytes) (kvs : IntMap) (r : Bytes),
    refIntKVs n b = some (kvs, r) →
    kvs.length = n ∧ b = kvs.flatMap encIntKV ++ r ∧ ∀ kv ∈ kvs, kv.1 < 65536 ∧ kv.2.length < 65536 := by
  intro n
  induction n with
  | zero => intro b kvs r h; simp [refIntKVs] at h; obtain ⟨rfl, rfl⟩ := h; simp
  | succ n ih =>
    intro b kvs r h
    simp only [refIntKVs] at h
    split at h
    · cases h
    · rename_i hlen
      cases hv : takeStr2 (b.drop 2) with
      | none => simp [hv] at h
      | some v =>
        obtain ⟨vs, vr⟩ := v
        simp only [hv, Option.bind_some] at h
        cases hr : refIntKVs n vr with
        | none => simp [hr] at h
        | some x =>
          obtain ⟨xs, xr⟩ := x
          simp only [hr, Option.bind_some, Option.some.injEq, Prod.mk.injEq] at h
          obtain ⟨rfl, rfl⟩ := h
          obtain ⟨hl, hb, hw⟩ := ih _ _ _ hr
          obtain ⟨hvb, hvl⟩ := takeStr2_some hv
          refine ⟨by simp [hl], ?_, ?_⟩
          · have := (be16_rd16 b (by omega)).symm
            rw [this, hvb, hb]; simp [encIntKV, rd16_be16 _ (rd16_lt b)]
          · intro kv hkv
            simp only [List.mem_cons] at hkv
            rcases hkv with rfl | hkv
            · exact ⟨rd16_lt b, hvl⟩
            · exact hw kv hkv

/-! ### sections -/

theorem encSec_length_pos (s : Sec) : 0 < (encSec s).length := by
  cases s <;> simp [encSec]

theorem encSecs_cons (s : Sec) (t : List Sec) : encSecs (s :: t) = encSec s ++ encSecs t := by
  simp [encSecs]

theorem encSecs_length_ge (secs : List Sec) : secs.length ≤ (encSecs secs).length := by
  induction secs with
  | nil => simp [encSecs]
  | cons s t ih =>
    rw [encSecs_cons, List.length_append]
    have := encSec_length_pos s
    simp only [List.length_cons]; omega

/-- printing then parsing gives the sections back (fuel: more than the number of sections) -/
theorem refSecs_enc : ∀ (secs : List Sec) (fuel : Nat), secs.length < fuel → (∀ s ∈ secs, wfSec s) →
    refSecs fuel (encSecs secs) = some secs := by
  intro secs
  induction secs with
  | nil => intro fuel hf _; cases fuel with
    | zero => omega
    | succ f => simp [encSecs, refSecs]
  | cons s t ih =>
    intro fuel hf hw
    cases fuel with
    | zero => omega
    | succ f =>
      have iht := ih f (by simp only [List.length_cons] at hf; omega) (fun x hx => hw x (by simp [hx]))
      have hs := hw s (by simp)
      rw [encSecs_cons]
      cases s with
      | pad => simp [encSec, refSecs, iht]
      | str kvs =>
        simp only [wfSec] at hs
        simp only [encSec, List.cons_append, refSecs]
        have h2 : (be16 kvs.length ++ (List.flatMap encStrKV kvs ++ encSecs t)).drop 2
            = List.flatMap encStrKV kvs ++ encSecs t := by simp [be16]
        have h3 : rd16 (be16 kvs.length ++ (List.flatMap encStrKV kvs ++ encSecs t)) = kvs.length :=
          rd16_be16 _ hs.1 _
        simp [h2, h3, refStrKVs_enc kvs _ hs.2, iht]
      | int kvs =>
        simp only [wfSec] at hs
        simp only [encSec, List.cons_append, refSecs]
        have h2 : (be16 kvs.length ++ (List.flatMap encIntKV kvs ++ encSecs t)).drop 2
            = List.flatMap encIntKV kvs ++ encSecs t := by simp [be16]
        have h3 : rd16 (be16 kvs.length ++ (List.flatMap encIntKV kvs ++ encSecs t)) = kvs.length :=
          rd16_be16 _ hs.1 _
        simp [h2, h3, refIntKVs_enc kvs _ hs.2, iht]
      | acl tok =>
        simp only [wfSec] at hs
        simp only [encSec, List.cons_append, refSecs]
        simp [takeStr2_str2 _ _ hs, iht]

/-- whatever the parser accepts is the print of well-formed sections -/
theorem refSecs_some : ∀ (fuel : Nat) (b : Bytes) (secs : List Sec), refSecs fuel b = some secs →
    (∀ s ∈ secs, wfSec s) ∧ b = encSecs secs := by
  intro fuel
  induction fuel with
  | zero => intro b secs h; simp [refSecs] at h
  | succ f ih =>
    intro b secs h
    cases b with
    | nil => simp [refSecs] at h; subst h; simp [encSecs]
    | cons id r =>
      simp only [refSecs] at h
      split at h
      · -- padding
        rename_i hid
        cases ht : refSecs f r with
        | none => simp [ht] at h
        | some t =>
          simp only [ht, Option.bind_some, Option.some.injEq] at h
          subst h
          obtain ⟨hw, hb⟩ := ih _ _ ht
          refine ⟨?_, by rw [encSecs_cons, ← hb, hid]; rfl⟩
          intro s hs; simp only [List.mem_cons] at hs
          rcases hs with rfl | hs
          · trivial
          · exact hw s hs
      · split at h
        · rename_i _ hid
          split at h
          · cases h
          · rename_i hlen
            cases hx : refStrKVs (rd16 r) (r.drop 2) with
            | none => simp [hx] at h
            | some x =>
              obtain ⟨kvs, xr⟩ := x
              simp only [hx, Option.bind_some] at h
              cases ht : refSecs f xr with
              | none => simp [ht] at h
              | some t =>
                simp only [ht, Option.bind_some, Option.some.injEq] at h
                subst h
                obtain ⟨hw, hb⟩ := ih _ _ ht
                obtain ⟨hl, hkb, hkw⟩ := refStrKVs_some _ _ _ _ hx
                refine ⟨?_, ?_⟩
                · intro s hs; simp only [List.mem_cons] at hs
                  rcases hs with rfl | hs
                  · exact ⟨by rw [hl]; exact rd16_lt r, hkw⟩
                  · exact hw s hs
                · rw [encSecs_cons, ← hb, hid]
                  simp only [encSec, List.cons_append, List.cons.injEq, true_and]
                  rw [hl, List.append_assoc, ← hkb]
                  exact (be16_rd16 r (by omega)).symm
        · split at h
          · rename_i _ _ hid
            split at h
            · cases h
            · rename_i hlen
              cases hx : refIntKVs (rd16 r) (r.drop 2) with
              | none => simp [hx] at h
              | some x =>
                obtain ⟨kvs, xr⟩ := x
                simp only [hx, Option.bind_some] at h
                cases ht : refSecs f xr with
                | none => simp [ht] at h
                | some t =>
                  simp only [ht, Option.bind_some, Option.some.injEq] at h
                  subst h
                  obtain ⟨hw, hb⟩ := ih _ _ ht
                  obtain ⟨hl, hkb, hkw⟩ := refIntKVs_some _ _ _ _ hx
                  refine ⟨?_, ?_⟩
                  · intro s hs; simp only [List.mem_cons] at hs
                    rcases hs with rfl | hs
                    · exact ⟨by rw [hl]; exact rd16_lt r, hkw⟩
                    · exact hw s hs
                  · rw [encSecs_cons, ← hb, hid]
                    simp only [encSec, List.cons_append, List.cons.injEq, true_and]
                    rw [hl, List.append_assoc, ← hkb]
                    exact (be16_rd16 r (by omega)).symm
          · split at h
            · rename_i _ _ _ hid
              cases hx : takeStr2 r with
              | none => simp [hx] at h
              | some x =>
                obtain ⟨tok, xr⟩ := x
                simp only [hx, Option.bind_some] at h
                cases ht : refSecs f xr with
                | none => simp [ht] at h
                | some t =>
                  simp only [ht, Option.bind_some, Option.some.injEq] at h
                  subst h
                  obtain ⟨hw, hb⟩ := ih _ _ ht
                  obtain ⟨htb, htl⟩ := takeStr2_some hx
                  refine ⟨?_, ?_⟩
                  · intro s hs; simp only [List.mem_cons] at hs
                    rcases hs with rfl | hs
                    · exact htl
                    · exact hw s hs
                  · rw [encSecs_cons, ← hb, hid, htb]; simp [encSec]
            · cases h

/-- for every sufficient fuel the reference parser decides the printer relation -/
theorem refSecs_iff (fuel : Nat) (b : Bytes) (secs : List Sec) (hf : b.length < fuel) :
    refSecs fuel b = some secs ↔ (∀ s ∈ secs, wfSec s) ∧ b = encSecs secs := by
  constructor
  · exact refSecs_some fuel b secs
  · rintro ⟨hw, rfl⟩
    exact refSecs_enc secs fuel (Nat.lt_of_le_of_lt (encSecs_length_ge secs) hf) hw

/-- the printer is injective on well-formed sections -/
theorem encSecs_inj {s1 s2 : List Sec} (h1 : ∀ s ∈ s1, wfSec s) (h2 : ∀ s ∈ s2, wfSec s)
    (h : encSecs s1 = encSecs s2) : s1 = s2 := by
  have a := refSecs_enc s1 ((encSecs s1).length + 1) (Nat.lt_succ_of_le (encSecs_length_ge s1)) h1
  have b := refSecs_enc s2 ((encSecs s2).length + 1) (Nat.lt_succ_of_le (encSecs_length_ge s2)) h2
  rw [h] at a
  rw [a] at b
  exact Option.some.inj b

theorem refValid_iff (b : Bytes) (secs : List Sec) : refValid b = some secs ↔ Valid b secs := by
  unfold refValid
  constructor
  · intro h
    split at h; · cases h
    split at h; · cases h
    split at h; · cases h
    split at h; · cases h
    split at h; · cases h
    split at h; · cases h
    rename_i h1 h2 h3 h4 h5 h6
    obtain ⟨hw, hb⟩ := refSecs_some _ _ _ h
    exact { hdr := by omega, magic := by simpa using h2, sizeLo := by omega, sizeHi := by omega,
            complete := by omega, proto := by simpa using h5, transforms := by omega, wf := hw, sections := hb }
  · intro v
    have h5 : supported.contains (rd8 (b.drop 14)) = true := by simpa using v.proto
    rw [if_neg (by have := v.hdr; omega), if_neg (by simp [v.magic]),
        if_neg (by have := v.sizeLo; have := v.sizeHi; omega), if_neg (by have := v.complete; omega),
        if_neg (fun hn => hn h5), if_neg (by have := v.transforms; omega)]
    exact (refSecs_iff _ _ _ (Nat.lt_succ_self _)).mpr ⟨v.wf, v.sections⟩

end Verif.Frame

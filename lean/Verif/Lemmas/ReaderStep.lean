/-
  Lemmas/ReaderStep: glue between the reader model (Model/Reader) and the result alphabet of the
  cursor contract (Spec/Cursor): one model step per `ROp`, and the trace of an op list.
  Used by the driver (model column) and by the refinement theorems (Props/C04).  Core-only.
-/
import Verif.Model.Reader
import Verif.Spec.Cursor
namespace Verif

/-- a model result of Next/Peek (`skip = false`) or Skip (`skip = true`) in the contract's alphabet;
    running out of fuel is `stuck` (no report) -/
def RdRes.toRes (skip : Bool) : RdRes → RRes RErr
  | .ok b => if skip then .done else .bytes b
  | .fail e => .fail e
  | .nofuel => .stuck

/-- `Release(e error)`: the Go body never looks at its argument — whatever the caller passes, the
    unread bytes stay (Model/Reader's `Rd.release` is `Release`'s body) -/
def Rd.releaseE (r : Rd) (_e : Option RErr) : Rd := r.release

def Rd.step (r : Rd) : ROp → RRes RErr × Rd
  | .next n => ((r.next n).1.toRes false, (r.next n).2)
  | .peek n => ((r.peek n).1.toRes false, (r.peek n).2)
  | .skip n => ((r.skip n).1.toRes true, (r.skip n).2)
  | .readBinary n =>
    match (r.readBinary n).1 with
    | none => (.stuck, (r.readBinary n).2)
    | some x => (.rb x.1 x.2.1 x.2.2, (r.readBinary n).2)
  | .release e => (.done, r.releaseE e)
  | .readLen => (.len r.readLen, r)

/-- the reports of an op list, in order, with the final state -/
def Rd.trace (r : Rd) : List ROp → List (ROp × RRes RErr) × Rd
  | [] => ([], r)
  | op :: ops => ((op, (r.step op).1) :: ((r.step op).2.trace ops).1, ((r.step op).2.trace ops).2)

/-- the unread bytes the reader still owes its user: buffered-unread ++ not yet read from the source -/
def Rd.remaining (r : Rd) : Bytes := r.buf.drop r.ri ++ r.src.stream

end Verif

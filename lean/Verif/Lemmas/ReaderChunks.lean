/-
  Lemmas/ReaderChunks: chunked sources of arbitrary chunk sizes, final data together with the error.
  (a) per request, exact: `chunks_enough` — all k ≥ 1, an error only on the last entry, the chunks
      cover the need ⇒ `Enough` (the data that arrives with the error counts);
  (b) along histories, for streams that fit the first buffer: `Rd.LiveChunks` is kept by every
      operation and serves every request that fits (`SteadyChunks`, Spec/Cursor).
-/
import Verif.Lemmas.ReaderSteady
namespace Verif

theorem chunksOk_cons {x : Resp} {rest : List Resp} (h : chunksOk (x :: rest) = true) :
    1 ≤ x.k ∧ chunksOk rest = true ∧ (rest ≠ [] → x.err = none) := by
  cases rest with
  | nil => simp [chunksOk] at h ⊢; exact h
  | cons y ys =>
    simp only [chunksOk, Bool.and_eq_true, decide_eq_true_eq] at h
    refine ⟨h.1.1, ?_, fun _ => ?_⟩
    · simpa [chunksOk] using h.2
    · cases hx : x.err with
      | none => rfl
      | some e => rw [hx] at h; simp at h

/-- (a) arbitrary chunk sizes: the chunks deliver any need they and the stream cover -/
theorem chunks_enough (M : Nat) (s : List Resp) (need z slen : Nat) (hc : chunksOk s = true)
    (h0 : 0 < need) (hle : need ≤ slen) (hsum : need ≤ sumK s) (hz : z < M) :
    Enough M s need z slen = true := by
  induction s generalizing need z slen with
  | nil => simp [sumK] at hsum; omega
  | cons x rest ih =>
    obtain ⟨hk, hrest, herr⟩ := chunksOk_cons hc
    simp only [sumK] at hsum
    have hzM : ¬ z ≥ M := by omega
    unfold Enough
    simp only [hzM, if_false]
    generalize hd : min (min x.k need) slen = d
    by_cases hge : d ≥ need
    · simp [hge]
    · have hdk : d = x.k := by omega
      have hpos : d > 0 := by omega
      have hne : rest ≠ [] := by
        intro hnil; rw [hnil] at hsum; simp [sumK] at hsum; omega
      have hes : x.err.isSome = false := by rw [herr hne]; rfl
      simp only [hge, if_false, hes, Bool.false_eq_true, hpos, if_true]
      exact ih _ _ _ hrest (by omega) (by omega) (by omega) (by omega)

/-- what `prepare` does to the capacity: it never shrinks, a first allocation is at least
    `defaultBufSize`, and a buffer the reader owns stays its own -/
theorem prepare_cap (r : Rd) (n : Nat) (h : Inv r) (hn : n + r.ri ≤ reqMax) :
    r.cap ≤ (r.prepare n).cap ∧ (r.cap = 0 → Facts.defaultBufSize ≤ (r.prepare n).cap) ∧
    (r.readOnly = false → (r.prepare n).readOnly = false) := by
  have hri := h.ri_le; have hlen := h.len_le; have hcap := h.cap_le
  by_cases hc : r.cap = 0
  · obtain ⟨hri0, hbuf⟩ := h.cap_zero hc
    have hm0 := statsMax_le r.stats capMax h.stats_le
    generalize hm1 : (if statsMax r.stats < Facts.defaultBufSize then Facts.defaultBufSize
      else statsMax r.stats) = m1
    have hm1ge : Facts.defaultBufSize ≤ m1 := by subst hm1; split <;> omega
    have hm1pos : 0 < m1 := by
      have : 0 < Facts.defaultBufSize := by decide
      omega
    have hm1le : m1 ≤ capMax := by
      subst hm1; split
      · decide
      · exact hm0
    have hd := doubleUntil_spec 64 m1 n hm1pos (by
      rw [two_pow_64]
      calc n ≤ 1 * capMax := by omega
        _ ≤ m1 * capMax := Nat.mul_le_mul_right _ hm1pos)
    generalize hm2 : doubleUntil 64 m1 n = m2 at hd
    have hm2le : m2 ≤ capMax := by omega
    have hp := pow2ceil_spec m2 hm2le
    have hnogrow : ¬ (n > pow2ceil m2 - r.ri) := by omega
    unfold Rd.prepare
    simp only [hc, if_true, hm1, hm2, hnogrow, if_false]
    refine ⟨?_, ?_, ?_⟩
    all_goals (first | omega | trivial | (simp only []; omega) |
      (intro h0; first | trivial | rfl | exact h0.elim | exact h0 | omega | (simp only []; omega)))
  · by_cases hg : n > r.cap - r.ri
    · have hnpos : 0 < n := by omega
      have hd := doubleUntil_spec 64 (r.cap * 2) (n + r.ri) (by omega) (by
        rw [two_pow_64]
        calc n + r.ri ≤ 1 * capMax := by omega
          _ ≤ (r.cap * 2) * capMax := Nat.mul_le_mul_right _ (by omega))
      generalize hnc : doubleUntil 64 (r.cap * 2) (n + r.ri) = ncap at hd
      have hncle : ncap ≤ capMax := by omega
      have hp := pow2ceil_spec ncap hncle
      unfold Rd.prepare
      simp only [hc, if_false, hg, if_true, growCap_eq _ _ _ _ hnpos, hnc]
      refine ⟨?_, ?_, ?_⟩
      all_goals (first | omega | trivial | (simp only []; omega) |
        (intro h0; first | trivial | rfl | exact h0.elim | exact h0 | omega | (simp only []; omega)))
    · unfold Rd.prepare
      simp only [hc, if_false, hg]
      refine ⟨?_, ?_, ?_⟩
      all_goals (first | omega | trivial | (simp only []; omega) |
        (intro h0; first | trivial | rfl | exact h0.elim | exact h0 | omega | (simp only []; omega)))

/-- the source part of (b): no error yet, a chunked rest of the script that covers the rest of the stream -/
structure ChunkSrc (r : Rd) : Prop where
  err : r.err = none
  ok : chunksOk r.src.script = true
  cover : r.src.stream.length ≤ sumK r.src.script

/-- once the stream is empty the loop adds nothing -/
theorem loop_drained (fuel i : Nat) (r : Rd) (n m : Nat) (q : Rd)
    (h : Rd.readLoop fuel i r n = some (m, q)) (hnil : r.src.stream = []) :
    q.src.stream = [] ∧ q.buf = r.buf := by
  obtain ⟨dd, hb, hst⟩ := (readLoop_post _ _ _ _ _ _ h).data
  rw [hnil] at hst
  have hl := congrArg List.length hst
  simp at hl
  have hq : q.src.stream = [] := List.eq_nil_of_length_eq_zero (by omega)
  have hdd : dd = [] := List.eq_nil_of_length_eq_zero (by omega)
  exact ⟨hq, by rw [hb, hdd]; simp⟩

/-- the read loop with room for EVERYTHING that is left: every entry hands over its full
    `min k left`, so the chunks keep covering the rest; the last entry hands over all the rest -/
theorem readLoop_chunks (fuel i : Nat) (r : Rd) (n m : Nat) (r' : Rd)
    (hi : i < Facts.maxConsecutiveEmptyReads ∨ r.src.stream = [])
    (hc : ChunkSrc r) (hroom : r.src.stream.length ≤ r.cap - r.buf.length)
    (h : Rd.readLoop fuel i r n = some (m, r')) :
    (r'.src.stream = [] ∨ ChunkSrc r') ∧
    r'.buf.length + r'.src.stream.length = r.buf.length + r.src.stream.length := by
  induction fuel generalizing i r with
  | zero => simp [Rd.readLoop] at h
  | succ f ih =>
    have hnil : ∀ l : Bytes, l.length = 0 → l = [] := fun l hl => List.eq_nil_of_length_eq_zero hl
    unfold Rd.readLoop at h
    split at h
    · simp only [Option.some.injEq, Prod.mk.injEq] at h
      obtain ⟨_, hr⟩ := h; subst hr
      refine ⟨Or.inl ?_, rfl⟩
      rcases hi with hi | hi
      · omega
      · exact hi
    · cases hsc : r.src.script with
      | nil =>
        rw [Src.read_nil _ _ hsc] at h
        simp only [Option.some.injEq, Prod.mk.injEq] at h
        obtain ⟨_, hr⟩ := h; subst hr
        have := hc.cover; rw [hsc] at this; simp [sumK] at this
        exact ⟨Or.inl (by simpa using this), by simp⟩
      | cons x rest =>
        have hok := hc.ok; have hcov := hc.cover
        rw [hsc] at hok hcov
        obtain ⟨hk, hrest, herr⟩ := chunksOk_cons hok
        simp only [sumK] at hcov
        rw [Src.read_cons _ _ x rest hsc] at h
        simp only [] at h
        generalize hd : min (min x.k (r.cap - r.buf.length)) r.src.stream.length = d at h
        have hdl : (r.src.stream.take d).length = d := by
          simp only [List.length_take]; omega
        have hdrop : (r.src.stream.drop d).length = r.src.stream.length - d := by simp
        have hdfact : d = min x.k r.src.stream.length := by omega
        have hsum : (r.buf ++ r.src.stream.take d).length + (r.src.stream.drop d).length
            = r.buf.length + r.src.stream.length := by
          simp only [List.length_append, hdl, hdrop]; omega
        clear hd
        by_cases hlast : rest = []
        · -- the last entry hands over everything that is left, with or without its error
          have hall : r.src.stream.drop d = [] := by
            apply hnil; rw [hdrop]; rw [hlast] at hcov; simp [sumK] at hcov; omega
          cases hxe : x.err with
          | some e =>
            simp only [hxe] at h
            simp only [Option.some.injEq, Prod.mk.injEq] at h
            obtain ⟨_, hr⟩ := h; subst hr
            exact ⟨Or.inl hall, hsum⟩
          | none =>
            simp only [hxe] at h
            split at h
            · simp only [Option.some.injEq, Prod.mk.injEq] at h
              obtain ⟨_, hr⟩ := h; subst hr
              exact ⟨Or.inl hall, hsum⟩
            · split at h
              · have := loop_drained _ _ _ _ _ _ h hall
                exact ⟨Or.inl this.1, by rw [this.1, this.2]; rw [hall] at hsum; exact hsum⟩
              · have := loop_drained _ _ _ _ _ _ h hall
                exact ⟨Or.inl this.1, by rw [this.1, this.2]; rw [hall] at hsum; exact hsum⟩
        · have hxe := herr hlast
          simp only [hxe] at h
          have hcov' : (r.src.stream.drop d).length ≤ sumK rest := by rw [hdrop]; omega
          split at h
          · simp only [Option.some.injEq, Prod.mk.injEq] at h
            obtain ⟨_, hr⟩ := h; subst hr
            exact ⟨Or.inr ⟨hc.err, hrest, hcov'⟩, hsum⟩
          · split at h
            · have := ih 0 _ (Or.inl maxEmpty_pos) (by exact ⟨hc.err, hrest, hcov'⟩)
                (by simp only [List.length_append, hdl, hdrop]; omega) h
              exact ⟨this.1, by rw [this.2]; exact hsum⟩
            · rename_i hzero
              simp only [hdl] at hzero
              have := ih (i+1) _ (Or.inr (by apply hnil; rw [hdrop]; omega)) (by exact ⟨hc.err, hrest, hcov'⟩)
                (by simp only [List.length_append, hdl, hdrop]; omega) h
              exact ⟨this.1, by rw [this.2]; exact hsum⟩

/-- (b) live for a small stream: chunked source, and the reader's own buffer (allocated at least
    `defaultBufSize` big) has room for everything that is buffered plus everything that is left -/
structure Rd.LiveChunks (r : Rd) : Prop where
  src : ChunkSrc r
  own : r.readOnly = false
  cap : r.cap = 0 ∨ Facts.defaultBufSize ≤ r.cap
  small : r.buf.length + r.src.stream.length ≤ Facts.defaultBufSize

/-- live, generalised: `Rd.Live` (everything handed over / `Steady`) or `Rd.LiveChunks` -/
def Rd.Live2 (r : Rd) : Prop := r.Live ∨ r.LiveChunks

theorem live2_canServe (r : Rd) (n : Nat) (hl : r.Live2) (hn : n ≤ r.remaining.length) :
    r.canServe n = true := by
  rcases hl with hl | hl
  · exact live_canServe r n hl hn
  · rw [remaining_length r] at hn
    unfold Rd.canServe
    simp only [Bool.or_eq_true, decide_eq_true_eq, Bool.and_eq_true]
    by_cases hfast : n ≤ r.buf.length - r.ri
    · exact Or.inl hfast
    · right
      refine ⟨by rw [hl.src.err]; rfl, ?_⟩
      have := hl.src.cover
      exact chunks_enough _ _ _ _ _ hl.src.ok (by omega) (by omega) (by omega) maxEmpty_pos

theorem live2_drained (r : Rd) (hl : r.Live2) (he : r.err ≠ none) : r.src.stream = [] := by
  rcases hl with (hl | ⟨h1, _⟩) | hl
  · exact hl
  · exact absurd h1 he
  · exact absurd hl.src.err he

theorem acquire_keeps_live2 (r : Rd) (n m : Nat) (r' : Rd) (hinv : Inv r) (hs : r.Small n)
    (hl : r.Live2) (h : r.acquire n = some (m, r')) : r'.Live2 := by
  rcases hl with hl | hl
  · exact Or.inl (acquire_keeps_live r n m r' hinv hs hl h)
  · unfold Rd.acquire at h
    split at h
    · simp only [Option.some.injEq, Prod.mk.injEq] at h
      obtain ⟨_, hr⟩ := h; subst hr; exact Or.inr hl
    · unfold Rd.acquireSlow at h
      split at h
      · simp only [Option.some.injEq, Prod.mk.injEq] at h
        obtain ⟨_, hr⟩ := h; subst hr; exact Or.inr hl
      · simp only [] at h
        have hp := prepare_spec r n hinv hs
        obtain ⟨hc1, hc2, hc3⟩ := prepare_cap r n hinv hs
        have hcapB : Facts.defaultBufSize ≤ (r.prepare n).cap := by
          rcases hl.cap with h0 | hB
          · exact hc2 h0
          · omega
        have hsmall := hl.small
        have hpost := readLoop_post _ _ _ _ _ _ h
        have := readLoop_chunks _ 0 _ n m r' (Or.inl maxEmpty_pos)
          ⟨by rw [hp.err]; exact hl.src.err, by rw [hp.src]; exact hl.src.ok,
           by rw [hp.src]; exact hl.src.cover⟩
          (by rw [hp.src, hp.buf]; omega) h
        rcases this.1 with hnil | hcs
        · exact Or.inl (Or.inl hnil)
        · refine Or.inr ⟨hcs, ?_, ?_, ?_⟩
          · rw [hpost.readOnly]; exact hc3 hl.own
          · right; rw [hpost.cap]; exact hcapB
          · rw [this.2, hp.buf, hp.src]; exact hsmall

theorem Rd.Live2.advance {r : Rd} (h : r.Live2) (k : Nat) : ({ r with ri := r.ri + k } : Rd).Live2 := by
  rcases h with h | h
  · exact Or.inl (h.frame rfl rfl)
  · exact Or.inr ⟨⟨h.src.err, h.src.ok, h.src.cover⟩, h.own, h.cap, h.small⟩

theorem live2_release (r : Rd) (h : r.Live2) : r.release.Live2 := by
  have hf := release_frame r
  rcases h with h | h
  · exact Or.inl (h.frame hf.1 hf.2)
  · refine Or.inr ⟨⟨by rw [hf.1]; exact h.src.err, by rw [hf.2]; exact h.src.ok,
      by rw [hf.2]; exact h.src.cover⟩, ?_, ?_, ?_⟩
    · unfold Rd.release; split
      · exact h.own
      · split <;> exact h.own
    · unfold Rd.release; split
      · exact Or.inl rfl
      · split
        · rename_i hro; rw [h.own] at hro; simp at hro
        · exact h.cap
    · have hsm := h.small
      rw [hf.2]
      have : r.release.buf.length ≤ r.buf.length := by
        unfold Rd.release; split
        · simp
        · split <;> simp
      omega

theorem live2_newDefault_chunks (S : Bytes) (script : List Resp)
    (h : SteadyChunks Facts.defaultBufSize script S.length = true) : (Rd.newDefault ⟨S, script⟩).Live2 := by
  simp only [SteadyChunks, Bool.and_eq_true, decide_eq_true_eq] at h
  exact Or.inr ⟨⟨rfl, h.1.2, h.2⟩, rfl, Or.inl rfl, by simpa [Rd.newDefault] using h.1.1⟩

/-- ONE STEP over a live (`Live2`) source: the source stays live, and the report passes the spec's
    liveness check `liveOk` at the contract's cursor -/
theorem step_live2 (c : Cur) (r : Rd) (op : ROp) (habs : Abs c r) (hs : r.Small op.size)
    (hl : r.Live2) : (r.step op).2.Live2 ∧ liveOk c op (r.step op).1 = true := by
  have hinv := habs.inv
  have hri := hinv.ri_le
  have hrest := habs.rest
  cases op with
  | next n =>
    have hs : r.Small n.toNat := hs
    rcases next_cases r n hinv hs with ⟨hneg, hn⟩ | ⟨hpos, m, r1, hacq, ha, hc⟩
    · exact ⟨by simpa [Rd.step, hn] using hl, by simp [Rd.step, hn, RdRes.toRes, liveOk, hneg]⟩
    · have h1 := acquire_keeps_live2 r _ m r1 hinv hs hl hacq
      have hlive := acquire_live r _ m r1 hinv hs hacq
      rcases hc with ⟨hgt, hn⟩ | ⟨hge, hn⟩
      · refine ⟨by simpa [Rd.step, hn] using h1, ?_⟩
        have : n.toNat > c.rest.length := by
          rw [hrest]
          by_cases hfit : n.toNat ≤ r.remaining.length
          · have := hlive.mpr (live2_canServe r _ hl hfit); omega
          · omega
        simp [Rd.step, hn, RdRes.toRes, liveOk, this]
      · exact ⟨by simp only [Rd.step, hn]; exact h1.advance _,
          by simp [Rd.step, hn, RdRes.toRes, liveOk]⟩
  | peek n =>
    have hs : r.Small n.toNat := hs
    rcases peek_cases r n hinv hs with ⟨hneg, hn⟩ | ⟨hpos, m, r1, hacq, ha, hc⟩
    · exact ⟨by simpa [Rd.step, hn] using hl, by simp [Rd.step, hn, RdRes.toRes, liveOk, hneg]⟩
    · have h1 := acquire_keeps_live2 r _ m r1 hinv hs hl hacq
      have hlive := acquire_live r _ m r1 hinv hs hacq
      rcases hc with ⟨hgt, hn⟩ | ⟨hge, hn⟩
      · refine ⟨by simpa [Rd.step, hn] using h1, ?_⟩
        have : n.toNat > c.rest.length := by
          rw [hrest]
          by_cases hfit : n.toNat ≤ r.remaining.length
          · have := hlive.mpr (live2_canServe r _ hl hfit); omega
          · omega
        simp [Rd.step, hn, RdRes.toRes, liveOk, this]
      · exact ⟨by simpa [Rd.step, hn] using h1, by simp [Rd.step, hn, RdRes.toRes, liveOk]⟩
  | skip n =>
    have hs : r.Small n.toNat := hs
    rcases skip_cases r n hinv hs with ⟨hneg, hn⟩ | ⟨hpos, m, r1, hacq, ha, hc⟩
    · exact ⟨by simpa [Rd.step, hn] using hl, by simp [Rd.step, hn, RdRes.toRes, liveOk, hneg]⟩
    · have h1 := acquire_keeps_live2 r _ m r1 hinv hs hl hacq
      have hlive := acquire_live r _ m r1 hinv hs hacq
      rcases hc with ⟨hgt, hn⟩ | ⟨hge, hn⟩
      · refine ⟨by simpa [Rd.step, hn] using h1, ?_⟩
        have : n.toNat > c.rest.length := by
          rw [hrest]
          by_cases hfit : n.toNat ≤ r.remaining.length
          · have := hlive.mpr (live2_canServe r _ hl hfit); omega
          · omega
        simp [Rd.step, hn, RdRes.toRes, liveOk, this]
      · exact ⟨by simp only [Rd.step, hn]; exact h1.advance _,
          by simp [Rd.step, hn, RdRes.toRes, liveOk]⟩
  | readBinary k =>
    have hs : r.Small k := hs
    obtain ⟨m, r1, hacq, ha, hn⟩ := readBinary_cases r k hinv hs
    have h1 := acquire_keeps_live2 r _ m r1 hinv hs hl hacq
    have hlive := acquire_live r _ m r1 hinv hs hacq
    refine ⟨by simp only [Rd.step, hn]; exact h1.advance _, ?_⟩
    have hrem : r1.remaining = r.remaining := ha.remaining hri
    have : min m k = min k c.rest.length := by
      rw [hrest]
      by_cases hfit : k ≤ r.remaining.length
      · have := hlive.mpr (live2_canServe r _ hl hfit); omega
      · have hgt : k > m := by
          by_cases hkm : k ≤ m
          · have := canServe_le r k (hlive.mp hkm); omega
          · omega
        obtain ⟨he, hm⟩ := ha.short hgt
        have hstr : r1.src.stream = [] := live2_drained r1 h1 he
        have hl1 := remaining_length r1
        rw [hstr, hrem] at hl1
        simp only [List.length_nil, Nat.add_zero] at hl1
        omega
    simp [Rd.step, hn, liveOk, this]
  | release e =>
    exact ⟨by simpa [Rd.step, Rd.releaseE] using live2_release r hl, by simp [liveOk]⟩
  | readLen =>
    exact ⟨by simpa [Rd.step] using hl, by simp [liveOk]⟩


end Verif

/-
  Lemmas/SkipBinCause: the cause classifier `causeBin` (Spec/Cause.lean)
    (A) accepts exactly what the grammar `refBin` accepts, with the same extent, and
    (B) is refined *error-exactly* by Binary.Skip (model `skipBinAt`/`skipBin`): for every input the
        model returns the extent, or the protocol exception whose type id is `typeIdOf` of the cause.
  (B) re-does the loop invariants of Lemmas/SkipBin.lean with error kinds; the implementation's
  overshoot (fixed-size keys / values / fields added without a bounds check) is tolerated exactly
  where the spec says `truncated`.
-/
import Verif.Spec.Cause
import Verif.Lemmas.SkipBin
namespace Verif

/-! ## the exception values of the source carry Thrift's numbers -/

theorem typeIdOf_truncated : typeIdOf .truncated = Facts.peINVALID_DATA := by decide
theorem typeIdOf_unknownType : typeIdOf .unknownType = Facts.peINVALID_DATA := by decide
theorem typeIdOf_negativeSize : typeIdOf .negativeSize = Facts.peNEGATIVE_SIZE := by decide
theorem typeIdOf_depth : typeIdOf .depth = Facts.peDEPTH_LIMIT := by decide

theorem errShort_pe : errShort = .pe (typeIdOf .truncated) := by decide
theorem errUnknownType_pe : errUnknownType = .pe (typeIdOf .unknownType) := by decide
theorem errNeg_pe : errNeg = .pe (typeIdOf .negativeSize) := by decide
theorem errDepth_pe : errDepth = .pe (typeIdOf .depth) := by decide

/-! ## (A) consistency with the grammar -/

def okOf : CRes → Option Nat
  | .ok n => some n
  | .error _ => none

@[simp] theorem okOf_ok (n : Nat) : okOf (.ok n) = some n := rfl
@[simp] theorem okOf_error (c : Cause) : okOf (.error c) = none := rfl
@[simp] theorem cmap_ok (f : Nat → Nat) (n : Nat) : (Except.map f (.ok n : CRes)) = .ok (f n) := rfl
@[simp] theorem cmap_error (f : Nat → Nat) (c : Cause) : (Except.map f (.error c : CRes)) = .error c := rfl

theorem okOf_eq_some {x : CRes} {n : Nat} : okOf x = some n ↔ x = .ok n := by
  cases x <;> simp [okOf]

theorem okOf_map (f : Nat → Nat) (x : CRes) : okOf (x.map f) = (okOf x).map f := by
  cases x <;> rfl

theorem causeStr_okOf (b : Bytes) : okOf (causeStr b) = refStr b := by
  unfold causeStr refStr
  by_cases h4 : b.length < 4
  · have : ¬ 4 ≤ b.length := by omega
    simp [h4, this]
  · have h4' : 4 ≤ b.length := by omega
    simp only [h4, if_false]
    by_cases hn : rd32 b < 2147483648
    · by_cases hf : 4 + rd32 b ≤ b.length <;> simp [hn, hf, h4']
    · simp [hn]

theorem causeN_okOf {f : Bytes → CRes} {g : Bytes → Option Nat} (h : ∀ b, okOf (f b) = g b) :
    ∀ n b, okOf (causeN f n b) = refN g n b := by
  intro n
  induction n with
  | zero => intro b; simp [causeN, refN]
  | succ n ih =>
    intro b
    simp only [causeN, refN, ← h]
    cases hf : f b with
    | error c => simp
    | ok k =>
      simp only [okOf_ok, ← ih]
      cases hr : causeN f n (b.drop k) <;> simp

theorem causeKV_okOf {fk fv : Bytes → CRes} {gk gv : Bytes → Option Nat}
    (hk : ∀ b, okOf (fk b) = gk b) (hv : ∀ b, okOf (fv b) = gv b) :
    ∀ n b, okOf (causeKV fk fv n b) = refKV gk gv n b := by
  intro n
  induction n with
  | zero => intro b; simp [causeKV, refKV]
  | succ n ih =>
    intro b
    simp only [causeKV, refKV, ← hk]
    cases hf : fk b with
    | error c => simp
    | ok k =>
      simp only [okOf_ok, ← hv]
      cases hg : fv (b.drop k) with
      | error c => simp
      | ok v =>
        simp only [okOf_ok, ← ih]
        cases hr : causeKV fk fv n (b.drop (k + v)) <;> simp

theorem causeFields_okOf {f : UInt8 → Bytes → CRes} {g : UInt8 → Bytes → Option Nat}
    (h : ∀ t b, okOf (f t b) = g t b) :
    ∀ fuel b, okOf (causeFields f fuel b) = refFields g fuel b := by
  intro fuel
  induction fuel with
  | zero => intro b; simp [causeFields, refFields]
  | succ fuel ih =>
    intro b
    cases b with
    | nil => simp [causeFields, refFields]
    | cons t rest =>
      simp only [causeFields, refFields]
      by_cases ht : t = 0
      · simp [ht]
      · simp only [ht, if_false]
        by_cases hl : rest.length < 2
        · simp [hl]
        · simp only [hl, if_false, ← h]
          cases hf : f t (rest.drop 2) with
          | error c => simp
          | ok k =>
            simp only [okOf_ok, ← ih]
            cases hr : causeFields f fuel (rest.drop (2 + k)) <;> simp

theorem causeElem_okOf {f : UInt8 → Bytes → CRes} {g : UInt8 → Bytes → Option Nat}
    (h : ∀ t b, okOf (f t b) = g t b) (t : UInt8) (b : Bytes) :
    okOf (causeElem f t b) = gElem g t b := by
  unfold causeElem gElem
  by_cases hf : fixedSize t > 0
  · by_cases hl : fixedSize t ≤ b.length <;> simp [hf, hl]
  · simp only [hf, if_false]
    by_cases hs : t = TT.STRING
    · simp [hs, causeStr_okOf]
    · simp [hs, h]

theorem causeLayer_okOf {E : UInt8 → Bytes → CRes} {G : UInt8 → Bytes → Option Nat}
    (h : ∀ t b, okOf (E t b) = G t b) (t : UInt8) (b : Bytes) :
    okOf (causeLayer E t b) = layer G t b := by
  unfold causeLayer layer
  by_cases hf : fixedSize t > 0
  · by_cases hl : fixedSize t ≤ b.length <;> simp [hf, hl]
  · simp only [hf, if_false]
    by_cases hs : t = TT.STRING
    · simp [hs, causeStr_okOf]
    · simp only [hs, if_false]
      by_cases hst : t = TT.STRUCT
      · simp only [hst, if_true]; exact causeFields_okOf h _ _
      · simp only [hst, if_false]
        by_cases hl : t = TT.LIST ∨ t = TT.SET
        · simp only [hl, if_true]
          cases b with
          | nil => simp
          | cons et rest =>
            simp only
            by_cases h4 : rest.length < 4
            · have : ¬ 4 ≤ rest.length := by omega
              simp [h4, this]
            · have h4' : 4 ≤ rest.length := by omega
              by_cases hn : rd32 rest < 2147483648
              · simp only [h4, hn, h4', if_false, not_true_eq_false, and_self, if_true, okOf_map,
                  causeN_okOf (h et)]
              · simp [h4, hn]
        · simp only [hl, if_false]
          by_cases hm : t = TT.MAP
          · simp only [hm, if_true]
            match b with
            | [] => simp
            | [_] => simp
            | kt :: vt :: rest =>
              simp only
              by_cases h4 : rest.length < 4
              · have : ¬ 4 ≤ rest.length := by omega
                simp [h4, this]
              · have h4' : 4 ≤ rest.length := by omega
                by_cases hn : rd32 rest < 2147483648
                · simp only [h4, hn, h4', if_false, not_true_eq_false, and_self, if_true, okOf_map,
                    causeKV_okOf (h kt) (h vt)]
                · simp [h4, hn]
          · simp [hm]

theorem causeBin_okOf : ∀ d t b, okOf (causeBin d t b) = refBin d t b := by
  intro d
  induction d with
  | zero => intro t b; simp only [causeBin, refBin]; split <;> rfl
  | succ d ih =>
    intro t b
    simp only [causeBin, refBin]
    by_cases h0 : b.length = 0
    · have : b = [] := List.eq_nil_of_length_eq_zero h0
      subst this
      have := good_nil (layer_good (gElem_good (refBin_good d)) t)
      simp [this]
    · simp only [h0, if_false]
      exact causeLayer_okOf (fun t b => causeElem_okOf ih t b) t b

/-- the classifier reports an extent exactly when the grammar does, and the same one -/
theorem causeBin_ok_iff (d : Nat) (t : UInt8) (b : Bytes) (n : Nat) :
    causeBin d t b = .ok n ↔ refBin d t b = some n := by
  rw [← causeBin_okOf, okOf_eq_some]

/-- … so a cause is reported exactly for the inputs the grammar rejects -/
theorem causeBin_error_iff (d : Nat) (t : UInt8) (b : Bytes) :
    (∃ c, causeBin d t b = .error c) ↔ refBin d t b = none := by
  rw [← causeBin_okOf]
  cases causeBin d t b <;> simp


/-! ## (B) error-exact refinement -/

/-- what Binary.Skip must return for a classifier result -/
def toOut : CRes → TOut Nat
  | .ok n => .ok n
  | .error c => .err (.pe (typeIdOf c))

@[simp] theorem toOut_ok (n : Nat) : toOut (.ok n) = .ok n := rfl
@[simp] theorem toOut_error (c : Cause) : toOut (.error c) = .err (.pe (typeIdOf c)) := rfl

/-- a classifier of one value: extents are non-empty and within the input, nothing is truncated -/
def CGood (g : Bytes → CRes) : Prop :=
  (∀ b n, g b = .ok n → 1 ≤ n ∧ n ≤ b.length) ∧ g [] = .error .truncated

/-- loop results: exact when the classifier accepts; otherwise the classified error — or, when the
    cause is truncation, an offset beyond the end of the buffer (which the next bounds check / the
    caller's final bounds check turns into errBufferTooShort) -/
def CLoop (x : TOut Nat) (o : CRes) (i len : Nat) : Prop :=
  match o with
  | .ok k => x = .ok (i + k)
  | .error c => x = .err (.pe (typeIdOf c)) ∨ (c = .truncated ∧ ∃ j, x = .ok j ∧ j > len)

/-- how one element measured at offset i relates to its classifier `g`: either a fixed size added
    without a bounds check, or an exact match (error kind included) -/
def CElemOK (x : Nat → TOut Nat) (g : Bytes → CRes) (b : Bytes) : Prop :=
  (∃ s, 1 ≤ s ∧ (∀ i, x i = .ok s) ∧
      (∀ bb : Bytes, g bb = if s ≤ bb.length then .ok s else .error .truncated))
  ∨ ((∀ i, i < b.length → x i = toOut (g (b.drop i))) ∧ CGood g)

theorem CElemOK.good {x g b} (h : CElemOK x g b) : CGood g := by
  rcases h with ⟨s, hs, _, hg⟩ | ⟨_, hg⟩
  · constructor
    · intro bb n hn; rw [hg] at hn; split at hn
      · cases hn; omega
      · cases hn
    · rw [hg]; simp; omega
  · exact hg

theorem celem_step {x g b} (h : CElemOK x g b) (i : Nat) (hi : i < b.length) :
    (∃ k, x i = .ok k ∧ 1 ≤ k ∧ ((g (b.drop i) = .ok k ∧ i + k ≤ b.length) ∨
                                 (g (b.drop i) = .error .truncated ∧ i + k > b.length)))
    ∨ (∃ c, x i = .err (.pe (typeIdOf c)) ∧ g (b.drop i) = .error c) := by
  rcases h with ⟨s, hs, hx, hg⟩ | ⟨hm, hgood⟩
  · left
    refine ⟨s, hx i, hs, ?_⟩
    rw [hg]; simp only [List.length_drop]
    by_cases hle : s ≤ b.length - i
    · left; simp [hle]; omega
    · right; simp [hle]; omega
  · have := hm i hi
    cases hgi : g (b.drop i) with
    | error c => right; rw [hgi] at this; exact ⟨c, this, rfl⟩
    | ok k =>
      left; rw [hgi] at this
      have hk := hgood.1 _ k hgi
      simp only [List.length_drop] at hk
      exact ⟨k, this, hk.1, Or.inl ⟨rfl, by omega⟩⟩

/-- once past the end of the buffer the list loop fails with errBufferTooShort or ends past the end -/
theorem listLoop_over {rec b vt vsz} : ∀ cnt i, i > b.length →
    listLoopBin rec b vt vsz cnt i = .err errShort ∨ ∃ j, listLoopBin rec b vt vsz cnt i = .ok j ∧ j > b.length := by
  intro cnt i hi
  cases cnt with
  | zero => right; exact ⟨i, by simp [listLoopBin], hi⟩
  | succ cnt => left; have : i ≥ b.length := by omega
                simp [listLoopBin, this]

theorem mapLoop_over {rec b kt vt ksz vsz} : ∀ cnt i, i > b.length →
    mapLoopBin rec b kt vt ksz vsz cnt i = .err errShort ∨
      ∃ j, mapLoopBin rec b kt vt ksz vsz cnt i = .ok j ∧ j > b.length := by
  intro cnt i hi
  cases cnt with
  | zero => right; exact ⟨i, by simp [mapLoopBin], hi⟩
  | succ cnt => left; have : i ≥ b.length := by omega
                simp [mapLoopBin, this]

theorem CLoop_over {x : TOut Nat} {len : Nat} (i : Nat)
    (h : x = .err errShort ∨ ∃ j, x = .ok j ∧ j > len) : CLoop x (.error .truncated) i len := by
  unfold CLoop
  rcases h with h | ⟨j, hj, hjl⟩
  · left; rw [h, errShort_pe]
  · right; exact ⟨rfl, j, hj, hjl⟩

theorem listLoop_cause {rec b vt vsz f} (hE : CElemOK (fun i => elemBin rec b i vt vsz) f b) :
    ∀ cnt i, CLoop (listLoopBin rec b vt vsz cnt i) (causeN f cnt (b.drop i)) i b.length := by
  intro cnt
  induction cnt with
  | zero => intro i; simp [listLoopBin, causeN, CLoop]
  | succ cnt ih =>
    intro i
    simp only [listLoopBin, causeN]
    by_cases hi : i ≥ b.length
    · have : b.drop i = [] := List.drop_eq_nil_of_le hi
      simp [hi, this, hE.good.2, CLoop, errShort_pe]
    · simp only [hi, if_false]
      rcases celem_step hE i (by omega) with ⟨k, hx, hk1, hcase⟩ | ⟨c, hx, hg⟩
      · have hx := hx
        simp only [hx, Out.bind_eq, Out.bind_ok]
        rcases hcase with ⟨hg, hle⟩ | ⟨hg, hgt⟩
        · simp only [hg, drop_drop']
          have := ih (i + k)
          unfold CLoop at this ⊢
          cases hr : causeN f cnt (b.drop (i + k)) with
          | error c => simpa [hr] using this
          | ok r => simp [hr] at this ⊢; rw [this]; congr 1; omega
        · simp only [hg]
          exact CLoop_over i (listLoop_over cnt (i + k) hgt)
      · have hx := hx
        simp [hx, hg, CLoop]

theorem mapLoop_cause {rec b kt vt ksz vsz fk fv}
    (hK : CElemOK (fun i => elemBin rec b i kt ksz) fk b)
    (hV : CElemOK (fun i => elemBin rec b i vt vsz) fv b) :
    ∀ cnt i, CLoop (mapLoopBin rec b kt vt ksz vsz cnt i) (causeKV fk fv cnt (b.drop i)) i b.length := by
  intro cnt
  induction cnt with
  | zero => intro i; simp [mapLoopBin, causeKV, CLoop]
  | succ cnt ih =>
    intro i
    simp only [mapLoopBin, causeKV]
    by_cases hi : i ≥ b.length
    · have : b.drop i = [] := List.drop_eq_nil_of_le hi
      simp [hi, this, hK.good.2, CLoop, errShort_pe]
    · simp only [hi, if_false]
      rcases celem_step hK i (by omega) with ⟨k, hx, hk1, hcase⟩ | ⟨c, hx, hg⟩
      · have hx := hx
        simp only [hx, Out.bind_eq, Out.bind_ok]
        by_cases hi1 : i + k ≥ b.length
        · -- no room for the value: the model fails with errBufferTooShort; the classifier says truncated
          simp only [hi1, if_true]
          rcases hcase with ⟨hg, hle⟩ | ⟨hg, hgt⟩
          · have : b.drop (i + k) = [] := List.drop_eq_nil_of_le hi1
            simp [hg, this, hV.good.2, CLoop, errShort_pe]
          · simp [hg, CLoop, errShort_pe]
        · simp only [hi1, if_false]
          have hg : fk (b.drop i) = .ok k := by
            rcases hcase with ⟨hg, _⟩ | ⟨_, hgt⟩
            · exact hg
            · omega
          simp only [hg, drop_drop']
          rcases celem_step hV (i + k) (by omega) with ⟨v, hy, hv1, hcase2⟩ | ⟨c, hy, hg2⟩
          · have hy := hy
            simp only [hy, Out.bind_ok]
            rcases hcase2 with ⟨hg2, hle⟩ | ⟨hg2, hgt⟩
            · simp only [hg2]
              have := ih (i + k + v)
              unfold CLoop at this ⊢
              rw [← Nat.add_assoc]
              cases hr : causeKV fk fv cnt (b.drop (i + k + v)) with
              | error c => simpa [hr] using this
              | ok r => simp [hr] at this ⊢; rw [this]; congr 1; omega
            · simp only [hg2]
              exact CLoop_over i (mapLoop_over cnt (i + k + v) hgt)
          · have hy := hy
            simp [hy, hg2, CLoop]
      · have hx := hx
        simp [hx, hg, CLoop]


theorem structLoop_cause {rec b} {g : UInt8 → Bytes → CRes}
    (hF : ∀ ft, CElemOK (fun i => elemBin rec b i ft ((fixedSize ft : Nat) : Int)) (g ft) b) :
    ∀ fuel i, b.length - i < fuel →
      structLoopBin rec b fuel i = toOut ((causeFields g fuel (b.drop i)).map (i + ·)) := by
  intro fuel
  induction fuel with
  | zero => intro i h; omega
  | succ fuel ih =>
    intro i hfuel
    simp only [structLoopBin]
    by_cases hi : i ≥ b.length
    · have : b.drop i = [] := List.drop_eq_nil_of_le hi
      simp [hi, this, causeFields, errShort_pe]
    · simp only [hi, if_false]
      have hlt : i < b.length := by omega
      rw [load_ok b i hlt]
      have hd : b.drop i = b[i] :: b.drop (i + 1) := List.drop_eq_getElem_cons hlt
      simp only [Out.bind_eq, Out.bind_ok, hd, causeFields, T_STOP_eq]
      by_cases ht : b[i] = 0
      · simp [ht]
      · simp only [ht, if_false, List.length_drop]
        by_cases hi2 : i + 1 + 2 ≥ b.length
        · simp only [hi2, if_true]
          by_cases hl : b.length - (i + 1) < 2
          · simp [hl, errShort_pe]
          · have : (b.drop (i + 1)).drop 2 = [] := by
              rw [drop_drop']; exact List.drop_eq_nil_of_le (by omega)
            simp [hl, this, (hF b[i]).good.2, errShort_pe]
        · have hl : ¬ b.length - (i + 1) < 2 := by omega
          simp only [hi2, hl, if_false, typeSize_eq, Out.bind_ok, drop_drop']
          rcases celem_step (hF b[i]) (i + 1 + 2) (by omega) with ⟨k, hx, hk1, hcase⟩ | ⟨c, hx, hg⟩
          · have hx := hx
            simp only [hx, Out.bind_ok]
            have hih := ih (i + 1 + 2 + k) (by omega)
            rcases hcase with ⟨hg, hle⟩ | ⟨hg, hgt⟩
            · simp only [hg]
              rw [show i + 1 + (2 + k) = i + 1 + 2 + k by omega]
              rw [hih]
              cases hr : causeFields g fuel (b.drop (i + 1 + 2 + k)) with
              | error c => simp
              | ok r => simp; omega
            · simp only [hg]
              have : b.drop (i + 1 + 2 + k) = [] := List.drop_eq_nil_of_le (by omega)
              rw [this] at hih
              cases fuel with
              | zero => omega
              | succ fuel' => simpa [causeFields] using hih
          · have hx := hx
            simp [hx, hg]

theorem skipStrBin_cause (b : Bytes) (i : Nat) (hi : i ≤ b.length) :
    skipStrBin b i = toOut (causeStr (b.drop i)) := by
  unfold skipStrBin causeStr
  by_cases h4 : i + 4 ≤ b.length
  · have hl : ¬ b.length - i < 4 := by omega
    simp only [h4, if_true]
    rw [loadI32_ok b i h4]
    have hlt := rd32_lt (b.drop i)
    simp only [Out.bind_eq, Out.bind_ok, List.length_drop, hl, if_false]
    by_cases hn : rd32 (b.drop i) < 2147483648
    · have : ¬ toI32 (rd32 (b.drop i)) < 0 := by rw [toI32_neg_iff _ hlt]; simpa using hn
      simp only [this, if_false, toI32_toNat _ hn, hn, not_true_eq_false]
      by_cases hf : i + (4 + rd32 (b.drop i)) ≤ b.length
      · have : 4 + rd32 (b.drop i) ≤ b.length - i := by omega
        simp [hf, this]
      · have : ¬ 4 + rd32 (b.drop i) ≤ b.length - i := by omega
        simp [hf, this, errShort_pe]
    · have : toI32 (rd32 (b.drop i)) < 0 := by rw [toI32_neg_iff _ hlt]; exact hn
      simp [this, hn, errNeg_pe]
  · have hl : b.length - i < 4 := by omega
    simp [h4, hl, errShort_pe]

theorem causeStr_good : CGood causeStr := by
  constructor
  · intro b n h
    have := refStr_good b n (by rw [← causeStr_okOf, h]; rfl)
    exact this
  · simp [causeStr]

theorem causeN_fixed (s : Nat) (_hs : 1 ≤ s) (g : Bytes → CRes)
    (hg : ∀ bb : Bytes, g bb = if s ≤ bb.length then .ok s else .error .truncated) :
    ∀ n (b : Bytes), causeN g n b = if n * s ≤ b.length then .ok (n * s) else .error .truncated := by
  intro n
  induction n with
  | zero => intro b; simp [causeN]
  | succ n ih =>
    intro b
    simp only [causeN, hg]
    by_cases h1 : s ≤ b.length
    · simp only [h1, if_true, ih, List.length_drop]
      by_cases h2 : n * s ≤ b.length - s
      · have : (n + 1) * s ≤ b.length := by rw [Nat.add_mul]; omega
        rw [if_pos this]; simp only [h2, if_true]; congr 1; rw [Nat.add_mul]; omega
      · have : ¬ (n + 1) * s ≤ b.length := by rw [Nat.add_mul]; omega
        simp [h2, this]
    · have : ¬ (n + 1) * s ≤ b.length := by
        rw [Nat.add_mul]; have := Nat.zero_le (n * s); omega
      simp [h1, this]

theorem causeKV_fixed (k v : Nat) (_hk : 1 ≤ k) (_hv : 1 ≤ v) (gk gv : Bytes → CRes)
    (hgk : ∀ bb : Bytes, gk bb = if k ≤ bb.length then .ok k else .error .truncated)
    (hgv : ∀ bb : Bytes, gv bb = if v ≤ bb.length then .ok v else .error .truncated) :
    ∀ n (b : Bytes), causeKV gk gv n b =
      if n * (k + v) ≤ b.length then .ok (n * (k + v)) else .error .truncated := by
  intro n
  induction n with
  | zero => intro b; simp [causeKV]
  | succ n ih =>
    intro b
    simp only [causeKV, hgk, hgv]
    by_cases h1 : k ≤ b.length
    · simp only [h1, if_true, List.length_drop]
      by_cases h2 : v ≤ b.length - k
      · simp only [h2, if_true, ih, List.length_drop]
        by_cases h3 : n * (k + v) ≤ b.length - (k + v)
        · have : (n + 1) * (k + v) ≤ b.length := by rw [Nat.add_mul]; omega
          rw [if_pos this]; simp only [h3, if_true]; congr 1; rw [Nat.add_mul]; omega
        · have : ¬ (n + 1) * (k + v) ≤ b.length := by rw [Nat.add_mul]; omega
          simp [h3, this]
      · have : ¬ (n + 1) * (k + v) ≤ b.length := by
          rw [Nat.add_mul]; have := Nat.zero_le (n * (k + v)); omega
        simp [h2, this]
    · have : ¬ (n + 1) * (k + v) ≤ b.length := by
        rw [Nat.add_mul]; have := Nat.zero_le (n * (k + v)); omega
      simp [h1, this]

theorem causeElem_fixed (f : UInt8 → Bytes → CRes) (t : UInt8) (h : 0 < fixedSize t) (bb : Bytes) :
    causeElem f t bb = if fixedSize t ≤ bb.length then .ok (fixedSize t) else .error .truncated := by
  unfold causeElem; simp [h]

theorem causeElem_good {f : UInt8 → Bytes → CRes} (h : ∀ t, CGood (f t)) (t : UInt8) :
    CGood (causeElem f t) := by
  unfold causeElem
  by_cases hf : fixedSize t > 0
  · constructor
    · intro b n hb
      simp only [hf, if_true] at hb
      split at hb
      · cases hb; omega
      · cases hb
    · have : ¬ fixedSize t ≤ 0 := by omega
      simp [hf, this]
  · by_cases hs : t = TT.STRING
    · subst hs; simpa [fixedSize_STRING] using causeStr_good
    · simpa [hf, hs] using h t

theorem causeBin_good (d : Nat) (t : UInt8) : CGood (causeBin d t) := by
  constructor
  · intro b n h
    exact refBin_good d t b n ((causeBin_ok_iff d t b n).mp h)
  · cases d <;> simp [causeBin]

theorem celemOK_of {rec : Bytes → Nat → UInt8 → TOut Nat} {f : UInt8 → Bytes → CRes} (b : Bytes)
    (HR : ∀ bb i tt, i < bb.length → rec bb i tt = toOut (f tt (bb.drop i)))
    (hGood : ∀ t, CGood (f t)) (t : UInt8) :
    CElemOK (fun i => elemBin rec b i t ((fixedSize t : Nat) : Int)) (causeElem f t) b := by
  by_cases hf : 0 < fixedSize t
  · left
    refine ⟨fixedSize t, hf, ?_, causeElem_fixed f t hf⟩
    intro i
    have : ((fixedSize t : Nat) : Int) > 0 := by omega
    simp only [elemBin, this, if_true, Int.toNat_natCast]
  · right
    refine ⟨?_, causeElem_good hGood t⟩
    intro i hi
    have h0 : fixedSize t = 0 := by omega
    simp only [elemBin, h0, causeElem]
    simp only [Int.natCast_zero, gt_iff_lt, Int.lt_irrefl, if_false, Nat.lt_irrefl, T_STRING_eq]
    by_cases hs : t = TT.STRING
    · simp only [hs, if_true]; exact skipStrBin_cause b i (by omega)
    · simp only [hs, if_false]; exact HR b i t hi

theorem celemExact_of {rec : Bytes → Nat → UInt8 → TOut Nat} {f : UInt8 → Bytes → CRes} (b : Bytes)
    (HR : ∀ bb i tt, i < bb.length → rec bb i tt = toOut (f tt (bb.drop i)))
    (t : UInt8) (h0 : fixedSize t = 0) (i : Nat) (hi : i < b.length) :
    elemBin rec b i t ((fixedSize t : Nat) : Int) = toOut (causeElem f t (b.drop i)) := by
  simp only [elemBin, h0, causeElem]
  simp only [Int.natCast_zero, gt_iff_lt, Int.lt_irrefl, if_false, Nat.lt_irrefl, T_STRING_eq]
  by_cases hs : t = TT.STRING
  · simp only [hs, if_true]; exact skipStrBin_cause b i (by omega)
  · simp only [hs, if_false]; exact HR b i t hi

theorem cmap_id (y : CRes) : Except.map (fun x => x) y = y := by cases y <;> rfl

/-- with exactly measured elements the list loop never runs past the end of the buffer -/
theorem listLoop_le_c {rec b vt vsz} {g : Bytes → CRes}
    (hx : ∀ i, i < b.length → elemBin rec b i vt vsz = toOut (g (b.drop i))) (hg : CGood g) :
    ∀ cnt i j, i ≤ b.length → listLoopBin rec b vt vsz cnt i = .ok j → j ≤ b.length := by
  intro cnt
  induction cnt with
  | zero => intro i j hi h; simp [listLoopBin] at h; omega
  | succ cnt ih =>
    intro i j hi h
    simp only [listLoopBin] at h
    by_cases hge : i ≥ b.length
    · simp [hge] at h
    · simp only [hge, if_false] at h
      have hm := hx i (by omega)
      cases hgi : g (b.drop i) with
      | error c =>
        rw [hgi] at hm
        simp [hm] at h
      | ok k =>
        rw [hgi] at hm
        have hk := hg.1 _ k hgi
        simp only [List.length_drop] at hk
        simp only [hm, toOut_ok, Out.bind_eq, Out.bind_ok] at h
        exact ih (i + k) j (by omega) h


/-- skipType at any offset inside the slice: the extent, or exactly the exception of the cause -/
theorem skipBinAt_cause : ∀ d (b0 : Bytes) (off : Nat) (t : UInt8), off < b0.length →
    skipBinAt d b0 off t = toOut (causeBin d t (b0.drop off)) := by
  intro d
  induction d with
  | zero =>
    intro b0 off t hoff
    have : ¬ b0.length - off = 0 := by omega
    simp [skipBinAt, causeBin, this, errDepth_pe]
  | succ d ih =>
    intro b0 off t hoff
    generalize hb : b0.drop off = b
    have hbl : ¬ b.length = 0 := by rw [← hb, List.length_drop]; omega
    have hG := causeBin_good d
    have hE := fun (bb : Bytes) => celemOK_of (rec := fun bb i tt => skipBinAt d bb i tt) (f := causeBin d) bb
      (fun bb i tt h => ih bb i tt h) hG
    simp only [skipBinAt, hb, causeBin, hbl, if_false, typeSize_eq, Out.bind_eq, Out.bind_ok]
    unfold causeLayer
    by_cases hf : 0 < fixedSize t
    · have : ((fixedSize t : Nat) : Int) > 0 := by omega
      simp only [this, hf, if_true, Int.toNat_natCast]
      by_cases hl : fixedSize t ≤ b.length
      · have : ¬ fixedSize t > b.length := by omega
        simp [hl, this]
      · have : fixedSize t > b.length := by omega
        simp [hl, this, errShort_pe]
    · have h0 : fixedSize t = 0 := by omega
      simp only [h0, Int.natCast_zero, gt_iff_lt, Int.lt_irrefl, Nat.lt_irrefl, if_false,
        T_STRING_eq, T_MAP_eq, T_LIST_eq, T_SET_eq, T_STRUCT_eq]
      by_cases hs : t = TT.STRING
      · simp only [hs, if_true]
        have := skipStrBin_cause b 0 (Nat.zero_le _)
        simpa using this
      · simp only [hs, if_false]
        by_cases hm : t = TT.MAP
        · subst hm
          simp only [show TT.MAP ≠ TT.STRUCT by decide, show ¬ (TT.MAP = TT.LIST ∨ TT.MAP = TT.SET) by decide,
            if_true, if_false]
          match b, hbl with
          | [], hbl => simp at hbl
          | [_], _ => simp [errShort_pe]
          | kt :: vt :: rest, _ =>
            have hlen : (kt :: vt :: rest).length = rest.length + 2 := by simp
            simp only [hlen]
            by_cases h6 : 6 > rest.length + 2
            · have : rest.length < 4 := by omega
              simp [h6, this, errShort_pe]
            · have h4 : ¬ rest.length < 4 := by omega
              have hl0 : load (kt :: vt :: rest) 0 = .ok kt := by simp [load]
              have hl1 : load (kt :: vt :: rest) 1 = .ok vt := by simp [load]
              have hl2 : loadI32 (kt :: vt :: rest) 2 = .ok (toI32 (rd32 rest)) := by
                rw [loadI32_ok _ 2 (by simp; omega)]; simp
              simp only [h6, if_false, hl0, hl1, hl2, Out.bind_ok, h4]
              have hlt := rd32_lt rest
              by_cases hn : rd32 rest < 2147483648
              · have hnn : ¬ toI32 (rd32 rest) < 0 := by rw [toI32_neg_iff _ hlt]; simpa using hn
                simp only [hnn, hn, not_true_eq_false, if_false, toI32_toNat _ hn]
                by_cases hfast : ((fixedSize kt : Nat) : Int) > 0 ∧ ((fixedSize vt : Nat) : Int) > 0
                · have hk : 1 ≤ fixedSize kt := by omega
                  have hv : 1 ≤ fixedSize vt := by omega
                  simp only [hfast, and_self, if_true, Int.toNat_natCast]
                  rw [causeKV_fixed (fixedSize kt) (fixedSize vt) hk hv _ _
                    (causeElem_fixed _ kt hk) (causeElem_fixed _ vt hv)]
                  simp only [List.length_drop]
                  by_cases hfit : rd32 rest * (fixedSize kt + fixedSize vt) ≤ rest.length - 4
                  · have : ¬ 6 + rd32 rest * (fixedSize kt + fixedSize vt) > rest.length + 2 := by omega
                    simp [hfit, this]
                  · have : 6 + rd32 rest * (fixedSize kt + fixedSize vt) > rest.length + 2 := by omega
                    simp [hfit, this, errShort_pe]
                · simp only [hfast, if_false]
                  have hloop := mapLoop_cause (hE (kt :: vt :: rest) kt) (hE (kt :: vt :: rest) vt) (rd32 rest) 6
                  have hd : List.drop 6 (kt :: vt :: rest) = List.drop 4 rest := by simp
                  rw [hd, hlen] at hloop
                  unfold CLoop at hloop
                  cases hr : causeKV (causeElem (causeBin d) kt) (causeElem (causeBin d) vt) (rd32 rest)
                      (List.drop 4 rest) with
                  | error c =>
                    rw [hr] at hloop
                    rcases hloop with he | ⟨hc, j, hj, hjl⟩
                    · simp [he]
                    · subst hc; simp [hj, hjl, errShort_pe]
                  | ok r =>
                    rw [hr] at hloop
                    have hr' : refKV (gElem (refBin d) kt) (gElem (refBin d) vt) (rd32 rest) (List.drop 4 rest)
                        = some r := by
                      rw [← causeKV_okOf (fun b => causeElem_okOf (causeBin_okOf d) kt b)
                        (fun b => causeElem_okOf (causeBin_okOf d) vt b), hr]; rfl
                    have hle := refKV_le (gElem_good (refBin_good d) kt) (gElem_good (refBin_good d) vt) _ _ _ hr'
                    simp only [List.length_drop] at hle
                    have : ¬ 6 + r > rest.length + 2 := by omega
                    simp [hloop, this]
              · have hnn : toI32 (rd32 rest) < 0 := by rw [toI32_neg_iff _ hlt]; exact hn
                simp [hnn, hn, errNeg_pe]
        · simp only [hm, if_false]
          by_cases hl : t = TT.LIST ∨ t = TT.SET
          · have hns : t ≠ TT.STRUCT := by
              rcases hl with h | h <;> subst h <;> decide
            simp only [hl, hns, if_true, if_false]
            match b, hbl with
            | [], hbl => simp at hbl
            | et :: rest, _ =>
              have hlen : (et :: rest).length = rest.length + 1 := by simp
              simp only [hlen]
              by_cases h5 : 5 > rest.length + 1
              · have : rest.length < 4 := by omega
                simp [h5, this, errShort_pe]
              · have h4 : ¬ rest.length < 4 := by omega
                have hl0 : load (et :: rest) 0 = .ok et := by simp [load]
                have hl1 : loadI32 (et :: rest) 1 = .ok (toI32 (rd32 rest)) := by
                  rw [loadI32_ok _ 1 (by simp; omega)]; simp
                simp only [h5, if_false, hl0, hl1, Out.bind_ok, h4]
                have hlt := rd32_lt rest
                by_cases hn : rd32 rest < 2147483648
                · have hnn : ¬ toI32 (rd32 rest) < 0 := by rw [toI32_neg_iff _ hlt]; simpa using hn
                  simp only [hnn, hn, not_true_eq_false, if_false, toI32_toNat _ hn]
                  by_cases hfast : ((fixedSize et : Nat) : Int) > 0
                  · have hv : 1 ≤ fixedSize et := by omega
                    simp only [hfast, if_true, Int.toNat_natCast]
                    rw [causeN_fixed (fixedSize et) hv _ (causeElem_fixed _ et hv)]
                    simp only [List.length_drop]
                    by_cases hfit : rd32 rest * fixedSize et ≤ rest.length - 4
                    · have : ¬ 5 + rd32 rest * fixedSize et > rest.length + 1 := by omega
                      simp [hfit, this]
                    · have : 5 + rd32 rest * fixedSize et > rest.length + 1 := by omega
                      simp [hfit, this, errShort_pe]
                  · simp only [hfast, if_false]
                    have hloop := listLoop_cause (hE (et :: rest) et) (rd32 rest) 5
                    have hd : List.drop 5 (et :: rest) = List.drop 4 rest := by simp
                    rw [hd, hlen] at hloop
                    unfold CLoop at hloop
                    have h0e : fixedSize et = 0 := by omega
                    cases hr : causeN (causeElem (causeBin d) et) (rd32 rest) (List.drop 4 rest) with
                    | error c =>
                      rw [hr] at hloop
                      -- a variable-size element never overshoots: the loop result is the error
                      rcases hloop with he | ⟨_, j, hj, hjl⟩
                      · simp [he]
                      · have hx := fun i hi => celemExact_of (rec := fun bb i tt => skipBinAt d bb i tt)
                          (f := causeBin d) (et :: rest) (fun bb i tt h => ih bb i tt h) et h0e i hi
                        have := listLoop_le_c hx (causeElem_good hG et) (rd32 rest) 5 j (by simp; omega) hj
                        simp at this; omega
                    | ok r =>
                      rw [hr] at hloop
                      simp [hloop]
                · have hnn : toI32 (rd32 rest) < 0 := by rw [toI32_neg_iff _ hlt]; exact hn
                  simp [hnn, hn, errNeg_pe]
          · simp only [hl, if_false]
            by_cases hst : t = TT.STRUCT
            · simp only [hst, if_true]
              have := structLoop_cause (fun ft => hE b ft) (b.length + 1) 0 (by omega)
              simpa [cmap_id] using this
            · simp [hst, errUnknownType_pe]

theorem toOut_eq (x : CRes) :
    toOut x = match x with | .ok n => .ok n | .error c => .err (.pe (typeIdOf c)) := by
  cases x <;> rfl

/-- Binary.Skip, whole function, EVERY byte string and type byte: the extent when the grammar accepts,
    otherwise the protocol exception whose type id is Thrift's for the classified cause -/
theorem skipBin_cause (b : Bytes) (t : UInt8) : skipBin b t = toOut (causeBin 64 t b) := by
  unfold skipBin
  by_cases h0 : b.length = 0
  · simp [h0, causeBin, errShort_pe]
  · simp only [h0, if_false, defaultRecursionDepth_eq]
    have := skipBinAt_cause 64 b 0 t (by omega)
    simpa using this

end Verif

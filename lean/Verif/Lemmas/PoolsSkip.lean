/-
  Lemmas/PoolsSkip: two back ends of the grammar walker `skipTplAt` that are related step by step
  (same bytes out of every `SkipN`, related states) give related walks — and its use:
  `ReaderSkipDecoder` with its retained buffer and the pool's dirty memory (Model/Pools `rsdBackend`)
  against the content-level decoder without any buffer (Model/SkipStream `readerBackend`).
-/
import Verif.Model.Pools
namespace Verif.Pools
open Verif

/-- two outcomes of the same kind, with related values -/
def OutRel {α β : Type} (R : α → β → Prop) : TOut α → TOut β → Prop
  | .ok a, .ok b => R a b
  | .err e, .err e' => e = e'
  | .panic s, .panic s' => s = s'
  | .oob, .oob => True
  | _, _ => False

theorem OutRel.bind {α β α' β' : Type} {R : α → β → Prop} {R' : α' → β' → Prop}
    {x : TOut α} {y : TOut β} {f : α → TOut α'} {g : β → TOut β'}
    (h : OutRel R x y) (hf : ∀ a b, R a b → OutRel R' (f a) (g b)) :
    OutRel R' (x.bind f) (y.bind g) := by
  cases x <;> cases y <;> simp only [OutRel] at h <;> try (exact h.elim)
  · exact hf _ _ h
  · simpa [OutRel] using h
  · simpa [OutRel] using h
  · simp [OutRel]

theorem OutRel.bind_same {γ α' β' : Type} {R' : α' → β' → Prop} (x : TOut γ)
    {f : γ → TOut α'} {g : γ → TOut β'} (hf : ∀ c, OutRel R' (f c) (g c)) :
    OutRel R' (x.bind f) (x.bind g) := by
  cases x with
  | ok c => exact hf c
  | err e => simp [OutRel]
  | panic s => simp [OutRel]
  | oob => simp [OutRel]

section Sim
variable {σ τ : Type} (B : Backend σ) (C : Backend τ) (R : σ → τ → Prop)
  (hskip : ∀ s u k, R s u → OutRel (fun x y => x.1 = y.1 ∧ R x.2 y.2) (B.skipN s k) (C.skipN u k))
  (havail : ∀ s u, R s u → B.avail s = C.avail u)

theorem tplMapLoop_sim (recB : UInt8 → σ → TOut σ) (recC : UInt8 → τ → TOut τ)
    (hrec : ∀ t s u, R s u → OutRel R (recB t s) (recC t u)) (kt vt : UInt8) :
    ∀ (cnt : Nat) (s : σ) (u : τ), R s u →
      OutRel R (tplMapLoop recB kt vt cnt s) (tplMapLoop recC kt vt cnt u) := by
  intro cnt
  induction cnt with
  | zero => intro s u h; simpa [tplMapLoop, OutRel] using h
  | succ n ih =>
    intro s u h
    unfold tplMapLoop
    simp only [Out.bind_eq]
    exact OutRel.bind (hrec _ _ _ h) fun a b hab => OutRel.bind (hrec _ _ _ hab) fun a' b' hab' => ih _ _ hab'

theorem tplListLoop_sim (recB : UInt8 → σ → TOut σ) (recC : UInt8 → τ → TOut τ)
    (hrec : ∀ t s u, R s u → OutRel R (recB t s) (recC t u)) (vt : UInt8) :
    ∀ (cnt : Nat) (s : σ) (u : τ), R s u →
      OutRel R (tplListLoop recB vt cnt s) (tplListLoop recC vt cnt u) := by
  intro cnt
  induction cnt with
  | zero => intro s u h; simpa [tplListLoop, OutRel] using h
  | succ n ih =>
    intro s u h
    unfold tplListLoop
    simp only [Out.bind_eq]
    exact OutRel.bind (hrec _ _ _ h) fun a b hab => ih _ _ hab

include hskip in
theorem tplStructLoop_sim (recB : UInt8 → σ → TOut σ) (recC : UInt8 → τ → TOut τ)
    (hrec : ∀ t s u, R s u → OutRel R (recB t s) (recC t u)) :
    ∀ (fuel : Nat) (s : σ) (u : τ), R s u →
      OutRel R (tplStructLoop B recB fuel s) (tplStructLoop C recC fuel u) := by
  intro fuel
  induction fuel with
  | zero => intro s u _; simp [tplStructLoop, OutRel]
  | succ n ih =>
    intro s u h
    unfold tplStructLoop
    simp only [Out.bind_eq]
    refine OutRel.bind (hskip _ _ 1 h) ?_
    rintro ⟨b, s1⟩ ⟨b', u1⟩ ⟨hb, hr⟩
    simp only [] at hb hr ⊢
    subst hb
    refine OutRel.bind_same _ fun tp => ?_
    by_cases htp : tp = T_STOP
    · simp only [htp, if_true]; simpa [OutRel] using hr
    · simp only [htp, if_false]
      refine OutRel.bind (hskip _ _ 2 hr) ?_
      rintro ⟨b2, s2⟩ ⟨b2', u2⟩ ⟨_, hr2⟩
      simp only [] at hr2 ⊢
      exact OutRel.bind (hrec _ _ _ hr2) fun a b hab => ih _ _ hab

include hskip havail in
theorem skipTplAt_sim : ∀ (d : Nat) (t : UInt8) (s : σ) (u : τ), R s u →
    OutRel R (skipTplAt B d t s) (skipTplAt C d t u) := by
  intro d
  induction d with
  | zero => intro t s u _; simp [skipTplAt, OutRel]
  | succ d ih =>
    intro t s u h
    unfold skipTplAt
    simp only [Out.bind_eq]
    refine OutRel.bind_same _ fun sz => ?_
    by_cases h1 : sz > 0
    · simp only [h1, if_true]
      refine OutRel.bind (hskip _ _ _ h) ?_
      rintro ⟨b, s1⟩ ⟨b', u1⟩ ⟨_, hr⟩
      simpa [OutRel] using hr
    · simp only [h1, if_false]
      by_cases h2 : t = T_STRING
      · simp only [h2, if_true]
        refine OutRel.bind (hskip _ _ 4 h) ?_
        rintro ⟨b, s1⟩ ⟨b', u1⟩ ⟨hb, hr⟩
        simp only [] at hb hr ⊢
        subst hb
        refine OutRel.bind_same _ fun v => ?_
        by_cases h3 : toI32 v < 0
        · simp [h3, OutRel]
        · simp only [h3, if_false]
          refine OutRel.bind (hskip _ _ _ hr) ?_
          rintro ⟨b2, s2⟩ ⟨b2', u2⟩ ⟨_, hr2⟩
          simpa [OutRel] using hr2
      · simp only [h2, if_false]
        by_cases h3 : t = T_STRUCT
        · simp only [h3, if_true]
          rw [havail s u h]
          exact tplStructLoop_sim B C R hskip _ _ ih _ _ _ h
        · simp only [h3, if_false]
          by_cases h4 : t = T_MAP
          · simp only [h4, if_true]
            refine OutRel.bind (hskip _ _ 6 h) ?_
            rintro ⟨b, s1⟩ ⟨b', u1⟩ ⟨hb, hr⟩
            simp only [] at hb hr ⊢
            subst hb
            refine OutRel.bind_same _ fun kt => OutRel.bind_same _ fun vt => OutRel.bind_same _ fun v => ?_
            by_cases h5 : toI32 v < 0
            · simp [h5, OutRel]
            · simp only [h5, if_false]
              refine OutRel.bind_same _ fun ksz => OutRel.bind_same _ fun vsz => ?_
              by_cases h6 : ksz > 0 ∧ vsz > 0
              · simp only [h6, and_self, if_true]
                refine OutRel.bind (hskip _ _ _ hr) ?_
                rintro ⟨b2, s2⟩ ⟨b2', u2⟩ ⟨_, hr2⟩
                simpa [OutRel] using hr2
              · simp only [h6, if_false]
                exact tplMapLoop_sim R _ _ ih _ _ _ _ _ hr
          · simp only [h4, if_false]
            by_cases h5 : t = T_SET ∨ t = T_LIST
            · simp only [h5, if_true]
              refine OutRel.bind (hskip _ _ 5 h) ?_
              rintro ⟨b, s1⟩ ⟨b', u1⟩ ⟨hb, hr⟩
              simp only [] at hb hr ⊢
              subst hb
              refine OutRel.bind_same _ fun vt => OutRel.bind_same _ fun v => ?_
              by_cases h6 : toI32 v < 0
              · simp [h6, OutRel]
              · simp only [h6, if_false]
                refine OutRel.bind_same _ fun vsz => ?_
                by_cases h7 : vsz > 0
                · simp only [h7, if_true]
                  refine OutRel.bind (hskip _ _ _ hr) ?_
                  rintro ⟨b2, s2⟩ ⟨b2', u2⟩ ⟨_, hr2⟩
                  simpa [OutRel] using hr2
                · simp only [h7, if_false]
                  exact tplListLoop_sim R _ _ ih _ _ _ _ hr
            · simp [h5, OutRel]

end Sim

end Verif.Pools

/- Lemmas/WireS: the stream readers over the cursor contract; their failures. -/
import Verif.Spec.WireCursor
import Verif.Lemmas.WireR
namespace Verif.Wire


theorem bufferedCursor : Cursor remaining buffered where
  le r n h := by unfold buffered at h; simp [remaining]; omega
  mono r n m h := by unfold buffered at *; omega
  next r n h := by
    unfold buffered at h
    refine ⟨{ r with ri := r.ri + n }, ?_, ?_, ?_, ?_⟩
    · have : ¬ ((n : Int) < 0) := by omega
      simp only [Rd.next, if_neg this, Rd.acquire, Int.toNat_natCast, if_pos h]
      have : ¬ n > n := by omega
      simp only [if_neg this]
      congr 2
      simp only [remaining]
      rw [List.take_append_of_le_length (by simp; omega)]
    · simp only [remaining]
      rw [List.drop_append_of_le_length (by simp; omega), List.drop_drop]
    · simp [Rd.readLen]
    · intro m hm; unfold buffered at *; simp; omega
  readBinary r n h := by
    unfold buffered at h
    refine ⟨{ r with ri := r.ri + n }, ?_, ?_, ?_, ?_⟩
    · simp only [Rd.readBinary, Rd.acquire, if_pos h]
      have : ¬ n > n := by omega
      simp only [if_neg this]
      congr 3
      simp only [remaining]
      rw [List.take_append_of_le_length (by simp; omega)]
    · simp only [remaining]
      rw [List.drop_append_of_le_length (by simp; omega), List.drop_drop]
    · simp [Rd.readLen]
    · intro m hm; unfold buffered at *; simp; omega

variable {rem : Rd → Bytes} {live : Rd → Nat → Prop}

/-- one `next` on a live state whose remaining stream starts with `a` -/
theorem brNext_ok (C : Cursor rem live) (r : Rd) (a rest : Bytes) (hrem : rem r = a ++ rest)
    (hl : live r a.length) :
    ∃ r', brNext (a.length : Int) r = .ok (a, r') ∧ rem r' = rest ∧ r'.readLen = r.readLen + a.length ∧
          ∀ m, live r (a.length + m) → live r' m := by
  obtain ⟨r', h1, h2, h3, h4⟩ := C.next r a.length hl
  refine ⟨r', ?_, ?_, h3, h4⟩
  · simp [brNext, h1, hrem]
  · simp [h2, hrem]

theorem brReadFull_ok (C : Cursor rem live) (r : Rd) (a rest : Bytes) (hrem : rem r = a ++ rest)
    (hl : live r a.length) :
    ∃ r', brReadFull a.length r = .ok (a, r') ∧ rem r' = rest ∧ r'.readLen = r.readLen + a.length ∧
          ∀ m, live r (a.length + m) → live r' m := by
  obtain ⟨r', h1, h2, h3, h4⟩ := C.readBinary r a.length hl
  refine ⟨r', ?_, ?_, h3, h4⟩
  · simp [brReadFull, h1, hrem]
  · simp [h2, hrem]

theorem brReadI32_ok (C : Cursor rem live) (r : Rd) (n : Nat) (hn : n < 4294967296) (rest : Bytes)
    (hrem : rem r = be32 n ++ rest) (hl : live r 4) :
    ∃ r', brReadI32 r = .ok (toI32 n, r') ∧ rem r' = rest ∧ r'.readLen = r.readLen + 4 ∧
          ∀ m, live r (4 + m) → live r' m := by
  obtain ⟨r', h1, h2, h3, h4⟩ := brNext_ok C r (be32 n) rest hrem (by simpa using hl)
  simp only [be32_length, Int.cast_ofNat_Int] at h1 h3 h4
  refine ⟨r', ?_, h2, h3, h4⟩
  have : rd32 (be32 n) = n := by have := rd32_be32 n hn []; simpa using this
  simp [brReadI32, h1, u32of, this]


@[simp] theorem idx_zero (x : UInt8) (l : Bytes) : idx (x :: l) 0 = .ok x := rfl
@[simp] theorem idx_one (x y : UInt8) (l : Bytes) : idx (x :: y :: l) 1 = .ok y := rfl

theorem rd16_be16' (n : Nat) (h : n < 65536) : rd16 (be16 n) = n := by
  have := rd16_be16 n h []; simpa using this
theorem rd32_be32' (n : Nat) (h : n < 4294967296) : rd32 (be32 n) = n := by
  have := rd32_be32 n h []; simpa using this
theorem rd64_be64' (n : Nat) (h : n < 18446744073709551616) : rd64 (be64 n) = n := by
  have := rd64_be64 n h []; simpa using this

theorem brReadBinary_ok (C : Cursor rem live) (r : Rd) (s rest : Bytes) (hs : s.length < 2147483648)
    (hrem : rem r = be32 s.length ++ (s ++ rest)) (hl : live r (4 + s.length)) :
    ∃ r', brReadBinary r = .ok (s, r') ∧ rem r' = rest ∧ r'.readLen = r.readLen + (4 + s.length) ∧
          ∀ m, live r (4 + s.length + m) → live r' m := by
  obtain ⟨r1, h1, h2, h3, h4⟩ := brReadI32_ok C r s.length (by omega) (s ++ rest) hrem (C.mono r 4 _ hl)
  obtain ⟨r2, g1, g2, g3, g4⟩ := brReadFull_ok C r1 s rest h2 (by have := h4 s.length hl; simpa using this)
  have e : toI32 s.length = (s.length : Int) := by simp [toI32]; omega
  refine ⟨r2, ?_, g2, by omega, ?_⟩
  · simp [brReadBinary, h1, e, g1]
  · intro m hm
    apply g4
    apply h4
    rw [← Nat.add_assoc]; exact hm


/-- BufferReader.ReadMessageBegin on a state that can deliver the header (any int32 type) -/
theorem brReadMessageBegin_ok (C : Cursor rem live) (r : Rd) (name rest : Bytes) (typ seq : Int)
    (hn : name.length < 2147483648) (hs : inI32 seq)
    (hrem : rem r = be32 (msgHeader typ) ++ be32 name.length ++ name ++ be32 (ofInt 32 seq) ++ rest)
    (hl : live r (12 + name.length)) :
    ∃ r', brReadMessageBegin r = .ok ((name, (msgType16 typ : Int), seq), r') ∧ rem r' = rest ∧
          r'.readLen = r.readLen + (12 + name.length) := by
  have hh : msgHeader typ < 4294967296 := by rw [msgHeader_eq]; have := msgType16_lt typ; omega
  have hv : ¬ (msgHeader typ &&& Facts.msgVersionMask ≠ Facts.msgVersion1) := by
    rw [ver_test _ hh, msgHeader_eq]; have := msgType16_lt typ; omega
  have ht : msgHeader typ &&& Facts.msgTypeMask = msgType16 typ := by
    rw [and_typeMask, msgHeader_eq]; have := msgType16_lt typ; omega
  have hl' : live r (4 + (4 + name.length + 4)) := by
    have e : 4 + (4 + name.length + 4) = 12 + name.length := by omega
    rw [e]; exact hl
  obtain ⟨r1, h1, h2, h3, h4⟩ := brReadI32_ok C r (msgHeader typ) hh
    (be32 name.length ++ (name ++ (be32 (ofInt 32 seq) ++ rest))) (by simp [hrem]) (C.mono r 4 _ hl')
  have l1 := h4 _ hl'
  obtain ⟨r2, g1, g2, g3, g4⟩ := brReadBinary_ok C r1 name (be32 (ofInt 32 seq) ++ rest) hn h2 (C.mono r1 _ 4 l1)
  have l2 := g4 4 l1
  obtain ⟨r3, k1, k2, k3, _⟩ := brReadI32_ok C r2 (ofInt 32 seq) (ofInt32_lt seq) rest g2 l2
  refine ⟨r3, ?_, k2, by omega⟩
  simp only [brReadMessageBegin, h1, Out.bind_eq, Out.bind_ok, ofInt32_toI32 _ hh, if_neg hv, ht, g1, k1,
    toI32_ofInt seq hs, Out.pure_eq]

/-- every stream reader, on a state that can still deliver the encoding, returns the value, leaves
    exactly the rest and advances ReadLen by the encoding's length -/
theorem brRead_encM (C : Cursor rem live) (v : Val) (hv : v.wf) (r : Rd) (rest : Bytes)
    (hrem : rem r = encM v ++ rest) (hl : live r (encM v).length) :
    ∃ r', brRead v.kind r = .ok (v, r') ∧ rem r' = rest ∧ r'.readLen = r.readLen + (encM v).length := by
  cases v
  case bool b =>
    obtain ⟨r', h1, h2, h3, _⟩ := brNext_ok C r _ rest hrem hl
    refine ⟨r', ?_, h2, h3⟩
    simp only [encM, List.length_singleton, Int.cast_ofNat_Int] at h1
    cases b <;> simp [Val.kind, brRead, mapRM, brReadBool, h1, idx]
  case i8 x =>
    simp only [Val.wf] at hv
    obtain ⟨r', h1, h2, h3, _⟩ := brNext_ok C r _ rest hrem hl
    refine ⟨r', ?_, h2, h3⟩
    simp only [encM, List.length_singleton, Int.cast_ofNat_Int] at h1
    simp [Val.kind, brRead, mapRM, brReadByte, h1, idx]
    unfold inI8 at hv; simp [toI8, ofInt]; split <;> omega
  case i16 x =>
    simp only [Val.wf] at hv
    obtain ⟨r', h1, h2, h3, _⟩ := brNext_ok C r _ rest hrem hl
    refine ⟨r', ?_, h2, h3⟩
    simp only [encM, be16_length, Int.cast_ofNat_Int] at h1
    simp [Val.kind, brRead, mapRM, brReadI16, h1, u16of, rd16_be16' _ (ofInt16_lt x), toI16_ofInt x hv]
  case i32 x =>
    simp only [Val.wf] at hv
    obtain ⟨r', h1, h2, h3, _⟩ := brReadI32_ok C r _ (ofInt32_lt x) rest hrem (by simpa [encM] using hl)
    refine ⟨r', ?_, h2, by simpa [encM] using h3⟩
    simp [Val.kind, brRead, mapRM, h1, toI32_ofInt x hv]
  case i64 x =>
    simp only [Val.wf] at hv
    obtain ⟨r', h1, h2, h3, _⟩ := brNext_ok C r _ rest hrem hl
    refine ⟨r', ?_, h2, h3⟩
    simp only [encM, be64_length, Int.cast_ofNat_Int] at h1
    simp [Val.kind, brRead, mapRM, brReadI64, h1, u64of, rd64_be64' _ (ofInt64_lt x), toI64_ofInt x hv]
  case double x =>
    simp only [Val.wf] at hv
    have hx : x < 18446744073709551616 := by simpa using hv
    obtain ⟨r', h1, h2, h3, _⟩ := brNext_ok C r _ rest hrem hl
    refine ⟨r', ?_, h2, h3⟩
    simp only [encM, be64_length, Int.cast_ofNat_Int] at h1
    simp [Val.kind, brRead, mapRM, brReadDouble, h1, u64of, rd64_be64' _ hx]
  case binary x =>
    simp only [Val.wf] at hv
    have hx : x.length < 2147483648 := by simpa using hv
    obtain ⟨r', h1, h2, h3, _⟩ := brReadBinary_ok C r x rest hx (by simpa [encM] using hrem)
      (by simpa [encM] using hl)
    refine ⟨r', ?_, h2, by simpa [encM] using h3⟩
    simp [Val.kind, brRead, mapRM, h1]
  case str x =>
    simp only [Val.wf] at hv
    have hx : x.length < 2147483648 := by simpa using hv
    obtain ⟨r', h1, h2, h3, _⟩ := brReadBinary_ok C r x rest hx (by simpa [encM] using hrem)
      (by simpa [encM] using hl)
    refine ⟨r', ?_, h2, by simpa [encM] using h3⟩
    simp [Val.kind, brRead, mapRM, h1]
  case fieldBegin t id =>
    simp only [Val.wf] at hv
    have ht : ¬ t = T_STOP := by rw [tstop0]; exact hv.1
    simp only [encM, List.length_cons, be16_length] at hl
    obtain ⟨r1, h1, h2, h3, h4⟩ := brNext_ok C r [t] (be16 (ofInt 16 id) ++ rest) (by simpa [encM] using hrem)
      (C.mono r 1 2 (by simpa using hl))
    obtain ⟨r2, g1, g2, g3, _⟩ := brNext_ok C r1 (be16 (ofInt 16 id)) rest h2
      (by have := h4 2 (by simpa using hl); simpa using this)
    simp only [List.length_singleton, be16_length, Int.cast_ofNat_Int] at h1 g1 h3 g3
    refine ⟨r2, ?_, g2, by simp [encM]; omega⟩
    simp [Val.kind, brRead, mapRM, brReadFieldBegin, h1, g1, idx, ht, u16of, rd16_be16' _ (ofInt16_lt id),
      toI16_ofInt id hv.2, fieldVal]
  case fieldStop =>
    obtain ⟨r', h1, h2, h3, _⟩ := brNext_ok C r _ rest hrem hl
    refine ⟨r', ?_, h2, h3⟩
    simp only [encM, List.length_singleton, Int.cast_ofNat_Int] at h1
    simp [Val.kind, brRead, mapRM, brReadFieldBegin, h1, idx, tstop0, fieldVal]
  case mapBegin kt vt n =>
    simp only [Val.wf] at hv
    obtain ⟨r', h1, h2, h3, _⟩ := brNext_ok C r _ rest hrem hl
    refine ⟨r', ?_, h2, h3⟩
    simp only [encM, List.length_cons, be32_length, Nat.reduceAdd, Int.cast_ofNat_Int] at h1
    have hn := rd32_be32' n (lt31 n hv)
    simp [Val.kind, brRead, mapRM, brReadMapBegin, h1, sfrom, u32of, hn]
  case listBegin et n =>
    simp only [Val.wf] at hv
    obtain ⟨r', h1, h2, h3, _⟩ := brNext_ok C r _ rest hrem hl
    refine ⟨r', ?_, h2, h3⟩
    simp only [encM, List.length_cons, be32_length, Nat.reduceAdd, Int.cast_ofNat_Int] at h1
    have hn := rd32_be32' n (lt31 n hv)
    simp [Val.kind, brRead, mapRM, brReadListBegin, h1, sfrom, u32of, hn]
  case setBegin et n =>
    simp only [Val.wf] at hv
    obtain ⟨r', h1, h2, h3, _⟩ := brNext_ok C r _ rest hrem hl
    refine ⟨r', ?_, h2, h3⟩
    simp only [encM, List.length_cons, be32_length, Nat.reduceAdd, Int.cast_ofNat_Int] at h1
    have hn := rd32_be32' n (lt31 n hv)
    simp [Val.kind, brRead, mapRM, brReadSetBegin, h1, sfrom, u32of, hn]
  case messageBegin name typ seq =>
    simp only [Val.wf] at hv
    have hx : name.length < 2147483648 := by simpa using hv.1
    obtain ⟨r', h1, h2, h3⟩ := brReadMessageBegin_ok C r name rest typ seq hx hv.2.2.2 (by simpa [encM] using hrem)
      (by have e : (encM (.messageBegin name typ seq)).length = 12 + name.length := by simp [encM]; omega
          rw [← e]; exact hl)
    refine ⟨r', ?_, h2, by simp [encM]; omega⟩
    simp [Val.kind, brRead, mapRM, h1, msgType16_id typ hv.2.1 hv.2.2.1]

/-- every error of `x` satisfies `P` -/
def ErrIn {α} (P : TErr → Prop) (x : TOut α) : Prop := ∀ e, x = .err e → P e

theorem ErrIn.bind {α β} {P : TErr → Prop} {x : TOut α} {f : α → TOut β}
    (hx : ErrIn P x) (hf : ∀ a, ErrIn P (f a)) : ErrIn P (x.bind f) := by
  intro e h
  cases x with
  | ok a => exact hf a e h
  | err e' => simp at h; exact hx e (by rw [h])
  | panic s => simp at h
  | oob => simp at h

theorem ErrIn.mono {α} {P Q : TErr → Prop} {x : TOut α} (h : ErrIn P x) (hpq : ∀ e, P e → Q e) : ErrIn Q x :=
  fun e he => hpq e (h e he)

theorem errIn_ok {α} (P : TErr → Prop) (a : α) : ErrIn P (.ok a : TOut α) := by intro e h; simp at h
theorem errIn_panic {α} (P : TErr → Prop) (s : String) : ErrIn P (.panic s : TOut α) := by intro e h; simp at h

def isWrap (e : TErr) : Prop := ∃ se, e = .wrap se

theorem errIn_brNext (n : Int) (r : Rd) : ErrIn isWrap (brNext n r) := by
  intro e h
  unfold brNext at h
  split at h <;> simp at h
  exact ⟨_, h.symm⟩

theorem errIn_brReadFull (k : Nat) (r : Rd) : ErrIn isWrap (brReadFull k r) := by
  intro e h
  unfold brReadFull at h
  split at h
  · simp at h
  · split at h <;> simp at h
    exact ⟨_, h.symm⟩

theorem errIn_idx (P : TErr → Prop) (b : Bytes) (i : Nat) : ErrIn P (idx b i) := by
  intro e h; unfold idx at h; split at h <;> simp at h
theorem errIn_u16of (P : TErr → Prop) (b : Bytes) : ErrIn P (u16of b) := by
  intro e h; unfold u16of at h; split at h <;> simp at h
theorem errIn_u32of (P : TErr → Prop) (b : Bytes) : ErrIn P (u32of b) := by
  intro e h; unfold u32of at h; split at h <;> simp at h
theorem errIn_u64of (P : TErr → Prop) (b : Bytes) : ErrIn P (u64of b) := by
  intro e h; unfold u64of at h; split at h <;> simp at h
theorem errIn_sfrom (P : TErr → Prop) (b : Bytes) (i : Nat) : ErrIn P (sfrom b i) := by
  intro e h; unfold sfrom at h; split at h <;> simp at h

theorem errIn_brReadI32 (r : Rd) : ErrIn isWrap (brReadI32 r) := by
  unfold brReadI32
  apply ErrIn.bind (errIn_brNext _ _); intro p
  obtain ⟨b, r1⟩ := p
  dsimp only
  apply ErrIn.bind (errIn_u32of isWrap _); intro v
  exact errIn_ok _ _

theorem errIn_brReadBool (r : Rd) : ErrIn isWrap (brReadBool r) := by
  unfold brReadBool
  apply ErrIn.bind (errIn_brNext _ _); intro p
  apply ErrIn.bind (errIn_idx isWrap _ _); intro x; exact errIn_ok _ _

theorem errIn_brReadByte (r : Rd) : ErrIn isWrap (brReadByte r) := by
  unfold brReadByte
  apply ErrIn.bind (errIn_brNext _ _); intro p
  apply ErrIn.bind (errIn_idx isWrap _ _); intro x; exact errIn_ok _ _

theorem errIn_brReadI16 (r : Rd) : ErrIn isWrap (brReadI16 r) := by
  unfold brReadI16
  apply ErrIn.bind (errIn_brNext _ _); intro p
  apply ErrIn.bind (errIn_u16of isWrap _); intro x; exact errIn_ok _ _

theorem errIn_brReadI64 (r : Rd) : ErrIn isWrap (brReadI64 r) := by
  unfold brReadI64
  apply ErrIn.bind (errIn_brNext _ _); intro p
  apply ErrIn.bind (errIn_u64of isWrap _); intro x; exact errIn_ok _ _

theorem errIn_brReadDouble (r : Rd) : ErrIn isWrap (brReadDouble r) := by
  unfold brReadDouble
  apply ErrIn.bind (errIn_brNext _ _); intro p
  apply ErrIn.bind (errIn_u64of isWrap _); intro x; exact errIn_ok _ _

theorem errIn_brReadFieldBegin (r : Rd) : ErrIn isWrap (brReadFieldBegin r) := by
  unfold brReadFieldBegin
  apply ErrIn.bind (errIn_brNext _ _); intro p
  apply ErrIn.bind (errIn_idx isWrap _ _); intro t
  split
  · exact errIn_ok _ _
  · apply ErrIn.bind (errIn_brNext _ _); intro q
    apply ErrIn.bind (errIn_u16of isWrap _); intro x; exact errIn_ok _ _

theorem errIn_brReadMapBegin (r : Rd) : ErrIn isWrap (brReadMapBegin r) := by
  unfold brReadMapBegin
  apply ErrIn.bind (errIn_brNext _ _); intro p
  apply ErrIn.bind (errIn_idx isWrap _ _); intro kt
  apply ErrIn.bind (errIn_idx isWrap _ _); intro vt
  apply ErrIn.bind (errIn_sfrom isWrap _ _); intro b2
  apply ErrIn.bind (errIn_u32of isWrap _); intro x; exact errIn_ok _ _

theorem errIn_brReadListBegin (r : Rd) : ErrIn isWrap (brReadListBegin r) := by
  unfold brReadListBegin
  apply ErrIn.bind (errIn_brNext _ _); intro p
  apply ErrIn.bind (errIn_idx isWrap _ _); intro et
  apply ErrIn.bind (errIn_sfrom isWrap _ _); intro b2
  apply ErrIn.bind (errIn_u32of isWrap _); intro x; exact errIn_ok _ _

theorem errIn_brReadSetBegin (r : Rd) : ErrIn isWrap (brReadSetBegin r) := errIn_brReadListBegin r

def isWrapNeg (e : TErr) : Prop := isWrap e ∨ e = errNeg
def isWrapNegVer (e : TErr) : Prop := isWrap e ∨ e = errNeg ∨ e = errBadVersion

theorem errIn_brReadBinary (r : Rd) : ErrIn isWrapNeg (brReadBinary r) := by
  unfold brReadBinary
  apply ErrIn.bind ((errIn_brReadI32 r).mono (fun e h => Or.inl h)); intro p
  split
  · intro e h; simp at h; exact Or.inr h.symm
  · exact (errIn_brReadFull _ _).mono (fun e h => Or.inl h)

theorem errIn_brReadMessageBegin (r : Rd) : ErrIn isWrapNegVer (brReadMessageBegin r) := by
  unfold brReadMessageBegin
  apply ErrIn.bind ((errIn_brReadI32 r).mono (fun e h => Or.inl h)); intro h
  dsimp only
  split
  · intro e he; simp at he; exact Or.inr (Or.inr he.symm)
  · apply ErrIn.bind ((errIn_brReadBinary _).mono (fun e h => h.elim Or.inl (fun h => Or.inr (Or.inl h)))); intro nm
    apply ErrIn.bind ((errIn_brReadI32 _).mono (fun e h => Or.inl h)); intro sq
    exact errIn_ok _ _

theorem errIn_mapRM {α} (P : TErr → Prop) (f : α → Val) (x : TOut (α × Rd)) (h : ErrIn P x) :
    ErrIn P (mapRM f x) := by
  intro e he
  cases x <;> simp [mapRM] at he
  exact h e (by rw [he])

/-- the failures a stream read of kind `k` may report -/
def StreamErr (k : Kind) (e : TErr) : Prop :=
  isWrap e ∨ (e = errNeg ∧ (k = .binary ∨ k = .str ∨ k = .msg)) ∨ (e = errBadVersion ∧ k = .msg)

/-- failures of the stream readers: the wrapped reader error, or (strings, message name) a negative
    size, or (message) a bad version -/
theorem brRead_errIn (k : Kind) (r : Rd) : ErrIn (StreamErr k) (brRead k r) := by
  cases k <;> simp only [brRead] <;> apply errIn_mapRM
  case binary =>
    exact (errIn_brReadBinary r).mono (fun e h => by
      rcases h with h | h
      · exact Or.inl h
      · exact Or.inr (Or.inl ⟨h, Or.inl rfl⟩))
  case str =>
    exact (errIn_brReadBinary r).mono (fun e h => by
      rcases h with h | h
      · exact Or.inl h
      · exact Or.inr (Or.inl ⟨h, Or.inr (Or.inl rfl)⟩))
  case msg =>
    exact (errIn_brReadMessageBegin r).mono (fun e h => by
      rcases h with h | h | h
      · exact Or.inl h
      · exact Or.inr (Or.inl ⟨h, Or.inr (Or.inr rfl)⟩)
      · exact Or.inr (Or.inr ⟨h, rfl⟩))
  case bool => exact (errIn_brReadBool r).mono (fun e h => Or.inl h)
  case i8 => exact (errIn_brReadByte r).mono (fun e h => Or.inl h)
  case i16 => exact (errIn_brReadI16 r).mono (fun e h => Or.inl h)
  case i32 => exact (errIn_brReadI32 r).mono (fun e h => Or.inl h)
  case i64 => exact (errIn_brReadI64 r).mono (fun e h => Or.inl h)
  case double => exact (errIn_brReadDouble r).mono (fun e h => Or.inl h)
  case field => exact (errIn_brReadFieldBegin r).mono (fun e h => Or.inl h)
  case map => exact (errIn_brReadMapBegin r).mono (fun e h => Or.inl h)
  case list => exact (errIn_brReadListBegin r).mono (fun e h => Or.inl h)
  case set => exact (errIn_brReadSetBegin r).mono (fun e h => Or.inl h)


/-- after a good version word, ReadMessageBegin can only fail like ReadString / ReadI32 do -/
theorem errIn_brMsgTail (r1 : Rd) (typ : Int) :
    ErrIn isWrapNeg ((brReadBinary r1).bind fun nm => (brReadI32 nm.2).bind fun sq =>
      (pure ((nm.1, typ, sq.1), sq.2) : TOut ((Bytes × Int × Int) × Rd))) := by
  apply ErrIn.bind (errIn_brReadBinary r1); intro nm
  apply ErrIn.bind ((errIn_brReadI32 nm.2).mono (fun e h => Or.inl h)); intro sq
  exact errIn_ok _ _

end Verif.Wire

/-
  Lemmas/UnknownLen: UnknownFieldsLength agrees with WriteUnknownFields on every tree the writer accepts.
-/
import Verif.Lemmas.UnknownBase
namespace Verif

theorem lenList_of_writeList {α : Type} (w : α → UOut Bytes) (ln : α → UOut Nat)
    (h : ∀ v bs, w v = .ok bs → ln v = .ok bs.length) :
    ∀ vs bs, writeList w vs = .ok bs → lenList ln vs = .ok bs.length
  | [], bs, hw => by simp [writeList] at hw; subst hw; simp [lenList]
  | v :: vs, bs, hw => by
    simp only [writeList, Out.bind_eq_ok] at hw
    obtain ⟨a, ha, r, hr, hb⟩ := hw
    simp at hb; subst hb
    simp [lenList, h v a ha, lenList_of_writeList w ln h vs r hr]

theorem lenKVs_of_writeKVs {α : Type} (w : α → UOut Bytes) (ln : α → UOut Nat)
    (h : ∀ v bs, w v = .ok bs → ln v = .ok bs.length) :
    ∀ vs bs, writeKVs w vs = .ok bs → lenKVs ln vs = .ok bs.length
  | [], bs, hw => by simp [writeKVs] at hw; subst hw; simp [lenKVs]
  | [k], bs, hw => by simp [writeKVs, Out.bind_eq_ok] at hw
  | k :: v :: vs, bs, hw => by
    simp only [writeKVs, Out.bind_eq_ok] at hw
    obtain ⟨a, ha, c, hc, r, hr, hb⟩ := hw
    simp at hb; subst hb
    simp [lenKVs, h k a ha, h v c hc, lenKVs_of_writeKVs w ln h vs r hr]
    omega

theorem lenFields_of_writeFields {α : Type} (mt : α → UMeta) (w : α → UOut Bytes) (ln : α → UOut Nat)
    (h : ∀ v bs, w v = .ok bs → ln v = .ok bs.length) :
    ∀ vs bs, writeFields mt w vs = .ok bs → lenFields ln vs = .ok bs.length
  | [], bs, hw => by simp [writeFields] at hw; subst hw; simp [lenFields]
  | v :: vs, bs, hw => by
    simp only [writeFields, Out.bind_eq_ok] at hw
    obtain ⟨a, ha, r, hr, hb⟩ := hw
    simp at hb; subst hb
    simp [lenFields, h v a ha, lenFields_of_writeFields mt w ln h vs r hr]
    omega

/-- unknownFieldLength returns exactly the number of bytes writeUnknownField writes -/
theorem lenUF_of_writeUF : ∀ (d : Nat) (f : UF d) (bs : Bytes), writeUF d f = .ok bs → lenUF d f = .ok bs.length
  | 0, f, _, _ => f.elim
  | d+1, f, bs, h => by
    have ih := lenUF_of_writeUF d
    obtain ⟨m, v⟩ := f
    simp only [writeUF] at h; simp only [lenUF]
    by_cases h1 : m.typ = UT.BOOL
    · simp only [if_pos h1] at h ⊢; cases v <;> simp at h; subst h; simp
    simp only [if_neg h1] at h ⊢
    by_cases h2 : m.typ = UT.BYTE
    · simp only [if_pos h2] at h ⊢; cases v <;> simp at h; subst h; simp
    simp only [if_neg h2] at h ⊢
    by_cases h3 : m.typ = UT.DOUBLE
    · simp only [if_pos h3] at h ⊢; cases v <;> simp at h; subst h; simp
    simp only [if_neg h3] at h ⊢
    by_cases h4 : m.typ = UT.I16
    · simp only [if_pos h4] at h ⊢; cases v <;> simp at h; subst h; simp
    simp only [if_neg h4] at h ⊢
    by_cases h5 : m.typ = UT.I32
    · simp only [if_pos h5] at h ⊢; cases v <;> simp at h; subst h; simp
    simp only [if_neg h5] at h ⊢
    by_cases h6 : m.typ = UT.I64
    · simp only [if_pos h6] at h ⊢; cases v <;> simp at h; subst h; simp
    simp only [if_neg h6] at h ⊢
    by_cases h7 : m.typ = UT.STRING
    · simp only [if_pos h7] at h ⊢; cases v <;> simp at h; subst h; simp
    simp only [if_neg h7] at h ⊢
    by_cases h8 : m.typ = UT.SET
    · simp only [if_pos h8] at h ⊢; cases v <;> simp [Out.bind_eq_ok] at h
      obtain ⟨r, hr, hb⟩ := h; subst hb
      simp [lenList_of_writeList _ _ ih _ _ hr]; omega
    simp only [if_neg h8] at h ⊢
    by_cases h9 : m.typ = UT.LIST
    · simp only [if_pos h9] at h ⊢; cases v <;> simp [Out.bind_eq_ok] at h
      obtain ⟨r, hr, hb⟩ := h; subst hb
      simp [lenList_of_writeList _ _ ih _ _ hr]; omega
    simp only [if_neg h9] at h ⊢
    by_cases h10 : m.typ = UT.MAP
    · simp only [if_pos h10] at h ⊢; cases v <;> simp [Out.bind_eq_ok] at h
      obtain ⟨r, hr, hb⟩ := h; subst hb
      simp [lenKVs_of_writeKVs _ _ ih _ _ hr]; omega
    simp only [if_neg h10] at h ⊢
    by_cases h11 : m.typ = UT.STRUCT
    · simp only [if_pos h11] at h ⊢; cases v <;> simp [Out.bind_eq_ok] at h
      obtain ⟨r, hr, hb⟩ := h; subst hb
      simp [lenFields_of_writeFields _ _ _ ih _ _ hr]
    simp only [if_neg h11] at h ⊢
    simp at h

/-- UnknownFieldsLength returns exactly the number of bytes WriteUnknownFields writes -/
theorem lenUFs_of_writeUFs (d : Nat) (fs : List (UF d)) (bs : Bytes) (h : writeUFs d fs = .ok bs) :
    lenUFs d fs = .ok bs.length :=
  lenFields_of_writeFields _ _ _ (lenUF_of_writeUF d) fs bs h

end Verif

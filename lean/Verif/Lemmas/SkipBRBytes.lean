/-
  Lemmas/SkipBRBytes: readers whose source is exhausted (`src = ⟨[], []⟩` — NewBytesReader's
  fakeIOReader, or any reader after its stream ran dry) satisfy the reader contract `RdC` for EVERY
  request size and every capacity, with no size hypothesis at all: a request either fits into the
  buffer (fast path) or fails with a non-nil error (the pending one, or io.EOF) and changes
  nothing the skippers can see.  Hence the stream skippers are total and exact on bytes-backed
  readers for every byte string, every capacity and every type byte.
-/
import Verif.Lemmas.SkipBR
import Verif.Lemmas.ReaderSteady
namespace Verif

/-- a fully buffered reader: nothing more will ever come from the source -/
def RdDry (r : Rd) : Prop :=
  r.src = ⟨[], []⟩ ∧ r.ri ≤ r.buf.length ∧ (r.cap = 0 → r.buf = [])

theorem RdDry.remaining {r : Rd} (h : RdDry r) : r.remaining = r.buf.drop r.ri := by
  unfold Rd.remaining; rw [h.1]; simp

theorem prepare_frame (r : Rd) (n : Nat) :
    (r.prepare n).buf = (if r.cap = 0 then [] else r.buf) ∧ (r.prepare n).ri = r.ri ∧
    (r.prepare n).src = r.src ∧ (r.prepare n).err = r.err := by
  unfold Rd.prepare
  by_cases hc : r.cap = 0
  · simp only [hc, if_true]; repeat' split
    all_goals simp
  · simp only [hc, if_false]; repeat' split
    all_goals simp

theorem prepare_cap_pos (r : Rd) (n : Nat) (hc : r.cap = 0) : 0 < (r.prepare n).cap := by
  unfold Rd.prepare
  simp only [hc, if_true]
  repeat' split
  all_goals (simp only []; exact pow2ceil_pos _)

/-- `acquire` on a dry reader: the fast path, or a failure that leaves buffer and cursor alone -/
theorem dry_acquire (r : Rd) (k : Nat) (h : RdDry r) :
    (k ≤ r.buf.length - r.ri ∧ r.acquire k = some (k, r)) ∨
    (¬ k ≤ r.buf.length - r.ri ∧ ∃ r' e, r.acquire k = some (r.buf.length - r.ri, r') ∧
      r'.err = some e ∧ r'.buf = r.buf ∧ r'.ri = r.ri ∧ RdDry r') := by
  obtain ⟨hsrc, hri, hcap⟩ := h
  by_cases hfast : k ≤ r.buf.length - r.ri
  · left; exact ⟨hfast, by simp [Rd.acquire, hfast]⟩
  · right
    refine ⟨hfast, ?_⟩
    cases herr : r.err with
    | some e =>
      exact ⟨r, e, by simp [Rd.acquire, hfast, Rd.acquireSlow, herr], herr, rfl, rfl, hsrc, hri, hcap⟩
    | none =>
      obtain ⟨hb, hr, hs, he⟩ := prepare_frame r k
      have hbuf : (r.prepare k).buf = r.buf := by
        rw [hb]; split
        · rename_i hc; exact (hcap hc).symm
        · rfl
      have hM := maxEmpty_pos
      have hnotge : ¬ (0 ≥ Facts.maxConsecutiveEmptyReads) := by omega
      have hread : ∀ room, (r.prepare k).src.read room = ([], some .eof, (r.prepare k).src) := by
        intro room; apply Src.read_nil; rw [hs, hsrc]
      refine ⟨{ r.prepare k with buf := (r.prepare k).buf ++ [], src := (r.prepare k).src, err := some .eof },
        .eof, ?_, rfl, by simp [hbuf], hr, ?_, ?_, ?_⟩
      · simp only [Rd.acquire, hfast, if_false, Rd.acquireSlow, herr, Option.isSome_none,
          Bool.false_eq_true, Rd.readLoop, hnotge, hread, List.append_nil, hbuf, hr]
      · simp [hs, hsrc]
      · simp only [List.append_nil, hbuf, hr]; exact hri
      · intro hc0
        simp only [] at hc0
        simp only [List.append_nil, hbuf]
        by_cases hc : r.cap = 0
        · exact hcap hc
        · exfalso
          have hpc : (r.prepare k).cap ≠ 0 := by
            unfold Rd.prepare
            simp only [hc, if_false]
            split
            · have := pow2ceil_pos (growCap 64 (r.cap * 2) r.ri k); simp only []; omega
            · exact hc
          exact hpc hc0

/-- THE INSTANCE for fully buffered readers: an exact cursor, for every request size -/
theorem rdc_dry (bnd : Nat) : RdC RdDry True bnd := by
  refine ⟨?_, ?_, ?_⟩
  · intro r n hp h0 _
    have hneg : ¬ n < 0 := by omega
    rw [hp.remaining, List.length_drop]
    rcases dry_acquire r n.toNat hp with ⟨hfit, ha⟩ | ⟨hnfit, r', e, ha, he, hb, hri, hp'⟩
    · left
      refine ⟨{ r with ri := r.ri + n.toNat }, ?_, hfit, ?_, rfl, ⟨hp.1, ?_, hp.2.2⟩⟩
      · simp [Rd.next, hneg, ha]
      · have hd : RdDry { r with ri := r.ri + n.toNat } := ⟨hp.1, by simp only []; have := hp.2.1; omega, hp.2.2⟩
        rw [hd.remaining]; simp only [List.drop_drop]
      · simp only []; have := hp.2.1; omega
    · right
      refine ⟨e, r', ?_, fun _ => by omega⟩
      have : n.toNat > r.buf.length - r.ri := by omega
      simp [Rd.next, hneg, ha, this, he]
  · intro r n hp h0 _
    have hneg : ¬ n < 0 := by omega
    rw [hp.remaining, List.length_drop]
    rcases dry_acquire r n.toNat hp with ⟨hfit, ha⟩ | ⟨hnfit, r', e, ha, he, hb, hri, hp'⟩
    · left
      refine ⟨[], { r with ri := r.ri + n.toNat }, ?_, hfit, ?_, rfl, ⟨hp.1, ?_, hp.2.2⟩⟩
      · simp [Rd.skip, hneg, ha]
      · have hd : RdDry { r with ri := r.ri + n.toNat } := ⟨hp.1, by simp only []; have := hp.2.1; omega, hp.2.2⟩
        rw [hd.remaining]; simp only [List.drop_drop]
      · simp only []; have := hp.2.1; omega
    · right
      refine ⟨e, r', ?_, fun _ => by omega⟩
      have : n.toNat > r.buf.length - r.ri := by omega
      simp [Rd.skip, hneg, ha, this, he]
  · intro r n hp h0 _
    have hneg : ¬ n < 0 := by omega
    rw [hp.remaining, List.length_drop]
    rcases dry_acquire r n.toNat hp with ⟨hfit, ha⟩ | ⟨hnfit, r', e, ha, he, hb, hri, hp'⟩
    · left
      exact ⟨r, by simp [Rd.peek, hneg, ha], hfit, hp.remaining, rfl, hp⟩
    · right
      refine ⟨e, r', ?_, fun _ => by omega⟩
      have : n.toNat > r.buf.length - r.ri := by omega
      simp [Rd.peek, hneg, ha, this, he]

theorem newBytes_dry (b : Bytes) (cap : Nat) : RdDry (Rd.newBytes b cap) := by
  unfold Rd.newBytes
  split
  · rename_i hc; exact ⟨rfl, Nat.zero_le _, fun h => by simp only [] at h; omega⟩
  · exact ⟨rfl, Nat.zero_le _, fun _ => rfl⟩

/-- BufferReader.Skip on a fully buffered reader — every buffer content, every capacity, every type
    byte: ok iff refBR 64 accepts a prefix of the unread bytes, then exactly that prefix is
    consumed and ReadLen grows by its length; otherwise an error.  Never a panic. -/
theorem skipBR_dry (r : Rd) (t : UInt8) (h : RdDry r) :
    match refBR Facts.defaultRecursionDepth t r.remaining with
    | some n => ∃ r', skipBR t r = .ok ((), r') ∧ r'.remaining = r.remaining.drop n ∧
        r'.readLen = r.readLen + n ∧ RdDry r'
    | none => ∃ e, skipBR t r = .err e := by
  have hm := skipBRAt_m (rdc_dry reqBound) (Nat.le_refl _) Facts.defaultRecursionDepth t r h
  rcases hm with ⟨e, hx, hnone⟩ | ⟨k, a, r', ho, hx, hrem, hri, hp'⟩
  · rw [hnone trivial]; exact ⟨e, hx⟩
  · rw [ho]; exact ⟨r', hx, hrem, hri, hp'⟩

end Verif

/-
  Lemmas/UnknownRead: readUnknownField with maxdepth = m succeeds on EVERY well-formed value of nesting ≤ m
  (Spec/Grammar `refLen m`, any boolean bytes) and consumes exactly its extent. With `refBin_le_refLen`
  (Lemmas/Grammar) this gives: whatever Binary.Skip accepts with its 64 levels, ConvertUnknownFields converts
  with maxRecursionDepth = 65 — the reason for that constant.
-/
import Verif.Lemmas.UnknownBase
import Verif.Lemmas.UnknownEqns
import Verif.Lemmas.UnknownWC
import Verif.Lemmas.Grammar
namespace Verif

/-- reading one well-formed element succeeds with the measured extent -/
def UfReadsE {α : Type} (g : Bytes → Option Nat) (rd : Bytes → UInt16 → UOut (α × Nat)) : Prop :=
  ∀ s k i, g s = some k → k ≤ s.length ∧ ∃ f, rd s i = .ok (f, k)

def UfReadsF {α : Type} (g : UInt8 → Bytes → Option Nat) (rd : Bytes → UInt8 → UInt16 → UOut (α × Nat)) : Prop :=
  ∀ s k t i, g t s = some k → k ≤ s.length ∧ ∃ f, rd s t i = .ok (f, k)

theorem uf_readElems_ok {α : Type} (g : Bytes → Option Nat) (rd : Bytes → UInt16 → UOut (α × Nat))
    (H : UfReadsE g rd) (b : Bytes) :
    ∀ n i off k, off ≤ b.length → refN g n (b.drop off) = some k →
      off + k ≤ b.length ∧ ∃ fs, readElems rd n i b off = .ok (fs, off + k)
  | 0, i, off, k, ho, h => by
    simp [refN] at h; subst h
    exact ⟨by omega, [], by simp [readElems]⟩
  | n+1, i, off, k, ho, h => by
    simp only [refN] at h
    generalize hg : g (b.drop off) = r1 at h
    cases r1 with
    | none => simp at h
    | some k1 =>
      simp only at h
      generalize hr : refN g n ((b.drop off).drop k1) = r2 at h
      cases r2 with
      | none => simp at h
      | some r =>
        simp at h; subst h
        obtain ⟨hk1, f, hrd⟩ := H _ _ (UInt16.ofNat i) hg
        simp at hk1
        rw [List.drop_drop] at hr
        obtain ⟨hle, fs, hfs⟩ := uf_readElems_ok g rd H b n (i+1) (off + k1) r (by omega) hr
        refine ⟨by omega, f :: fs, ?_⟩
        simp [readElems, ufSliceFrom_ok b off ho, hrd, hfs]; omega

theorem uf_readKVs_ok {α : Type} (gk gv : Bytes → Option Nat) (rk rv : Bytes → UInt16 → UOut (α × Nat))
    (HK : UfReadsE gk rk) (HV : UfReadsE gv rv) (b : Bytes) :
    ∀ n i off k, off ≤ b.length → refKV gk gv n (b.drop off) = some k →
      off + k ≤ b.length ∧ ∃ fs, ufReadKVs rk rv n i b off = .ok (fs, off + k)
  | 0, i, off, k, ho, h => by
    simp [refKV] at h; subst h
    exact ⟨by omega, [], by simp [ufReadKVs]⟩
  | n+1, i, off, k, ho, h => by
    simp only [refKV] at h
    generalize hg : gk (b.drop off) = r1 at h
    cases r1 with
    | none => simp at h
    | some k1 =>
      simp only at h
      generalize hg2 : gv ((b.drop off).drop k1) = r1' at h
      cases r1' with
      | none => simp at h
      | some v1 =>
        simp only at h
        generalize hr : refKV gk gv n ((b.drop off).drop (k1 + v1)) = r2 at h
        cases r2 with
        | none => simp at h
        | some r =>
          simp at h; subst h
          obtain ⟨hk1, f, hrd⟩ := HK _ _ (UInt16.ofNat i) hg
          obtain ⟨hv1, f', hrd'⟩ := HV _ _ (UInt16.ofNat i) hg2
          simp at hk1 hv1
          rw [List.drop_drop] at hr hrd'
          obtain ⟨hle, fs, hfs⟩ := uf_readKVs_ok gk gv rk rv HK HV b n (i+1) (off + (k1 + v1)) r (by omega) hr
          refine ⟨by omega, f :: f' :: fs, ?_⟩
          simp [ufReadKVs, ufSliceFrom_ok b off ho, hrd, ufSliceFrom_ok b (off + k1) (by omega), hrd']
          rw [show off + k1 + v1 = off + (k1 + v1) by omega, hfs]; simp; omega

theorem uf_readFields_ok {α : Type} (g : UInt8 → Bytes → Option Nat)
    (rd : Bytes → UInt8 → UInt16 → UOut (α × Nat)) (H : UfReadsF g rd) (b : Bytes) :
    ∀ fuel fuel2 off k, off ≤ b.length → b.length - off + 1 ≤ fuel2 → refFields g fuel (b.drop off) = some k →
      off + k ≤ b.length ∧ ∃ fs, readFields rd fuel2 b off = .ok (fs, off + k)
  | 0, _, _, _, _, _, h => by simp [refFields] at h
  | fuel+1, 0, _, _, _, hf, _ => by omega
  | fuel+1, fuel2+1, off, k, ho, hf, h => by
    simp only [refFields] at h
    generalize hs : b.drop off = s at h
    cases s with
    | nil => simp at h
    | cons t rest =>
      have hlen : rest.length + 1 = b.length - off := by
        have := congrArg List.length hs; simp at this; omega
      simp only at h
      by_cases ht : t = 0
      · simp [ht] at h; subst h; subst ht
        refine ⟨by omega, [], ?_⟩
        simp [readFields, ufSliceFrom_ok b off ho, hs, rdFieldBegin, UT.STOP_eq]
      · simp only [ht, if_false] at h
        by_cases hr2 : rest.length < 2
        · simp [hr2] at h
        · simp only [hr2, if_false] at h
          generalize hg : g t (rest.drop 2) = r1 at h
          cases r1 with
          | none => simp at h
          | some k1 =>
            simp only at h
            generalize hrr : refFields g fuel (rest.drop (2 + k1)) = r2 at h
            cases r2 with
            | none => simp at h
            | some r =>
              simp at h; subst h
              obtain ⟨hk1, f, hrd⟩ := H _ _ t (UInt16.ofNat (rd16 rest)) hg
              simp at hk1
              have e3 : b.drop (off + 3) = rest.drop 2 := drop_of_cons hs 2
              have e4 : b.drop (off + 3 + k1) = rest.drop (2 + k1) := by
                rw [show off + 3 + k1 = off + ((2 + k1) + 1) by omega]; exact drop_of_cons hs (2 + k1)
              rw [← e4] at hrr
              obtain ⟨hle, fs, hfs⟩ :=
                uf_readFields_ok g rd H b fuel fuel2 (off + 3 + k1) r (by omega) (by omega) hrr
              refine ⟨by omega, f :: fs, ?_⟩
              simp [readFields, ufSliceFrom_ok b off ho, hs, rdFieldBegin, UT.STOP_eq, ht, hr2,
                ufSliceFrom_ok b (off + 3) (by omega), e3, hrd, hfs]
              omega

theorem uf_convertLoop_ok {α : Type} (g : UInt8 → Bytes → Option Nat)
    (rd : Bytes → UInt8 → UInt16 → UOut (α × Nat)) (H : UfReadsF g rd) (b : Bytes) :
    ∀ fuel fuel2 off, off ≤ b.length → b.length - off + 1 ≤ fuel2 → encSeq g fuel (b.drop off) = true →
      ∃ fs, convertLoop rd fuel2 b off = .ok fs
  | 0, _, _, _, _, h => by simp [encSeq] at h
  | fuel+1, 0, _, _, hf, _ => by omega
  | fuel+1, fuel2+1, off, ho, hf, h => by
    simp only [encSeq] at h
    generalize hs : b.drop off = s at h
    cases s with
    | nil =>
      have : off = b.length := by
        have := congrArg List.length hs; simp at this; omega
      exact ⟨[], by simp [convertLoop, this]⟩
    | cons t rest =>
      have hlen : rest.length + 1 = b.length - off := by
        have := congrArg List.length hs; simp at this; omega
      simp only at h
      by_cases ht : t = 0
      · simp [ht] at h
      · simp only [ht, if_false] at h
        by_cases hr2 : rest.length < 2
        · simp [hr2] at h
        · simp only [hr2, if_false] at h
          generalize hg : g t (rest.drop 2) = r1 at h
          cases r1 with
          | none => simp at h
          | some k1 =>
            simp only at h
            obtain ⟨hk1, f, hrd⟩ := H _ _ t (UInt16.ofNat (rd16 rest)) hg
            simp at hk1
            have e3 : b.drop (off + 3) = rest.drop 2 := drop_of_cons hs 2
            have e4 : b.drop (off + 3 + k1) = rest.drop (2 + k1) := by
              rw [show off + 3 + k1 = off + ((2 + k1) + 1) by omega]; exact drop_of_cons hs (2 + k1)
            rw [← e4] at h
            obtain ⟨fs, hfs⟩ := uf_convertLoop_ok g rd H b fuel fuel2 (off + 3 + k1) (by omega) (by omega) h
            refine ⟨f :: fs, ?_⟩
            have hne : off ≠ b.length := by omega
            simp [convertLoop, hne, ufSliceFrom_ok b off ho, hs, rdFieldBegin, UT.STOP_eq, ht, hr2,
              ufSliceFrom_ok b (off + 3) (by omega), e3, hrd, hfs]

theorem ufReadsE_of_F {α : Type} {g : UInt8 → Bytes → Option Nat} {rd : Bytes → UInt8 → UInt16 → UOut (α × Nat)}
    (H : UfReadsF g rd) (t : UInt8) : UfReadsE (g t) (fun s i => rd s t i) := fun s k i h => H s k t i h

/-- readUnknownField(maxdepth = m) reads every well-formed value of nesting ≤ m, consuming its extent -/
theorem readUF_of_refLen : ∀ m, UfReadsF (refLen m) (fun s t id => readUF m s t id)
  | 0 => by intro s k t i h; simp [refLen] at h
  | m+1 => by
    have ih := readUF_of_refLen m
    obtain ⟨u0, u2, u3, u4, u6, u8, u10, u11, u12, u13, u14, u15⟩ := utt
    intro s k t i h
    simp only [refLen, layer, TT.STRING, TT.STRUCT, TT.LIST, TT.SET, TT.MAP] at h
    by_cases h2 : t = 2
    · subst h2
      simp [fixedSize] at h
      obtain ⟨hl, hk⟩ := h; subst hk
      cases s with
      | nil => simp at hl
      | cons x r =>
        refine ⟨by simp, (⟨i, 2, 0, 0⟩, .bool (x == 1)), ?_⟩
        refine (readUF_BOOL _ _ _ _ u2.symm).trans ?_; simp [scalarUF, rdBool]; rfl
    by_cases h3 : t = 3
    · subst h3
      simp [fixedSize] at h
      obtain ⟨hl, hk⟩ := h; subst hk
      cases s with
      | nil => simp at hl
      | cons x r =>
        refine ⟨by simp, (⟨i, 3, 0, 0⟩, .i8 x), ?_⟩
        refine (readUF_BYTE _ _ _ _ u3.symm).trans ?_; simp [scalarUF, rdByte]; rfl
    by_cases h6 : t = 6
    · subst h6
      simp [fixedSize] at h
      obtain ⟨hl, hk⟩ := h; subst hk
      refine ⟨hl, (⟨i, 6, 0, 0⟩, .i16 (UInt16.ofNat (rd16 s))), ?_⟩
      refine (readUF_I16 _ _ _ _ u6.symm).trans ?_
      have hn : ¬ s.length < 2 := by omega
      simp [scalarUF, rdI16, hn] <;> rfl
    by_cases h8 : t = 8
    · subst h8
      simp [fixedSize] at h
      obtain ⟨hl, hk⟩ := h; subst hk
      refine ⟨hl, (⟨i, 8, 0, 0⟩, .i32 (UInt32.ofNat (rd32 s))), ?_⟩
      refine (readUF_I32 _ _ _ _ u8.symm).trans ?_
      have hn : ¬ s.length < 4 := by omega
      simp [scalarUF, rdI32, hn] <;> rfl
    by_cases h10 : t = 10
    · subst h10
      simp [fixedSize] at h
      obtain ⟨hl, hk⟩ := h; subst hk
      refine ⟨hl, (⟨i, 10, 0, 0⟩, .i64 (UInt64.ofNat (rd64 s))), ?_⟩
      refine (readUF_I64 _ _ _ _ u10.symm).trans ?_
      have hn : ¬ s.length < 8 := by omega
      simp [scalarUF, rdI64, hn] <;> rfl
    by_cases h4 : t = 4
    · subst h4
      simp [fixedSize] at h
      obtain ⟨hl, hk⟩ := h; subst hk
      refine ⟨hl, (⟨i, 4, 0, 0⟩, .f64 (UInt64.ofNat (rd64 s))), ?_⟩
      refine (readUF_DOUBLE _ _ _ _ u4.symm).trans ?_
      have hn : ¬ s.length < 8 := by omega
      simp [scalarUF, rdDouble, hn] <;> rfl
    have hfx : fixedSize t = 0 := by
      simp only [fixedSize]; simp [h2, h3, h4, h6, h8, h10]
    simp only [hfx, Nat.lt_irrefl, if_false] at h
    by_cases h11 : t = 11
    · subst h11
      simp [refStr] at h
      obtain ⟨⟨hl, hn, hle⟩, hk⟩ := h; subst hk
      refine ⟨hle, (⟨i, 11, 0, 0⟩, .str ((s.drop 4).take (rd32 s))), ?_⟩
      refine (readUF_STRING _ _ _ _ u11.symm).trans ?_
      have h1 : ¬ s.length < 4 := by omega
      have h2 : ¬ 2147483648 ≤ rd32 s := by omega
      have h3 : ¬ s.length < 4 + rd32 s := by omega
      simp [scalarUF, rdStr, h1, h2, h3] <;> rfl
    simp only [h11, if_false] at h
    by_cases h12 : t = 12
    · subst h12
      simp only [if_true] at h
      have h' : refFields (refLen m) (s.length + 1) (s.drop 0) = some k := by simpa using h
      obtain ⟨hle, fs, hrd⟩ :=
        uf_readFields_ok _ _ ih s (s.length + 1) (s.length + 1) 0 k (by omega) (by omega) h'
      simp at hle hrd
      refine ⟨hle, (⟨i, 12, 0, 0⟩, .fields fs), ?_⟩
      refine (readUF_STRUCT _ _ _ _ u12.symm).trans ?_
      simp [hrd] <;> rfl
    simp only [h12, if_false] at h
    by_cases h15 : t = 15
    · subst h15
      simp only [true_or, if_true] at h
      cases s with
      | nil => simp at h
      | cons et rest =>
        by_cases hc : 4 ≤ rest.length ∧ rd32 rest < 2147483648
        · simp only [hc, and_self, if_true] at h
          generalize hr : refN (refLen m et) (rd32 rest) (List.drop 4 rest) = rr at h
          cases rr with
          | none => simp at h
          | some r =>
          simp at h; subst h
          have e5 : (et :: rest).drop 5 = rest.drop 4 := rfl
          rw [← e5] at hr
          obtain ⟨hle, fs, hrd⟩ :=
            uf_readElems_ok _ _ (ufReadsE_of_F ih et) (et :: rest) (rd32 rest) 0 5 r (by simp; omega) hr
          refine ⟨hle, (⟨i, 15, 0, et⟩, .fields fs), ?_⟩
          refine (readUF_LIST _ _ _ _ u15.symm).trans ?_
          have h4 : ¬ rest.length < 4 := by omega
          simp [readListLike, h4, hrd] <;> rfl
        · simp [hc] at h
    by_cases h14 : t = 14
    · subst h14
      simp only [or_true, if_true] at h
      cases s with
      | nil => simp at h
      | cons et rest =>
        by_cases hc : 4 ≤ rest.length ∧ rd32 rest < 2147483648
        · simp only [hc, and_self, if_true] at h
          generalize hr : refN (refLen m et) (rd32 rest) (List.drop 4 rest) = rr at h
          cases rr with
          | none => simp at h
          | some r =>
          simp at h; subst h
          have e5 : (et :: rest).drop 5 = rest.drop 4 := rfl
          rw [← e5] at hr
          obtain ⟨hle, fs, hrd⟩ :=
            uf_readElems_ok _ _ (ufReadsE_of_F ih et) (et :: rest) (rd32 rest) 0 5 r (by simp; omega) hr
          refine ⟨hle, (⟨i, 14, 0, et⟩, .fields fs), ?_⟩
          refine (readUF_SET _ _ _ _ u14.symm).trans ?_
          have h4 : ¬ rest.length < 4 := by omega
          simp [readListLike, h4, hrd] <;> rfl
        · simp [hc] at h
    simp only [h15, h14, or_self, if_false] at h
    by_cases h13 : t = 13
    · subst h13
      simp only [if_true] at h
      match s, h with
      | [], h => simp at h
      | [_], h => simp at h
      | kt :: vt :: rest, h =>
        by_cases hc : 4 ≤ rest.length ∧ rd32 rest < 2147483648
        · simp only [hc, and_self, if_true] at h
          generalize hr : refKV (refLen m kt) (refLen m vt) (rd32 rest) (List.drop 4 rest) = rr at h
          cases rr with
          | none => simp at h
          | some r =>
          simp at h; subst h
          have e6 : (kt :: vt :: rest).drop 6 = rest.drop 4 := rfl
          rw [← e6] at hr
          obtain ⟨hle, fs, hrd⟩ :=
            uf_readKVs_ok _ _ _ _ (ufReadsE_of_F ih kt) (ufReadsE_of_F ih vt)
              (kt :: vt :: rest) (rd32 rest) 0 6 r (by simp; omega) hr
          refine ⟨hle, (⟨i, 13, kt, vt⟩, .fields fs), ?_⟩
          refine (readUF_MAP _ _ _ _ u13.symm).trans ?_
          have h4 : ¬ rest.length < 4 := by omega
          simp [readMapLike, h4, hrd] <;> rfl
        · simp [hc] at h
    simp [h13] at h

/-- a sequence of ≥ 1 fields whose values Binary.Skip accepts with maxdepth d converts with any limit m ≥ d+1 -/
theorem convertM_of_skipAccepted (d m : Nat) (hm : d + 1 ≤ m) (b : Bytes) (hne : b ≠ [])
    (h : encSeq (refBin d) (b.length + 1) b = true) : ∃ fs, convertM m b = .ok fs := by
  have H : UfReadsF (refBin d) (fun s t id => readUF m s t id) :=
    fun s k t i hk => readUF_of_refLen m s k t i (refLen_mono hm t s k (refBin_le_refLen d t s k hk))
  have hpos : 0 < b.length := List.length_pos_iff.mpr hne
  obtain ⟨fs, hc⟩ := uf_convertLoop_ok _ _ H b (b.length + 1) (b.length + 1) 0 (by omega) (by omega) (by simpa using h)
  have : ¬ b.length = 0 := by omega
  exact ⟨fs, by simp [convertM, this, hc]⟩

end Verif

/-
  Lemmas/UnknownCW: tree → bytes → tree. Writing a well-typed tree succeeds, and reading the written bytes
  (followed by anything) gives the same tree back, tags included, consuming exactly what was written.
-/
import Verif.Lemmas.UnknownBase
import Verif.Lemmas.UnknownEqns
namespace Verif

/-- round trip of one node: write succeeds and read-after-write returns the node -/
def RT {α : Type} (rd : Bytes → UInt8 → UInt16 → UOut (α × Nat)) (wr : α → UOut Bytes) (mt : α → UMeta)
    (p : α → Bool) : Prop :=
  ∀ f, p f = true → (mt f).typ ≠ 0 ∧ ∃ bs, wr f = .ok bs ∧
    ∀ rest, rd (bs ++ rest) (mt f).typ (mt f).id = .ok (f, bs.length)

theorem drop_add_of_drop_eq {b : Bytes} {off : Nat} {a r : Bytes} (h : b.drop off = a ++ r) :
    b.drop (off + a.length) = r := by
  rw [← List.drop_drop, h, List.drop_left]

theorem readElems_of_writeList {α : Type} (rd : Bytes → UInt8 → UInt16 → UOut (α × Nat)) (wr : α → UOut Bytes)
    (mt : α → UMeta) (p : α → Bool) (H : RT rd wr mt p) (t : UInt8) :
    ∀ fs i, elemsOK mt p t i fs = true → ∃ bs, writeList wr fs = .ok bs ∧
      ∀ (b : Bytes) off rest, off ≤ b.length → b.drop off = bs ++ rest →
        readElems (fun s j => rd s t j) fs.length i b off = .ok (fs, off + bs.length)
  | [], i, _ => ⟨[], by simp [writeList], by intros; simp [readElems]⟩
  | c :: cs, i, h => by
    simp only [elemsOK, Bool.and_eq_true, beq_iff_eq] at h
    obtain ⟨⟨⟨hid, hty⟩, hp⟩, hcs⟩ := h
    obtain ⟨_, a, hwa, hra⟩ := H c hp
    obtain ⟨r, hwr, hrr⟩ := readElems_of_writeList rd wr mt p H t cs (i + 1) hcs
    refine ⟨a ++ r, by simp [writeList, hwa, hwr], ?_⟩
    intro b off rest ho hb
    have hb' : b.drop off = a ++ (r ++ rest) := by rw [hb, List.append_assoc]
    have hlen : off + a.length ≤ b.length := by
      have := congrArg List.length hb'; simp at this; omega
    have h2 := hrr b (off + a.length) rest hlen (drop_add_of_drop_eq hb')
    have h1 := hra (r ++ rest)
    rw [hty, hid] at h1
    simp [readElems, ufSliceFrom_ok b off ho, hb', h1, h2]; omega

theorem readKVs_of_writeKVs {α : Type} (rd : Bytes → UInt8 → UInt16 → UOut (α × Nat)) (wr : α → UOut Bytes)
    (mt : α → UMeta) (p : α → Bool) (H : RT rd wr mt p) (kt vt : UInt8) :
    ∀ fs i, ufKvsOK mt p kt vt i fs = true → ∃ bs, writeKVs wr fs = .ok bs ∧
      ∀ (b : Bytes) off rest, off ≤ b.length → b.drop off = bs ++ rest →
        ufReadKVs (fun s j => rd s kt j) (fun s j => rd s vt j) (fs.length / 2) i b off = .ok (fs, off + bs.length)
  | [], i, _ => ⟨[], by simp [writeKVs], by intros; simp [ufReadKVs]⟩
  | [_], i, h => by simp [ufKvsOK] at h
  | k :: v :: cs, i, h => by
    simp only [ufKvsOK, Bool.and_eq_true, beq_iff_eq] at h
    obtain ⟨⟨⟨⟨⟨⟨hid, hty⟩, hp⟩, hid'⟩, hty'⟩, hp'⟩, hcs⟩ := h
    obtain ⟨_, a, hwa, hra⟩ := H k hp
    obtain ⟨_, c, hwc, hrc⟩ := H v hp'
    obtain ⟨r, hwr, hrr⟩ := readKVs_of_writeKVs rd wr mt p H kt vt cs (i + 1) hcs
    refine ⟨a ++ c ++ r, by simp [writeKVs, hwa, hwc, hwr], ?_⟩
    intro b off rest ho hb
    have hb' : b.drop off = a ++ (c ++ (r ++ rest)) := by rw [hb]; simp
    have hlen : off + a.length + c.length ≤ b.length := by
      have := congrArg List.length hb'; simp at this; omega
    have hb2 : b.drop (off + a.length) = c ++ (r ++ rest) := drop_add_of_drop_eq hb'
    have hb3 : b.drop (off + a.length + c.length) = r ++ rest := drop_add_of_drop_eq hb2
    have h3 := hrr b (off + a.length + c.length) rest hlen hb3
    have h1 := hra (c ++ (r ++ rest))
    have h2 := hrc (r ++ rest)
    rw [hty, hid] at h1
    rw [hty', hid'] at h2
    have e : (k :: v :: cs).length / 2 = cs.length / 2 + 1 := by simp; omega
    rw [e]
    simp [ufReadKVs, ufSliceFrom_ok b off ho, hb', h1, ufSliceFrom_ok b (off + a.length) (by omega), hb2, h2, h3]
    omega

theorem be16_length' (n : Nat) : (be16 n).length = 2 := rfl

theorem rdFieldBegin_hdr (t : UInt8) (id : UInt16) (r : Bytes) (ht : t ≠ 0) :
    rdFieldBegin (t :: (be16 id.toNat ++ r)) = .ok (t, id, 3) := by
  have h := rd16_be16 id.toNat id.toNat_lt r
  have h2 : ¬ (be16 id.toNat ++ r).length < 2 := by simp
  unfold rdFieldBegin
  simp only [UT.STOP_eq, if_neg ht, if_neg h2, h]
  simp

theorem readFields_of_writeFields {α : Type} (rd : Bytes → UInt8 → UInt16 → UOut (α × Nat)) (wr : α → UOut Bytes)
    (mt : α → UMeta) (p : α → Bool) (H : RT rd wr mt p) :
    ∀ fs, fs.all p = true → ∃ bs, writeFields mt wr fs = .ok bs ∧
      ∀ (b : Bytes) off rest fuel, off ≤ b.length → b.drop off = bs ++ 0 :: rest → bs.length + 1 ≤ fuel →
        readFields rd fuel b off = .ok (fs, off + bs.length + 1)
  | [], _ => by
    refine ⟨[], by simp [writeFields], ?_⟩
    intro b off rest fuel ho hb hf
    cases fuel with
    | zero => simp at hf
    | succ fuel =>
      simp at hb
      simp [readFields, ufSliceFrom_ok b off ho, hb, rdFieldBegin, UT.STOP_eq]
  | c :: cs, h => by
    simp only [List.all_cons, Bool.and_eq_true] at h
    obtain ⟨hp, hcs⟩ := h
    obtain ⟨hne, a, hwa, hra⟩ := H c hp
    obtain ⟨r, hwr, hrr⟩ := readFields_of_writeFields rd wr mt p H cs hcs
    refine ⟨(mt c).typ :: be16 (mt c).id.toNat ++ a ++ r, by simp [writeFields, hwa, hwr], ?_⟩
    intro b off rest fuel ho hb hf
    cases fuel with
    | zero => simp at hf
    | succ fuel =>
      have hb' : b.drop off = (mt c).typ :: (be16 (mt c).id.toNat ++ (a ++ (r ++ 0 :: rest))) := by rw [hb]; simp
      have hb1 : b.drop off = ((mt c).typ :: be16 (mt c).id.toNat) ++ (a ++ (r ++ 0 :: rest)) := hb'
      have hbl : ((mt c).typ :: be16 (mt c).id.toNat ++ a ++ r).length = 3 + a.length + r.length := by
        simp; omega
      have hb3 : b.drop (off + 3) = a ++ (r ++ 0 :: rest) := by
        have := drop_add_of_drop_eq hb1; simpa using this
      have hb4 : b.drop (off + 3 + a.length) = r ++ 0 :: rest := drop_add_of_drop_eq hb3
      have hlen : off + 3 + a.length ≤ b.length := by
        have := congrArg List.length hb'; simp at this; omega
      have h3 := hrr b (off + 3 + a.length) rest fuel hlen hb4 (by omega)
      have h1 := hra (r ++ 0 :: rest)
      have hh := rdFieldBegin_hdr (mt c).typ (mt c).id (a ++ (r ++ 0 :: rest)) hne
      simp [readFields, ufSliceFrom_ok b off ho, hb', hh, UT.STOP_eq, hne, ufSliceFrom_ok b (off + 3) (by omega), hb3, h1,
        h3]
      omega

theorem convertLoop_of_writeFields {α : Type} (rd : Bytes → UInt8 → UInt16 → UOut (α × Nat)) (wr : α → UOut Bytes)
    (mt : α → UMeta) (p : α → Bool) (H : RT rd wr mt p) :
    ∀ fs, fs.all p = true → ∃ bs, writeFields mt wr fs = .ok bs ∧
      ∀ (b : Bytes) off fuel, off ≤ b.length → b.drop off = bs → bs.length + 1 ≤ fuel →
        convertLoop rd fuel b off = .ok fs
  | [], _ => by
    refine ⟨[], by simp [writeFields], ?_⟩
    intro b off fuel ho hb hf
    cases fuel with
    | zero => simp at hf
    | succ fuel =>
      have : off = b.length := by
        have := congrArg List.length hb; simp at this; omega
      simp [convertLoop, this]
  | c :: cs, h => by
    simp only [List.all_cons, Bool.and_eq_true] at h
    obtain ⟨hp, hcs⟩ := h
    obtain ⟨hne, a, hwa, hra⟩ := H c hp
    obtain ⟨r, hwr, hrr⟩ := convertLoop_of_writeFields rd wr mt p H cs hcs
    refine ⟨(mt c).typ :: be16 (mt c).id.toNat ++ a ++ r, by simp [writeFields, hwa, hwr], ?_⟩
    intro b off fuel ho hb hf
    cases fuel with
    | zero => simp at hf
    | succ fuel =>
      have hb' : b.drop off = (mt c).typ :: (be16 (mt c).id.toNat ++ (a ++ r)) := by rw [hb]; simp
      have hb1 : b.drop off = ((mt c).typ :: be16 (mt c).id.toNat) ++ (a ++ r) := hb'
      have hbl : ((mt c).typ :: be16 (mt c).id.toNat ++ a ++ r).length = 3 + a.length + r.length := by
        simp; omega
      have hb3 : b.drop (off + 3) = a ++ r := by
        have := drop_add_of_drop_eq hb1; simpa using this
      have hb4 : b.drop (off + 3 + a.length) = r := drop_add_of_drop_eq hb3
      have hlen : off + 3 + a.length ≤ b.length ∧ off ≠ b.length := by
        have := congrArg List.length hb'; simp at this; omega
      have h3 := hrr b (off + 3 + a.length) fuel hlen.1 hb4 (by omega)
      have h1 := hra r
      have hh := rdFieldBegin_hdr (mt c).typ (mt c).id (a ++ r) hne
      simp [convertLoop, hlen.2, ufSliceFrom_ok b off ho, hb', hh, ufSliceFrom_ok b (off + 3) (by omega), hb3, h1, h3]

set_option linter.unusedSimpArgs false in
/-- read-after-write of one well-typed node, by induction on the depth -/
theorem rt_readUF : ∀ m, RT (fun s t id => readUF m s t id) (writeUF m) (ufMeta m) (wt m)
  | 0 => fun f => f.elim
  | m+1 => by
    have ih := rt_readUF m
    obtain ⟨u0, u2, u3, u4, u6, u8, u10, u11, u12, u13, u14, u15⟩ := utt
    intro f hwt
    obtain ⟨⟨id, typ, kt, vt⟩, v⟩ := f
    simp only [ufMeta]
    by_cases h2 : typ = UT.BOOL
    · have hw := (wt_BOOL m (⟨id, typ, kt, vt⟩, v) h2).symm.trans hwt
      cases v <;> simp at hw
      rename_i x
      obtain ⟨hk, hv⟩ := hw; subst hk hv h2
      refine ⟨by simp [u2], [if x then 1 else 0], (writeUF_BOOL m _ rfl).trans (by simp), fun rest => ?_⟩
      refine (readUF_BOOL m _ _ _ rfl).trans ?_
      cases x <;> simp [scalarUF, rdBool] <;> rfl
    by_cases h6 : typ = UT.I16
    · have hw := (wt_I16 m (⟨id, typ, kt, vt⟩, v) h6).symm.trans hwt
      cases v <;> simp at hw
      rename_i x
      obtain ⟨hk, hv⟩ := hw; subst hk hv h6
      refine ⟨by simp [u6], be16 x.toNat, (writeUF_I16 m _ rfl).trans (by simp), fun rest => ?_⟩
      refine (readUF_I16 m _ _ _ rfl).trans ?_
      have hn : ¬ (be16 x.toNat ++ rest).length < 2 := by simp
      simp only [scalarUF, rdI16, if_neg hn, rd16_be16 x.toNat x.toNat_lt rest, UInt16.ofNat_toNat, Out.bind_ok]
      rfl
    by_cases h3 : typ = UT.BYTE
    · have hw := (wt_BYTE m (⟨id, typ, kt, vt⟩, v) h3).symm.trans hwt
      cases v <;> simp at hw
      rename_i x
      obtain ⟨hk, hv⟩ := hw; subst hk hv h3
      refine ⟨by simp [u3], [x], (writeUF_BYTE m _ rfl).trans (by simp), fun rest => ?_⟩
      refine (readUF_BYTE m _ _ _ rfl).trans ?_
      simp [scalarUF, rdByte] <;> rfl
    by_cases hI32 : typ = UT.I32
    · have hw := (wt_I32 m (⟨id, typ, kt, vt⟩, v) hI32).symm.trans hwt
      cases v <;> simp at hw
      rename_i x
      obtain ⟨hk, hv⟩ := hw; subst hk hv hI32
      refine ⟨by simp [u8], be32 x.toNat, (writeUF_I32 m _ rfl).trans (by simp), fun rest => ?_⟩
      refine (readUF_I32 m _ _ _ rfl).trans ?_
      have hn : ¬ (be32 x.toNat ++ rest).length < 4 := by simp
      simp only [scalarUF, rdI32, if_neg hn, rd32_be32 x.toNat x.toNat_lt rest, UInt32.ofNat_toNat, Out.bind_ok]
      rfl
    by_cases hI64 : typ = UT.I64
    · have hw := (wt_I64 m (⟨id, typ, kt, vt⟩, v) hI64).symm.trans hwt
      cases v <;> simp at hw
      rename_i x
      obtain ⟨hk, hv⟩ := hw; subst hk hv hI64
      refine ⟨by simp [u10], be64 x.toNat, (writeUF_I64 m _ rfl).trans (by simp), fun rest => ?_⟩
      refine (readUF_I64 m _ _ _ rfl).trans ?_
      have hn : ¬ (be64 x.toNat ++ rest).length < 8 := by simp
      simp only [scalarUF, rdI64, if_neg hn, rd64_be64 x.toNat x.toNat_lt rest, UInt64.ofNat_toNat, Out.bind_ok]
      rfl
    by_cases hDOUBLE : typ = UT.DOUBLE
    · have hw := (wt_DOUBLE m (⟨id, typ, kt, vt⟩, v) hDOUBLE).symm.trans hwt
      cases v <;> simp at hw
      rename_i x
      obtain ⟨hk, hv⟩ := hw; subst hk hv hDOUBLE
      refine ⟨by simp [u4], be64 x.toNat, (writeUF_DOUBLE m _ rfl).trans (by simp), fun rest => ?_⟩
      refine (readUF_DOUBLE m _ _ _ rfl).trans ?_
      have hn : ¬ (be64 x.toNat ++ rest).length < 8 := by simp
      simp only [scalarUF, rdDouble, if_neg hn, rd64_be64 x.toNat x.toNat_lt rest, UInt64.ofNat_toNat, Out.bind_ok]
      rfl
    by_cases h11 : typ = UT.STRING
    · have hw := (wt_STRING m (⟨id, typ, kt, vt⟩, v) h11).symm.trans hwt
      cases v <;> simp at hw
      rename_i x
      obtain ⟨⟨hk, hv⟩, hl⟩ := hw; subst hk hv h11
      have hu : u32 x.length = x.length := by simp [u32]; omega
      refine ⟨by simp [u11], be32 (u32 x.length) ++ x, (writeUF_STRING m _ rfl).trans (by simp), fun rest => ?_⟩
      refine (readUF_STRING m _ _ _ rfl).trans ?_
      have h32 : rd32 (be32 x.length ++ (x ++ rest)) = x.length := rd32_be32 _ (by omega) _
      have c1 : ¬ 4 + (x.length + rest.length) < 4 := by omega
      have c2 : ¬ 2147483648 ≤ x.length := by omega
      have c3 : ¬ x.length + rest.length < x.length := by omega
      have hd : List.drop 4 (be32 x.length ++ (x ++ rest)) = x ++ rest := List.drop_left' (be32_length _)
      simp [scalarUF, rdStr, hu, h32, c1, c2, c3, hd] <;> rfl
    by_cases hSET : typ = UT.SET
    · have hw := (wt_SET m (⟨id, typ, kt, vt⟩, v) hSET).symm.trans hwt
      cases v <;> simp at hw
      rename_i cs
      obtain ⟨hk, hl, hok⟩ := hw; subst hk hSET
      have hu : u32 cs.length = cs.length := by simp [u32]; omega
      obtain ⟨r, hwr, hrr⟩ := readElems_of_writeList _ _ _ _ ih vt cs 0 hok
      refine ⟨by simp [u14], vt :: be32 (u32 cs.length) ++ r, (writeUF_SET m _ rfl).trans (by simp [hwr]),
        fun rest => ?_⟩
      refine (readUF_SET m _ _ _ rfl).trans ?_
      have h32 : rd32 (be32 cs.length ++ (r ++ rest)) = cs.length := rd32_be32 _ (by omega) _
      have hn : ¬ (be32 cs.length ++ (r ++ rest)).length < 4 := by simp
      have hb := hrr (vt :: (be32 cs.length ++ (r ++ rest))) 5 rest (by simp)
        (by simp [List.drop_left' (be32_length cs.length)])
      simp only [hu, List.cons_append, List.append_assoc, readListLike, if_neg hn, h32, hb, Out.bind_ok]
      simp only [List.length_cons, List.length_append, be32_length]
      congr 2; omega
    by_cases hLIST : typ = UT.LIST
    · have hw := (wt_LIST m (⟨id, typ, kt, vt⟩, v) hLIST).symm.trans hwt
      cases v <;> simp at hw
      rename_i cs
      obtain ⟨hk, hl, hok⟩ := hw; subst hk hLIST
      have hu : u32 cs.length = cs.length := by simp [u32]; omega
      obtain ⟨r, hwr, hrr⟩ := readElems_of_writeList _ _ _ _ ih vt cs 0 hok
      refine ⟨by simp [u15], vt :: be32 (u32 cs.length) ++ r, (writeUF_LIST m _ rfl).trans (by simp [hwr]),
        fun rest => ?_⟩
      refine (readUF_LIST m _ _ _ rfl).trans ?_
      have h32 : rd32 (be32 cs.length ++ (r ++ rest)) = cs.length := rd32_be32 _ (by omega) _
      have hn : ¬ (be32 cs.length ++ (r ++ rest)).length < 4 := by simp
      have hb := hrr (vt :: (be32 cs.length ++ (r ++ rest))) 5 rest (by simp)
        (by simp [List.drop_left' (be32_length cs.length)])
      simp only [hu, List.cons_append, List.append_assoc, readListLike, if_neg hn, h32, hb, Out.bind_ok]
      simp only [List.length_cons, List.length_append, be32_length]
      congr 2; omega
    by_cases h13 : typ = UT.MAP
    · have hw := (wt_MAP m (⟨id, typ, kt, vt⟩, v) h13).symm.trans hwt
      cases v <;> simp at hw
      rename_i cs
      obtain ⟨hl, hok⟩ := hw; subst h13
      have hu : u32 (cs.length / 2) = cs.length / 2 := by simp [u32]; omega
      obtain ⟨r, hwr, hrr⟩ := readKVs_of_writeKVs _ _ _ _ ih kt vt cs 0 hok
      refine ⟨by simp [u13], kt :: vt :: be32 (u32 (cs.length / 2)) ++ r, (writeUF_MAP m _ rfl).trans (by simp [hwr]),
        fun rest => ?_⟩
      refine (readUF_MAP m _ _ _ rfl).trans ?_
      have h32 : rd32 (be32 (cs.length / 2) ++ (r ++ rest)) = cs.length / 2 := rd32_be32 _ (by omega) _
      have hn : ¬ (be32 (cs.length / 2) ++ (r ++ rest)).length < 4 := by simp
      have hb := hrr (kt :: vt :: (be32 (cs.length / 2) ++ (r ++ rest))) 6 rest (by simp)
        (by simp [List.drop_left' (be32_length (cs.length / 2))])
      simp only [hu, List.cons_append, List.append_assoc, readMapLike, if_neg hn, h32, hb, Out.bind_ok]
      simp only [List.length_cons, List.length_append, be32_length]
      congr 2; omega
    by_cases h12 : typ = UT.STRUCT
    · have hw := (wt_STRUCT m (⟨id, typ, kt, vt⟩, v) h12).symm.trans hwt
      cases v <;> simp at hw
      rename_i cs
      obtain ⟨⟨hk, hv⟩, hall⟩ := hw; subst hk hv h12
      obtain ⟨r, hwr, hrr⟩ := readFields_of_writeFields _ _ _ _ ih cs (by simpa using hall)
      refine ⟨by simp [u12], r ++ [UT.STOP], (writeUF_STRUCT m _ rfl).trans (by simp [hwr]), fun rest => ?_⟩
      refine (readUF_STRUCT m _ _ _ rfl).trans ?_
      have hb := hrr (r ++ [UT.STOP] ++ rest) 0 rest ((r ++ [UT.STOP] ++ rest).length + 1) (by omega)
        (by simp [u0]) (by simp)
      simp only [hb, Out.bind_ok]
      simp only [List.length_append, List.length_cons, List.length_nil]
      congr 2; omega
    exfalso
    simp [wt, h2, h3, hI32, hI64, hDOUBLE, h6, h11, hSET, hLIST, h13, h12, UT.BOOL_eq.symm, UT.BYTE_eq.symm,
      UT.DOUBLE_eq.symm, UT.I16_eq.symm, UT.I32_eq.symm, UT.I64_eq.symm, UT.STRING_eq.symm, UT.LIST_eq.symm,
      UT.SET_eq.symm, UT.MAP_eq.symm, UT.STRUCT_eq.symm] at hwt

end Verif

/-
  Lemmas/WriterModel: the vocabulary of the C05 statements (`Start`, `after`, `specAfter`) and the two
  MODEL-LEVEL lemmas other families build on (`refines`, `bytesWriter_target`).

  These two carry NO range hypothesis: they are statements about the Nat-valued model with an
  allocator that always succeeds (`WAlloc.Sound`), true for every history.  They are claims about
  the Go code only inside the range where the model mirrors it (`InRange`, Lemmas/WriterRange:
  running length + requested size ≤ 2^44, so that no pool request exceeds mcache's 2^45 and no
  `int` wraps).  The property theorems of Props/C05 state that range explicitly
  (`refines_in_range`, `bytesWriter_target_in_range`, …).
-/
import Verif.Lemmas.WriterRange
namespace Verif.C05
open Verif Verif.WLog

/-- how the writer was created -/
inductive Start where
  | default (fail : Nat → Option RErr)   -- NewDefaultWriter over a sink with this failure script
  | bytes (init spare : Bytes)           -- NewBytesWriter(&buf), buf = init with spare capacity
  | bytesNil                             -- NewBytesWriter(&buf), buf == nil

def Start.model : Start → Wr
  | .default fail => Wr.newDefault fail
  | .bytes init spare => Wr.newBytes init spare
  | .bytesNil => Wr.newBytesNil

/-- the initial contents of the target slice (empty unless a bytes writer over a non-empty slice) -/
def Start.init : Start → Bytes
  | .bytes init _ => init
  | _ => []

def Start.spec : Start → Log RErr
  | .default fail => Log.new fail []
  | .bytes init _ => Log.new (fun _ => none) init
  | .bytesNil => Log.new (fun _ => none) []

/-- model state / spec log after a history -/
def after (a : WAlloc) (s : Start) (ops : List WOp) : Wr := (s.model.run a ops).2
def specAfter (s : Start) (ops : List WOp) : Log RErr := (specRun s.spec ops).2

theorem sim_start (s : Start) : WSim s.model s.spec := by
  cases s with
  | default fail => exact sim_newDefault fail
  | bytes init spare => exact sim_newBytes init spare
  | bytesNil => exact sim_newBytesNil

theorem sim_after (a : WAlloc) (ha : a.Sound) (s : Start) (ops : List WOp) :
    WSim (after a s ops) (specAfter s ops) := (sim_run a ha _ _ (sim_start s) ops).2

/-- Model-level refinement (no range hypothesis, see the header).  For every history, the results the caller observes from the model (region
    ids and lengths from Malloc, counts from WriteBinary, WrittenLen, errors) are exactly those of
    the log spec, and the states stay related. -/
theorem refines (a : WAlloc) (ha : a.Sound) (s : Start) (ops : List WOp) :
    (s.model.run a ops).1 = (specRun s.spec ops).1 ∧ WSim (after a s ops) (specAfter s ops) :=
  sim_run a ha _ _ (sim_start s) ops

/-- Model-level (no range hypothesis, see the header).  Bytes-backed writer, first flush epoch (any flush-free history, then Flush), for EVERY initial
    slice — nil (`bytesNil`), empty with or without capacity, partly filled, full (`bytes init spare`
    with init / spare empty or not), and any number of growths: Flush succeeds and the target slice
    `*buf` is the initial contents followed by the written bytes (the log's items in order). -/
theorem bytesWriter_target (a : WAlloc) (ha : a.Sound) (s : Start) (hs : ∀ f, s ≠ .default f)
    (ops : List WOp) (hnf : ∀ op ∈ ops, op ≠ .flush) :
    let w := after a s ops
    let l := specAfter s ops
    w.flush.1 = .ok () ∧
    ∃ written, l.unflushed = s.init.map some ++ written ∧
      Match w.flush.2.targetBytes (s.init.map some ++ written) := by
  intro w l
  have hinit : s.init = match s with | .bytes i _ => i | _ => [] := by cases s <;> rfl
  generalize s.init = init at hinit ⊢
  have h : WSim w l := sim_after a ha s ops
  have hdc0 : s.model.disableCache = true ∧ s.model.err = none := by
    cases s with
    | default f => exact absurd rfl (hs f)
    | bytes i sp => exact ⟨rfl, rfl⟩
    | bytesNil => exact ⟨rfl, rfl⟩
  obtain ⟨hdc, he, htgt⟩ := bytes_noflush a ha s.model s.spec (sim_start s) hdc0.1 hdc0.2 ops hnf
  -- the log still starts with the initial contents
  obtain ⟨tail, htail⟩ := spec_noflush s.spec ops hnf
  have hitems : l.items = .payload init :: tail := by
    show (specRun s.spec ops).2.items = _
    rw [htail]
    cases s with
    | default f => exact absurd rfl (hs f)
    | bytes i sp => subst hinit; rfl
    | bytesNil => subst hinit; rfl
  have hunf : l.unflushed = init.map some ++ concat l.store tail := by
    rw [unflushed_eq, hitems, concat_cons]; rfl
  have hcontent : Match w.logical (init.map some ++ concat l.store tail) := by
    rw [← hunf]; exact h.content
  cases hb : w.buf with
  | none =>
    refine ⟨by rw [flush_nil w he hb], concat l.store tail, hunf, ?_⟩
    rw [flush_nil w he hb]
    -- nothing was ever written and the initial slice is empty: the target is still the initial slice
    have hlog : w.logical = [] := by simp [Wr.logical, hb]
    rw [hlog] at hcontent
    have hlen := (Match.length_eq hcontent).symm
    have hnil : init.map some ++ concat l.store tail = [] := List.eq_nil_of_length_eq_zero hlen
    rw [hnil]
    have hinit0 : init = [] := by
      have := congrArg List.length hnil
      simp at this
      exact this.1
    have : (after a s ops).target = s.model.target := htgt
    show Match (Wr.viewBytes _ (after a s ops).target) []
    rw [this]
    cases s with
    | default f => exact absurd rfl (hs f)
    | bytesNil => simp [Start.model, Wr.newBytesNil, Wr.newDefault, Wr.viewBytes, Match]
    | bytes i sp =>
      have hi : i = [] := by rw [← hinit0]; exact hinit.symm
      subst hi
      simp [Start.model, Wr.newBytes, Wr.viewBytes, gslice, Match]
  | some v =>
    obtain ⟨heap1, _, _, f3, _, hT, _, _⟩ := flush_some w h.inv he v hb
    refine ⟨by rw [hT hdc], concat l.store tail, hunf, ?_⟩
    rw [hT hdc]
    show Match (gslice (heap1 v.obj) 0 v.len) _
    rw [f3]; exact hcontent

end Verif.C05

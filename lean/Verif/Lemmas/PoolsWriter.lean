/-
  Lemmas/PoolsWriter: the two writer kinds of Model/Pools (kDW, kBW) are `Good`: a buffered writer
  whose user fills every region it was handed (BufferWriter always does) refines the append-only log
  of Spec/WriterLog — which has no allocator — for EVERY content of the memory the shared pool hands
  out, operation by operation.  Built on C05's simulation (`WSim`, `sim_malloc/_fill/_wb/_flush`,
  which take the allocator per step).
-/
import Verif.Lemmas.Pools
import Verif.Lemmas.WriterSim
namespace Verif.Pools
open Verif Verif.WLog

/-- every byte has been stored by the user -/
def AllSome (s : SBytes) : Prop := ∀ x ∈ s, x ≠ none

def unsome (s : SBytes) : Bytes := s.map (fun o => o.getD 0)

theorem allSome_nil : AllSome [] := fun _ h => by cases h

theorem allSome_append {s t : SBytes} (hs : AllSome s) (ht : AllSome t) : AllSome (s ++ t) := by
  intro x hx
  rcases List.mem_append.mp hx with h | h
  · exact hs x h
  · exact ht x h

theorem allSome_map_some (bs : Bytes) : AllSome (bs.map some) := by
  intro x hx
  obtain ⟨b, _, rfl⟩ := List.mem_map.mp hx
  simp

theorem match_allSome : ∀ {m : Bytes} {s : SBytes}, Match m s → AllSome s → m = unsome s
  | [], [], _, _ => rfl
  | b :: m, o :: s, h, ha => by
    have ho : o = some b := by
      rcases h.1 with h0 | h0
      · exact absurd h0 (ha o (by simp))
      · exact h0
    have := match_allSome (m := m) (s := s) h.2 (fun x hx => ha x (List.mem_cons_of_mem _ hx))
    simp [unsome, ho, this]
  | [], _ :: _, h, _ => by simp [Match] at h
  | _ :: _, [], h, _ => by simp [Match] at h

/-- a live writer instance `w` and its log `l` -/
structure WRef (w : Wr) (l : Log RErr) : Prop where
  sim : WSim w l
  err : l.err = none
  dc : w.disableCache = false
  nofail : ∀ k, w.sink.fail k = none
  full : AllSome (concat l.store l.items)

theorem wAlloc_sound (d : Dirty) (base : Nat) : (wAlloc d base).Sound := fun _ => Nat.le_max_left _ _

theorem wref_init : WRef (Wr.newDefault (fun _ => none)) (Log.new (fun _ => none) []) :=
  ⟨sim_newDefault _, rfl, rfl, fun _ => rfl, by
    simp only [Log.new, concat, List.map_cons, List.map_nil, Item.content, List.flatten_cons, List.flatten_nil,
      List.append_nil]
    exact allSome_nil⟩

/-! ### the log's side -/

/-- Malloc(len bs) and fill it, on the log -/
def lMallocFill (l : Log RErr) (bs : Bytes) : Log RErr :=
  (specStep (specStep l (.malloc (bs.length : Int))).2 (.fill l.nextId 0 bs)).2

/-- the allocator-free machine of a writer instance -/
def wrAStep (l : Log RErr) : WrOp → Log RErr × WrOut
  | .wb bs => ((specStep l (.wb bs)).2, .n (.ok bs.length))
  | .mf bs => (lMallocFill l bs, .unit (.ok ()))
  | .bin bs =>
    ((specStep (lMallocFill l (be32 (bs.length % 4294967296))) (.wb bs)).2, .unit (.ok ()))
  | .i64 v => (lMallocFill l (be64 (ofInt 64 v)), .unit (.ok ()))
  | .flush =>
    ((specStep l .flush).2,
     .flushed (.ok ()) (if lenSum l.items = 0 then [] else [(unsome (concat l.store l.items), none)]))

/-! ### one operation, any allocator -/

theorem wref_wb (a : WAlloc) (ha : a.Sound) {w : Wr} {l : Log RErr} (h : WRef w l) (bs : Bytes) :
    (w.writeBinary a bs).1 = .ok bs.length ∧ WRef (w.writeBinary a bs).2 (specStep l (.wb bs)).2 := by
  obtain ⟨hobs, hsim⟩ := sim_wb a ha w l h.sim bs
  have hfr := step_frame a ha w h.sim.inv (.wb bs)
  simp only [Wr.step, specStep, Log.write, h.err] at hobs hsim hfr
  refine ⟨?_, ?_⟩
  · generalize (w.writeBinary a bs).1 = r at hobs
    cases r <;> simp [obsOfOut] at hobs
    rw [hobs]
  · simp only [specStep, Log.write, h.err]
    refine ⟨hsim, rfl, by rw [hfr.1]; exact h.dc, ?_, ?_⟩
    · intro k; rw [(hfr.2 (by simp)).2.2]; exact h.nofail k
    · rw [concat_append]
      refine allSome_append h.full ?_
      simp only [concat, List.map_cons, List.map_nil, Item.content, List.flatten_cons, List.flatten_nil,
        List.append_nil]
      exact allSome_map_some bs

theorem overwrite_all (n : Nat) (bs : SBytes) (h : bs.length = n) :
    overwrite (List.replicate n (none : SByte)) 0 bs = bs := by
  simp [overwrite, h]

theorem lMallocFill_eq (l : Log RErr) (bs : Bytes) (he : l.err = none) :
    lMallocFill l bs =
      { l with items := l.items ++ [.region l.nextId bs.length],
               store := fun i => if i = l.nextId then bs.map some else l.store i,
               nextId := l.nextId + 1 } := by
  have hnn : ¬ ((bs.length : Int) < 0) := by omega
  unfold lMallocFill
  simp only [specStep, he, hnn, if_false, Log.malloc, Int.toNat_natCast, Log.fill, if_true,
    List.length_replicate, Nat.zero_add, Nat.le_refl]
  congr 1
  funext i
  by_cases hi : i = l.nextId
  · simp only [hi, if_true]; exact overwrite_all _ _ (by simp)
  · simp only [hi, if_false]

theorem wref_mf (a : WAlloc) (ha : a.Sound) {w : Wr} {l : Log RErr} (h : WRef w l) (bs : Bytes) :
    (mallocFill a w bs).1 = .ok () ∧ WRef (mallocFill a w bs).2 (lMallocFill l bs) := by
  obtain ⟨hobs, hsim⟩ := sim_malloc a ha w l h.sim (bs.length : Int)
  have hfr := step_frame a ha w h.sim.inv (.malloc (bs.length : Int))
  have hnn : ¬ ((bs.length : Int) < 0) := by omega
  simp only [Wr.step] at hobs hsim hfr
  have hspec : (specStep l (.malloc (bs.length : Int))).1 = .region l.nextId bs.length := by
    simp only [specStep, h.err, hnn, if_false, Log.malloc, Int.toNat_natCast]
  rw [hspec] at hobs
  unfold mallocFill
  generalize hm : w.malloc a (bs.length : Int) = m at hobs hsim hfr
  obtain ⟨r, w1⟩ := m
  simp only [] at hobs hsim hfr
  cases r <;> simp [obsOfOut] at hobs
  rename_i p
  obtain ⟨hid, _⟩ := hobs
  simp only []
  refine ⟨by first | rfl | trivial, ?_⟩
  -- the fill step
  have hsim2 := (sim_fill a w1 _ hsim p.1 0 bs).2
  have hfr2 := step_frame a ha w1 hsim.inv (.fill p.1 0 bs)
  simp only [Wr.step] at hsim2 hfr2
  rw [hid] at hsim2 hfr2 ⊢
  have hl : (specStep (specStep l (.malloc (bs.length : Int))).2 (.fill l.nextId 0 bs)).2 = lMallocFill l bs := rfl
  rw [hl] at hsim2
  refine ⟨hsim2, ?_, by rw [hfr2.1, hfr.1]; exact h.dc, ?_, ?_⟩
  · rw [lMallocFill_eq l bs h.err]; exact h.err
  · intro k; rw [(hfr2.2 (by simp)).2.2, (hfr.2 (by simp)).2.2]; exact h.nofail k
  · -- the new region holds exactly `bs`, the older items are untouched
    rw [lMallocFill_eq l bs h.err]
    simp only []
    rw [concat_append]
    refine allSome_append ?_ ?_
    · rw [concat_congr l.store _ l.items (fun t ht => by
        have := h.sim.ids_lt t ht
        rw [if_neg (by omega)])]
      exact h.full
    · simp only [concat, List.map_cons, List.map_nil, Item.content, List.flatten_cons, List.flatten_nil,
        List.append_nil, if_true]
      exact allSome_map_some bs

/-- Flush of a live writer whose regions are all filled: nothing unflushed ⇒ the sink is not called;
    otherwise ONE call with exactly the log's bytes -/
theorem wref_flush (a : WAlloc) (ha : a.Sound) {w : Wr} {l : Log RErr} (h : WRef w l) :
    w.flush.1 = .ok () ∧
    w.flush.2.sink.calls.drop w.sink.calls.length =
      (if lenSum l.items = 0 then [] else [(unsome (concat l.store l.items), none)]) ∧
    WRef w.flush.2 (specStep l .flush).2 := by
  have hwe : w.err = none := by rw [← h.sim.err]; exact h.err
  obtain ⟨_, hsim⟩ := sim_flush a w l h.sim
  have hdc' := (step_frame a ha w h.sim.inv .flush).1
  simp only [Wr.step] at hsim hdc'
  have hwl : lenSum l.items = w.bufLen := h.sim.wlen
  cases hb : w.buf with
  | none =>
    have h0 : lenSum l.items = 0 := by rw [hwl]; simp [Wr.bufLen, hb]
    have hz : l.writtenLen = 0 := by rw [writtenLen_eq_lenSum]; exact h0
    rw [flush_nil w hwe hb] at hsim ⊢
    refine ⟨rfl, by simp [h0], ?_⟩
    simp only [specStep, Log.flush_zero l h.err hz] at hsim ⊢
    exact ⟨hsim, h.err, h.dc, h.nofail, by simp only [concat_nil]; exact allSome_nil⟩
  | some v =>
    have hpos : 0 < v.len := h.sim.nonempty h.dc v hb
    have hne : ¬ lenSum l.items = 0 := by rw [hwl]; simp [Wr.bufLen, hb]; omega
    have hz : ¬ l.writtenLen = 0 := by rw [writtenLen_eq_lenSum]; exact hne
    obtain ⟨heap1, _, _, _, _, _, _, hO⟩ := flush_some w h.sim.inv hwe v hb
    have hfl := hO h.dc (h.nofail _)
    have hlf : l.fail (l.calls + 1) = none := by rw [(h.sim.sink h.dc).1]; exact h.nofail _
    have hlog : w.logical = unsome (concat l.store l.items) := match_allSome h.sim.content h.full
    rw [hfl] at hsim ⊢
    refine ⟨rfl, by simp [Wr.flushedOk, hne, hlog], ?_⟩
    simp only [specStep, Log.flush_accepted l h.err hz hlf] at hsim ⊢
    exact ⟨hsim, h.err, h.dc, h.nofail, by simp only [concat_nil]; exact allSome_nil⟩

end Verif.Pools

namespace Verif.Pools
open Verif Verif.WLog

/-- one whole writer operation, any dirty memory: the log's step, the log's result -/
theorem wr_step_ref (d : Dirty) (w : Wr) (l : Log RErr) (o : WrOp) (h : WRef w l) :
    WRef (wrStep d w o).1 (wrAStep l o).1 ∧ (wrStep d w o).2.1 = (wrAStep l o).2 := by
  have ha := wAlloc_sound d w.next
  cases o with
  | wb bs =>
    obtain ⟨h1, h2⟩ := wref_wb _ ha h bs
    simp only [wrStep, wrAStep]
    exact ⟨h2, by rw [h1]⟩
  | mf bs =>
    obtain ⟨h1, h2⟩ := wref_mf _ ha h bs
    simp only [wrStep, wrAStep]
    exact ⟨h2, by rw [h1]⟩
  | i64 v =>
    obtain ⟨h1, h2⟩ := wref_mf _ ha h (be64 (ofInt 64 v))
    simp only [wrStep, wrAStep]
    exact ⟨h2, by rw [h1]⟩
  | bin bs =>
    obtain ⟨h1, h2⟩ := wref_mf _ ha h (be32 (bs.length % 4294967296))
    obtain ⟨h3, h4⟩ := wref_wb _ ha h2 bs
    simp only [wrStep, wrAStep]
    generalize hm : mallocFill (wAlloc d w.next) w (be32 (bs.length % 4294967296)) = m at h1 h2 h3 h4
    obtain ⟨r, w1⟩ := m
    simp only [] at h1 h2 h3 h4
    subst h1
    simp only []
    generalize hq : w1.writeBinary (wAlloc d w.next) bs = q at h3 h4
    obtain ⟨r2, w2⟩ := q
    simp only [] at h3 h4
    subst h3
    exact ⟨h4, rfl⟩
  | flush =>
    obtain ⟨h1, h2, h3⟩ := wref_flush _ ha h
    simp only [wrStep, wrAStep]
    exact ⟨h3, by rw [h1, h2]⟩

def goodDW : Good kDW where
  Abs := Log RErr
  ainit _ := Log.new (fun _ => none) []
  astep := wrAStep
  Ref := WRef
  Fresh _ := True                            -- not an object-pool type: `Obj = Unit`
  zero_fresh _ := trivial
  init_ref _ _ _ := wref_init
  step_ref d s x o h := wr_step_ref d s x o h
  release_fresh _ _ _ := trivial

def goodBW : Good kBW where
  Abs := Log RErr
  ainit _ := Log.new (fun _ => none) []
  astep := wrAStep
  Ref s l := ∃ w, s.w = some w ∧ WRef w l
  Fresh o := o.w = none                      -- a BufferWriter at rest holds no writer (its only field)
  zero_fresh _ := rfl
  init_ref _ _ _ := ⟨_, rfl, wref_init⟩
  step_ref d s x o h := by
    obtain ⟨w, hw, hr⟩ := h
    have := wr_step_ref d w x o hr
    simp only [kBW, hw]
    exact ⟨⟨_, rfl, this.1⟩, this.2⟩
  release_fresh _ _ _ := rfl

end Verif.Pools

/-
  Lemmas/WriterRange: the range in which the writer model mirrors the Go code.

  The model computes on `Nat` with an allocator that always succeeds.  The real code does not:
    * `mcache.Malloc` has 46 size classes: a request above 2^45 panics (`caches[i]`, index out of range);
    * `int` is 64 bit: `for ; maxSize < n; maxSize *= 2 {}` wraps to 0 and spins for n > 2^62.
  `InRange a H w ops`: in the state where each operation runs, running length + requested size ≤ H.
  `capsLe_run`: for 2·H ≤ L (L = 2^45 for mcache) and an allocator that stays within L on requests
  ≤ L, every buffer capacity and every stats entry of an in-range history is ≤ L — so every request
  the writer makes is ≤ L (no mcache index panic) and every integer it computes is < 2·L (no wrap).
-/
import Verif.Lemmas.WriterSim
namespace Verif
open WLog

/-- bytes an operation asks the writer for -/
def WOp.size : WOp → Nat
  | .malloc n => n.toNat
  | .wb bs => bs.length
  | _ => 0

/-- every operation runs in a state where running length + requested size ≤ H -/
def InRange (a : WAlloc) (H : Nat) : Wr → List WOp → Prop
  | _, [] => True
  | w, op :: ops => w.bufLen + op.size ≤ H ∧ InRange a H (w.step a op).2 ops

instance decInRange (a : WAlloc) (H : Nat) : ∀ (w : Wr) (ops : List WOp), Decidable (InRange a H w ops)
  | _, [] => isTrue trivial
  | w, op :: ops => @instDecidableAnd _ _ (Nat.decLe _ _) (decInRange a H (w.step a op).2 ops)

theorem InRange.take {a : WAlloc} {H : Nat} {w : Wr} {ops : List WOp} (h : InRange a H w ops) (k : Nat) :
    InRange a H w (ops.take k) := by
  induction ops generalizing w k with
  | nil => simpa using h
  | cons op ops ih =>
    cases k with
    | zero => exact trivial
    | succ k => exact ⟨h.1, ih h.2 k⟩

/-- the allocator's capacity policy stays within L on requests within L (mcache: L = 2^45) -/
def WAlloc.Within (a : WAlloc) (L : Nat) : Prop := ∀ c, c ≤ L → a.poolCap c ≤ L

/-- current capacity and remembered capacities are within L -/
def CapsLe (L : Nat) (w : Wr) : Prop := w.bufCap ≤ L ∧ ∀ x ∈ w.stats, x ≤ L

instance (L : Nat) (w : Wr) : Decidable (CapsLe L w) := by unfold CapsLe; exact inferInstance

theorem w_doubleUntil_le (fuel c n : Nat) : doubleUntil fuel c n = c ∨ doubleUntil fuel c n < 2 * n := by
  induction fuel generalizing c with
  | zero => exact Or.inl rfl
  | succ f ih =>
    simp only [doubleUntil]
    split
    · rcases ih (c * 2) with h | h
      · right; rw [h]; omega
      · exact Or.inr h
    · exact Or.inl rfl

theorem growCap_lt (fuel c ri n : Nat) (h : c < 2 * (ri + n)) : growCap fuel c ri n < 2 * (ri + n) := by
  induction fuel generalizing c with
  | zero => exact h
  | succ f ih =>
    simp only [growCap]
    split
    · exact ih (c * 2) (by omega)
    · exact h

theorem w_statsMax_le (l : List Nat) (L : Nat) (h : ∀ x ∈ l, x ≤ L) : statsMax l ≤ L := by
  have aux : ∀ (l : List Nat) (acc : Nat), acc ≤ L → (∀ x ∈ l, x ≤ L) → l.foldl max acc ≤ L := by
    intro l
    induction l with
    | nil => intro acc ha _; exact ha
    | cons x xs ih =>
      intro acc ha hx
      exact ih (max acc x) (Nat.max_le.mpr ⟨ha, hx x (List.mem_cons_self ..)⟩)
        (fun y hy => hx y (List.mem_cons_of_mem _ hy))
  exact aux l 0 (Nat.zero_le _) h

theorem pow2ceilAux_le (fuel i k n : Nat) (hik : i ≤ k) (hn : n ≤ 2 ^ k) :
    pow2ceilAux fuel (2 ^ i) n ≤ 2 ^ k := by
  induction fuel generalizing i with
  | zero => exact Nat.pow_le_pow_right (by omega) hik
  | succ f ih =>
    simp only [pow2ceilAux]
    split
    · exact Nat.pow_le_pow_right (by omega) hik
    · rename_i hlt
      have hi : i < k := by
        rcases Nat.lt_or_ge i k with h | h
        · exact h
        · have := Nat.pow_le_pow_right (n := 2) (by omega) h; omega
      rw [← Nat.pow_succ]
      exact ih (i + 1) hi

/-- mcache's power-of-two rounding stays within 2^k on requests within 2^k -/
theorem pow2_policy_within (d : Nat → Nat → UInt8) (k : Nat) :
    (⟨fun c => max c (pow2ceil c), d⟩ : WAlloc).Within (2 ^ k) := by
  intro c hc
  exact Nat.max_le.mpr ⟨hc, pow2ceilAux_le 64 0 k c (Nat.zero_le _) hc⟩

theorem allocBuf_cap (a : WAlloc) (w : Wr) (len c : Nat) :
    (w.allocBuf a len c).bufCap = (if w.disableCache then c else a.poolCap c) ∧
    (w.allocBuf a len c).stats = w.stats := ⟨rfl, rfl⟩

theorem policy_le (a : WAlloc) (L : Nat) (hb : a.Within L) (dc : Bool) (c : Nat) (hc : c ≤ L) :
    (if dc then c else a.poolCap c) ≤ L := by
  split
  · exact hc
  · exact hb c hc

theorem firstAlloc_caps (a : WAlloc) (L : Nat) (hb : a.Within L) (hd : Facts.defaultBufSize ≤ L)
    (w : Wr) (hc : CapsLe L w) (n : Nat) (hr : 2 * n ≤ L) : CapsLe L (w.firstAlloc a n) := by
  refine ⟨?_, hc.2⟩
  show (if w.disableCache then _ else a.poolCap _) ≤ L
  apply policy_le a L hb
  have hm1 : (if statsMax w.stats < Facts.defaultBufSize then Facts.defaultBufSize else statsMax w.stats) ≤ L := by
    split
    · exact hd
    · exact w_statsMax_le _ _ hc.2
  rcases w_doubleUntil_le n (if statsMax w.stats < Facts.defaultBufSize then Facts.defaultBufSize else statsMax w.stats) n with e | e
  · rw [e]; exact hm1
  · omega

theorem grow_caps (a : WAlloc) (L : Nat) (hb : a.Within L) (w : Wr) (hs : ∀ x ∈ w.stats, x ≤ L)
    (v : WView) (n : Nat) (hgt : n > v.cap - v.len) (hr : 2 * (v.len + n) ≤ L) :
    CapsLe L (w.grow a v n) := by
  refine ⟨?_, hs⟩
  show (if w.disableCache then _ else a.poolCap _) ≤ L
  apply policy_le a L hb
  have := growCap_lt n (v.cap * 2) v.len n (by omega)
  omega

/-- acquire keeps the capacities within L when 2·(length + n) ≤ L -/
theorem acquire_caps (a : WAlloc) (L : Nat) (hb : a.Within L) (hd : Facts.defaultBufSize ≤ L)
    (w : Wr) (hc : CapsLe L w) (n : Nat) (hr : 2 * (w.bufLen + n) ≤ L) (w1 : Wr)
    (h : w.acquire a n = some w1) : CapsLe L w1 := by
  unfold Wr.acquire at h
  by_cases hfast : w.bufLen + n ≤ w.bufCap
  · rw [if_pos hfast] at h; injection h with h; subst h; exact hc
  · rw [if_neg hfast] at h
    unfold Wr.acquireSlow at h
    -- the state after the first `if`
    have key : ∀ w' : Wr, CapsLe L w' → (∀ v, w'.buf = some v → v.len ≤ w.bufLen) →
        (match w'.buf with
          | none => if n > 0 then none else some w'
          | some v => if n > v.cap - v.len then (if v.cap = 0 then none else some (w'.grow a v n)) else some w')
          = some w1 → CapsLe L w1 := by
      intro w' hc' hl' h'
      cases hbv : w'.buf with
      | none =>
        rw [hbv] at h'
        simp only at h'
        by_cases hn : n > 0
        · rw [if_pos hn] at h'; cases h'
        · rw [if_neg hn] at h'; injection h' with h'; subst h'; exact hc'
      | some v =>
        rw [hbv] at h'
        simp only at h'
        by_cases hgt : n > v.cap - v.len
        · rw [if_pos hgt] at h'
          by_cases hz : v.cap = 0
          · rw [if_pos hz] at h'; cases h'
          · rw [if_neg hz] at h'; injection h' with h'; subst h'
            have := hl' v hbv
            exact grow_caps a L hb w' hc'.2 v n hgt (by omega)
        · rw [if_neg hgt] at h'; injection h' with h'; subst h'; exact hc'
    by_cases hz : w.bufCap = 0
    · rw [if_pos hz] at h
      refine key _ (firstAlloc_caps a L hb hd w hc n (by omega)) ?_ h
      intro v hv
      have : (w.firstAlloc a n).buf = some ⟨w.next, 0, _⟩ := rfl
      rw [this] at hv; injection hv with hv; subst hv; exact Nat.zero_le _
    · rw [if_neg hz] at h
      refine key w hc ?_ h
      intro v hv; simp [Wr.bufLen, hv]


theorem capsLe_of_eq {L : Nat} {w w' : Wr} (hc : CapsLe L w) (h1 : w'.bufCap = w.bufCap)
    (h2 : w'.stats = w.stats) : CapsLe L w' := by
  unfold CapsLe; rw [h1, h2]; exact hc

/-- one operation keeps the capacities within L when 2·(running length + requested size) ≤ L -/
theorem capsLe_step (a : WAlloc) (L : Nat) (hb : a.Within L) (hd : Facts.defaultBufSize ≤ L)
    (w : Wr) (hw : WInv w) (hc : CapsLe L w) (op : WOp) (hr : 2 * (w.bufLen + op.size) ≤ L) :
    CapsLe L (w.step a op).2 := by
  cases op with
  | len => exact hc
  | fill rid off bs =>
    simp only [Wr.step, Wr.fill]
    split
    · exact hc
    · split
      · exact hc
      · exact capsLe_of_eq hc rfl rfl
  | malloc n =>
    simp only [Wr.step, Wr.malloc]
    cases he : w.err with
    | some e => exact hc
    | none =>
      simp only
      by_cases hn : n < 0
      · rw [if_pos hn]; exact hc
      · rw [if_neg hn]
        cases hacq : w.acquire a n.toNat with
        | none => exact hc
        | some w1 =>
          have hc1 := acquire_caps a L hb hd w hc n.toNat hr w1 hacq
          simp only
          cases hb1 : w1.buf with
          | none =>
            simp only
            split
            · exact hc1
            · exact capsLe_of_eq hc1 (by simp [Wr.bufCap, hb1]) rfl
          | some v =>
            simp only
            split
            · exact hc1
            · exact capsLe_of_eq hc1 (by simp [Wr.bufCap, hb1]) rfl
  | wb bs =>
    simp only [Wr.step, Wr.writeBinary]
    cases he : w.err with
    | some e => exact hc
    | none =>
      simp only
      cases hacq : w.acquire a bs.length with
      | none => exact hc
      | some w1 =>
        have hc1 := acquire_caps a L hb hd w hc bs.length hr w1 hacq
        simp only
        cases hb1 : w1.buf with
        | none => exact hc1
        | some v => exact capsLe_of_eq hc1 (by simp [Wr.bufCap, hb1]) rfl
  | flush =>
    simp only [Wr.step]
    cases he : w.err with
    | some e =>
      have : w.flush = (.err e, w) := by simp [Wr.flush, he]
      rw [this]; exact hc
    | none =>
      cases hbv : w.buf with
      | none => rw [flush_nil w he hbv]; exact capsLe_of_eq hc (by simp [Wr.bufCap, hbv]) rfl
      | some v =>
        have hvc : v.cap ≤ L := by have := hc.1; simpa [Wr.bufCap, hbv] using this
        have hok : ∀ (hp : Nat → Bytes) (t : Option WView), CapsLe L (w.flushedOk hp v t) := fun hp t => by
          refine ⟨by simp [Wr.flushedOk, Wr.bufCap], ?_⟩
          intro x hx
          simp only [Wr.flushedOk, listSet] at hx
          rcases List.mem_or_eq_of_mem_set hx with h | h
          · exact hc.2 x h
          · rw [h]; exact hvc
        obtain ⟨heap1, _, _, _, _, hT, hE, hO⟩ := flush_some w hw he v hbv
        cases hdc : w.disableCache with
        | true => rw [hT hdc]; exact hok _ _
        | false =>
          cases hf : w.sink.fail (w.sink.calls.length + 1) with
          | some e => rw [hE hdc e hf]; exact capsLe_of_eq hc (by simp [Wr.flushedErr, Wr.bufCap]) rfl
          | none => rw [hO hdc hf]; exact hok _ _

/-- every in-range history keeps every capacity the writer ever holds or remembers within L -/
theorem capsLe_run (a : WAlloc) (ha : a.Sound) (L H : Nat) (hb : a.Within L) (hd : Facts.defaultBufSize ≤ L)
    (hH : 2 * H ≤ L) (w : Wr) (l : Log RErr) (h : WSim w l) (hc : CapsLe L w) (ops : List WOp)
    (hr : InRange a H w ops) : CapsLe L (w.run a ops).2 := by
  induction ops generalizing w l with
  | nil => exact hc
  | cons op ops ih =>
    simp only [Wr.run]
    exact ih _ _ (sim_step a ha w l h op).2
      (capsLe_step a L hb hd w h.inv hc op (by have := hr.1; omega)) hr.2

end Verif

/- Lemmas/Unsafex: reads/writes of the tiny heap; the conversions on well-formed values. -/
import Verif.Model.Unsafex
namespace Verif.Usx

theorem read_zero (h : Heap) (p : Option Ptr) : h.read p 0 = some [] := by simp [Heap.read]

theorem read_length {h : Heap} {p : Option Ptr} {n : Nat} {c : Bytes} (hr : h.read p n = some c) :
    c.length = n := by
  unfold Heap.read at hr
  split at hr
  · simp_all
  · split at hr
    · simp at hr
    · split at hr
      · simp at hr
      · split at hr
        · rename_i o _ hle
          have hc := (Option.some.inj hr).symm
          subst hc
          simp only [List.length_take, List.length_drop]; omega
        · simp at hr

/-- a read only depends on the object it points into -/
theorem read_congr {h h' : Heap} {p : Ptr} (n : Nat) (hobj : h'[p.obj]? = h[p.obj]?) :
    h'.read (some p) n = h.read (some p) n := by
  simp only [Heap.read, hobj]

/-- a well-formed slice can be read -/
theorem Slice.content_isSome {h : Heap} {b : Slice} (hw : b.WF h) : ∃ c, b.content h = some c := by
  obtain ⟨hle, hp⟩ := hw
  unfold Slice.content Heap.read
  by_cases h0 : b.len = 0
  · simp [h0]
  · cases hb : b.ptr with
    | none => rw [hb] at hp; simp only at hp; omega
    | some p =>
      rw [hb] at hp
      obtain ⟨o, ho, hr⟩ := hp
      have : p.off + b.len ≤ o.length := by omega
      simp [h0, ho, this]

/-- a well-formed string can be read -/
theorem GoStr.content_isSome {h : Heap} {s : GoStr} (hw : s.WF h) : ∃ c, s.content h = some c := by
  unfold GoStr.content Heap.read
  rcases hw with h0 | ⟨p, o, hp, ho, hr⟩
  · simp [h0]
  · by_cases h0 : s.len = 0
    · simp [h0]
    · simp [h0, hp, ho, hr]

/-- the string of a well-formed non-empty string points into an existing object -/
theorem GoStr.obj_lt {h : Heap} {s : GoStr} (hw : s.WF h) (hn : s.len ≠ 0) :
    ∃ p, s.ptr = some p ∧ p.obj < h.length := by
  rcases hw with h0 | ⟨p, o, hp, ho, _⟩
  · exact absurd h0 hn
  · refine ⟨p, hp, ?_⟩
    rcases Nat.lt_or_ge p.obj h.length with hlt | hge
    · exact hlt
    · rw [List.getElem?_eq_none hge] at ho; simp at ho

theorem binaryToString_ok {h : Heap} {b : Slice} (hw : b.WF h) (u : Ptr) :
    ∃ s, binaryToString b u = .ok s ∧ s.len = b.len ∧ (b.len ≠ 0 → s.ptr = b.ptr) := by
  obtain ⟨hle, hp⟩ := hw
  unfold binaryToString unsafeString sliceData
  by_cases h0 : b.len = 0
  · refine ⟨⟨sliceData b u, b.len⟩, ?_, rfl, fun hn => absurd h0 hn⟩
    simp [h0, sliceData]
  · have hc : b.cap > 0 := by omega
    cases hb : b.ptr with
    | none => rw [hb] at hp; simp only at hp; omega
    | some p =>
      refine ⟨⟨some p, b.len⟩, ?_, rfl, fun _ => rfl⟩
      simp [hc]

theorem stringToBinary_ok {h : Heap} {s : GoStr} (hw : s.WF h) (u : Option Ptr) :
    ∃ b, stringToBinary s u = .ok b ∧ b.len = s.len ∧ b.cap = s.len ∧ (s.len ≠ 0 → b.ptr = s.ptr) := by
  unfold stringToBinary unsafeSlice stringData
  by_cases h0 : s.len = 0
  · cases u with
    | none => exact ⟨⟨none, 0, 0⟩, by simp [h0], h0.symm, h0.symm, fun hn => absurd h0 hn⟩
    | some p => exact ⟨⟨some p, s.len, s.len⟩, by simp [h0], rfl, rfl, fun hn => absurd h0 hn⟩
  · obtain ⟨p, hp, _⟩ := GoStr.obj_lt hw h0
    exact ⟨⟨some p, s.len, s.len⟩, by simp [h0, hp], rfl, rfl, fun _ => hp.symm⟩

end Verif.Usx

/-
  Lemmas/StrMapLoad: what LoadFromSlice / makeHashtable build —
  the key bytes are readable through (off, sz), the item list is a slot-sorted permutation of the
  loaded pairs, the table is the first-index table; and lookups by key in such a list agree with
  `List.lookup` in the loaded pairs when the keys are pairwise distinct.
-/
import Verif.Lemmas.StrMapSlots
import Verif.Lemmas.StrMapGet
namespace Verif.SMap
open Verif

variable {V : Type}

/-! ## lookup in a list of (key?, value) pairs -/

def lookupO : List (Option Bytes × V) → Bytes → Option V
  | [], _ => none
  | p :: l, s => if p.1 = some s then some p.2 else lookupO l s

/-- the abstract content of an item: its key bytes (if readable) and its value -/
def kvOf (data : Bytes) (e : Item V) : Option Bytes × V := (keyAt data e, e.v)

theorem findKey_eq_lookupO (data : Bytes) (l : List (Item V)) (s : Bytes) :
    findKey data l s = lookupO (l.map (kvOf data)) s := by
  induction l with
  | nil => rfl
  | cons e l ih => simp only [findKey, List.map_cons, lookupO, kvOf, ih]

theorem lookupO_some_map (kvs : List (Bytes × V)) (s : Bytes) :
    lookupO (kvs.map (fun kv => (some kv.1, kv.2))) s = List.lookup s kvs := by
  induction kvs with
  | nil => rfl
  | cons kv kvs ih =>
    obtain ⟨k, v⟩ := kv
    simp only [List.map_cons, lookupO, List.lookup]
    by_cases hk : k = s
    · subst hk; simp
    · have h1 : ¬ (some k = some s) := by intro h; injection h with h; exact hk h
      have h2 : (s == k) = false := by
        rw [beq_eq_false_iff_ne]; exact fun h => hk h.symm
      simp only [h1, if_false, h2, ih]

theorem lookupO_some_iff {l : List (Option Bytes × V)} (hd : l.Pairwise (fun a b => a.1 ≠ b.1))
    (s : Bytes) (v : V) : lookupO l s = some v ↔ (some s, v) ∈ l := by
  induction l with
  | nil => simp [lookupO]
  | cons p l ih =>
    rw [List.pairwise_cons] at hd
    obtain ⟨hp, hd⟩ := hd
    unfold lookupO
    by_cases hk : p.1 = some s
    · simp only [hk, if_true]
      constructor
      · intro h; injection h with h; subst h
        rw [← hk]; exact List.mem_cons_self
      · intro h
        rcases List.mem_cons.mp h with h | h
        · rw [← h]
        · exact absurd hk.symm (fun h' => hp _ h (by simpa using h'.symm))
    · simp only [hk, if_false]
      rw [ih hd]
      constructor
      · exact fun h => List.mem_cons_of_mem _ h
      · intro h
        rcases List.mem_cons.mp h with h | h
        · exact absurd (by rw [← h]) hk
        · exact h

theorem lookupO_perm {l1 l2 : List (Option Bytes × V)} (hp : l1.Perm l2)
    (hd : l2.Pairwise (fun a b => a.1 ≠ b.1)) (s : Bytes) : lookupO l1 s = lookupO l2 s := by
  have hd1 : l1.Pairwise (fun a b => a.1 ≠ b.1) :=
    hd.perm hp.symm (fun h => fun h' => h h'.symm)
  have key : ∀ v, lookupO l1 s = some v ↔ lookupO l2 s = some v := by
    intro v
    rw [lookupO_some_iff hd1, lookupO_some_iff hd]
    exact hp.mem_iff
  cases h1 : lookupO l1 s with
  | some v => exact ((key v).mp h1).symm
  | none =>
    cases h2 : lookupO l2 s with
    | none => rfl
    | some v => rw [(key v).mpr h2] at h1; cases h1

/-! ## the append loop -/

theorem keyAt_mid (pre k post : Bytes) (e : Item V) (ho : e.off = pre.length) (hs : e.sz = k.length) :
    keyAt (pre ++ k ++ post) e = some k := by
  unfold keyAt
  have : e.off + e.sz ≤ (pre ++ k ++ post).length := by simp; omega
  simp only [this, if_true]
  rw [ho, hs, List.append_assoc, List.drop_left, List.take_left]

/-- the loop appends every key's bytes to data and one item per pair whose (off, sz) read the key
    back (keys are at most 2^32-1 bytes, so `uint32(len(k))` is exact), whose slot is the truncated
    hash, and whose value is the pair's -/
theorem appendLoop_spec (h : Bytes → Nat) (kvs : List (Bytes × V)) (off : Nat) (pre post : Bytes)
    (hkeys : ∀ kv ∈ kvs, kv.1.length ≤ maxU32) (hoff : pre.length = off) :
    (appendLoop h kvs off).2.map
        (fun e => (keyAt (pre ++ (appendLoop h kvs off).1 ++ post) e, e.slot, e.v)) =
      kvs.map (fun kv => (some kv.1, h kv.1 % two32, kv.2)) := by
  induction kvs generalizing off pre with
  | nil => simp [appendLoop]
  | cons kv kvs ih =>
    have hrest : ∀ x ∈ kvs, x.1.length ≤ maxU32 := fun x hx => hkeys x (List.mem_cons_of_mem _ hx)
    have ih3 := ih (off + kv.1.length) (pre ++ kv.1) hrest (by simp [hoff])
    simp only [appendLoop, List.map_cons]
    congr 1
    · have hsz : kv.1.length % two32 = kv.1.length := Nat.mod_eq_of_lt (by
        have := hkeys kv List.mem_cons_self; unfold maxU32 at this; unfold two32; omega)
      have := keyAt_mid (V := V) pre kv.1 ((appendLoop h kvs (off + kv.1.length)).1 ++ post)
        ⟨off, kv.1.length % two32, h kv.1 % two32, kv.2⟩ hoff.symm hsz
      simp only [List.append_assoc] at this ⊢
      rw [this]
    · rw [← ih3]
      simp only [List.append_assoc]

theorem anyKeyTooLarge_false {kk : List Bytes} (hk : ∀ k ∈ kk, k.length ≤ maxU32) :
    anyKeyTooLarge kk = false := by
  unfold anyKeyTooLarge
  rw [List.any_eq_false]
  intro k hkm; have := hk k hkm; simp; omega

theorem anyKeyTooLarge_true {kk : List Bytes} {k : Bytes} (hm : k ∈ kk) (hk : k.length > maxU32) :
    anyKeyTooLarge kk = true := by
  unfold anyKeyTooLarge
  rw [List.any_eq_true]
  exact ⟨k, hm, by simpa using hk⟩

/-! ## makeHashtable -/

theorem keyAt_slot_irrel (data : Bytes) (e : Item V) (x : Nat) :
    keyAt data { e with slot := x } = keyAt data e := rfl

/-- the post-state of a successful load -/
structure Loaded (h : Bytes → Nat) (kvs : List (Bytes × V)) (m : StrMap V) : Prop where
  slots_ok : calcSlots kvs.length = .ok m.ht.size
  len : m.items.length = kvs.length
  tab : ∀ t, t < m.ht.size → m.ht[t]? = some (enc (idxOf m.items t))
  sorted : m.items.Pairwise (fun a b => a.slot ≤ b.slot)
  perm : (m.items.map (fun e => (keyAt m.data e, e.slot, e.v))).Perm
           (kvs.map (fun kv => (some kv.1, h kv.1 % two32 % m.ht.size, kv.2)))

theorem makeHashtable_spec (h : Bytes → Nat) (sorter : List (Item V) → List (Item V))
    (hsort : IsSlotSort sorter) (m : StrMap V) (kvs : List (Bytes × V))
    (hn : CountOk kvs.length)
    (hitems : m.items.map (fun e => (keyAt m.data e, e.slot, e.v)) =
      kvs.map (fun kv => (some kv.1, h kv.1 % two32, kv.2))) :
    ∃ m', makeHashtable sorter m = (.ok (), m') ∧ m'.data = m.data ∧ Loaded h kvs m' := by
  have hlen : m.items.length = kvs.length := by
    have := congrArg List.length hitems; simpa using this
  obtain ⟨slots, hslots⟩ := (calcSlots_ok_iff kvs.length).mpr hn
  obtain ⟨hpos, hlt⟩ := calcSlots_range hslots
  have hmod : slots % two32 = slots := Nat.mod_eq_of_lt (by unfold two32; omega)
  -- size of the re-sliced / fresh table
  have hsz : (if (m.ht ++ m.spare).size < slots then Array.replicate slots (0 : Int)
              else (m.ht ++ m.spare).extract 0 slots).size = slots := by
    split
    · simp
    · rw [Array.size_extract]; omega
  let items1 := m.items.map (fun e => { e with slot := e.slot % slots })
  have hperm := (hsort items1).1
  have hsorted := (hsort items1).2
  have hslotlt : ∀ e ∈ sorter items1, e.slot < slots := by
    intro e he
    have he1 : e ∈ items1 := hperm.mem_iff.mp he
    obtain ⟨e0, _, rfl⟩ := List.mem_map.mp he1
    exact Nat.mod_lt _ hpos
  have hlen2 : (sorter items1).length = kvs.length := by
    rw [hperm.length_eq]; simp [items1, hlen]
  obtain ⟨ht2, hfill, hsize2, htab⟩ := fillFirst_fresh (sorter items1) slots hslotlt (by have := hn.lt; omega)
  refine ⟨⟨m.data, sorter items1, ht2,
            if (m.ht ++ m.spare).size < slots then #[]
            else (m.ht ++ m.spare).extract slots (m.ht ++ m.spare).size⟩, ?_, rfl, ?_⟩
  · unfold makeHashtable
    rw [hlen, hslots]
    have hne0 : ¬ (slots = 0) := by omega
    have hfill' := hfill
    simp only [items1] at hfill'
    simp only [hmod, hsz, hne0, if_false, hfill']
    rfl
  · refine ⟨by rw [hsize2]; exact hslots, hlen2, by rw [hsize2]; exact htab, hsorted, ?_⟩
    show ((sorter items1).map (fun e => (keyAt m.data e, e.slot, e.v))).Perm _
    refine (hperm.map _).trans ?_
    rw [hsize2]
    have : items1.map (fun e => (keyAt m.data e, e.slot, e.v)) =
        kvs.map (fun kv => (some kv.1, h kv.1 % two32 % slots, kv.2)) := by
      have h2 := congrArg (List.map (fun (t : Option Bytes × Nat × V) => (t.1, t.2.1 % slots, t.2.2))) hitems
      simp only [List.map_map] at h2
      simp only [items1, List.map_map]
      exact h2
    rw [this]

/-! ## LoadFromSlice -/

theorem zip_fst_snd (kvs : List (Bytes × V)) : (kvs.map (·.1)).zip (kvs.map (·.2)) = kvs := by
  induction kvs with
  | nil => rfl
  | cons kv kvs ih => simp [ih]

theorem loadFromSlice_spec (h : Bytes → Nat) (sorter : List (Item V) → List (Item V))
    (hsort : IsSlotSort sorter) (m : StrMap V) (kvs : List (Bytes × V))
    (hn : CountOk kvs.length) (hkeys : ∀ kv ∈ kvs, kv.1.length ≤ maxU32) :
    ∃ m', loadFromSlice h sorter m (kvs.map (·.1)) (kvs.map (·.2)) = (.ok (), m') ∧ Loaded h kvs m' := by
  have hzip := zip_fst_snd kvs
  have h3 := appendLoop_spec h kvs 0 [] [] hkeys rfl
  have hbig : anyKeyTooLarge (kvs.map (·.1)) = false := anyKeyTooLarge_false (by
    intro k hk; obtain ⟨kv, hkv, rfl⟩ := List.mem_map.mp hk; exact hkeys kv hkv)
  unfold loadFromSlice
  have hl : ¬ ((kvs.map (·.1)).length ≠ (kvs.map (·.2)).length) := by simp
  simp only [hl, if_false, hzip, hbig, Bool.false_eq_true]
  obtain ⟨m', hm, _, hL⟩ := makeHashtable_spec h sorter hsort
    ⟨(appendLoop h kvs 0).1, (appendLoop h kvs 0).2, #[], m.ht ++ m.spare⟩ kvs hn
    (by simpa using h3)
  exact ⟨m', hm, hL⟩

/-- Get on a loaded map is `List.lookup` in the loaded pairs -/
theorem Loaded.get_eq {h : Bytes → Nat} {kvs : List (Bytes × V)} {m : StrMap V}
    (hL : Loaded h kvs m) (hd : (kvs.map (·.1)).Nodup) (s : Bytes) :
    get h m s = .ok (List.lookup s kvs) := by
  obtain ⟨hpos, hlt⟩ := calcSlots_range hL.slots_ok
  have hcons : Consistent h m.ht.size m.data m.items := by
    intro e he
    have hmem : (keyAt m.data e, e.slot, e.v) ∈
        kvs.map (fun kv => (some kv.1, h kv.1 % two32 % m.ht.size, kv.2)) :=
      hL.perm.mem_iff.mp (List.mem_map.mpr ⟨e, he, rfl⟩)
    obtain ⟨kv, _, hkv⟩ := List.mem_map.mp hmem
    injection hkv with h1 h2
    injection h2 with h2 _
    exact ⟨kv.1, h1.symm, h2.symm⟩
  have hlen : m.items.length < 2147483648 := by
    rw [hL.len]
    exact ((calcSlots_ok_iff kvs.length).mp ⟨_, hL.slots_ok⟩).lt
  rw [get_spec h m s hpos (by unfold two32; omega) hL.tab hL.sorted hcons hlen]
  congr 1
  rw [findKey_eq_lookupO, ← lookupO_some_map]
  apply lookupO_perm
  · have := hL.perm.map (fun (t : Option Bytes × Nat × V) => (t.1, t.2.2))
    show (m.items.map (fun x => (keyAt m.data x, x.v))).Perm _
    simpa [List.map_map, Function.comp_def] using this
  · rw [List.pairwise_map]
    have : (kvs.map (·.1)).Pairwise (· ≠ ·) := hd
    rw [List.pairwise_map] at this
    refine this.imp ?_
    intro a b hab h'
    injection h' with h'
    exact hab h'

end Verif.SMap

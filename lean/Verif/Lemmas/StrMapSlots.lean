/-
  Lemmas/StrMapSlots: calcHashtableSlots (utils.go) — never zero, below 2^31, no panic below the
  documented limit, bigger than n ("a prime bigger than n").
-/
import Verif.Model.StrMap
namespace Verif.SMap
open Verif

theorem bitLen_lt_iff (n k : Nat) : bitLen n < k + 1 ↔ n < 2 ^ k := by
  unfold bitLen
  split
  · subst n; simp; exact Nat.pos_of_ne_zero (by simp)
  · rename_i h0
    rw [Nat.add_lt_add_iff_right]
    exact Nat.log2_lt h0

theorem bitLen_le_iff (n k : Nat) : k + 1 ≤ bitLen n ↔ 2 ^ k ≤ n := by
  have := bitLen_lt_iff n k
  omega

/-- every entry of the prime table is in [1, 2^31) -/
theorem primes_range : ∀ p ∈ Facts.bits2primes, 0 < p ∧ p < 2147483648 := by decide

/-- entry b is at least 3/4 of 2^b (so it exceeds every n with ⌊4n/3⌋ < 2^b) -/
theorem primes_big : ∀ b, b < Facts.bits2primes.length →
    3 * 2 ^ b ≤ 4 * (Facts.bits2primes[b]?.getD 0) := by decide

theorem calcSlots_cases (n : Nat) :
    (Facts.bits2primes.length ≤ bitLen (scaled n) ∧ calcSlots n = .panic "too many items") ∨
    (∃ p, bitLen (scaled n) < Facts.bits2primes.length ∧
      Facts.bits2primes[bitLen (scaled n)]? = some p ∧ calcSlots n = .ok p.toNat) := by
  unfold calcSlots
  by_cases hb : Facts.bits2primes.length ≤ bitLen (scaled n)
  · left; simp [hb]
  · right
    have hlt : bitLen (scaled n) < Facts.bits2primes.length := by omega
    have hs : Facts.bits2primes[bitLen (scaled n)]? = some (Facts.bits2primes[bitLen (scaled n)]) :=
      List.getElem?_eq_getElem hlt
    refine ⟨_, hlt, hs, ?_⟩
    simp only [ge_iff_le, hb, if_false, hs]

/-- calcHashtableSlots never returns 0 and fits int32 -/
theorem calcSlots_range {n s : Nat} (h : calcSlots n = .ok s) : 0 < s ∧ s < 2147483648 := by
  rcases calcSlots_cases n with ⟨_, hp⟩ | ⟨p, _, hs, hp⟩
  · rw [hp] at h; cases h
  · rw [hp] at h
    have hmem : p ∈ Facts.bits2primes := List.mem_of_getElem? hs
    have := primes_range p hmem
    injection h with h
    omega

/-! ## the load factor — only these two facts about the regenerated constants are used -/

/-- loadfactor > 0 -/
theorem lf_pos : 0 < Facts.loadfactorNum := by decide
/-- loadfactor ≤ 1 ("always < 1" in the source; = 1 would do for everything but `calcSlots_gt`) -/
theorem lf_le : Facts.loadfactorNum ≤ Facts.loadfactorDen := by decide

/-- n / loadfactor ≥ n -/
theorem le_scaled (n : Nat) : n ≤ scaled n := by
  unfold scaled
  rw [Nat.le_div_iff_mul_le lf_pos]
  exact Nat.mul_le_mul_left n lf_le

/-- the item counts the code accepts: ⌊n / loadfactor⌋ needs fewer than 32 bits -/
def CountOk (n : Nat) : Prop := scaled n < 2147483648

instance (n : Nat) : Decidable (CountOk n) := by unfold CountOk; infer_instance

theorem CountOk.lt {n : Nat} (h : CountOk n) : n < 2147483648 :=
  Nat.lt_of_le_of_lt (le_scaled n) h

/-- no panic iff ⌊n / loadfactor⌋ < 2^31 (for whatever the load factor is) -/
theorem calcSlots_ok_iff (n : Nat) : (∃ s, calcSlots n = .ok s) ↔ CountOk n := by
  have hlen : Facts.bits2primes.length = 31 + 1 := by decide
  unfold CountOk
  rcases calcSlots_cases n with ⟨hb, hp⟩ | ⟨p, hb, _, hp⟩
  · rw [hlen, bitLen_le_iff] at hb
    constructor
    · rintro ⟨s, hs⟩; rw [hp] at hs; cases hs
    · intro hn; omega
  · rw [hlen, bitLen_lt_iff] at hb
    exact ⟨fun _ => hb, fun _ => ⟨_, hp⟩⟩

theorem calcSlots_panic_iff (n : Nat) : calcSlots n = .panic "too many items" ↔ ¬ CountOk n := by
  have h := calcSlots_ok_iff n
  rcases calcSlots_cases n with ⟨_, hp⟩ | ⟨p, _, _, hp⟩
  · constructor
    · intro _ hn
      obtain ⟨s, hs⟩ := h.mpr hn
      rw [hp] at hs; cases hs
    · intro _; exact hp
  · have : CountOk n := h.mp ⟨_, hp⟩
    constructor
    · intro h2; rw [hp] at h2; cases h2
    · intro h2; exact absurd this h2

/-- a sufficient count that does not mention the exact load factor: below 2^30 items whenever the
    load factor is at least 1/2 -/
theorem countOk_of_lt_2pow30 (hhalf : Facts.loadfactorDen ≤ 2 * Facts.loadfactorNum) {n : Nat}
    (hn : n < 1073741824) : CountOk n := by
  unfold CountOk scaled
  rw [Nat.div_lt_iff_lt_mul lf_pos]
  calc n * Facts.loadfactorDen ≤ n * (2 * Facts.loadfactorNum) := Nat.mul_le_mul_left n hhalf
    _ = (2 * n) * Facts.loadfactorNum := by rw [Nat.mul_comm 2 n, Nat.mul_assoc]
    _ < 2147483648 * Facts.loadfactorNum := Nat.mul_lt_mul_of_pos_right (by omega) lf_pos

/-- the exact threshold for the load factor as it is today (3/4): 3·2^29 items -/
theorem countOk_iff_current (h3 : Facts.loadfactorNum = 3) (h4 : Facts.loadfactorDen = 4) (n : Nat) :
    CountOk n ↔ n < 1610612736 := by
  unfold CountOk scaled
  rw [h3, h4]; omega

/-- "a prime bigger than n": holds whenever every table entry b is at least loadfactor·2^b (the
    hypothesis ties the hand-written prime table to the load factor; see `primes_big` for today's) -/
theorem calcSlots_gt_of_table
    (htab : ∀ b, b < Facts.bits2primes.length →
      Facts.loadfactorNum * 2 ^ b ≤ Facts.loadfactorDen * (Facts.bits2primes[b]?.getD 0).toNat)
    {n s : Nat} (h : calcSlots n = .ok s) : n < s := by
  rcases calcSlots_cases n with ⟨_, hp⟩ | ⟨p, hb, hs, hp⟩
  · rw [hp] at h; cases h
  · rw [hp] at h; injection h with h
    have hbig := htab _ hb
    rw [hs] at hbig; simp only [Option.getD_some] at hbig
    subst h
    have hlt : scaled n < 2 ^ bitLen (scaled n) :=
      (bitLen_lt_iff (scaled n) (bitLen (scaled n))).mp (Nat.lt_succ_self _)
    -- n·Den < (scaled n + 1)·Num ≤ 2^b·Num ≤ Den·p
    have h1 : n * Facts.loadfactorDen < (scaled n + 1) * Facts.loadfactorNum := by
      unfold scaled
      exact Nat.lt_mul_of_div_lt (Nat.lt_succ_self _) lf_pos
    have h2 : (scaled n + 1) * Facts.loadfactorNum ≤ 2 ^ bitLen (scaled n) * Facts.loadfactorNum :=
      Nat.mul_le_mul_right _ hlt
    have h3 : n * Facts.loadfactorDen < p.toNat * Facts.loadfactorDen := by
      rw [Nat.mul_comm p.toNat]; rw [Nat.mul_comm _ (2 ^ _)] at hbig; omega
    exact Nat.lt_of_mul_lt_mul_right h3

/-- today's load factor and table: the table has more slots than items -/
theorem calcSlots_gt_current (h3 : Facts.loadfactorNum = 3) (h4 : Facts.loadfactorDen = 4)
    {n s : Nat} (h : calcSlots n = .ok s) : n < s := by
  apply calcSlots_gt_of_table _ h
  intro b hb
  have hbig := primes_big b hb
  rw [h3, h4]
  have hpos : 0 ≤ Facts.bits2primes[b]?.getD 0 := by
    cases hg : Facts.bits2primes[b]? with
    | none => simp
    | some p => simp; exact Int.le_of_lt (primes_range p (List.mem_of_getElem? hg)).1
  rw [← Int.toNat_of_nonneg hpos] at hbig
  exact_mod_cast hbig

end Verif.SMap

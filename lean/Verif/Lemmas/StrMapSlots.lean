/-
  Lemmas/StrMapSlots: calcHashtableSlots (utils.go) — never zero, below 2^31, no panic below the
  documented limit, bigger than n ("a prime bigger than n").
-/
import Verif.Model.StrMap
namespace Verif.SMap
open Verif

theorem bitLen_lt_iff (n k : Nat) : bitLen n < k + 1 ↔ n < 2 ^ k := by
  unfold bitLen
  split
  · subst n; simp; exact Nat.pos_of_ne_zero (by simp)
  · rename_i h0
    rw [Nat.add_lt_add_iff_right]
    exact Nat.log2_lt h0

theorem bitLen_le_iff (n k : Nat) : k + 1 ≤ bitLen n ↔ 2 ^ k ≤ n := by
  have := bitLen_lt_iff n k
  omega

/-- every entry of the prime table is in [1, 2^31) -/
theorem primes_range : ∀ p ∈ Facts.bits2primes, 0 < p ∧ p < 2147483648 := by decide

/-- entry b is at least 3/4 of 2^b (so it exceeds every n with ⌊4n/3⌋ < 2^b) -/
theorem primes_big : ∀ b, b < Facts.bits2primes.length →
    3 * 2 ^ b ≤ 4 * (Facts.bits2primes[b]?.getD 0) := by decide

theorem calcSlots_cases (n : Nat) :
    (Facts.bits2primes.length ≤ bitLen (scaled n) ∧ calcSlots n = .panic "too many items") ∨
    (∃ p, bitLen (scaled n) < Facts.bits2primes.length ∧
      Facts.bits2primes[bitLen (scaled n)]? = some p ∧ calcSlots n = .ok p.toNat) := by
  unfold calcSlots
  by_cases hb : Facts.bits2primes.length ≤ bitLen (scaled n)
  · left; simp [hb]
  · right
    have hlt : bitLen (scaled n) < Facts.bits2primes.length := by omega
    have hs : Facts.bits2primes[bitLen (scaled n)]? = some (Facts.bits2primes[bitLen (scaled n)]) :=
      List.getElem?_eq_getElem hlt
    refine ⟨_, hlt, hs, ?_⟩
    simp only [ge_iff_le, hb, if_false, hs]

/-- calcHashtableSlots never returns 0 and fits int32 -/
theorem calcSlots_range {n s : Nat} (h : calcSlots n = .ok s) : 0 < s ∧ s < 2147483648 := by
  rcases calcSlots_cases n with ⟨_, hp⟩ | ⟨p, _, hs, hp⟩
  · rw [hp] at h; cases h
  · rw [hp] at h
    have hmem : p ∈ Facts.bits2primes := List.mem_of_getElem? hs
    have := primes_range p hmem
    injection h with h
    omega

/-- the exact panic threshold: ⌊4n/3⌋ needs fewer than 32 bits iff n < 3·2^29 -/
theorem calcSlots_ok_iff (n : Nat) : (∃ s, calcSlots n = .ok s) ↔ n < 1610612736 := by
  have hlen : Facts.bits2primes.length = 31 + 1 := by decide
  have hsc : scaled n < 2 ^ 31 ↔ n < 1610612736 := by
    unfold scaled
    have h3 : Facts.loadfactorNum = 3 := rfl
    have h4 : Facts.loadfactorDen = 4 := rfl
    rw [h3, h4]; omega
  rcases calcSlots_cases n with ⟨hb, hp⟩ | ⟨p, hb, _, hp⟩
  · rw [hlen, bitLen_le_iff] at hb
    constructor
    · rintro ⟨s, hs⟩; rw [hp] at hs; cases hs
    · intro hn; have := hsc.mpr hn; omega
  · rw [hlen, bitLen_lt_iff] at hb
    exact ⟨fun _ => hsc.mp hb, fun _ => ⟨_, hp⟩⟩

theorem calcSlots_panic_iff (n : Nat) : calcSlots n = .panic "too many items" ↔ 1610612736 ≤ n := by
  have h := calcSlots_ok_iff n
  rcases calcSlots_cases n with ⟨_, hp⟩ | ⟨p, _, _, hp⟩
  · constructor
    · intro _
      apply Nat.le_of_not_lt; intro hn
      obtain ⟨s, hs⟩ := h.mpr hn
      rw [hp] at hs; cases hs
    · intro _; exact hp
  · have : n < 1610612736 := h.mp ⟨_, hp⟩
    constructor
    · intro h2; rw [hp] at h2; cases h2
    · intro h2; omega

/-- "a prime bigger than n": the table is never full (load factor < 1) -/
theorem calcSlots_gt {n s : Nat} (h : calcSlots n = .ok s) : n < s := by
  rcases calcSlots_cases n with ⟨_, hp⟩ | ⟨p, hb, hs, hp⟩
  · rw [hp] at h; cases h
  · rw [hp] at h; injection h with h
    have hbig := primes_big _ hb
    rw [hs] at hbig; simp only [Option.getD_some] at hbig
    have hpos := (primes_range p (List.mem_of_getElem? hs)).1
    -- scaled n < 2 ^ bitLen (scaled n)
    have hlt : scaled n < 2 ^ bitLen (scaled n) := by
      have := (bitLen_lt_iff (scaled n) (bitLen (scaled n))).mp (Nat.lt_succ_self _)
      exact this
    have h3 : Facts.loadfactorNum = 3 := rfl
    have h4 : Facts.loadfactorDen = 4 := rfl
    unfold scaled at hlt; rw [h3, h4] at hlt
    have hq : (p.toNat : Int) = p := Int.toNat_of_nonneg (by omega)
    unfold scaled at hbig; rw [h3, h4, ← hq] at hbig
    have hk : 3 * 2 ^ bitLen (n * 4 / 3) ≤ 4 * p.toNat := by exact_mod_cast hbig
    subst h
    generalize 2 ^ bitLen (n * 4 / 3) = X at hk hlt
    omega

end Verif.SMap

/-
  Audit/C07Current: the value-conditional C07 theorems (`…_current`) instantiated with the constants
  as extracted today (load factor 3/4). Deliberately NOT a lean_target of registry/C07.json: a
  harmless change of the policy constants breaks only this file, not a proof obligation.
-/
import Verif.Props.C07
namespace Verif.C07
open Verif Verif.SMap

/-- the hypotheses of the `_current` theorems hold on the tree as extracted (non-vacuity); this is
    the only place that mentions the concrete values of the load factor -/
example : (∃ s, calcSlots 1000 = .ok s ∧ 1000 < s) ∧ calcSlots 1610612736 = .panic "too many items" :=
  ⟨by obtain ⟨s, hs⟩ := (calcSlots_ok_iff 1000).mpr (by decide)
      exact ⟨s, hs, slots_gt_current rfl rfl hs⟩,
   (slots_panic_iff_current rfl rfl _).mpr (Nat.le_refl _)⟩

end Verif.C07

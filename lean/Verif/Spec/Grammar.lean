/-
  Spec/Grammar: the Thrift Binary value grammar as an independent recursive-descent reference.
  Nothing here comes from the repository (type codes and sizes are the Thrift specification's).

  `refLen d t b = some n`  ⇔  the first n bytes of b are exactly one well-formed value of type t whose
  nesting (leaves included) is at most d.   d = 1: a scalar; d = 2: a container of scalars; …
-/
import Verif.Base.Bytes
namespace Verif

namespace TT
def BOOL : UInt8 := 2
def BYTE : UInt8 := 3
def DOUBLE : UInt8 := 4
def I16 : UInt8 := 6
def I32 : UInt8 := 8
def I64 : UInt8 := 10
def STRING : UInt8 := 11
def STRUCT : UInt8 := 12
def MAP : UInt8 := 13
def SET : UInt8 := 14
def LIST : UInt8 := 15
end TT

/-- size of the fixed-size types, 0 for everything else -/
def fixedSize (t : UInt8) : Nat :=
  if t = 2 ∨ t = 3 then 1
  else if t = 6 then 2
  else if t = 8 then 4
  else if t = 4 ∨ t = 10 then 8
  else 0

/-- a string/binary: 4-byte big-endian length < 2^31, then that many bytes -/
def refStr (b : Bytes) : Option Nat :=
  if 4 ≤ b.length ∧ rd32 b < 2147483648 ∧ 4 + rd32 b ≤ b.length then some (4 + rd32 b) else none

/-- n values in a row, each measured by `f`; total length -/
def refN (f : Bytes → Option Nat) : Nat → Bytes → Option Nat
  | 0, _ => some 0
  | n+1, b =>
    match f b with
    | none => none
    | some k =>
      match refN f n (b.drop k) with
      | none => none
      | some r => some (k + r)

/-- n key/value pairs in a row -/
def refKV (fk fv : Bytes → Option Nat) : Nat → Bytes → Option Nat
  | 0, _ => some 0
  | n+1, b =>
    match fk b with
    | none => none
    | some k =>
      match fv (b.drop k) with
      | none => none
      | some v =>
        match refKV fk fv n (b.drop (k + v)) with
        | none => none
        | some r => some (k + v + r)

/-- fields until STOP: (type ≠ 0, 2-byte id, value)* 0 ; fuel ≥ b.length + 1 always suffices -/
def refFields (f : UInt8 → Bytes → Option Nat) : Nat → Bytes → Option Nat
  | 0, _ => none
  | fuel+1, b =>
    match b with
    | [] => none
    | t :: rest =>
      if t = 0 then some 1
      else if rest.length < 2 then none
      else
        match f t (rest.drop 2) with
        | none => none
        | some k =>
          match refFields f fuel (rest.drop (2 + k)) with
          | none => none
          | some r => some (3 + k + r)

/-- one level of the grammar: a value of type t whose elements / fields are measured by `E` -/
def layer (E : UInt8 → Bytes → Option Nat) (t : UInt8) (b : Bytes) : Option Nat :=
  if fixedSize t > 0 then
    if fixedSize t ≤ b.length then some (fixedSize t) else none
  else if t = TT.STRING then refStr b
  else if t = TT.STRUCT then refFields E (b.length + 1) b
  else if t = TT.LIST ∨ t = TT.SET then
    match b with
    | et :: rest =>
      if 4 ≤ rest.length ∧ rd32 rest < 2147483648 then
        (refN (E et) (rd32 rest) (rest.drop 4)).map (5 + ·)
      else none
    | [] => none
  else if t = TT.MAP then
    match b with
    | kt :: vt :: rest =>
      if 4 ≤ rest.length ∧ rd32 rest < 2147483648 then
        (refKV (E kt) (E vt) (rd32 rest) (rest.drop 4)).map (6 + ·)
      else none
    | _ => none
  else none

def refLen : Nat → UInt8 → Bytes → Option Nat
  | 0, _, _ => none
  | d+1, t, b => layer (refLen d) t b

/-- well-formed at *some* depth: fuel b.length + 1 levels suffice (every level costs ≥ 1 byte) -/
def refLenAny (t : UInt8) (b : Bytes) : Option Nat := refLen (b.length + 1) t b

end Verif

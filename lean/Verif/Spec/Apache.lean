/-
  Spec/Apache — what C19 means: the buffer is a FIFO byte queue shared by both handles; Close/Reset
  empty it; the remaining-bytes figure is the queue length.
-/
import Verif.Model.Apache
namespace Verif.Apx

/-- the abstract buffer: the unread bytes, oldest first -/
abbrev Queue := Bytes

def specStep (q : Queue) : Op → Queue × Res
  | .write _ p => (q ++ p, .wrote p.length)
  | .read _ n =>
    if q = [] then ([], .got [] (n ≠ 0))          -- nothing to read: EOF unless zero bytes were asked
    else (q.drop n, .got (q.take n) false)
  | .reset => ([], .done)
  | .close => ([], .done)
  | .noop => (q, .done)

def specRun (q : Queue) : List Op → Queue × List Res
  | [] => (q, [])
  | op :: ops => ((specRun (specStep q op).1 ops).1, (specStep q op).2 :: (specRun (specStep q op).1 ops).2)

/-- an operation sequence with every handle replaced by the other one -/
def swapHandle : Op → Op
  | .write .T p => .write .B p
  | .write .B p => .write .T p
  | .read .T n => .read .B n
  | .read .B n => .read .T n
  | op => op

/-- on a generic transport Close is a no-op -/
def closeToNoop : Op → Op
  | .close => .noop
  | op => op

end Verif.Apx

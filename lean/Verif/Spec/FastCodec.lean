/-
  Spec/FastCodec: what C11 / C15 mean, independent of how the generated code does it.

    * the three shipped structs as plain records (an optional map is `Option SMap`);
    * a Go `map[string]string` as an association list with distinct keys (`SMap.set` = `m[k] = v`);
      two such lists denote the same map iff they are permutations of each other (`SMap.Eqv`);
    * the wire format as a *printer* of a field list (`encFields`), the structs' own encodings
      (`encBase`, `encBaseResp`, `encAppEx`) with the map iteration order as a parameter;
    * an incoming field list per struct (`BaseFld`, …): known fields with their values, in any order and
      multiplicity, and unknown fields (any id, any type, any well-formed value of the Thrift grammar),
      and the struct such a list denotes (`assemble`: the last occurrence wins);
    * `splice`: the stream a direct (no-copy) writer puts on the wire — piece i is inserted at offset
      `lin.length − remainCap_i` of the linear buffer (netpoll's contract, `NetpollDirectWriter.Bytes`).

  Nothing here comes from the repository except the field ids/types of the three IDL structs.
-/
import Verif.Base.Bytes
import Verif.Spec.Grammar
namespace Verif

/-! ## Go `map[string]string` -/

abbrev SMap := List (Bytes × Bytes)

namespace SMap
/-- `m[k] = v` : overwrite the entry of an existing key, else add one -/
def set : SMap → Bytes → Bytes → SMap
  | [], k, v => [(k, v)]
  | (k', v') :: r, k, v => if k' = k then (k, v) :: r else (k', v') :: set r k v

/-- the map obtained by assigning the pairs from left to right to an empty map (later key wins) -/
def ofList (kvs : List (Bytes × Bytes)) : SMap := kvs.foldl (fun m kv => set m kv.1 kv.2) []

/-- keys are distinct -/
def WF (m : SMap) : Prop := (m.map Prod.fst).Nodup

/-- the same map: the order of an association list carries no meaning -/
def Eqv (m m' : SMap) : Prop := m.Perm m'

/-- optional maps: absent stays absent, present maps are compared as maps -/
def OptEqv : Option SMap → Option SMap → Prop
  | none, none => True
  | some m, some m' => Eqv m m'
  | _, _ => False
end SMap

/-! ## the structs -/

structure Base where
  logID : Bytes := []
  caller : Bytes := []
  addr : Bytes := []
  extra : Option SMap := none
deriving DecidableEq, Repr

structure BaseResp where
  statusMessage : Bytes := []
  statusCode : Int := 0          -- int32
  extra : Option SMap := none
deriving DecidableEq, Repr

/-- thrift.ApplicationException{t int32; m string} -/
structure AppEx where
  typ : Int := 0                 -- int32
  msg : Bytes := []
deriving DecidableEq, Repr

/-- the struct with its non-optional fields at the IDL defaults (what `InitDefault` promises); the
    optional map is not a defaulted field -/
def Base.withDefaults (p : Base) : Base := { p with logID := [], caller := [], addr := [] }
def BaseResp.withDefaults (p : BaseResp) : BaseResp := { p with statusMessage := [], statusCode := 0 }

def Base.Eqv (a b : Base) : Prop :=
  a.logID = b.logID ∧ a.caller = b.caller ∧ a.addr = b.addr ∧ SMap.OptEqv a.extra b.extra
def BaseResp.Eqv (a b : BaseResp) : Prop :=
  a.statusMessage = b.statusMessage ∧ a.statusCode = b.statusCode ∧ SMap.OptEqv a.extra b.extra

def isI32 (v : Int) : Prop := -2147483648 ≤ v ∧ v < 2147483648

/-! ## the wire format: a printer -/

/-- one field on the wire: type byte, 2-byte id, value bytes -/
structure Fld where
  id : Nat
  t : UInt8
  val : Bytes
deriving DecidableEq, Repr

def Fld.enc (f : Fld) : Bytes := f.t :: (be16 f.id ++ f.val)

/-- the fields in a row (without the closing STOP byte) -/
def encFields (fs : List Fld) : Bytes := fs.flatMap Fld.enc

def encStr (s : Bytes) : Bytes := be32 s.length ++ s
def encI32 (v : Int) : Bytes := be32 (ofInt 32 v)
@[simp] theorem encStr_length (s : Bytes) : (encStr s).length = 4 + s.length := by simp [encStr]
@[simp] theorem encI32_length (v : Int) : (encI32 v).length = 4 := by simp [encI32]
def encKVs (kvs : List (Bytes × Bytes)) : Bytes := kvs.flatMap (fun kv => encStr kv.1 ++ encStr kv.2)
/-- map<string,string> with declared size n and the given entries -/
def encMapSS (n : Nat) (kvs : List (Bytes × Bytes)) : Bytes := TT.STRING :: TT.STRING :: (be32 n ++ encKVs kvs)

def fStr (id : Nat) (s : Bytes) : Fld := ⟨id, TT.STRING, encStr s⟩
def fI32 (id : Nat) (v : Int) : Fld := ⟨id, TT.I32, encI32 v⟩
def fMapSS (id : Nat) (n : Nat) (kvs : List (Bytes × Bytes)) : Fld := ⟨id, TT.MAP, encMapSS n kvs⟩

/-- Base{1: LogID, 2: Caller, 3: Addr, 6: optional Extra}; `it` = the order in which the map is iterated -/
def Base.fields (p : Base) (it : SMap) : List Fld :=
  [fStr 1 p.logID, fStr 2 p.caller, fStr 3 p.addr] ++
  (match p.extra with | none => [] | some m => [fMapSS 6 m.length it])

/-- BaseResp{1: StatusMessage, 2: StatusCode, 3: optional Extra} -/
def BaseResp.fields (p : BaseResp) (it : SMap) : List Fld :=
  [fStr 1 p.statusMessage, fI32 2 p.statusCode] ++
  (match p.extra with | none => [] | some m => [fMapSS 3 m.length it])

/-- ApplicationException{1: message, 2: type} -/
def AppEx.fields (e : AppEx) : List Fld := [fStr 1 e.msg, fI32 2 e.typ]

/-- a nil struct pointer is written as the empty struct -/
def encBase : Option Base → SMap → Bytes
  | none, _ => [0]
  | some p, it => encFields (p.fields it) ++ [0]
def encBaseResp : Option BaseResp → SMap → Bytes
  | none, _ => [0]
  | some p, it => encFields (p.fields it) ++ [0]
def encAppEx (e : AppEx) : Bytes := encFields e.fields ++ [0]

/-! ## incoming field lists -/

def strOK (s : Bytes) : Prop := s.length < 2147483648
def kvsOK (kvs : List (Bytes × Bytes)) : Prop :=
  kvs.length < 4294967296 ∧ ∀ kv ∈ kvs, strOK kv.1 ∧ strOK kv.2

/-- the values the wire format can carry (a Go map has distinct keys) -/
def BaseOK (p : Base) : Prop :=
  strOK p.logID ∧ strOK p.caller ∧ strOK p.addr ∧ ∀ m, p.extra = some m → SMap.WF m ∧ kvsOK m
def BaseRespOK (p : BaseResp) : Prop :=
  strOK p.statusMessage ∧ isI32 p.statusCode ∧ ∀ m, p.extra = some m → SMap.WF m ∧ kvsOK m
def AppExOK (e : AppEx) : Prop := strOK e.msg ∧ isI32 e.typ

/-- an unknown field: any id, any non-STOP type, one well-formed value of that type (nesting ≤ 64) -/
def unkOK (id : Nat) (t : UInt8) (v : Bytes) : Prop :=
  id < 65536 ∧ t ≠ 0 ∧ refLen 64 t v = some v.length

inductive BaseFld where
  | logID (s : Bytes) | caller (s : Bytes) | addr (s : Bytes)
  | extra (kvs : List (Bytes × Bytes))
  | unknown (id : Nat) (t : UInt8) (v : Bytes)
deriving Repr

namespace BaseFld
def toFld : BaseFld → Fld
  | logID s => fStr 1 s | caller s => fStr 2 s | addr s => fStr 3 s
  | extra kvs => fMapSS 6 kvs.length kvs
  | unknown id t v => ⟨id, t, v⟩
/-- (id, type) pairs of the IDL -/
def isKnown (id : Nat) (t : UInt8) : Prop :=
  (id = 1 ∧ t = TT.STRING) ∨ (id = 2 ∧ t = TT.STRING) ∨ (id = 3 ∧ t = TT.STRING) ∨ (id = 6 ∧ t = TT.MAP)
def Valid : BaseFld → Prop
  | logID s | caller s | addr s => strOK s
  | extra kvs => kvsOK kvs
  | unknown id t v => unkOK id t v ∧ ¬ isKnown id t
def apply (p : Base) : BaseFld → Base
  | logID s => { p with logID := s } | caller s => { p with caller := s } | addr s => { p with addr := s }
  | extra kvs => { p with extra := some (SMap.ofList kvs) }
  | unknown _ _ _ => p
end BaseFld

/-- which field of the IDL a list element sets (0 = none) -/
def BaseFld.kind : BaseFld → Nat
  | .logID _ => 1 | .caller _ => 2 | .addr _ => 3 | .extra _ => 6 | .unknown _ _ _ => 0

/-- the struct a field list denotes, starting from the receiver's previous content -/
def Base.assemble (p : Base) (fs : List BaseFld) : Base := fs.foldl BaseFld.apply p

inductive RespFld where
  | msg (s : Bytes) | code (v : Int)
  | extra (kvs : List (Bytes × Bytes))
  | unknown (id : Nat) (t : UInt8) (v : Bytes)
deriving Repr

namespace RespFld
def toFld : RespFld → Fld
  | msg s => fStr 1 s | code v => fI32 2 v
  | extra kvs => fMapSS 3 kvs.length kvs
  | unknown id t v => ⟨id, t, v⟩
def isKnown (id : Nat) (t : UInt8) : Prop :=
  (id = 1 ∧ t = TT.STRING) ∨ (id = 2 ∧ t = TT.I32) ∨ (id = 3 ∧ t = TT.MAP)
def Valid : RespFld → Prop
  | msg s => strOK s
  | code v => isI32 v
  | extra kvs => kvsOK kvs
  | unknown id t v => unkOK id t v ∧ ¬ isKnown id t
def apply (p : BaseResp) : RespFld → BaseResp
  | msg s => { p with statusMessage := s } | code v => { p with statusCode := v }
  | extra kvs => { p with extra := some (SMap.ofList kvs) }
  | unknown _ _ _ => p
end RespFld

def RespFld.kind : RespFld → Nat
  | .msg _ => 1 | .code _ => 2 | .extra _ => 3 | .unknown _ _ _ => 0

def BaseResp.assemble (p : BaseResp) (fs : List RespFld) : BaseResp := fs.foldl RespFld.apply p

inductive ExFld where
  | msg (s : Bytes) | typ (v : Int)
  | unknown (id : Nat) (t : UInt8) (v : Bytes)
deriving Repr

namespace ExFld
def toFld : ExFld → Fld
  | msg s => fStr 1 s | typ v => fI32 2 v
  | unknown id t v => ⟨id, t, v⟩
def isKnown (id : Nat) (t : UInt8) : Prop := (id = 1 ∧ t = TT.STRING) ∨ (id = 2 ∧ t = TT.I32)
def Valid : ExFld → Prop
  | msg s => strOK s
  | typ v => isI32 v
  | unknown id t v => unkOK id t v ∧ ¬ isKnown id t
def apply (e : AppEx) : ExFld → AppEx
  | msg s => { e with msg := s } | typ v => { e with typ := v }
  | unknown _ _ _ => e
end ExFld

def ExFld.kind : ExFld → Nat
  | .msg _ => 1 | .typ _ => 2 | .unknown _ _ _ => 0

def AppEx.assemble (e : AppEx) (fs : List ExFld) : AppEx := fs.foldl ExFld.apply e

/-! ## the no-copy contract: splice -/

/-- pieces handed to the direct writer, each with the `remainCap` argument it was handed with -/
abbrev Directs := List (Bytes × Nat)

/-- copy `lin[start, len − remainCap)`, then the piece, and go on from there; at the end the rest of `lin` -/
def spliceAux (lin : Bytes) : Nat → Directs → Bytes
  | start, [] => lin.drop start
  | start, (p, rc) :: ds =>
    (lin.drop start).take (lin.length - rc - start) ++ p ++ spliceAux lin (lin.length - rc) ds

/-- the stream on the wire: as long as the linear buffer (the buffer was sized for the whole message) -/
def splice (lin : Bytes) (ds : Directs) : Bytes := (spliceAux lin 0 ds).take lin.length

/-! ## segments: what a struct writer emits, abstractly (fixed bytes | length-prefixed string) -/

inductive Seg where
  | fixed (bs : Bytes)
  | str (s : Bytes)
deriving Repr

def Seg.enc : Seg → Bytes
  | .fixed bs => bs
  | .str s => encStr s

def encSegs (sg : List Seg) : Bytes := sg.flatMap Seg.enc

end Verif

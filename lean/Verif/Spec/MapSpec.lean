/-
  Spec/MapSpec: what "answers exactly like a Go map" means (C07).

  A Go `map[string]V` built from pairs with pairwise distinct keys is the association list of those
  pairs: a key is present iff it is one of the keys and then maps to its value (`List.lookup`),
  `len` is the number of pairs, and ranging over it yields the pairs in SOME order (any permutation).
  A history of loads on one instance is a fold: a successful load replaces the contents, a failed
  load leaves them as they were; a map that was never loaded is the empty map.
-/
import Verif.Base.Bytes
namespace Verif.MapSpec
open Verif

/-- contents of a Go map (keys pairwise distinct) -/
abbrev GoMap (V : Type) := List (Bytes × V)

def DistinctKeys {V : Type} (m : GoMap V) : Prop := (m.map (·.1)).Nodup

/-- `v, ok := m[k]` -/
def get {V : Type} (m : GoMap V) (k : Bytes) : Option V := List.lookup k m

/-- `len(m)` -/
def len {V : Type} (m : GoMap V) : Nat := m.length

/-- `l` is a possible `for k, v := range m` enumeration -/
def IsEnum {V : Type} (m : GoMap V) (l : List (Bytes × V)) : Prop := l.Perm m

/-- one load request as the caller states it: the two slices -/
structure Load (V : Type) where
  kk : List Bytes
  vv : List V

/-- the contents after a history of load requests, starting from `m0` (never loaded = `[]`):
    mismatched lengths fail and change nothing, otherwise the contents are replaced -/
def after {V : Type} (m0 : GoMap V) : List (Load V) → GoMap V
  | [] => m0
  | ld :: rest => if ld.kk.length = ld.vv.length then after (ld.kk.zip ld.vv) rest else after m0 rest

end Verif.MapSpec

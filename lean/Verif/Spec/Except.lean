/-
  Spec/Except — what C18 means, independent of how exception.go does it.
  * prepending: kind is kept (a foreign exception becomes an application exception), the type id is
    kept, the text is prefix ++ original text;
  * `errors.Is(err, target)`: some error on the `Unwrap` chain of `err` matches `target`, where a node
    matches when it is the very same object, or it is a protocol exception whose (type id, message)
    equal the target's (type id, error text).
-/
import Verif.Model.Except
namespace Verif

/-- the kind the statement prescribes for the result of prepending -/
def specPrependKind : Kind → Kind
  | .foreign => .application
  | k => k

/-- the errors reachable by repeatedly calling `Unwrap` -/
def chain : Err → List Err
  | e@(.wrapped _ _ inner) => e :: chain inner
  | e@(.protocolW _ _ _ c) => e :: chain c
  | e => [e]

/-- "its own type id and message", for protocol exceptions -/
def ownIdMsg : Err → Option (Int × Bytes)
  | .protocol _ t m => some (t, m)
  | .protocolW _ t m _ => some (t, m)
  | _ => none

/-- one node of the chain matches the target -/
def nodeMatches (x tg : Err) : Bool :=
  x == tg ||
  match ownIdMsg x with
  | some (t, m) => tg.typeId == some t && tg.text == m
  | none => false

def isSpec (e tg : Err) : Bool := (chain e).any (fun x => nodeMatches x tg)

end Verif

/-
  Spec/WireCursor: the cursor contract of a bufiox reader, as far as a codec needs it.
  `rem r` is the stream still to be delivered (buffered bytes, then the source), `live r n` says
  that n more bytes can still be delivered from state r (the liveness condition of property C04:
  the source script yields them before it fails). On a live request, `Next n` / `ReadBinary` hand out
  exactly the next n bytes of the remaining stream, advance the cursor and `ReadLen` by n, and what
  was deliverable beyond n still is.
  The refinement `Cursor remaining canDeliver` for the DefaultReader under every source script is
  property C04; `bufferedCursor` below is the instance "the bytes are already in the buffer"
  (every state of a BytesReader).
-/
import Verif.Model.Reader
namespace Verif.Wire

structure Cursor (rem : Rd → Bytes) (live : Rd → Nat → Prop) : Prop where
  le : ∀ r n, live r n → n ≤ (rem r).length
  mono : ∀ r n m, live r (n + m) → live r n
  next : ∀ r n, live r n →
    ∃ r', r.next (n : Int) = (.ok ((rem r).take n), r') ∧ rem r' = (rem r).drop n ∧
          r'.readLen = r.readLen + n ∧ ∀ m, live r (n + m) → live r' m
  readBinary : ∀ r n, live r n →
    ∃ r', r.readBinary n = (some ((rem r).take n, n, none), r') ∧ rem r' = (rem r).drop n ∧
          r'.readLen = r.readLen + n ∧ ∀ m, live r (n + m) → live r' m

/-- the remaining stream of a reader state: unread buffered bytes, then what the source still has -/
def remaining (r : Rd) : Bytes := r.buf.drop r.ri ++ r.src.stream

/-- n bytes are already buffered -/
def buffered (r : Rd) (n : Nat) : Prop := n ≤ r.buf.length - r.ri

end Verif.Wire

/-
  Spec/Frame: the documented TTHeader frame layout, as a printer, and what a valid frame is.

      0        4        6        8        12       14       15       16 ...
      | LENGTH | 0x1000 | FLAGS  | SEQ ID | SIZE/4 | PROTO  | #TRANS | info sections … zero padding |
      <------------------- 14 bytes meta ---------><--------------- SIZE bytes ------------------->

  info section = 0x00 (padding)
               | 0x01 count(u16) { len(u16) key len(u16) value }*          string key/values
               | 0x10 count(u16) { key(u16) len(u16) value }*              integer key/values
               | 0x11 len(u16) token                                       ACL token (stored under the
                                                                            key "RPC_TRANSIT_gdpr-token")
  All integers big endian. SIZE is a multiple of 4, at least 2 and at most 65536.
  Maps are association lists; `List.lookup` is what a map answers (newest entry first).
  This file does not mention the implementation or its constants.
-/
import Verif.Base.Bytes
namespace Verif.Frame

abbrev IntMap := List (Nat × Bytes)
abbrev StrMap := List (Bytes × Bytes)

/-- the header parameters of a frame; the lists give the order in which entries are laid out -/
structure Params where
  flags : Nat
  seq : Int
  proto : Nat
  intKV : IntMap
  strKV : StrMap
deriving Repr, DecidableEq

/-- "RPC_TRANSIT_gdpr-token" -/
def aclKey : Bytes :=
  [82, 80, 67, 95, 84, 82, 65, 78, 83, 73, 84, 95, 103, 100, 112, 114, 45, 116, 111, 107, 101, 110]

/-- a string with its 2-byte length -/
def str2 (s : Bytes) : Bytes := be16 s.length ++ s

inductive Sec where
  | pad
  | str (kvs : StrMap)
  | int (kvs : IntMap)
  | acl (tok : Bytes)
deriving Repr, DecidableEq

def encStrKV (kv : Bytes × Bytes) : Bytes := str2 kv.1 ++ str2 kv.2
def encIntKV (kv : Nat × Bytes) : Bytes := be16 kv.1 ++ str2 kv.2

def encSec : Sec → Bytes
  | .pad => [0x00]
  | .str kvs => 0x01 :: (be16 kvs.length ++ kvs.flatMap encStrKV)
  | .int kvs => 0x10 :: (be16 kvs.length ++ kvs.flatMap encIntKV)
  | .acl t => 0x11 :: str2 t

def encSecs (secs : List Sec) : Bytes := secs.flatMap encSec

/-- every length and count of the section fits its 16-bit field -/
def wfSec : Sec → Prop
  | .pad => True
  | .str kvs => kvs.length < 65536 ∧ ∀ kv ∈ kvs, kv.1.length < 65536 ∧ kv.2.length < 65536
  | .int kvs => kvs.length < 65536 ∧ ∀ kv ∈ kvs, kv.1 < 65536 ∧ kv.2.length < 65536
  | .acl t => t.length < 65536

/-- the string entries that go into the 0x01 section (everything but the ACL token) -/
def plainStr (m : StrMap) : StrMap := m.filter (fun kv => kv.1 != aclKey)

/-- the sections the encoder emits for a parameter set: ACL token, string map, integer map -/
def secsOf (p : Params) : List Sec :=
  (match p.strKV.lookup aclKey with
   | some t => [Sec.acl t]
   | none => []) ++
  (if (plainStr p.strKV).isEmpty then [] else [Sec.str (plainStr p.strKV)]) ++
  (if p.intKV.isEmpty then [] else [Sec.int p.intKV])

/-- protocol id, number of transforms (always 0), sections -/
def info (p : Params) : Bytes := [UInt8.ofNat p.proto, 0] ++ encSecs (secsOf p)

def padLen (n : Nat) : Nat := (4 - n % 4) % 4

/-- the header size the frame declares (in bytes) -/
def infoSize (p : Params) : Nat := (info p).length + padLen (info p).length

/-- two's complement view of the sequence id -/
def seqBits (s : Int) : Nat := ofInt 32 s

/-- THE LAYOUT: `lenField` are the four bytes of the total-length field (owned by the caller) -/
def layout (lenField : Bytes) (p : Params) : Bytes :=
  lenField ++ be16 0x1000 ++ be16 p.flags ++ be32 (seqBits p.seq) ++ be16 (infoSize p / 4)
    ++ info p ++ List.replicate (padLen (info p).length) 0

/-- the values a parameter set may take (the Go types), with duplicate-free keys (they are maps) -/
structure Params.Dom (p : Params) : Prop where
  flags : p.flags < 65536
  seq : -2147483648 ≤ p.seq ∧ p.seq < 2147483648
  proto : p.proto < 256
  intKeys : ∀ kv ∈ p.intKV, kv.1 < 65536
  intNodup : (p.intKV.map (·.1)).Nodup
  strNodup : (p.strKV.map (·.1)).Nodup

/-! ## decoding side: what a valid frame is, and what it means -/

/-- the maps a sequence of sections denotes: left to right, later entries in front (they win) -/
def applySec (m : IntMap × StrMap) : Sec → IntMap × StrMap
  | .pad => m
  | .str kvs => (m.1, kvs.reverse ++ m.2)
  | .int kvs => (kvs.reverse ++ m.1, m.2)
  | .acl t => (m.1, (aclKey, t) :: m.2)

def applySecs (m : IntMap × StrMap) (secs : List Sec) : IntMap × StrMap := secs.foldl applySec m

def sizeField (b : Bytes) : Nat := rd16 (b.drop 12)
def declared (b : Bytes) : Nat := 4 * sizeField b
def totalLen (b : Bytes) : Nat := rd32 b
def numTransforms (b : Bytes) : Nat := rd8 (b.drop 15)
def supported : List Nat := [0x00, 0x03, 0x04, 0x10, 0x11]

/-- `b` starts with a valid TTHeader frame whose info area consists of the sections `secs` -/
structure Valid (b : Bytes) (secs : List Sec) : Prop where
  hdr : 14 ≤ b.length
  magic : rd16 (b.drop 4) = 0x1000
  sizeLo : 2 ≤ declared b
  sizeHi : declared b ≤ 65536
  complete : 14 + declared b ≤ b.length
  proto : rd8 (b.drop 14) ∈ supported
  transforms : numTransforms b ≤ declared b - 2
  wf : ∀ s ∈ secs, wfSec s
  sections : (b.drop (16 + numTransforms b)).take (declared b - 2 - numTransforms b) = encSecs secs

/-- what a successful decode of `b` must report -/
structure Decoded where
  flags : Nat
  seq : Int
  proto : Nat
  intKV : IntMap
  strKV : StrMap
  headerLen : Int
  payloadLen : Int
deriving Repr, DecidableEq

def meaning (b : Bytes) (secs : List Sec) : Decoded :=
  let m := applySecs ([], []) secs
  { flags := rd16 (b.drop 6), seq := toI32 (rd32 (b.drop 8)), proto := rd8 (b.drop 14),
    intKV := m.1, strKV := m.2,
    headerLen := 14 + (declared b : Int),
    payloadLen := (totalLen b : Int) + 4 - (14 + (declared b : Int)) }

/-- a buffer announces a streaming frame: at least 8 bytes, the magic, and flag bit 1 (value 0x0002) set -/
def streaming (b : Bytes) : Bool :=
  decide (8 ≤ b.length ∧ rd16 (b.drop 4) = 0x1000 ∧ rd16 (b.drop 6) / 2 % 2 = 1)

/-- a string with its 4-byte length -/
def str4 (s : Bytes) : Bytes := be32 s.length ++ s

/-! ## executable reference for `Valid` (used by the driver; proved equivalent in Lemmas/TthRef) -/

/-- split off one length-prefixed string -/
def takeStr2 (b : Bytes) : Option (Bytes × Bytes) :=
  if b.length < 2 then none
  else if (b.drop 2).length < rd16 b then none
  else some ((b.drop 2).take (rd16 b), (b.drop 2).drop (rd16 b))

def refStrKVs : Nat → Bytes → Option (StrMap × Bytes)
  | 0, b => some ([], b)
  | n+1, b =>
    (takeStr2 b).bind fun k =>
    (takeStr2 k.2).bind fun v =>
    (refStrKVs n v.2).bind fun r => some ((k.1, v.1) :: r.1, r.2)

def refIntKVs : Nat → Bytes → Option (IntMap × Bytes)
  | 0, b => some ([], b)
  | n+1, b =>
    if b.length < 2 then none else
    (takeStr2 (b.drop 2)).bind fun v =>
    (refIntKVs n v.2).bind fun r => some ((rd16 b, v.1) :: r.1, r.2)

/-- parse a whole info area into sections (`fuel` > number of sections; `b.length + 1` suffices) -/
def refSecs : Nat → Bytes → Option (List Sec)
  | 0, _ => none
  | _+1, [] => some []
  | fuel+1, id :: r =>
    if id = 0x00 then (refSecs fuel r).bind fun t => some (Sec.pad :: t)
    else if id = 0x01 then
      if r.length < 2 then none else
      (refStrKVs (rd16 r) (r.drop 2)).bind fun x => (refSecs fuel x.2).bind fun t => some (Sec.str x.1 :: t)
    else if id = 0x10 then
      if r.length < 2 then none else
      (refIntKVs (rd16 r) (r.drop 2)).bind fun x => (refSecs fuel x.2).bind fun t => some (Sec.int x.1 :: t)
    else if id = 0x11 then
      (takeStr2 r).bind fun x => (refSecs fuel x.2).bind fun t => some (Sec.acl x.1 :: t)
    else none

/-- decides `∃ secs, Valid b secs` and returns the sections -/
def refValid (b : Bytes) : Option (List Sec) :=
  if b.length < 14 then none
  else if rd16 (b.drop 4) ≠ 0x1000 then none
  else if declared b < 2 ∨ declared b > 65536 then none
  else if b.length < 14 + declared b then none
  else if ¬ supported.contains (rd8 (b.drop 14)) then none
  else if numTransforms b > declared b - 2 then none
  else
    let area := (b.drop (16 + numTransforms b)).take (declared b - 2 - numTransforms b)
    refSecs (area.length + 1) area

end Verif.Frame

/-
  Spec/SkipDemand: when must ReaderSkipDecoder (the skip decoder over a plain io.Reader) succeed?

  The decoder reads with io.ReadFull semantics and EXACT room: `SkipN(k)` calls `Read(buf[i:k])` until
  `k` bytes have arrived, so a scripted `Read` delivers `min(entry.k, k − i, bytes left)`; an error that
  arrives together with the last missing bytes of the current request is dropped.  Whether a script
  with an error on a multi-byte chunk (⟨4,nil⟩,⟨5,io.EOF⟩ …) lets the decoder through therefore depends
  on how the decoder's requests line up with the chunks — no room-independent predicate can say
  (⟨5,io.EOF⟩ asked for 1 byte hands over 1 byte and is spent; the other 4 bytes never arrive).

  So the predicate is request-aware, and both halves are plain arithmetic on lengths:
    `tplTrace d t b`   the request sizes SkipDecoderTpl.Skip makes, in order, on a well-formed value
                       of type `t` at the front of `b` (read off the grammar: header sizes 1/2/4/5/6,
                       declared string lengths, `n · size` for fixed-size elements);
    `fullLen`          one io.ReadFull of `need` bytes against a script, on lengths only;
    `servesLen`        a script serves a list of requests, one after the other;
    `readerLive t b script`  := the script serves the requests of the value at the front of `b`.
  Nothing here mentions the decoder's code.  Theorem (Lemmas/SkipTplDemand.lean, Props/C02
  `readerDec_exact_demand`): `readerLive` ⇒ the decoder returns exactly the value and reads nothing
  beyond it.  `Delivers`/`Steady`/`benign` scripts are the room-independent special cases.
-/
import Verif.Lemmas.GrammarG
import Verif.Model.Reader
namespace Verif

/-- requests of `n` elements in a row; `f` measures an element, `g` lists its requests -/
def trN (f : Bytes → Option Nat) (g : Bytes → List Nat) : Nat → Bytes → List Nat
  | 0, _ => []
  | n+1, b => g b ++ (match f b with
      | some k => trN f g n (b.drop k)
      | none => [])

/-- requests of `n` key/value pairs in a row -/
def trKV (fk fv : Bytes → Option Nat) (gk gv : Bytes → List Nat) : Nat → Bytes → List Nat
  | 0, _ => []
  | n+1, b => gk b ++ (match fk b with
      | some k => gv (b.drop k) ++ (match fv (b.drop k) with
          | some v => trKV fk fv gk gv n (b.drop (k + v))
          | none => [])
      | none => [])

/-- requests of a struct body: 1 byte (field type); unless STOP: 2 bytes (field id), the value, go on -/
def trFields (f : UInt8 → Bytes → Option Nat) (g : UInt8 → Bytes → List Nat) : Nat → Bytes → List Nat
  | 0, _ => []
  | _+1, [] => [1]
  | fuel+1, t :: rest =>
    if t = 0 then [1]
    else 1 :: 2 :: (g t (rest.drop 2) ++ (match f t (rest.drop 2) with
      | some k => trFields f g fuel (rest.drop (2 + k))
      | none => []))

/-- the request sizes of SkipDecoderTpl.Skip(t, d) on the value at the front of `b` -/
def tplTrace : Nat → UInt8 → Bytes → List Nat
  | 0, _, _ => []
  | d+1, t, b =>
    if fixedSize t > 0 then [fixedSize t]
    else if t = TT.STRING then [4, rd32 b]
    else if t = TT.STRUCT then trFields (refTpl d) (tplTrace d) (b.length + 1) b
    else if t = TT.LIST ∨ t = TT.SET then
      match b with
      | et :: rest =>
        5 :: (if fixedSize et > 0 then [rd32 rest * fixedSize et]
              else trN (refTpl d et) (tplTrace d et) (rd32 rest) (rest.drop 4))
      | [] => [5]
    else if t = TT.MAP then
      match b with
      | kt :: vt :: rest =>
        6 :: (if fixedSize kt > 0 ∧ fixedSize vt > 0 then [rd32 rest * (fixedSize kt + fixedSize vt)]
              else trKV (refTpl d kt) (refTpl d vt) (tplTrace d kt) (tplTrace d vt) (rd32 rest) (rest.drop 4))
      | _ => [6]
    else []

/-- one io.ReadFull of `need` bytes with exact room, on lengths: `slen` bytes are left in the stream;
    every `Read` spends one entry and delivers `min k room left`; the request is complete as soon
    as `need` bytes have arrived (an error arriving with them is dropped); an error before that,
    or the end of the script, fails it.  Result: the script and stream length afterwards. -/
def fullLen : List Resp → Nat → Nat → Option (List Resp × Nat)
  | script, slen, 0 => some (script, slen)
  | [], _, _+1 => none
  | r :: rest, slen, need+1 =>
    if min (min r.k (need+1)) slen ≥ need+1 then some (rest, slen - (need+1))
    else if r.err.isSome then none
    else fullLen rest (slen - min (min r.k (need+1)) slen) (need + 1 - min (min r.k (need+1)) slen)

/-- the script serves the requests `ks` one after the other -/
def servesLen : List Resp → Nat → List Nat → Bool
  | _, _, [] => true
  | script, slen, k :: ks =>
    match fullLen script slen k with
    | some (script', slen') => servesLen script' slen' ks
    | none => false

/-- liveness for ReaderSkipDecoder.Next(t) on stream `b`: the script serves the decoder's requests -/
def readerLive (t : UInt8) (b : Bytes) (script : List Resp) : Bool :=
  servesLen script b.length (tplTrace 64 t b)

end Verif

/-
  Spec/WriterLog: what "a buffered writer flushes exactly what was written, once, in order" means.

  The writer is an append-only LOG of items
      region id n    -- n bytes the caller obtained from Malloc and may store into until Flush
      payload bs     -- bytes passed to WriteBinary
  plus a STORE "latest content of region id".  A byte of a region the caller never stored into is
  unspecified (`none`) — the spec knows nothing about buffers, growth or dirty memory.
  Flush hands the concatenation of the items' latest contents to the sink in one piece, exactly
  once, and starts a new log; a sink error sticks.  WrittenLen = number of unflushed bytes.
  `ε` is the type of errors.
-/
namespace Verif.WLog

/-- a byte as the spec sees it: `none` = never stored by the caller (any value is acceptable) -/
abbrev SByte := Option UInt8
abbrev SBytes := List SByte

/-- store `bs` at positions `off, off+1, …` of `c` -/
def overwrite {α : Type} (c : List α) (off : Nat) (bs : List α) : List α :=
  c.take off ++ bs ++ c.drop (off + bs.length)

inductive Item where
  | region (id n : Nat)
  | payload (bs : List UInt8)
deriving Repr, DecidableEq

def Item.len : Item → Nat
  | .region _ n => n
  | .payload bs => bs.length

def Item.content (store : Nat → SBytes) : Item → SBytes
  | .region id _ => store id
  | .payload bs => bs.map some

structure Log (ε : Type) where
  items : List Item              -- unflushed items, oldest first
  store : Nat → SBytes           -- latest content of region id
  nextId : Nat                   -- ids are handed out in order
  err : Option ε                 -- the sink error that stuck
  calls : Nat                    -- sink calls made so far
  fail : Nat → Option ε          -- the sink's failure script: answer of call number k (1-based)
  emitted : SBytes               -- everything the sink accepted so far

variable {ε : Type}

/-- the unflushed bytes, in order -/
def Log.unflushed (l : Log ε) : SBytes := (l.items.map (Item.content l.store)).flatten

def Log.writtenLen (l : Log ε) : Nat := (l.items.map Item.len).sum

/-- a fresh log over a sink; `init` = bytes already in the target of a bytes writer -/
def Log.new (fail : Nat → Option ε) (init : List UInt8) : Log ε :=
  { items := [.payload init], store := fun _ => [], nextId := 0,
    err := none, calls := 0, fail := fail, emitted := [] }

/-- Malloc n: a new region of n unspecified bytes; returns its id -/
def Log.malloc (l : Log ε) (n : Nat) : Except ε Nat × Log ε :=
  match l.err with
  | some e => (.error e, l)
  | none =>
    (.ok l.nextId,
     { l with items := l.items ++ [.region l.nextId n],
              store := fun i => if i = l.nextId then List.replicate n none else l.store i,
              nextId := l.nextId + 1 })

/-- the caller stores `bs` at offset `off` of region `id` (ignored when it does not fit) -/
def Log.fill (l : Log ε) (id off : Nat) (bs : List UInt8) : Log ε :=
  if off + bs.length ≤ (l.store id).length then
    { l with store := fun i => if i = id then overwrite (l.store id) off (bs.map some) else l.store i }
  else l

/-- WriteBinary bs -/
def Log.write (l : Log ε) (bs : List UInt8) : Except ε Nat × Log ε :=
  match l.err with
  | some e => (.error e, l)
  | none => (.ok bs.length, { l with items := l.items ++ [.payload bs] })

/-- Flush: nothing unflushed ⇒ the sink is not consulted; otherwise ONE sink call with all
    unflushed bytes; accepted ⇒ emitted exactly once and the log starts over; refused ⇒ the error
    is returned and sticks, nothing is forgotten -/
def Log.flush (l : Log ε) : Option ε × Log ε :=
  match l.err with
  | some e => (some e, l)
  | none =>
    if l.writtenLen = 0 then (none, { l with items := [] })
    else
      match l.fail (l.calls + 1) with
      | some e => (some e, { l with calls := l.calls + 1, err := some e })
      | none => (none, { l with calls := l.calls + 1, items := [],
                                emitted := l.emitted ++ l.unflushed })

/-- `m` (real bytes) agrees with `s` wherever the spec says anything -/
def Match : List UInt8 → SBytes → Prop
  | [], [] => True
  | b :: m, o :: s => (o = none ∨ o = some b) ∧ Match m s
  | _, _ => False

/-- executable version of `Match` -/
def matchB : List UInt8 → SBytes → Bool
  | [], [] => true
  | b :: m, o :: s => (o == none || o == some b) && matchB m s
  | _, _ => false

end Verif.WLog

/-
  Spec/Cause: WHY a byte string is not a Thrift Binary value — an independent classifier of the first
  failure in parse order, sitting beside the grammar (Spec/Grammar.lean, Lemmas/Grammar.lean `refBin`).
  Nothing here comes from the repository: type codes and sizes are the Thrift specification's
  (`fixedSize`, `TT.*` of Spec/Grammar), the exception type ids are Thrift's TProtocolException numbers.

  Reading, left to right, of a value of type t with `d` levels of nesting still allowed:
    * nothing left to read                                  → truncated
    * a nested value (container, struct, or a type code that is none of the 11 Thrift types) is entered
      with no level left                                    → depth        (checked first on entering)
    * fixed-size value / string body / header / field id that does not fit  → truncated
    * a 32-bit size field with the sign bit set (≥ 2^31)    → negativeSize
    * a type code that is none of the 11 Thrift types and has to be parsed  → unknownType
  Fixed-size and string elements are measured in line and do not use up a level (the acceptance
  discipline of `refBin`); `causeBin d t b = .ok n` iff `refBin d t b = some n`
  (Lemmas/SkipBinCause.lean `causeBin_ok_iff`).
-/
import Verif.Spec.Grammar
namespace Verif

inductive Cause where
  | truncated       -- the input ends before the value does
  | unknownType     -- a type code that is none of the 11 Thrift types has to be parsed
  | negativeSize    -- a string / container size field is negative as int32
  | depth           -- nesting deeper than the allowed number of levels
deriving Repr, DecidableEq

/-- Thrift's TProtocolException type for each cause: INVALID_DATA = 1, NEGATIVE_SIZE = 2,
    DEPTH_LIMIT = 6 (literal Thrift numbers; related to the repository's constants in
    Lemmas/SkipBinCause.lean by `decide`) -/
def typeIdOf : Cause → Int
  | .truncated => 1
  | .unknownType => 1
  | .negativeSize => 2
  | .depth => 6

abbrev CRes := Except Cause Nat

instance : DecidableEq CRes := fun a b =>
  match a, b with
  | .ok x, .ok y => if h : x = y then isTrue (by rw [h]) else isFalse (fun h' => h (by cases h'; rfl))
  | .error x, .error y => if h : x = y then isTrue (by rw [h]) else isFalse (fun h' => h (by cases h'; rfl))
  | .ok _, .error _ => isFalse (fun h' => by cases h')
  | .error _, .ok _ => isFalse (fun h' => by cases h')

/-- a string/binary: 4-byte big-endian length, then that many bytes -/
def causeStr (b : Bytes) : CRes :=
  if b.length < 4 then .error .truncated
  else if ¬ rd32 b < 2147483648 then .error .negativeSize
  else if 4 + rd32 b ≤ b.length then .ok (4 + rd32 b)
  else .error .truncated

/-- n values in a row: the first failure, or the total length -/
def causeN (f : Bytes → CRes) : Nat → Bytes → CRes
  | 0, _ => .ok 0
  | n+1, b =>
    match f b with
    | .error c => .error c
    | .ok k =>
      match causeN f n (b.drop k) with
      | .error c => .error c
      | .ok r => .ok (k + r)

/-- n key/value pairs in a row -/
def causeKV (fk fv : Bytes → CRes) : Nat → Bytes → CRes
  | 0, _ => .ok 0
  | n+1, b =>
    match fk b with
    | .error c => .error c
    | .ok k =>
      match fv (b.drop k) with
      | .error c => .error c
      | .ok v =>
        match causeKV fk fv n (b.drop (k + v)) with
        | .error c => .error c
        | .ok r => .ok (k + v + r)

/-- fields until STOP: (type ≠ 0, 2-byte id, value)* 0.  Fuel b.length + 1 always suffices (every
    field takes ≥ 3 bytes); running out of fuel is reported like running out of input. -/
def causeFields (f : UInt8 → Bytes → CRes) : Nat → Bytes → CRes
  | 0, _ => .error .truncated
  | fuel+1, b =>
    match b with
    | [] => .error .truncated
    | t :: rest =>
      if t = 0 then .ok 1
      else if rest.length < 2 then .error .truncated
      else
        match f t (rest.drop 2) with
        | .error c => .error c
        | .ok k =>
          match causeFields f fuel (rest.drop (2 + k)) with
          | .error c => .error c
          | .ok r => .ok (3 + k + r)

/-- one element / key / value / field value: fixed-size and string in line, everything else nested -/
def causeElem (f : UInt8 → Bytes → CRes) (t : UInt8) (b : Bytes) : CRes :=
  if fixedSize t > 0 then (if fixedSize t ≤ b.length then .ok (fixedSize t) else .error .truncated)
  else if t = TT.STRING then causeStr b
  else f t b

/-- one level: a value of type t whose elements / fields are classified by `E` -/
def causeLayer (E : UInt8 → Bytes → CRes) (t : UInt8) (b : Bytes) : CRes :=
  if fixedSize t > 0 then (if fixedSize t ≤ b.length then .ok (fixedSize t) else .error .truncated)
  else if t = TT.STRING then causeStr b
  else if t = TT.STRUCT then causeFields E (b.length + 1) b
  else if t = TT.LIST ∨ t = TT.SET then
    match b with
    | et :: rest =>
      if rest.length < 4 then .error .truncated
      else if ¬ rd32 rest < 2147483648 then .error .negativeSize
      else (causeN (E et) (rd32 rest) (rest.drop 4)).map (5 + ·)
    | [] => .error .truncated
  else if t = TT.MAP then
    match b with
    | kt :: vt :: rest =>
      if rest.length < 4 then .error .truncated
      else if ¬ rd32 rest < 2147483648 then .error .negativeSize
      else (causeKV (E kt) (E vt) (rd32 rest) (rest.drop 4)).map (6 + ·)
    | _ => .error .truncated
  else .error .unknownType

/-- the first failure of reading one value of type t from b with d levels allowed (d = 64 for
    Binary.Skip), or its extent -/
def causeBin : Nat → UInt8 → Bytes → CRes
  | 0, _, b => if b.length = 0 then .error .truncated else .error .depth
  | d+1, t, b => if b.length = 0 then .error .truncated else causeLayer (causeElem (causeBin d)) t b

/-- a struct field value as a stream skipper reads it: fixed-size in line, everything else — a string
    too — is a nested value -/
def causeField (f : UInt8 → Bytes → CRes) (t : UInt8) (b : Bytes) : CRes :=
  if fixedSize t > 0 then (if fixedSize t ≤ b.length then .ok (fixedSize t) else .error .truncated)
  else f t b

/-- Stream flavour, for BufferReader.Skip (Tie B verdict of the `cause` family; refined by the model
    over live readers, Lemmas/SkipBRCause.lean).
    A stream reader asks its source for bytes only when a header or a scalar is actually read, so on
    entering a nested value the remaining depth and the type code are judged before any byte of the
    value is requested — there is no "nothing left" check ahead of them; and a struct field that is
    not fixed-size (a string too) is a nested value.  `truncated` here means: the stream ends before
    the value does — the one cause that must surface as the wrapped error of the underlying reader. -/
def causeStream : Nat → UInt8 → Bytes → CRes
  | 0, _, _ => .error .depth
  | d+1, t, b =>
    if t = TT.STRUCT then causeFields (causeField (causeStream d)) (b.length + 1) b
    else causeLayer (causeElem (causeStream d)) t b

end Verif

/-
  Spec/Unknown: the two domains of property C13.

  * `EncFields d b`: the byte string b is a sequence of ≥ 1 well-formed encoded fields
    (type byte ≠ STOP, 2-byte id, one value of that type), values of nesting ≤ d (leaves included),
    booleans canonical (0 or 1). The grammar is Spec/Grammar's (`layer`: `refStr`, `refN`, `refKV`, `refFields`,
    `fixedSize`); `encLen` is `refLen` with the one extra requirement on BOOL bytes
    (`encLen_refLen` in Lemmas/UnknownEnc: every `encLen` value is a `refLen` value of the same extent).
  * `WT d f`: the tree f is well typed: the payload has the dynamic type its `Type` demands, children of
    LIST/SET/MAP are typed by the parent's tags and carry id = int16(index), KeyType/ValType are set
    exactly where meaningful (zero elsewhere), MAP children come in pairs, STRUCT children are fields of
    known type, strings and containers are short enough for their 32-bit size field.
  Nothing here comes from the repository (type codes are the Thrift specification's, `TT.*`).
-/
import Verif.Spec.Grammar
import Verif.Model.Unknown
namespace Verif

/-! ## encoded fields with canonical booleans -/

def encLen : Nat → UInt8 → Bytes → Option Nat
  | 0, _, _ => none
  | d+1, t, b =>
    if t = TT.BOOL then
      match b with
      | x :: _ => if x = 0 ∨ x = 1 then some 1 else none
      | [] => none
    else layer (encLen d) t b          -- Spec/Grammar: one level of the Thrift Binary value grammar

/-- fields in a row until the input is exhausted: (type ≠ 0, 2-byte id, value)* ; fuel ≥ b.length + 1 suffices -/
def encSeq (f : UInt8 → Bytes → Option Nat) : Nat → Bytes → Bool
  | 0, _ => false
  | fuel+1, b =>
    match b with
    | [] => true
    | t :: rest =>
      if t = 0 then false
      else if rest.length < 2 then false
      else
        match f t (rest.drop 2) with
        | none => false
        | some k => encSeq f fuel (rest.drop (2 + k))

/-- b is a sequence of at least one well-formed field with canonical bools, values of nesting ≤ d -/
def ufEncFields (d : Nat) (b : Bytes) : Bool := b ≠ [] && encSeq (encLen d) (b.length + 1) b

def EncFields (d : Nat) (b : Bytes) : Prop := ufEncFields d b = true

instance (d : Nat) (b : Bytes) : Decidable (EncFields d b) := inferInstanceAs (Decidable (_ = true))

/-! ## well-typed trees -/

/-- children of LIST/SET (step 1) : typed by `t`, id = int16(index) -/
def elemsOK {α : Type} (mt : α → UMeta) (p : α → Bool) (t : UInt8) : Nat → List α → Bool
  | _, [] => true
  | i, c :: cs => (mt c).id == UInt16.ofNat i && (mt c).typ == t && p c && elemsOK mt p t (i + 1) cs

/-- flat key,value,key,value children of a MAP: pair i has ids int16(i), types kt and vt -/
def ufKvsOK {α : Type} (mt : α → UMeta) (p : α → Bool) (kt vt : UInt8) : Nat → List α → Bool
  | _, [] => true
  | _, [_] => false
  | i, k :: v :: rest =>
    (mt k).id == UInt16.ofNat i && (mt k).typ == kt && p k &&
    (mt v).id == UInt16.ofNat i && (mt v).typ == vt && p v && ufKvsOK mt p kt vt (i + 1) rest

def wt : (d : Nat) → UF d → Bool
  | 0, f => f.elim
  | d+1, f =>
    let t := f.1.typ
    if t = TT.BOOL then f.1.kt == 0 && f.1.vt == 0 && (match f.2 with | .bool _ => true | _ => false)
    else if t = TT.BYTE then f.1.kt == 0 && f.1.vt == 0 && (match f.2 with | .i8 _ => true | _ => false)
    else if t = TT.DOUBLE then f.1.kt == 0 && f.1.vt == 0 && (match f.2 with | .f64 _ => true | _ => false)
    else if t = TT.I16 then f.1.kt == 0 && f.1.vt == 0 && (match f.2 with | .i16 _ => true | _ => false)
    else if t = TT.I32 then f.1.kt == 0 && f.1.vt == 0 && (match f.2 with | .i32 _ => true | _ => false)
    else if t = TT.I64 then f.1.kt == 0 && f.1.vt == 0 && (match f.2 with | .i64 _ => true | _ => false)
    else if t = TT.STRING then
      f.1.kt == 0 && f.1.vt == 0 && (match f.2 with | .str s => decide (s.length < 2147483648) | _ => false)
    else if t = TT.LIST ∨ t = TT.SET then
      f.1.kt == 0 &&
      (match f.2 with
       | .fields cs => decide (cs.length < 4294967296) && elemsOK (ufMeta d) (wt d) f.1.vt 0 cs
       | _ => false)
    else if t = TT.MAP then
      (match f.2 with
       | .fields kvs => decide (kvs.length / 2 < 4294967296) && ufKvsOK (ufMeta d) (wt d) f.1.kt f.1.vt 0 kvs
       | _ => false)
    else if t = TT.STRUCT then
      f.1.kt == 0 && f.1.vt == 0 && (match f.2 with | .fields fs => fs.all (wt d) | _ => false)
    else false

def WT (d : Nat) (f : UF d) : Prop := wt d f = true

instance (d : Nat) (f : UF d) : Decidable (WT d f) := inferInstanceAs (Decidable (_ = true))

/-- a well-typed sequence of ≥ 1 top-level fields (any ids) -/
def wts (d : Nat) (fs : List (UF d)) : Bool := fs ≠ [] && fs.all (wt d)

def WTs (d : Nat) (fs : List (UF d)) : Prop := wts d fs = true

instance (d : Nat) (fs : List (UF d)) : Decidable (WTs d fs) := inferInstanceAs (Decidable (_ = true))

/-! ## the encoding of a well-typed tree (Thrift Binary layout, written down directly) -/

/-- value bytes of one node; for payloads that do not fit the node's type the result is irrelevant -/
def ufSpecEnc : (d : Nat) → UF d → Bytes
  | 0, f => f.elim
  | d+1, f =>
    match f.2 with
    | .nil => []
    | .bool v => [if v then 1 else 0]
    | .i8 v => [v]
    | .i16 v => be16 v.toNat
    | .i32 v => be32 v.toNat
    | .i64 v => be64 v.toNat
    | .f64 bits => be64 bits.toNat
    | .str s => be32 s.length ++ s
    | .fields cs =>
      if f.1.typ = TT.STRUCT then
        (cs.map fun c => (ufMeta d c).typ :: be16 (ufMeta d c).id.toNat ++ ufSpecEnc d c).flatten ++ [0]
      else if f.1.typ = TT.MAP then
        f.1.kt :: f.1.vt :: be32 (cs.length / 2) ++ (cs.map (ufSpecEnc d)).flatten
      else
        f.1.vt :: be32 cs.length ++ (cs.map (ufSpecEnc d)).flatten

/-- a field sequence: (type, id, value)* -/
def ufSpecEncs (d : Nat) (fs : List (UF d)) : Bytes :=
  (fs.map fun c => (ufMeta d c).typ :: be16 (ufMeta d c).id.toNat ++ ufSpecEnc d c).flatten

end Verif

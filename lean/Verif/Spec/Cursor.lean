/-
  Spec/Cursor: the abstract contract of a buffered reader (property C04).

  There is the full source stream `S` and a cursor `pos` into it; `mark` is the cursor position at
  the last Release.  An operation reports a result; `Cur.step` says whether that report is what a
  plain cursor over `S` allows, and where the cursor is afterwards:

    Next n      (b, nil)  with b = S[pos, pos+n)  and  pos += n      | (nil, e), e ≠ nil, pos unchanged
    Peek n      (b, nil)  with b = S[pos, pos+n)  and  pos unchanged | (nil, e), e ≠ nil, pos unchanged
    Skip n      nil       with pos+n ≤ |S|        and  pos += n      | e ≠ nil, pos unchanged
    ReadBinary  (m, e)    with m ≤ n, the m bytes = S[pos, pos+m), pos += m, m < n only with e ≠ nil
    Release     mark := pos
    ReadLen     = pos - mark

  Nothing here knows about buffers, capacities or refills.  The same `Cur.step` judges the model's
  reports (theorems in Props/C04) and the implementation's reports (verdict column of Drv/Rd).

  The second half describes the *source* (the environment): which error is "the source's own"
  (`firstErr`), and when a script delivers enough (`Enough`, `Steady`) — used by the provenance and
  liveness statements.  `Resp`/`RErr` (one scripted `Read` call, the error alphabet) are the source
  description shared with Model/Reader; no reader code is referenced.
-/
import Verif.Base.Bytes
import Verif.Model.Reader
namespace Verif

/-- the operations of bufiox.Reader (n is a Go `int` for Next/Peek/Skip, `len(bs)` for ReadBinary) -/
inductive ROp where
  | next (n : Int)
  | peek (n : Int)
  | skip (n : Int)
  | readBinary (n : Nat)
  | release (e : Option RErr)   -- Release(e): the argument is the caller's error, if any
  | readLen
deriving Repr, DecidableEq

/-- what an operation reported; `ε` is the error alphabet, `none` is Go's `nil` error -/
inductive RRes (ε : Type) where
  | bytes (b : Bytes)                        -- Next/Peek: (b, nil)
  | done                                     -- Skip/Release: nil
  | fail (e : Option ε)                      -- Next/Peek/Skip returned error e (none = nil error!)
  | rb (b : Bytes) (m : Nat) (e : Option ε)  -- ReadBinary: reported m, the first min(m,n) bytes of bs, err
  | len (k : Nat)                            -- ReadLen
  | stuck                                    -- no report at all (panic / did not terminate)
deriving Repr, DecidableEq

/-- the error a report carries, if any -/
def RRes.err {ε : Type} : RRes ε → Option ε
  | .fail e => e
  | .rb _ _ e => e
  | _ => none

structure Cur where
  S : Bytes
  pos : Nat
  mark : Nat
deriving Repr, DecidableEq

def Cur.init (S : Bytes) : Cur := ⟨S, 0, 0⟩

/-- the bytes not yet consumed -/
def Cur.rest (c : Cur) : Bytes := c.S.drop c.pos

/-- judge one report; `.error reason` = the contract is broken -/
def Cur.step {ε : Type} (c : Cur) : ROp → RRes ε → Except String Cur
  | .next n, .bytes b =>
    if n < 0 then .error "ok-on-negative"
    else if b.length ≠ n.toNat then .error "length"
    else if b ≠ c.rest.take n.toNat then .error "bytes"
    else .ok { c with pos := c.pos + n.toNat }
  | .peek n, .bytes b =>
    if n < 0 then .error "ok-on-negative"
    else if b.length ≠ n.toNat then .error "length"
    else if b ≠ c.rest.take n.toNat then .error "bytes"
    else .ok c
  | .skip n, .done =>
    if n < 0 then .error "ok-on-negative"
    else if n.toNat > c.rest.length then .error "skip-past-end"
    else .ok { c with pos := c.pos + n.toNat }
  | .next _, .fail e | .peek _, .fail e | .skip _, .fail e =>
    if e.isNone then .error "nil-error" else .ok c
  | .readBinary n, .rb b m e =>
    if m > n then .error "overreport"
    else if b.length ≠ m then .error "length"
    else if b ≠ c.rest.take m then .error "bytes"
    else if m < n ∧ e.isNone then .error "short-without-error"
    else .ok { c with pos := c.pos + m }
  | .release _, .done => .ok { c with mark := c.pos }
  | .readLen, .len k => if k = c.pos - c.mark then .ok c else .error "readlen"
  | _, _ => .error "shape"

/-- judge a whole history -/
def Cur.run {ε : Type} (c : Cur) : List (ROp × RRes ε) → Except String Cur
  | [] => .ok c
  | (op, res) :: rest =>
    match c.step op res with
    | .ok c' => c'.run rest
    | .error s => .error s

/-! ## the source: its own error, and when it delivers enough -/

/-- the source's own error: the first scripted error, or io.EOF when the script is exhausted.
    (A reader stops reading at the first error, so this is the only source error it can ever see.) -/
def firstErr : List Resp → RErr
  | [] => .eof
  | r :: rest => match r.err with
    | some e => e
    | none => firstErr rest

/-- there are `m` consecutive error-free entries somewhere (necessary for `m` consecutive empty reads) -/
def quietRun (m : Nat) : List Resp → Nat → Bool
  | [], run => run ≥ m
  | r :: rest, run => run ≥ m || (if r.err.isNone then quietRun m rest (run + 1) else quietRun m rest 0)

/-- error provenance: which errors an operation may return over a source with this script.
    `maxEmpty` = bufiox.maxConsecutiveEmptyReads. -/
def errAllowed (maxEmpty : Nat) (script : List Resp) (op : ROp) (e : RErr) : Bool :=
  let data := e == firstErr script || (e == .noProgress && quietRun maxEmpty script 0)
  match op with
  | .next n | .peek n | .skip n => if n < 0 then e == .negCount else data
  | .readBinary _ => data
  | _ => false

/-- `Enough M script need zeros slen`: a reader that still needs `need > 0` bytes, has seen `zeros`
    consecutive empty reads, offers at least `need` bytes of room on every `Read`, and faces a
    source with this script and `slen` stream bytes left, gets its `need` bytes before the first
    error (data that arrives together with the error counts) and before `M` consecutive empty reads. -/
def Enough (M : Nat) : List Resp → Nat → Nat → Nat → Bool
  | [], _, _, _ => false
  | r :: rest, need, zeros, slen =>
    if zeros ≥ M then false
    else if min (min r.k need) slen ≥ need then true
    else if r.err.isSome then false
    else Enough M rest (need - min (min r.k need) slen)
           (if min (min r.k need) slen > 0 then 0 else zeros + 1) (slen - min (min r.k need) slen)

/-- `Steady M script slen z`: whatever room (≥ 1) the reader offers, the source hands over all of its
    `slen` remaining bytes before any error and without `M` consecutive empty reads (`z` = current
    run): while bytes are left every entry is error-free (or delivers the very last byte with its
    error), zero-byte entries come in runs shorter than `M`, and every other entry delivers ≥ 1. -/
def Steady (M : Nat) : List Resp → Nat → Nat → Bool
  | _, 0, _ => true
  | [], _+1, _ => false
  | r :: rest, slen+1, z =>
    if r.k = 0 then r.err.isNone && z + 1 < M && Steady M rest (slen+1) (z+1)
    else (r.err.isNone || slen = 0) && Steady M rest slen 0

/-- chunked source: every entry hands over `k ≥ 1` bytes, an error may sit only on the LAST entry
    (final data arriving together with io.EOF / an error) -/
def chunksOk : List Resp → Bool
  | [] => true
  | [x] => decide (1 ≤ x.k)
  | x :: rest => decide (1 ≤ x.k) && x.err.isNone && chunksOk rest

def sumK : List Resp → Nat
  | [] => 0
  | x :: rest => x.k + sumK rest

/-- `SteadyChunks B script slen`: a chunked script (arbitrary chunk sizes `k ≥ 1`, an error only on
    the last entry, together with its data) whose chunks cover the `slen` bytes left, for a stream that
    fits the reader's first buffer (`slen ≤ B`, `B` = bufiox.defaultBufSize).  Then the room the reader
    offers always covers everything left, every entry hands over its full `min k left`, and the last
    entry — error or not — hands over all the rest.  (For longer streams the room may be smaller than
    what is left when the last entry is read, and bytes arriving after the error would be lost: there
    `Enough` / `chunks_enough` is the exact per-request condition.) -/
def SteadyChunks (B : Nat) (script : List Resp) (slen : Nat) : Bool :=
  decide (slen ≤ B) && chunksOk script && decide (slen ≤ sumK script)

/-- liveness: a request that fits into the rest of the stream is served in full — no failure, no
    short ReadBinary (judged when the source's `Credit` says so, see below) -/
def liveOk {ε : Type} (c : Cur) : ROp → RRes ε → Bool
  | .next n, .fail _ | .peek n, .fail _ | .skip n, .fail _ => n < 0 || n.toNat > c.rest.length
  | .readBinary n, .rb _ m _ => m == min n c.rest.length
  | _, _ => true

/-- the non-negative request an operation makes, if any -/
def ROp.req : ROp → Option Nat
  | .next n | .peek n | .skip n => if n < 0 then none else some n.toNat
  | .readBinary n => some n
  | _ => none

/-- smallest chunk size of a script -/
def minK : List Resp → Nat
  | [] => 0
  | [x] => x.k
  | x :: rest => min x.k (minK rest)

/-- What the judge knows about the source's willingness to deliver, kept next to the cursor.
    `all`: every request that fits into the rest of the stream must be served (bytes reader, `Steady`
    script, or the source is known to have handed over everything).
    Otherwise `credit`: a *plain* script — every entry error-free with `k ≥ K ≥ 1`, any chunk sizes —
    hands over at least `min K (what is asked) (what is left)` bytes per `Read`, so `e` unread entries
    are good for `e * K` bytes; a request for `n` bytes uses up fewer than `n + K` of that.  A reader
    only ever gets a zero-length read when it offers zero room, which it must not do while it still
    needs bytes.  `credit` is a lower bound of `(unread entries) * K`. -/
structure Credit where
  K : Nat
  credit : Nat
  all : Bool
  /-- served high-water mark: the stream offset up to which the source has demonstrably handed its
      bytes to the reader (the reader has already served them: Next/Peek/Skip/ReadBinary results) -/
  hi : Nat := 0
deriving Repr, DecidableEq

def Credit.init (live : Bool) (script : List Resp) : Credit :=
  if script.all (fun x => x.err.isNone && decide (1 ≤ x.k)) then ⟨minK script, script.length * minK script, live, 0⟩
  else ⟨0, 0, live, 0⟩

/-- must this request be served in full (all `n` bytes, or — ReadBinary past the end — all that is left)? -/
def Credit.must (cr : Credit) (c : Cur) (op : ROp) : Bool :=
  cr.all || (match op.req with
    | some n => decide (min n c.rest.length ≤ cr.credit)
    | none => false)

/-- the credit after the operation (`c` = the cursor before it) -/
def Credit.after (cr : Credit) (c : Cur) (op : ROp) : Credit :=
  if cr.all then cr else
  match op.req with
  | none => cr
  | some n =>
    if n ≤ c.rest.length then
      { cr with credit := if n ≤ cr.credit then cr.credit - (n + cr.K) else 0 }
    else if c.rest.length ≤ cr.credit then { cr with all := true }   -- the source is drained now
    else { cr with credit := 0 }

/-- the stream offset up to which a report shows bytes served -/
def servedMark {ε : Type} (c : Cur) : ROp → RRes ε → Nat
  | .next _, .bytes b | .peek _, .bytes b => c.pos + b.length
  | .skip n, .done => c.pos + n.toNat
  | .readBinary _, .rb _ m _ => c.pos + m
  | _, _ => 0

/-- productive entries up to and including the first error entry (all entries if there is none).
    Each of them hands over ≥ 1 byte while bytes are left and the reader offers room, so at least
    `min (prodToErr script) |S|` bytes are out of the source before its own error can be seen. -/
def prodToErr : List Resp → Nat
  | [] => 0
  | x :: rest => (if x.k ≥ 1 then 1 else 0) + (if x.err.isSome then 0 else prodToErr rest)

/-- TIMELINESS of a failure: data must really have run out.
    A failing Next/Peek/Skip(n) at `pos` claims that fewer than `n` bytes are available behind `pos`;
    a short ReadBinary claims that exactly `m` were.  That contradicts (a) bytes the reader has
    already served (`cr.hi`: e.g. a successful Peek(10) followed by a failing Next(5)), and (b) for
    the source's own error (anything but io.ErrNoProgress): the bytes every productive entry in front
    of that error must have handed over (one each at least; data arriving with the error counts). -/
def timely (script : List Resp) (cr : Credit) (c : Cur) : ROp → RRes RErr → Bool
  | .next n, .fail (some e) | .peek n, .fail (some e) | .skip n, .fail (some e) =>
    n < 0 || (decide (c.pos + n.toNat > cr.hi) &&
              (e == .noProgress || decide (c.pos + n.toNat > min (prodToErr script) c.S.length)))
  | .readBinary _, .rb _ m (some e) =>
    decide (c.pos + m ≥ cr.hi) &&
      (e == .noProgress || decide (c.pos + m ≥ min (prodToErr script) c.S.length))
  | _, _ => true

/-- the complete judgement of one report (this is the driver's verdict): the cursor contract, then
    error provenance and timeliness, then liveness wherever the source's `Credit` says the request
    must be served -/
def Cur.judge (M : Nat) (script : List Resp) (cr : Credit) (c : Cur) (op : ROp) (res : RRes RErr) :
    Except String (Cur × Credit) :=
  match c.step op res with
  | .error why => .error why
  | .ok c' =>
    if (match res.err with
        | some e => !errAllowed M script op e
        | none => false) then .error "foreign-error"
    else if !timely script cr c op res then .error "premature-error"
    else if cr.must c op && !liveOk c op res then .error "spurious-failure"
    else .ok (c', { cr.after c op with hi := max cr.hi (servedMark c op res) })

def Cur.judgeRun (M : Nat) (script : List Resp) (cr : Credit) (c : Cur) :
    List (ROp × RRes RErr) → Except String (Cur × Credit)
  | [] => .ok (c, cr)
  | (op, res) :: rest =>
    match c.judge M script cr op res with
    | .ok p => p.1.judgeRun M script p.2 rest
    | .error s => .error s

end Verif

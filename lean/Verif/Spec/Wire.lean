/-
  Spec/Wire: the Thrift Binary encoding of scalars, strings and headers, as a printer.
  Nothing here comes from the repository: this is the wire format the property statements mean
  (big-endian integers, two's complement, 4-byte length prefixes, strict message version 0x8001).

  A value is printed by `enc`.  Type bytes (`TType`) are carried as the byte that goes on the wire.
  `double` is its IEEE-754 bit pattern (Go's Float64bits/Float64frombits are bit casts).
  Strings and binaries are byte strings (Go strings are arbitrary bytes).
-/
import Verif.Base.Bytes
namespace Verif.Wire

/-- the low 8 bits of a number, as a byte -/
def byte (n : Nat) : UInt8 := UInt8.ofNat (n % 256)

/-- unsigned big-endian, most significant byte first -/
def u16 (n : Nat) : Bytes := [byte (n / 2^8), byte n]
def u32 (n : Nat) : Bytes := [byte (n / 2^24), byte (n / 2^16), byte (n / 2^8), byte n]
def u64 (n : Nat) : Bytes :=
  [byte (n / 2^56), byte (n / 2^48), byte (n / 2^40), byte (n / 2^32),
   byte (n / 2^24), byte (n / 2^16), byte (n / 2^8), byte n]

/-- two's complement of a signed value in `bits` bits -/
def twos (bits : Nat) (v : Int) : Nat := if v < 0 then (v + 2^bits).toNat else v.toNat

inductive Val where
  | bool (b : Bool)
  | i8 (v : Int)
  | i16 (v : Int)
  | i32 (v : Int)
  | i64 (v : Int)
  | double (bits : Nat)
  | binary (s : Bytes)
  | str (s : Bytes)
  | fieldBegin (t : UInt8) (id : Int)
  | fieldStop
  | mapBegin (kt vt : UInt8) (n : Nat)
  | listBegin (et : UInt8) (n : Nat)
  | setBegin (et : UInt8) (n : Nat)
  | messageBegin (name : Bytes) (typ : Int) (seq : Int)
deriving Repr, DecidableEq

/-- the message type as it appears in the header: its low 16 bits -/
def msgType16 (typ : Int) : Nat := (typ % 65536).toNat

/-- THE wire format -/
def enc : Val → Bytes
  | .bool b => [if b then 1 else 0]
  | .i8 v => [byte (twos 8 v)]
  | .i16 v => u16 (twos 16 v)
  | .i32 v => u32 (twos 32 v)
  | .i64 v => u64 (twos 64 v)
  | .double bits => u64 bits
  | .binary s => u32 s.length ++ s
  | .str s => u32 s.length ++ s
  | .fieldBegin t id => t :: u16 (twos 16 id)
  | .fieldStop => [0]
  | .mapBegin kt vt n => kt :: vt :: u32 n
  | .listBegin et n => et :: u32 n
  | .setBegin et n => et :: u32 n
  | .messageBegin name typ seq =>
      u32 (0x80010000 + msgType16 typ) ++ u32 name.length ++ name ++ u32 (twos 32 seq)

def inI8 (v : Int) : Prop := -128 ≤ v ∧ v < 128
def inI16 (v : Int) : Prop := -32768 ≤ v ∧ v < 32768
def inI32 (v : Int) : Prop := -2147483648 ≤ v ∧ v < 2147483648
def inI64 (v : Int) : Prop := -9223372036854775808 ≤ v ∧ v < 9223372036854775808

instance (v : Int) : Decidable (inI8 v) := by unfold inI8; infer_instance
instance (v : Int) : Decidable (inI16 v) := by unfold inI16; infer_instance
instance (v : Int) : Decidable (inI32 v) := by unfold inI32; infer_instance
instance (v : Int) : Decidable (inI64 v) := by unfold inI64; infer_instance

/-- the domain of the round-trip claims: Go's value ranges; strings shorter than 2^31 bytes (the
    length prefix is an int32); container sizes 0 … 2^31-1; message types 0 … 65535; a field header
    whose type byte is STOP (0) *is* the field stop on the wire, so it is not a field header. -/
def Val.wf : Val → Prop
  | .bool _ => True
  | .i8 v => inI8 v
  | .i16 v => inI16 v
  | .i32 v => inI32 v
  | .i64 v => inI64 v
  | .double bits => bits < 2^64
  | .binary s => s.length < 2^31
  | .str s => s.length < 2^31
  | .fieldBegin t id => t ≠ 0 ∧ inI16 id
  | .fieldStop => True
  | .mapBegin _ _ n => n < 2^31
  | .listBegin _ n => n < 2^31
  | .setBegin _ n => n < 2^31
  | .messageBegin name typ seq => name.length < 2^31 ∧ 0 ≤ typ ∧ typ < 65536 ∧ inI32 seq

instance : DecidablePred Val.wf := fun v => by
  cases v <;> unfold Val.wf <;> infer_instance

/-- which reader a byte string is handed to -/
inductive Kind where
  | bool | i8 | i16 | i32 | i64 | double | binary | str | field | map | list | set | msg
deriving Repr, DecidableEq

/-- why a byte string cannot be read as `k` — the first failure in reading order -/
inductive Cause where
  | truncated | negativeSize | badVersion
deriving Repr, DecidableEq

/-- Thrift's protocol-exception type ids: INVALID_DATA = 1, NEGATIVE_SIZE = 2, BAD_VERSION = 4 -/
def Cause.typeId : Cause → Int
  | .truncated => 1
  | .negativeSize => 2
  | .badVersion => 4

/-- independent classification of a failed read: a string/binary whose 4-byte length has the sign bit
    set has a negative size; a message header whose first word is not 0x8001_____ has a bad
    version; everything else that fails is short of bytes (a negative *name* length inside a
    message header counts as invalid data, DESIGN §6.5) -/
def cause (k : Kind) (b : Bytes) : Cause :=
  match k with
  | .binary | .str => if 4 ≤ b.length ∧ rd32 b ≥ 2^31 then .negativeSize else .truncated
  | .msg => if 4 ≤ b.length ∧ rd32 b / 65536 ≠ 0x8001 then .badVersion else .truncated
  | _ => .truncated

/-! big-endian, two's complement, length prefix — one instance of each, by evaluation -/
example : enc (.i16 0x0102) = [0x01, 0x02] := by decide
example : enc (.i32 0x01020304) = [0x01, 0x02, 0x03, 0x04] := by decide
example : enc (.i64 0x0102030405060708) = [1, 2, 3, 4, 5, 6, 7, 8] := by decide
example : enc (.i32 (-2)) = [0xff, 0xff, 0xff, 0xfe] := by decide
example : enc (.i8 (-128)) = [0x80] := by decide
example : enc (.double 0x7ff8000000000001) = [0x7f, 0xf8, 0, 0, 0, 0, 0, 1] := by decide
example : enc (.str [0x68, 0x69, 0xff]) = [0, 0, 0, 3, 0x68, 0x69, 0xff] := by decide
example : enc (.fieldBegin 11 (-1)) = [11, 0xff, 0xff] := by decide
example : enc (.mapBegin 8 11 258) = [8, 11, 0, 0, 1, 2] := by decide
example : enc (.messageBegin [0x66] 1 7) = [0x80, 0x01, 0, 1, 0, 0, 0, 1, 0x66, 0, 0, 0, 7] := by decide
example : enc (.messageBegin [] 0x30002 (-1)) = [0x80, 0x01, 0, 2, 0, 0, 0, 0, 0xff, 0xff, 0xff, 0xff] := by decide

end Verif.Wire

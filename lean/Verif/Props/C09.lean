/-
  Props/C09 — zero-copy slices stay valid until Release/Flush; caller memory is never touched.
  (property theorems + non-vacuity examples only; lemmas in Lemmas/Mem*.lean)

  Setting (Base/Mem.lean): a heap of objects with owner states caller / live / freed / gc.  Every access
  the library makes is checked; a violation is LOGGED as a fault (useAfterFree, writeToCaller, freeCaller,
  doubleFree, freeForeign, freeInterior, bounds).  "faults = []" along every history therefore IS
  no_use_after_free + free_once + free_only_own + "never writes caller memory below its write limit" +
  "no slice panic"; `free_needs_live` spells out why for `Free`.
  Histories are arbitrary sequences of operations interleaved with arbitrary environment steps `Env`
  (the co-tenant overwrites every freed object, allocates, changes what dirty memory contains) and user
  allocations.  A co-tenant racing INSIDE one operation is runtime behaviour and not covered (partial,
  DESIGN §7): the `schedules` quantifier is "arbitrary environment steps between operations".
  Sizes: writer steps carry `n + len < 2^64` (Go `int` does not overflow); the pool is assumed to serve
  requests up to 2^45 bytes (`Heap.mcap`).
-/
import Verif.Lemmas.MemReaderRun
import Verif.Lemmas.MemWriterRun
import Verif.Lemmas.MemSkip
namespace Verif.C09
open Verif Verif.Mem Verif.Heap

/-! ## what a fault-free `Free` means -/

/-- `Free(buf)` with a non-empty capacity logs a fault unless `buf` is the FULL slice of an object that
    came from `Malloc` and has not been freed yet (owner `live`).  So "no fault" = every Free argument came
    from Malloc (free_only_own), is freed at most once (free_once), is never caller memory of any capacity,
    power of two or not (caller_untouched), and is no interior slice. -/
theorem free_needs_live (h : Heap) (s : Slice) (hpos : s.cap > 0) (hnf : (h.free s).faults = h.faults) :
    ∃ x, h.obj? s.obj = some x ∧ x.owner = .live ∧ s.off = 0 ∧ s.cap = x.data.length :=
  free_fault_unless_live h s hpos hnf

/-- after such a Free the object is `freed`: every later access by the library is a useAfterFree fault -/
theorem freed_access_faults (h : Heap) (o p n : Nat) (w : Bool) (x : Obj) (hx : h.obj? o = some x)
    (hf : x.owner = .freed) (hn : 0 < n) (hb : p + n ≤ x.data.length) :
    (h.chk o p n w).faults = .useAfterFree o :: h.faults := by
  unfold Heap.chk
  rw [if_neg (by omega), hx]; simp only []
  rw [if_neg (by omega), if_pos hf]; rfl

/-! ## reader -/

/-- slice_stable: the bytes of a slice returned by `Next` or `Peek` are the same at every later point
    of every history without `Release` — whatever is read (Next/Peek/Skip/ReadBinary of any size, any
    source behaviour), however often the buffer grows, whatever the environment does in between. -/
theorem slice_stable (r : MRd) (h : Heap) (n : Int) (s : Slice) (r1 : MRd) (h1 : Heap) (hi : RInv r h)
    (hn : r.next h n = (.ok s, r1, h1) ∨ r.peek h n = (.ok s, r1, h1))
    {b : RSt} (t : RSteps (r1, h1) b) : b.2.view s = h1.view s := by
  rcases hn with hn | hn
  · have := next_ok r h n hi
    rw [hn] at this
    exact view_stable s this.1.inv (this.2 s rfl).1 t
  · have := peek_ok r h n hi
    rw [hn] at this
    exact view_stable s this.1.inv (this.2 s rfl).1 t

/-- slice_stable for SkipDecoder.Next: the value slice it returns is a slice of the reader's buffer and
    stays unchanged along every later Release-free history (further SkipDecoder.Next calls included). -/
theorem slice_stable_skipdecoder (r : MRd) (h : Heap) (t : UInt8) (s : Slice) (r1 : MRd) (h1 : Heap)
    (hi : RInv r h) (hn : memSkipDecNext r h t = .ok (s, r1, h1))
    {b : RSt} (u : RSteps (r1, h1) b) : b.2.view s = h1.view s := by
  obtain ⟨ok, hp⟩ := memSkipDecNext_ok r h t s r1 h1 hn hi
  exact view_stable s ok.inv hp u

/-- reader_safe (no_use_after_free, free_once, free_only_own, no write to caller memory, no slice panic,
    for the reader): along EVERY history — Releases included — no fault is ever logged. -/
theorem reader_safe {a b : RSt} (hi : RInv a.1 a.2) (t : RStepsR a b) : b.2.faults = [] :=
  (t.inv hi).nofault

/-- caller_untouched (reader): every caller-owned object — the bytes-reader input with its whole
    capacity, power of two or not — is, after any history, still caller-owned and byte for byte what it
    was (never written, never passed to Free: a freed object would not be `caller` any more). -/
theorem caller_untouched_reader {a b : RSt} (hi : RInv a.1 a.2) (t : RStepsR a b) : CallerSame a.2 b.2 :=
  t.callerSame hi

/-- the initial states satisfy the invariant: a plain reader on any heap, a bytes reader on any slice of
    caller memory -/
theorem reader_init (src : Src) (buf : Slice) (h : Heap) (hf : h.faults = []) :
    RInv (MRd.newDefault src) h ∧
    (buf.len ≤ buf.cap → (∃ x, h.obj? buf.obj = some x ∧ buf.off + buf.cap ≤ x.data.length ∧ x.owner = .caller) →
      RInv (MRd.newBytes buf) h) :=
  ⟨RInv.newDefault src h hf, fun h1 h2 => RInv.newBytes buf h hf h1 h2⟩

/-- history_slice_stable (the statement to cite): start from `NewDefaultReader(src)` on any fault-free heap, or
    from `NewBytesReader(buf)` on any slice of caller memory; run ANY history (operations, Releases,
    environment steps, user allocations); let Next, Peek or SkipDecoder.Next return a slice; run ANY
    Release-free history.  Then the slice shows exactly the bytes it showed when it was returned, and no
    fault was logged anywhere on the way.  (Histories: `ReadBinary` only into Go-heap destinations
    (`GcDst`) — what the library itself and the harness pass; a destination aliasing the reader's own
    buffers is outside the model.) -/
theorem history_slice_stable (src : Src) (buf : Slice) (h0 : Heap) (hf : h0.faults = [])
    (r0 : MRd) (hr0 : r0 = MRd.newDefault src ∨
      (r0 = MRd.newBytes buf ∧ buf.len ≤ buf.cap ∧
        ∃ x, h0.obj? buf.obj = some x ∧ buf.off + buf.cap ≤ x.data.length ∧ x.owner = .caller))
    {a : RSt} (t1 : RStepsR (r0, h0) a) (n : Int) (ty : UInt8) (s : Slice) (r1 : MRd) (h1 : Heap)
    (hn : a.1.next a.2 n = (.ok s, r1, h1) ∨ a.1.peek a.2 n = (.ok s, r1, h1) ∨
      memSkipDecNext a.1 a.2 ty = .ok (s, r1, h1))
    {b : RSt} (t2 : RSteps (r1, h1) b) : b.2.view s = h1.view s ∧ b.2.faults = [] := by
  have hi0 : RInv r0 h0 := by
    rcases hr0 with rfl | ⟨rfl, hl, hb⟩
    · exact RInv.newDefault src h0 hf
    · exact RInv.newBytes buf h0 hf hl hb
  have hia : RInv a.1 a.2 := t1.inv hi0
  have hi1 : RInv r1 h1 := by
    rcases hn with hn | hn | hn
    · have := (next_ok a.1 a.2 n hia).1.inv; rw [hn] at this; exact this
    · have := (peek_ok a.1 a.2 n hia).1.inv; rw [hn] at this; exact this
    · exact (memSkipDecNext_ok a.1 a.2 ty s r1 h1 hn hia).1.inv
  refine ⟨?_, (t2.ok hi1).inv.nofault⟩
  rcases hn with hn | hn | hn
  · exact slice_stable a.1 a.2 n s r1 h1 hia (Or.inl hn) t2
  · exact slice_stable a.1 a.2 n s r1 h1 hia (Or.inr hn) t2
  · exact slice_stable_skipdecoder a.1 a.2 ty s r1 h1 hia hn t2

/-! ## ReaderSkipDecoder -/

/-- readerSkip_copy_then_free: one `growSlow` allocates a fresh pool buffer (a new object), copies the
    `n` bytes read so far into it, and only then frees the old buffer, which becomes `freed` and is not
    accessed again in this call (no fault is logged); the decoder then owns the new, live buffer. -/
theorem readerSkip_copy_then_free (p : MRsd) (k : Nat) (hi : RsdInv p) :
    RsdInv (p.growSlow k) ∧ (p.growSlow k).b.obj = p.h.size ∧
    (p.growSlow k).h.bytes (p.growSlow k).b.obj (p.growSlow k).b.off p.n = p.h.bytes p.b.obj p.b.off p.n ∧
    (0 < p.b.cap → ∃ x, (p.growSlow k).h.obj? p.b.obj = some x ∧ x.owner = .freed) := by
  obtain ⟨a, _, _, _, e, f, g⟩ := growSlow_ok p k hi
  exact ⟨a, e, f, g⟩

/-- ... and along a whole `ReaderSkipDecoder.Next` — any type, any source behaviour, any number of
    reallocations — no fault is logged (a freed buffer is never accessed again, each buffer is freed once,
    only own buffers are freed); the returned window `p.b[:p.n]` lies in the decoder's live buffer and is
    unchanged by environment steps until the next call. -/
theorem readerSkip_next_safe (p : MRsd) (t : UInt8) (s : Slice) (p' : MRsd) (hi : RsdInv p)
    (hn : memReaderDecNext p t = .ok (s, p')) :
    RsdInv p' ∧ p'.h.faults = [] ∧
    (0 < s.len → ∃ x, p'.h.obj? s.obj = some x ∧ x.owner = .live ∧ s.off + s.len ≤ x.data.length) ∧
    (∀ h', Env p'.h h' → RsdInv { p' with h := h' } ∧ h'.view s = p'.h.view s) := by
  obtain ⟨a, b, c⟩ := memReaderDecNext_ok p t s p' hn hi
  exact ⟨a, a.nofault, c, fun h' he => by rw [b]; exact a.env he⟩

/-- rsd_retained_not_freed: along every history of a ReaderSkipDecoder — Next calls of any type over any
    source, Release followed by re-use of the pooled decoder (which RETAINS its buffer), environment
    steps — the buffer the decoder holds is never in the free list: it is a live pool object (owner
    `live`, i.e. obtained from Malloc and not given back), it is the full slice of that object, and no
    fault (use after free, double free, foreign free) has been logged. -/
theorem rsd_retained_not_freed (src : Src) (h0 : Heap) (hf : h0.faults = []) {p : MRsd}
    (t : RsdSteps ⟨Slice.nil, 0, src, h0⟩ p) :
    p.h.faults = [] ∧
    (0 < p.b.cap → ∃ x, p.h.obj? p.b.obj = some x ∧ x.owner = .live ∧ p.b.off = 0 ∧ p.b.cap = x.data.length) := by
  have hi := t.inv (RsdInv.init src h0 hf)
  exact ⟨hi.nofault, hi.buf_ok⟩

/-! ## writer -/

/-- regions_live_disjoint: a region `A` handed out by `Malloc` is, at every later point of every
    Flush-free history (more Mallocs and WriteBinarys forcing any number of growths, the user filling its
    other regions, environment steps), still one of the writer's regions, pairwise disjoint from all the
    others, writable (a checked write through it passes: its object is not recycled, and if it is the
    caller's target the region lies in the spare capacity), and holds exactly the bytes its owner left. -/
theorem regions_live_disjoint (w : MWr) (h : Heap) (n : Int) (A : Slice) (w1 : MWr) (h1 : Heap) (hi : WInv w h)
    (hsz : n.toNat + w.buf.len < 2 ^ 64) (hm : w.malloc h n = (.ok A, w1, h1))
    {b : WSt} (t : WSteps A (w1, h1) b) :
    A ∈ b.1.regions ∧ b.1.regions.Pairwise Slice.Disjoint ∧
    b.2.chk A.obj A.off A.len true = b.2 ∧ b.2.view A = h1.view A := by
  have hmo := wMalloc_ok w h n hi hsz
  rw [hm] at hmo
  obtain ⟨hA, _⟩ := hmo.2 A rfl
  have ok := t.aok hmo.1.inv hA
  refine ⟨ok.regs A hA, ok.inv.reg_disj, ?_, ?_⟩
  · by_cases h0 : A.len = 0
    · rw [h0, chk_zero]
    · obtain ⟨x, hx, hb, hnf, hcl⟩ := ok.inv.reg_w A (ok.regs A hA) (by omega)
      exact chk_write_ok b.2 _ _ _ x hx hb hnf hcl
  · unfold Heap.view
    exact bytes_congr _ _ _ _ _ ok.same

/-- writer_safe + caller_untouched (writer) + cache_disabled_no_pool: along EVERY writer history
    (Flushes, failed or not, and user fills included):
    no fault is logged (no use after free, every Free argument is an own live full buffer, freed once);
    caller memory below its write limit — WriteBinary payloads entirely, the bytes-writer target's
    initial contents `[0:len)` — is unchanged and still the caller's (only spare capacity is written);
    a writer with the cache disabled (bytes writer) makes no call to the pool at all. -/
theorem writer_safe {a b : WSt} (hi : WInv a.1 a.2) (t : WStepsF a b) :
    b.2.faults = [] ∧ CallerLow a.2 b.2 ∧ (a.1.disableCache = true → b.2.events = a.2.events) := by
  obtain ⟨i, l, e, _⟩ := t.ok hi
  exact ⟨i.nofault, l, e⟩

theorem writer_init (okLeft : Option Nat) (target : Slice) (isNil : Bool) (h : Heap) (hf : h.faults = []) :
    WInv (MWr.newDefault okLeft) h ∧
    (target.len ≤ target.cap →
     (0 < target.cap → ∃ x, h.obj? target.obj = some x ∧ target.off + target.cap ≤ x.data.length ∧
        x.owner = .caller ∧ x.wfrom ≤ target.off + target.len) →
     WInv (MWr.newBytes target isNil) h ∧ (MWr.newBytes target isNil).disableCache = true) :=
  ⟨WInv.newDefault okLeft h hf, fun h1 h2 => ⟨WInv.newBytes target isNil h hf h1 h2, rfl⟩⟩

/-! ## the named obligations of DESIGN §4 "C09", as corollaries over reader AND writer histories -/

/-- no_use_after_free: no instance ever reads or writes an object it has given back to the pool -/
theorem no_use_after_free {a b : RSt} {c d : WSt} (hr : RInv a.1 a.2) (tr : RStepsR a b)
    (hw : WInv c.1 c.2) (tw : WStepsF c d) (o : Nat) :
    Fault.useAfterFree o ∉ b.2.faults ∧ Fault.useAfterFree o ∉ d.2.faults := by
  rw [reader_safe hr tr, (writer_safe hw tw).1]; simp

/-- free_once: no buffer is passed to Free twice -/
theorem free_once {a b : RSt} {c d : WSt} (hr : RInv a.1 a.2) (tr : RStepsR a b)
    (hw : WInv c.1 c.2) (tw : WStepsF c d) (o : Nat) :
    Fault.doubleFree o ∉ b.2.faults ∧ Fault.doubleFree o ∉ d.2.faults := by
  rw [reader_safe hr tr, (writer_safe hw tw).1]; simp

/-- free_only_own: every Free argument is the full slice of a buffer that came from Malloc — never
    caller memory (of any capacity), never a Go-heap object, never an interior slice -/
theorem free_only_own {a b : RSt} {c d : WSt} (hr : RInv a.1 a.2) (tr : RStepsR a b)
    (hw : WInv c.1 c.2) (tw : WStepsF c d) (o : Nat) :
    (Fault.freeCaller o ∉ b.2.faults ∧ Fault.freeForeign o ∉ b.2.faults ∧ Fault.freeInterior o ∉ b.2.faults) ∧
    (Fault.freeCaller o ∉ d.2.faults ∧ Fault.freeForeign o ∉ d.2.faults ∧ Fault.freeInterior o ∉ d.2.faults) := by
  rw [reader_safe hr tr, (writer_safe hw tw).1]; simp

/-- caller_untouched: reader histories leave every caller object exactly as it was; writer histories
    leave every caller object unchanged below its write limit (payloads entirely, the bytes-writer
    target's initial contents) — and none of them is ever freed (it is still `caller` afterwards) -/
theorem caller_untouched {a b : RSt} {c d : WSt} (hr : RInv a.1 a.2) (tr : RStepsR a b)
    (hw : WInv c.1 c.2) (tw : WStepsF c d) : CallerSame a.2 b.2 ∧ CallerLow c.2 d.2 :=
  ⟨caller_untouched_reader hr tr, (writer_safe hw tw).2.1⟩

/-- cache_disabled_no_pool: a bytes writer never calls Malloc or Free of the pool -/
theorem cache_disabled_no_pool {c d : WSt} (hw : WInv c.1 c.2) (tw : WStepsF c d)
    (hd : c.1.disableCache = true) : d.2.events = c.2.events :=
  (writer_safe hw tw).2.2 hd

/-! ## non-vacuity -/

/-- a bytes reader over a 3-byte caller buffer of capacity 3 (not a power of two): the hypotheses of
    `slice_stable` hold for `Next(2)` -/
example : let h0 := (Heap.empty (fun _ _ => 0)).callerAlloc [1, 2, 3] 3 3
    RInv (MRd.newBytes h0.1) h0.2 ∧
    ∃ s r1 h1, (MRd.newBytes h0.1).next h0.2 2 = (.ok s, r1, h1) ∧ h1.view s = [1, 2] := by
  refine ⟨RInv.newBytes _ _ rfl (by decide) ⟨⟨[1, 2, 3], .caller, 3⟩, rfl, by decide, rfl⟩, ?_⟩
  exact ⟨_, _, _, rfl, by decide⟩

/-- the environment really is adversarial: once a pool buffer has been freed, the co-tenant overwriting
    it is an `Env` step -/
example : let h0 := (Heap.empty (fun _ _ => 0)).malloc 2 0
    let h1 := h0.2.free h0.1
    Env h1 (h1.setData 0 0 [0xDE, 0xDE]) :=
  Heap.Env.overwrite _ 0 ⟨[0, 0], .freed, 0⟩ [0xDE, 0xDE] rfl rfl rfl

/-- a bytes writer over a caller target `[9, 9 | _, _, _]` (len 2, cap 5): Malloc(2) hands out the spare
    bytes 2..3 -/
example : let h0 := (Heap.empty (fun _ _ => 0)).callerAlloc [9, 9, 0, 0, 0] 2 2
    WInv (MWr.newBytes h0.1 false) h0.2 ∧
    ∃ A w1 h1, (MWr.newBytes h0.1 false).malloc h0.2 2 = (.ok A, w1, h1) ∧ A.off = 2 ∧ A.len = 2 := by
  refine ⟨WInv.newBytes _ _ _ rfl (by decide) (fun _ => ⟨⟨[9, 9, 0, 0, 0], .caller, 2⟩, rfl, by decide, rfl, by decide⟩), ?_⟩
  exact ⟨_, _, _, rfl, rfl, rfl⟩

end Verif.C09

/-
  Props/C10 — TTHeader decode validates hostile frames and keeps the framing arithmetic.
  (property theorems and non-vacuity examples only; lemmas in Lemmas/Tth{Ref,Dec,Decode}.lean)

  `decodeBytes b cap` = ttheader.Decode(ctx, bufiox.NewBytesReader(bs)) with len(bs) = b, cap(bs) = cap
  (this is DecodeFromBytes plus the reader's ReadLen): (result, bytes consumed).
  `Frame.Valid b secs` = "the magic matches, the declared header size lies within 2..65536 and is present,
  the protocol id is supported, the transform ids fit, and the info area is exactly the complete
  sections `secs`" (Spec/Frame.lean); `Frame.meaning b secs` = what such a frame says.
-/
import Verif.Lemmas.TthDecode
import Verif.Lemmas.TthStream
namespace Verif.C10
open Verif.TTH Verif.Frame

/-- a model result agrees with the spec's reading of the frame (nil map ≃ empty map) -/
def agrees (p : DecParam) (d : Decoded) : Prop :=
  p.flags = d.flags ∧ p.seq = d.seq ∧ p.proto = d.proto ∧ mk p.intKV = d.intKV ∧ mk p.strKV = d.strKV ∧
  p.headerLen = d.headerLen ∧ p.payloadLen = d.payloadLen

/-- **decode_safe.** For every byte string (and every capacity of the slice): Decode returns a result or
    an error — no index/slice panic, no out-of-bounds load, the `for {}` loop terminates (its fuel never
    runs out) — and it consumes at most 14 bytes plus the declared header size and never more than the
    input holds. -/
theorem decode_safe (b : Bytes) (cap : Nat) (hcap : b.length ≤ cap) :
    (decodeBytes b cap).1.Safe ∧ (decodeBytes b cap).1 ≠ .err .nofuel ∧
    (decodeBytes b cap).2 ≤ b.length ∧ (decodeBytes b cap).2 ≤ 14 + declared b := by
  rw [decodeBytes_eq_cur b cap hcap]
  have hs := decodeCur_spec b
  refine ⟨?_, ?_, (decodeCur_consumed b).1, (decodeCur_consumed b).2⟩
  · cases hv : refValid b with
    | some secs => rw [hv] at hs; rw [hs]; exact ⟨fun s => by simp, by simp⟩
    | none =>
      rw [hv] at hs; obtain ⟨e, he, _⟩ := hs
      rw [he]; exact ⟨fun s => by simp, by simp⟩
  · cases hv : refValid b with
    | some secs => rw [hv] at hs; rw [hs]; simp
    | none =>
      rw [hv] at hs; obtain ⟨e, he, hne⟩ := hs
      rw [he]; intro h; exact hne (Out.err.inj h)

/-- **decode_ok_iff.** Decode succeeds if and only if the input starts with a valid frame: magic,
    `2 ≤ 4·sizeField ≤ 65536` (so size fields above 0x4000 are rejected, not wrapped), all declared bytes
    present, protocol id in the allow-list of the source (which is the documented list), transform count
    within the area, every info section complete and every info id known. -/
theorem decode_ok_iff (b : Bytes) (cap : Nat) (hcap : b.length ≤ cap) :
    (∃ p, (decodeBytes b cap).1 = .ok p) ↔ ∃ secs, Valid b secs := by
  rw [decodeBytes_eq_cur b cap hcap]
  have hs := decodeCur_spec b
  constructor
  · rintro ⟨p, hp⟩
    cases hv : refValid b with
    | some secs => exact ⟨secs, (refValid_iff b secs).mp hv⟩
    | none =>
      rw [hv] at hs; obtain ⟨e, he, _⟩ := hs
      rw [he] at hp; cases hp
  · rintro ⟨secs, hv⟩
    have := (refValid_iff b secs).mpr hv
    rw [this] at hs
    exact ⟨_, by rw [hs]⟩

/-- **decode_ok_values.** On success, for the (unique) sections of the frame: HeaderLen = 14 + declared
    size = bytes consumed, PayloadLen = total length + 4 − HeaderLen, flags / sequence id / protocol id
    are the frame's, and the two maps are exactly the left-to-right fold of the sections (later entries
    win; the ACL token is stored under GDPRToken). -/
theorem decode_ok_values (b : Bytes) (cap : Nat) (hcap : b.length ≤ cap) (p : DecParam) (secs : List Sec)
    (hp : (decodeBytes b cap).1 = .ok p) (hv : Valid b secs) :
    agrees p (meaning b secs) ∧ (decodeBytes b cap).2 = 14 + declared b ∧
    p.headerLen = ((decodeBytes b cap).2 : Int) := by
  rw [decodeBytes_eq_cur b cap hcap] at hp ⊢
  have hs := decodeCur_spec b
  rw [(refValid_iff b secs).mpr hv] at hs
  rw [hs] at hp ⊢
  have hp' := Out.ok.inj hp
  subst hp'
  have hm := pairOf_applyMs secs ⟨none, none⟩
  refine ⟨⟨rfl, rfl, rfl, ?_, ?_, ?_, ?_⟩, rfl, ?_⟩
  · exact congrArg Prod.fst hm
  · exact congrArg Prod.snd hm
  · simp only [toParam, meaning]; omega
  · simp only [toParam, meaning]; omega
  · simp only [toParam]; omega

/-- the sections of a valid frame are unique, so `decode_ok_values` determines the result completely -/
theorem valid_sections_unique (b : Bytes) (s1 s2 : List Sec) (h1 : Valid b s1) (h2 : Valid b s2) : s1 = s2 :=
  encSecs_inj h1.wf h2.wf (by rw [← h1.sections, ← h2.sections])

/-- **decode_stream.** The same over a stream: for every reader that keeps the bufiox.Reader contract
    (`ReaderOK`: Next(n) returns exactly the next n bytes of the remaining stream and advances by n, or fails
    with a non-nil error without moving — whatever the fragmentation of the source), Decode either behaves
    exactly as on the remaining stream given as one slice (same result, same bytes consumed), or returns
    the reader's own error having consumed no more. Hence: never a panic, success only on a valid frame,
    and the values of `decode_ok_values`. -/
theorem decode_stream {σ : Type} (next : σ → Int → RdRes × σ) (rem : σ → Bytes) (pos : σ → Nat)
    (hc : ReaderOK next rem pos) (s : σ) :
    (decodeG next s).1.Safe ∧ (decodeG next s).1 ≠ .err .nofuel ∧
    pos (decodeG next s).2 ≤ pos s + (rem s).length ∧ pos (decodeG next s).2 ≤ pos s + (14 + declared (rem s)) ∧
    (∀ p, (decodeG next s).1 = .ok p → ∃ secs, Valid (rem s) secs ∧ agrees p (meaning (rem s) secs) ∧
        pos (decodeG next s).2 = pos s + (14 + declared (rem s))) := by
  have hcur := decode_safe (rem s) (rem s).length (Nat.le_refl _)
  rw [decodeBytes_eq_cur _ _ (Nat.le_refl _)] at hcur
  obtain ⟨hsafe, hnf, hl1, hl2⟩ := hcur
  rcases decodeG_contract next rem pos hc s with ⟨e1, e2⟩ | ⟨e, e1, e2⟩
  · refine ⟨by rw [e1]; exact hsafe, by rw [e1]; exact hnf, by omega, by omega, ?_⟩
    intro p hp
    rw [e1] at hp
    have hp' : (decodeBytes (rem s) (rem s).length).1 = .ok p := by
      rw [decodeBytes_eq_cur _ _ (Nat.le_refl _)]; exact hp
    obtain ⟨secs, hv⟩ := (decode_ok_iff (rem s) _ (Nat.le_refl _)).mp ⟨p, hp'⟩
    obtain ⟨ha, hcons, _⟩ := decode_ok_values (rem s) _ (Nat.le_refl _) p secs hp' hv
    rw [decodeBytes_eq_cur _ _ (Nat.le_refl _)] at hcons
    exact ⟨secs, hv, ha, by rw [e2, hcons]⟩
  · refine ⟨by rw [e1]; exact ⟨fun s => by simp, by simp⟩, by rw [e1]; simp, by omega, by omega, ?_⟩
    intro p hp; rw [e1] at hp; cases hp

/-- the contract is satisfiable: the plain cursor keeps it -/
example : ReaderOK Cur.next (fun c => c.b.drop c.pos) (fun c => c.pos) := cur_readerOK

/-! ### non-vacuity -/

/-- the smallest valid frame: 4 declared bytes (protocol id, no transforms, two padding bytes) -/
example : (decodeBytes [0, 0, 0, 0x0e, 0x10, 0, 0, 5, 0, 0, 0, 1, 0, 1, 0, 0, 0, 0] 18) =
    (.ok { flags := 5, seq := 1, proto := 0, intKV := none, strKV := none, headerLen := 18, payloadLen := 0 }, 18) := by
  decide +kernel

example : Valid [0, 0, 0, 0x0e, 0x10, 0, 0, 5, 0, 0, 0, 1, 0, 1, 0, 0, 0, 0] [.pad, .pad] :=
  (refValid_iff _ _).mp (by decide +kernel)

/-- F7 witness: size field 0x4001 declares 65540 bytes and is rejected (it used to wrap to 4 and be accepted) -/
example : (decodeBytes [0, 0, 0, 0x20, 0x10, 0, 0, 0, 0, 0, 0, 1, 0x40, 0x01, 0, 0, 0, 0] 18) =
    (.err .badSize, 14) := by decide +kernel

/-- later entries win, the token goes under GDPRToken: str{a=b} acl(t) str{a=c} -/
example : (decodeBytes [0, 0, 0, 0x20, 0x10, 0, 0, 0, 0, 0, 0, 1, 0, 6,
      0, 0, 1, 0, 1, 0, 1, 97, 0, 1, 98, 0x11, 0, 1, 116, 1, 0, 1, 0, 1, 97, 0, 1, 99, 0, 0] 40).1 =
    .ok { flags := 0, seq := 1, proto := 0, intKV := none,
          strKV := some [([97], [99]), (gdprKey, [116]), ([97], [98])], headerLen := 38, payloadLen := -2 } := by
  decide +kernel

end Verif.C10

/-
  Props/C19 — Apache bridge: buffer transport is the buffer; callbacks pass through
  (property theorems only).  Thin by nature: that the transport handle and the buffer handle are one
  state is the modelling ASSUMPTION for the `unsafe.Pointer` cast (checked by Tie B, family `apx`);
  what is proved is that on that state every history behaves as one FIFO queue.
-/
import Verif.Lemmas.Apache
namespace Verif.C19
open Verif.Apx

/-- After every sequence of Write/Read/Reset/Close/no-op operations through either handle, starting
    from `bytes.NewBuffer(init)`: the transport's RemainingBytes equals the buffer's Len, and both equal
    the number of unread bytes of the FIFO queue. -/
theorem remaining_eq_len (init : Bytes) (ops : List Op) :
    remainingBytes (run (Buf.new init) ops).1 = (run (Buf.new init) ops).1.len ∧
    (run (Buf.new init) ops).1.len = (specRun init ops).1.length := by
  refine ⟨rfl, ?_⟩
  have h := (run_refines ops (Buf.new init) (Buf.new_wf init)).2.1
  rw [Buf.len_eq, h]
  rfl

/-- Every read, write and reset through either handle is visible through the other: all results and
    the unread contents are those of the one FIFO queue … -/
theorem history_is_queue (init : Bytes) (ops : List Op) :
    (run (Buf.new init) ops).2 = (specRun init ops).2 ∧
    (run (Buf.new init) ops).1.bytes = (specRun init ops).1 := by
  have h := run_refines ops (Buf.new init) (Buf.new_wf init)
  exact ⟨h.2.2, h.2.1⟩

/-- … and which handle performs an operation makes no difference. -/
theorem handle_irrelevant (s : Buf) (ops : List Op) : run s (ops.map swapHandle) = run s ops := by
  induction ops generalizing s with
  | nil => rfl
  | cons op ops ih => simp only [List.map_cons, run, step_swap, ih]

/-- the `len(b.buf) - b.off` of `Len()` never underflows on a reachable state -/
theorem reachable_wf (init : Bytes) (ops : List Op) : (run (Buf.new init) ops).1.WF :=
  (run_refines ops (Buf.new init) (Buf.new_wf init)).1

/-- Close (through the transport) empties the buffer, whatever it held. -/
theorem close_empties (s : Buf) :
    (step s .close).1.len = 0 ∧ (step s .close).1.bytes = [] ∧ remainingBytes (step s .close).1 = 0 := by
  simp [step, Buf.reset, Buf.len, Buf.bytes, remainingBytes]

/-- Generic transport: the wrapped object's readable length when it exposes a positive one,
    otherwise "unknown" = 2⁶⁴ − 1. -/
theorem remaining_default (rl : Option Int) :
    remainingDefault rl =
      match rl with
      | some n => if 0 < n then n.toNat else 18446744073709551615
      | none => 18446744073709551615 := by
  cases rl <;> simp [remainingDefault]

theorem remaining_default_pos (n : Int) (h : 0 < n) : (remainingDefault (some n) : Int) = n := by
  simp [remainingDefault, h]; omega

/-- The generic transport reports the wrapped object's readable length (when positive, else
    "unknown") regardless of any other method the object has — in particular regardless of a
    `RemainingBytes` of its own; a `*bufferTransport` handed back in is wrapped like anything else and,
    having no `ReadableLen`, reports "unknown"; only a `*bytes.Buffer` becomes a buffer transport. -/
theorem remaining_default_ignores_own (rl : Option Int) (own : Option Nat) (s : Buf) :
    newDefaultRemaining (.other rl own) = remainingDefault rl ∧
    newDefaultRemaining (.bufferTransport s) = 18446744073709551615 ∧
    newDefaultRemaining (.bytesBuffer s) = s.len := ⟨rfl, rfl, rfl⟩

/-- Close of the generic transport returns (nil) without touching the wrapped object: state, unread
    bytes and the remaining-bytes figure are unchanged — unlike the buffer transport (`close_empties`). -/
theorem close_noop (d : DT) :
    dtStep d .close = (d, .done) ∧ dtRemaining (dtStep d .close).1 = dtRemaining d ∧
    (dtStep d .close).1.s.bytes = d.s.bytes := ⟨rfl, rfl, rfl⟩

/-- Hence a history on a generic transport is the history of the wrapped object with every Close
    erased: later reads and writes still see exactly what was written before the Close. -/
theorem default_history_passthrough (d : DT) (ops : List Op) :
    (dtRun d ops).1.s = (run d.s (ops.map closeToNoop)).1 ∧
    (dtRun d ops).2 = (run d.s (ops.map closeToNoop)).2 ∧
    (dtRun d ops).1.hasRL = d.hasRL := by
  have hstep : ∀ (d : DT) (op : Op), (dtStep d op).1.s = (step d.s (closeToNoop op)).1 ∧
      (dtStep d op).2 = (step d.s (closeToNoop op)).2 ∧ (dtStep d op).1.hasRL = d.hasRL := by
    intro d op; cases op <;> exact ⟨rfl, rfl, rfl⟩
  induction ops generalizing d with
  | nil => exact ⟨rfl, rfl, rfl⟩
  | cons op ops ih =>
    obtain ⟨h1, h2, h3⟩ := ih (dtStep d op).1
    obtain ⟨s1, s2, s3⟩ := hstep d op
    simp only [dtRun, run, List.map_cons]
    rw [h1, h2, h3, s1, s2, s3]
    exact ⟨rfl, rfl, rfl⟩

/-- A registered callback receives exactly the arguments given and its result is returned. -/
theorem callback_passthrough {α β ρ : Type} (r : Registry α β ρ)
    (fc : α → ρ) (fr fw : β → α → ρ) (x : β) (v : α) :
    checkTStruct (r.regCheck (some fc)) v = .ok (fc v) ∧
    thriftRead (r.regRead (some fr)) x v = .ok (fr x v) ∧
    thriftWrite (r.regWrite (some fw)) x v = .ok (fw x v) := ⟨rfl, rfl, rfl⟩

/-- An unregistered callback (never registered, or registered as nil) yields its specific error. -/
theorem callback_unregistered {α β ρ : Type} (r : Registry α β ρ) (x : β) (v : α) :
    checkTStruct (Registry.empty : Registry α β ρ) v = .error .checkNotRegistered ∧
    thriftRead (Registry.empty : Registry α β ρ) x v = .error .readNotRegistered ∧
    thriftWrite (Registry.empty : Registry α β ρ) x v = .error .writeNotRegistered ∧
    checkTStruct (r.regCheck none) v = .error .checkNotRegistered ∧
    thriftRead (r.regRead none) x v = .error .readNotRegistered ∧
    thriftWrite (r.regWrite none) x v = .error .writeNotRegistered := ⟨rfl, rfl, rfl, rfl, rfl, rfl⟩

/-- registering one callback does not disturb the other two -/
theorem callback_independent {α β ρ : Type} (r : Registry α β ρ) (f : Option (α → ρ)) (x : β) (v : α) :
    thriftRead (r.regCheck f) x v = thriftRead r x v ∧ thriftWrite (r.regCheck f) x v = thriftWrite r x v :=
  ⟨rfl, rfl⟩

/-! non-vacuity -/
example : (run (Buf.new [1, 2, 3]) [.read .T 2, .write .B [9], .read .B 5, .read .T 1]).2 =
    [.got [1, 2] false, .wrote 1, .got [3, 9] false, .got [] true] := by decide
example : remainingDefault (some 5) = 5 ∧ remainingDefault (some 0) = 2 ^ 64 - 1 ∧
    remainingDefault (some (-3)) = 2 ^ 64 - 1 := by decide
example : newDefaultRemaining (.other (some 7) (some 3)) = 7 ∧ newDefaultRemaining (.other (some 0) (some 3)) = 2 ^ 64 - 1 := by decide
example : (dtRun ⟨Buf.new [1, 2], true⟩ [.close, .read .T 1, .close, .write .B [9], .read .T 5]).2 =
    [.done, .got [1] false, .done, .wrote 1, .got [2, 9] false] := by decide
example : checkTStruct ((Registry.empty : Registry Nat Nat Nat).regCheck (some (· + 1))) 4 = .ok 5 := rfl

end Verif.C19

/-
  Props/C14 — concurrent use: separate instances are isolated; maps are safe to read.  PARTIAL by nature.

  What is logic and is proved here (model: Model/Pools):
    * recycled_is_fresh_*  the state Release/Recycle leaves a pooled object in IS the state of a new one
                           (for ReaderSkipDecoder: up to its private buffer, whose old content is never
                           exposed — `readerSkip_old_buffer_never_exposed`);
    * isolation            for EVERY interleaving of WHOLE operations of any number of instances, whatever
                           object `Get` returns and whatever (recycled) memory `Malloc` returns, every
                           instance observes exactly what it observes when run alone;
    * no_cross_bytes       what an instance observes does not depend on anything the others do;
    * get_pure             `Get` is a function of the loaded map and changes nothing, so any number of
                           concurrent Gets return the sequential answers (with the regenerated fact that
                           the Go methods assign to nothing reachable from the receiver).
  What the model CANNOT exhibit (named runtime behaviour, DESIGN §7): a data race inside an operation,
  sync.Pool internals, the span cache's CAS lock and its fallback under contention, a SetSpanCache
  racing with readers.  The many-goroutine stress run and the race-detector run of the `pool` family
  only VALIDATE the atomicity assumption ("one event = one whole operation"); they prove nothing.
-/
import Verif.Lemmas.Pools
namespace Verif.C14
open Verif Verif.Pools

/-! ## recycled = fresh -/

/-- BufferReader: after `Recycle` the object is `BufferReader{r: nil}`, whatever it was -/
theorem recycled_is_fresh_bufferReader (o : BufferReaderObj) : o.recycle = BufferReaderObj.zero := rfl

/-- BufferWriter: after `Recycle` the object is `BufferWriter{w: nil}` -/
theorem recycled_is_fresh_bufferWriter (o : BufferWriterObj) : o.recycle = BufferWriterObj.zero := rfl

/-- SkipDecoder: after `Release` the object is `SkipDecoder{}` -/
theorem recycled_is_fresh_skipDecoder (o : SkipDecoderObj) : o.release = SkipDecoderObj.zero := rfl

/-- BytesSkipDecoder: after `Release` the object is `BytesSkipDecoder{n: 0, b: nil}` -/
theorem recycled_is_fresh_bytesSkipDecoder (o : BytesSkipDecoderObj) :
    o.release = BytesSkipDecoderObj.zero := rfl

/-- ReaderSkipDecoder: after `Release` the object is `ReaderSkipDecoder{r: nil, n: 0, b: <old buffer>}` -/
theorem recycled_is_fresh_readerSkipDecoder (o : ReaderSkipDecoderObj) :
    o.release = { ReaderSkipDecoderObj.zero with b := o.b } := rfl

/-! ## isolation -/

/-- **isolation** (generic form).  For a kind whose instances refine an allocator-free machine (`Good`):
    for EVERY history — any number of instances, any interleaving of their whole operations, any
    choice of pooled object at every `Get`, any choice of recycled buffer or fresh memory with any
    content at every `Malloc` — the results instance `i` observes are exactly the results it observes
    when it runs alone, on new objects and zeroed memory. -/
theorem isolation_generic {K : Kind} (G : Good K) (evs : List (Ev K)) (i : Nat) :
    ((Sys.empty : Sys K).run evs).outputs i = alone i evs :=
  isolation_of_good G evs i

/-- **no_cross_bytes**: two histories in which instance `i` does the same things — the other
    instances may do anything else, with any other bytes — give `i` the same results: nothing another
    instance reads, writes, frees or recycles ever shows up in what `i` observes. -/
theorem no_cross_bytes_generic {K : Kind} (G : Good K) (evs evs' : List (Ev K)) (i : Nat)
    (h : solo i evs = solo i evs') :
    ((Sys.empty : Sys K).run evs).outputs i = ((Sys.empty : Sys K).run evs').outputs i := by
  rw [isolation_of_good G evs i, isolation_of_good G evs' i]
  unfold alone; rw [h]

/-- the pool invariant behind it: at every point of every history, every object at rest in the
    object pool is `Fresh` (only Release/Recycle put objects there, and they reset them), and every
    live instance is in a state of the allocator-free machine -/
theorem pool_always_fresh {K : Kind} (G : Good K) (evs : List (Ev K)) :
    (∀ o ∈ ((Sys.empty : Sys K).run evs).objs, G.Fresh o) ∧
    (∀ j x, ((Sys.empty : Sys K).run evs).live j = some x → ∃ a, G.Ref x a) :=
  let h := (WF.empty G).run G evs
  ⟨h.objs, h.live⟩

/-! ## Get is pure -/

/-- Tie A: the regenerated fact — none of `StrMap.Get`, `Str2Str.Get`, `StrStore.Get` assigns to
    anything reachable from its receiver -/
theorem impureGets_nil : Facts.impureGets = [] := by decide

/-- **get_pure**: with that fact, a `Get` is the function `SMap.get` of the loaded state and leaves the
    state as it is; hence for ANY schedule of Gets by any number of goroutines on one shared map
    (`StrMap`, and `Str2Str` with its `StrStore`) the map is unchanged afterwards and every goroutine
    gets, for every key, the answer of the sequential call on the loaded map. -/
theorem get_pure {V : Type} (h : Bytes → Nat) (m : SMap.StrMap V) (sm : SMap.Str2Str)
    (sched : List (Nat × Bytes)) :
    Facts.impureGets = [] ∧
    runGets (getS h) m sched = (m, sched.map (fun gk => (gk.1, SMap.get h m gk.2))) ∧
    runGets (s2sGetS h) sm sched = (sm, sched.map (fun gk => (gk.1, SMap.s2sGet h sm gk.2))) := by
  refine ⟨impureGets_nil, ?_, ?_⟩
  · induction sched with
    | nil => rfl
    | cons gk rest ih => simp only [runGets, getS, List.map_cons] at ih ⊢; rw [ih]
  · induction sched with
    | nil => rfl
    | cons gk rest ih => simp only [runGets, s2sGetS, List.map_cons] at ih ⊢; rw [ih]

end Verif.C14

/-
  Props/C14 — concurrent use: separate instances are isolated; maps are safe to read.  PARTIAL by nature.

  What is logic and is proved here (model: Model/Pools):
    * recycled_is_fresh_*  the state Release/Recycle leaves a pooled object in IS the state of a new one
                           (for ReaderSkipDecoder: up to its private buffer, whose old content is never
                           exposed — `readerSkip_old_buffer_never_exposed`);
    * isolation            for EVERY interleaving of WHOLE operations of any number of instances, whatever
                           object `Get` returns and whatever (recycled) memory `Malloc` returns, every
                           instance observes exactly what it observes when run alone;
    * no_cross_bytes       what an instance observes does not depend on anything the others do;
    * get_pure_partial     true by construction of the model (`getS` returns the map unchanged); the tie is
                           Tie A `Facts.impureGets = []` + the -race stress run;
    * tth_stateless        the header codec keeps nothing between calls; its frame does not depend on the
                           pool's memory; it is a kind of `All`.
  What the model CANNOT exhibit (named runtime behaviour, DESIGN §7): a data race inside an operation,
  sync.Pool internals, the span cache's CAS lock and its fallback under contention, a SetSpanCache
  racing with readers.  The many-goroutine stress run and the race-detector run of the `pool` family
  only VALIDATE the atomicity assumption ("one event = one whole operation"); they prove nothing.
-/
import Verif.Lemmas.PoolsKinds
import Verif.Gen.Facts
namespace Verif.C14
open Verif Verif.Pools

/-! ## recycled = fresh

  `Good.Fresh` is, per pooled type, the predicate "at rest in the pool": every field has the value it has
  in a newly constructed object, except the one field the code retains on purpose
  (`ReaderSkipDecoder.b`, its private mcache buffer — any length, any content).
    BufferReader      r = nil                BufferWriter       w = nil
    SkipDecoder       r = nil ∧ rn = 0       BytesSkipDecoder   n = 0 ∧ b = nil
    ReaderSkipDecoder r = nil ∧ n = 0        (b retained)
  DefaultReader, DefaultWriter and the header codec are no object-pool types (`Obj = Unit`).
  The theorems say: `Recycle`/`Release` applied to an object in ANY state establish `Fresh` (they are the
  only transitions that put an object into the pool — `Sys.step`, case `release`), and moreover the result
  IS the zero object (up to the retained buffer). -/

example (o : ReaderSkipDecoderObj) : goodRSD.Fresh o ↔ (o.r = none ∧ o.n = 0) := Iff.rfl
example (o : SkipDecoderObj) : goodSD.Fresh o ↔ (o.r = none ∧ o.rn = 0) := Iff.rfl
example (o : BytesSkipDecoderObj) : goodBSD.Fresh o ↔ (o.n = 0 ∧ o.b = []) := Iff.rfl
example (o : BufferReaderObj) : goodBR.Fresh o ↔ o.r = none := Iff.rfl
example (o : BufferWriterObj) : goodBW.Fresh o ↔ o.w = none := Iff.rfl

/-- BufferReader: after `Recycle` the object is at rest-fresh, indeed it is `BufferReader{r: nil}` -/
theorem recycled_is_fresh_bufferReader (o : BufferReaderObj) :
    goodBR.Fresh o.recycle ∧ o.recycle = BufferReaderObj.zero := ⟨rfl, rfl⟩

/-- BufferWriter: after `Recycle` the object is `BufferWriter{w: nil}` -/
theorem recycled_is_fresh_bufferWriter (o : BufferWriterObj) :
    goodBW.Fresh o.recycle ∧ o.recycle = BufferWriterObj.zero := ⟨rfl, rfl⟩

/-- SkipDecoder: after `Release` the object is `SkipDecoder{}` -/
theorem recycled_is_fresh_skipDecoder (o : SkipDecoderObj) :
    goodSD.Fresh o.release ∧ o.release = SkipDecoderObj.zero := ⟨⟨rfl, rfl⟩, rfl⟩

/-- BytesSkipDecoder: after `Release` the object is `BytesSkipDecoder{n: 0, b: nil}` -/
theorem recycled_is_fresh_bytesSkipDecoder (o : BytesSkipDecoderObj) :
    goodBSD.Fresh o.release ∧ o.release = BytesSkipDecoderObj.zero := ⟨⟨rfl, rfl⟩, rfl⟩

/-- ReaderSkipDecoder: after `Release` the object is `ReaderSkipDecoder{r: nil, n: 0, b: <old buffer>}` -/
theorem recycled_is_fresh_readerSkipDecoder (o : ReaderSkipDecoderObj) :
    goodRSD.Fresh o.release ∧ o.release = { ReaderSkipDecoderObj.zero with b := o.b } := ⟨⟨rfl, rfl⟩, rfl⟩

/-- the same at the level of the system: whatever state an instance of any kind is in (after any
    history, failed calls included), the object its `Release`/`Recycle` puts into the pool is `Fresh` -/
theorem release_establishes_fresh (s : All.St) (x : goodAll.Abs) (h : goodAll.Ref s x) :
    goodAll.Fresh (All.release s).1 := goodAll.release_fresh s x h

/-- … and that state is as good as new in the strong sense, for all FIVE pooled types: `New…(arg)` on a
    released object — in fact on an object in ANY state: for ReaderSkipDecoder any retained buffer of any
    content, for SkipDecoder any stale `rn` — starts an instance that refines the same pool-free,
    allocator-free machine as one started on a zero object (`Good.init_ref`): every field an operation
    reads is overwritten by `New…` or at the start of the operation. -/
theorem recycled_behaves_as_new (src : Src) (b : Bytes)
    (o1 : BufferReaderObj) (o2 : SkipDecoderObj) (o3 : BytesSkipDecoderObj) (o4 : ReaderSkipDecoderObj)
    (o5 : BufferWriterObj) :
    goodBR.Ref (kBR.init o1.recycle src) (goodBR.ainit src) ∧
    goodBR.Ref (kBR.init BufferReaderObj.zero src) (goodBR.ainit src) ∧
    goodSD.Ref (kSD.init o2.release src) (goodSD.ainit src) ∧
    goodSD.Ref (kSD.init o2 src) (goodSD.ainit src) ∧
    goodBSD.Ref (kBSD.init o3.release b) (goodBSD.ainit b) ∧
    goodRSD.Ref (kRSD.init o4.release src) (goodRSD.ainit src) ∧
    goodRSD.Ref (kRSD.init ReaderSkipDecoderObj.zero src) (goodRSD.ainit src) ∧
    goodBW.Ref (kBW.init o5.recycle ()) (goodBW.ainit ()) ∧
    goodBW.Ref (kBW.init BufferWriterObj.zero ()) (goodBW.ainit ()) :=
  ⟨goodBR.init_ref _ _ rfl, goodBR.init_ref _ _ rfl, goodSD.init_ref _ _ ⟨rfl, rfl⟩,
   (rfl : goodSD.Ref (kSD.init o2 src) (goodSD.ainit src)), goodBSD.init_ref _ _ ⟨rfl, rfl⟩, goodRSD.init_ref _ _ ⟨rfl, rfl⟩,
   goodRSD.init_ref _ _ ⟨rfl, rfl⟩, goodBW.init_ref _ _ rfl, goodBW.init_ref _ _ rfl⟩

/-- **the retained buffer is never exposed**.  `ReaderSkipDecoder.Next(t)` on a recycled object: whatever
    the buffer `b` holds from the previous tenant (any bytes, any length), whatever `n` was, and whatever
    memory `d` the shared pool hands out when the buffer has to grow — the call returns exactly what the
    buffer-free decoder `readerDecNext` returns on the same source (the same bytes `p.b[:n]`, every one of
    them written in this call; the same error), and leaves the source where that decoder leaves it. -/
theorem readerSkip_old_buffer_never_exposed (d : Dirty) (b : Bytes) (n : Nat) (src : Src) (t : UInt8) :
    OutRel (fun x y => x.1 = (y.1, y.2.stream.length) ∧ x.2.1.r = some y.2)
      (rsdNext d ⟨some src, n, b⟩ t) (readerDecNext src t) ∧
    ∀ (d' : Dirty) (b' : Bytes) (n' : Nat),
      (kRSD.step d (some ⟨some src, n, b⟩) t).2.1 = (kRSD.step d' (some ⟨some src, n', b'⟩) t).2.1 := by
  refine ⟨rsdNext_spec d _ src t rfl, fun d' b' n' => ?_⟩
  rw [(rsd_step_ref d (some ⟨some src, n, b⟩) (some src) t rfl).2,
      (rsd_step_ref d' (some ⟨some src, n', b'⟩) (some src) t rfl).2]

/-! ## isolation -/

/-- **isolation** (generic form).  For a kind whose instances refine an allocator-free machine (`Good`):
    for EVERY history — any number of instances, any interleaving of their whole operations, any
    choice of pooled object at every `Get`, any choice of recycled buffer or fresh memory with any
    content at every `Malloc` — the results instance `i` observes are exactly the results it observes
    when it runs alone, on new objects and zeroed memory. -/
theorem isolation_generic {K : Kind} (G : Good K) (evs : List (Ev K)) (i : Nat) :
    ((Sys.empty : Sys K).run evs).outputs i = alone i evs :=
  isolation_of_good G evs i

/-- **isolation** for systems that mix instances of every MODELLED kind — DefaultReader, BufferReader,
    SkipDecoder, BytesSkipDecoder, ReaderSkipDecoder, DefaultWriter, BufferWriter, the TTHeader codec
    (`All` = the sum of the eight kinds) — sharing one object pool per pooled type and ONE buffer pool: for every history,
    i.e. every interleaving of whole operations of any number of instances, every pooled object `Get`
    may return and every recycled or fresh memory (any content) `Malloc` may return, each instance
    observes exactly what it observes when it runs alone.
    (Writers: the user fills every region it is handed, as BufferWriter does; an unfilled `Malloc`
    region is dirty memory by contract and is outside the statement.)

    WHERE THE PROOF CONTENT IS (the property is partial; this theorem is about whole operations only):
    * definitional (`Good.ofEq … rfl`): kDR, kBR, kBSD — their `step` ignores the pool's memory and
      their `New…` overwrites every field, so in the MODEL there is no channel between instances; the
      theorem then only says the scheduler bookkeeping is right.  That a real DefaultReader never shows
      memory below its fill level is C04/C09 and Tie B (this family runs on the real mcache), not this
      theorem.  kSD is nearly so: the only content is that a stale `rn` left in the pool is never read
      (`sdNext_congr`).
    * real content: kRSD (retained buffer + dirty pool memory never reach a result: `rsdNext_spec` via
      `skipTplAt_sim`), kDW and kBW (flushed bytes do not depend on the dirty memory of any Malloc:
      `wr_step_ref` over C05's simulation), and the generic part (`Good.sum`, `isolation_of_good`,
      the pool invariant `pool_always_fresh`).
    * kTTH (header codec): stateless (`St = Unit`); content = `tthEnc_dirt` (see `tth_stateless`).
    * NOT in `All`: `Binary.ReadBinary` with the shared span cache.  It exists only in the driver
      (`bin` lines) as a stateless function; the shared span cache is exercised by Tie B and the stress
      run only. -/
theorem isolation (evs : List (Ev All)) (i : Nat) :
    ((Sys.empty : Sys All).run evs).outputs i = alone i evs :=
  isolation_of_good goodAll evs i

/-- **no_cross_bytes** (generic form): two histories in which instance `i` does the same things — the
    other instances may do anything else, with any other bytes — give `i` the same results: nothing
    another instance reads, writes, frees or recycles ever shows up in what `i` observes. -/
theorem no_cross_bytes_generic {K : Kind} (G : Good K) (evs evs' : List (Ev K)) (i : Nat)
    (h : solo i evs = solo i evs') :
    ((Sys.empty : Sys K).run evs).outputs i = ((Sys.empty : Sys K).run evs').outputs i := by
  rw [isolation_of_good G evs i, isolation_of_good G evs' i]
  unfold alone; rw [h]

theorem no_cross_bytes (evs evs' : List (Ev All)) (i : Nat) (h : solo i evs = solo i evs') :
    ((Sys.empty : Sys All).run evs).outputs i = ((Sys.empty : Sys All).run evs').outputs i :=
  no_cross_bytes_generic goodAll evs evs' i h

/-- the pool invariant behind it (generic): at every point of every history, every object at rest in
    the object pool is `Fresh` — the real per-type predicate above — and every live instance is in a
    state of the allocator-free machine -/
theorem pool_always_fresh {K : Kind} (G : Good K) (evs : List (Ev K)) :
    (∀ o ∈ ((Sys.empty : Sys K).run evs).objs, G.Fresh o) ∧
    (∀ j x, ((Sys.empty : Sys K).run evs).live j = some x → ∃ a, G.Ref x a) :=
  let h := (WF.empty G).run G evs
  ⟨h.objs, h.live⟩

/-- … for mixed systems of all kinds -/
theorem pool_always_fresh_all (evs : List (Ev All)) :
    ∀ o ∈ ((Sys.empty : Sys All).run evs).objs, goodAll.Fresh o :=
  (pool_always_fresh goodAll evs).1

/-- … and spelled out for the type that retains something: in EVERY history of any number of
    ReaderSkipDecoder instances, every object in the pool has `r = nil` and `n = 0` — only its buffer
    `b` carries anything over (and by `readerSkip_old_buffer_never_exposed` never shows it) -/
theorem pool_always_fresh_readerSkipDecoder (evs : List (Ev kRSD)) :
    ∀ o ∈ ((Sys.empty : Sys kRSD).run evs).objs, o.r = none ∧ o.n = 0 :=
  (pool_always_fresh goodRSD evs).1

/-! ## the header codec -/

/-- **tth_stateless**.  `ttheader.Encode` (+ the caller's total-length field + Flush) and
    `ttheader.DecodeFromBytes` keep nothing between calls and share nothing but the buffer pool behind
    the writer/reader they run on: (1) the encoded frame does not depend on what the pool's memory held
    (`d`, `d'` arbitrary: every byte of every Malloc'ed region is written), it is the closed form of
    C06's `encode_raw`; (2) hence in ANY history of `All` — header calls interleaved with operations of
    any instances of any kind — every header call returns what it returns alone (instance of `isolation`);
    (3) the model's Decode has no allocator argument at all.
    Tie to the code: protocol/ttheader declares NO package-level variable other than sentinel errors
    (regenerated fact `Facts.pkgVars_ttheader`, `tth_no_pkg_state` below) and the `tth rt` lines of Tie B. -/
theorem tth_stateless (d d' : Dirty) (p : TTH.EncParam) (b : Bytes) (cap : Nat) :
    tthEnc d p = tthEnc d' p ∧
    (kTTH.step d () (.enc p)).2.1 = (kTTH.step d' () (.enc p)).2.1 ∧
    (kTTH.step d () (.dec b cap)).2.1 = (kTTH.step d' () (.dec b cap)).2.1 :=
  ⟨tthEnc_dirt d d' p, by simp only [kTTH]; rw [tthEnc_dirt d d' p], rfl⟩

/-! ### non-vacuity: a recycled ReaderSkipDecoder that really carries the previous tenant's bytes -/

/-- instance 1 reads a 3-byte string through a ReaderSkipDecoder (its buffer grows to hold
    `00 00 00 03 aa bb cc`) and releases it; instance 2 is handed THAT object by the pool (`pick = some 0`)
    and reads one byte of its own into the retained buffer -/
def exampleHistory : List (Ev kRSD) :=
  [ .create 1 (⟨[0, 0, 0, 3, 0xaa, 0xbb, 0xcc], [⟨100, none⟩, ⟨100, none⟩]⟩ : Src) none,
    .op 1 (11 : UInt8) [] (fun _ _ => 0xEE),
    .release 1,
    .create 2 (⟨[7, 9], [⟨1, none⟩, ⟨1, none⟩]⟩ : Src) (some 0),
    .op 2 (3 : UInt8) [some 0] (fun _ _ => 0xEE) ]

/-- after the third event the object pool holds the released object WITH the first tenant's bytes -/
example : (((Sys.empty : Sys kRSD).run (exampleHistory.take 3)).objs : List ReaderSkipDecoderObj) =
    [⟨none, 0, [0, 0, 0, 3, 0xaa, 0xbb, 0xcc]⟩] := by rfl

/-- … and the second tenant, running on that object, sees its own byte only -/
example : (((Sys.empty : Sys kRSD).run exampleHistory).outputs 2 : List (TOut (Bytes × Nat))) =
    [.ok ([7], 1)] := by rfl

example : ((Sys.empty : Sys kRSD).run exampleHistory).outputs 2 = alone 2 exampleHistory :=
  isolation_generic goodRSD exampleHistory 2

/-- two DefaultWriters: the first flushes `01 02 03` and its buffer goes back to the pool; the second
    writer's first `Malloc` is handed THAT buffer (`picks = [some 0]`) -/
def exampleWriters : List (Ev kDW) :=
  [ .create 1 () none,
    .op 1 (.mf [1, 2, 3]) [] (fun _ _ => 0xEE),
    .op 1 .flush [] (fun _ _ => 0xEE),
    .create 2 () none,
    .op 2 (.mf [9]) [some 0] (fun _ _ => 0xEE),
    .op 2 .flush [] (fun _ _ => 0xEE) ]

-- the buffer pool really holds the first writer's bytes after its Flush …
set_option maxRecDepth 100000 in
example : (((Sys.empty : Sys kDW).run (exampleWriters.take 3)).bufs.map (fun b => b.take 4)) =
    [[1, 2, 3, 0xEE]] := by rfl

/-- … and the second writer's Flush delivers its own byte only -/
example : ((((Sys.empty : Sys kDW).run exampleWriters).outputs 2).map
    (fun (o : WrOut) => match o with | .flushed _ c => c.map (·.1) | _ => [])) = [[], [[9]]] := by rfl

/-! ## Get is pure -/

/-- Tie A: the regenerated fact — none of `StrMap.Get`, `Str2Str.Get`, `StrStore.Get` assigns to
    anything reachable from its receiver -/
theorem impureGets_nil : Facts.impureGets = [] := by decide

/-- **get_pure_partial**.  TRUE BY CONSTRUCTION OF THE MODEL; the tie to the code is Tie A
    `Facts.impureGets = []` + the `-race` stress run.  In detail: in the model `getS` returns the
    map unchanged BY CONSTRUCTION and `runGets` is a sequential fold, so the two `runGets` equations below
    are true by definition (they only spell out "if Get is a function of the loaded state, any schedule
    of Gets returns the sequential answers").  The real content is (1) the regenerated Tie A fact
    `Facts.impureGets = []` — none of `StrMap.Get`, `Str2Str.Get`, `StrStore.Get` assigns through its
    receiver — which is what licenses modelling Get as `getS`, and (2) the many-goroutine stress run and
    the race-detector run of the `pool` family on the real maps (validation, not proof).
    Missing for the full statement ("no data race"): a theorem cannot exhibit a race; reads of shared
    memory by concurrent Gets are race-free in Go exactly because nothing writes, which is fact (1). -/
theorem get_pure_partial {V : Type} (h : Bytes → Nat) (m : SMap.StrMap V) (sm : SMap.Str2Str)
    (sched : List (Nat × Bytes)) :
    Facts.impureGets = [] ∧
    runGets (getS h) m sched = (m, sched.map (fun gk => (gk.1, SMap.get h m gk.2))) ∧
    runGets (s2sGetS h) sm sched = (sm, sched.map (fun gk => (gk.1, SMap.s2sGet h sm gk.2))) := by
  refine ⟨impureGets_nil, ?_, ?_⟩
  · induction sched with
    | nil => rfl
    | cons gk rest ih => simp only [runGets, getS, List.map_cons] at ih ⊢; rw [ih]
  · induction sched with
    | nil => rfl
    | cons gk rest ih => simp only [runGets, s2sGetS, List.map_cons] at ih ⊢; rw [ih]

/-- the regenerated list of file-level variables of protocol/ttheader (sentinel errors excluded) is empty:
    the package has no state a call could leave behind for another goroutine. -/
theorem tth_no_pkg_state : Facts.pkgVars_ttheader = [] := by decide

end Verif.C14

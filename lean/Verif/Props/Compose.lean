/-
  Props/Compose — end-to-end compositions of the layered proofs (IronFleet style: codecs are proved
  against ABSTRACT reader/writer contracts, DefaultReader/DefaultWriter are proved to refine them; here
  the two layers are put together).  Property theorems and non-vacuity examples only; lemmas in
  Lemmas/Compose*.lean.

  §1  C06/C10 × C04   ttheader.Decode over the buffered reader model `Rd` (every source script)
  §2  C11 × C12       UnmarshalFastMsg ∘ MarshalFastMsg for the shipped Base / BaseResp FastCodecs
  §3  C01 × C05       BufferWriter.Write* over the DefaultWriter / BytesWriter model, then Flush
  §4  C06 × C05       ttheader.EncodeToBytes over the BytesWriter model (and back through §1)
  §5  C01/C12 × C04   BufferReader.Read* / ReadMessageBegin over sources that are live in C04's sense
-/
import Verif.Lemmas.ComposeTth
import Verif.Lemmas.ComposeMsg
import Verif.Lemmas.ComposeWire
import Verif.Lemmas.ComposeTthEnc
import Verif.Props.C01
import Verif.Props.C06
import Verif.Props.C10
import Verif.Props.C12
namespace Verif.Compose
open Verif Verif.TTH Verif.Frame

/-! ## §1 ttheader.Decode over the real reader

  `decodeRd r` = `ttheader.Decode(ctx, r)` for a `*bufiox.DefaultReader` / BytesReader in state `r`
  (Model/TTHeader over Model/Reader); `r.remaining` = unread buffered bytes ++ what the source still has
  (C04's abstraction function); `RdOK r` = C04's invariant `Inv r` and sizes below 2^40 (C04's domain).
  `decodeBytes b cap` = Decode over `bufiox.NewBytesReader(b)` (C10's subject). -/

/-- **soundness over ANY source** (any fragmentation, empty reads, errors at any point, any buffer state):
    Decode returns a result or an error — no panic, the loops terminate —, never consumes more than
    14 + declared size bytes nor more than there are; an error is the reader's own (non-nil) error or
    exactly the error Decode gives on the remaining stream as one slice; and a SUCCESSFUL stream decode
    consumed exactly 14 + declared size bytes of the stream — which were there —, its result equals the
    bytes-backed Decode of exactly those bytes (and of the whole remaining stream), HeaderLen is that
    count, exactly those bytes are gone from what the reader owes, and the frame is valid. -/
theorem tth_decode_stream_sound (r : Rd) (h : RdOK r) :
    (decodeRd r).1.Safe ∧ (decodeRd r).1 ≠ .err .nofuel ∧
    (decodeRd r).2.readLen ≤ r.readLen + r.remaining.length ∧
    (decodeRd r).2.readLen ≤ r.readLen + (14 + declared r.remaining) ∧
    (∀ e, (decodeRd r).1 = .err e → (∃ re, e = .rd re) ∨ (decodeBytes r.remaining r.remaining.length).1 = .err e) ∧
    (∀ d, (decodeRd r).1 = .ok d →
      14 + declared r.remaining ≤ r.remaining.length ∧
      (decodeRd r).2.readLen = r.readLen + (14 + declared r.remaining) ∧
      (decodeRd r).2.remaining = r.remaining.drop (14 + declared r.remaining) ∧
      (∀ cap, 14 + declared r.remaining ≤ cap →
        decodeBytes (r.remaining.take (14 + declared r.remaining)) cap = (.ok d, 14 + declared r.remaining)) ∧
      (∀ cap, r.remaining.length ≤ cap → decodeBytes r.remaining cap = (.ok d, 14 + declared r.remaining)) ∧
      d.headerLen = ((14 + declared r.remaining : Nat) : Int) ∧
      (∃ secs, Valid r.remaining secs ∧ C10.agrees d (meaning r.remaining secs)) ∧
      RdOK (decodeRd r).2) := by
  have hcur := C10.decode_safe r.remaining r.remaining.length (Nat.le_refl _)
  rw [decodeBytes_eq_cur _ _ (Nat.le_refl _)] at hcur ⊢
  obtain ⟨hsafe, hnf, hl1, hl2⟩ := hcur
  unfold decodeRd
  rcases cmp_decodeG Rd.next Rd.remaining Rd.readLen RdOK _ bigReq cmp_rd_any (by decide) r h with
    ⟨e1, e2, e3, e4⟩ | ⟨e, e1, e2, _⟩
  · refine ⟨by rw [e1]; exact hsafe, by rw [e1]; exact hnf, by omega, by omega, ?_, ?_⟩
    · intro e he; right; rw [← e1]; exact he
    · intro d hd
      rw [e1] at hd
      obtain ⟨c1, c2, c3⟩ := cmp_decodeCur_ok _ d hd
      rw [c1] at e2 e3
      refine ⟨c2, e2, e3, ?_, ?_, c3, ?_, e4⟩
      · intro cap hcap
        rw [decodeBytes_eq_cur _ _ (by rw [List.length_take]; omega), cmp_decodeCur_prefix _ c2]
        exact Prod.ext hd c1
      · intro cap hcap
        rw [decodeBytes_eq_cur _ _ hcap]
        exact Prod.ext hd c1
      · have hp' : (decodeBytes r.remaining r.remaining.length).1 = .ok d := by
          rw [decodeBytes_eq_cur _ _ (Nat.le_refl _)]; exact hd
        obtain ⟨secs, hv⟩ := (C10.decode_ok_iff r.remaining _ (Nat.le_refl _)).mp ⟨d, hp'⟩
        exact ⟨secs, hv, (C10.decode_ok_values r.remaining _ (Nat.le_refl _) d secs hp' hv).1⟩
  · refine ⟨by rw [e1]; exact ⟨fun s => by simp, by simp⟩, by rw [e1]; simp, by omega, by omega, ?_, ?_⟩
    · intro e' he; left; rw [e1] at he; exact ⟨e, (Out.err.inj he).symm⟩
    · intro d hd; rw [e1] at hd; cases hd

/-- **exactness over a live source** (C01's operational liveness: however the next 14 + declared-size
    bytes are asked for, they are served; `cmp_steady_wire_live`: implied by C04's `Rd.Live`): the
    stream Decode is the bytes-backed Decode of the remaining stream — same result (success with the same
    parameters, or the same error), same number of bytes consumed, exactly those bytes gone. -/
theorem tth_decode_stream_live (r : Rd) (h : RdOK r) (hl : Wire.Live r (14 + declared r.remaining))
    (cap : Nat) (hcap : r.remaining.length ≤ cap) :
    (decodeRd r).1 = (decodeBytes r.remaining cap).1 ∧
    (decodeRd r).2.readLen = r.readLen + (decodeBytes r.remaining cap).2 ∧
    (decodeRd r).2.remaining = r.remaining.drop (decodeBytes r.remaining cap).2 ∧ RdOK (decodeRd r).2 := by
  rw [decodeBytes_eq_cur _ _ hcap]
  unfold decodeRd
  rcases cmp_decodeG Rd.next Rd.remaining Rd.readLen RdOK _ bigReq cmp_rd_live (by decide) r h with
    hleft | ⟨_, _, _, hnl⟩
  · exact hleft
  · exact absurd hl hnl

/-- the same from C04's own liveness notion: source exhausted into the buffer, or no error seen yet and
    a `Steady` rest of the script; the declared frame must be there -/
theorem tth_decode_stream_steady (r : Rd) (h : RdOK r) (hl : r.Live)
    (hfit : 14 + declared r.remaining ≤ r.remaining.length) (cap : Nat) (hcap : r.remaining.length ≤ cap) :
    (decodeRd r).1 = (decodeBytes r.remaining cap).1 ∧
    (decodeRd r).2.readLen = r.readLen + (decodeBytes r.remaining cap).2 ∧
    (decodeRd r).2.remaining = r.remaining.drop (decodeBytes r.remaining cap).2 ∧
    RdOK (decodeRd r).2 ∧ (decodeRd r).2.Live := by
  rw [decodeBytes_eq_cur _ _ hcap]
  unfold decodeRd
  rcases cmp_decodeG Rd.next Rd.remaining Rd.readLen _ _ bigReq cmp_rd_steady (by decide) r ⟨h, hl⟩ with
    ⟨a, b, c, d, e⟩ | ⟨_, _, _, hnl⟩
  · exact ⟨a, b, c, d, e⟩
  · exact absurd hfit hnl

/-- **tth_decode_stream_real.** For EVERY reader state satisfying C04's invariant (any buffer content,
    capacity, cursor, statistics; any source script) whose remaining stream starts with an encoded frame
    (`layout lf (fp p)`: what `C06.encode_layout` says Encode writes, `lf` = the caller's length field)
    followed by any payload, and which is live for 14 + size bytes: the stream Decode succeeds with the
    very parameters the bytes-backed Decode returns for frame ++ payload, consumes exactly HeaderLen =
    frame length bytes (ReadLen), leaves exactly the payload (and whatever follows) to be read, and the
    parameters are the encoded ones. -/
theorem tth_decode_stream_real (r : Rd) (p : EncParam) (lf payload : Bytes) (hlf : lf.length = 4)
    (hd : (fp p).Dom) (hsup : p.proto ∈ supported) (hs : infoSize (fp p) ≤ 65536) (h : RdOK r)
    (hrem : r.remaining = Frame.layout lf (fp p) ++ payload)
    (hl : Wire.Live r (14 + infoSize (fp p))) :
    ∃ d, (decodeRd r).1 = .ok d ∧
      (∀ cap, (Frame.layout lf (fp p) ++ payload).length ≤ cap →
        decodeBytes (Frame.layout lf (fp p) ++ payload) cap = (.ok d, (Frame.layout lf (fp p)).length)) ∧
      (decodeRd r).2.readLen = r.readLen + (Frame.layout lf (fp p)).length ∧
      d.headerLen = ((Frame.layout lf (fp p)).length : Int) ∧
      (decodeRd r).2.remaining = payload ∧ RdOK (decodeRd r).2 ∧
      d.flags = p.flags ∧ d.seq = p.seq ∧ d.proto = p.proto ∧
      (∀ k, (mk d.intKV).lookup k = p.intKV.lookup k) ∧ (∀ k, (mk d.strKV).lookup k = p.strKV.lookup k) ∧
      d.payloadLen = (rd32 lf : Int) + 4 - ((Frame.layout lf (fp p)).length : Int) := by
  obtain ⟨d, hdec, f1, f2, f3, f4, f5, f6, f7⟩ :=
    decode_layout p lf payload (Frame.layout lf (fp p) ++ payload).length hlf hd hsup hs (Nat.le_refl _)
  have hfl := layout_length lf (fp p) hlf
  -- the declared size of the frame is its info size
  have hcur : decodeCur (Frame.layout lf (fp p) ++ payload) = (.ok d, (Frame.layout lf (fp p)).length) := by
    rw [← decodeBytes_eq_cur _ _ (Nat.le_refl _)]; exact hdec
  have hdecl : declared (Frame.layout lf (fp p) ++ payload) = infoSize (fp p) := by
    have := (cmp_decodeCur_ok _ d (by rw [hcur])).1
    rw [hcur] at this
    simp only at this
    omega
  obtain ⟨a, b, c, e⟩ := tth_decode_stream_live r h (by rw [hrem, hdecl]; exact hl)
    (Frame.layout lf (fp p) ++ payload).length (by rw [hrem]; exact Nat.le_refl _)
  rw [hrem, hdec] at a b c
  simp only at a b c
  refine ⟨d, a, ?_, b, f6, ?_, e, f1, f2, f3, f4, f5, f7⟩
  · intro cap hcap
    rw [decodeBytes_eq_cur _ _ hcap]; exact hcur
  · rw [c, List.drop_left' rfl]

/-- fresh DefaultReader over ANY stream S that starts with an encoded frame, delivered by ANY `Steady`
    script (fragmented arbitrarily, with empty reads, the last byte possibly together with io.EOF):
    Decode returns the encoded parameters and has consumed exactly the frame -/
theorem tth_decode_stream_fresh (p : EncParam) (lf payload : Bytes) (script : List Resp) (hlf : lf.length = 4)
    (hd : (fp p).Dom) (hsup : p.proto ∈ supported) (hs : infoSize (fp p) ≤ 65536)
    (hS : (Frame.layout lf (fp p) ++ payload).length ≤ sizeBound)
    (hst : Steady Facts.maxConsecutiveEmptyReads script (Frame.layout lf (fp p) ++ payload).length 0 = true) :
    let r := Rd.newDefault ⟨Frame.layout lf (fp p) ++ payload, script⟩
    ∃ d, (decodeRd r).1 = .ok d ∧ (decodeRd r).2.readLen = (Frame.layout lf (fp p)).length ∧
      (decodeRd r).2.remaining = payload ∧ d.flags = p.flags ∧ d.seq = p.seq ∧ d.proto = p.proto ∧
      (∀ k, (mk d.intKV).lookup k = p.intKV.lookup k) ∧ (∀ k, (mk d.strKV).lookup k = p.strKV.lookup k) ∧
      d.headerLen = ((Frame.layout lf (fp p)).length : Int) := by
  intro r
  have hok : RdOK r := newDefault_ok _ script hS
  obtain ⟨hrem, hri⟩ := newDefault_remaining (Frame.layout lf (fp p) ++ payload) script
  have hfl := layout_length lf (fp p) hlf
  have hlive : Wire.Live r (14 + infoSize (fp p)) :=
    cmp_steady_wire_live _ r hok (live_newDefault _ script hst) (by
      show 14 + infoSize (fp p) ≤ (Rd.newDefault ⟨Frame.layout lf (fp p) ++ payload, script⟩).remaining.length
      rw [hrem, List.length_append, hfl]; omega)
  obtain ⟨d, a, _, b, c, e, _, f1, f2, f3, f4, f5, _⟩ :=
    tth_decode_stream_real r p lf payload hlf hd hsup hs hok hrem hlive
  refine ⟨d, a, ?_, e, f1, f2, f3, f4, f5, c⟩
  rw [b]
  show (Rd.newDefault ⟨Frame.layout lf (fp p) ++ payload, script⟩).ri + _ = _
  rw [hri]; omega

/-! ### non-vacuity for §1 -/

/-- C04's liveness gives C01's: hypotheses of `tth_decode_stream_live` from those of `.._steady` -/
example (r : Rd) (h : RdOK r) (hl : r.Live) (n : Nat) (hn : n ≤ r.remaining.length) : Wire.Live r n :=
  cmp_steady_wire_live n r h hl hn

/-- the smallest valid frame (18 bytes) + 2 payload bytes, delivered byte by byte with an empty read in
    between and the last byte together with io.EOF: a `Steady` script; the model decodes it -/
def cmpFrame18 : Bytes := [0, 0, 0, 0x0e, 0x10, 0, 0, 5, 0, 0, 0, 1, 0, 1, 0, 0, 0, 0]
def cmpScript : List Resp := (List.replicate 10 ⟨1, none⟩) ++ [⟨0, none⟩] ++ List.replicate 9 ⟨1, none⟩ ++ [⟨7, some .eof⟩]

example : Steady Facts.maxConsecutiveEmptyReads cmpScript (cmpFrame18 ++ [0xAA, 0xBB]).length 0 = true := by
  decide
example : RdOK (Rd.newDefault ⟨cmpFrame18 ++ [0xAA, 0xBB], cmpScript⟩) := newDefault_ok _ _ (by decide)
example : (Rd.newDefault ⟨cmpFrame18 ++ [0xAA, 0xBB], cmpScript⟩).Live := live_newDefault _ _ (by decide)
example : 14 + declared (cmpFrame18 ++ [0xAA, 0xBB]) = 18 := by decide
set_option maxRecDepth 20000 in
example : (decodeRd (Rd.newDefault ⟨cmpFrame18 ++ [0xAA, 0xBB], cmpScript⟩)).1 =
      .ok { flags := 5, seq := 1, proto := 0, intKV := none, strKV := none, headerLen := 18, payloadLen := 0 } ∧
    (decodeRd (Rd.newDefault ⟨cmpFrame18 ++ [0xAA, 0xBB], cmpScript⟩)).2.readLen = 18 ∧
    (decodeRd (Rd.newDefault ⟨cmpFrame18 ++ [0xAA, 0xBB], cmpScript⟩)).2.remaining = [0xAA, 0xBB] := by
  decide +kernel

/-- `cmpFrame18` is an encoded frame: `layout` of the empty parameter set with protocol 0 -/
example : cmpFrame18 = Frame.layout [0, 0, 0, 0x0e] (fp { flags := 5, seq := 1, proto := 0, intKV := [], strKV := [] }) := by
  decide +kernel

-- a source that fails in the middle of the frame: the reader's own error comes back (soundness case)
set_option maxRecDepth 20000 in
example : (decodeRd (Rd.newDefault ⟨cmpFrame18, [⟨14, none⟩, ⟨2, some (.src 3)⟩]⟩)).1 = .err (.rd (.src 3)) := by
  decide +kernel

/-! ## §2 UnmarshalFastMsg ∘ MarshalFastMsg for the shipped structs

  `cmpBaseCodec thr it1 it2` = (*Base) as the FastCodec argument of MarshalFastMsg / UnmarshalFastMsg:
  BLength walks the map in order `it1`, FastWriteNocopy(buf, nil) in order `it2`, FastRead is the
  generated reader (Model/FastCodec; Lemmas/ComposeMsg).  C12's `marshal_unmarshal` assumed an abstract
  `CodecOK`; here its place is taken by C11's theorems about the real structs. -/

open Verif.Wire in
/-- **marshal_unmarshal_base.** For every non-empty method name, every non-EXCEPTION message type, every
    seq, every `Base` the wire format can carry, EVERY pair of iteration orders of its map (one for the
    BLength pass, one for the writer) and any content of the fresh buffer: MarshalFastMsg produces
    header ++ struct encoding, and UnmarshalFastMsg of those bytes into any receiver without a map
    returns the same method and seq, a nil error and the same struct — the map as the sequence the
    writer iterated, which is the same map (`Base.Eqv`: a permutation). -/
theorem marshal_unmarshal_base (thr : Nat) (dirt : Nat → UInt8) (method : Bytes) (typ seq : Int)
    (p target : Base) (it1 it2 : SMap)
    (hm : method ≠ []) (hn : method.length < 2^31) (ht : inI32 typ) (hs : inI32 seq)
    (hne : msgType16 typ ≠ 3) (hp : BaseOK p) (h1 : IterOf p.extra it1) (h2 : IterOf p.extra it2)
    (h0 : target.extra = none) :
    ∃ b p', marshalFastMsg (cmpBaseCodec thr it1 it2) dirt method typ seq p = .ok b ∧
      b = enc (.messageBegin method typ seq) ++ encBase (some p) it2 ∧
      unmarshalFastMsg (cmpBaseCodec thr it1 it2) b target = .ok ⟨method, seq, none, p'⟩ ∧
      p' = { p with extra := p.extra.map (fun _ => it2) } ∧ Base.Eqv p' p := by
  have hn' : method.length < 2147483648 := by simpa using hn
  have he := enc_eq_encM (.messageBegin method typ seq) (show (Val.messageBegin method typ seq).args from ⟨ht, hs⟩)
  have hexc : Facts.mEXCEPTION = 3 := by decide
  refine ⟨_, _, cmp_marshal_base thr dirt method typ seq p it1 it2 hm h1 h2, by rw [he],
    cmp_unmarshal_base thr method typ seq p target it1 it2 hn' hs (by rw [hexc]; exact hne) hp h2 h0, rfl,
    (C11.read_write_base target p it2 [] h0 hp h2).2⟩

open Verif.Wire in
/-- **marshal_unmarshal_baseresp.** The same for `BaseResp`. -/
theorem marshal_unmarshal_baseresp (thr : Nat) (dirt : Nat → UInt8) (method : Bytes) (typ seq : Int)
    (p target : BaseResp) (it1 it2 : SMap)
    (hm : method ≠ []) (hn : method.length < 2^31) (ht : inI32 typ) (hs : inI32 seq)
    (hne : msgType16 typ ≠ 3) (hp : BaseRespOK p) (h1 : IterOf p.extra it1) (h2 : IterOf p.extra it2)
    (h0 : target.extra = none) :
    ∃ b p', marshalFastMsg (cmpBaseRespCodec thr it1 it2) dirt method typ seq p = .ok b ∧
      b = enc (.messageBegin method typ seq) ++ encBaseResp (some p) it2 ∧
      unmarshalFastMsg (cmpBaseRespCodec thr it1 it2) b target = .ok ⟨method, seq, none, p'⟩ ∧
      p' = { p with extra := p.extra.map (fun _ => it2) } ∧ BaseResp.Eqv p' p := by
  have hn' : method.length < 2147483648 := by simpa using hn
  have he := enc_eq_encM (.messageBegin method typ seq) (show (Val.messageBegin method typ seq).args from ⟨ht, hs⟩)
  have hexc : Facts.mEXCEPTION = 3 := by decide
  refine ⟨_, _, cmp_marshal_baseresp thr dirt method typ seq p it1 it2 hm h1 h2, by rw [he],
    cmp_unmarshal_baseresp thr method typ seq p target it1 it2 hn' hs (by rw [hexc]; exact hne) hp h2 h0, rfl,
    (C11.read_write_baseresp target p it2 [] h0 hp h2).2⟩

/-! ## §3 the stream writers end to end

  C01 proves `BufferWriter.Write*` against an abstract writer log (`Wire.WLog`: a Malloc'ed region is a
  value that is filled and committed); C05 proves that DefaultWriter / BytesWriter (`Wr`: object-level
  model, delayed copy, growth without copying, pool memory with arbitrary content) refine an append-only
  log.  The two logs are connected through CHUNKS (Lemmas/ComposeWriter, ComposeWire): `valChunks v` is the
  sequence Malloc(n) / stores / WriteBinary that Write<v> performs; `cmp_bwWrite_chunks` shows that C01's
  model IS the execution of these chunks on its abstract log; `cmpWriteOps vs` issues the same chunks to
  C05's model (each store names the region id its Malloc returned). -/

open Verif.Wire Verif.C05 in
/-- **stream_write_flush_real.** For EVERY list of values (Go argument ranges), every sound allocator (any
    capacity policy ≥ requested, any content of fresh memory — so any number of growths) and every sink
    script: running `BufferWriter.Write*` for each value over the DefaultWriter model —
    (1) is what C01's abstract model runs (the tie, for every abstract writer state and memory content);
    (2) every call behaves: each Malloc returns the expected region, each WriteBinary takes everything,
        no error, no panic;
    (3) and then Flush makes the sink receive exactly `vs.flatMap enc` in ONE Write call (the sink's
        first); Flush returns that call's answer; nothing is written when there is nothing to write. -/
theorem stream_write_flush_real (a : WAlloc) (ha : a.Sound) (fail : Nat → Option RErr) (vs : List Val)
    (hargs : ∀ v ∈ vs, v.args) :
    (∀ (w : Wire.WLog) (d : Nat → UInt8), bwWriteAll w d vs = runChunksWL w d (vs.flatMap valChunks)) ∧
    ((Start.default fail).model.run a (cmpWriteOps vs)).1 = cmpWriteObs vs ∧
    (after a (.default fail) (cmpWriteOps vs)).err = none ∧
    (vs.flatMap enc = [] → (after a (.default fail) (cmpWriteOps vs)).flush.2.sink.calls = [] ∧
       (after a (.default fail) (cmpWriteOps vs)).flush.1 = .ok ()) ∧
    (vs.flatMap enc ≠ [] →
       (after a (.default fail) (cmpWriteOps vs)).flush.2.sink.calls = [(vs.flatMap enc, fail 1)] ∧
       (fail 1 = none → (after a (.default fail) (cmpWriteOps vs)).flush.1 = .ok () ∧
          (after a (.default fail) (cmpWriteOps vs)).flush.2.sunk = vs.flatMap enc) ∧
       (∀ e, fail 1 = some e → (after a (.default fail) (cmpWriteOps vs)).flush.1 = .err e)) := by
  have h := cmp_real_default a ha fail (vs.flatMap valChunks) (valsChunks_full vs)
  rw [valsChunks_bytes vs hargs] at h
  exact ⟨fun w d => cmp_bwWriteAll_chunks d vs w, h⟩

open Verif.Wire Verif.C05 in
/-- **stream_write_flush_bytes.** The same over a BytesWriter on ANY initial slice (nil, empty with or
    without capacity, partly filled, full — so the caller's own array may be the first buffer that gets
    parked): every call behaves, Flush succeeds, and the target slice is
    `initial contents ++ vs.flatMap enc`. -/
theorem stream_write_flush_bytes (a : WAlloc) (ha : a.Sound) (s : Start) (hs : ∀ f, s ≠ .default f)
    (vs : List Val) (hargs : ∀ v ∈ vs, v.args) :
    (s.model.run a (cmpWriteOps vs)).1 = cmpWriteObs vs ∧
    (after a s (cmpWriteOps vs)).err = none ∧
    (after a s (cmpWriteOps vs)).flush.1 = .ok () ∧
    (after a s (cmpWriteOps vs)).flush.2.targetBytes = s.init ++ vs.flatMap enc := by
  have h := cmp_real_bytes a ha s hs (vs.flatMap valChunks) (valsChunks_full vs)
  rw [valsChunks_bytes vs hargs] at h
  exact h

open Verif.Wire in
/-- the tie for one value: C01's `bwWrite` is the execution of `valChunks v` on its abstract log, in
    every writer state, for every content of fresh memory; every region is stored completely and the
    chunks' bytes are `enc v` -/
theorem stream_write_chunks (v : Val) :
    (∀ (w : Wire.WLog) (d : Nat → UInt8), bwWrite w d v = runChunksWL w d (valChunks v)) ∧
    (∀ c ∈ valChunks v, c.Full) ∧ (v.args → chunksBytes (valChunks v) = enc v) :=
  ⟨fun w d => cmp_bwWrite_chunks w d v, valChunks_full v, valChunks_bytes v⟩

/-! ### non-vacuity for §3 -/

section
open Verif.Wire Verif.C05

/-- a field header, an i32, a string, a field stop -/
def cmpVals : List Val := [.fieldBegin 11 1, .str [0x68, 0x69], .fieldBegin 8 2, .i32 (-2), .fieldStop]

example : ∀ v ∈ cmpVals, v.args := by decide
example : cmpVals.flatMap enc = [11, 0, 1, 0, 0, 0, 2, 0x68, 0x69, 8, 0, 2, 0xff, 0xff, 0xff, 0xfe, 0] := by decide

/-- the history BufferWriter issues: Malloc(3) + three stores, Malloc(4) + store, WriteBinary, … -/
example : cmpWriteOps [.fieldBegin 11 1, .str [0x68, 0x69]] =
    [.malloc 3, .fill 0 0 [11], .fill 0 1 [0], .fill 0 2 [1], .malloc 4, .fill 1 0 [0, 0, 0, 2], .wb [0x68, 0x69]] := by
  decide

-- the model run itself (DefaultWriter, exact-capacity allocator with 0xEE garbage): one sink call
set_option maxRecDepth 100000 in
example : (after exA (.default (fun _ => none)) (cmpWriteOps cmpVals)).flush.2.sink.calls =
    [([11, 0, 1, 0, 0, 0, 2, 0x68, 0x69, 8, 0, 2, 0xff, 0xff, 0xff, 0xfe, 0], none)] := by decide

-- BytesWriter over a full 1-byte slice: four growths (the caller's array is parked first), regions are filled after the growths; target = initial ++ encodings
set_option maxRecDepth 100000 in
example : (after exB (.bytes [9] []) (cmpWriteOps cmpVals)).flush.2.targetBytes =
    [9, 11, 0, 1, 0, 0, 0, 2, 0x68, 0x69, 8, 0, 2, 0xff, 0xff, 0xff, 0xfe, 0] := by decide
set_option maxRecDepth 100000 in
example : (after exB (.bytes [9] []) (cmpWriteOps cmpVals)).pending = [(0, 1), (1, 4), (2, 8), (3, 13)] := by decide

end

/-! ## §4 ttheader.EncodeToBytes over the real writer

  `cmpEncodeToBytes a s p` = `EncodeToBytes(ctx, p)` with `out := bufiox.NewBytesWriter(&buf)` in start
  state `s` over C05's writer model (Lemmas/ComposeTthEnc): Encode issues Malloc(14), the stores of
  magic+flags and seq, the chunks of the info section, the size check and the store of size/4; then
  Flush.  `cmp_encode_eq` (the tie): C06's `encode p w` is exactly this sequence on its abstract writer. -/

open Verif.C05 in
/-- **encodeToBytes_real.** For every parameter set in the domain (every iteration order of its maps), every
    sound allocator (any garbage in fresh memory, any capacity policy) and every bytes-backed writer:
    EncodeToBytes fails with the size error iff the header info exceeds MaxHeaderSize, and otherwise
    returns `initial contents ++ Frame.layout lf (fp p)` — exactly the documented frame — where `lf` are the
    4 bytes of the total-length field, which Encode never writes (they hold whatever the fresh buffer
    held; the caller must set them: doc comment of Encode).  Also: C06's model of Encode is the same
    call sequence on its abstract writer. -/
theorem encodeToBytes_real (a : WAlloc) (ha : a.Sound) (s : Start) (hs : ∀ f, s ≠ .default f) (p : EncParam)
    (hd : (fp p).Dom) (h64 : infoSize (fp p) < 2 ^ 64) :
    (∀ w : W, encode p w = cmpEncodeW p w) ∧
    (infoSize (fp p) > 65536 → cmpEncodeToBytes a s p = .err .size) ∧
    (infoSize (fp p) ≤ 65536 → ∃ lf : Bytes, lf.length = 4 ∧
      cmpEncodeToBytes a s p = .ok (s.init ++ Frame.layout lf (fp p))) := by
  obtain ⟨hpre, _, hok, lf, hlf, htgt⟩ := cmp_real_encode a ha s hs p
  obtain ⟨hsz, hbytes⟩ := cmp_encode_bytes p hd h64
  have hgood : ((s.model.run a (encPre 0 p)).1).any obsBad = false := by
    rw [hpre, List.any_append, chunksObs_good]; rfl
  have hafter : ((s.model.run a (encPre 0 p)).2.run a (encPost 0 p)).2 = after a s (encPre 0 p ++ encPost 0 p) := by
    unfold after; rw [cmp_run_append]
  refine ⟨cmp_encode_eq p, fun hbig => ?_, fun hsmall => ⟨lf, hlf, ?_⟩⟩
  · unfold cmpEncodeToBytes
    rw [hgood, if_neg (by simp), if_pos (hsz.mpr hbig)]
  · unfold cmpEncodeToBytes
    rw [hgood, if_neg (by simp), if_neg (fun hc => by have := hsz.mp hc; omega), hafter, hok]
    simp only
    rw [htgt, hbytes hsmall lf]

open Verif.C05 in
/-- **tth_encode_decode_real.** Writer and reader composed: what EncodeToBytes (over the BytesWriter
    model, empty target) returns, followed by any payload, delivered to a fresh DefaultReader by ANY
    `Steady` source script, is decoded by the stream Decode to the encoded parameters, consuming
    exactly the frame. -/
theorem tth_encode_decode_real (a : WAlloc) (ha : a.Sound) (s : Start) (hs : ∀ f, s ≠ .default f)
    (hinit : s.init = []) (p : EncParam) (hd : (fp p).Dom) (hsup : p.proto ∈ supported)
    (hsz : infoSize (fp p) ≤ 65536) (payload : Bytes) (script : List Resp) (hpl : payload.length ≤ 1000000000)
    (hst : Steady Facts.maxConsecutiveEmptyReads script (14 + infoSize (fp p) + payload.length) 0 = true) :
    ∃ frame d, cmpEncodeToBytes a s p = .ok frame ∧ frame.length = 14 + infoSize (fp p) ∧
      (decodeRd (Rd.newDefault ⟨frame ++ payload, script⟩)).1 = .ok d ∧
      (decodeRd (Rd.newDefault ⟨frame ++ payload, script⟩)).2.readLen = frame.length ∧
      (decodeRd (Rd.newDefault ⟨frame ++ payload, script⟩)).2.remaining = payload ∧
      d.flags = p.flags ∧ d.seq = p.seq ∧ d.proto = p.proto ∧
      (∀ k, (mk d.intKV).lookup k = p.intKV.lookup k) ∧ (∀ k, (mk d.strKV).lookup k = p.strKV.lookup k) ∧
      d.headerLen = (frame.length : Int) := by
  obtain ⟨_, _, hsmall⟩ := encodeToBytes_real a ha s hs p hd (by omega)
  obtain ⟨lf, hlf, henc⟩ := hsmall hsz
  rw [hinit, List.nil_append] at henc
  have hfl := layout_length lf (fp p) hlf
  have hlen : (Frame.layout lf (fp p) ++ payload).length = 14 + infoSize (fp p) + payload.length := by
    rw [List.length_append, hfl]
  obtain ⟨d, h1, h2, h3, h4, h5, h6, h7, h8, h9⟩ := tth_decode_stream_fresh p lf payload script hlf hd hsup hsz
    (by rw [hlen]; unfold sizeBound; omega) (by rw [hlen]; exact hst)
  exact ⟨_, d, henc, hfl, h1, h2, h3, h4, h5, h6, h7, h8, h9⟩

/-! ### non-vacuity for §4 -/

section
open Verif.C05

-- C06's sample parameter set through the BytesWriter model (nil target, 0xEE garbage): the first 4
-- bytes are garbage (the caller's length field), the rest is the frame of C06's example
set_option maxRecDepth 200000 in
example : cmpEncodeToBytes exA .bytesNil C06.sample =
    .ok [0xEE, 0xEE, 0xEE, 0xEE, 0x10, 0x00, 0x80, 0x02, 0xFF, 0xFF, 0xFF, 0xFE, 0x00, 0x07,
         4, 0, 0x11, 0, 1, 116, 0x01, 0, 1, 0, 1, 107, 0, 2, 118, 119,
         0x10, 0, 2, 0, 1, 0, 1, 97, 0xFF, 0xFF, 0, 0] := by
  decide +kernel

example : infoSize (fp C06.sample) ≤ 65536 := by decide +kernel

/-- the history Encode issues for the empty parameter set: meta region, two stores, protocol id,
    transform count, two bytes of padding, size field -/
example : encPre 0 { flags := 5, seq := 1, proto := 0, intKV := [], strKV := [] } ++
          encPost 0 { flags := 5, seq := 1, proto := 0, intKV := [], strKV := [] } =
    [.malloc 14, .fill 0 4 [0x10, 0, 0, 5], .fill 0 8 [0, 0, 0, 1], .malloc 1, .fill 1 0 [0], .malloc 1, .fill 2 0 [0],
     .malloc 2, .fill 3 0 [0, 0], .fill 0 12 [0, 1]] := by
  decide +kernel

end

/-! ## §5 the stream readers of C01 / C12 over C04's liveness

  C01's `stream_read_enc_live` and C12's `msgbegin_stream_live` are already stated on the reader model `Rd`
  for every state and source script, with the operational hypothesis `Wire.Live r n`.  C04 proves when
  a source IS live (`Rd.Live`: everything handed over, or no error seen and a `Steady` rest of the
  script); `cmp_steady_wire_live` connects the two, so the hypothesis becomes a decidable property of
  the script. -/

open Verif.Wire in
/-- every BufferReader.Read<kind> over a reader in C04's domain whose source is live in C04's sense:
    the value is returned, exactly its encoding is consumed, and the reader stays good and live -/
theorem stream_read_enc_steady (v : Val) (hv : v.wf) (r : Rd) (rest : Bytes) (h : RdOK r) (hl : r.Live)
    (hrem : r.remaining = enc v ++ rest) :
    ∃ r', brRead v.kind r = .ok (v, r') ∧ r'.remaining = rest ∧ r'.readLen = r.readLen + (enc v).length :=
  C01.stream_read_enc_live v hv r rest ⟨h.1.ri_le, fun hc => (h.1.cap_zero hc).2⟩ hrem
    (cmp_steady_wire_live _ r h hl (by rw [hrem, List.length_append]; omega))

open Verif.Wire in
/-- fresh DefaultReader, any `Steady` script (any fragmentation, empty reads, last byte with io.EOF) -/
theorem stream_read_enc_fresh (v : Val) (hv : v.wf) (rest : Bytes) (script : List Resp)
    (hS : (enc v ++ rest).length ≤ sizeBound)
    (hst : Steady Facts.maxConsecutiveEmptyReads script (enc v ++ rest).length 0 = true) :
    ∃ r', brRead v.kind (Rd.newDefault ⟨enc v ++ rest, script⟩) = .ok (v, r') ∧ r'.remaining = rest ∧
      r'.readLen = (enc v).length := by
  obtain ⟨r', a, b, c⟩ := stream_read_enc_steady v hv (Rd.newDefault ⟨enc v ++ rest, script⟩) rest
    (newDefault_ok _ script hS) (live_newDefault _ script hst) (newDefault_remaining _ script).1
  refine ⟨r', a, b, ?_⟩
  rw [c]
  show (Rd.newDefault ⟨enc v ++ rest, script⟩).ri + _ = _
  rw [(newDefault_remaining _ script).2]; omega

open Verif.Wire in
/-- C12's stream ReadMessageBegin over a source live in C04's sense -/
theorem msgbegin_stream_steady (name : Bytes) (typ seq : Int) (hn : name.length < 2^31)
    (ht : inI32 typ) (hs : inI32 seq) (r : Rd) (rest : Bytes) (h : RdOK r) (hl : r.Live)
    (hrem : r.remaining = enc (.messageBegin name typ seq) ++ rest) :
    ∃ r', brReadMessageBegin r = .ok ((name, (msgType16 typ : Int), seq), r') ∧ r'.remaining = rest ∧
          r'.readLen = r.readLen + lenMessageBegin name :=
  C12.msgbegin_stream_live name typ seq hn ht hs r rest ⟨h.1.ri_le, fun hc => (h.1.cap_zero hc).2⟩ hrem
    (cmp_steady_wire_live _ r h hl (by rw [hrem, List.length_append]; omega))

end Verif.Compose

/-
  Props/C01 — Thrift binary codec: every writer and reader agrees with the wire format.
  Property theorems only; helper lemmas are in Lemmas/Wire*.lean.
    spec   : Spec/Wire.lean   `enc : Val → Bytes`, domain `Val.wf`
    model  : Model/Wire.lean  `write` (Binary.Write*), `append` (Binary.Append*), `length` (*Length),
             `bwWrite` (BufferWriter.Write* over the writer log), `binRead` (Binary.Read*),
             `brRead` (BufferReader.Read* over the reader model `Rd`)
  The writer theorems need only the argument ranges of the Go signatures (`Val.args`: int8 … int64),
  i.e. they also cover lengths/sizes outside the round-trip domain; the reader theorems are for
  the domain `Val.wf` (strings < 2^31 bytes, sizes < 2^31, field type ≠ STOP, message type < 2^16).
-/
import Verif.Lemmas.WireRd
import Verif.Lemmas.WireTotal
namespace Verif.C01
open Verif.Wire

/-- length_eq: the advertised length functions equal the length of the encoding, for every value -/
theorem length_eq (v : Val) : Wire.length v = (enc v).length := by
  cases v <;> simp [Wire.length, enc, u16, u32, u64, lenMessageBegin] <;> omega

/-- inplace_eq: an in-place writer given a buffer at least as long as the encoding overwrites exactly
    the prefix of the buffer with the encoding and returns its length -/
theorem inplace_eq (v : Val) (ha : v.args) (buf : Bytes) (h : (enc v).length ≤ buf.length) :
    write buf 0 v = .ok (enc v ++ buf.drop (enc v).length, (enc v).length) := by
  rw [enc_eq_encM v ha] at h ⊢
  rw [write_encM buf 0 v (by omega), putAt_zero]

/-- the same at any offset of a larger buffer (`Binary.Write*(buf[off:], …)`): nothing outside
    `[off, off + len)` changes -/
theorem inplace_at (v : Val) (ha : v.args) (buf : Bytes) (off : Nat) (h : off + (enc v).length ≤ buf.length) :
    write buf off v = .ok (buf.take off ++ enc v ++ buf.drop (off + (enc v).length), (enc v).length) := by
  rw [enc_eq_encM v ha] at h ⊢
  rw [write_encM buf off v h]; rfl

/-- append_eq: an appending writer appends exactly the encoding -/
theorem append_eq (v : Val) (ha : v.args) (buf : Bytes) : Wire.append buf v = buf ++ enc v := by
  rw [enc_eq_encM v ha, append_encM]

/-- stream_write_eq: on a writer without a sticky error, a stream writer succeeds and appends to the
    writer log exactly one region holding the encoding — for strings/binaries a 4-byte region
    holding the length followed by the payload itself; the bytes a Flush emits grow by `enc v` -/
theorem stream_write_eq (v : Val) (ha : v.args) (w : WLog) (dirty : Nat → UInt8) (h : w.err = none) :
    ∃ w', bwWrite w dirty v = .ok w' ∧ w'.err = none ∧ w'.bytes = w.bytes ++ enc v ∧
      (w'.items = w.items ++ [.region (enc v)] ∨
       ∃ s, (v = .binary s ∨ v = .str s) ∧ w'.items = w.items ++ [.region (u32 s.length), .payload s]) := by
  refine ⟨_, bwWrite_encM w dirty v h, h, ?_, ?_⟩
  · simp [WLog.bytes, itemsOf_bytes, enc_eq_encM v ha]
  · rw [enc_eq_encM v ha]
    cases v <;> simp [itemsOf, u32_eq]

/-- a stream writer on a writer whose Flush failed returns that error and writes nothing -/
theorem stream_write_failed (v : Val) (w : WLog) (dirty : Nat → UInt8) (e : RErr) (h : w.err = some e) :
    bwWrite w dirty v = .err e := bwWrite_failed w dirty v e h

/-- read_enc: every buffer reader, given the encoding of a value of the domain followed by anything,
    returns that value and exactly the encoding's length -/
theorem read_enc (v : Val) (hv : v.wf) (rest : Bytes) :
    binRead v.kind (enc v ++ rest) = .ok (v, (enc v).length) := by
  rw [enc_eq_encM v (wf_args v hv)]; exact binRead_encM v hv rest

/-- stream_read_enc: over the cursor contract of the reader (Spec/WireCursor: on a state that can
    still deliver n bytes, Next/ReadBinary hand out the next n bytes of the remaining stream) —
    for every reader state whose remaining stream starts with the encoding and that can still deliver
    it, whatever the source script, the stream reader returns the value, leaves exactly the rest and
    advances ReadLen by exactly the encoding's length -/
theorem stream_read_enc {rem : Rd → Bytes} {live : Rd → Nat → Prop} (C : Cursor rem live)
    (v : Val) (hv : v.wf) (r : Rd) (rest : Bytes)
    (hrem : rem r = enc v ++ rest) (hl : live r (enc v).length) :
    ∃ r', brRead v.kind r = .ok (v, r') ∧ rem r' = rest ∧ r'.readLen = r.readLen + (enc v).length := by
  rw [enc_eq_encM v (wf_args v hv)] at hrem hl ⊢
  exact brRead_encM C v hv r rest hrem hl

/-- the contract instance proved here: the encoding is already buffered (every BytesReader state, and
    every DefaultReader state after the bytes have arrived, whatever the script did before) -/
theorem stream_read_enc_buffered (v : Val) (hv : v.wf) (r : Rd) (rest : Bytes)
    (hrem : remaining r = enc v ++ rest) (hl : (enc v).length ≤ r.buf.length - r.ri) :
    ∃ r', brRead v.kind r = .ok (v, r') ∧ remaining r' = rest ∧ r'.readLen = r.readLen + (enc v).length :=
  stream_read_enc bufferedCursor v hv r rest hrem hl

/-- stream_read_enc on the reader model itself, with no contract assumed: for EVERY reader state `r`
    (any buffer contents, capacity, sticky error, statistics) and EVERY source script, if the state
    satisfies the representation invariant (`ri ≤ len(buf)`, an unallocated buffer is empty — true of
    every fresh reader, `rinv_newDefault`/`rinv_newBytes`, and preserved by every operation), its
    remaining stream starts with the encoding, and the reader can still deliver that many bytes
    (`Live`: however they are requested, piece by piece, each Next/ReadBinary is served — i.e. the
    script yields them before it fails, in whatever fragments, with whatever empty reads), then the
    stream reader returns the value, leaves exactly the rest and advances ReadLen by the encoding's
    length. "Any fragmentation" is the universally quantified script inside `r`. -/
theorem stream_read_enc_live (v : Val) (hv : v.wf) (r : Rd) (rest : Bytes) (hI : RInv r)
    (hrem : remaining r = enc v ++ rest) (hl : Live r (enc v).length) :
    ∃ r', brRead v.kind r = .ok (v, r') ∧ remaining r' = rest ∧ r'.readLen = r.readLen + (enc v).length := by
  obtain ⟨r', h1, h2, h3⟩ := stream_read_enc liveCursor v hv r rest hrem ⟨hI, hl⟩
  exact ⟨r', h1, h2, h3⟩

/-- stream_read_refines: the converse direction, with NO liveness assumed — on every reader state with
    the representation invariant and under every source script, whenever a stream reader returns a
    value, the buffer reader run on the remaining stream returns the same value with some length n,
    exactly those n bytes have been consumed and ReadLen grew by n. With `read_enc`: if the remaining
    stream starts with `enc v` (v in the domain) a stream read can only return `v` and consume
    `len(enc v)` bytes, or fail — it never returns another value, however the stream is fragmented. -/
theorem stream_read_refines (k : Kind) (r : Rd) (v : Val) (r' : Rd) (hI : RInv r)
    (h : brRead k r = .ok (v, r')) :
    ∃ n, binRead k (remaining r) = .ok (v, n) ∧ remaining r = (remaining r).take n ++ remaining r' ∧
         n ≤ (remaining r).length ∧ r'.readLen = r.readLen + n ∧ RInv r' :=
  brRead_refines k r v r' hI h

/-- corollary: on `enc v ++ rest` a stream read returns `v` and consumes `len(enc v)`, or it fails -/
theorem stream_read_only_enc (v : Val) (hv : v.wf) (r : Rd) (rest : Bytes) (hI : RInv r)
    (hrem : remaining r = enc v ++ rest) (w : Val) (r' : Rd) (h : brRead v.kind r = .ok (w, r')) :
    w = v ∧ r'.readLen = r.readLen + (enc v).length ∧ remaining r' = rest := by
  obtain ⟨n, h1, h2, _, h4, _⟩ := brRead_refines v.kind r w r' hI h
  rw [hrem, read_enc v hv rest] at h1
  simp at h1
  obtain ⟨e1, e2⟩ := h1
  refine ⟨e1.symm, by rw [h4, ← e2], ?_⟩
  rw [hrem, ← e2] at h2
  simp at h2
  exact h2.symm

/-- stream_read_total: on every such state every stream reader returns normally — a value or an
    error, never a panic (no `(nil, nil)` from Next, no exhausted loop) -/
theorem stream_read_total (k : Kind) (r : Rd) (hI : RInv r) :
    (∃ v r', brRead k r = .ok (v, r')) ∨ (∃ e, brRead k r = .err e) :=
  brRead_total k r hI

/-! ## non-vacuity: concrete instances of the hypotheses -/

/-- a DefaultReader over a source that delivers a field header byte by byte, with an empty read in
    between and the last byte together with io.EOF, satisfies the hypotheses of `stream_read_enc_live` -/
example :
    let r := Rd.newDefault ⟨enc (.fieldBegin 11 (-1)) ++ [9], [⟨1, none⟩, ⟨0, none⟩, ⟨1, none⟩, ⟨1, none⟩, ⟨1, some .eof⟩]⟩
    RInv r ∧ remaining r = enc (.fieldBegin 11 (-1)) ++ [9] ∧ Live r (enc (.fieldBegin 11 (-1))).length :=
  ⟨rinv_newDefault _, by decide, liveB_sound 3 3 _ (by decide)⟩

example : (Val.str [0x68, 0xff]).wf ∧ (Val.messageBegin [0x66] 1 (-7)).wf ∧ (Val.fieldBegin 11 (-1)).wf ∧
    (Val.mapBegin 0xff 0x80 2147483647).wf ∧ (Val.double 0x7ff8000000000001).wf := by decide

example : write (List.replicate 6 0xA5) 0 (.i32 (-2)) = .ok ([0xff, 0xff, 0xff, 0xfe, 0xA5, 0xA5], 4) := by decide

example : binRead .str (enc (.str [0x68, 0xff]) ++ [1, 2]) = .ok (.str [0x68, 0xff], 6) := by decide

/-- a bytes reader over the encoding of a field header followed by one more byte satisfies the
    hypotheses of `stream_read_enc_buffered` -/
example : remaining (Rd.newBytes (enc (.fieldBegin 11 (-1)) ++ [9]) 4) = enc (.fieldBegin 11 (-1)) ++ [9] ∧
    (enc (.fieldBegin 11 (-1))).length ≤ (Rd.newBytes (enc (.fieldBegin 11 (-1)) ++ [9]) 4).buf.length -
      (Rd.newBytes (enc (.fieldBegin 11 (-1)) ++ [9]) 4).ri := by decide

example : (⟨[], none⟩ : WLog).err = none := rfl

end Verif.C01

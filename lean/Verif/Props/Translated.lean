/-
  Props/Translated — the property theorems of C01, C02, C03, C06, C08, C10, C12, C15, C17, restated about the functions
  TRANSLATED from the Go source on every run (`Verif.Funcs.*`, `Gen/Funcs.lean`), i.e. about what the source says now.
  Property theorems, the dispatchers they are stated through, and non-vacuity examples only.

  Every theorem is a corollary: rewrite with the equivalence theorem of `Lemmas/Funcs/{Read,Write,Append,TTH,TTH2,Skip}`
  (`Verif.FuncsEq.<F>_eq`: the translated function, through an explicit result lift, IS the model function), then apply the
  property theorem about the model.  The hypotheses are those of the property theorem plus the size domain of the `_eq`
  theorem (buffers shorter than 2^62 / 2^63 bytes, enough loop fuel).  Helper lemmas: `Lemmas/Funcs/Transfer.lean`.

  Result lifts (`Lemmas/Funcs/*`): `liftSkip (n, err)`, `liftRd… (v, l, err)`, `liftW (whole', n)`, `liftMaps`, `liftSec[H]`,
  `liftEof[S]`, `liftChk`, `liftB` map the Go result tuple to the models' outcome type: `err == nil` ↦ `.ok`, a Go error
  value ↦ the canonical model error (`absErr`: `NewProtocolException(id, _)` ↦ `.pe id`), panics and out-of-bounds loads are
  carried over unchanged.  The `…_returns` theorems below undo the lift: the translated function itself returns normally.

  Dispatchers (defined here, one line per translated function, each equal to the models' dispatcher):
    `tRead g k b`   = `Binary.Read<k>(b)` with `spanCacheEnable = g`      (`tRead_eq`   : = `Wire.binRead k b`)
    `tWrite buf off v` = `Binary.Write<v>(buf[off:], …)`                   (`tWrite_eq`  : = `Wire.write buf off v`)
    `tAppend buf v` = `Binary.Append<v>(buf, …)`                           (`tAppend_eq` : = `.ok (Wire.append buf v)`)
    `tLength v`     = `Binary.<v>Length(…)`                                (`tLength_eq` : = `.ok (Wire.length v)`)
  Split per group of translated functions (so that a property's check depends only on the functions it is about):
    Translated/Skip (C02 C03 C08 C17)  Translated/Read (C01 C03 C12 C17)  Translated/Write (C01 C12 C15)  Translated/TTH (C03 C06 C10)
-/
import Verif.Props.Translated.Skip
import Verif.Props.Translated.Read
import Verif.Props.Translated.Write
import Verif.Props.Translated.TTH

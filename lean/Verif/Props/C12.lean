/-
  Props/C12 — Message envelope round-trips; strict version; exceptions surface as errors.
  Property theorems only; helper lemmas are in Lemmas/Wire*.lean.
    spec  : `enc (.messageBegin name typ seq)` (Spec/Wire.lean): first word 0x8001_0000 + (typ mod 2^16),
            4-byte name length, name, 4-byte seq
    model : `write/append/bwWrite` on `.messageBegin`, `binReadMessageBegin`, `brReadMessageBegin`
            (Model/Wire.lean), `marshalFastMsg`, `unmarshalFastMsg`, ApplicationException's codec
            (Model/WireMsg.lean); the payload struct is an abstract FastCodec `C` satisfying `CodecOK`.
-/
import Verif.Lemmas.WireRd
import Verif.Lemmas.WireMsg
import Verif.Lemmas.WireTotal
import Verif.Lemmas.WireMsgAny
namespace Verif.C12
open Verif.Wire

/-- MessageBeginLength(name) is the length of the encoded header -/
theorem msgbegin_length (name : Bytes) (typ seq : Int) :
    lenMessageBegin name = (enc (.messageBegin name typ seq)).length := by
  simp [enc, u32, lenMessageBegin]; omega

/-- msgbegin_roundtrip: for every name shorter than 2^31 bytes, every int32 message type and seq
    (`inI32 typ`, `inI32 seq` are exactly the ranges of the Go parameters `typeID TMessageType` = int32
    and `seq int32`: nothing else is representable at the call; `name.length < 2^31` is the writers'
    length limit — they emit `uint32(len(name))` and the readers take it back as an int32; what
    happens beyond is `msgbegin_rejects_long_name`):
    the three writers emit the same bytes `enc (.messageBegin name typ seq)`, and both readers read
    them back as the same name, `typ mod 2^16` (= `typ & 0xffff`), the same seq, consuming exactly
    MessageBeginLength(name) bytes. The stream reader is stated over the cursor contract
    (Spec/WireCursor), i.e. for every reader state / source script that can deliver the header. -/
theorem msgbegin_roundtrip (name : Bytes) (typ seq : Int) (hn : name.length < 2^31)
    (ht : inI32 typ) (hs : inI32 seq) :
    let m := Val.messageBegin name typ seq
    (∀ buf : Bytes, (enc m).length ≤ buf.length →
        write buf 0 m = .ok (enc m ++ buf.drop (enc m).length, lenMessageBegin name)) ∧
    (∀ buf : Bytes, Wire.append buf m = buf ++ enc m) ∧
    (∀ (w : WLog) (d : Nat → UInt8), w.err = none →
        ∃ w', bwWrite w d m = .ok w' ∧ w'.bytes = w.bytes ++ enc m) ∧
    (∀ rest : Bytes, binReadMessageBegin (enc m ++ rest) =
        .ok (name, (msgType16 typ : Int), seq, lenMessageBegin name)) ∧
    (∀ (rem : Rd → Bytes) (live : Rd → Nat → Prop), Cursor rem live → ∀ (r : Rd) (rest : Bytes),
        rem r = enc m ++ rest → live r (enc m).length →
        ∃ r', brReadMessageBegin r = .ok ((name, (msgType16 typ : Int), seq), r') ∧ rem r' = rest ∧
              r'.readLen = r.readLen + lenMessageBegin name) := by
  intro m
  have ha : m.args := ⟨ht, hs⟩
  have hn' : name.length < 2147483648 := by simpa using hn
  have he := enc_eq_encM m ha
  have hlen : (encM m).length = lenMessageBegin name := by simp [m, encM, lenMessageBegin]; omega
  refine ⟨?_, ?_, ?_, ?_, ?_⟩
  · intro buf h
    rw [he] at h ⊢
    rw [write_encM buf 0 m (by omega), putAt_zero, hlen]
  · intro buf; rw [he, append_encM]
  · intro w d h
    exact ⟨_, bwWrite_encM w d m h, by simp [WLog.bytes, itemsOf_bytes, he]⟩
  · intro rest
    rw [he]
    have := binReadMessageBegin_enc name rest typ seq hn hs
    simp only [m, encM, lenMessageBegin]
    rw [this]; congr 4; omega
  · intro rem live C r rest hrem hl
    rw [he] at hrem hl
    obtain ⟨r', h1, h2, h3⟩ := brReadMessageBegin_ok C r name rest typ seq hn' hs (by simpa [m, encM] using hrem)
      (by rw [hlen] at hl; unfold lenMessageBegin at hl
          have e : 12 + name.length = 4 + (4 + name.length) + 4 := by omega
          rw [e]; exact hl)
    refine ⟨r', h1, h2, ?_⟩
    unfold lenMessageBegin; omega

/-- the stream-reader part of `msgbegin_roundtrip` on the reader model itself (no contract assumed):
    every reader state satisfying the representation invariant whose remaining stream starts with the
    header and that can still deliver it (`Live`), under every source script -/
theorem msgbegin_stream_live (name : Bytes) (typ seq : Int) (hn : name.length < 2^31)
    (ht : inI32 typ) (hs : inI32 seq) (r : Rd) (rest : Bytes) (hI : RInv r)
    (hrem : remaining r = enc (.messageBegin name typ seq) ++ rest)
    (hl : Live r (enc (.messageBegin name typ seq)).length) :
    ∃ r', brReadMessageBegin r = .ok ((name, (msgType16 typ : Int), seq), r') ∧ remaining r' = rest ∧
          r'.readLen = r.readLen + lenMessageBegin name :=
  (msgbegin_roundtrip name typ seq hn ht hs).2.2.2.2 remaining _ liveCursor r rest hrem ⟨hI, hl⟩

/-- bad_version_iff (buffer reader): given at least 4 bytes, ReadMessageBegin fails with BAD_VERSION
    (type id 4) exactly when the first word's upper half is not the strict-version marker 0x8001 -/
theorem bad_version_iff (b : Bytes) (h : 4 ≤ b.length) :
    (∃ l, binReadMessageBegin b = .err (.pe 4, l)) ↔ rd32 b / 65536 ≠ 0x8001 := by
  rw [binReadMessageBegin_char, if_neg (by omega)]
  constructor
  · rintro ⟨l, hl⟩
    by_cases hv : rd32 b / 65536 ≠ 0x8001
    · exact hv
    · rw [if_neg hv] at hl
      repeat' split at hl
      all_goals simp [errShort_id] at hl
  · intro hv
    exact ⟨0, by rw [if_pos hv, errBadVersion_id]⟩

/-- bad_version_iff (stream reader): on a state that can deliver 4 bytes `w`, ReadMessageBegin fails
    with BAD_VERSION exactly when `w`'s upper half is not 0x8001 (it never fails that way otherwise) -/
theorem bad_version_iff_stream {rem : Rd → Bytes} {live : Rd → Nat → Prop} (C : Cursor rem live)
    (r : Rd) (w : Nat) (hw : w < 4294967296) (rest : Bytes) (hrem : rem r = be32 w ++ rest) (hl : live r 4) :
    brReadMessageBegin r = .err (.pe 4) ↔ w / 65536 ≠ 0x8001 := by
  obtain ⟨r1, h1, _, _, _⟩ := brReadI32_ok C r w hw rest hrem hl
  have hv := ver_test w hw
  unfold brReadMessageBegin
  simp only [h1, Out.bind_eq, Out.bind_ok, ofInt32_toI32 w hw]
  constructor
  · intro h
    by_cases hb : w &&& Facts.msgVersionMask ≠ Facts.msgVersion1
    · exact hv.mp hb
    · rw [if_neg hb] at h
      exfalso
      rcases errIn_brMsgTail r1 _ _ h with ⟨se, hse⟩ | hneg
      · cases hse
      · rw [errNeg_id] at hneg; cases hneg
  · intro h
    rw [if_pos (hv.mpr h), errBadVersion_id]

/-- truncated_err: every strict prefix of an encoded header is rejected by the buffer reader
    (with INVALID_DATA and l = 0); the stream reader on a source that ends early fails with the
    wrapped source error (`Verif.C17.stream_err_wraps`) -/
theorem truncated_err (name : Bytes) (typ seq : Int) (hn : name.length < 2^31) (ht : inI32 typ) (hs : inI32 seq)
    (p : Bytes) (hp : p <+: enc (.messageBegin name typ seq)) (hne : p ≠ enc (.messageBegin name typ seq)) :
    binReadMessageBegin p = .err (.pe 1, 0) := by
  have hn' : name.length < 2147483648 := by simpa using hn
  rw [enc_eq_encM _ (show (Val.messageBegin name typ seq).args from ⟨ht, hs⟩)] at hp hne
  have hlen : (encM (.messageBegin name typ seq)).length = 12 + name.length := by simp [encM]; omega
  have hk : p.length < 12 + name.length := by
    rw [← hlen]
    rcases Nat.lt_or_ge p.length (encM (.messageBegin name typ seq)).length with h | h
    · exact h
    · exact absurd (hp.eq_of_length_le h) hne
  have hpe : p = (encM (.messageBegin name typ seq)).take p.length := (List.prefix_iff_eq_take.mp hp)
  rw [hpe, ← errShort_id]
  exact msg_prefix_err name typ seq hn' p.length hk

/-- whatever the buffer reader accepts is exactly an encoded header of the domain: the consumed bytes
    are `enc` of the returned name, type and seq (so nothing truncated, version-less or otherwise
    malformed is ever accepted) -/
theorem accepted_exact (b name : Bytes) (typ seq : Int) (l : Nat)
    (h : binReadMessageBegin b = .ok (name, typ, seq, l)) :
    b.take l = enc (.messageBegin name typ seq) ∧ (Val.messageBegin name typ seq).wf :=
  msg_accept_exact b name typ seq l h

/-- stream counterpart of `accepted_exact`: whatever `BufferReader.ReadMessageBegin` accepts — on any
    reader state with the representation invariant, under any source script — is exactly an encoded
    header at the front of the remaining stream: those bytes are `enc` of the returned name, type and
    seq (a value of the domain), exactly they have been consumed, and ReadLen grew by their number -/
theorem stream_accepted_exact (r r' : Rd) (name : Bytes) (typ seq : Int) (hI : RInv r)
    (h : brReadMessageBegin r = .ok ((name, typ, seq), r')) :
    remaining r = enc (.messageBegin name typ seq) ++ remaining r' ∧
    r'.readLen = r.readLen + (enc (.messageBegin name typ seq)).length ∧
    (Val.messageBegin name typ seq).wf := by
  obtain ⟨n, h1, h2, _, h4, _⟩ := brReadMessageBegin_refines r (name, typ, seq) r' hI h
  cases hy : binReadMessageBegin (remaining r) with
  | ok p =>
    rw [hy] at h1; simp at h1
    obtain ⟨⟨e1, e2, e3⟩, e4⟩ := h1
    have := msg_accept_exact (remaining r) name typ seq n (by rw [hy, ← e1, ← e2, ← e3, ← e4])
    rename_i hle _
    refine ⟨by rw [← this.1]; exact h2, ?_, this.2⟩
    rw [← this.1, h4, List.length_take]; omega
  | err e => rw [hy] at h1; simp at h1
  | panic s => rw [hy] at h1; simp at h1
  | oob => rw [hy] at h1; simp at h1

/-- truncated_err (stream reader): if all that is left — buffered bytes and source stream together —
    is a strict prefix of an encoded header, ReadMessageBegin fails with an error, whatever the script
    (it never accepts, never panics); by `Verif.C17.stream_err_wraps`/`stream_err_source` the error
    is the source's own, wrapped -/
theorem truncated_err_stream (name : Bytes) (typ seq : Int) (hn : name.length < 2^31) (ht : inI32 typ)
    (hs : inI32 seq) (r : Rd) (hI : RInv r)
    (hp : remaining r <+: enc (.messageBegin name typ seq)) (hne : remaining r ≠ enc (.messageBegin name typ seq)) :
    ∃ e, brRead .msg r = .err e := by
  rcases brRead_total .msg r hI with ⟨v, r', hok⟩ | herr
  · exfalso
    obtain ⟨n, h1, _⟩ := brRead_refines .msg r v r' hI hok
    have ht' := truncated_err name typ seq hn ht hs (remaining r) hp hne
    simp only [binRead] at h1
    rw [ht'] at h1
    simp [mapOk] at h1
  · exact herr

/-- marshal_unmarshal: for a non-empty method, any int32 type that is not EXCEPTION (mod 2^16) and
    any payload codec that writes what it advertises and reads back what it wrote, MarshalFastMsg
    produces header ++ payload and UnmarshalFastMsg of those bytes returns the same method, seq and
    payload struct with a nil error -/
theorem marshal_unmarshal {α : Type} (C : Codec α) (dom : α → Prop) (encP : α → Bytes) (hC : CodecOK C dom encP)
    (dirty : Nat → UInt8) (method : Bytes) (typ seq : Int) (msg target : α)
    (hm : method ≠ []) (hn : method.length < 2^31) (ht : inI32 typ) (hs : inI32 seq)
    (hne : msgType16 typ ≠ 3) (hx : dom msg) :
    ∃ b, marshalFastMsg C dirty method typ seq msg = .ok b ∧
         b = enc (.messageBegin method typ seq) ++ encP msg ∧
         unmarshalFastMsg C b target = .ok ⟨method, seq, none, msg⟩ := by
  have hn' : method.length < 2147483648 := by simpa using hn
  have he := enc_eq_encM (.messageBegin method typ seq) (show (Val.messageBegin method typ seq).args from ⟨ht, hs⟩)
  refine ⟨_, marshal_ok C dom encP hC dirty method typ seq msg hm hx, by rw [he], ?_⟩
  have hexc : Facts.mEXCEPTION = 3 := by decide
  rw [unmarshal_plain C method (encP msg) typ seq target hn' hs (by rw [hexc]; exact hne), hC.read msg target hx]

/-- MarshalFastMsg with an empty method returns its documented error (DESIGN §6.3) -/
theorem marshal_empty_method {α : Type} (C : Codec α) (dirty : Nat → UInt8) (typ seq : Int) (msg : α) :
    marshalFastMsg C dirty [] typ seq msg = .err .methodNotSet := by
  simp [marshalFastMsg]

/-- exception_surfaces: a message whose type is EXCEPTION (mod 2^16) and whose body is an encoded
    ApplicationException is returned by UnmarshalFastMsg — for any payload codec and any caller
    struct — as an application-exception error carrying the original type id and text, together
    with the method and seq; the caller's struct is returned unchanged. With MarshalFastMsg as the
    producer this is the full round trip. -/
theorem exception_surfaces {α : Type} (C : Codec α) (dirty : Nat → UInt8) (method : Bytes) (typ seq : Int)
    (ex : AppEx) (target : α)
    (hm : method ≠ []) (hn : method.length < 2^31) (hs : inI32 seq)
    (hexc : msgType16 typ = 3) (hx : ex.wf) :
    ∃ b, marshalFastMsg appExCodec dirty method typ seq ex = .ok b ∧
         unmarshalFastMsg C b target = .ok ⟨method, seq, some (.appEx ex.t ex.m), target⟩ := by
  have hn' : method.length < 2147483648 := by simpa using hn
  refine ⟨_, marshal_ok appExCodec AppEx.wf appExEncM appExCodecOK dirty method typ seq ex hm hx, ?_⟩
  have h3 : Facts.mEXCEPTION = 3 := by decide
  exact unmarshal_exception C method typ seq ex target hn' hs (by rw [h3]; exact hexc) hx

/-- beyond the length limit the behaviour is defined and safe: a name of 2^31 … 2^32-1 bytes is written
    with its length as uint32, which the buffer reader sees as a negative int32 and rejects with
    INVALID_DATA (DESIGN §6.5) — it is never read back as a different header. (Lengths ≥ 2^32 wrap the
    4-byte prefix; no Go program can hold such a string and a buffer for it within the model's 2^47 bound.) -/
theorem msgbegin_rejects_long_name (name rest : Bytes) (typ seq : Int) (ht : inI32 typ) (hs : inI32 seq)
    (h1 : 2^31 ≤ name.length) (h2 : name.length < 2^32) :
    binReadMessageBegin (enc (.messageBegin name typ seq) ++ rest) = .err (.pe 1, 0) := by
  rw [enc_eq_encM _ (show (Val.messageBegin name typ seq).args from ⟨ht, hs⟩), ← errShort_id]
  exact msg_long_name_rejected name rest typ seq (by simpa using h1) (by simpa using h2)

/-- exception_always_error: for EVERY byte string `b`, every payload codec and every caller struct `s`:
    if the header of `b` reads as message type EXCEPTION (the 16-bit type field equals 3 — the code
    compares `TMessageType(header & 0xffff) == EXCEPTION`, mirrored at that width), UnmarshalFastMsg
    returns (method, seq) and a non-nil error — the ApplicationException decoded from the body (for any
    body its FastRead accepts, marshalled by this library or not), or the body's decode error — and
    the caller's struct is returned exactly as it was passed (the payload codec is never run). -/
theorem exception_always_error {α : Type} (C : Codec α) (b : Bytes) (s : α) (method : Bytes) (typ seq : Int)
    (i : Nat) (h : binReadMessageBegin b = .ok (method, typ, seq, i)) (ht : typ = 3) :
    ∃ e, unmarshalFastMsg C b s = .ok ⟨method, seq, some e, s⟩ ∧
      ((∃ ex n, appExRead ⟨0, []⟩ (b.drop i) = (ex, .ok n) ∧ e = .appEx ex.t ex.m) ∨
       (∃ ex er, appExRead ⟨0, []⟩ (b.drop i) = (ex, .err er) ∧ e = .t er)) := by
  have h3 : ((Facts.mEXCEPTION : Nat) : Int) = 3 := by decide
  have h0 : Facts.aeUNKNOWN = 0 := by decide
  have := unmarshal_exception_any C b s method typ seq i h (by rw [h3]; exact ht)
  rwa [h0] at this

/-- non_exception_never_exception_path: for EVERY byte string whose header reads with a type other than
    EXCEPTION (CALL = 1, REPLY = 2, ONEWAY = 4, and every other value of the 16-bit field), the outcome
    is exactly that of the caller's own `FastRead` on the bytes after the header: nil error and the
    struct as FastRead left it, or FastRead's error — never an application exception, and
    ApplicationException.FastRead is not run -/
theorem non_exception_never_exception_path {α : Type} (C : Codec α) (b : Bytes) (s : α) (method : Bytes)
    (typ seq : Int) (i : Nat) (h : binReadMessageBegin b = .ok (method, typ, seq, i)) (ht : typ ≠ 3) :
    unmarshalFastMsg C b s =
      match (C.read s (b.drop i)).2 with
      | .ok _ => .ok ⟨method, seq, none, (C.read s (b.drop i)).1⟩
      | .err e => .ok ⟨method, seq, some (.t e), (C.read s (b.drop i)).1⟩
      | .panic p => .panic p
      | .oob => .oob := by
  have h3 : ((Facts.mEXCEPTION : Nat) : Int) = 3 := by decide
  have hi := msgbegin_ok_le b _ h
  exact unmarshal_plain_gen C b s method typ seq i h (by simpa using hi) (by rw [h3]; exact ht)

/-- the type the header check sees is the low 16 bits of the first word: CALL, REPLY and ONEWAY headers
    never take the exception path, whatever follows -/
theorem call_reply_oneway_not_exception (b method : Bytes) (typ seq : Int) (i : Nat)
    (h : binReadMessageBegin b = .ok (method, typ, seq, i)) :
    typ = ((rd32 b % 65536 : Nat) : Int) ∧ (rd32 b % 65536 = 1 ∨ rd32 b % 65536 = 2 ∨ rd32 b % 65536 = 4 → typ ≠ 3) := by
  rw [binReadMessageBegin_char] at h
  repeat' split at h
  all_goals simp at h
  refine ⟨h.2.1.symm, ?_⟩
  intro hc; rw [← h.2.1]; omega

/-- marshal_unmarshal_exception: the complement of `marshal_unmarshal` (so the round trip is stated for
    every int32 type): for typ mod 2^16 = EXCEPTION, marshalling an ApplicationException `(t, m)` gives
    header ++ its Thrift struct encoding, and unmarshalling those bytes — into any codec / any caller
    struct — returns the same method and seq and the error carrying exactly `(t, m)`; the caller's struct
    is unchanged -/
theorem marshal_unmarshal_exception {α : Type} (C : Codec α) (dirty : Nat → UInt8) (method : Bytes) (typ seq : Int)
    (ex : AppEx) (target : α) (hm : method ≠ []) (hn : method.length < 2^31) (ht : inI32 typ) (hs : inI32 seq)
    (hexc : msgType16 typ = 3) (hx : ex.wf) :
    ∃ b, marshalFastMsg appExCodec dirty method typ seq ex = .ok b ∧
         b = enc (.messageBegin method typ seq) ++
             (enc (.fieldBegin 11 1) ++ enc (.str ex.m) ++ enc (.fieldBegin 8 2) ++ enc (.i32 ex.t) ++ enc .fieldStop) ∧
         unmarshalFastMsg C b target = .ok ⟨method, seq, some (.appEx ex.t ex.m), target⟩ := by
  have hn' : method.length < 2147483648 := by simpa using hn
  have h3 : Facts.mEXCEPTION = 3 := by decide
  refine ⟨_, marshal_ok appExCodec AppEx.wf appExEncM appExCodecOK dirty method typ seq ex hm hx, ?_, ?_⟩
  · rw [enc_eq_encM _ (show (Val.messageBegin method typ seq).args from ⟨ht, hs⟩), appExEncM_eq_enc ex hx.2]
  · exact unmarshal_exception C method typ seq ex target hn' hs (by rw [h3]; exact hexc) hx

/-! ## non-vacuity -/

/-- a ONEWAY header followed by an exception-shaped body: hypotheses of `non_exception_never_exception_path` -/
example : ∃ m t s i, binReadMessageBegin [0x80, 0x01, 0, 4, 0, 0, 0, 1, 0x66, 0, 0, 0, 7, 11, 0, 1, 0, 0, 0, 0, 0] = .ok (m, t, s, i)
    ∧ t ≠ 3 := ⟨[0x66], 4, 7, 13, by decide +kernel, by decide⟩
/-- an EXCEPTION header with a body that is NOT a marshalled exception (unknown field first): hypotheses
    of `exception_always_error` -/
example : ∃ m t s i, binReadMessageBegin [0x80, 0x01, 0, 3, 0, 0, 0, 0, 0, 0, 0, 9, 2, 0, 5, 1, 0] = .ok (m, t, s, i)
    ∧ t = 3 := ⟨[], 3, 9, 12, by decide +kernel, by decide⟩
example : (2:Nat)^31 ≤ 2147483648 ∧ 2147483648 < (2:Nat)^32 := by decide


/-- ApplicationException's own FastCodec satisfies the codec hypotheses of `marshal_unmarshal` -/
example : CodecOK appExCodec AppEx.wf appExEncM := appExCodecOK

example : (⟨6, [0x62, 0x6f]⟩ : AppEx).wf := ⟨by decide, by decide⟩
example : msgType16 1 ≠ 3 ∧ msgType16 65539 = 3 ∧ msgType16 (-65533) = 3 ∧ inI32 (-65533) := by decide
example : 4 ≤ ([0x80, 0x02, 0, 1, 0, 0, 0, 0, 0, 0, 0, 0] : Bytes).length ∧
    rd32 [0x80, 0x02, 0, 1, 0, 0, 0, 0, 0, 0, 0, 0] / 65536 ≠ 0x8001 := by decide
example : ([0x66] : Bytes).length < 2^31 ∧ inI32 65537 ∧ inI32 (-1) ∧ ([0x66] : Bytes) ≠ [] := by decide
example : [0x80, 0x01, 0, 1, 0] <+: enc (.messageBegin [0x66] 1 7) := by decide

end Verif.C12

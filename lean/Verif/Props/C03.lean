/-
  Props/C03 — Decoders never panic or over-report on arbitrary bytes (property theorems only).
-/
import Verif.Lemmas.TypeSize
namespace Verif.C03

/-- The size table the skippers index (regenerated from the source on every run) has an entry for
    every byte, the index expression is unsigned, and each entry is the Thrift fixed size:
    indexing it can never panic, for every type byte including values ≥ 0x80. -/
theorem typeSize_total (t : UInt8) : typeSize t = .ok ((fixedSize t : Nat) : Int) := typeSize_eq t

end Verif.C03

/-
  Props/C03 — Decoders never panic or over-report on arbitrary bytes (property theorems only).
  This file: the size table and Binary.Skip. The other entry points are in Props/C03_<family>.lean.
-/
import Verif.Lemmas.SkipBinCor
import Verif.Lemmas.SkipBRInst
import Verif.Lemmas.SkipBRBytes
import Verif.Lemmas.SkipTplBufiox
import Verif.Lemmas.SkipTplReader
namespace Verif.C03

/-- The size table the skippers index (regenerated from the source on every run) has an entry for
    every byte, the index expression is unsigned, and each entry is the Thrift fixed size:
    indexing it can never panic, for every type byte including values ≥ 0x80. -/
theorem typeSize_total (t : UInt8) : typeSize t = .ok ((fixedSize t : Nat) : Int) := typeSize_eq t

/-- Binary.Skip on EVERY byte string and EVERY type byte returns a length or an error: it never
    panics and never performs an unsafe load outside the slice (the model makes every pointer
    dereference an explicit `load` that yields `oob` outside the slice, and every table index an
    explicit bounds-checked lookup). -/
theorem skipBin_safe (b : Bytes) (t : UInt8) :
    (∀ s, skipBin b t ≠ .panic s) ∧ skipBin b t ≠ .oob := by
  rcases skipBin_total b t with ⟨n, h⟩ | ⟨e, h⟩ <;> simp [h]

/-- whenever Binary.Skip reports success, the reported length is at most the length of the input -/
theorem skipBin_le (b : Bytes) (t : UInt8) (n : Nat) (h : skipBin b t = .ok n) : n ≤ b.length := by
  rw [skipBin_ok_iff] at h
  exact (refBin_good _ t b n h).2

/-- non-vacuity: the historical overshoot witness (truncated map<string,i64>) is now rejected,
    and a negative type byte is handled -/
example : ∃ e, skipBin [0x0b, 0x0a, 0,0,0,1, 0,0,0,0, 0x55] TT.MAP = .err e := by
  rcases skipBin_total [0x0b, 0x0a, 0,0,0,1, 0,0,0,0, 0x55] TT.MAP with ⟨n, h⟩ | h
  · have := skipBin_le _ _ _ h
    rw [skipBin_ok_iff, defaultRecursionDepth_eq] at h
    have h2 := refBin_le_refLen 64 _ _ _ h
    have : refLen 65 TT.MAP [0x0b, 0x0a, 0,0,0,1, 0,0,0,0, 0x55] = none := by decide
    rw [this] at h2; cases h2
  · exact h

/-! ## the stream skippers on bytes-backed readers

  In the models every slice index of the Go code is an explicit `idx`/`u32of` that yields
  `panic "index"` on a short (or nil) slice, the peeked window `buf[rn:]` yields `panic "slice"`,
  a reader that returns `(nil, nil)` hands the caller a nil slice, and a `for {}` loop that does not
  terminate within its fuel yields `panic "nofuel"`.  The theorems say none of these is reachable. -/

/-- BufferReader.Skip over `NewBytesReader(b)` — EVERY byte string, EVERY capacity, EVERY type byte
    (including values ≥ 0x80): a result or an error; never a panic. -/
theorem skipBR_bytes_safe (b : Bytes) (cap : Nat) (t : UInt8) :
    (∀ s, skipBR t (Rd.newBytes b cap) ≠ .panic s) ∧ skipBR t (Rd.newBytes b cap) ≠ .oob := by
  have h2 := skipBR_dry (Rd.newBytes b cap) t (newBytes_dry _ _)
  cases hb : refBR Facts.defaultRecursionDepth t (Rd.newBytes b cap).remaining with
  | none => rw [hb] at h2; obtain ⟨e, he⟩ := h2; simp [he]
  | some n => rw [hb] at h2; obtain ⟨r', hx, _⟩ := h2; simp [hx]

/-- … and whenever it reports success, the consumed length (ReadLen) is at most the input length -/
theorem skipBR_bytes_le (b : Bytes) (cap : Nat) (t : UInt8) (r' : Rd) (hcap : b.length ≤ cap)
    (hx : skipBR t (Rd.newBytes b cap) = .ok ((), r')) : r'.readLen ≤ b.length := by
  have h2 := skipBR_dry (Rd.newBytes b cap) t (newBytes_dry _ _)
  obtain ⟨hr, hri⟩ := newBytes_remaining b cap hcap
  rw [hr] at h2
  cases hb : refBR Facts.defaultRecursionDepth t b with
  | none => rw [hb] at h2; obtain ⟨e, he⟩ := h2; rw [he] at hx; cases hx
  | some n =>
    rw [hb] at h2
    obtain ⟨r1, hy, _, hlen, _⟩ := h2
    rw [hy] at hx
    have : r1 = r' := (Prod.mk.inj (Out.ok.inj hx)).2
    subst this
    have := (refBR_good _ t b n hb).2
    simp only [Rd.readLen, hri] at hlen
    simp only [Rd.readLen]; omega

/-- BufferReader.Skip over the buffered reader in any good state (`RdOK`: C04's invariant, sizes
    ≤ 2^40) over ANY source script — errors anywhere, empty reads, short reads: never a panic. -/
theorem skipBR_stream_safe (r : Rd) (t : UInt8) (hok : RdOK r) :
    (∀ s, skipBR t r ≠ .panic s) ∧ skipBR t r ≠ .oob := by
  rcases skipBR_total_any r t hok with ⟨r', hx⟩ | ⟨e, he⟩
  · simp [hx]
  · simp [he]

/-- SkipDecoder (over bufiox) over `NewBytesReader(b)` — every byte string, capacity, type byte:
    a value or an error; never a panic. -/
theorem bufioxDec_bytes_safe (b : Bytes) (cap : Nat) (t : UInt8) :
    (∀ s, bufioxDecNext (Rd.newBytes b cap) t ≠ .panic s) ∧ bufioxDecNext (Rd.newBytes b cap) t ≠ .oob := by
  have h2 := bufioxDecNext_dry (Rd.newBytes b cap) t (newBytes_dry _ _)
  cases hb : refTpl Facts.defaultRecursionDepth t (Rd.newBytes b cap).remaining with
  | none => rw [hb] at h2; obtain ⟨e, he⟩ := h2; simp [he]
  | some n => rw [hb] at h2; obtain ⟨r', hx, _⟩ := h2; simp [hx]

/-- … and the returned bytes are a prefix of the input (never more than was given) -/
theorem bufioxDec_bytes_le (b : Bytes) (cap : Nat) (t : UInt8) (out : Bytes) (r' : Rd) (hcap : b.length ≤ cap)
    (hx : bufioxDecNext (Rd.newBytes b cap) t = .ok (out, r')) :
    out.length ≤ b.length ∧ out = b.take out.length := by
  have h2 := bufioxDecNext_dry (Rd.newBytes b cap) t (newBytes_dry _ _)
  obtain ⟨hr, _⟩ := newBytes_remaining b cap hcap
  rw [hr] at h2
  cases hb : refTpl Facts.defaultRecursionDepth t b with
  | none => rw [hb] at h2; obtain ⟨e, he⟩ := h2; rw [he] at hx; cases hx
  | some n =>
    rw [hb] at h2
    obtain ⟨r1, hy, _⟩ := h2
    rw [hy] at hx
    have h1 : b.take n = out := (Prod.mk.inj (Out.ok.inj hx)).1
    have hn := (refTpl_good _ t b n hb).2
    have hl : out.length = n := by rw [← h1, List.length_take]; omega
    exact ⟨by omega, by rw [hl, h1]⟩

/-- SkipDecoder (over bufiox) over the buffered reader in any good state over ANY source script:
    never a panic. -/
theorem bufioxDec_stream_safe (r : Rd) (t : UInt8) (hok : RdOK r) :
    (∀ s, bufioxDecNext r t ≠ .panic s) ∧ bufioxDecNext r t ≠ .oob := by
  rcases bufioxDecNext_any r t hok with ⟨e, he⟩ | ⟨n, r1, _, hy, _⟩
  · simp [he]
  · simp [hy]

/-- ReaderSkipDecoder over a plain io.Reader — EVERY byte string, EVERY type byte, EVERY source
    behaviour (any script of short / empty reads and errors; a bytes.Reader in particular): a value
    or an error; never a panic; the read-full loop terminates. -/
theorem readerDec_safe (src : Src) (t : UInt8) :
    (∀ s, readerDecNext src t ≠ .panic s) ∧ readerDecNext src t ≠ .oob := by
  rcases readerDecNext_any src t with ⟨e, he⟩ | ⟨n, s1, _, hy, _⟩
  · simp [he]
  · simp [hy]

/-- … and whenever it reports success, the returned bytes are a prefix of the stream and the
    source has been read exactly that far -/
theorem readerDec_le (src src' : Src) (t : UInt8) (out : Bytes) (hx : readerDecNext src t = .ok (out, src')) :
    out.length ≤ src.stream.length ∧ out = src.stream.take out.length ∧
    src'.stream = src.stream.drop out.length := by
  rcases readerDecNext_any src t with ⟨e, he⟩ | ⟨n, s1, hb, hy, hrem⟩
  · rw [he] at hx; cases hx
  · rw [hy] at hx
    have hinj := Prod.mk.inj (Out.ok.inj hx)
    have hn := (refTpl_good _ t _ n hb).2
    have hl : out.length = n := by rw [← hinj.1, List.length_take]; omega
    rw [hl]
    exact ⟨hn, hinj.1.symm, by rw [← hinj.2]; exact hrem⟩

/-- non-vacuity: type byte 0xff, a truncated list, a negative size — all handled on the stream
    skippers (evaluated on the model) -/
example : skipBR 0xff (Rd.newBytes [1, 2, 3] 3) = .err errUnknownType := by decide
example : ∃ e, skipBR TT.LIST (Rd.newBytes [0xff, 0, 0, 0, 1, 7] 6) = .err e := by
  have h := skipBR_bytes_safe [0xff, 0, 0, 0, 1, 7] 6 TT.LIST
  have h2 := skipBR_dry (Rd.newBytes [0xff, 0, 0, 0, 1, 7] 6) TT.LIST (newBytes_dry _ _)
  have hr : (Rd.newBytes [0xff, 0, 0, 0, 1, 7] 6).remaining = [0xff, 0, 0, 0, 1, 7] := by decide
  have : refBR Facts.defaultRecursionDepth TT.LIST [0xff, 0, 0, 0, 1, 7] = none := by decide
  rw [hr, this] at h2
  exact h2

/-- a source that errors in mid-value (and a truncated one): an error, no panic (model evaluated) -/
example : readerDecNext ⟨[0,0,0,2, 65, 66], [⟨3, none⟩, ⟨1, some (.src 1)⟩, ⟨1, some (.src 2)⟩]⟩ TT.STRING
    = .err (.raw (.src 2)) := by decide
example : readerDecNext ⟨[0,0,0,2, 65], [⟨3, none⟩, ⟨0, none⟩, ⟨5, none⟩]⟩ TT.STRING = .err (.raw .eof) := by
  decide

end Verif.C03

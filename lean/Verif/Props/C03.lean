/-
  Props/C03 — Decoders never panic or over-report on arbitrary bytes (property theorems only).
  This file: the size table and Binary.Skip. The other entry points are in Props/C03_<family>.lean.
-/
import Verif.Lemmas.SkipBinCor
namespace Verif.C03

/-- The size table the skippers index (regenerated from the source on every run) has an entry for
    every byte, the index expression is unsigned, and each entry is the Thrift fixed size:
    indexing it can never panic, for every type byte including values ≥ 0x80. -/
theorem typeSize_total (t : UInt8) : typeSize t = .ok ((fixedSize t : Nat) : Int) := typeSize_eq t

/-- Binary.Skip on EVERY byte string and EVERY type byte returns a length or an error: it never
    panics and never performs an unsafe load outside the slice (the model makes every pointer
    dereference an explicit `load` that yields `oob` outside the slice, and every table index an
    explicit bounds-checked lookup). -/
theorem skipBin_safe (b : Bytes) (t : UInt8) :
    (∀ s, skipBin b t ≠ .panic s) ∧ skipBin b t ≠ .oob := by
  rcases skipBin_total b t with ⟨n, h⟩ | ⟨e, h⟩ <;> simp [h]

/-- whenever Binary.Skip reports success, the reported length is at most the length of the input -/
theorem skipBin_le (b : Bytes) (t : UInt8) (n : Nat) (h : skipBin b t = .ok n) : n ≤ b.length := by
  rw [skipBin_ok_iff] at h
  exact (refBin_good _ t b n h).2

/-- non-vacuity: the historical overshoot witness (truncated map<string,i64>) is now rejected,
    and a negative type byte is handled -/
example : ∃ e, skipBin [0x0b, 0x0a, 0,0,0,1, 0,0,0,0, 0x55] TT.MAP = .err e := by
  rcases skipBin_total [0x0b, 0x0a, 0,0,0,1, 0,0,0,0, 0x55] TT.MAP with ⟨n, h⟩ | h
  · have := skipBin_le _ _ _ h
    rw [skipBin_ok_iff, defaultRecursionDepth_eq] at h
    have h2 := refBin_le_refLen 64 _ _ _ h
    have : refLen 65 TT.MAP [0x0b, 0x0a, 0,0,0,1, 0,0,0,0, 0x55] = none := by decide
    rw [this] at h2; cases h2
  · exact h

end Verif.C03

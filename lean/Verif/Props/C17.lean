/-
  Props/C17 — Decode failures carry the Thrift exception type for their cause: the SKIP functions.
  (The scalar readers and ReadMessageBegin are in Props/C17_wire.lean.)  Property theorems only.

  `causeBin` (Spec/Cause.lean) classifies, independently of the code, the first failure met when a
  byte string is read as one value of type t: truncated | unknownType | negativeSize | depth; it
  accepts exactly what the grammar accepts (`cause_consistent`).  `typeIdOf` maps a cause to Thrift's
  TProtocolException number: INVALID_DATA 1 (truncation, unknown type), NEGATIVE_SIZE 2, DEPTH_LIMIT 6.
-/
import Verif.Lemmas.SkipBinCause
import Verif.Lemmas.SkipBRWrap
import Verif.Lemmas.SkipBRSource
import Verif.Lemmas.SkipBRCauseRef
import Verif.Lemmas.SkipBRCauseInst
namespace Verif.C17

/-- the classifier and the grammar agree on what is a value, and on its extent -/
theorem cause_consistent (d : Nat) (t : UInt8) (b : Bytes) (n : Nat) :
    causeBin d t b = .ok n ↔ refBin d t b = some n := causeBin_ok_iff d t b n

/-- error-exact refinement — Binary.Skip on EVERY byte string and EVERY type byte returns the extent
    when the classifier accepts, and otherwise the protocol exception (no wrapped error) whose type
    id is the one Thrift defines for the classified cause. Nothing else: no panic, no other id. -/
theorem skipBin_exact (b : Bytes) (t : UInt8) :
    skipBin b t = match causeBin 64 t b with
                  | .ok n => .ok n
                  | .error c => .err (.pe (typeIdOf c)) := by
  rw [skipBin_cause]; cases causeBin 64 t b <;> rfl

/-- skip_err_typeId: every failure of Binary.Skip is a protocol exception whose type id is the one
    Thrift defines for the cause, as classified by the independent reference -/
theorem skipBin_err_typeId (b : Bytes) (t : UInt8) (e : TErr) (h : skipBin b t = .err e) :
    ∃ c, causeBin 64 t b = .error c ∧ e = .pe (typeIdOf c) := by
  rw [skipBin_exact] at h
  cases hc : causeBin 64 t b with
  | ok n => rw [hc] at h; cases h
  | error c => rw [hc] at h; cases h; exact ⟨c, rfl, rfl⟩

/-- … and conversely every classified cause surfaces as that exception -/
theorem skipBin_cause_err (b : Bytes) (t : UInt8) (c : Cause) (h : causeBin 64 t b = .error c) :
    skipBin b t = .err (.pe (typeIdOf c)) := by
  rw [skipBin_exact, h]

/-- truncation (anything cut short, at any nesting level) → INVALID_DATA -/
theorem skipBin_truncated_invalid_data (b : Bytes) (t : UInt8) (h : causeBin 64 t b = .error .truncated) :
    skipBin b t = .err (.pe 1) := skipBin_cause_err b t _ h

/-- a type code that is none of the 11 Thrift types and has to be parsed → INVALID_DATA -/
theorem skipBin_unknown_type_invalid_data (b : Bytes) (t : UInt8)
    (h : causeBin 64 t b = .error .unknownType) : skipBin b t = .err (.pe 1) := skipBin_cause_err b t _ h

/-- a string / container size with the sign bit set → NEGATIVE_SIZE -/
theorem skipBin_negative_size (b : Bytes) (t : UInt8) (h : causeBin 64 t b = .error .negativeSize) :
    skipBin b t = .err (.pe 2) := skipBin_cause_err b t _ h

/-- nesting beyond 64 levels → DEPTH_LIMIT -/
theorem skipBin_depth_limit (b : Bytes) (t : UInt8) (h : causeBin 64 t b = .error .depth) :
    skipBin b t = .err (.pe 6) := skipBin_cause_err b t _ h

/-- the numbers of the spec are the numbers of the source (regenerated on every run), and the
    model's predeclared exception values carry them -/
theorem skip_typeIds :
    typeIdOf .truncated = Facts.peINVALID_DATA ∧ typeIdOf .unknownType = Facts.peINVALID_DATA ∧
    typeIdOf .negativeSize = Facts.peNEGATIVE_SIZE ∧ typeIdOf .depth = Facts.peDEPTH_LIMIT ∧
    errShort = .pe 1 ∧ errUnknownType = .pe 1 ∧ errNeg = .pe 2 ∧ errDepth = .pe 6 := by decide

/-! ### non-vacuity: each cause occurs, at the top level and nested, incl. the overshoot shapes -/

-- list<i32> of 2 with one element; a struct cut inside a field id; a map<string,i64> whose last
-- value is cut (the historical overshoot, F4): all truncated
example : causeBin 64 TT.LIST [8, 0,0,0,2, 0,0,0,1] = .error .truncated := by decide
example : causeBin 64 TT.STRUCT [8, 0] = .error .truncated := by decide
example : causeBin 64 TT.MAP [0x0b, 0x0a, 0,0,0,1, 0,0,0,0, 0x55] = .error .truncated := by decide
example : skipBin [0x0b, 0x0a, 0,0,0,1, 0,0,0,0, 0x55] TT.MAP = .err (.pe 1) :=
  skipBin_truncated_invalid_data _ _ (by decide)
-- type 0x10 requested; type 5 as a list element; type 0xff as a struct field
example : causeBin 64 0x10 [1, 2, 3] = .error .unknownType := by decide
example : causeBin 64 TT.LIST [5, 0,0,0,1, 7] = .error .unknownType := by decide
example : skipBin [0xff, 0, 1, 7] TT.STRUCT = .err (.pe 1) :=
  skipBin_unknown_type_invalid_data _ _ (by decide)
-- string, list and map sizes 0x80000000 / 0xffffffff, top level and inside a struct field
example : causeBin 64 TT.STRING [0x80, 0, 0, 0] = .error .negativeSize := by decide
example : causeBin 64 TT.STRUCT [0x0f, 0, 1, 3, 0xff, 0xff, 0xff, 0xff] = .error .negativeSize := by decide
example : skipBin [3, 3, 0x80, 0, 0, 0, 1, 1] TT.MAP = .err (.pe 2) :=
  skipBin_negative_size _ _ (by decide)
-- the depth rule on a small budget: 2 levels allowed, 3 lists around an empty list
example : causeBin 2 TT.LIST [0x0f, 0,0,0,1, 0x0f, 0,0,0,1, 0x0f, 0,0,0,0] = .error .depth := by decide
-- a size is read before the elements: negative size inside wins over a later truncation, depth is
-- checked before the nested header is looked at
example : causeBin 1 TT.LIST [0x0f, 0,0,0,1, 0x0f, 0x80] = .error .depth := by decide
-- accepted values are reported with their extent
example : causeBin 64 TT.MAP [0x0b, 0x0a, 0,0,0,1, 0,0,0,0, 1,2,3,4,5,6,7,8, 0xee] = .ok 18 := by decide

/-! ## BufferReader.Skip: failures caused by the underlying reader wrap that reader's error -/

/-- a failing `Next` / `Skip` of the underlying reader surfaces as exactly
    NewProtocolExceptionWithErr(e) — `.wrap e`, which `errors.Is` matches against `e` -/
theorem brNext_err_wrapped (n : Int) (r r' : Rd) (se : RErr) (h : r.next n = (.fail (some se), r')) :
    brNext n r = .err (.wrap se) := by
  simp [brNext, h]

theorem brSkipn_err_wrapped (n : Int) (r r' : Rd) (se : RErr) (hn : 0 ≤ n)
    (h : r.skip n = (.fail (some se), r')) : brSkipn n r = .err (.wrap se) := by
  have : ¬ n < 0 := by omega
  simp [brSkipn, h, this]

/-- skipBR_err_wraps (stream_err_wraps for Skip) — for EVERY reader state (any buffer contents, any
    source script, any sticky error), type byte and nesting: every error BufferReader.Skip returns is
      * `.wrap se` where `se` is exactly the error a `Next(n)`/`Skip(n)` call (0 ≤ n ≤ 2^35) of the
        underlying reader returned, in a state reached from the initial one through reader calls
        that did not fail (so it is the FIRST failing reader call), or
      * one of NEGATIVE_SIZE / DEPTH_LIMIT / INVALID_DATA("unknown data type").
    Never a bare reader error (`.raw`), never a wrapped error the reader did not return, never
    another type id.  (`BRErr`, `RdReach`, `RdFails`: Lemmas/SkipBRWrap.lean.)
    That `se` is the *source's* own error / io.EOF / io.ErrNoProgress is `skipBR_err_source` below. -/
theorem skipBR_err_wraps (t : UInt8) (r : Rd) (e : TErr) (h : skipBR t r = .err e) : BRErr r e :=
  (skipBR_prov t r).2 e h

/-- the stream-flavoured classifier the Tie B verdict uses for BufferReader.Skip (`causeStream`:
    depth and type code are judged before any byte of a nested value is requested; a non-fixed struct
    field is a nested value) accepts exactly what BufferReader.Skip's acceptance discipline `refBR`
    (C02/C08) accepts, with the same extent -/
theorem causeStream_consistent (d : Nat) (t : UInt8) (b : Bytes) (n : Nat) :
    causeStream d t b = .ok n ↔ refBR d t b = some n := causeStream_ok_iff d t b n

/-- the same, read off as type ids: a wrapped reader error, or id 2 / 6 / 1 without cause -/
theorem skipBR_err_kinds (t : UInt8) (r : Rd) (e : TErr) (h : skipBR t r = .err e) :
    (∃ r1 se, RdReach r r1 ∧ RdFails r1 se ∧ e = .wrap se) ∨ e = .pe 2 ∨ e = .pe 6 ∨ e = .pe 1 := by
  cases skipBR_err_wraps t r e h with
  | wrap hr hf => exact .inl ⟨_, _, hr, hf, rfl⟩
  | neg => exact .inr (.inl (by decide))
  | depth => exact .inr (.inr (.inl (by decide)))
  | unknownType => exact .inr (.inr (.inr (by decide)))

/-- END TO END over the buffered reader of C04 on a scripted source — EVERY stream of at most
    `sizeBound` = 2^40 bytes (the range of `RdOK`, inside C04's request domain),
    EVERY script (any chunking, empty reads, any injected error value at any position), every type
    byte: a failure of BufferReader.Skip is
      * the source's own error — the first error of its script, io.EOF once the script is exhausted —
        or io.ErrNoProgress (only when the script has `maxConsecutiveEmptyReads` quiet entries in a
        row), wrapped by NewProtocolExceptionWithErr so that `errors.Is` still matches it, or
      * NEGATIVE_SIZE / DEPTH_LIMIT / INVALID_DATA(unknown type) without cause.
    (composition of `skipBR_err_wraps` with C04's provenance theorem `step_prov`) -/
theorem skipBR_err_source (S : Bytes) (script : List Resp) (hS : S.length ≤ sizeBound) (t : UInt8) (e : TErr)
    (h : skipBR t (Rd.newDefault ⟨S, script⟩) = .err e) :
    (∃ se, e = .wrap se ∧ (se = firstErr script ∨
        (se = .noProgress ∧ quietRun Facts.maxConsecutiveEmptyReads script 0 = true)))
    ∨ e = .pe 2 ∨ e = .pe 6 ∨ e = .pe 1 := by
  rcases skipBR_err_source_any script _ (srcInv_newDefault S script hS) t e h with ⟨se, he, hs⟩ | h | h | h
  · exact .inl ⟨se, he, hs⟩
  · exact .inr (.inl (by rw [h]; decide))
  · exact .inr (.inr (.inl (by rw [h]; decide)))
  · exact .inr (.inr (.inr (by rw [h]; decide)))

/-- … and over a bytes reader (NewBytesReader, any capacity) the only reader-caused failure is io.EOF -/
theorem skipBR_bytes_err (b : Bytes) (cap : Nat) (hcap : b.length ≤ cap) (hcap2 : cap ≤ 18446744073709551616)
    (hb : b.length ≤ sizeBound) (t : UInt8) (e : TErr) (h : skipBR t (Rd.newBytes b cap) = .err e) :
    e = .wrap .eof ∨ e = .pe 2 ∨ e = .pe 6 ∨ e = .pe 1 := by
  rcases skipBR_err_source_any [] _ (srcInv_newBytes b cap hcap hcap2 hb) t e h with ⟨se, he, hs⟩ | h | h | h
  · left
    rcases hs with hs | ⟨_, hq⟩
    · rw [he, hs]; rfl
    · exact absurd hq (by decide)
  · exact .inr (.inl (by rw [h]; decide))
  · exact .inr (.inr (.inl (by rw [h]; decide)))
  · exact .inr (.inr (.inr (by rw [h]; decide)))

/-- ERROR-EXACT on bytes-backed readers — EVERY byte string, EVERY capacity ≥ its length, EVERY type
    byte: BufferReader.Skip over NewBytesReader(b) consumes exactly the extent when the stream
    classifier accepts; fails with the reader's error WRAPPED when the cause is truncation (the bytes
    end before the value does); and otherwise fails with the protocol exception, without cause,
    whose type id is Thrift's for the cause (NEGATIVE_SIZE 2, DEPTH_LIMIT 6, INVALID_DATA 1 for an
    unknown type). -/
theorem skipBR_bytes_exact (b : Bytes) (cap : Nat) (hcap : b.length ≤ cap) (t : UInt8) :
    match causeStream 64 t b with
    | .ok n => ∃ r', skipBR t (Rd.newBytes b cap) = .ok ((), r') ∧ r'.readLen = n
    | .error c => ∃ e, skipBR t (Rd.newBytes b cap) = .err e ∧
        (if c = .truncated then ∃ se, e = .wrap se else e = .pe (typeIdOf c)) := by
  have h := skipBR_dry_cause (Rd.newBytes b cap) t (newBytes_dry b cap)
  obtain ⟨hrem, hri⟩ := newBytes_remaining b cap hcap
  rw [hrem] at h
  cases hc : causeStream 64 t b with
  | ok n =>
    rw [hc] at h
    obtain ⟨r', hx, _, hl⟩ := h
    exact ⟨r', hx, by simp only [Rd.readLen] at hl ⊢; omega⟩
  | error c => rw [hc] at h; exact h

/-- ERROR-EXACT over C04's buffered reader on a LIVE scripted source (`Steady`: every byte of the
    stream is deliverable before any error, whatever room the reader offers) — every stream of at most
    `sizeBound` = 2^40 bytes (`RdOK`), every such script (any chunking, empty reads short of the no-progress limit): the same
    three-way agreement with the stream classifier. -/
theorem skipBR_live_exact (S : Bytes) (script : List Resp) (hS : S.length ≤ sizeBound)
    (hst : Steady Facts.maxConsecutiveEmptyReads script S.length 0 = true) (t : UInt8) :
    match causeStream 64 t S with
    | .ok n => ∃ r', skipBR t (Rd.newDefault ⟨S, script⟩) = .ok ((), r') ∧ r'.readLen = n
    | .error c => ∃ e, skipBR t (Rd.newDefault ⟨S, script⟩) = .err e ∧
        (if c = .truncated then ∃ se, e = .wrap se else e = .pe (typeIdOf c)) := by
  have h := skipBR_live_cause (Rd.newDefault ⟨S, script⟩) t (newDefault_ok S script hS)
    (live_newDefault S script hst)
  obtain ⟨hrem, hri⟩ := newDefault_remaining S script
  rw [hrem] at h
  cases hc : causeStream 64 t S with
  | ok n =>
    rw [hc] at h
    obtain ⟨r', hx, _, hl⟩ := h
    exact ⟨r', hx, by simp only [Rd.readLen] at hl ⊢; omega⟩
  | error c => rw [hc] at h; exact h

/-! non-vacuity: an injected source error in the middle of a list, io.EOF on a short stream -/
example : skipBR TT.LIST (Rd.newDefault ⟨[3, 0,0,0,4, 1,2], [⟨7, some (.src 2)⟩]⟩) = .err (.wrap (.src 2)) := by
  decide
example : skipBR TT.STRING (Rd.newDefault ⟨[0,0,0,9, 1], [⟨5, none⟩]⟩) = .err (.wrap .eof) := by decide
example : skipBR TT.STRING (Rd.newBytes [0xff, 0, 0, 0] 4) = .err (.pe 2) := by decide
example : Steady Facts.maxConsecutiveEmptyReads [⟨1, none⟩, ⟨0, none⟩, ⟨1, none⟩, ⟨1, some .eof⟩] 3 0 = true := by
  decide
-- where the stream differs from Binary.Skip: a nested list at level 3 of 2 with nothing left
example : causeBin 2 TT.LIST [0x0f, 0,0,0,1, 0x0f, 0,0,0,1] = .error .truncated ∧
    causeStream 2 TT.LIST [0x0f, 0,0,0,1, 0x0f, 0,0,0,1] = .error .depth := by decide
-- an unknown type requested on an empty input: Binary.Skip says "buffer too short" (truncated), the
-- stream skipper says "unknown data type" without asking the reader — both INVALID_DATA
example : causeBin 64 0x10 [] = .error .truncated ∧ causeStream 64 0x10 [] = .error .unknownType := by decide
example : skipBin [] 0x10 = .err (.pe 1) ∧ skipBR 0x10 (Rd.newBytes [] 0) = .err (.pe 1) := by decide

end Verif.C17

/-
  Props/C16 — decoded values are independent of the input buffer and of the allocator configuration.
  (property theorems + non-vacuity examples only; lemmas in Lemmas/MemDecode.lean)

  Setting: the object-level heap of Base/Mem.lean.  A decoded value is a slice; "independent copy" means
  its CAPACITY region (what the value occupies and what `append` may write in place) shares no byte with
  the input or with any other value (`Slice.CapDisjoint`).  Modelled, not verified (DESIGN §7): the span
  allocator (`Span.make`, written from lang/span/span.go; the CAS fallback under contention is the flag
  `contended`), Go's `[]byte(string(..))` / `string(..)` (a fresh Go-heap object of arbitrary spare
  capacity `slack`), `dirtmake.Bytes`, `append`.  Racing goroutines are runtime behaviour.
-/
import Verif.Lemmas.MemDecode
import Verif.Lemmas.MemDecodeRun
namespace Verif.C16
open Verif Verif.Mem Verif.Heap

/-! ## the span allocator contract -/

/-- span_disjoint: `spanCache.Make(n)` — on every path: below / inside / above the size classes (0,
    < 128 B, 128 B … 128 KiB, larger), lock contention, and the wrap to a new span buffer when the
    current one is exhausted — returns a slice with cap = len = n inside a Go-heap object whose capacity
    region is disjoint from EVERY slice that respects the reserve lines (`Below`), and afterwards the result
    respects them too.  By induction successive results are pairwise disjoint (see `decodes_independent`). -/
theorem span_disjoint (c : SpanCache) (h : Heap) (n : Nat) (contended : Bool) (hi : CacheInv c h) :
    let r := c.make h n contended
    r.1.len = n ∧ r.1.cap = n ∧ CacheInv r.2.1 r.2.2 ∧ Below r.2.1 r.2.2 r.1 ∧
    (∀ f : Slice, Below c h f → r.1.CapDisjoint f ∧ Below r.2.1 r.2.2 f) := by
  obtain ⟨a, b, c1, _, _, _, _, d, e⟩ := cache_make_ok c h n contended hi
  exact ⟨a, b, c1, d, e⟩

/-- `NewSpanCache(size)` establishes the cache invariant, and everything that existed before respects the
    reserve lines -/
theorem span_init (h : Heap) (size : Nat) (hs : size < 4294967296) :
    CacheInv (SpanCache.new h size).1 (SpanCache.new h size).2 ∧
    ∀ f : Slice, f.obj < h.size → Below (SpanCache.new h size).1 (SpanCache.new h size).2 f :=
  cacheInv_new h size hs

/-- the span size the source passes to `span.NewSpanCache` (Tie A: `Facts.spanCacheBytes`, regenerated from
    protocol/thrift/binary.go on every run) fits the allocator's `uint32` arithmetic -/
theorem spanCacheBytes_lt : Facts.spanCacheBytes < 4294967296 := by decide

/-- span_init at the source's value: `spanCache = span.NewSpanCache(Facts.spanCacheBytes)` satisfies the
    cache invariant, so `span_disjoint`, `read_fresh`, `decodes_independent` and `flag_irrelevant` (all stated
    for EVERY cache state with `CacheInv`, i.e. every span size below 2^32 and every fill level) apply to the
    real configuration and to every state reachable from it. -/
theorem span_init_source (h : Heap) :
    CacheInv (SpanCache.new h Facts.spanCacheBytes).1 (SpanCache.new h Facts.spanCacheBytes).2 ∧
    ∀ f : Slice, f.obj < h.size →
      Below (SpanCache.new h Facts.spanCacheBytes).1 (SpanCache.new h Facts.spanCacheBytes).2 f :=
  span_init h Facts.spanCacheBytes spanCacheBytes_lt

/-- span_disjoint at the source's value: the first `Make` after `NewSpanCache(Facts.spanCacheBytes)` (and, by
    the invariant it re-establishes, every later one) returns cap = len = n, disjoint from everything that
    existed before the cache was created -/
theorem span_disjoint_source (h : Heap) (n : Nat) (contended : Bool) :
    let c := SpanCache.new h Facts.spanCacheBytes
    let r := c.1.make c.2 n contended
    r.1.len = n ∧ r.1.cap = n ∧ CacheInv r.2.1 r.2.2 ∧ (∀ f : Slice, f.obj < h.size → r.1.CapDisjoint f) := by
  obtain ⟨hc, hb⟩ := span_init_source h
  obtain ⟨a, b, c, _, e⟩ := span_disjoint _ _ n contended hc
  exact ⟨a, b, c, fun f hf => (e f (hb f hf)).1⟩

/-! ## Binary.ReadBinary / ReadString -/

/-- read_fresh (Binary): with the span cache on or off, contended or not, a successful
    `Binary.ReadBinary` / `ReadString` returns a slice in a Go-heap object whose capacity region is
    disjoint from the input and from every earlier result (every slice below the reserve lines); it
    holds exactly the bytes `buf[4:l]`; with the span cache on, cap = len (an append must reallocate);
    the decode wrote nothing but the result's own bytes and logged no fault. -/
theorem read_fresh (cfg : DecCfg) (c : SpanCache) (h : Heap) (buf s : Slice) (l : Nat)
    (c' : SpanCache) (h' : Heap) (hc : CacheInv c h) (hin : InputOK h buf) (hb : Below c h buf)
    (hrun : binReadBinary cfg c h buf = (.ok (s, l), c', h')) :
    s.CapDisjoint buf ∧ (∀ f : Slice, Below c h f → s.CapDisjoint f) ∧
    h'.view s = h.bytes buf.obj (buf.off + 4) (l - 4) ∧ (cfg.spanOn = true → s.cap = s.len) ∧
    OnlyWrote h h' s ∧ h'.faults = h.faults := by
  obtain ⟨_, _, _, _, a5, a6, a7, a8, _, _, a11, a12, _⟩ := binReadBinary_ok cfg c h buf s l c' h' hc hin hb hrun
  exact ⟨a7, fun f hf => (a8 f hf).1, a6, a5, a11, a12⟩

/-- decodes_independent: two successive decodes (any configurations, any inputs — the second input may
    even be the first result): the second result is disjoint from the first result and from both inputs,
    and the first result still holds the same bytes after the second decode. -/
theorem decodes_independent (cfg1 cfg2 : DecCfg) (c : SpanCache) (h : Heap) (b1 b2 s1 s2 : Slice) (l1 l2 : Nat)
    (c1 c2 : SpanCache) (h1 h2 : Heap) (hc : CacheInv c h) (hin1 : InputOK h b1) (hb1 : Below c h b1)
    (hin2 : InputOK h1 b2) (hb2 : Below c1 h1 b2)
    (hr1 : binReadBinary cfg1 c h b1 = (.ok (s1, l1), c1, h1))
    (hr2 : binReadBinary cfg2 c1 h1 b2 = (.ok (s2, l2), c2, h2)) :
    s2.CapDisjoint s1 ∧ s2.CapDisjoint b1 ∧ s2.CapDisjoint b2 ∧ h2.view s1 = h1.view s1 := by
  obtain ⟨_, _, _, p4, _, _, _, p8, p9, p10, _, _, _, ⟨x1, hx1, _, _⟩, _⟩ :=
    binReadBinary_ok cfg1 c h b1 s1 l1 c1 h1 hc hin1 hb1 hr1
  obtain ⟨_, _, _, q4, _, _, q7, q8, _, _, q11, _, _, _⟩ := binReadBinary_ok cfg2 c1 h1 b2 s2 l2 c2 h2 p10 hin2 hb2 hr2
  refine ⟨(q8 s1 p9).1, (q8 b1 (p8 b1 hb1).2).1, q7, ?_⟩
  exact view_of_onlyWrote q11 (obj?_lt h1 _ x1 hx1) p4 (q8 s1 p9).1 q4

/-! ## runs of decodes -/

/-- run_values_stable: along EVERY run — any number of further decodes (any configuration; enough of them
    wrap the span of any size class), failing decodes, user writes anywhere in the capacity region of any
    input buffer, user writes into and appends to any OTHER result, environment steps, new input buffers —
    a value `A` that has been returned stays one of the results and keeps exactly its bytes; and the run
    invariant (`DInv`: cache invariant, reserve lines, disjointness) is kept, so this holds from every
    later state on as well. -/
theorem run_values_stable {A : Slice} {a b : DSt} (hi : DInv a) (hA : A ∈ a.res) (t : DecSteps A a b) :
    DInv b ∧ A ∈ b.res ∧ b.h.view A = a.h.view A :=
  t.ok hi hA

/-- run_results_disjoint: at every point of every run all results are pairwise disjoint (capacity
    regions) and disjoint from every input buffer the user holds. -/
theorem run_results_disjoint {A : Slice} {a b : DSt} (hi : DInv a) (hA : A ∈ a.res) (t : DecSteps A a b) :
    (∀ x ∈ b.res, ∀ y ∈ b.res, x ≠ y → x.CapDisjoint y) ∧ (∀ x ∈ b.res, ∀ i ∈ b.ins, x.CapDisjoint i) :=
  ⟨(t.ok hi hA).1.rr, (t.ok hi hA).1.ri⟩

/-- run_from_decode: the two statements chained from the decode that produced the value: whatever state
    satisfying the run invariant the decode started in, its result is stable and disjoint for ever after. -/
theorem run_from_decode (st : DSt) (cfg : DecCfg) (buf s : Slice) (l : Nat) (c' : SpanCache) (h' : Heap)
    (hi : DInv st) (hin : InputOK st.h buf) (hb : Below st.c st.h buf)
    (hrun : binReadBinary cfg st.c st.h buf = (.ok (s, l), c', h')) {b : DSt}
    (t : DecSteps s ⟨c', h', st.ins, s :: st.res⟩ b) :
    b.h.view s = st.h.bytes buf.obj (buf.off + 4) (l - 4) ∧
    (∀ y ∈ b.res, s ≠ y → s.CapDisjoint y) ∧ (∀ i ∈ b.ins, s.CapDisjoint i) := by
  -- the decode itself is a step of a run that watches nothing yet
  have h0 : DInv ⟨c', h', st.ins, s :: st.res⟩ := by
    obtain ⟨_, _, _, q4, _, _, _, q8, q9, q10, _, _, _, ⟨x, hx, hxg, hxb⟩, qk⟩ :=
      binReadBinary_ok cfg st.c st.h buf s l c' h' hi.cache hin hb hrun
    refine ⟨q10, fun f hf => ?_, fun x1 h1 x2 h2 hne => ?_, fun x1 h1 i hi' => ?_⟩
    · rcases hf with hf | hf
      · exact ⟨(hi.ok f (Or.inl hf)).1.of_keeps qk, (q8 f (hi.ok f (Or.inl hf)).2).2⟩
      · rcases List.mem_cons.mp hf with e | hf
        · rw [e]; exact ⟨⟨q4, x, hx, hxb, by rw [hxg]; decide⟩, q9⟩
        · exact ⟨(hi.ok f (Or.inr hf)).1.of_keeps qk, (q8 f (hi.ok f (Or.inr hf)).2).2⟩
    · rcases List.mem_cons.mp h1 with e1 | m1
      · rcases List.mem_cons.mp h2 with e2 | m2
        · exact absurd (e1.trans e2.symm) hne
        · rw [e1]; exact (q8 x2 (hi.ok x2 (Or.inr m2)).2).1
      · rcases List.mem_cons.mp h2 with e2 | m2
        · rw [e2]; exact CapDisjoint.symm (q8 x1 (hi.ok x1 (Or.inr m1)).2).1
        · exact hi.rr x1 m1 x2 m2 hne
    · rcases List.mem_cons.mp h1 with e1 | m1
      · rw [e1]; exact (q8 i (hi.ok i (Or.inl hi')).2).1
      · exact hi.ri x1 m1 i hi'
  obtain ⟨i1, a1, v1⟩ := t.ok h0 (List.mem_cons_self)
  have hval := (read_fresh cfg st.c st.h buf s l c' h' hi.cache hin hb hrun).2.2.1
  exact ⟨v1.trans hval, fun y hy hne => i1.rr s a1 y hy hne, fun i hi' => i1.ri s a1 i hi'⟩

/-- the run invariant holds right after `spanCache = span.NewSpanCache(Facts.spanCacheBytes)` with any input
    buffers that exist and have not been recycled -/
theorem run_init (h : Heap) (ins : List Slice) (hins : ∀ f ∈ ins, InputOK h f) :
    DInv ⟨(SpanCache.new h Facts.spanCacheBytes).1, (SpanCache.new h Facts.spanCacheBytes).2, ins, []⟩ :=
  DInv.init h Facts.spanCacheBytes spanCacheBytes_lt ins hins

/-- flag_irrelevant: with the span cache enabled or disabled (and whatever the contention flag and the
    runtime's spare capacity), the decoder fails with the same error, or succeeds with the same consumed
    length and the same VALUE. -/
theorem flag_irrelevant (cfg1 cfg2 : DecCfg) (c : SpanCache) (h : Heap) (buf : Slice)
    (hc : CacheInv c h) (hin : InputOK h buf) (hb : Below c h buf) :
    match (binReadBinary cfg1 c h buf).1, (binReadBinary cfg2 c h buf).1 with
    | .ok (s1, l1), .ok (s2, l2) =>
        l1 = l2 ∧ (binReadBinary cfg1 c h buf).2.2.view s1 = (binReadBinary cfg2 c h buf).2.2.view s2
    | .error e1, .error e2 => e1 = e2
    | _, _ => False := by
  have g1 := binReadBinary_head cfg1 c h buf
  have g2 := binReadBinary_head cfg2 c h buf
  cases h1 : (binReadBinary cfg1 c h buf).1 with
  | ok p1 =>
    cases h2 : (binReadBinary cfg2 c h buf).1 with
    | ok p2 =>
      obtain ⟨s1, l1⟩ := p1
      obtain ⟨s2, l2⟩ := p2
      rw [h1] at g1; rw [h2] at g2
      simp only [] at g1 g2
      have hl : l1 = l2 := by
        have := g1.trans g2.symm
        simpa using this
      subst hl
      have e1 : binReadBinary cfg1 c h buf = (.ok (s1, l1), (binReadBinary cfg1 c h buf).2.1, (binReadBinary cfg1 c h buf).2.2) := by
        rw [← h1]
      have e2 : binReadBinary cfg2 c h buf = (.ok (s2, l1), (binReadBinary cfg2 c h buf).2.1, (binReadBinary cfg2 c h buf).2.2) := by
        rw [← h2]
      obtain ⟨_, _, _, _, _, a6, _⟩ := binReadBinary_ok cfg1 c h buf s1 l1 _ _ hc hin hb e1
      obtain ⟨_, _, _, _, _, b6, _⟩ := binReadBinary_ok cfg2 c h buf s2 l1 _ _ hc hin hb e2
      exact ⟨rfl, by rw [a6, b6]⟩
    | error e2 =>
      rw [h1] at g1; rw [h2] at g2
      simp only [] at g1 g2
      have := g1.trans g2.symm
      simp at this
  | error e1 =>
    cases h2 : (binReadBinary cfg2 c h buf).1 with
    | ok p2 =>
      rw [h1] at g1; rw [h2] at g2
      simp only [] at g1 g2
      have := g1.trans g2.symm
      simp at this
    | error e2 =>
      rw [h1] at g1; rw [h2] at g2
      simp only [] at g1 g2
      have := g1.trans g2.symm
      simpa using this

/-! ## BufferReader.ReadBinary / ReadString -/

/-- read_fresh (BufferReader): a successful `BufferReader.ReadBinary` / `ReadString` returns the full
    slice (cap = len) of a Go-heap object that did not exist before the call — so it is disjoint from the
    reader's buffers, from the caller's input and from every earlier result — and leaves every older
    Go-heap object (every earlier result) untouched; the reader's ownership invariant is kept. -/
theorem read_fresh_stream (r : MRd) (h : Heap) (s : Slice) (e : Option TErr) (r' : MRd) (h' : Heap)
    (hi : RInv r h) (hrun : brReadBinary r h = ((some s, e), r', h')) :
    RInv r' h' ∧ h.size ≤ s.obj ∧ s.cap = s.len ∧ (∀ f : Slice, f.obj < h.size → s.CapDisjoint f) ∧
    (∃ x, h'.obj? s.obj = some x ∧ x.owner = .gc) ∧ GcKept h h' := by
  obtain ⟨a, b, _, d, ⟨x, hx, hg, _⟩, f⟩ := brReadBinary_ok r h s e r' h' hi hrun
  exact ⟨a, b, d, fun f hf => by unfold Slice.CapDisjoint; right; right; left; omega, ⟨x, hx, hg⟩, f⟩

/-- mutate_input_safe (stream): whatever happens to the reader's buffers afterwards — more reads that
    grow and park buffers, Skip, Release that recycles them into the pool, the co-tenant overwriting the
    recycled buffers — an object of the Go heap (every value returned earlier) keeps its content. -/
theorem stream_value_stable (r : MRd) (h : Heap) (hi : RInv r h) (o : Nat) (x : Obj)
    (hx : h.obj? o = some x) (hg : x.owner = .gc) :
    (∀ n, (r.next h n).2.2.obj? o = some x) ∧ (∀ n, (r.peek h n).2.2.obj? o = some x) ∧
    (∀ n, (r.skip h n).2.2.obj? o = some x) ∧ (r.release h).2.obj? o = some x ∧
    (∀ s e r' h', brReadBinary r h = ((some s, e), r', h') → h'.obj? o = some x) ∧
    (∀ h', Env h h' → ∃ x', h'.obj? o = some x' ∧ x'.owner = .gc ∧ x'.data = x.data) :=
  ⟨fun n => next_gckept r h n hi o x hx hg, fun n => peek_gckept r h n hi o x hx hg,
   fun n => skip_gckept r h n hi o x hx hg, release_gckept r h hi o x hx hg,
   fun s e r' h' hrun => (brReadBinary_ok r h s e r' h' hi hrun).2.2.2.2.2 o x hx hg,
   fun _ he => env_gckept he o x hx hg⟩

/-! ## what the user does with input and results -/

/-- mutate_input_safe: overwriting any part of the input's capacity region leaves a value whose capacity
    region is disjoint from the input (every decoded value, by `read_fresh`) unchanged. -/
theorem mutate_input_safe (h : Heap) (buf s : Slice) (p : Nat) (d : Bytes)
    (hp : buf.off ≤ p ∧ p + d.length ≤ buf.off + buf.cap)
    (hbuf : ∀ x, h.obj? buf.obj = some x → buf.off + buf.cap ≤ x.data.length)
    (hd : s.CapDisjoint buf) (hsl : s.len ≤ s.cap) : (h.userWrite buf.obj p d).view s = h.view s :=
  userWrite_disjoint h buf s p d hp hbuf hd hsl

/-- append_result_safe: appending to a returned byte slice (in place when the runtime left spare
    capacity, else into a fresh allocation) or overwriting it yields the old content followed by the new
    bytes and changes neither the input nor any other value whose capacity region is disjoint from it. -/
theorem append_result_safe (h : Heap) (s : Slice) (d : Bytes) (slack : Nat)
    (hs : s.len ≤ s.cap ∧ ∃ x, h.obj? s.obj = some x ∧ s.off + s.cap ≤ x.data.length) :
    (goAppend h s d slack).2.view (goAppend h s d slack).1 = h.view s ++ d ∧
    (∀ f : Slice, f.obj < h.size → f.len ≤ f.cap → f.CapDisjoint s →
      (goAppend h s d slack).2.view f = h.view f) ∧
    (∀ f : Slice, f.len ≤ f.cap → f.CapDisjoint s → ∀ d', d'.length ≤ s.len →
      (h.userWrite s.obj s.off d').view f = h.view f) := by
  obtain ⟨a, b⟩ := goAppend_ok h s d slack hs
  obtain ⟨hl, x, hx, hb⟩ := hs
  exact ⟨a, b, fun f hfl hd d' hd' =>
    userWrite_disjoint h s f s.off d' (by omega) (fun y hy => by rw [hx] at hy; cases hy; exact hb) hd hfl⟩

/-! ## non-vacuity -/

/-- a span cache of ten 4-byte spans satisfies the invariant -/
example : CacheInv (SpanCache.new (Heap.empty (fun _ _ => 0)) 4).1 (SpanCache.new (Heap.empty (fun _ _ => 0)) 4).2 :=
  (span_init _ 4 (by decide)).1

/-- decoding `00 00 00 02 61 62` from caller memory with the span cache off succeeds with the value `ab` -/
example : let h0 := (Heap.empty (fun _ _ => 0)).callerAlloc [0, 0, 0, 2, 97, 98] 6 6
    let c0 := SpanCache.new h0.2 4
    ∃ s l c' h', binReadBinary ⟨false, false, 3⟩ c0.1 c0.2 h0.1 = (.ok (s, l), c', h') ∧ l = 6 ∧ h'.view s = [97, 98] :=
  ⟨_, _, _, _, rfl, rfl, by decide⟩

end Verif.C16

/-
  Props/C16 — decoded values are independent of the input buffer and of the allocator configuration.
  (property theorems only; lemmas in Lemmas/Mem*.lean)
-/
import Verif.Base.Mem
namespace Verif.C16
open Verif

/-- the capacity the pool hands out is never smaller than the request -/
theorem mcap_ge (c : Nat) : c ≤ Heap.mcap c := le_mcap c

end Verif.C16

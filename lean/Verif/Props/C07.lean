/-
  Props/C07 — Read-only string maps answer exactly like a Go map.

  Model: `Verif/Model/StrMap.lean` (mirrors container/strmap and internal/strstore).
  Spec:  `Verif/Spec/MapSpec.lean` (association list, `List.lookup`).
  Every theorem below is for EVERY hash function `h : Bytes → Nat` (hence every collision-chain
  shape), EVERY sorter that returns a slot-sorted permutation (sort.Sort is not stable), EVERY
  previous state `st` of the instance (reload to larger or smaller content, stale table cells in the
  spare capacity), every key content (empty key, prefixes, binary) and every value type `V`.
  Helper lemmas: `Verif/Lemmas/StrMap{Slots,Get,Load,Items,Store}.lean`.
-/
import Verif.Lemmas.StrMapItems
import Verif.Lemmas.StrMapStore
import Verif.Spec.MapSpec
namespace Verif.C07
open Verif Verif.SMap

variable {V : Type}

/-- `LoadFromSlice` called with the two slices of the pairs `kvs` (what `LoadFromMap` does with the
    pairs in range order, and what `LoadFromSlice(kk, vv)` is for `kvs = kk.zip vv`) -/
def load (h : Bytes → Nat) (sorter : List (Item V) → List (Item V)) (st : StrMap V)
    (kvs : List (Bytes × V)) : Out LErr Unit × StrMap V :=
  loadFromSlice h sorter st (kvs.map (·.1)) (kvs.map (·.2))

/-- the size limits inside which the code accepts a load at all: a key longer than 4 GiB − 1 is
    answered with the error "key too large", ≥ 3·2^29 pairs with the panic "too many items" -/
structure Fits (kvs : List (Bytes × V)) : Prop where
  keys32 : ∀ kv ∈ kvs, kv.1.length ≤ maxU32
  count : CountOk kvs.length

/-! ## the sorter hypothesis is satisfiable (non-vacuity of every theorem below) -/

theorem msort_isSlotSort : IsSlotSort (msort (V := V)) := by
  intro l
  refine ⟨List.mergeSort_perm _ _, ?_⟩
  have := List.pairwise_mergeSort (le := fun (a b : Item V) => decide (a.slot ≤ b.slot))
    (by intro a b c; simp only [decide_eq_true_eq]; omega)
    (by intro a b; simp only [Bool.or_eq_true, decide_eq_true_eq]; omega) l
  exact this.imp (by intro a b; simp)

/-! ## calcHashtableSlots -/

/-- the slot count is never 0 (so `% slots` in makeHashtable and Get never divides by zero) and fits
    the int32 it is returned in -/
theorem slots_pos {n s : Nat} (hs : calcSlots n = .ok s) : 0 < s ∧ s < 2147483648 :=
  calcSlots_range hs

/-- no "too many items" panic (and no index panic in the prime table) exactly when
    ⌊n / loadfactor⌋ < 2^31 (`CountOk`), for whatever value the load factor has — only
    `0 < loadfactor ≤ 1` (`lf_pos`, `lf_le`) is used anywhere in the C07 proofs -/
theorem slots_no_panic_iff (n : Nat) : (∃ s, calcSlots n = .ok s) ↔ CountOk n := calcSlots_ok_iff n

theorem slots_panic_iff (n : Nat) : calcSlots n = .panic "too many items" ↔ ¬ CountOk n :=
  calcSlots_panic_iff n

/-- below 2^30 items there is no panic, for every load factor ≥ 1/2 -/
theorem slots_no_panic (hhalf : Facts.loadfactorDen ≤ 2 * Facts.loadfactorNum) {n : Nat}
    (hn : n < 1073741824) : ∃ s, calcSlots n = .ok s :=
  (calcSlots_ok_iff n).mpr (countOk_of_lt_2pow30 hhalf hn)

/-- for the load factor as it is today (3/4) the panic threshold is exactly 3·2^29 items -/
theorem slots_panic_iff_current (h3 : Facts.loadfactorNum = 3) (h4 : Facts.loadfactorDen = 4) (n : Nat) :
    calcSlots n = .panic "too many items" ↔ 1610612736 ≤ n := by
  rw [calcSlots_panic_iff, countOk_iff_current h3 h4]; omega

/-- "a prime bigger than n" — the table always has more slots than items — whenever every table
    entry b is at least loadfactor·2^b; `slots_gt_current`: that is so for today's 3/4 and table -/
theorem slots_gt
    (htab : ∀ b, b < Facts.bits2primes.length →
      Facts.loadfactorNum * 2 ^ b ≤ Facts.loadfactorDen * (Facts.bits2primes[b]?.getD 0).toNat)
    {n s : Nat} (hs : calcSlots n = .ok s) : n < s := calcSlots_gt_of_table htab hs

theorem slots_gt_current (h3 : Facts.loadfactorNum = 3) (h4 : Facts.loadfactorDen = 4)
    {n s : Nat} (hs : calcSlots n = .ok s) : n < s := calcSlots_gt_current h3 h4 hs

/-! ## Get = lookup -/

/-- a load of pairs within the size limits succeeds (keys need not even be distinct) -/
theorem load_ok (h : Bytes → Nat) (sorter : List (Item V) → List (Item V)) (hs : IsSlotSort sorter)
    (st : StrMap V) (kvs : List (Bytes × V)) (hf : Fits kvs) :
    (load h sorter st kvs).1 = .ok () := by
  obtain ⟨m', hm, _⟩ := loadFromSlice_spec h sorter hs st kvs hf.count hf.keys32
  unfold load; rw [hm]

/-- **get_eq_lookup**: after loading pairs with pairwise distinct keys, `Get(s)` returns exactly what
    the Go map returns — the value of `s` if it is a loaded key, absent otherwise; no panic. -/
theorem get_eq_lookup (h : Bytes → Nat) (sorter : List (Item V) → List (Item V))
    (hs : IsSlotSort sorter) (st : StrMap V) (kvs : List (Bytes × V)) (s : Bytes)
    (hd : MapSpec.DistinctKeys kvs) (hf : Fits kvs) :
    get h (load h sorter st kvs).2 s = .ok (MapSpec.get kvs s) := by
  obtain ⟨m', hm, hL⟩ := loadFromSlice_spec h sorter hs st kvs hf.count hf.keys32
  unfold load; rw [hm]
  exact hL.get_eq hd s

/-- the same through the two-slice API `LoadFromSlice(kk, vv)` -/
theorem get_eq_lookup_slices (h : Bytes → Nat) (sorter : List (Item V) → List (Item V))
    (hs : IsSlotSort sorter) (st : StrMap V) (kk : List Bytes) (vv : List V) (s : Bytes)
    (hlen : kk.length = vv.length) (hd : kk.Nodup) (hk : ∀ k ∈ kk, k.length ≤ maxU32)
    (hn : CountOk kk.length) :
    (loadFromSlice h sorter st kk vv).1 = .ok () ∧
    get h (loadFromSlice h sorter st kk vv).2 s = .ok (List.lookup s (kk.zip vv)) := by
  have h1 : (kk.zip vv).map (·.1) = kk := List.map_fst_zip (by omega)
  have h2 : (kk.zip vv).map (·.2) = vv := List.map_snd_zip (by omega)
  have hf : Fits (kk.zip vv) := ⟨by
    intro kv hkv; exact hk _ (List.of_mem_zip hkv).1, by
    rw [List.length_zip, ← hlen, Nat.min_self]; exact hn⟩
  have hd' : MapSpec.DistinctKeys (kk.zip vv) := by unfold MapSpec.DistinctKeys; rw [h1]; exact hd
  have a := load_ok h sorter hs st (kk.zip vv) hf
  have b := get_eq_lookup h sorter hs st (kk.zip vv) s hd' hf
  unfold load at a b
  rw [h1, h2] at a b
  exact ⟨a, b⟩

/-- `LoadFromMap`: whatever order the Go map is ranged over, the answers are those of the map -/
theorem get_eq_lookup_fromMap (h : Bytes → Nat) (sorter : List (Item V) → List (Item V))
    (hs : IsSlotSort sorter) (st : StrMap V) (kvs order : List (Bytes × V)) (s : Bytes)
    (hperm : order.Perm kvs) (hd : MapSpec.DistinctKeys kvs) (hf : Fits kvs) :
    get h (loadFromMap h sorter st order).2 s = .ok (MapSpec.get kvs s) := by
  have hd' : MapSpec.DistinctKeys order := by
    unfold MapSpec.DistinctKeys at hd ⊢
    exact ((hperm.map _).nodup_iff).mpr hd
  have hf' : Fits order := ⟨fun kv hkv => hf.keys32 kv (hperm.mem_iff.mp hkv), by
    rw [hperm.length_eq]; exact hf.count⟩
  have := get_eq_lookup h sorter hs st order s hd' hf'
  unfold load at this
  unfold loadFromMap
  rw [this]
  congr 1
  unfold MapSpec.get
  rw [← lookupO_some_map, ← lookupO_some_map]
  apply lookupO_perm (hperm.map _)
  rw [List.pairwise_map]
  have : (kvs.map (·.1)).Pairwise (· ≠ ·) := hd
  rw [List.pairwise_map] at this
  exact this.imp (by intro a b hab h'; injection h' with h'; exact hab h')

/-- **len_items**: `Len()` is the number of loaded pairs, every `Item(i)` for `0 ≤ i < Len()` succeeds
    and the enumeration `Item(0), …, Item(Len()-1)` is a permutation of the loaded pairs (a possible
    `range` order of the Go map); outside that range `Item` panics as documented. -/
theorem len_items (h : Bytes → Nat) (sorter : List (Item V) → List (Item V))
    (hs : IsSlotSort sorter) (st : StrMap V) (kvs : List (Bytes × V)) (hf : Fits kvs) :
    len (load h sorter st kvs).2 = MapSpec.len kvs ∧
    (∃ l, MapSpec.IsEnum kvs l ∧ enumItems (load h sorter st kvs).2 = l.map .ok) ∧
    (∀ i : Int, i < 0 ∨ i ≥ kvs.length → item (load h sorter st kvs).2 i = .panic "index") := by
  obtain ⟨m', hm, hL⟩ := loadFromSlice_spec h sorter hs st kvs hf.count hf.keys32
  unfold load; rw [hm]
  refine ⟨hL.len, hL.enum, ?_⟩
  intro i hi
  apply item_out_of_range
  unfold len; rw [hL.len]; exact hi

/-- the driver's one-pass enumeration is the enumeration by `Item(i)` -/
theorem itemsAll_is_enum (m : StrMap V) : itemsAll m = enumItems m := itemsAll_eq m

/-! ## failed loads, empty and never-loaded maps -/

/-- **failed_load_unchanged**: BOTH error returns of `LoadFromSlice` leave the instance exactly as it
    was — mismatched slice lengths ("kv len not match") and a key of more than 2^32−1 bytes ("key
    too large", checked before anything is reset since commit 3480123; the code before that commit
    violated this: `SMap.PreFix.key_too_large_changed`). -/
theorem failed_load_unchanged (h : Bytes → Nat) (sorter : List (Item V) → List (Item V))
    (st : StrMap V) (kk : List Bytes) (vv : List V) :
    (kk.length ≠ vv.length → loadFromSlice h sorter st kk vv = (.err .kvLen, st)) ∧
    (kk.length = vv.length → (∃ k ∈ kk, k.length > maxU32) →
      loadFromSlice h sorter st kk vv = (.err .keyTooLarge, st)) := by
  constructor
  · intro hne; unfold loadFromSlice; simp [hne]
  · rintro heq ⟨k, hk, hbig⟩
    unfold loadFromSlice
    simp [heq, anyKeyTooLarge_true hk hbig]

/-- … and these are the only ways a load can fail below the item-count limit: every error or panic
    outcome of `LoadFromSlice` comes with an unchanged instance or is the "too many items" panic -/
theorem load_outcomes (h : Bytes → Nat) (sorter : List (Item V) → List (Item V))
    (hs : IsSlotSort sorter) (st : StrMap V) (kk : List Bytes) (vv : List V)
    (hn : CountOk kk.length) :
    loadFromSlice h sorter st kk vv = (.err .kvLen, st) ∨
    loadFromSlice h sorter st kk vv = (.err .keyTooLarge, st) ∨
    (loadFromSlice h sorter st kk vv).1 = .ok () := by
  by_cases hlen : kk.length = vv.length
  · by_cases hbig : ∃ k ∈ kk, k.length > maxU32
    · right; left
      exact (failed_load_unchanged h sorter st kk vv).2 hlen hbig
    · right; right
      have hk : ∀ k ∈ kk, k.length ≤ maxU32 := by
        intro k hk; apply Nat.le_of_not_lt; intro hlt; exact hbig ⟨k, hk, hlt⟩
      have h1 : (kk.zip vv).map (·.1) = kk := List.map_fst_zip (by omega)
      have h2 : (kk.zip vv).map (·.2) = vv := List.map_snd_zip (by omega)
      have := load_ok h sorter hs st (kk.zip vv) ⟨by
        intro kv hkv; exact hk _ (List.of_mem_zip hkv).1, by
        rw [List.length_zip, ← hlen, Nat.min_self]; exact hn⟩
      unfold load at this
      rw [h1, h2] at this
      exact this
  · left
    exact (failed_load_unchanged h sorter st kk vv).1 hlen

/-- **empty_loaded**: loading zero pairs gives a 1-slot table and every key is absent -/
theorem empty_loaded (h : Bytes → Nat) (sorter : List (Item V) → List (Item V))
    (hs : IsSlotSort sorter) (st : StrMap V) (s : Bytes) :
    (load h sorter st []).1 = .ok () ∧ (load h sorter st []).2.ht.size = 1 ∧
    len (load h sorter st []).2 = 0 ∧ get h (load h sorter st []).2 s = .ok none := by
  have hf : Fits ([] : List (Bytes × V)) := ⟨(by intro kv hkv; cases hkv), (show CountOk 0 by decide)⟩
  refine ⟨load_ok h sorter hs st [] hf, ?_, (len_items h sorter hs st [] hf).1, ?_⟩
  · obtain ⟨m', hm, hL⟩ := loadFromSlice_spec h sorter hs st [] hf.count hf.keys32
    unfold load; rw [hm]
    have h1 := hL.slots_ok
    have h2 : calcSlots 0 = .ok 1 := by decide
    rw [show ([] : List (Bytes × V)).length = 0 from rfl, h2] at h1; injection h1 with h1; exact h1.symm
  · exact get_eq_lookup h sorter hs st [] s (by unfold MapSpec.DistinctKeys; exact List.nodup_nil) hf

/-- **never_loaded**: a map that was never loaded (`New()`) reports every key absent — no panic —
    for every hash function -/
theorem never_loaded (h : Bytes → Nat) (s : Bytes) :
    get h (StrMap.init : StrMap V) s = .ok none ∧ len (StrMap.init : StrMap V) = 0 := by
  simp [SMap.get, StrMap.init, len]

/-- … and that is due to the `len(hashtable) == 0` guard: the method without it (the code before
    commit 46c6b2e) divides by zero on the same input (F8) -/
theorem never_loaded_needs_guard (h : Bytes → Nat) (s : Bytes) :
    getNoGuard h (StrMap.init : StrMap V) s = .panic "divzero" := by
  simp [getNoGuard, StrMap.init]

/-! ## histories on one instance -/

/-- the instance after a history of `LoadFromSlice` calls -/
def runHist (h : Bytes → Nat) (sorter : List (Item V) → List (Item V)) (st : StrMap V)
    (hist : List (MapSpec.Load V)) : StrMap V :=
  hist.foldl (fun m ld => (loadFromSlice h sorter m ld.kk ld.vv).2) st

/-- a request is admissible when, if its slices have equal length, the keys are distinct and within
    the size limits (a request with unequal lengths is always admissible: it must fail) -/
def Admissible (ld : MapSpec.Load V) : Prop :=
  ld.kk.length = ld.vv.length → ld.kk.Nodup ∧ (∀ k ∈ ld.kk, k.length ≤ maxU32) ∧ CountOk ld.kk.length

/-- the representation invariant tying an instance to the Go map `g` it stands for -/
def Rep (h : Bytes → Nat) (m : StrMap V) (g : MapSpec.GoMap V) : Prop :=
  (g = [] ∧ m.ht.size = 0 ∧ m.items = []) ∨ (MapSpec.DistinctKeys g ∧ Loaded h g m)

theorem Rep.get {h : Bytes → Nat} {m : StrMap V} {g : MapSpec.GoMap V} (hr : Rep h m g) (s : Bytes) :
    get h m s = .ok (MapSpec.get g s) ∧ len m = MapSpec.len g := by
  rcases hr with ⟨rfl, h0, hi⟩ | ⟨hd, hL⟩
  · simp [SMap.get, h0, MapSpec.get, len, hi, MapSpec.len]
  · exact ⟨hL.get_eq hd s, hL.len⟩

/-- **history**: after ANY sequence of loads on one instance (growing, shrinking, failing in
    between), starting from a never-loaded map, `Get` and `Len` answer like the Go map that the same
    sequence of assignments produces: each successful load replaces the contents, each failed load
    leaves them unchanged. -/
theorem history_get_len (h : Bytes → Nat) (sorter : List (Item V) → List (Item V))
    (hs : IsSlotSort sorter) (hist : List (MapSpec.Load V)) (hadm : ∀ ld ∈ hist, Admissible ld)
    (s : Bytes) :
    get h (runHist h sorter StrMap.init hist) s = .ok (MapSpec.get (MapSpec.after [] hist) s) ∧
    len (runHist h sorter StrMap.init hist) = MapSpec.len (MapSpec.after [] hist) := by
  suffices hrep : ∀ (hist : List (MapSpec.Load V)) (m : StrMap V) (g : MapSpec.GoMap V),
      (∀ ld ∈ hist, Admissible ld) → Rep h m g →
      Rep h (runHist h sorter m hist) (MapSpec.after g hist) by
    exact (hrep hist StrMap.init [] hadm (Or.inl ⟨rfl, rfl, rfl⟩)).get s
  intro hist
  induction hist with
  | nil => intro m g _ hr; exact hr
  | cons ld rest ih =>
    intro m g hadm hr
    have hrest : ∀ x ∈ rest, Admissible x := fun x hx => hadm x (List.mem_cons_of_mem _ hx)
    unfold runHist MapSpec.after
    simp only [List.foldl_cons]
    by_cases hlen : ld.kk.length = ld.vv.length
    · simp only [hlen, if_true]
      obtain ⟨hd, hk, hn⟩ := hadm ld List.mem_cons_self hlen
      have h1 : (ld.kk.zip ld.vv).map (·.1) = ld.kk := List.map_fst_zip (by omega)
      have h2 : (ld.kk.zip ld.vv).map (·.2) = ld.vv := List.map_snd_zip (by omega)
      obtain ⟨m', hm, hL⟩ := loadFromSlice_spec h sorter hs m (ld.kk.zip ld.vv)
        (by rw [List.length_zip, ← hlen, Nat.min_self]; exact hn)
        (by intro kv hkv; exact hk _ (List.of_mem_zip hkv).1)
      rw [h1, h2] at hm
      rw [hm]
      apply ih m' _ hrest
      right
      exact ⟨by unfold MapSpec.DistinctKeys; rw [h1]; exact hd, hL⟩
    · simp only [hlen, if_false]
      rw [(failed_load_unchanged h sorter m ld.kk ld.vv).1 hlen]
      exact ih m g hrest hr

/-! ## Str2Str -/

/-- **str2str_get**: after `Str2Str.LoadFromSlice(kk, vv)` with distinct keys, `Get(k)` returns exactly
    the value string loaded for `k` (read back through the StrStore offset and length prefix, with no
    out-of-bounds load and no slice panic), absent for every other string; `Len` is the number of
    pairs. For every previous state of the instance, including the zero value. -/
theorem str2str_get (h : Bytes → Nat) (sorter : List (Item Int) → List (Item Int))
    (hs : IsSlotSort sorter) (sm : Str2Str) (kk vv : List Bytes) (s : Bytes)
    (hlen : kk.length = vv.length) (hd : kk.Nodup)
    (hk : ∀ k ∈ kk, k.length ≤ maxU32) (hv : ∀ v ∈ vv, v.length ≤ maxU32)
    (hn : CountOk kk.length) :
    (s2sLoad h sorter sm kk vv).1 = .ok () ∧
    s2sGet h (s2sLoad h sorter sm kk vv).2 s = .ok (List.lookup s (kk.zip vv)) ∧
    s2sLen (s2sLoad h sorter sm kk vv).2 = .ok kk.length := by
  have hany : (vv.any (fun s => decide (s.length > maxU32))) = false := by
    rw [List.any_eq_false]
    intro v hvm; have := hv v hvm; simp; omega
  have hidlen : kk.length = (packLoop vv 0).2.length := by rw [packLoop_length]; exact hlen
  obtain ⟨hok, hget⟩ := get_eq_lookup_slices h sorter hs
    (mapOrNew sm.strMap) kk (packLoop vv 0).2 s hidlen hd hk hn
  obtain ⟨lk1, lk2⟩ := lookup_pack s kk vv 0 [] [] hlen hv rfl
  have hl : ¬ (kk.length ≠ vv.length) := by omega
  unfold s2sLoad storeLoad
  simp only [hl, if_false, hany, anyKeyTooLarge_false hk, Bool.false_eq_true]
  refine ⟨hok, ?_, ?_⟩
  · unfold s2sGet
    simp only [hget]
    cases hlk : List.lookup s (kk.zip (packLoop vv 0).2) with
    | none => rw [lk2 hlk]
    | some id =>
      obtain ⟨v, hv1, hv2⟩ := lk1 id hlk
      simp only [List.nil_append, List.append_nil] at hv2
      simp only [hv2, hv1]
  · unfold s2sLen
    simp only
    have hf : Fits (kk.zip (packLoop vv 0).2) := ⟨by
      intro kv hkv; exact hk _ (List.of_mem_zip hkv).1, by
      rw [List.length_zip, ← hidlen, Nat.min_self]; exact hn⟩
    have h1 : (kk.zip (packLoop vv 0).2).map (·.1) = kk := List.map_fst_zip (by omega)
    have h2 : (kk.zip (packLoop vv 0).2).map (·.2) = (packLoop vv 0).2 := List.map_snd_zip (by omega)
    have := (len_items h sorter hs (mapOrNew sm.strMap)
      (kk.zip (packLoop vv 0).2) hf).1
    unfold load at this
    rw [h1, h2] at this
    rw [this, MapSpec.len, List.length_zip]
    congr 1; omega

/-- failed Str2Str load (mismatched lengths, or a key too large): nothing changed — neither the key
    map nor the value store -/
theorem str2str_failed_load_unchanged (h : Bytes → Nat) (sorter : List (Item Int) → List (Item Int))
    (sm : Str2Str) (kk vv : List Bytes) :
    (kk.length ≠ vv.length → s2sLoad h sorter sm kk vv = (.err .kvLen, sm)) ∧
    (kk.length = vv.length → (∃ k ∈ kk, k.length > maxU32) →
      s2sLoad h sorter sm kk vv = (.err .keyTooLarge, sm)) := by
  constructor
  · intro hne; unfold s2sLoad; simp [hne]
  · rintro heq ⟨k, hk, hbig⟩
    unfold s2sLoad
    simp [heq, anyKeyTooLarge_true hk hbig]

/-- never-loaded `NewStr2Str()`: every key absent, Len 0, no panic -/
theorem str2str_never_loaded (h : Bytes → Nat) (s : Bytes) :
    s2sGet h Str2Str.init s = .ok none ∧ s2sLen Str2Str.init = .ok 0 := by
  simp [s2sGet, s2sLen, Str2Str.init, SMap.get, StrMap.init, len]

/-! ## constructors (`NewFromSlice`, `NewFromMap`, `NewStr2StrFromSlice/Map`) and `String()` -/

/-- a constructor is a load on a fresh `New()` object: it returns the object exactly when that load
    succeeds, and the object is the loaded one -/
theorem newFromSlice_eq_load (h : Bytes → Nat) (sorter : List (Item V) → List (Item V))
    (kk : List Bytes) (vv : List V) (m : StrMap V) :
    newFromSlice h sorter kk vv = .ok m ↔ loadFromSlice h sorter StrMap.init kk vv = (.ok (), m) := by
  unfold newFromSlice
  generalize loadFromSlice h sorter StrMap.init kk vv = r
  obtain ⟨o, m'⟩ := r
  cases o <;> simp

theorem newFromMap_eq_load (h : Bytes → Nat) (sorter : List (Item V) → List (Item V))
    (order : List (Bytes × V)) (m : StrMap V) :
    newFromMap h sorter order = .ok m ↔ loadFromMap h sorter StrMap.init order = (.ok (), m) :=
  newFromSlice_eq_load h sorter _ _ m

/-- where the constructors differ from the loaders: an error return becomes a panic carrying the
    error (mismatched lengths: "kv len not match"), and there is no object -/
theorem newFromSlice_mismatch_panics (h : Bytes → Nat) (sorter : List (Item V) → List (Item V))
    (kk : List Bytes) (vv : List V) (hne : kk.length ≠ vv.length) :
    newFromSlice h sorter kk vv = .panic "kv len not match" := by
  unfold newFromSlice
  rw [(failed_load_unchanged h sorter StrMap.init kk vv).1 hne]; rfl

/-- `NewFromMap` of a Go map with contents `kvs` (any range order): an object that answers like it -/
theorem newFromMap_get (h : Bytes → Nat) (sorter : List (Item V) → List (Item V))
    (hs : IsSlotSort sorter) (kvs order : List (Bytes × V)) (s : Bytes)
    (hperm : order.Perm kvs) (hd : MapSpec.DistinctKeys kvs) (hf : Fits kvs) :
    ∃ m, newFromMap h sorter order = .ok m ∧ get h m s = .ok (MapSpec.get kvs s) ∧
      len m = MapSpec.len kvs := by
  have hf' : Fits order := ⟨fun kv hkv => hf.keys32 kv (hperm.mem_iff.mp hkv), by
    rw [hperm.length_eq]; exact hf.count⟩
  have hok := load_ok h sorter hs StrMap.init order hf'
  have hget := get_eq_lookup_fromMap h sorter hs StrMap.init kvs order s hperm hd hf
  have hlen := (len_items h sorter hs StrMap.init order hf').1
  unfold load at hok hlen
  unfold loadFromMap at hget
  refine ⟨(loadFromSlice h sorter StrMap.init (order.map (·.1)) (order.map (·.2))).2, ?_, hget, ?_⟩
  · rw [newFromMap_eq_load]; unfold loadFromMap
    exact Prod.ext hok rfl
  · rw [hlen]; unfold MapSpec.len; exact hperm.length_eq

/-- `NewFromSlice(kk, vv)` with distinct keys: an object that answers like the Go map -/
theorem newFromSlice_get (h : Bytes → Nat) (sorter : List (Item V) → List (Item V))
    (hs : IsSlotSort sorter) (kk : List Bytes) (vv : List V) (s : Bytes)
    (hlen : kk.length = vv.length) (hd : kk.Nodup) (hk : ∀ k ∈ kk, k.length ≤ maxU32)
    (hn : CountOk kk.length) :
    ∃ m, newFromSlice h sorter kk vv = .ok m ∧ get h m s = .ok (List.lookup s (kk.zip vv)) := by
  obtain ⟨hok, hget⟩ := get_eq_lookup_slices h sorter hs StrMap.init kk vv s hlen hd hk hn
  exact ⟨_, (newFromSlice_eq_load h sorter kk vv _).mpr (Prod.ext hok rfl), hget⟩

/-- `NewStr2StrFromSlice` / `NewStr2StrFromMap`: the same for Str2Str -/
theorem newStr2StrFromSlice_get (h : Bytes → Nat) (sorter : List (Item Int) → List (Item Int))
    (hs : IsSlotSort sorter) (kk vv : List Bytes) (s : Bytes)
    (hlen : kk.length = vv.length) (hd : kk.Nodup)
    (hk : ∀ k ∈ kk, k.length ≤ maxU32) (hv : ∀ v ∈ vv, v.length ≤ maxU32) (hn : CountOk kk.length) :
    ∃ sm, newStr2StrFromSlice h sorter kk vv = .ok sm ∧
      s2sGet h sm s = .ok (List.lookup s (kk.zip vv)) ∧ s2sLen sm = .ok kk.length := by
  obtain ⟨hok, hget, hl⟩ := str2str_get h sorter hs Str2Str.init kk vv s hlen hd hk hv hn
  refine ⟨(s2sLoad h sorter Str2Str.init kk vv).2, ?_, hget, hl⟩
  unfold newStr2StrFromSlice
  generalize s2sLoad h sorter Str2Str.init kk vv = r at hok
  obtain ⟨o, m'⟩ := r
  simp only at hok; subst hok; rfl

/-- `String()` does not panic on a never-loaded, an empty or any loaded map -/
theorem string_no_panic (h : Bytes → Nat) (sorter : List (Item V) → List (Item V))
    (hs : IsSlotSort sorter) (st : StrMap V) (kvs : List (Bytes × V)) (hf : Fits kvs) :
    stringCall (StrMap.init : StrMap V) = .ok () ∧ stringCall (load h sorter st kvs).2 = .ok () := by
  constructor
  · simp [stringCall, StrMap.init]
  · obtain ⟨m', hm, hL⟩ := loadFromSlice_spec h sorter hs st kvs hf.count hf.keys32
    unfold load; rw [hm]
    unfold stringCall
    have : m'.items.all (fun e => (keyAt m'.data e).isSome) = true := by
      rw [List.all_eq_true]
      intro e he
      have hmem : (keyAt m'.data e, e.slot, e.v) ∈
          kvs.map (fun kv => (some kv.1, h kv.1 % two32 % m'.ht.size, kv.2)) :=
        hL.perm.mem_iff.mp (List.mem_map.mpr ⟨e, he, rfl⟩)
      obtain ⟨kv, _, hkv⟩ := List.mem_map.mp hmem
      injection hkv with h1 _
      rw [← h1]; rfl
    simp [this]

/-! ## non-vacuity: concrete instances inside the hypotheses, with colliding hashes -/

/-- all keys collide (constant hash), keys are prefixes of one another and include the empty key;
    the previous state is a loaded map of a different size -/
example :
    let h : Bytes → Nat := fun _ => 12345678901
    let kvs : List (Bytes × Nat) := [([97], 1), ([], 2), ([97, 98], 3), ([97, 0], 4), ([0], 5)]
    let st := (load h msort StrMap.init [([120], 9), ([121], 8)]).2
    get h (load h msort st kvs).2 [97, 98] = .ok (some 3) ∧
    get h (load h msort st kvs).2 [] = .ok (some 2) ∧
    get h (load h msort st kvs).2 [120] = .ok none ∧
    get h (load h msort st kvs).2 [97, 98, 0] = .ok none := by
  intro h kvs st
  have hd : MapSpec.DistinctKeys kvs := by unfold MapSpec.DistinctKeys; decide
  have hf : Fits kvs := ⟨by decide, by decide⟩
  simp only [get_eq_lookup h msort msort_isSlotSort st kvs _ hd hf]
  decide

/-- two chains: hash = first byte mod 2 -/
example :
    let h : Bytes → Nat := fun b => (b.headD 0).toNat % 2
    let kvs : List (Bytes × Nat) := [([2], 1), ([4, 1], 2), ([3], 3), ([6], 4)]
    get h (load h msort StrMap.init kvs).2 [6] = .ok (some 4) ∧
    get h (load h msort StrMap.init kvs).2 [5] = .ok none := by
  intro h kvs
  have hd : MapSpec.DistinctKeys kvs := by unfold MapSpec.DistinctKeys; decide
  have hf : Fits kvs := ⟨by decide, by decide⟩
  simp only [get_eq_lookup h msort msort_isSlotSort StrMap.init kvs _ hd hf]
  decide

/-- Str2Str with colliding keys and repeated / empty values -/
example :
    let h : Bytes → Nat := fun _ => 0
    s2sGet h (s2sLoad h msort Str2Str.zero [[1], [], [1, 2]] [[7, 7], [], [7, 7]]).2 [1, 2] = .ok (some [7, 7]) ∧
    s2sGet h (s2sLoad h msort Str2Str.zero [[1], [], [1, 2]] [[7, 7], [], [7, 7]]).2 [] = .ok (some []) ∧
    s2sGet h (s2sLoad h msort Str2Str.zero [[1], [], [1, 2]] [[7, 7], [], [7, 7]]).2 [2] = .ok none := by
  intro h
  have := fun s => (str2str_get h msort msort_isSlotSort Str2Str.zero [[1], [], [1, 2]] [[7, 7], [], [7, 7]] s
    rfl (by decide) (by decide) (by decide) (by decide)).2.1
  simp only [this]
  decide

/-- a history: load 3, fail, shrink to 1, grow to 2 -/
example :
    let h : Bytes → Nat := fun _ => 5
    let hist : List (MapSpec.Load Nat) :=
      [⟨[[1], [2], [3]], [10, 20, 30]⟩, ⟨[[9]], []⟩, ⟨[[2]], [21]⟩, ⟨[[4], [1]], [40, 11]⟩]
    get h (runHist h msort StrMap.init hist) [1] = .ok (some 11) ∧
    get h (runHist h msort StrMap.init hist) [2] = .ok none := by
  intro h hist
  have hadm : ∀ ld ∈ hist, Admissible ld := by
    intro ld hld
    simp only [hist, List.mem_cons, List.not_mem_nil, or_false] at hld
    rcases hld with rfl | rfl | rfl | rfl <;> (intro _; refine ⟨by decide, by decide, by decide⟩)
  simp only [(history_get_len h msort msort_isSlotSort hist hadm _).1]
  decide

end Verif.C07

/-
  Props/C18 — Exception helpers preserve kind, type id and cause (property theorems only).
  For all type ids (every `Int`, hence every int32), all byte strings incl. empty, all kinds, all
  chains (`wrapped`/`protocolW` nest arbitrarily), all object identities.
-/
import Verif.Lemmas.Except
namespace Verif.C18

/-- Prepending keeps the kind: transport, protocol, application stay; a foreign exception (anything
    exposing a type id) becomes an application exception; plain errors (with or without `Unwrap`)
    stay plain. -/
theorem prepend_kind (fresh : Nat) (p : Bytes) (e : Err) :
    (prependError fresh p e).kind = specPrependKind e.kind := by
  rw [prependError_eq]   -- the case table under the regenerated order of type tests (Facts.prependErrorOrder)
  cases e <;> rfl

/-- Prepending keeps the type id (and plain errors still have none). -/
theorem prepend_typeId (fresh : Nat) (p : Bytes) (e : Err) :
    (prependError fresh p e).typeId = e.typeId := by
  rw [prependError_eq]
  cases e <;> rfl

/-- The new text is prefix ++ original text — except at the one point the proof forces out:
    a foreign exception whose `Error()` is "" prepended with "" (finding F12). -/
theorem prepend_text (fresh : Nat) (p : Bytes) (e : Err)
    (h : ¬ (e.kind = .foreign ∧ e.text = [] ∧ p = [])) :
    (prependError fresh p e).text = p ++ e.text := by
  cases e with
  | plain id msg => rfl
  | wrapped id msg inner => rfl
  | transport id t m => exact appText_append t p (appText_ne_nil t m)
  | application id t m => exact appText_append t p (appText_ne_nil t m)
  | protocol id t m => exact appText_append t p (appText_ne_nil t m)
  | protocolW id t m c => exact appText_append t p (appText_ne_nil t m)
  | foreign id t tx =>
    simp only [Err.kind, Err.text, true_and] at h
    simp only [prependError, Err.text]
    apply appText_of_ne_nil
    intro h0
    simp only [List.append_eq_nil_iff] at h0
    exact h ⟨h0.2, h0.1⟩

/-- The excluded point fails for every type id and every identity: the result's text is the default
    message (never empty), not "" ++ "" = "". -/
theorem prepend_text_foreign_empty_fails_all (fresh id : Nat) (t : Int) :
    (prependError fresh [] (.foreign id t [])).text ≠ [] ++ (Err.foreign id t []).text := by
  simp only [prependError, Err.text, List.append_nil]
  exact appText_ne_nil t []

/-- the guard of `prepend_text` is exact -/
theorem prepend_text_iff (fresh : Nat) (p : Bytes) (e : Err) :
    (prependError fresh p e).text = p ++ e.text ↔ ¬ (e.kind = .foreign ∧ e.text = [] ∧ p = []) := by
  constructor
  · rintro h ⟨hk, ht, hp⟩
    cases e <;> simp [Err.kind] at hk
    rename_i id t tx
    simp only [Err.text] at ht
    subst ht; subst hp
    exact prepend_text_foreign_empty_fails_all fresh id t h
  · exact prepend_text fresh p e

/-- F12 witness, evaluated: `PrependError("", foreign{TypeId: 1, Error(): ""})` has the text
    "unknown method" where prefix ++ original text is "". -/
theorem prepend_text_foreign_empty_fails :
    (prependError 1 [] (.foreign 0 1 [])).text = bytesOf "unknown method" ∧
    (prependError 1 [] (.foreign 0 1 [])).text ≠ [] ++ (Err.foreign 0 1 []).text := by
  decide

/-- Wrapping an error that is not a protocol exception: `Unwrap` returns the very cause, `errors.Is`
    finds the cause, and everything the cause matches is still matched through the wrapper. -/
theorem wrap_reaches_cause (fresh : Nat) (e : Err) (h : e.isProtocol = false) :
    (wrapErr fresh e).unwrap = some e ∧
    errorsIs (wrapErr fresh e) e = true ∧
    ∀ tg, errorsIs e tg = true → errorsIs (wrapErr fresh e) tg = true := by
  cases e <;> simp [Err.isProtocol] at h <;>
    simp [wrapErr, Err.unwrap, errorsIs] <;> (intro tg htg; simp_all)

/-- for every error (protocol exception or not) the wrapped result matches the argument -/
theorem wrap_is_cause (fresh : Nat) (e : Err) : errorsIs (wrapErr fresh e) e = true := by
  cases h : e.isProtocol
  · exact (wrap_reaches_cause fresh e h).2.1
  · cases e <;> simp [Err.isProtocol] at h <;> simp [wrapErr, errorsIs_refl]

/-- Wrapping is the identity (same object) on protocol exceptions … -/
theorem wrap_protocol_id (fresh : Nat) (e : Err) (h : e.isProtocol = true) : wrapErr fresh e = e := by
  cases e <;> simp [Err.isProtocol] at h <;> rfl

/-- … the result always is a protocol exception, hence wrapping twice is wrapping once. -/
theorem wrap_isProtocol (fresh : Nat) (e : Err) : (wrapErr fresh e).isProtocol = true := by
  cases e <;> rfl

theorem wrap_idempotent (f1 f2 : Nat) (e : Err) : wrapErr f2 (wrapErr f1 e) = wrapErr f1 e :=
  wrap_protocol_id f2 _ (wrap_isProtocol f1 e)

/-- `errors.Is` on a protocol exception with a cause: the same object, or an exception whose type id
    and error text equal its own type id and message, otherwise exactly when the cause matches. -/
theorem is_iff (id : Nat) (t : Int) (m : Bytes) (c tg : Err) :
    errorsIs (.protocolW id t m c) tg = true ↔
      Err.protocolW id t m c = tg ∨ (tg.typeId = some t ∧ tg.text = m) ∨ errorsIs c tg = true := by
  simp only [errorsIs, excMatch_eq, Bool.or_eq_true, Bool.and_eq_true, beq_iff_eq]
  constructor
  · rintro ((h | h | h) | h) <;> simp_all
  · rintro (h | h | h) <;> simp_all

/-- … and without a cause: the same object or the (type id, text) = (type id, message) match. -/
theorem is_iff_nocause (id : Nat) (t : Int) (m : Bytes) (tg : Err) :
    errorsIs (.protocol id t m) tg = true ↔
      Err.protocol id t m = tg ∨ (tg.typeId = some t ∧ tg.text = m) := by
  simp [errorsIs, excMatch_eq]

/-- the `Is` method itself -/
theorem peIs_iff (t : Int) (m : Bytes) (cause : Option Err) (tg : Err) :
    peIs t m cause tg = true ↔
      (tg.typeId = some t ∧ tg.text = m) ∨ (∃ c, cause = some c ∧ errorsIs c tg = true) := by
  cases cause <;> simp [peIs, excMatch_eq]

/-- `errors.Is` over arbitrary chains is the search along the `Unwrap` chain for a matching node -/
theorem errorsIs_chain (e tg : Err) : errorsIs e tg = isSpec e tg := errorsIs_eq_isSpec e tg

/-- `errors.As` finds the cause through the wrapper: for a cause that is not a protocol exception,
    asking for the cause's own type (or for "anything exposing a type id", when the cause is a foreign,
    transport or application exception… but then the wrapper itself answers first) returns the cause,
    one `Unwrap` step down. -/
theorem as_wrap_reaches_cause (fresh : Nat) (e : Err) (h : e.isProtocol = false) :
    errorsAs (.ty e.dyn) (wrapErr fresh e) 0 = some (e, 1) := by
  cases e <;> simp [Err.isProtocol] at h <;> simp [wrapErr, errorsAs, assignable, Err.dyn]

/-- The wrapper's text is the cause's text — unless that is empty (an exception of this package
    cannot carry an empty text; same root as F12, but nothing the statement claims). -/
theorem wrap_text (fresh : Nat) (e : Err) (h : e.isProtocol = false) (hne : e.text ≠ []) :
    (wrapErr fresh e).text = e.text := by
  cases e <;> simp [Err.isProtocol] at h <;> exact appText_of_ne_nil Facts.peUNKNOWN hne

/-- Prepending twice is prepending the concatenated prefix (under the guard of the first step). -/
theorem prepend_compose (f1 f2 : Nat) (p1 p2 : Bytes) (e : Err)
    (h : ¬ (e.kind = .foreign ∧ e.text = [] ∧ p1 = [])) :
    (prependError f2 p2 (prependError f1 p1 e)).text = (p2 ++ p1) ++ e.text ∧
    (prependError f2 p2 (prependError f1 p1 e)).kind = specPrependKind e.kind ∧
    (prependError f2 p2 (prependError f1 p1 e)).typeId = e.typeId := by
  refine ⟨?_, ?_, ?_⟩
  · rw [prepend_text f2 p2 _ ?_, prepend_text f1 p1 e h, List.append_assoc]
    rw [prepend_kind]
    intro hk
    cases e <;> simp [Err.kind, specPrependKind] at hk
  · rw [prepend_kind, prepend_kind]; cases e <;> rfl
  · rw [prepend_typeId, prepend_typeId]

/-- Observation (not claimed by the statement either way): PrependError never carries a cause over. -/
theorem prepend_drops_cause (fresh : Nat) (p : Bytes) (e : Err) : (prependError fresh p e).unwrap = none := by
  cases e <;> rfl

/-- `String()` shows the message faithfully: every ASCII byte's escape sequence decodes back to that
    byte (so different messages print differently), checked over all 128 bytes. -/
theorem string_quote_bytewise :
    (List.range 128).all (fun n => unquoteByte (quoteByte (UInt8.ofNat n)) == some (UInt8.ofNat n)) = true := by
  decide +kernel

/-- `String()` is the fixed name, the type id in decimal and the quoted message, in that order. -/
theorem string_shape (t : Int) (m : Bytes) (pre mid : List Char)
    (h : fmtTokens Facts.appExcStringFormat.toList [] = [.lit pre, .d, .lit mid, .q]) :
    appString t m = bytesOf (String.ofList pre) ++ bytesOf (toString t) ++ bytesOf (String.ofList mid) ++
      ([34] ++ m.flatMap quoteByte ++ [34]) := by
  simp only [appString, h, renderFmt, quoteAscii, List.append_nil, List.append_assoc]

/-- today's format literal has exactly that shape (guarded so that a reworded literal does not break the build:
    `String()` is not part of the property statement, the correspondence check still compares the text) -/
example : Facts.appExcStringFormat ≠ "ApplicationException(%d): %q" ∨
    fmtTokens Facts.appExcStringFormat.toList [] =
      [.lit "ApplicationException(".toList, .d, .lit "): ".toList, .q] := by decide

/-! non-vacuity -/
example : ¬ ((Err.foreign 0 1 []).kind = .foreign ∧ (Err.foreign 0 1 []).text = [] ∧ bytesOf "x: " = []) := by decide
example : (prependError 9 (bytesOf "x: ") (.application 0 1 [])).text = bytesOf "x: unknown method" := by decide
example : (prependError 9 [] (.application 0 77 [])).text = bytesOf "unknown exception type [77]" := by decide +kernel
example : (Err.plain 3 [1]).isProtocol = false := rfl
example : errorsIs (wrapErr 7 (.wrapped 1 [2] (.plain 3 [1]))) (.plain 3 [1]) = true := by decide
example : errorsIs (.protocolW 0 5 [1] (.plain 3 [1])) (.foreign 9 5 [1]) = true := by decide
example : errorsIs (.protocolW 0 5 [] (.plain 3 [1])) (.protocolW 0 5 [] (.plain 3 [2])) = false := by decide

example : errorsAs (.ty .fe) (wrapErr 7 (.foreign 1 5 [])) 0 = some (.foreign 1 5 [], 1) := by decide
example : errorsAs .texc (.wrapped 1 [] (.wrapped 2 [] (.transport 3 5 [1]))) 0 = some (.transport 3 5 [1], 2) := by decide

example : appString 6 (bytesOf "a\"b\n") = bytesOf "ApplicationException(6): \"a\\\"b\\n\"" := by decide +kernel

end Verif.C18

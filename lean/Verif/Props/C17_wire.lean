/-
  Props/C17_wire — C17 (decode failures carry the Thrift exception type for their cause), the part
  about the scalar/header readers and ReadMessageBegin. Property theorems only.
  `cause` (Spec/Wire.lean) classifies a failed read independently of the code:
  truncated → INVALID_DATA (1), negative string size → NEGATIVE_SIZE (2), bad version → BAD_VERSION (4).
-/
import Verif.Lemmas.WireS
import Verif.Lemmas.WireSrc
namespace Verif.C17
open Verif.Wire

/-- read_err_typeId: every failure of `Binary.Read<kind>` / `Binary.ReadMessageBegin`, on every byte
    string, is a protocol exception (without wrapped error) whose type id is the one Thrift defines
    for the cause -/
theorem read_err_typeId (k : Kind) (b : Bytes) (e : TErr) (l : Nat) (h : binRead k b = .err (e, l)) :
    e = .pe (cause k b).typeId := binRead_err_cause k b e l h

/-- the model's exception values carry the regenerated type ids of the source: INVALID_DATA = 1,
    NEGATIVE_SIZE = 2, BAD_VERSION = 4 (checked against Facts on every run) -/
theorem typeIds : errShort = .pe 1 ∧ errNeg = .pe 2 ∧ errBadVersion = .pe 4 :=
  ⟨errShort_id, errNeg_id, errBadVersion_id⟩

/-- stream_err_wraps: every failure of a `BufferReader.Read<kind>`, on every reader state and source
    script, is either the reader's own error wrapped by NewProtocolExceptionWithErr (`.wrap e`, which
    `errors.Is` matches against `e`), or — only for strings/binaries and message headers — a
    NEGATIVE_SIZE exception, or — only for message headers — BAD_VERSION; never a bare error, never
    another type id -/
theorem stream_err_wraps (k : Kind) (r : Rd) (e : TErr) (h : brRead k r = .err e) :
    (∃ se, e = .wrap se) ∨ (e = .pe 2 ∧ (k = .binary ∨ k = .str ∨ k = .msg)) ∨ (e = .pe 4 ∧ k = .msg) := by
  have := brRead_errIn k r e h
  unfold StreamErr isWrap at this
  rwa [errNeg_id, errBadVersion_id] at this

/-- the wrapped error is the one the bufiox reader returned: a failing `Next` of the reader model
    surfaces as exactly `.wrap` of its error -/
theorem next_err_wrapped (n : Int) (r r' : Rd) (se : RErr) (h : r.next n = (.fail (some se), r')) :
    brNext n r = .err (.wrap se) := by
  simp [brNext, h]

/-- stream_err_source (provenance): over C04's buffered reader on a source with script `s0`
    (`SrcInv s0 r`: C04's invariant with sizes in range and C04's provenance of the reader's error
    field — true of `Rd.newDefault ⟨S, s0⟩` and of a bytes reader with `s0 = []`, preserved by every
    non-failing call), the error wrapped by a failing `BufferReader.Read<kind>` is the SOURCE's own:
    the first error of its script (io.EOF once the script is exhausted), or io.ErrNoProgress when the
    script has `maxConsecutiveEmptyReads` error-free empty reads in a row — so `errors.Is(err, srcErr)` holds.
    Composes the call structure of the readers with C04's `step_prov`. -/
theorem stream_err_source (s0 : List Resp) (k : Kind) (r : Rd) (h : SrcInv s0 r) (e : TErr)
    (hx : brRead k r = .err e) :
    (∃ se, e = .wrap se ∧ SrcErrOf s0 se) ∨ e = .pe 2 ∨ e = .pe 4 := by
  have := brRead_err_source s0 k r h e hx
  rwa [errNeg_id, errBadVersion_id] at this

/-! non-vacuity -/
example : SrcInv [⟨3, some (.src 7)⟩] (Rd.newDefault ⟨[1, 2, 3], [⟨3, some (.src 7)⟩]⟩) :=
  srcInv_newDefault _ _ (by decide)
example : binRead .str [0x80, 0, 0, 0] = .err (.pe 2, 0) ∧ cause .str [0x80, 0, 0, 0] = .negativeSize := by decide
example : brRead .i32 (Rd.newDefault ⟨[1, 2, 3], [⟨3, some (.src 7)⟩]⟩) = .err (.wrap (.src 7)) := by decide

end Verif.C17

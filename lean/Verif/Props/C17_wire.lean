/-
  Props/C17_wire — C17 (decode failures carry the Thrift exception type for their cause), the part
  about the scalar/header readers and ReadMessageBegin. Property theorems only.
  `cause` (Spec/Wire.lean) classifies a failed read independently of the code:
  truncated → INVALID_DATA (1), negative string size → NEGATIVE_SIZE (2), bad version → BAD_VERSION (4).
-/
import Verif.Lemmas.WireS
namespace Verif.C17
open Verif.Wire

/-- read_err_typeId: every failure of `Binary.Read<kind>` / `Binary.ReadMessageBegin`, on every byte
    string, is a protocol exception (without wrapped error) whose type id is the one Thrift defines
    for the cause -/
theorem read_err_typeId (k : Kind) (b : Bytes) (e : TErr) (l : Nat) (h : binRead k b = .err (e, l)) :
    e = .pe (cause k b).typeId := binRead_err_cause k b e l h

/-- the model's exception values carry the regenerated type ids of the source: INVALID_DATA = 1,
    NEGATIVE_SIZE = 2, BAD_VERSION = 4 (checked against Facts on every run) -/
theorem typeIds : errShort = .pe 1 ∧ errNeg = .pe 2 ∧ errBadVersion = .pe 4 :=
  ⟨errShort_id, errNeg_id, errBadVersion_id⟩

/-- stream_err_wraps: every failure of a `BufferReader.Read<kind>`, on every reader state and source
    script, is either the reader's own error wrapped by NewProtocolExceptionWithErr (`.wrap e`, which
    `errors.Is` matches against `e`), or — only for strings/binaries and message headers — a
    NEGATIVE_SIZE exception, or — only for message headers — BAD_VERSION; never a bare error, never
    another type id -/
theorem stream_err_wraps (k : Kind) (r : Rd) (e : TErr) (h : brRead k r = .err e) :
    (∃ se, e = .wrap se) ∨ (e = .pe 2 ∧ (k = .binary ∨ k = .str ∨ k = .msg)) ∨ (e = .pe 4 ∧ k = .msg) := by
  have := brRead_errIn k r e h
  unfold StreamErr isWrap at this
  rwa [errNeg_id, errBadVersion_id] at this

/-- the wrapped error is the one the bufiox reader returned: a failing `Next` of the reader model
    surfaces as exactly `.wrap` of its error -/
theorem next_err_wrapped (n : Int) (r r' : Rd) (se : RErr) (h : r.next n = (.fail (some se), r')) :
    brNext n r = .err (.wrap se) := by
  simp [brNext, h]

/-! non-vacuity -/
example : binRead .str [0x80, 0, 0, 0] = .err (.pe 2, 0) ∧ cause .str [0x80, 0, 0, 0] = .negativeSize := by decide
example : brRead .i32 (Rd.newDefault ⟨[1, 2, 3], [⟨3, some (.src 7)⟩]⟩) = .err (.wrap (.src 7)) := by decide

end Verif.C17

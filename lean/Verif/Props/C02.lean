/-
  Props/C02 — Skip consumes exactly one well-formed value, on every skipper (property theorems only).
  This file: Binary.Skip. Stream skippers and skip decoders: sections below / Props/C02 stream part.
-/
import Verif.Lemmas.SkipBinCor
import Verif.Lemmas.SkipTplBytes
import Verif.Lemmas.SkipBRInst
import Verif.Lemmas.SkipBRBytes
import Verif.Lemmas.SkipTplBufiox
import Verif.Lemmas.SkipTplReader
import Verif.Lemmas.SkipBenign
import Verif.Lemmas.SkipTplDemand
namespace Verif.C02

/-- For every well-formed encoded value `v` of any type (nesting ≤ 64, i.e. up to 63 container
    levels) followed by arbitrary further bytes, Binary.Skip reports exactly the encoded length. -/
theorem skipBin_exact (v rest : Bytes) (t : UInt8) (h : refLen 64 t v = some v.length) :
    skipBin (v ++ rest) t = .ok v.length := by
  rw [skipBin_ok_iff, defaultRecursionDepth_eq]
  exact refLen_le_refBin 64 t _ _ (refLen_append h rest)

/-- non-vacuity: map<i32,string>{7:"A"} followed by two bytes -/
example : refLen 64 TT.MAP [8, 11, 0,0,0,1, 0,0,0,7, 0,0,0,1, 65] = some 15 := by decide
example : skipBin ([8, 11, 0,0,0,1, 0,0,0,7, 0,0,0,1, 65] ++ [1, 2]) TT.MAP = .ok 15 :=
  skipBin_exact [8, 11, 0,0,0,1, 0,0,0,7, 0,0,0,1, 65] [1, 2] TT.MAP (by decide)

/-- BytesSkipDecoder.Next: for every well-formed value `v` (nesting ≤ 64) followed by arbitrary bytes,
    the decoder returns exactly the bytes of `v` and keeps exactly `rest`. -/
theorem bytesDec_exact (v rest : Bytes) (t : UInt8) (h : refLen 64 t v = some v.length) :
    bytesDecNext ⟨v ++ rest, 0⟩ t = .ok (v, ⟨rest, 0⟩) := by
  have h1 := refLen_le_refTpl 64 t _ _ (refLen_append h rest)
  have h2 := bytesDecNext_exact (v ++ rest) t
  rw [defaultRecursionDepth_eq, h1] at h2
  simpa using h2

example : bytesDecNext ⟨[8, 11, 0,0,0,1, 0,0,0,7, 0,0,0,1, 65] ++ [1, 2], 0⟩ TT.MAP
    = .ok ([8, 11, 0,0,0,1, 0,0,0,7, 0,0,0,1, 65], ⟨[1, 2], 0⟩) :=
  bytesDec_exact _ _ _ (by decide)

/-! ## the three stream skippers

  Reader hypotheses (all from C04, Lemmas/Reader*.lean, restated in Lemmas/SkipBRInst.lean):
    `RdOK r`  = C04's invariant `Inv r` ∧ `ri + |remaining r| ≤ 2^40`            (sizes in range)
    `r.Live`  = the source's stream is exhausted, or no error has been seen and the rest of the
                script is `Steady` (error-free until the last byte is out — the last byte may
                arrive together with an error such as io.EOF —, zero-byte reads in runs shorter
                than the empty-read limit, every other entry ≥ 1 byte): ANY fragmentation.
    `remaining r` = buffered-unread ++ unread source stream (what the reader still owes).
  Plain io.Reader: `Delivers script |stream|` (Lemmas/SkipTplReader.lean): all bytes come out before any
  error, except that the very last byte may arrive together with one; implied by `Steady`. -/

/-- BufferReader.Skip on a bytes-backed reader (`NewBytesReader(buf)`, any capacity ≥ len): for every
    well-formed value `v` (nesting ≤ 64) followed by arbitrary bytes it succeeds, the reader then
    owes exactly `rest`, and ReadLen is exactly the encoded length.  No size hypothesis. -/
theorem skipBR_exact_bytes (v rest : Bytes) (t : UInt8) (cap : Nat) (hcap : (v ++ rest).length ≤ cap)
    (h : refLen 64 t v = some v.length) :
    ∃ r', skipBR t (Rd.newBytes (v ++ rest) cap) = .ok ((), r') ∧ r'.remaining = rest ∧
      r'.readLen = v.length := by
  have h1 := refLen_le_refBR 64 t _ _ (refLen_append h rest)
  have h2 := skipBR_dry (Rd.newBytes (v ++ rest) cap) t (newBytes_dry _ _)
  obtain ⟨hr, hri⟩ := newBytes_remaining (v ++ rest) cap hcap
  rw [hr, defaultRecursionDepth_eq, h1] at h2
  obtain ⟨r', hx, hrem, hlen, _⟩ := h2
  exact ⟨r', hx, by simpa using hrem, by simpa [Rd.readLen, hri] using hlen⟩

/-- BufferReader.Skip on the buffered reader in ANY reachable state over ANY live source (any
    fragmentation of the stream, final data together with io.EOF included): if what the reader still
    owes starts with a well-formed value `v` (nesting ≤ 64), Skip succeeds, consumes exactly `v`
    (the reader then owes exactly `rest`), ReadLen grows by exactly `|v|`; the state stays good and
    live, so the statement applies to the next value again. -/
theorem skipBR_exact_stream (r : Rd) (v rest : Bytes) (t : UInt8) (hok : RdOK r) (hl : r.Live)
    (hrem : r.remaining = v ++ rest) (h : refLen 64 t v = some v.length) :
    ∃ r', skipBR t r = .ok ((), r') ∧ r'.remaining = rest ∧ r'.readLen = r.readLen + v.length ∧
      RdOK r' ∧ r'.Live := by
  have h1 := refLen_le_refBR 64 t _ _ (refLen_append h rest)
  have h2 := skipBR_live r t hok hl
  rw [hrem, defaultRecursionDepth_eq, h1] at h2
  obtain ⟨r', hx, hrem', hlen, hok', hl'⟩ := h2
  exact ⟨r', hx, by simpa using hrem', hlen, hok', hl'⟩

/-- … in particular for a fresh `NewDefaultReader(src)` over every stream `v ++ rest` (≤ 2^40 bytes)
    and every `Steady` script -/
theorem skipBR_exact_fresh (v rest : Bytes) (script : List Resp) (t : UInt8)
    (hsz : (v ++ rest).length ≤ sizeBound)
    (hst : Steady Facts.maxConsecutiveEmptyReads script (v ++ rest).length 0 = true)
    (h : refLen 64 t v = some v.length) :
    ∃ r', skipBR t (Rd.newDefault ⟨v ++ rest, script⟩) = .ok ((), r') ∧ r'.remaining = rest ∧
      r'.readLen = v.length := by
  obtain ⟨r', hx, hrem, hlen, _⟩ := skipBR_exact_stream (Rd.newDefault ⟨v ++ rest, script⟩) v rest t
    (newDefault_ok _ _ hsz) (live_newDefault _ _ hst) (newDefault_remaining _ _).1 h
  exact ⟨r', hx, hrem, by simpa [Rd.readLen, Rd.newDefault] using hlen⟩

/-- … and over C04's generalised live sources `Rd.Live2` (`Live`, or a chunked script — chunks of ANY
    size, an error only together with the last chunk — over a stream that fits the first buffer) -/
theorem skipBR_exact_stream_live2 (r : Rd) (v rest : Bytes) (t : UInt8) (hok : RdOK r) (hl : r.Live2)
    (hrem : r.remaining = v ++ rest) (h : refLen 64 t v = some v.length) :
    ∃ r', skipBR t r = .ok ((), r') ∧ r'.remaining = rest ∧ r'.readLen = r.readLen + v.length ∧
      RdOK r' ∧ r'.Live2 := by
  have h1 := refLen_le_refBR 64 t _ _ (refLen_append h rest)
  have h2 := skipBR_live2 r t hok hl
  rw [hrem, defaultRecursionDepth_eq, h1] at h2
  obtain ⟨r', hx, hrem', hlen, hok', hl'⟩ := h2
  exact ⟨r', hx, by simpa using hrem', hlen, hok', hl'⟩

/-- fresh `NewDefaultReader(src)` over a `SteadyChunks` script (e.g. ⟨4,nil⟩,⟨5,io.EOF⟩ for 9 bytes) -/
theorem skipBR_exact_fresh_chunks (v rest : Bytes) (script : List Resp) (t : UInt8)
    (hst : SteadyChunks Facts.defaultBufSize script (v ++ rest).length = true)
    (h : refLen 64 t v = some v.length) :
    ∃ r', skipBR t (Rd.newDefault ⟨v ++ rest, script⟩) = .ok ((), r') ∧ r'.remaining = rest ∧
      r'.readLen = v.length := by
  have hsz : (v ++ rest).length ≤ sizeBound := by
    simp only [SteadyChunks, Bool.and_eq_true, decide_eq_true_eq] at hst
    have := hst.1.1
    have hB : Facts.defaultBufSize ≤ sizeBound := by decide
    omega
  obtain ⟨r', hx, hrem, hlen, _⟩ := skipBR_exact_stream_live2 (Rd.newDefault ⟨v ++ rest, script⟩) v rest t
    (newDefault_ok _ _ hsz) (live2_newDefault_chunks _ _ hst) (newDefault_remaining _ _).1 h
  exact ⟨r', hx, hrem, by simpa [Rd.readLen, Rd.newDefault] using hlen⟩

/-- SkipDecoder (over bufiox.Reader) on a bytes-backed reader: returns exactly the bytes of `v`, the
    reader then owes exactly `rest`, ReadLen = |v|.  No size hypothesis. -/
theorem bufioxDec_exact_bytes (v rest : Bytes) (t : UInt8) (cap : Nat) (hcap : (v ++ rest).length ≤ cap)
    (h : refLen 64 t v = some v.length) :
    ∃ r', bufioxDecNext (Rd.newBytes (v ++ rest) cap) t = .ok (v, r') ∧ r'.remaining = rest ∧
      r'.readLen = v.length := by
  have h1 := refLen_le_refTpl 64 t _ _ (refLen_append h rest)
  have h2 := bufioxDecNext_dry (Rd.newBytes (v ++ rest) cap) t (newBytes_dry _ _)
  obtain ⟨hr, hri⟩ := newBytes_remaining (v ++ rest) cap hcap
  rw [hr, defaultRecursionDepth_eq, h1] at h2
  obtain ⟨r', hx, hrem, hlen, _⟩ := h2
  exact ⟨r', by simpa using hx, by simpa using hrem, by simpa [Rd.readLen, hri] using hlen⟩

/-- SkipDecoder (over bufiox.Reader) in any reachable reader state over any live source: returns
    exactly `v` (the Peek-accumulated window), consumes exactly `v`, ReadLen += |v| -/
theorem bufioxDec_exact_stream (r : Rd) (v rest : Bytes) (t : UInt8) (hok : RdOK r) (hl : r.Live)
    (hrem : r.remaining = v ++ rest) (h : refLen 64 t v = some v.length) :
    ∃ r', bufioxDecNext r t = .ok (v, r') ∧ r'.remaining = rest ∧
      r'.readLen = r.readLen + v.length ∧ RdOK r' ∧ r'.Live := by
  have h1 := refLen_le_refTpl 64 t _ _ (refLen_append h rest)
  have h2 := bufioxDecNext_exact r t hok hl
  rw [hrem, defaultRecursionDepth_eq, h1] at h2
  obtain ⟨r', hx, hrem', hlen, hok', hl'⟩ := h2
  exact ⟨r', by simpa using hx, by simpa using hrem', hlen, hok', hl'⟩

theorem bufioxDec_exact_stream_live2 (r : Rd) (v rest : Bytes) (t : UInt8) (hok : RdOK r) (hl : r.Live2)
    (hrem : r.remaining = v ++ rest) (h : refLen 64 t v = some v.length) :
    ∃ r', bufioxDecNext r t = .ok (v, r') ∧ r'.remaining = rest ∧
      r'.readLen = r.readLen + v.length ∧ RdOK r' ∧ r'.Live2 := by
  have h1 := refLen_le_refTpl 64 t _ _ (refLen_append h rest)
  have h2 := bufioxDecNext_exact2 r t hok hl
  rw [hrem, defaultRecursionDepth_eq, h1] at h2
  obtain ⟨r', hx, hrem', hlen, hok', hl'⟩ := h2
  exact ⟨r', by simpa using hx, by simpa using hrem', hlen, hok', hl'⟩

/-- ReaderSkipDecoder over a plain io.Reader: for EVERY script that delivers the stream (any
    fragmentation: 1-byte reads, short reads, zero-byte reads; the last byte of the stream may
    arrive together with io.EOF or any other error) the decoder returns exactly `v`, and the
    source has been read exactly `|v|` bytes: its unread stream is exactly `rest` — nothing beyond
    the value is consumed.  The source still delivers, so the statement applies again. -/
theorem readerDec_exact (src : Src) (v rest : Bytes) (t : UInt8)
    (hd : Delivers src.script src.stream.length = true) (hs : src.stream = v ++ rest)
    (h : refLen 64 t v = some v.length) :
    ∃ src', readerDecNext src t = .ok (v, src') ∧ src'.stream = rest ∧
      Delivers src'.script src'.stream.length = true := by
  have h1 := refLen_le_refTpl 64 t _ _ (refLen_append h rest)
  have h2 := readerDecNext_exact src t hd
  rw [hs, defaultRecursionDepth_eq, h1] at h2
  obtain ⟨src', hx, hrem, hd'⟩ := h2
  exact ⟨src', by simpa using hx, by simpa using hrem, hd'⟩

/-- C04's `Steady` scripts deliver (so every fragmentation allowed for the buffered reader is
    allowed for the plain reader too) -/
theorem steady_delivers (script : List Resp) (slen z : Nat)
    (h : Steady Facts.maxConsecutiveEmptyReads script slen z = true) : Delivers script slen = true :=
  Verif.steady_delivers _ script slen z h

/-- TIE to the Tie-B verdict: the liveness predicate the skip driver uses to demand success on valid
    values (`benign`, lean/Drv/Skip.lean) implies the hypotheses of the theorems above — `Steady` for
    the buffered reader and `Delivers` for the plain reader.  So `bad:C02:rejected-valid` never
    demands more than is proved of the model. -/
theorem verdict_live_covered (s : Src) (h : benign s = true) :
    Steady Facts.maxConsecutiveEmptyReads s.script s.stream.length 0 = true ∧
    Delivers s.script s.stream.length = true :=
  ⟨benign_steady s h, benign_delivers s h⟩

/-- ReaderSkipDecoder, REQUEST-AWARE liveness (Spec/SkipDemand.lean): chunks of ANY size, and an error
    may accompany any read whose data completes the decoder's current request (the final chunk
    together with io.EOF in particular).  The decoder reads with exact room, so a scripted read
    hands over `min(entry, missing, left)` bytes; `readerLive t stream script` replays exactly
    that on lengths against the request sizes read off the grammar (`tplTrace`).  Then the decoder
    returns exactly `v` and the source has been read exactly `|v|` bytes. -/
theorem readerDec_exact_demand (src : Src) (v rest : Bytes) (t : UInt8) (hs : src.stream = v ++ rest)
    (h : refLen 64 t v = some v.length) (hl : readerLive t src.stream src.script = true) :
    ∃ src', readerDecNext src t = .ok (v, src') ∧ src'.stream = rest := by
  have h1 := refLen_le_refTpl 64 t _ _ (refLen_append h rest)
  rw [← hs] at h1
  obtain ⟨src', hx, hrem⟩ := readerDecNext_demand src t v.length
    (by rw [defaultRecursionDepth_eq]; exact h1) (by rw [defaultRecursionDepth_eq]; exact hl)
  rw [hs] at hx hrem
  exact ⟨src', by simpa using hx, by simpa using hrem⟩

/-- TIE to the Tie-B verdict, widened flag: whenever the skip driver's `liveFor` (lean/Drv/Skip.lean:
    `benign`, or `readerLive` for ReaderSkipDecoder, or C04's `SteadyChunks` for the buffered reader)
    holds and the stream starts with a value of nesting ≤ 64, the facility succeeds with the grammar's
    extent — so `bad:C02:rejected-valid` never demands more than is proved of the model. -/
theorem verdict_must_succeed (impl : String) (t : UInt8) (b : Bytes) (s : List Resp) (n : Nat)
    (hsz : b.length ≤ sizeBound) (h : refLen 64 t b = some n) (hl : liveFor impl t b s = true) :
    (impl = "tplreader" → ∃ src', readerDecNext ⟨b, s⟩ t = .ok (b.take n, src') ∧ src'.stream = b.drop n) ∧
    (impl ≠ "tplreader" →
      (∃ r', skipBR t (Rd.newDefault ⟨b, s⟩) = .ok ((), r') ∧ r'.readLen = n) ∧
      (∃ r', bufioxDecNext (Rd.newDefault ⟨b, s⟩) t = .ok (b.take n, r') ∧ r'.readLen = n)) := by
  have hok := newDefault_ok b s hsz
  obtain ⟨hr, hri⟩ := newDefault_remaining b s
  simp only [liveFor, Bool.or_eq_true] at hl
  constructor
  · intro himpl
    rcases hl with hb | hl
    · have hd := benign_delivers ⟨b, s⟩ hb
      have h2 := readerDecNext_exact ⟨b, s⟩ t hd
      rw [defaultRecursionDepth_eq, refLen_le_refTpl 64 t b n h] at h2
      obtain ⟨src', hx, hrem, _⟩ := h2
      exact ⟨src', hx, hrem⟩
    · simp only [himpl, beq_self_eq_true, if_true] at hl
      exact readerDecNext_demand ⟨b, s⟩ t n
        (by rw [defaultRecursionDepth_eq]; exact refLen_le_refTpl 64 t b n h)
        (by rw [defaultRecursionDepth_eq]; exact hl)
  · intro himpl
    have hlive : (Rd.newDefault ⟨b, s⟩).Live2 := by
      rcases hl with hb | hl
      · exact Or.inl (live_newDefault b s (benign_steady ⟨b, s⟩ hb))
      · have : (impl == "tplreader") = false := by simpa using himpl
        simp only [this, Bool.false_eq_true, if_false] at hl
        exact live2_newDefault_chunks b s hl
    have h1 := skipBR_live2 _ t hok hlive
    have h2 := bufioxDecNext_exact2 _ t hok hlive
    rw [hr, defaultRecursionDepth_eq, refLen_le_refBR 64 t b n h] at h1
    rw [hr, defaultRecursionDepth_eq, refLen_le_refTpl 64 t b n h] at h2
    obtain ⟨r1, hx1, _, hl1, _⟩ := h1
    obtain ⟨r2, hx2, _, hl2, _⟩ := h2
    exact ⟨⟨r1, hx1, by simpa [Rd.readLen, hri] using hl1⟩, ⟨r2, hx2, by simpa [Rd.readLen, hri] using hl2⟩⟩

/-- the io.EOF-with-final-data clause, spelled out: the value is the whole stream and its last byte
    arrives together with io.EOF — the decoder returns the value, not io.EOF (defect F9) -/
theorem readerDec_exact_data_with_eof (v : Bytes) (x : UInt8) (t : UInt8) (pre : List Resp)
    (hd : Delivers (pre ++ [⟨1, some .eof⟩]) (v ++ [x]).length = true)
    (h : refLen 64 t (v ++ [x]) = some (v ++ [x]).length) :
    ∃ src', readerDecNext ⟨v ++ [x], pre ++ [⟨1, some .eof⟩]⟩ t = .ok (v ++ [x], src') ∧ src'.stream = [] := by
  obtain ⟨src', hx, hrem, _⟩ := readerDec_exact ⟨v ++ [x], pre ++ [⟨1, some .eof⟩]⟩ (v ++ [x]) [] t hd
    (by simp) h
  exact ⟨src', hx, hrem⟩

/-! ### non-vacuity: map<i32,string>{7:"A"} followed by two bytes, delivered byte by byte with
    zero-byte reads in between and the last byte together with io.EOF -/

def exScript : List Resp :=
  [⟨1, none⟩, ⟨0, none⟩, ⟨1, none⟩, ⟨1, none⟩, ⟨1, none⟩, ⟨0, none⟩, ⟨0, none⟩, ⟨1, none⟩, ⟨1, none⟩,
   ⟨1, none⟩, ⟨1, none⟩, ⟨1, none⟩, ⟨1, none⟩, ⟨1, none⟩, ⟨1, none⟩, ⟨1, none⟩, ⟨1, none⟩, ⟨1, none⟩,
   ⟨1, none⟩, ⟨1, some .eof⟩]

example : Steady Facts.maxConsecutiveEmptyReads exScript 17 0 = true := by decide
example : Delivers exScript 17 = true := by decide
example : benign ⟨[8, 11, 0,0,0,1, 0,0,0,7, 0,0,0,1, 65] ++ [1, 2], exScript⟩ = true := by decide

example : ∃ r', skipBR TT.MAP (Rd.newDefault ⟨[8, 11, 0,0,0,1, 0,0,0,7, 0,0,0,1, 65] ++ [1, 2], exScript⟩)
    = .ok ((), r') ∧ r'.remaining = [1, 2] ∧ r'.readLen = 15 :=
  skipBR_exact_fresh [8, 11, 0,0,0,1, 0,0,0,7, 0,0,0,1, 65] [1, 2] exScript TT.MAP (by decide) (by decide)
    (by decide)

example : ∃ r', skipBR TT.MAP (Rd.newBytes ([8, 11, 0,0,0,1, 0,0,0,7, 0,0,0,1, 65] ++ [1, 2]) 17)
    = .ok ((), r') ∧ r'.remaining = [1, 2] ∧ r'.readLen = 15 :=
  skipBR_exact_bytes _ _ _ _ (by decide) (by decide)

example : ∃ r', bufioxDecNext (Rd.newBytes ([8, 11, 0,0,0,1, 0,0,0,7, 0,0,0,1, 65] ++ [1, 2]) 32) TT.MAP
    = .ok ([8, 11, 0,0,0,1, 0,0,0,7, 0,0,0,1, 65], r') ∧ r'.remaining = [1, 2] ∧ r'.readLen = 15 :=
  bufioxDec_exact_bytes _ _ _ _ (by decide) (by decide)

example : ∃ src', readerDecNext ⟨[8, 11, 0,0,0,1, 0,0,0,7, 0,0,0,1, 65] ++ [1, 2], exScript⟩ TT.MAP
    = .ok ([8, 11, 0,0,0,1, 0,0,0,7, 0,0,0,1, 65], src') ∧ src'.stream = [1, 2] ∧
      Delivers src'.script src'.stream.length = true :=
  readerDec_exact ⟨_, exScript⟩ _ [1, 2] TT.MAP (by decide) rfl (by decide)

/-- chunked scripts with the final chunk together with io.EOF: live for the plain reader when the
    chunks line up with the decoder's requests (4 + 5), not when they do not (2 + 7: the second read
    asks for 2 bytes, gets them with io.EOF, and the remaining 5 bytes never arrive) -/
example : readerLive TT.STRING [0,0,0,5, 1,2,3,4,5] [⟨4, none⟩, ⟨5, some .eof⟩] = true := by decide
example : readerLive TT.STRING [0,0,0,5, 1,2,3,4,5] [⟨2, none⟩, ⟨7, some .eof⟩] = false := by decide
example : readerDecNext ⟨[0,0,0,5, 1,2,3,4,5], [⟨2, none⟩, ⟨7, some .eof⟩]⟩ TT.STRING = .err (.raw .eof) := by
  decide
example : ∃ src', readerDecNext ⟨[0,0,0,5, 1,2,3,4,5] ++ [9], [⟨4, none⟩, ⟨5, some .eof⟩]⟩ TT.STRING
    = .ok ([0,0,0,5, 1,2,3,4,5], src') ∧ src'.stream = [9] :=
  readerDec_exact_demand ⟨_, _⟩ _ [9] TT.STRING rfl (by decide) (by decide)
example : ∃ r', skipBR TT.STRING (Rd.newDefault ⟨[0,0,0,5, 1,2,3,4,5] ++ [], [⟨4, none⟩, ⟨5, some .eof⟩]⟩)
    = .ok ((), r') ∧ r'.remaining = [] ∧ r'.readLen = 9 :=
  skipBR_exact_fresh_chunks _ [] _ TT.STRING (by decide) (by decide)

/-- the F9 witness evaluated on the model: STRING "A" whose last byte arrives with io.EOF -/
example : readerDecNext ⟨[0,0,0,1, 65], [⟨4, none⟩, ⟨1, some .eof⟩]⟩ TT.STRING
    = .ok ([0,0,0,1, 65], ⟨[], []⟩) := by decide

/-- BytesSkipDecoder.Next starts from a clean offset whatever an earlier call left behind (the F16 fix):
    a Next that failed part-way consumes nothing and leaks nothing into the next call -/
theorem bytesDec_offset_irrelevant (b : Bytes) (n : Nat) (t : UInt8) :
    bytesDecNext ⟨b, n⟩ t = bytesDecNext ⟨b, 0⟩ t := rfl

end Verif.C02

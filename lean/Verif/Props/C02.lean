/-
  Props/C02 — Skip consumes exactly one well-formed value, on every skipper (property theorems only).
  This file: Binary.Skip. Stream skippers and skip decoders: sections below / Props/C02 stream part.
-/
import Verif.Lemmas.SkipBinCor
import Verif.Lemmas.SkipTplBytes
namespace Verif.C02

/-- For every well-formed encoded value `v` of any type (nesting ≤ 64, i.e. up to 63 container
    levels) followed by arbitrary further bytes, Binary.Skip reports exactly the encoded length. -/
theorem skipBin_exact (v rest : Bytes) (t : UInt8) (h : refLen 64 t v = some v.length) :
    skipBin (v ++ rest) t = .ok v.length := by
  rw [skipBin_ok_iff, defaultRecursionDepth_eq]
  exact refLen_le_refBin 64 t _ _ (refLen_append h rest)

/-- non-vacuity: map<i32,string>{7:"A"} followed by two bytes -/
example : refLen 64 TT.MAP [8, 11, 0,0,0,1, 0,0,0,7, 0,0,0,1, 65] = some 15 := by decide
example : skipBin ([8, 11, 0,0,0,1, 0,0,0,7, 0,0,0,1, 65] ++ [1, 2]) TT.MAP = .ok 15 :=
  skipBin_exact [8, 11, 0,0,0,1, 0,0,0,7, 0,0,0,1, 65] [1, 2] TT.MAP (by decide)

/-- BytesSkipDecoder.Next: for every well-formed value `v` (nesting ≤ 64) followed by arbitrary bytes,
    the decoder returns exactly the bytes of `v` and keeps exactly `rest`. -/
theorem bytesDec_exact (v rest : Bytes) (t : UInt8) (h : refLen 64 t v = some v.length) :
    bytesDecNext ⟨v ++ rest, 0⟩ t = .ok (v, ⟨rest, 0⟩) := by
  have h1 := refLen_le_refTpl 64 t _ _ (refLen_append h rest)
  have h2 := bytesDecNext_exact (v ++ rest) t
  rw [defaultRecursionDepth_eq, h1] at h2
  simpa using h2

example : bytesDecNext ⟨[8, 11, 0,0,0,1, 0,0,0,7, 0,0,0,1, 65] ++ [1, 2], 0⟩ TT.MAP
    = .ok ([8, 11, 0,0,0,1, 0,0,0,7, 0,0,0,1, 65], ⟨[1, 2], 0⟩) :=
  bytesDec_exact _ _ _ (by decide)

end Verif.C02

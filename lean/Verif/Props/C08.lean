/-
  Props/C08 — Skippers reject malformed input and agree with the grammar; recursion is bounded.
  (property theorems only; Binary.Skip part. The stream skippers follow in C08 stream sections.)

  Reference: `refLen d t b = some n` — the first n bytes of b are exactly one well-formed value of
  type t with nesting (leaves included) ≤ d (Spec/Grammar.lean).  "Nesting up to 63 container levels"
  is d = 64; "rejection from 65 container levels" is: not well-formed within d = 65.
-/
import Verif.Lemmas.SkipBinCor
import Verif.Lemmas.SkipTplBytes
namespace Verif.C08

/-- Binary.Skip never accepts anything that is not a well-formed value within the recursion limit
    (+1 for the boundary zone), and never with a shorter or longer extent. -/
theorem skipBin_sound (b : Bytes) (t : UInt8) (n : Nat) (h : skipBin b t = .ok n) :
    n ≤ b.length ∧ refLen 65 t b = some n := by
  rw [skipBin_ok_iff, defaultRecursionDepth_eq] at h
  have h65 := refBin_le_refLen 64 t b n h
  exact ⟨refLen_le h65, h65⟩

/-- Binary.Skip accepts every well-formed value with nesting ≤ 64 (63 container levels around a
    leaf), with exactly the grammar's extent. -/
theorem skipBin_complete (b : Bytes) (t : UInt8) (n : Nat) (h : refLen 64 t b = some n) :
    skipBin b t = .ok n := by
  rw [skipBin_ok_iff, defaultRecursionDepth_eq]
  exact refLen_le_refBin 64 t b n h

/-- On every input Binary.Skip returns a length or an error — no third outcome. -/
theorem skipBin_total (b : Bytes) (t : UInt8) :
    (∃ n, skipBin b t = .ok n) ∨ (∃ e, skipBin b t = .err e) := Verif.skipBin_total b t

/-- exact extent: if b starts with a well-formed value v (nesting ≤ 64), no other length is reported -/
theorem skipBin_exact_extent (v rest : Bytes) (t : UInt8) (h : refLen 64 t v = some v.length) (n : Nat) :
    skipBin (v ++ rest) t = .ok n ↔ n = v.length := by
  have hc := skipBin_complete (v ++ rest) t v.length (refLen_append h rest)
  constructor
  · intro hn; rw [hc] at hn; exact (Out.ok.inj hn).symm
  · intro hn; rw [hn]; exact hc

/-- every strict prefix of a valid encoding is rejected with an error -/
theorem skipBin_rejects_strict_prefix (b : Bytes) (t : UInt8) (d n m : Nat) (h : refLen d t b = some n)
    (hm : m < n) : ∃ e, skipBin (b.take m) t = .err e := by
  rcases skipBin_total (b.take m) t with ⟨k, hk⟩ | he
  · have := (skipBin_sound _ t k hk).2
    rw [refLen_strict_prefix h m hm 65] at this
    cases this
  · exact he

/-- a negative declared size at the top of a string, list, set or map is rejected with an error -/
theorem skipBin_rejects_negative_size_string (b : Bytes) (h : ¬ rd32 b < 2147483648) :
    ∃ e, skipBin b TT.STRING = .err e := by
  rcases skipBin_total b TT.STRING with ⟨k, hk⟩ | he
  · have := (skipBin_sound _ _ k hk).2; rw [refLen_neg_string 65 b h] at this; cases this
  · exact he

theorem skipBin_rejects_negative_size_list (t et : UInt8) (rest : Bytes) (ht : t = TT.LIST ∨ t = TT.SET)
    (h : ¬ rd32 rest < 2147483648) : ∃ e, skipBin (et :: rest) t = .err e := by
  rcases skipBin_total (et :: rest) t with ⟨k, hk⟩ | he
  · have := (skipBin_sound _ _ k hk).2; rw [refLen_neg_list 65 t et rest ht h] at this; cases this
  · exact he

theorem skipBin_rejects_negative_size_map (kt vt : UInt8) (rest : Bytes) (h : ¬ rd32 rest < 2147483648) :
    ∃ e, skipBin (kt :: vt :: rest) TT.MAP = .err e := by
  rcases skipBin_total (kt :: vt :: rest) TT.MAP with ⟨k, hk⟩ | he
  · have := (skipBin_sound _ _ k hk).2; rw [refLen_neg_map 65 kt vt rest h] at this; cases this
  · exact he

/-- an unknown type tag that has to be parsed is rejected with an error (at the top; nested tags
    are covered by `skipBin_sound`: a value containing one is not well-formed) -/
theorem skipBin_rejects_unknown_tag (b : Bytes) (t : UInt8)
    (ht : fixedSize t = 0 ∧ t ≠ TT.STRING ∧ t ≠ TT.STRUCT ∧ t ≠ TT.MAP ∧ t ≠ TT.SET ∧ t ≠ TT.LIST) :
    ∃ e, skipBin b t = .err e := by
  rcases skipBin_total b t with ⟨k, hk⟩ | he
  · have := (skipBin_sound _ _ k hk).2; rw [refLen_unknown_type 65 t b ht] at this; cases this
  · exact he

/-- nesting beyond the recursion limit (not well-formed within 65 levels) is always rejected -/
theorem skipBin_rejects_deep (b : Bytes) (t : UInt8) (h : refLen 65 t b = none) :
    ∃ e, skipBin b t = .err e := by
  rcases skipBin_total b t with ⟨k, hk⟩ | he
  · have := (skipBin_sound _ _ k hk).2; rw [h] at this; cases this
  · exact he

/-- non-vacuity: a list<string> with two elements followed by garbage -/
example : refLen 64 TT.LIST [11, 0,0,0,2, 0,0,0,1, 65, 0,0,0,0, 0xEE] = some 14 := by decide
example : skipBin [11, 0,0,0,2, 0,0,0,1, 65, 0,0,0,0, 0xEE] TT.LIST = .ok 14 :=
  skipBin_complete _ _ _ (by decide)

/-! ### SkipDecoderTpl over a byte slice (BytesSkipDecoder) -/

/-- BytesSkipDecoder.Next never accepts anything that is not a well-formed value within 65 levels,
    and returns exactly its bytes -/
theorem bytesDec_sound (b : Bytes) (t : UInt8) (out : Bytes) (s' : BytesDec)
    (h : bytesDecNext ⟨b, 0⟩ t = .ok (out, s')) :
    ∃ n, refLen 65 t b = some n ∧ n ≤ b.length ∧ out = b.take n ∧ s' = ⟨b.drop n, 0⟩ := by
  have h2 := bytesDecNext_exact b t
  rw [defaultRecursionDepth_eq] at h2
  cases hr : refTpl 64 t b with
  | none => rw [hr] at h2; obtain ⟨e, he⟩ := h2; rw [he] at h; cases h
  | some k =>
    rw [hr] at h2; rw [h2] at h
    have := Out.ok.inj h
    have h65 := refTpl_le_refLen 64 t b k hr
    exact ⟨k, h65, refLen_le h65, (Prod.mk.inj this).1.symm, (Prod.mk.inj this).2.symm⟩

/-- … and accepts every well-formed value with nesting ≤ 64 -/
theorem bytesDec_complete (b : Bytes) (t : UInt8) (n : Nat) (h : refLen 64 t b = some n) :
    bytesDecNext ⟨b, 0⟩ t = .ok (b.take n, ⟨b.drop n, 0⟩) := by
  have h2 := bytesDecNext_exact b t
  rw [defaultRecursionDepth_eq, refLen_le_refTpl 64 t b n h] at h2
  exact h2

/-- on every input: a value or an error, no third outcome (no panic) -/
theorem bytesDec_total (b : Bytes) (t : UInt8) :
    (∃ r, bytesDecNext ⟨b, 0⟩ t = .ok r) ∨ (∃ e, bytesDecNext ⟨b, 0⟩ t = .err e) := by
  have h2 := bytesDecNext_exact b t
  cases hr : refTpl Facts.defaultRecursionDepth t b with
  | none => rw [hr] at h2; exact Or.inr h2
  | some k => rw [hr] at h2; exact Or.inl ⟨_, h2⟩

/-- the two in-memory skippers agree on every well-formed value with nesting ≤ 64 -/
theorem bin_bytesDec_agree (b : Bytes) (t : UInt8) (n : Nat) (h : refLen 64 t b = some n) :
    skipBin b t = .ok n ∧ bytesDecNext ⟨b, 0⟩ t = .ok (b.take n, ⟨b.drop n, 0⟩) :=
  ⟨skipBin_complete b t n h, bytesDec_complete b t n h⟩

end Verif.C08

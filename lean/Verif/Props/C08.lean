/-
  Props/C08 — Skippers reject malformed input and agree with the grammar; recursion is bounded.
  (property theorems only; Binary.Skip part. The stream skippers follow in C08 stream sections.)

  Reference: `refLen d t b = some n` — the first n bytes of b are exactly one well-formed value of
  type t with nesting (leaves included) ≤ d (Spec/Grammar.lean).  "Nesting up to 63 container levels"
  is d = 64; "rejection from 65 container levels" is: not well-formed within d = 65.
-/
import Verif.Lemmas.SkipBinCor
import Verif.Lemmas.SkipTplBytes
import Verif.Lemmas.SkipBRInst
import Verif.Lemmas.SkipBRBytes
import Verif.Lemmas.SkipTplBufiox
import Verif.Lemmas.SkipTplReader
namespace Verif.C08

/-- Binary.Skip never accepts anything that is not a well-formed value within the recursion limit
    (+1 for the boundary zone), and never with a shorter or longer extent. -/
theorem skipBin_sound (b : Bytes) (t : UInt8) (n : Nat) (h : skipBin b t = .ok n) :
    n ≤ b.length ∧ refLen 65 t b = some n := by
  rw [skipBin_ok_iff, defaultRecursionDepth_eq] at h
  have h65 := refBin_le_refLen 64 t b n h
  exact ⟨refLen_le h65, h65⟩

/-- Binary.Skip accepts every well-formed value with nesting ≤ 64 (63 container levels around a
    leaf), with exactly the grammar's extent. -/
theorem skipBin_complete (b : Bytes) (t : UInt8) (n : Nat) (h : refLen 64 t b = some n) :
    skipBin b t = .ok n := by
  rw [skipBin_ok_iff, defaultRecursionDepth_eq]
  exact refLen_le_refBin 64 t b n h

/-- On every input Binary.Skip returns a length or an error — no third outcome. -/
theorem skipBin_total (b : Bytes) (t : UInt8) :
    (∃ n, skipBin b t = .ok n) ∨ (∃ e, skipBin b t = .err e) := Verif.skipBin_total b t

/-- exact extent: if b starts with a well-formed value v (nesting ≤ 64), no other length is reported -/
theorem skipBin_exact_extent (v rest : Bytes) (t : UInt8) (h : refLen 64 t v = some v.length) (n : Nat) :
    skipBin (v ++ rest) t = .ok n ↔ n = v.length := by
  have hc := skipBin_complete (v ++ rest) t v.length (refLen_append h rest)
  constructor
  · intro hn; rw [hc] at hn; exact (Out.ok.inj hn).symm
  · intro hn; rw [hn]; exact hc

/-- every strict prefix of a valid encoding is rejected with an error -/
theorem skipBin_rejects_strict_prefix (b : Bytes) (t : UInt8) (d n m : Nat) (h : refLen d t b = some n)
    (hm : m < n) : ∃ e, skipBin (b.take m) t = .err e := by
  rcases skipBin_total (b.take m) t with ⟨k, hk⟩ | he
  · have := (skipBin_sound _ t k hk).2
    rw [refLen_strict_prefix h m hm 65] at this
    cases this
  · exact he

/-- a negative declared size at the top of a string, list, set or map is rejected with an error -/
theorem skipBin_rejects_negative_size_string (b : Bytes) (h : ¬ rd32 b < 2147483648) :
    ∃ e, skipBin b TT.STRING = .err e := by
  rcases skipBin_total b TT.STRING with ⟨k, hk⟩ | he
  · have := (skipBin_sound _ _ k hk).2; rw [refLen_neg_string 65 b h] at this; cases this
  · exact he

theorem skipBin_rejects_negative_size_list (t et : UInt8) (rest : Bytes) (ht : t = TT.LIST ∨ t = TT.SET)
    (h : ¬ rd32 rest < 2147483648) : ∃ e, skipBin (et :: rest) t = .err e := by
  rcases skipBin_total (et :: rest) t with ⟨k, hk⟩ | he
  · have := (skipBin_sound _ _ k hk).2; rw [refLen_neg_list 65 t et rest ht h] at this; cases this
  · exact he

theorem skipBin_rejects_negative_size_map (kt vt : UInt8) (rest : Bytes) (h : ¬ rd32 rest < 2147483648) :
    ∃ e, skipBin (kt :: vt :: rest) TT.MAP = .err e := by
  rcases skipBin_total (kt :: vt :: rest) TT.MAP with ⟨k, hk⟩ | he
  · have := (skipBin_sound _ _ k hk).2; rw [refLen_neg_map 65 kt vt rest h] at this; cases this
  · exact he

/-- an unknown type tag that has to be parsed is rejected with an error (at the top; nested tags
    are covered by `skipBin_sound`: a value containing one is not well-formed) -/
theorem skipBin_rejects_unknown_tag (b : Bytes) (t : UInt8)
    (ht : fixedSize t = 0 ∧ t ≠ TT.STRING ∧ t ≠ TT.STRUCT ∧ t ≠ TT.MAP ∧ t ≠ TT.SET ∧ t ≠ TT.LIST) :
    ∃ e, skipBin b t = .err e := by
  rcases skipBin_total b t with ⟨k, hk⟩ | he
  · have := (skipBin_sound _ _ k hk).2; rw [refLen_unknown_type 65 t b ht] at this; cases this
  · exact he

/-- nesting beyond the recursion limit (not well-formed within 65 levels) is always rejected -/
theorem skipBin_rejects_deep (b : Bytes) (t : UInt8) (h : refLen 65 t b = none) :
    ∃ e, skipBin b t = .err e := by
  rcases skipBin_total b t with ⟨k, hk⟩ | he
  · have := (skipBin_sound _ _ k hk).2; rw [h] at this; cases this
  · exact he

/-- non-vacuity: a list<string> with two elements followed by garbage -/
example : refLen 64 TT.LIST [11, 0,0,0,2, 0,0,0,1, 65, 0,0,0,0, 0xEE] = some 14 := by decide
example : skipBin [11, 0,0,0,2, 0,0,0,1, 65, 0,0,0,0, 0xEE] TT.LIST = .ok 14 :=
  skipBin_complete _ _ _ (by decide)

/-! ### SkipDecoderTpl over a byte slice (BytesSkipDecoder) -/

/-- BytesSkipDecoder.Next never accepts anything that is not a well-formed value within 65 levels,
    and returns exactly its bytes -/
theorem bytesDec_sound (b : Bytes) (t : UInt8) (out : Bytes) (s' : BytesDec)
    (h : bytesDecNext ⟨b, 0⟩ t = .ok (out, s')) :
    ∃ n, refLen 65 t b = some n ∧ n ≤ b.length ∧ out = b.take n ∧ s' = ⟨b.drop n, 0⟩ := by
  have h2 := bytesDecNext_exact b t
  rw [defaultRecursionDepth_eq] at h2
  cases hr : refTpl 64 t b with
  | none => rw [hr] at h2; obtain ⟨e, he⟩ := h2; rw [he] at h; cases h
  | some k =>
    rw [hr] at h2; rw [h2] at h
    have := Out.ok.inj h
    have h65 := refTpl_le_refLen 64 t b k hr
    exact ⟨k, h65, refLen_le h65, (Prod.mk.inj this).1.symm, (Prod.mk.inj this).2.symm⟩

/-- … and accepts every well-formed value with nesting ≤ 64 -/
theorem bytesDec_complete (b : Bytes) (t : UInt8) (n : Nat) (h : refLen 64 t b = some n) :
    bytesDecNext ⟨b, 0⟩ t = .ok (b.take n, ⟨b.drop n, 0⟩) := by
  have h2 := bytesDecNext_exact b t
  rw [defaultRecursionDepth_eq, refLen_le_refTpl 64 t b n h] at h2
  exact h2

/-- on every input: a value or an error, no third outcome (no panic) -/
theorem bytesDec_total (b : Bytes) (t : UInt8) :
    (∃ r, bytesDecNext ⟨b, 0⟩ t = .ok r) ∨ (∃ e, bytesDecNext ⟨b, 0⟩ t = .err e) := by
  have h2 := bytesDecNext_exact b t
  cases hr : refTpl Facts.defaultRecursionDepth t b with
  | none => rw [hr] at h2; exact Or.inr h2
  | some k => rw [hr] at h2; exact Or.inl ⟨_, h2⟩

/-- the two in-memory skippers agree on every well-formed value with nesting ≤ 64 -/
theorem bin_bytesDec_agree (b : Bytes) (t : UInt8) (n : Nat) (h : refLen 64 t b = some n) :
    skipBin b t = .ok n ∧ bytesDecNext ⟨b, 0⟩ t = .ok (b.take n, ⟨b.drop n, 0⟩) :=
  ⟨skipBin_complete b t n h, bytesDec_complete b t n h⟩

/-! ## BufferReader.Skip (stream reader)

  `RdOK r` = C04's reader invariant ∧ sizes ≤ 2^40; `r.Live` = C04's live-source predicate (stream
  exhausted, or no error seen and the remaining script `Steady`); `remaining r` = what the reader
  still owes (buffered-unread ++ unread source).  See Props/C02.lean for the wording. -/

/-- SOUNDNESS over ANY source — any fragmentation, any error at any position, spurious failures,
    empty reads: if BufferReader.Skip reports success, what the reader owed starts with a well-formed
    value within the recursion limit (+1 for the boundary zone), exactly that value has been
    consumed and ReadLen has grown by exactly its length. -/
theorem skipBR_sound (r r' : Rd) (t : UInt8) (hok : RdOK r) (hx : skipBR t r = .ok ((), r')) :
    ∃ n, refLen 65 t r.remaining = some n ∧ n ≤ r.remaining.length ∧
      r'.remaining = r.remaining.drop n ∧ r'.readLen = r.readLen + n := by
  obtain ⟨n, h1, h2, h3, _⟩ := skipBR_sound_any r r' t hok hx
  rw [defaultRecursionDepth_eq] at h1
  have h65 := refBR_le_refLen 64 t _ n h1
  exact ⟨n, h65, refLen_le h65, h2, h3⟩

/-- COMPLETENESS over live sources: every well-formed value with nesting ≤ 64 in front of the reader
    is skipped, with exactly the grammar's extent -/
theorem skipBR_complete (r : Rd) (t : UInt8) (n : Nat) (hok : RdOK r) (hl : r.Live)
    (h : refLen 64 t r.remaining = some n) :
    ∃ r', skipBR t r = .ok ((), r') ∧ r'.remaining = r.remaining.drop n ∧ r'.readLen = r.readLen + n ∧
      RdOK r' ∧ r'.Live := by
  have h2 := skipBR_live r t hok hl
  rw [defaultRecursionDepth_eq, refLen_le_refBR 64 t _ n h] at h2
  exact h2

/-- … and over C04's generalised live sources `Rd.Live2` (`Live`, or a chunked script — chunks of any
    size, an error only together with the last chunk — over a stream that fits the first buffer) -/
theorem skipBR_complete_live2 (r : Rd) (t : UInt8) (n : Nat) (hok : RdOK r) (hl : r.Live2)
    (h : refLen 64 t r.remaining = some n) :
    ∃ r', skipBR t r = .ok ((), r') ∧ r'.remaining = r.remaining.drop n ∧ r'.readLen = r.readLen + n ∧
      RdOK r' ∧ r'.Live2 := by
  have h2 := skipBR_live2 r t hok hl
  rw [defaultRecursionDepth_eq, refLen_le_refBR 64 t _ n h] at h2
  exact h2

/-- TOTALITY over ANY source: a result or an error — never a panic (no index out of range on a
    short or nil slice, no (nil, nil) from the reader), and the `for {}` loops terminate -/
theorem skipBR_total (r : Rd) (t : UInt8) (hok : RdOK r) :
    (∃ r', skipBR t r = .ok ((), r')) ∨ (∃ e, skipBR t r = .err e) := skipBR_total_any r t hok

/-- over ANY source: whatever is not a well-formed value within 65 levels is rejected with an error.
    Instances of the hypothesis: every strict prefix of a valid encoding when the stream ends there
    (`refLen_strict_prefix`), a negative declared size (`refLen_neg_string/_list/_map`), an unknown
    type tag (`refLen_unknown_type`), nesting beyond the limit. -/
theorem skipBR_rejects_malformed (r : Rd) (t : UInt8) (hok : RdOK r) (h : refLen 65 t r.remaining = none) :
    ∃ e, skipBR t r = .err e := by
  rcases skipBR_total r t hok with ⟨r', hx⟩ | he
  · obtain ⟨n, h1, _⟩ := skipBR_sound r r' t hok hx
    rw [h] at h1; cases h1
  · exact he

/-- over ANY source: never a shorter or longer extent — if the reader owes `v ++ rest` with `v`
    well-formed (nesting ≤ 64) and Skip succeeds, it has consumed exactly `v` -/
theorem skipBR_exact_extent (r r' : Rd) (v rest : Bytes) (t : UInt8) (hok : RdOK r)
    (hrem : r.remaining = v ++ rest) (h : refLen 64 t v = some v.length)
    (hx : skipBR t r = .ok ((), r')) : r'.remaining = rest ∧ r'.readLen = r.readLen + v.length := by
  obtain ⟨n, h1, _, h2, h3⟩ := skipBR_sound r r' t hok hx
  rw [hrem] at h1 h2
  have hn : n = v.length := refLen_unique h1 (refLen_append h rest)
  subst hn
  exact ⟨by simpa using h2, h3⟩

/-- the stream ends inside a value: rejected with an error, over ANY source -/
theorem skipBR_rejects_strict_prefix (r : Rd) (b : Bytes) (t : UInt8) (d n m : Nat) (hok : RdOK r)
    (h : refLen d t b = some n) (hm : m < n) (hrem : r.remaining = b.take m) :
    ∃ e, skipBR t r = .err e :=
  skipBR_rejects_malformed r t hok (by rw [hrem]; exact refLen_strict_prefix h m hm 65)

/-- bytes-backed reader (`NewBytesReader(b)`, any capacity ≥ len), EVERY byte string, EVERY type
    byte, no size hypothesis: sound, complete, total -/
theorem skipBR_bytes_sound (b : Bytes) (cap : Nat) (t : UInt8) (r' : Rd) (hcap : b.length ≤ cap)
    (hx : skipBR t (Rd.newBytes b cap) = .ok ((), r')) :
    ∃ n, refLen 65 t b = some n ∧ n ≤ b.length ∧ r'.remaining = b.drop n ∧ r'.readLen = n := by
  have h2 := skipBR_dry (Rd.newBytes b cap) t (newBytes_dry _ _)
  obtain ⟨hr, hri⟩ := newBytes_remaining b cap hcap
  rw [hr, defaultRecursionDepth_eq] at h2
  cases hb : refBR 64 t b with
  | none => rw [hb] at h2; obtain ⟨e, he⟩ := h2; rw [he] at hx; cases hx
  | some n =>
    rw [hb] at h2
    obtain ⟨r1, hy, hrem, hlen, _⟩ := h2
    rw [hy] at hx
    have : r1 = r' := (Prod.mk.inj (Out.ok.inj hx)).2
    subst this
    have h65 := refBR_le_refLen 64 t b n hb
    exact ⟨n, h65, refLen_le h65, hrem, by simpa [Rd.readLen, hri] using hlen⟩

theorem skipBR_bytes_complete (b : Bytes) (cap : Nat) (t : UInt8) (n : Nat) (hcap : b.length ≤ cap)
    (h : refLen 64 t b = some n) :
    ∃ r', skipBR t (Rd.newBytes b cap) = .ok ((), r') ∧ r'.remaining = b.drop n ∧ r'.readLen = n := by
  have h2 := skipBR_dry (Rd.newBytes b cap) t (newBytes_dry _ _)
  obtain ⟨hr, hri⟩ := newBytes_remaining b cap hcap
  rw [hr, defaultRecursionDepth_eq, refLen_le_refBR 64 t b n h] at h2
  obtain ⟨r', hx, hrem, hlen, _⟩ := h2
  exact ⟨r', hx, hrem, by simpa [Rd.readLen, hri] using hlen⟩

theorem skipBR_bytes_total (b : Bytes) (cap : Nat) (t : UInt8) :
    (∃ r', skipBR t (Rd.newBytes b cap) = .ok ((), r')) ∨ (∃ e, skipBR t (Rd.newBytes b cap) = .err e) := by
  have h2 := skipBR_dry (Rd.newBytes b cap) t (newBytes_dry _ _)
  cases hb : refBR Facts.defaultRecursionDepth t (Rd.newBytes b cap).remaining with
  | none => rw [hb] at h2; exact Or.inr h2
  | some n => rw [hb] at h2; obtain ⟨r', hx, _⟩ := h2; exact Or.inl ⟨r', hx⟩

/-! ## SkipDecoder over bufiox.Reader -/

/-- SOUND over ANY source (any fragmentation, errors anywhere, spurious failures): success ⇒ what the
    reader owed starts with a well-formed value within 65 levels; exactly it is returned, exactly it
    is consumed, ReadLen += its length -/
theorem bufioxDec_sound (r r' : Rd) (t : UInt8) (out : Bytes) (hok : RdOK r)
    (hx : bufioxDecNext r t = .ok (out, r')) :
    ∃ n, refLen 65 t r.remaining = some n ∧ n ≤ r.remaining.length ∧ out = r.remaining.take n ∧
      r'.remaining = r.remaining.drop n ∧ r'.readLen = r.readLen + n := by
  rcases bufioxDecNext_any r t hok with ⟨e, he⟩ | ⟨n, r1, hb, hy, hrem, hlen, _⟩
  · rw [he] at hx; cases hx
  · rw [hy] at hx
    have hinj := Prod.mk.inj (Out.ok.inj hx)
    rw [defaultRecursionDepth_eq] at hb
    have h65 := refTpl_le_refLen 64 t _ n hb
    exact ⟨n, h65, refLen_le h65, hinj.1.symm, by rw [← hinj.2]; exact hrem, by rw [← hinj.2]; exact hlen⟩

/-- complete (live source): every well-formed value with nesting ≤ 64 is returned exactly -/
theorem bufioxDec_complete (r : Rd) (t : UInt8) (n : Nat) (hok : RdOK r) (hl : r.Live)
    (h : refLen 64 t r.remaining = some n) :
    ∃ r', bufioxDecNext r t = .ok (r.remaining.take n, r') ∧ r'.remaining = r.remaining.drop n ∧
      r'.readLen = r.readLen + n ∧ RdOK r' ∧ r'.Live := by
  have h2 := bufioxDecNext_exact r t hok hl
  rw [defaultRecursionDepth_eq, refLen_le_refTpl 64 t _ n h] at h2
  exact h2

theorem bufioxDec_complete_live2 (r : Rd) (t : UInt8) (n : Nat) (hok : RdOK r) (hl : r.Live2)
    (h : refLen 64 t r.remaining = some n) :
    ∃ r', bufioxDecNext r t = .ok (r.remaining.take n, r') ∧ r'.remaining = r.remaining.drop n ∧
      r'.readLen = r.readLen + n ∧ RdOK r' ∧ r'.Live2 := by
  have h2 := bufioxDecNext_exact2 r t hok hl
  rw [defaultRecursionDepth_eq, refLen_le_refTpl 64 t _ n h] at h2
  exact h2

/-- TOTAL over ANY source: a value or an error — no panic (no slice out of range on the peeked
    window, no nil window), loops terminate -/
theorem bufioxDec_total (r : Rd) (t : UInt8) (hok : RdOK r) :
    (∃ x, bufioxDecNext r t = .ok x) ∨ (∃ e, bufioxDecNext r t = .err e) := by
  rcases bufioxDecNext_any r t hok with he | ⟨n, r1, _, hy, _⟩
  · exact Or.inr he
  · exact Or.inl ⟨_, hy⟩

/-- over ANY source: whatever is not a well-formed value within 65 levels is rejected with an error -/
theorem bufioxDec_rejects_malformed (r : Rd) (t : UInt8) (hok : RdOK r) (h : refLen 65 t r.remaining = none) :
    ∃ e, bufioxDecNext r t = .err e := by
  rcases bufioxDec_total r t hok with ⟨x, hx⟩ | he
  · obtain ⟨n, h1, _⟩ := bufioxDec_sound r x.2 t x.1 hok hx
    rw [h] at h1; cases h1
  · exact he

/-- bytes-backed reader, every byte string, every capacity, every type byte: total -/
theorem bufioxDec_bytes_total (b : Bytes) (cap : Nat) (t : UInt8) :
    (∃ x, bufioxDecNext (Rd.newBytes b cap) t = .ok x) ∨ (∃ e, bufioxDecNext (Rd.newBytes b cap) t = .err e) := by
  have h2 := bufioxDecNext_dry (Rd.newBytes b cap) t (newBytes_dry _ _)
  cases hb : refTpl Facts.defaultRecursionDepth t (Rd.newBytes b cap).remaining with
  | none => rw [hb] at h2; exact Or.inr h2
  | some n => rw [hb] at h2; obtain ⟨r', hx, _⟩ := h2; exact Or.inl ⟨_, hx⟩

/-- bytes-backed reader: sound and complete, no size hypothesis -/
theorem bufioxDec_bytes_sound (b : Bytes) (cap : Nat) (t : UInt8) (out : Bytes) (r' : Rd)
    (hcap : b.length ≤ cap) (hx : bufioxDecNext (Rd.newBytes b cap) t = .ok (out, r')) :
    ∃ n, refLen 65 t b = some n ∧ n ≤ b.length ∧ out = b.take n ∧ r'.remaining = b.drop n ∧
      r'.readLen = n := by
  have h2 := bufioxDecNext_dry (Rd.newBytes b cap) t (newBytes_dry _ _)
  obtain ⟨hr, hri⟩ := newBytes_remaining b cap hcap
  rw [hr, defaultRecursionDepth_eq] at h2
  cases hb : refTpl 64 t b with
  | none => rw [hb] at h2; obtain ⟨e, he⟩ := h2; rw [he] at hx; cases hx
  | some n =>
    rw [hb] at h2
    obtain ⟨r1, hy, hrem, hlen, _⟩ := h2
    rw [hy] at hx
    have hinj := Prod.mk.inj (Out.ok.inj hx)
    have h65 := refTpl_le_refLen 64 t b n hb
    refine ⟨n, h65, refLen_le h65, hinj.1.symm, by rw [← hinj.2]; exact hrem, ?_⟩
    rw [← hinj.2]; simpa [Rd.readLen, hri] using hlen

theorem bufioxDec_bytes_complete (b : Bytes) (cap : Nat) (t : UInt8) (n : Nat) (hcap : b.length ≤ cap)
    (h : refLen 64 t b = some n) :
    ∃ r', bufioxDecNext (Rd.newBytes b cap) t = .ok (b.take n, r') ∧ r'.remaining = b.drop n ∧
      r'.readLen = n := by
  have h2 := bufioxDecNext_dry (Rd.newBytes b cap) t (newBytes_dry _ _)
  obtain ⟨hr, hri⟩ := newBytes_remaining b cap hcap
  rw [hr, defaultRecursionDepth_eq, refLen_le_refTpl 64 t b n h] at h2
  obtain ⟨r', hx, hrem, hlen, _⟩ := h2
  exact ⟨r', hx, hrem, by simpa [Rd.readLen, hri] using hlen⟩

/-! ## ReaderSkipDecoder over a plain io.Reader (`Delivers`: Lemmas/SkipTplReader.lean) -/

/-- SOUND over EVERY source script — no hypothesis at all: success ⇒ the unread stream starts with a
    well-formed value within 65 levels, exactly it is returned, and the source has been read exactly
    that far (nothing beyond the value is consumed) -/
theorem readerDec_sound (src src' : Src) (t : UInt8) (out : Bytes)
    (hx : readerDecNext src t = .ok (out, src')) :
    ∃ n, refLen 65 t src.stream = some n ∧ n ≤ src.stream.length ∧ out = src.stream.take n ∧
      src'.stream = src.stream.drop n := by
  rcases readerDecNext_any src t with ⟨e, he⟩ | ⟨n, s1, hb, hy, hrem⟩
  · rw [he] at hx; cases hx
  · rw [hy] at hx
    have hinj := Prod.mk.inj (Out.ok.inj hx)
    rw [defaultRecursionDepth_eq] at hb
    have h65 := refTpl_le_refLen 64 t _ n hb
    exact ⟨n, h65, refLen_le h65, hinj.1.symm, by rw [← hinj.2]; exact hrem⟩

theorem readerDec_complete (src : Src) (t : UInt8) (n : Nat)
    (hd : Delivers src.script src.stream.length = true) (h : refLen 64 t src.stream = some n) :
    ∃ src', readerDecNext src t = .ok (src.stream.take n, src') ∧ src'.stream = src.stream.drop n ∧
      Delivers src'.script src'.stream.length = true := by
  have h2 := readerDecNext_exact src t hd
  rw [defaultRecursionDepth_eq, refLen_le_refTpl 64 t _ n h] at h2
  exact h2

/-- TOTAL over EVERY source script: a value or an error — no panic -/
theorem readerDec_total (src : Src) (t : UInt8) :
    (∃ x, readerDecNext src t = .ok x) ∨ (∃ e, readerDecNext src t = .err e) := by
  rcases readerDecNext_any src t with he | ⟨n, s1, _, hy, _⟩
  · exact Or.inr he
  · exact Or.inl ⟨_, hy⟩

/-- over EVERY source script: whatever is not a well-formed value within 65 levels is rejected -/
theorem readerDec_rejects_malformed (src : Src) (t : UInt8) (h : refLen 65 t src.stream = none) :
    ∃ e, readerDecNext src t = .err e := by
  rcases readerDec_total src t with ⟨x, hx⟩ | he
  · obtain ⟨n, h1, _⟩ := readerDec_sound src x.2 t x.1 hx
    rw [h] at h1; cases h1
  · exact he

/-! ## agreement of all five facilities -/

/-- On every well-formed value with nesting ≤ 64 (63 container levels around a leaf) followed by
    anything, all five skipping facilities — Binary.Skip, BytesSkipDecoder, BufferReader.Skip (bytes-
    backed and io.Reader-backed), SkipDecoder over bufiox (both), ReaderSkipDecoder — report the same
    extent `n` (= the grammar's), return the same bytes, and leave the same rest. -/
theorem three_agree (b : Bytes) (t : UInt8) (n cap : Nat) (script : List Resp)
    (hcap : b.length ≤ cap) (hsz : b.length ≤ sizeBound)
    (hst : Steady Facts.maxConsecutiveEmptyReads script b.length 0 = true)
    (h : refLen 64 t b = some n) :
    skipBin b t = .ok n ∧
    bytesDecNext ⟨b, 0⟩ t = .ok (b.take n, ⟨b.drop n, 0⟩) ∧
    (∃ r', skipBR t (Rd.newBytes b cap) = .ok ((), r') ∧ r'.remaining = b.drop n ∧ r'.readLen = n) ∧
    (∃ r', skipBR t (Rd.newDefault ⟨b, script⟩) = .ok ((), r') ∧ r'.remaining = b.drop n ∧ r'.readLen = n) ∧
    (∃ r', bufioxDecNext (Rd.newBytes b cap) t = .ok (b.take n, r') ∧ r'.remaining = b.drop n ∧ r'.readLen = n) ∧
    (∃ r', bufioxDecNext (Rd.newDefault ⟨b, script⟩) t = .ok (b.take n, r') ∧ r'.remaining = b.drop n ∧
      r'.readLen = n) ∧
    (∃ src', readerDecNext ⟨b, script⟩ t = .ok (b.take n, src') ∧ src'.stream = b.drop n) := by
  have hok := newDefault_ok b script hsz
  have hl := live_newDefault b script hst
  obtain ⟨hr, hri⟩ := newDefault_remaining b script
  refine ⟨skipBin_complete b t n h, bytesDec_complete b t n h, skipBR_bytes_complete b cap t n hcap h, ?_,
    bufioxDec_bytes_complete b cap t n hcap h, ?_, ?_⟩
  · obtain ⟨r', hx, hrem, hlen, _⟩ := skipBR_complete _ t n hok hl (by rw [hr]; exact h)
    exact ⟨r', hx, by rw [hrem, hr], by simpa [Rd.readLen, hri] using hlen⟩
  · obtain ⟨r', hx, hrem, hlen, _⟩ := bufioxDec_complete _ t n hok hl (by rw [hr]; exact h)
    exact ⟨r', by rw [hr] at hx; exact hx, by rw [hrem, hr], by simpa [Rd.readLen, hri] using hlen⟩
  · obtain ⟨s', hx, hrem, _⟩ := readerDec_complete ⟨b, script⟩ t n
      (Verif.steady_delivers _ script b.length 0 hst) h
    exact ⟨s', hx, hrem⟩

/-- … and whatever is not a well-formed value within 65 levels (container nesting ≥ 65 in particular)
    is rejected by all of them with an error — the stream facilities over EVERY source script -/
theorem all_reject_beyond_65 (b : Bytes) (t : UInt8) (cap : Nat) (script : List Resp)
    (hcap : b.length ≤ cap) (hsz : b.length ≤ sizeBound) (h : refLen 65 t b = none) :
    (∃ e, skipBin b t = .err e) ∧ (∃ e, bytesDecNext ⟨b, 0⟩ t = .err e) ∧
    (∃ e, skipBR t (Rd.newBytes b cap) = .err e) ∧ (∃ e, skipBR t (Rd.newDefault ⟨b, script⟩) = .err e) ∧
    (∃ e, bufioxDecNext (Rd.newBytes b cap) t = .err e) ∧
    (∃ e, bufioxDecNext (Rd.newDefault ⟨b, script⟩) t = .err e) ∧
    (∃ e, readerDecNext ⟨b, script⟩ t = .err e) := by
  have hok := newDefault_ok b script hsz
  obtain ⟨hr, _⟩ := newDefault_remaining b script
  refine ⟨skipBin_rejects_deep b t h, ?_, ?_, ?_, ?_, ?_, ?_⟩
  · rcases bytesDec_total b t with ⟨x, hx⟩ | he
    · obtain ⟨n, h1, _⟩ := bytesDec_sound b t x.1 x.2 hx; rw [h] at h1; cases h1
    · exact he
  · rcases skipBR_bytes_total b cap t with ⟨r', hx⟩ | he
    · obtain ⟨n, h1, _⟩ := skipBR_bytes_sound b cap t r' hcap hx; rw [h] at h1; cases h1
    · exact he
  · exact skipBR_rejects_malformed _ t hok (by rw [hr]; exact h)
  · rcases bufioxDec_bytes_total b cap t with ⟨x, hx⟩ | he
    · obtain ⟨n, h1, _⟩ := bufioxDec_bytes_sound b cap t x.1 x.2 hcap hx; rw [h] at h1; cases h1
    · exact he
  · exact bufioxDec_rejects_malformed _ t hok (by rw [hr]; exact h)
  · exact readerDec_rejects_malformed ⟨b, script⟩ t h

/-- non-vacuity: list<string>["A", ""] followed by garbage, bytes-backed and through a script that
    delivers one byte per read with the last byte together with io.EOF -/
example : ∃ r', skipBR TT.LIST (Rd.newBytes [11, 0,0,0,2, 0,0,0,1, 65, 0,0,0,0, 0xEE] 15) = .ok ((), r') ∧
    r'.remaining = [0xEE] ∧ r'.readLen = 14 :=
  skipBR_bytes_complete _ 15 TT.LIST 14 (by decide) (by decide)

example : Steady Facts.maxConsecutiveEmptyReads
    (List.replicate 14 ⟨1, none⟩ ++ [⟨1, some .eof⟩]) 15 0 = true := by decide

example : (skipBin [11, 0,0,0,2, 0,0,0,1, 65, 0,0,0,0, 0xEE] TT.LIST = .ok 14) ∧
    (∃ src', readerDecNext ⟨[11, 0,0,0,2, 0,0,0,1, 65, 0,0,0,0, 0xEE],
        List.replicate 14 ⟨1, none⟩ ++ [⟨1, some .eof⟩]⟩ TT.LIST
      = .ok ([11, 0,0,0,2, 0,0,0,1, 65, 0,0,0,0], src') ∧ src'.stream = [0xEE]) := by
  have h := three_agree [11, 0,0,0,2, 0,0,0,1, 65, 0,0,0,0, 0xEE] TT.LIST 14 15
    (List.replicate 14 ⟨1, none⟩ ++ [⟨1, some .eof⟩]) (by decide) (by decide) (by decide) (by decide)
  exact ⟨h.1, h.2.2.2.2.2.2⟩

/-- a truncated stream (the source ends inside the value) is rejected by the stream skipper -/
example : ∃ e, skipBR TT.LIST (Rd.newBytes [11, 0,0,0,2, 0,0,0,1, 65, 0,0] 12) = .err e := by
  rcases skipBR_bytes_total [11, 0,0,0,2, 0,0,0,1, 65, 0,0] 12 TT.LIST with ⟨r', hx⟩ | he
  · obtain ⟨n, h1, _⟩ := skipBR_bytes_sound _ 12 TT.LIST r' (by decide) hx
    have : refLen 65 TT.LIST [11, 0,0,0,2, 0,0,0,1, 65, 0,0] = none := by decide
    rw [this] at h1; cases h1
  · exact he

/-! ## named rejections, for every facility (compositions of `_sound`/`_total` with the grammar facts
    `refLen_strict_prefix`, `refLen_neg_*`, `refLen_unknown_type`)

  BytesSkipDecoder on a slice `b`; BufferReader.Skip and SkipDecoder-over-bufiox on a reader in any
  good state over ANY source, in terms of what it still owes (`remaining`); ReaderSkipDecoder over EVERY
  source script, in terms of the unread stream. -/

theorem bytesDec_rejects_malformed (b : Bytes) (t : UInt8) (h : refLen 65 t b = none) :
    ∃ e, bytesDecNext ⟨b, 0⟩ t = .err e := by
  rcases bytesDec_total b t with ⟨x, hx⟩ | he
  · obtain ⟨n, h1, _⟩ := bytesDec_sound b t x.1 x.2 hx; rw [h] at h1; cases h1
  · exact he

theorem bytesDec_rejects_strict_prefix (b : Bytes) (t : UInt8) (d n m : Nat) (h : refLen d t b = some n)
    (hm : m < n) : ∃ e, bytesDecNext ⟨b.take m, 0⟩ t = .err e :=
  bytesDec_rejects_malformed _ t (refLen_strict_prefix h m hm 65)
theorem bytesDec_rejects_negative_size_string (b : Bytes) (h : ¬ rd32 b < 2147483648) :
    ∃ e, bytesDecNext ⟨b, 0⟩ TT.STRING = .err e := bytesDec_rejects_malformed _ _ (refLen_neg_string 65 b h)
theorem bytesDec_rejects_negative_size_list (t et : UInt8) (rest : Bytes) (ht : t = TT.LIST ∨ t = TT.SET)
    (h : ¬ rd32 rest < 2147483648) : ∃ e, bytesDecNext ⟨et :: rest, 0⟩ t = .err e :=
  bytesDec_rejects_malformed _ _ (refLen_neg_list 65 t et rest ht h)
theorem bytesDec_rejects_negative_size_map (kt vt : UInt8) (rest : Bytes) (h : ¬ rd32 rest < 2147483648) :
    ∃ e, bytesDecNext ⟨kt :: vt :: rest, 0⟩ TT.MAP = .err e :=
  bytesDec_rejects_malformed _ _ (refLen_neg_map 65 kt vt rest h)
theorem bytesDec_rejects_unknown_tag (b : Bytes) (t : UInt8)
    (ht : fixedSize t = 0 ∧ t ≠ TT.STRING ∧ t ≠ TT.STRUCT ∧ t ≠ TT.MAP ∧ t ≠ TT.SET ∧ t ≠ TT.LIST) :
    ∃ e, bytesDecNext ⟨b, 0⟩ t = .err e := bytesDec_rejects_malformed _ _ (refLen_unknown_type 65 t b ht)
theorem bytesDec_rejects_deep (b : Bytes) (t : UInt8) (h : refLen 65 t b = none) :
    ∃ e, bytesDecNext ⟨b, 0⟩ t = .err e := bytesDec_rejects_malformed b t h

theorem skipBR_rejects_negative_size_string (r : Rd) (hok : RdOK r) (h : ¬ rd32 r.remaining < 2147483648) :
    ∃ e, skipBR TT.STRING r = .err e := skipBR_rejects_malformed r _ hok (refLen_neg_string 65 _ h)
theorem skipBR_rejects_negative_size_list (r : Rd) (t et : UInt8) (rest : Bytes) (hok : RdOK r)
    (hrem : r.remaining = et :: rest) (ht : t = TT.LIST ∨ t = TT.SET) (h : ¬ rd32 rest < 2147483648) :
    ∃ e, skipBR t r = .err e :=
  skipBR_rejects_malformed r t hok (by rw [hrem]; exact refLen_neg_list 65 t et rest ht h)
theorem skipBR_rejects_negative_size_map (r : Rd) (kt vt : UInt8) (rest : Bytes) (hok : RdOK r)
    (hrem : r.remaining = kt :: vt :: rest) (h : ¬ rd32 rest < 2147483648) :
    ∃ e, skipBR TT.MAP r = .err e :=
  skipBR_rejects_malformed r _ hok (by rw [hrem]; exact refLen_neg_map 65 kt vt rest h)
theorem skipBR_rejects_unknown_tag (r : Rd) (t : UInt8) (hok : RdOK r)
    (ht : fixedSize t = 0 ∧ t ≠ TT.STRING ∧ t ≠ TT.STRUCT ∧ t ≠ TT.MAP ∧ t ≠ TT.SET ∧ t ≠ TT.LIST) :
    ∃ e, skipBR t r = .err e := skipBR_rejects_malformed r t hok (refLen_unknown_type 65 t _ ht)
theorem skipBR_rejects_deep (r : Rd) (t : UInt8) (hok : RdOK r) (h : refLen 65 t r.remaining = none) :
    ∃ e, skipBR t r = .err e := skipBR_rejects_malformed r t hok h

theorem bufioxDec_rejects_strict_prefix (r : Rd) (b : Bytes) (t : UInt8) (d n m : Nat) (hok : RdOK r)
    (h : refLen d t b = some n) (hm : m < n) (hrem : r.remaining = b.take m) :
    ∃ e, bufioxDecNext r t = .err e :=
  bufioxDec_rejects_malformed r t hok (by rw [hrem]; exact refLen_strict_prefix h m hm 65)
theorem bufioxDec_rejects_negative_size_string (r : Rd) (hok : RdOK r) (h : ¬ rd32 r.remaining < 2147483648) :
    ∃ e, bufioxDecNext r TT.STRING = .err e := bufioxDec_rejects_malformed r _ hok (refLen_neg_string 65 _ h)
theorem bufioxDec_rejects_negative_size_list (r : Rd) (t et : UInt8) (rest : Bytes) (hok : RdOK r)
    (hrem : r.remaining = et :: rest) (ht : t = TT.LIST ∨ t = TT.SET) (h : ¬ rd32 rest < 2147483648) :
    ∃ e, bufioxDecNext r t = .err e :=
  bufioxDec_rejects_malformed r t hok (by rw [hrem]; exact refLen_neg_list 65 t et rest ht h)
theorem bufioxDec_rejects_negative_size_map (r : Rd) (kt vt : UInt8) (rest : Bytes) (hok : RdOK r)
    (hrem : r.remaining = kt :: vt :: rest) (h : ¬ rd32 rest < 2147483648) :
    ∃ e, bufioxDecNext r TT.MAP = .err e :=
  bufioxDec_rejects_malformed r _ hok (by rw [hrem]; exact refLen_neg_map 65 kt vt rest h)
theorem bufioxDec_rejects_unknown_tag (r : Rd) (t : UInt8) (hok : RdOK r)
    (ht : fixedSize t = 0 ∧ t ≠ TT.STRING ∧ t ≠ TT.STRUCT ∧ t ≠ TT.MAP ∧ t ≠ TT.SET ∧ t ≠ TT.LIST) :
    ∃ e, bufioxDecNext r t = .err e := bufioxDec_rejects_malformed r t hok (refLen_unknown_type 65 t _ ht)
theorem bufioxDec_rejects_deep (r : Rd) (t : UInt8) (hok : RdOK r) (h : refLen 65 t r.remaining = none) :
    ∃ e, bufioxDecNext r t = .err e := bufioxDec_rejects_malformed r t hok h

theorem readerDec_rejects_strict_prefix (b : Bytes) (script : List Resp) (t : UInt8) (d n m : Nat)
    (h : refLen d t b = some n) (hm : m < n) : ∃ e, readerDecNext ⟨b.take m, script⟩ t = .err e :=
  readerDec_rejects_malformed _ t (refLen_strict_prefix h m hm 65)
theorem readerDec_rejects_negative_size_string (src : Src) (h : ¬ rd32 src.stream < 2147483648) :
    ∃ e, readerDecNext src TT.STRING = .err e := readerDec_rejects_malformed src _ (refLen_neg_string 65 _ h)
theorem readerDec_rejects_negative_size_list (t et : UInt8) (rest : Bytes) (script : List Resp)
    (ht : t = TT.LIST ∨ t = TT.SET) (h : ¬ rd32 rest < 2147483648) :
    ∃ e, readerDecNext ⟨et :: rest, script⟩ t = .err e :=
  readerDec_rejects_malformed _ t (refLen_neg_list 65 t et rest ht h)
theorem readerDec_rejects_negative_size_map (kt vt : UInt8) (rest : Bytes) (script : List Resp)
    (h : ¬ rd32 rest < 2147483648) : ∃ e, readerDecNext ⟨kt :: vt :: rest, script⟩ TT.MAP = .err e :=
  readerDec_rejects_malformed _ _ (refLen_neg_map 65 kt vt rest h)
theorem readerDec_rejects_unknown_tag (src : Src) (t : UInt8)
    (ht : fixedSize t = 0 ∧ t ≠ TT.STRING ∧ t ≠ TT.STRUCT ∧ t ≠ TT.MAP ∧ t ≠ TT.SET ∧ t ≠ TT.LIST) :
    ∃ e, readerDecNext src t = .err e := readerDec_rejects_malformed src t (refLen_unknown_type 65 t _ ht)
theorem readerDec_rejects_deep (src : Src) (t : UInt8) (h : refLen 65 t src.stream = none) :
    ∃ e, readerDecNext src t = .err e := readerDec_rejects_malformed src t h

/-! ### non-vacuity at the recursion limit: `k` nested one-element lists around a list<byte>[7] -/

/-- the body of a LIST value of nesting `k + 2` (k+1 containers around a leaf) -/
def deepList : Nat → Bytes
  | 0 => [3, 0,0,0,1, 7]
  | k+1 => [15, 0,0,0,1] ++ deepList k

/-- nesting 64 (63 containers around the leaf): within the claimed range … -/
example : refLen 64 TT.LIST (deepList 62) = some 316 := by decide +kernel
/-- … nesting 66: not a value within 65 levels -/
example : refLen 65 TT.LIST (deepList 64) = none := by decide +kernel

/-- nesting 64 is accepted by all facilities with the same extent (one-byte reads, last byte with io.EOF) -/
example :
    skipBin (deepList 62) TT.LIST = .ok 316 ∧
    (∃ r', skipBR TT.LIST (Rd.newDefault ⟨deepList 62, List.replicate 315 ⟨1, none⟩ ++ [⟨1, some .eof⟩]⟩)
      = .ok ((), r') ∧ r'.readLen = 316) ∧
    (∃ r', bufioxDecNext (Rd.newBytes (deepList 62) 316) TT.LIST = .ok (deepList 62, r')) ∧
    (∃ s', readerDecNext ⟨deepList 62, List.replicate 315 ⟨1, none⟩ ++ [⟨1, some .eof⟩]⟩ TT.LIST
      = .ok (deepList 62, s')) := by
  have h := three_agree (deepList 62) TT.LIST 316 316 (List.replicate 315 ⟨1, none⟩ ++ [⟨1, some .eof⟩])
    (by decide +kernel) (by decide +kernel) (by decide +kernel) (by decide +kernel)
  obtain ⟨h1, _, _, ⟨r2, h2, _, h2'⟩, ⟨r3, h3, _⟩, _, ⟨s4, h4, _⟩⟩ := h
  have ht : List.take 316 (deepList 62) = deepList 62 := by decide +kernel
  rw [ht] at h3 h4
  exact ⟨h1, ⟨r2, h2, h2'⟩, ⟨r3, h3⟩, ⟨s4, h4⟩⟩

/-- nesting 66 is rejected by all facilities — the stream ones over every script -/
example (script : List Resp) :
    (∃ e, skipBin (deepList 64) TT.LIST = .err e) ∧ (∃ e, bytesDecNext ⟨deepList 64, 0⟩ TT.LIST = .err e) ∧
    (∃ e, skipBR TT.LIST (Rd.newBytes (deepList 64) 400) = .err e) ∧
    (∃ e, skipBR TT.LIST (Rd.newDefault ⟨deepList 64, script⟩) = .err e) ∧
    (∃ e, bufioxDecNext (Rd.newBytes (deepList 64) 400) TT.LIST = .err e) ∧
    (∃ e, bufioxDecNext (Rd.newDefault ⟨deepList 64, script⟩) TT.LIST = .err e) ∧
    (∃ e, readerDecNext ⟨deepList 64, script⟩ TT.LIST = .err e) :=
  all_reject_beyond_65 (deepList 64) TT.LIST 400 script (by decide +kernel) (by decide +kernel) (by decide +kernel)

end Verif.C08

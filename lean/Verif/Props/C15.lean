/-
  Props/C15 — No-copy write path produces the same stream as the copying path.
  (property theorems only)

  `splice lin ds` (Spec/FastCodec.lean) is the direct writer's contract: piece i goes to offset
  `lin.length − remainCap_i` of the linear buffer. All theorems hold for EVERY threshold (the value
  the code uses, `Facts.nocopyWriteThreshold`, is one instance) and for every buffer that is at least
  as long as the encoding (callers allocate BLength bytes).
-/
import Verif.Lemmas.FcNocopy
namespace Verif.C15

/-! ## any sequence of fixed bytes and strings (any number of large fields in one buffer) -/

/-- what one no-copy write of a realised segment list into `b` guarantees: the spliced stream is the
    copying encoding; every piece fits its remainCap; linear + direct bytes = the copying length -/
theorem segs_nocopy_eq_copy (thr : Nat) (w : Bool) (f : WStep) (sg : List Seg) (h : Realises thr w f sg)
    (b : Bytes) (hb : (encSegs sg).length ≤ b.length) :
    ∃ ws n, f (⟨b, []⟩, 0) = .ok (ws, n) ∧
      (splice ws.buf ws.ds).take (encSegs sg).length = encSegs sg ∧
      (∀ d ∈ ws.ds, d.1.length ≤ d.2) ∧
      n + (ws.ds.map (·.1.length)).sum = (encSegs sg).length :=
  let ⟨ws, n, h1, h2, h3, h4, _⟩ := (write_facts thr w f sg h b hb).ok
  ⟨ws, n, h1, h2, h3, h4⟩

/-! ## Base / BaseResp: any strings, any map entries in any order, nil receiver -/

/-- the no-copy path of (*Base).FastWriteNocopy with a direct writer attached, spliced, is exactly the
    stream of the copying path (which is the encoding): for every threshold and iteration order -/
theorem nocopy_eq_copy_base (thr : Nat) (p : Option Base) (it : SMap) (b : Bytes)
    (hb : (encBase p it).length ≤ b.length) :
    ∃ ws n wc, fastWriteNocopyBase thr true p it b = .ok (ws, n) ∧
      fastWriteNocopyBase thr false p it b = .ok (wc, (encBase p it).length) ∧ wc.ds = [] ∧
      (splice ws.buf ws.ds).take (encBase p it).length = wc.buf.take (encBase p it).length ∧
      wc.buf.take (encBase p it).length = encBase p it := by
  obtain ⟨f, hr, hf⟩ := writeBase_realised thr true p it
  obtain ⟨g, hgr, hg⟩ := writeBase_realised thr false p it
  rw [← encSegs_baseO] at hb ⊢
  obtain ⟨ws, n, h1, h2, _, _, _⟩ := (write_facts thr true f _ hr b hb).ok
  have hc := write_copy thr g _ hgr b hb
  refine ⟨ws, n, _, by rw [hf b]; exact h1, by rw [hg b]; exact hc, rfl, ?_, ?_⟩
  · rw [h2]; simp
  · simp

theorem nocopy_eq_copy_baseresp (thr : Nat) (p : Option BaseResp) (it : SMap) (b : Bytes)
    (hb : (encBaseResp p it).length ≤ b.length) :
    ∃ ws n wc, fastWriteNocopyBaseResp thr true p it b = .ok (ws, n) ∧
      fastWriteNocopyBaseResp thr false p it b = .ok (wc, (encBaseResp p it).length) ∧ wc.ds = [] ∧
      (splice ws.buf ws.ds).take (encBaseResp p it).length = wc.buf.take (encBaseResp p it).length ∧
      wc.buf.take (encBaseResp p it).length = encBaseResp p it := by
  obtain ⟨f, hr, hf⟩ := writeResp_realised thr true p it
  obtain ⟨g, hgr, hg⟩ := writeResp_realised thr false p it
  rw [← encSegs_respO] at hb ⊢
  obtain ⟨ws, n, h1, h2, _, _, _⟩ := (write_facts thr true f _ hr b hb).ok
  have hc := write_copy thr g _ hgr b hb
  refine ⟨ws, n, _, by rw [hf b]; exact h1, by rw [hg b]; exact hc, rfl, ?_, ?_⟩
  · rw [h2]; simp
  · simp

/-- buffer of exactly BLength bytes (what netpoll's Malloc(BLength) hands out): the spliced stream IS
    the copying path's buffer -/
theorem nocopy_eq_copy_base_exact (thr : Nat) (p : Option Base) (it : SMap) (b : Bytes)
    (hb : b.length = (encBase p it).length) :
    ∃ ws n wc, fastWriteNocopyBase thr true p it b = .ok (ws, n) ∧
      fastWriteNocopyBase thr false p it b = .ok (wc, b.length) ∧ splice ws.buf ws.ds = wc.buf := by
  obtain ⟨f, hr, hf⟩ := writeBase_realised thr true p it
  obtain ⟨g, hgr, hg⟩ := writeBase_realised thr false p it
  rw [← encSegs_baseO] at hb
  obtain ⟨ws, n, h1, h2, _, _, h5⟩ := (write_facts thr true f _ hr b (by omega)).ok
  have hc := write_copy thr g _ hgr b (by omega)
  refine ⟨ws, n, _, by rw [hf b]; exact h1, by rw [hg b, hb]; exact hc, ?_⟩
  have hsl : (splice ws.buf ws.ds).length ≤ (encSegs (segsBaseO p it)).length := by
    unfold splice; rw [List.length_take, h5, hb]; exact Nat.min_le_left _ _
  rw [List.take_of_length_le hsl] at h2
  rw [h2, List.drop_of_length_le (by omega)]; simp

/-- the direct writer is never handed less room than the piece needs -/
theorem remainCap_ge_base (thr : Nat) (p : Option Base) (it : SMap) (b : Bytes) (ws : WS) (n : Nat)
    (hb : (encBase p it).length ≤ b.length) (h : fastWriteNocopyBase thr true p it b = .ok (ws, n)) :
    ∀ d ∈ ws.ds, d.1.length ≤ d.2 := by
  obtain ⟨f, hr, hf⟩ := writeBase_realised thr true p it
  rw [← encSegs_baseO] at hb
  obtain ⟨ws', n', h1, _, h3, _, _⟩ := (write_facts thr true f _ hr b hb).ok
  rw [hf b, h1] at h
  cases h; exact h3

theorem remainCap_ge_baseresp (thr : Nat) (p : Option BaseResp) (it : SMap) (b : Bytes) (ws : WS) (n : Nat)
    (hb : (encBaseResp p it).length ≤ b.length) (h : fastWriteNocopyBaseResp thr true p it b = .ok (ws, n)) :
    ∀ d ∈ ws.ds, d.1.length ≤ d.2 := by
  obtain ⟨f, hr, hf⟩ := writeResp_realised thr true p it
  rw [← encSegs_respO] at hb
  obtain ⟨ws', n', h1, _, h3, _, _⟩ := (write_facts thr true f _ hr b hb).ok
  rw [hf b, h1] at h
  cases h; exact h3

/-- returned (linear) length + directly written bytes = the copying length = BLength -/
theorem length_nocopy_eq_base (thr : Nat) (p : Option Base) (it1 it : SMap) (b : Bytes) (ws : WS) (n : Nat)
    (h1 : ∀ q, p = some q → IterOf q.extra it1) (h2 : ∀ q, p = some q → IterOf q.extra it)
    (hb : (encBase p it).length ≤ b.length) (h : fastWriteNocopyBase thr true p it b = .ok (ws, n)) :
    n + (ws.ds.map (·.1.length)).sum = bLengthBase p it1 := by
  obtain ⟨f, hr, hf⟩ := writeBase_realised thr true p it
  rw [bLengthBase_eq p it1 it h1 h2, ← encSegs_baseO] at *
  obtain ⟨ws', n', h1', _, _, h4, _⟩ := (write_facts thr true f _ hr b hb).ok
  rw [hf b, h1'] at h
  cases h; exact h4

theorem length_nocopy_eq_baseresp (thr : Nat) (p : Option BaseResp) (it1 it : SMap) (b : Bytes) (ws : WS) (n : Nat)
    (h1 : ∀ q, p = some q → IterOf q.extra it1) (h2 : ∀ q, p = some q → IterOf q.extra it)
    (hb : (encBaseResp p it).length ≤ b.length) (h : fastWriteNocopyBaseResp thr true p it b = .ok (ws, n)) :
    n + (ws.ds.map (·.1.length)).sum = bLengthBaseResp p it1 := by
  obtain ⟨f, hr, hf⟩ := writeResp_realised thr true p it
  rw [bLengthBaseResp_eq p it1 it h1 h2, ← encSegs_respO] at *
  obtain ⟨ws', n', h1', _, _, h4, _⟩ := (write_facts thr true f _ hr b hb).ok
  rw [hf b, h1'] at h
  cases h; exact h4

/-- the advertised no-copy lengths equal the copying lengths (StringLengthNocopy / BinaryLengthNocopy) -/
theorem length_nocopy_eq (v : Bytes) : stringLengthNocopy v = stringLength v ∧ stringLength v = (encStr v).length := by
  simp [stringLengthNocopy, stringLength]

/-! ## without a direct writer, and below the threshold, the two paths are the same code path -/

/-- `WriteStringNocopy(buf, nil, v)` = `WriteString(buf, v)` on every buffer (short ones included) -/
theorem nocopy_nil_eq (thr : Nat) (s : WS) (off : Nat) (v : Bytes) :
    writeStringNocopy thr false s off v = writeString s off v := by
  unfold writeStringNocopy
  by_cases h : off > s.buf.length
  · simp [h, writeString]
  · simp [h]

/-- with a writer but below the threshold, too -/
theorem nocopy_small_eq (thr : Nat) (s : WS) (off : Nat) (v : Bytes) (h : v.length < thr) :
    writeStringNocopy thr true s off v = writeString s off v := by
  unfold writeStringNocopy
  by_cases h' : off > s.buf.length
  · simp [h', writeString]
  · simp [h', h]

/-- at or above the threshold with a writer: 4 linear bytes, the whole value goes to the direct writer
    with remainCap = the room behind the length prefix -/
theorem nocopy_large (thr : Nat) (P T : Bytes) (ds : Directs) (v : Bytes) (h : thr ≤ v.length) (hT : 4 ≤ T.length) :
    writeStringNocopy thr true ⟨P ++ T, ds⟩ P.length v
      = .ok (⟨P ++ be32 v.length ++ T.drop 4, ds ++ [(v, T.length - 4)]⟩, 4) := by
  unfold writeStringNocopy
  rw [if_neg (by simp), if_neg (by simp; omega), put32_app P T _ _ rfl hT]
  simp only [Out.bind_eq, Out.bind_ok, Out.pure_eq]
  congr 3
  simp

/-- struct level, nil writer: byte for byte the encoding, nothing handed to a direct writer, whatever
    the threshold -/
theorem nocopy_nil_eq_base (thr : Nat) (p : Option Base) (it : SMap) (b : Bytes)
    (hb : (encBase p it).length ≤ b.length) :
    fastWriteNocopyBase thr false p it b
      = .ok (⟨encBase p it ++ b.drop (encBase p it).length, []⟩, (encBase p it).length) := by
  obtain ⟨g, hgr, hg⟩ := writeBase_realised thr false p it
  rw [hg b, ← encSegs_baseO]
  exact write_copy thr g _ hgr b (by rw [encSegs_baseO]; exact hb)

theorem nocopy_nil_eq_baseresp (thr : Nat) (p : Option BaseResp) (it : SMap) (b : Bytes)
    (hb : (encBaseResp p it).length ≤ b.length) :
    fastWriteNocopyBaseResp thr false p it b
      = .ok (⟨encBaseResp p it ++ b.drop (encBaseResp p it).length, []⟩, (encBaseResp p it).length) := by
  obtain ⟨g, hgr, hg⟩ := writeResp_realised thr false p it
  rw [hg b, ← encSegs_respO]
  exact write_copy thr g _ hgr b (by rw [encSegs_respO]; exact hb)

/-! ## non-vacuity: two large strings and a large map value in one buffer, threshold 2 -/

example :
    (match fastWriteNocopyBase 2 true (some ⟨[1, 2, 3], [4], [5, 6], some [([7], [8, 9, 10])]⟩) [([7], [8, 9, 10])]
        (List.replicate 49 0xa5) with
     | .ok (ws, n) => ws.ds.length == 3 && n == 41 &&
         splice ws.buf ws.ds == encBase (some ⟨[1, 2, 3], [4], [5, 6], some [([7], [8, 9, 10])]⟩) [([7], [8, 9, 10])]
     | _ => false) = true := by decide +kernel

end Verif.C15

/-
  Props/C04: the buffered reader (bufiox.DefaultReader / BytesReader, model in Model/Reader) delivers
  the source bytes exactly, in order.

  Spec: Spec/Cursor (`Cur.step`, `errAllowed`, `liveOk`, `Cur.judge` — the driver's verdict is
  `Cur.judge` on the implementation's report; the theorems here say the MODEL passes `Cur.judge`
  on every step of every history).

  Domain: allocation succeeds.  mcache.Malloc has 46 size classes: a capacity request above 2^45
  panics with index out of range (audit witness on the unchanged tree: `Next(1<<46)` → `PANIC index`,
  the model answers `err eof`), and `Next(1<<62+1)` never returns (`maxSize *= 2` wraps).  The model
  has neither branch, so every theorem below carries `Rd.InDomain r n : n + ri ≤ 2^43` per request, or
  `|S| ≤ 2^42 ∧ n ≤ 2^42` per history (bytes reader: `cap ≤ 2^45`); `alloc_in_range` shows that inside
  this domain the model never computes a capacity above 2^45, i.e. the missing panic branch is
  unreachable there.  Exceptions (no size hypothesis at all): `never_nofuel`, `negative_count`,
  `err_sticky`.  (The lemma layer proves the same statements for the model up to 2^63 — `Rd.Small`,
  the range of the model's fuel-64 doubling loops; that wider range says nothing about the Go code.)
-/
import Verif.Lemmas.ReaderAll
import Verif.Lemmas.ReaderAlloc
namespace Verif.C04
open Verif

/-! ## whole histories -/

/-- REFINEMENT, io.Reader-backed reader.  For every stream `S`, every source script, every list of
    operations (sizes up to 2^42): every report of the model is accepted by the complete judgement —
    the cursor contract (`Cur.step`: exact bytes, exact advance, Peek does not move, failures carry
    a non-nil error and consume nothing, ReadBinary m ≤ n / m < n only with an error, ReadLen =
    consumed since Release; Release(e) for any e), error provenance (`errAllowed`), timeliness
    (`timely`: a failure only when the data has really run out — nothing already served is missing,
    and the source's own error only after every productive entry before it handed over ≥ 1 byte), and liveness (`liveOk`: the request is
    served in full) wherever the source's `Credit` demands it: always when the script is `Steady`,
    or `SteadyChunks` (arbitrary chunk sizes, final data together with the error, stream ≤ defaultBufSize);
    and for *plain* scripts (every entry error-free with k ≥ K ≥ 1, any chunk sizes) whenever the
    unread entries are still good for the request (`Credit.must`, `Credit.after`). -/
theorem refines_default (S : Bytes) (script : List Resp) (ops : List ROp)
    (hS : S.length ≤ 4398046511104) (hops : ∀ op ∈ ops, op.size ≤ 4398046511104) :
    ∃ p, (Cur.init S).judgeRun Facts.maxConsecutiveEmptyReads script
            (Credit.init (Steady Facts.maxConsecutiveEmptyReads script S.length 0 ||
                          SteadyChunks Facts.defaultBufSize script S.length) script)
            ((Rd.newDefault ⟨S, script⟩).trace ops).1 = .ok p := by
  have hS : _ ≤ 4611686018427387904 := Nat.le_trans hS (by decide)
  have hops : ∀ op ∈ ops, op.size ≤ 4611686018427387904 := fun op h => Nat.le_trans (hops op h) (by decide)
  have hsim : Sim script (Credit.init (Steady Facts.maxConsecutiveEmptyReads script S.length 0 ||
        SteadyChunks Facts.defaultBufSize script S.length) script)
      (Cur.init S) (Rd.newDefault ⟨S, script⟩) :=
    ⟨abs_init_default S script, prov_newDefault S script,
     creditInv_init_default S script _ (fun h => by
       rcases Bool.or_eq_true_iff.mp h with h | h
       · exact Or.inl (live_newDefault S script h)
       · exact live2_newDefault_chunks S script h),
     by simp [Credit.init, Cur.init, Rd.newDefault]; split <;> simp, tinv_newDefault S script⟩
  obtain ⟨c', cr', h, _⟩ := trace_judge script _ _ _ ops hsim hS hops
  exact ⟨(c', cr'), h⟩

/-- REFINEMENT, bytes-backed reader (`NewBytesReader(buf)`, `len(buf) = data.length`, `cap(buf) = cap`):
    the same, with the source's own error = io.EOF and liveness unconditionally. -/
theorem refines_bytes (data : Bytes) (cap : Nat) (ops : List ROp)
    (hcap : data.length ≤ cap) (hcap2 : cap ≤ 35184372088832)
    (hS : data.length ≤ 4398046511104) (hops : ∀ op ∈ ops, op.size ≤ 4398046511104) :
    ∃ p, (Cur.init data).judgeRun Facts.maxConsecutiveEmptyReads [] (Credit.init true [])
            ((Rd.newBytes data cap).trace ops).1 = .ok p := by
  have hS : _ ≤ 4611686018427387904 := Nat.le_trans hS (by decide)
  have hops : ∀ op ∈ ops, op.size ≤ 4611686018427387904 := fun op h => Nat.le_trans (hops op h) (by decide)
  have hcap2 : cap ≤ 18446744073709551616 := Nat.le_trans hcap2 (by decide)
  have hsim : Sim [] (Credit.init true []) (Cur.init data) (Rd.newBytes data cap) :=
    ⟨abs_init_bytes data cap hcap hcap2, prov_newBytes data cap, creditInv_init_bytes data cap,
     by
       have : (Rd.newBytes data cap).src.stream = [] := by unfold Rd.newBytes; split <;> rfl
       rw [this]; simp [Credit.init],
     tinv_newBytes data cap⟩
  obtain ⟨c', cr', h, _⟩ := trace_judge [] _ _ _ ops hsim hS hops
  exact ⟨(c', cr'), h⟩

/-- NO LOSS, NO DUPLICATION, NO REORDERING: after any history the contract's cursor `pos` (the
    number of bytes delivered: Next + Skip + ReadBinary) splits the source stream exactly into
    delivered ++ what the reader still owes (buffered-unread ++ unread source); `Inv` holds and
    ReadLen is the distance to the last Release. -/
theorem delivered_remaining (S : Bytes) (script : List Resp) (ops : List ROp)
    (hS : S.length ≤ 4398046511104) (hops : ∀ op ∈ ops, op.size ≤ 4398046511104) :
    ∃ c', (Cur.init S).run ((Rd.newDefault ⟨S, script⟩).trace ops).1 = .ok c' ∧
      S = S.take c'.pos ++ ((Rd.newDefault ⟨S, script⟩).trace ops).2.remaining ∧
      Inv ((Rd.newDefault ⟨S, script⟩).trace ops).2 ∧
      ((Rd.newDefault ⟨S, script⟩).trace ops).2.readLen = c'.pos - c'.mark := by
  have hS : _ ≤ 4611686018427387904 := Nat.le_trans hS (by decide)
  have hops : ∀ op ∈ ops, op.size ≤ 4611686018427387904 := fun op h => Nat.le_trans (hops op h) (by decide)
  exact trace_delivered (Cur.init S) _ ops (abs_init_default S script) hS hops

/-- the same for the bytes-backed reader -/
theorem delivered_remaining_bytes (data : Bytes) (cap : Nat) (ops : List ROp)
    (hcap : data.length ≤ cap) (hcap2 : cap ≤ 35184372088832)
    (hS : data.length ≤ 4398046511104) (hops : ∀ op ∈ ops, op.size ≤ 4398046511104) :
    ∃ c', (Cur.init data).run ((Rd.newBytes data cap).trace ops).1 = .ok c' ∧
      data = data.take c'.pos ++ ((Rd.newBytes data cap).trace ops).2.remaining ∧
      Inv ((Rd.newBytes data cap).trace ops).2 ∧
      ((Rd.newBytes data cap).trace ops).2.readLen = c'.pos - c'.mark := by
  have hS : _ ≤ 4611686018427387904 := Nat.le_trans hS (by decide)
  have hops : ∀ op ∈ ops, op.size ≤ 4611686018427387904 := fun op h => Nat.le_trans (hops op h) (by decide)
  have hcap2 : cap ≤ 18446744073709551616 := Nat.le_trans hcap2 (by decide)
  exact trace_delivered (Cur.init data) _ ops (abs_init_bytes data cap hcap hcap2) hS hops

/-- THE MODEL STAYS INSIDE THE ALLOCATOR'S RANGE: along any history in the domain (stream and requests
    ≤ 2^42; a bytes reader's caller buffer ≤ 2^45) every capacity the model computes — each one is an
    `mcache.Malloc` request in the Go code — is ≤ 2^45 = mcache's largest size class, so the
    index-out-of-range panic of `caches[i]`, which the model does not have, cannot be needed -/
theorem alloc_in_range (S : Bytes) (script : List Resp) (ops : List ROp)
    (hS : S.length ≤ 4398046511104) (hops : ∀ op ∈ ops, op.size ≤ 4398046511104) :
    AllocInv ((Rd.newDefault ⟨S, script⟩).trace ops).2 :=
  trace_alloc (Cur.init S) _ ops (abs_init_default S script) (alloc_newDefault _) hS hops

theorem alloc_in_range_bytes (data : Bytes) (cap : Nat) (ops : List ROp)
    (hcap : data.length ≤ cap) (hcap2 : cap ≤ 35184372088832)
    (hS : data.length ≤ 4398046511104) (hops : ∀ op ∈ ops, op.size ≤ 4398046511104) :
    AllocInv ((Rd.newBytes data cap).trace ops).2 :=
  trace_alloc (Cur.init data) _ ops (abs_init_bytes data cap hcap (Nat.le_trans hcap2 (by decide)))
    (alloc_newBytes data cap hcap2) hS hops

/-! ## one operation at a time, against `remaining` -/

/-- `Inv` (ri ≤ len ≤ cap ≤ 2^64; hence cap = 0 → ri = 0 ∧ buf = []) is preserved by every
    operation, and no operation changes what the reader owes except by handing it out -/
theorem inv_preserved (r : Rd) (op : ROp) (h : Inv r) (hd : r.InDomain op.size) : Inv (r.step op).2 := by
  have hs := hd.small
  have habs : Abs ⟨r.buf ++ r.src.stream, r.ri, 0⟩ r :=
    ⟨h, ⟨[], by simp, rfl⟩, by simp⟩
  obtain ⟨_, _, h'⟩ := step_refines _ r op habs hs
  exact h'.inv

theorem inv_cap_zero (r : Rd) (h : Inv r) (hc : r.cap = 0) : r.ri = 0 ∧ r.buf = [] := h.cap_zero hc

/-- Next: success returns exactly the next `n` bytes of `remaining` and consumes exactly them -/
theorem next_ok (r : Rd) (n : Int) (b : Bytes) (r' : Rd) (h : Inv r) (hd : r.InDomain n.toNat)
    (hr : r.next n = (.ok b, r')) :
    0 ≤ n ∧ b.length = n.toNat ∧ r.remaining = b ++ r'.remaining ∧ r'.readLen = r.readLen + n.toNat ∧
    Inv r' := by
  have hs := hd.small
  rcases next_cases r n h hs with ⟨_, he⟩ | ⟨hpos, m, r1, _, ha, hc⟩
  · rw [he] at hr; simp at hr
  · rcases hc with ⟨_, he⟩ | ⟨hge, he⟩
    · rw [he] at hr; simp at hr
    · rw [he] at hr
      simp only [Prod.mk.injEq, RdRes.ok.injEq] at hr
      obtain ⟨hb, hr'⟩ := hr
      subst hb hr'
      have hk := ha.enough hge
      refine ⟨hpos, take_length_of_le r1 _ hk, ?_, ?_, inv_advance r1 _ ha.inv hk⟩
      · rw [← ha.remaining h.ri_le]; exact remaining_split r1 _
      · simp [Rd.readLen, ha.ri]

/-- Peek: success returns exactly the next `n` bytes of `remaining` and consumes nothing -/
theorem peek_ok (r : Rd) (n : Int) (b : Bytes) (r' : Rd) (h : Inv r) (hd : r.InDomain n.toNat)
    (hr : r.peek n = (.ok b, r')) :
    0 ≤ n ∧ b.length = n.toNat ∧ b = r.remaining.take n.toNat ∧ r'.remaining = r.remaining ∧
    r'.readLen = r.readLen ∧ Inv r' := by
  have hs := hd.small
  rcases peek_cases r n h hs with ⟨_, he⟩ | ⟨hpos, m, r1, _, ha, hc⟩
  · rw [he] at hr; simp at hr
  · rcases hc with ⟨_, he⟩ | ⟨hge, he⟩
    · rw [he] at hr; simp at hr
    · rw [he] at hr
      simp only [Prod.mk.injEq, RdRes.ok.injEq] at hr
      obtain ⟨hb, hr'⟩ := hr
      subst hb hr'
      have hk := ha.enough hge
      refine ⟨hpos, take_length_of_le r1 _ hk, ?_, ha.remaining h.ri_le, ?_, ha.inv⟩
      · rw [← ha.remaining h.ri_le]; exact take_eq_remaining_take r1 _ hk
      · simp [Rd.readLen, ha.ri]

/-- Skip: success drops exactly `n` bytes, which were there -/
theorem skip_ok (r : Rd) (n : Int) (b : Bytes) (r' : Rd) (h : Inv r) (hd : r.InDomain n.toNat)
    (hr : r.skip n = (.ok b, r')) :
    0 ≤ n ∧ n.toNat ≤ r.remaining.length ∧ r'.remaining = r.remaining.drop n.toNat ∧
    r'.readLen = r.readLen + n.toNat ∧ Inv r' := by
  have hs := hd.small
  rcases skip_cases r n h hs with ⟨_, he⟩ | ⟨hpos, m, r1, _, ha, hc⟩
  · rw [he] at hr; simp at hr
  · rcases hc with ⟨_, he⟩ | ⟨hge, he⟩
    · rw [he] at hr; simp at hr
    · rw [he] at hr
      simp only [Prod.mk.injEq, RdRes.ok.injEq] at hr
      obtain ⟨_, hr'⟩ := hr
      subst hr'
      have hk := ha.enough hge
      have hsplit := remaining_split r1 n.toNat
      have hlen := take_length_of_le r1 _ hk
      rw [ha.remaining h.ri_le] at hsplit
      refine ⟨hpos, ?_, ?_, ?_, inv_advance r1 _ ha.inv hk⟩
      · rw [hsplit, List.length_append, hlen]; omega
      · rw [hsplit, List.drop_append_of_le_length (by omega), List.drop_of_length_le (by omega)]
        simp
      · simp [Rd.readLen, ha.ri]

/-- FAILURES ARE ATOMIC AND NEVER NIL: a failing Next/Peek/Skip returns `.fail (some e)` — never
    the (nil, nil) of defect F2 — and leaves `remaining` and ReadLen unchanged -/
theorem fail_nonnil (r : Rd) (n : Int) (e : Option RErr) (r' : Rd) (h : Inv r) (hd : r.InDomain n.toNat)
    (hr : r.next n = (.fail e, r') ∨ r.peek n = (.fail e, r') ∨ r.skip n = (.fail e, r')) :
    e ≠ none ∧ r'.remaining = r.remaining ∧ r'.readLen = r.readLen ∧ Inv r' := by
  have hs := hd.small
  rcases hr with hr | hr | hr
  · rcases next_cases r n h hs with ⟨_, he⟩ | ⟨hpos, m, r1, _, ha, hc⟩
    · rw [he] at hr; simp only [Prod.mk.injEq, RdRes.fail.injEq] at hr
      obtain ⟨h1, h2⟩ := hr; subst h1 h2; exact ⟨by simp, rfl, rfl, h⟩
    · rcases hc with ⟨hgt, he⟩ | ⟨_, he⟩
      · rw [he] at hr; simp only [Prod.mk.injEq, RdRes.fail.injEq] at hr
        obtain ⟨h1, h2⟩ := hr; subst h1 h2
        exact ⟨(ha.short hgt).1, ha.remaining h.ri_le, by simp [Rd.readLen, ha.ri], ha.inv⟩
      · rw [he] at hr; simp at hr
  · rcases peek_cases r n h hs with ⟨_, he⟩ | ⟨hpos, m, r1, _, ha, hc⟩
    · rw [he] at hr; simp only [Prod.mk.injEq, RdRes.fail.injEq] at hr
      obtain ⟨h1, h2⟩ := hr; subst h1 h2; exact ⟨by simp, rfl, rfl, h⟩
    · rcases hc with ⟨hgt, he⟩ | ⟨_, he⟩
      · rw [he] at hr; simp only [Prod.mk.injEq, RdRes.fail.injEq] at hr
        obtain ⟨h1, h2⟩ := hr; subst h1 h2
        exact ⟨(ha.short hgt).1, ha.remaining h.ri_le, by simp [Rd.readLen, ha.ri], ha.inv⟩
      · rw [he] at hr; simp at hr
  · rcases skip_cases r n h hs with ⟨_, he⟩ | ⟨hpos, m, r1, _, ha, hc⟩
    · rw [he] at hr; simp only [Prod.mk.injEq, RdRes.fail.injEq] at hr
      obtain ⟨h1, h2⟩ := hr; subst h1 h2; exact ⟨by simp, rfl, rfl, h⟩
    · rcases hc with ⟨hgt, he⟩ | ⟨_, he⟩
      · rw [he] at hr; simp only [Prod.mk.injEq, RdRes.fail.injEq] at hr
        obtain ⟨h1, h2⟩ := hr; subst h1 h2
        exact ⟨(ha.short hgt).1, ha.remaining h.ri_le, by simp [Rd.readLen, ha.ri], ha.inv⟩
      · rw [he] at hr; simp at hr

/-- ReadBinary never reports more than requested (defect F1), copies exactly the next `m` bytes,
    consumes exactly `m`, and reports fewer than requested only with a non-nil error -/
theorem readBinary_ok (r : Rd) (k : Nat) (h : Inv r) (hd : r.InDomain k) :
    ∃ out m e, (r.readBinary k).1 = some (out, m, e) ∧
      m ≤ k ∧ out.length = m ∧ r.remaining = out ++ (r.readBinary k).2.remaining ∧
      (r.readBinary k).2.readLen = r.readLen + m ∧ (m < k → e ≠ none) ∧ Inv (r.readBinary k).2 := by
  have hs := hd.small
  obtain ⟨m, r1, _, ha, he⟩ := readBinary_cases r k h hs
  have hk : min m k ≤ r1.buf.length - r1.ri := by
    rcases ha.outcome with ⟨hm, hle, _⟩ | ⟨hm, _⟩ <;> omega
  refine ⟨_, min m k, _, by rw [he], by omega, take_length_of_le r1 _ hk, ?_, ?_, ?_, ?_⟩
  · rw [he, ← ha.remaining h.ri_le]; exact remaining_split r1 _
  · rw [he]; simp [Rd.readLen, ha.ri]
  · intro hlt
    have hgt : k > m := by omega
    rw [if_pos (by omega)]
    exact (ha.short hgt).1
  · rw [he]; exact inv_advance r1 _ ha.inv hk

/-- Release keeps what the reader owes and resets ReadLen; ReadLen changes nothing -/
theorem release_ok (r : Rd) (h : Inv r) :
    r.release.remaining = r.remaining ∧ r.release.readLen = 0 ∧ Inv r.release :=
  ⟨release_remaining r h, release_readLen r, release_inv r h⟩

/-- ReadLen = bytes consumed since the last Release, in every reachable state: it is the distance
    between the contract's cursor and its mark -/
theorem readLen_eq (c : Cur) (r : Rd) (h : Abs c r) : r.readLen = c.pos - c.mark := by
  unfold Rd.readLen; rw [h.pos]; omega

/-- a negative count is refused with errNegativeCount and nothing changes -/
theorem negative_count (r : Rd) (n : Int) (h : n < 0) :
    r.next n = (.fail (some .negCount), r) ∧ r.peek n = (.fail (some .negCount), r) ∧
    r.skip n = (.fail (some .negCount), r) := by
  simp [Rd.next, Rd.peek, Rd.skip, h]

/-! ## termination of the read loop -/

/-- `nofuel` is unreachable: the fuel `acquireSlow` hands to the read loop always suffices (the Go
    loop terminates: every iteration delivers a byte into finite room, or counts an empty read) —
    for every state and every request, no hypothesis -/
theorem never_nofuel (r : Rd) (n : Int) (k : Nat) :
    (r.next n).1 ≠ .nofuel ∧ (r.peek n).1 ≠ .nofuel ∧ (r.skip n).1 ≠ .nofuel ∧
    (r.readBinary k).1 ≠ none := by
  have h1 := acquire_total r n.toNat
  have h2 := acquire_total r k
  refine ⟨?_, ?_, ?_, ?_⟩
  · unfold Rd.next; split
    · simp
    · cases ha : r.acquire n.toNat with
      | none => rw [ha] at h1; simp at h1
      | some p => simp only []; split <;> simp
  · unfold Rd.peek; split
    · simp
    · cases ha : r.acquire n.toNat with
      | none => rw [ha] at h1; simp at h1
      | some p => simp only []; split <;> simp
  · unfold Rd.skip; split
    · simp
    · cases ha : r.acquire n.toNat with
      | none => rw [ha] at h1; simp at h1
      | some p => simp only []; split <;> simp
  · unfold Rd.readBinary
    cases ha : r.acquire k with
    | none => rw [ha] at h2; simp at h2
    | some p => simp

/-! ## where errors come from -/

/-- ERROR PROVENANCE, one step: in a state reached over a source with script `s0` (`Prov`), any
    error an operation reports satisfies the spec's `errAllowed`: it is the source's own error
    (first scripted error, io.EOF at exhaustion), or io.ErrNoProgress and the script has
    `maxConsecutiveEmptyReads` consecutive error-free entries, or errNegativeCount for n < 0 -/
theorem err_provenance (s0 : List Resp) (r : Rd) (op : ROp) (h : Inv r) (hd : r.InDomain op.size)
    (hp : Prov s0 r) :
    Prov s0 (r.step op).2 ∧
    ∀ e, (r.step op).1.err = some e → errAllowed Facts.maxConsecutiveEmptyReads s0 op e = true :=
  step_prov s0 r op h hd.small hp

/-- io.ErrNoProgress is set only right after `maxConsecutiveEmptyReads` consecutive scripted reads
    that returned a nil error and (given the room offered and the stream left) no data — unless it
    is the source's own error -/
theorem noProgress_only_after_empty_reads (r : Rd) (n m : Nat) (r' : Rd) (h : Inv r) (hd : r.InDomain n)
    (hnone : r.err = none) (ha : r.acquire n = some (m, r')) (he : r'.err = some .noProgress) :
    firstErr r.src.script = .noProgress ∨
    ∃ pre zs, r.src.script = pre ++ zs ++ r'.src.script ∧
      zs.length = Facts.maxConsecutiveEmptyReads ∧
      ∀ z ∈ zs, z.err = none ∧ min (min z.k (r'.cap - r'.buf.length)) r'.src.stream.length = 0 :=
  acquire_noProgress r n m r' h hd.small hnone ha he

/-- the error is sticky: once set, no operation reads the source again -/
theorem err_sticky (r : Rd) (n m : Nat) (r' : Rd) (he : r.err ≠ none)
    (h : r.acquire n = some (m, r')) : r' = r := acquire_sticky r n m r' he h

/-! ## liveness -/

/-- LIVENESS, exact: Next/Peek/Skip(n ≥ 0) succeed — and ReadBinary fills all of `bs` — if AND ONLY
    IF the bytes are buffered, or no error is pending and the script delivers the missing ones
    before its first error (data arriving together with the error counts) and before
    `maxConsecutiveEmptyReads` consecutive empty reads (`Rd.canServe`, `Enough`) -/
theorem liveness (r : Rd) (n : Int) (h : Inv r) (hd : r.InDomain n.toNat) (hn : 0 ≤ n) :
    ((∃ b, (r.next n).1 = .ok b) ↔ r.canServe n.toNat = true) ∧
    ((∃ b, (r.peek n).1 = .ok b) ↔ r.canServe n.toNat = true) ∧
    ((∃ b, (r.skip n).1 = .ok b) ↔ r.canServe n.toNat = true) ∧
    ((∃ b e, (r.readBinary n.toNat).1 = some (b, n.toNat, e)) ↔ r.canServe n.toNat = true) :=
  ⟨next_live r n h hd.small hn, peek_live r n h hd.small hn, skip_live r n h hd.small hn, readBinary_live r _ h hd.small⟩

/-- LIVENESS, steady sources: a `Steady` script (error-free until the last byte is out, zero-byte
    entries in runs shorter than the limit, every other entry ≥ 1 byte) serves every request that
    fits into what is left, in any reachable state -/
theorem steady_serves (r : Rd) (n : Nat) (hl : r.Live) (hn : n ≤ r.remaining.length) :
    r.canServe n = true := live_canServe r n hl hn

/-- LIVENESS, plain sources (bytes.Reader-like, chunked transports): when every unread script
    entry is error-free with `k ≥ K ≥ 1` — any chunk sizes — a request that fits into what is left and
    into `(unread entries) * K` can be served, in every reachable state; and serving it uses up fewer
    than `n + K` of that credit (`acquire_credit`, inside `refines_default`).  A zero-length read
    happens only when a reader offers zero room, which the model never does while it needs bytes. -/
theorem plain_serves (K credit : Nat) (r : Rd) (n : Nat) (h : PlainD K credit r)
    (hn : n ≤ r.remaining.length) (hc : n ≤ credit) : r.canServe n = true :=
  plainD_canServe K credit r n h hn hc

/-- the underlying fact about scripts: plain entries deliver any need the stream and their number cover -/
theorem plain_enough (K : Nat) (s : List Resp) (need slen : Nat) (hp : PlainK K s) (hK : 1 ≤ K)
    (h0 : 0 < need) (hle : need ≤ slen) (hc : need ≤ s.length * K) :
    Enough Facts.maxConsecutiveEmptyReads s need 0 slen = true :=
  Verif.plain_enough _ K s need 0 slen hp hK h0 hle hc maxEmpty_pos

/-- LIVENESS, chunked sources, per request, EXACT condition: every unread entry has `k ≥ 1` (any sizes),
    an error sits only on the last entry (final data together with io.EOF / an error — its data
    counts), no error is pending, and the chunks cover the missing bytes ⇒ the request is served.
    (`⟨4,none⟩,⟨5,eof⟩` over 9 bytes serves Next(9).) -/
theorem chunks_serves (r : Rd) (n : Nat) (he : r.err = none) (hc : chunksOk r.src.script = true)
    (hn : n ≤ r.remaining.length) (hsum : n - (r.buf.length - r.ri) ≤ sumK r.src.script) :
    r.canServe n = true := by
  rw [remaining_length r] at hn
  unfold Rd.canServe
  simp only [Bool.or_eq_true, decide_eq_true_eq, Bool.and_eq_true]
  by_cases hfast : n ≤ r.buf.length - r.ri
  · exact Or.inl hfast
  · exact Or.inr ⟨by rw [he]; rfl,
      chunks_enough _ _ _ _ _ hc (by omega) (by omega) hsum maxEmpty_pos⟩

/-- LIVENESS, chunked sources, along histories (`Rd.Live2 = Rd.Live ∨ Rd.LiveChunks`): for a stream
    that fits the first buffer (`|S| ≤ defaultBufSize`) a `SteadyChunks` script makes the fresh reader
    live; `Live2` is kept by every operation (`acquire_keeps_live2`, `live2_release`,
    `Rd.Live2.advance`, `step_live2`) and serves every request that fits.  Exact limit: for longer
    streams the room offered when the LAST (error-carrying) entry is read may be smaller than what is
    left, the source's error then precedes the remaining bytes and they are lost — in the real code too. -/
theorem steady_chunks_live (S : Bytes) (script : List Resp)
    (h : SteadyChunks Facts.defaultBufSize script S.length = true) :
    (Rd.newDefault ⟨S, script⟩).Live2 := live2_newDefault_chunks S script h

theorem live2_serves (r : Rd) (n : Nat) (hl : r.Live2) (hn : n ≤ r.remaining.length) :
    r.canServe n = true := live2_canServe r n hl hn

/-! ## non-vacuity -/

/-- final data together with io.EOF in a chunk bigger than one byte: not `Steady`, but `SteadyChunks` -/
example : Steady Facts.maxConsecutiveEmptyReads [⟨4, none⟩, ⟨5, some .eof⟩] 9 0 = false := by decide
example : SteadyChunks Facts.defaultBufSize [⟨4, none⟩, ⟨5, some .eof⟩] 9 = true := by decide
example : SteadyChunks Facts.defaultBufSize [⟨4096, none⟩] 9 = true := by decide
example : ((Rd.newDefault ⟨[1,2,3,4,5,6,7,8,9], [⟨4, none⟩, ⟨5, some .eof⟩]⟩).trace
    [.next 2, .peek 6, .release (some .eof), .next 7, .next 1]).1 =
    [(.next 2, .bytes [1,2]), (.peek 6, .bytes [3,4,5,6,7,8]), (.release (some .eof), .done),
     (.next 7, .bytes [3,4,5,6,7,8,9]), (.next 1, .fail (some .eof))] := by decide

/-- a plain script that is not `Steady` (4 entries for 12000 bytes) still carries credit -/
example : Credit.init false [⟨4096, none⟩, ⟨1048576, none⟩, ⟨7, none⟩, ⟨4096, none⟩] = ⟨7, 28, false, 0⟩ := by
  decide
example : Steady Facts.maxConsecutiveEmptyReads (List.replicate 4 ⟨1048576, none⟩) 12000 0 = false := by
  decide
/-- over a bytes.Reader-like source (not `Steady`) the judge demands service: the credit 4·2^20 covers
    a request that fits; and the model serves it (a small instance of Next(a), Next(b) without Release) -/
example : (Credit.init false (List.replicate 4 ⟨1048576, none⟩)).must
    ⟨List.replicate 40 0, 10, 0⟩ (.next 20) = true := by decide
example : ((Rd.newDefault ⟨[1,2,3,4,5,6,7,8], List.replicate 2 ⟨1048576, none⟩⟩).trace
    [.next 3, .next 4, .next 2]).1 =
    [(.next 3, .bytes [1,2,3]), (.next 4, .bytes [4,5,6,7]), (.next 2, .fail (some .eof))] := by decide


/-- hypotheses of the refinement theorems are satisfiable; a steady script with zero-byte reads
    and the last byte arriving together with io.EOF -/
example : Steady Facts.maxConsecutiveEmptyReads [⟨1, none⟩, ⟨0, none⟩, ⟨0, none⟩, ⟨5, some .eof⟩] 2 0 = true := by
  decide

/-- `Enough`: 4 bytes needed, delivered as 1 + (empty) + 3-with-EOF -/
example : Enough Facts.maxConsecutiveEmptyReads [⟨1, none⟩, ⟨0, none⟩, ⟨9, some .eof⟩] 4 0 10 = true := by
  decide
example : Enough Facts.maxConsecutiveEmptyReads [⟨1, none⟩, ⟨2, some .eof⟩, ⟨9, none⟩] 4 0 10 = false := by
  decide

/-- `Inv` and `Small` hold of fresh readers of both kinds -/
example : Inv (Rd.newDefault ⟨[1, 2, 3], [⟨2, none⟩]⟩) ∧ (Rd.newDefault ⟨[1, 2, 3], [⟨2, none⟩]⟩).InDomain 5 :=
  ⟨inv_newDefault _, by unfold Rd.InDomain; decide⟩
example : Inv (Rd.newBytes [1, 2, 3] 8) := inv_newBytes _ _ (by decide) (by decide)

/-- the historical witness of F1 on the model: the source returns (10 bytes, io.EOF) on its first
    Read; ReadBinary(4) is (4, nil) and consumes 4, Next(6) gets the rest, then io.EOF surfaces -/
example : ((Rd.newDefault ⟨[48,49,50,51,52,53,54,55,56,57], [⟨10, some .eof⟩]⟩).trace
    [.readBinary 4, .readLen, .next 6, .next 1]).1 =
    [(.readBinary 4, .rb [48,49,50,51] 4 none), (.readLen, .len 4),
     (.next 6, .bytes [52,53,54,55,56,57]), (.next 1, .fail (some .eof))] := by decide

/-- the historical witness of F2 on the model: a source that returns (0, nil) forever makes every
    operation fail with io.ErrNoProgress — never with a nil error; 99 empty reads are tolerated -/
example : Facts.maxConsecutiveEmptyReads > 200 ∨ ((Rd.newDefault ⟨[7], List.replicate 250 ⟨0, none⟩⟩).trace
    [.next 1, .peek 1, .skip 1, .readBinary 1]).1 =
    [(.next 1, .fail (some .noProgress)), (.peek 1, .fail (some .noProgress)),
     (.skip 1, .fail (some .noProgress)), (.readBinary 1, .rb [] 0 (some .noProgress))] := by decide
example : Facts.maxConsecutiveEmptyReads ≠ 100 ∨ ((Rd.newDefault ⟨[7, 8], List.replicate 99 ⟨0, none⟩ ++ [⟨2, none⟩]⟩).trace
    [.next 2]).1 = [(.next 2, .bytes [7, 8])] := by decide

/-- bytes reader: an over-ask fails with io.EOF and consumes nothing; Release keeps the tail -/
example : ((Rd.newBytes [1,2,3,4,5] 5).trace
    [.next 2, .peek 4, .release (some .eof), .readLen, .next 3, .next 1]).1 =
    [(.next 2, .bytes [1,2]), (.peek 4, .fail (some .eof)), (.release (some .eof), .done), (.readLen, .len 0),
     (.next 3, .bytes [3,4,5]), (.next 1, .fail (some .eof))] := by decide

end Verif.C04

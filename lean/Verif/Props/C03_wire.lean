/-
  Props/C03_wire — C03 (decoders never panic or over-report on arbitrary bytes), the part about the
  13 scalar/header buffer readers and ReadMessageBegin. Property theorems only.
-/
import Verif.Lemmas.WireR
import Verif.Lemmas.WireMsgSafe
namespace Verif.C03
open Verif.Wire

/-- for every reader kind and EVERY byte string: `Binary.Read<kind>(b)` does not panic, makes no
    out-of-bounds load, and whenever it reports success the consumed length is at most `len(b)` -/
theorem wire_read_safe (k : Kind) (b : Bytes) :
    (∀ s, binRead k b ≠ .panic s) ∧ binRead k b ≠ .oob ∧
    (∀ v n, binRead k b = .ok (v, n) → n ≤ b.length) := by
  have h := binRead_sound k b
  refine ⟨?_, ?_, ?_⟩
  · intro s hs; rw [hs] at h; exact h
  · intro hs; rw [hs] at h; exact h
  · intro v n hs; rw [hs] at h; exact h

/-- also the length returned beside an error (0, or 4 by ReadBinary/ReadString on a short body) never
    exceeds `len(b)` -/
theorem wire_read_err_len (k : Kind) (b : Bytes) (e : TErr) (l : Nat) (h : binRead k b = .err (e, l)) :
    l ≤ b.length := by
  have hs := binRead_sound k b
  rw [h] at hs; exact hs

/-- ReadMessageBegin in particular (its own entry of the statement) -/
theorem wire_msgbegin_safe (b : Bytes) :
    (∀ s, binReadMessageBegin b ≠ .panic s) ∧ binReadMessageBegin b ≠ .oob ∧
    (∀ r, binReadMessageBegin b = .ok r → r.2.2.2 ≤ b.length) := by
  rw [binReadMessageBegin_char]
  refine ⟨?_, ?_, ?_⟩
  · intro s; repeat' split
    all_goals simp
  · repeat' split
    all_goals simp
  · intro r; repeat' split
    all_goals simp
    intro h; rw [← h]; simp; omega

/-- generic message unmarshal: `UnmarshalFastMsg(b, msg)` with an ApplicationException as the caller's
    struct returns normally on EVERY byte string and every previous content of the struct — no index
    or slice panic (`b[i:]`, the FastRead loops), no out-of-bounds load inside Skip, loop fuel never
    exhausted. (No length is reported by this entry point; inside it every offset stays ≤ len(b):
    `appExReadLoop_safe`.) -/
theorem wire_unmarshal_safe (b : Bytes) (msg : AppEx) :
    ∃ u, unmarshalFastMsg appExCodec b msg = .ok u :=
  unmarshal_safe appExCodec (fun t b => by rw [appExCodec_read]; exact appExRead_safe t b) b msg

/-- the same in the vocabulary of the other C03 theorems -/
theorem wire_unmarshal_no_panic (b : Bytes) (msg : AppEx) : (unmarshalFastMsg appExCodec b msg).Safe := by
  obtain ⟨u, h⟩ := wire_unmarshal_safe b msg
  simp [Out.Safe, h]

/-- for ANY payload codec whose FastRead returns normally with an offset inside its input (the fc
    family proves this for Base / BaseResp), UnmarshalFastMsg returns normally on every byte string -/
theorem wire_unmarshal_safe_codec {α : Type} (C : Codec α)
    (hC : ∀ t b, (∃ n, (C.read t b).2 = .ok n ∧ n ≤ b.length) ∨ (∃ e, (C.read t b).2 = .err e))
    (b : Bytes) (msg : α) : ∃ u, unmarshalFastMsg C b msg = .ok u :=
  unmarshal_safe C hC b msg

/-! non-vacuity: the statement is about every input; two inputs that exercise an error and a success -/
example : binRead .str [0, 0, 0, 5, 0x68] = .err (.pe 1, 4) := by decide
example : binRead .map [11, 8, 0xff, 0xff, 0xff, 0xff] = .ok (.mapBegin 11 8 4294967295, 6) := by decide

end Verif.C03

/-
  Props/C03_wire — C03 (decoders never panic or over-report on arbitrary bytes), the part about the
  13 scalar/header buffer readers and ReadMessageBegin. Property theorems only.
-/
import Verif.Lemmas.WireR
namespace Verif.C03
open Verif.Wire

/-- for every reader kind and EVERY byte string: `Binary.Read<kind>(b)` does not panic, makes no
    out-of-bounds load, and whenever it reports success the consumed length is at most `len(b)` -/
theorem wire_read_safe (k : Kind) (b : Bytes) :
    (∀ s, binRead k b ≠ .panic s) ∧ binRead k b ≠ .oob ∧
    (∀ v n, binRead k b = .ok (v, n) → n ≤ b.length) := by
  have h := binRead_sound k b
  refine ⟨?_, ?_, ?_⟩
  · intro s hs; rw [hs] at h; exact h
  · intro hs; rw [hs] at h; exact h
  · intro v n hs; rw [hs] at h; exact h

/-- also the length returned beside an error (0, or 4 by ReadBinary/ReadString on a short body) never
    exceeds `len(b)` -/
theorem wire_read_err_len (k : Kind) (b : Bytes) (e : TErr) (l : Nat) (h : binRead k b = .err (e, l)) :
    l ≤ b.length := by
  have hs := binRead_sound k b
  rw [h] at hs; exact hs

/-- ReadMessageBegin in particular (its own entry of the statement) -/
theorem wire_msgbegin_safe (b : Bytes) :
    (∀ s, binReadMessageBegin b ≠ .panic s) ∧ binReadMessageBegin b ≠ .oob ∧
    (∀ r, binReadMessageBegin b = .ok r → r.2.2.2 ≤ b.length) := by
  rw [binReadMessageBegin_char]
  refine ⟨?_, ?_, ?_⟩
  · intro s; repeat' split
    all_goals simp
  · repeat' split
    all_goals simp
  · intro r; repeat' split
    all_goals simp
    intro h; rw [← h]; simp; omega

/-! non-vacuity: the statement is about every input; two inputs that exercise an error and a success -/
example : binRead .str [0, 0, 0, 5, 0x68] = .err (.pe 1, 4) := by decide
example : binRead .map [11, 8, 0xff, 0xff, 0xff, 0xff] = .ok (.mapBegin 11 8 4294967295, 6) := by decide

end Verif.C03

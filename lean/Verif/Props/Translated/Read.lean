/-
  Props/Translated/Read: property theorems restated about the functions TRANSLATED from the Go source on every run
  (`Verif.Funcs.*`, `Gen/Funcs.lean`), i.e. about what the source says now. Each theorem is a corollary: rewrite with the
  equivalence theorem `Verif.FuncsEq.<F>_eq` (the translated function, through an explicit result lift, IS the model function),
  then apply the property theorem about the model. Hypotheses: those of the property theorem plus the size domain of the `_eq`
  theorem (buffers shorter than 2^62 / 2^63 bytes, enough loop fuel). See Props/Translated.lean for the overview.
-/
import Verif.Lemmas.Funcs.TransferRead
import Verif.Props.C01
import Verif.Props.C03_wire
import Verif.Props.C12
import Verif.Props.C17_wire
namespace Verif.Translated
open Verif Verif.GoSem Verif.FuncsEq

/-! ## 2. the buffer readers `Binary.Read*` (C01, C03, C12, C17) -/

/-- `Binary.Read<kind>(b)` as translated (both values of the package variable `spanCacheEnable`), result in the models'
    vocabulary: the `Val` read and the consumed length -/
def tRead (g : Bool) : Wire.Kind → Bytes → Wire.BOut (Wire.Val × Nat)
  | .bool, b => Wire.mapOk (fun r => (.bool r.1, r.2)) (liftRd (Funcs.Binary_ReadBool b))
  | .i8, b => Wire.mapOk (fun r => (.i8 r.1, r.2)) (liftRd (Funcs.Binary_ReadByte b))
  | .i16, b => Wire.mapOk (fun r => (.i16 r.1, r.2)) (liftRd (Funcs.Binary_ReadI16 b))
  | .i32, b => Wire.mapOk (fun r => (.i32 r.1, r.2)) (liftRd (Funcs.Binary_ReadI32 b))
  | .i64, b => Wire.mapOk (fun r => (.i64 r.1, r.2)) (liftRd (Funcs.Binary_ReadI64 b))
  | .double, b => Wire.mapOk (fun r => (.double r.1, r.2)) (liftRdDouble (Funcs.Binary_ReadDouble b))
  | .binary, b => Wire.mapOk (fun r => (.binary r.1, r.2)) (liftRd (Funcs.Binary_ReadBinary g b))
  | .str, b => Wire.mapOk (fun r => (.str r.1, r.2)) (liftRd (Funcs.Binary_ReadString g b))
  | .field, b => Wire.mapOk (fun r => (Wire.fieldVal r.1 r.2.1, r.2.2)) (liftRdField (Funcs.Binary_ReadFieldBegin b))
  | .map, b => Wire.mapOk (fun r => (.mapBegin r.1 r.2.1 r.2.2.1, r.2.2.2)) (liftRdMap (Funcs.Binary_ReadMapBegin b))
  | .list, b => Wire.mapOk (fun r => (.listBegin r.1 r.2.1, r.2.2)) (liftRdList (Funcs.Binary_ReadListBegin b))
  | .set, b => Wire.mapOk (fun r => (.setBegin r.1 r.2.1, r.2.2)) (liftRdList (Funcs.Binary_ReadSetBegin b))
  | .msg, b => Wire.mapOk (fun r => (.messageBegin r.1 r.2.1 r.2.2.1, r.2.2.2))
      (liftRdMsg (Funcs.Binary_ReadMessageBegin g b))

/-- the translated readers are the model readers, for every byte string and both values of `spanCacheEnable` -/
theorem tRead_eq (g : Bool) (k : Wire.Kind) (b : Bytes) : tRead g k b = Wire.binRead k b := by
  cases k <;>
    simp only [tRead, Wire.binRead, Binary_ReadBool_eq, Binary_ReadByte_eq, Binary_ReadI16_eq, Binary_ReadI32_eq,
      Binary_ReadI64_eq, Binary_ReadDouble_eq, Binary_ReadBinary_eq, Binary_ReadString_eq, Binary_ReadFieldBegin_eq,
      Binary_ReadMapBegin_eq, Binary_ReadListBegin_eq, Binary_ReadSetBegin_eq, Binary_ReadMessageBegin_eq]

/-- C01 read_enc: every translated reader, given the encoding of a value of the domain followed by anything, returns
    that value and exactly the encoding's length -/
theorem read_enc (g : Bool) (v : Wire.Val) (hv : v.wf) (rest : Bytes) :
    tRead g v.kind (Wire.enc v ++ rest) = .ok (v, (Wire.enc v).length) := by
  rw [tRead_eq]; exact C01.read_enc v hv rest

/-- C03: for every reader and EVERY byte string: no panic, no out-of-bounds load, and a reported length is at most
    `len(b)` -/
theorem read_safe (g : Bool) (k : Wire.Kind) (b : Bytes) :
    (∀ s, tRead g k b ≠ .panic s) ∧ tRead g k b ≠ .oob ∧ (∀ v n, tRead g k b = .ok (v, n) → n ≤ b.length) := by
  rw [tRead_eq]; exact C03.wire_read_safe k b

/-- C03: also the length returned beside an error never exceeds `len(b)` -/
theorem read_err_len (g : Bool) (k : Wire.Kind) (b : Bytes) (e : TErr) (l : Nat) (h : tRead g k b = .err (e, l)) :
    l ≤ b.length := by
  rw [tRead_eq] at h; exact C03.wire_read_err_len k b e l h

/-- C03, without the lifts: each of the 13 translated readers returns its Go result tuple on every byte string -/
theorem readers_return (g : Bool) (b : Bytes) :
    (∃ r, Funcs.Binary_ReadBool b = .ok r) ∧ (∃ r, Funcs.Binary_ReadByte b = .ok r) ∧
    (∃ r, Funcs.Binary_ReadI16 b = .ok r) ∧ (∃ r, Funcs.Binary_ReadI32 b = .ok r) ∧
    (∃ r, Funcs.Binary_ReadI64 b = .ok r) ∧ (∃ r, Funcs.Binary_ReadDouble b = .ok r) ∧
    (∃ r, Funcs.Binary_ReadBinary g b = .ok r) ∧ (∃ r, Funcs.Binary_ReadString g b = .ok r) ∧
    (∃ r, Funcs.Binary_ReadFieldBegin b = .ok r) ∧ (∃ r, Funcs.Binary_ReadMapBegin b = .ok r) ∧
    (∃ r, Funcs.Binary_ReadListBegin b = .ok r) ∧ (∃ r, Funcs.Binary_ReadSetBegin b = .ok r) ∧
    (∃ r, Funcs.Binary_ReadMessageBegin g b = .ok r) := by
  have H : ∀ k, (tRead g k b).Safe := fun k => ⟨(read_safe g k b).1, (read_safe g k b).2.1⟩
  exact ⟨liftRd_returns (mapOk_safe (H .bool)), liftRd_returns (mapOk_safe (H .i8)),
    liftRd_returns (mapOk_safe (H .i16)), liftRd_returns (mapOk_safe (H .i32)),
    liftRd_returns (mapOk_safe (H .i64)), liftRdG_returns (mapOk_safe (H .double)),
    liftRd_returns (mapOk_safe (H .binary)), liftRd_returns (mapOk_safe (H .str)),
    liftRdG_returns (mapOk_safe (H .field)), liftRdG_returns (mapOk_safe (H .map)),
    liftRdG_returns (mapOk_safe (H .list)), liftRdG_returns (mapOk_safe (H .set)),
    liftRdG_returns (mapOk_safe (H .msg))⟩

/-- C17 read_err_typeId: every failure of a translated reader, on every byte string, is a protocol exception whose type
    id is the one Thrift defines for the independently classified cause (truncated 1, negative size 2, bad version 4) -/
theorem read_err_typeId (g : Bool) (k : Wire.Kind) (b : Bytes) (e : TErr) (l : Nat) (h : tRead g k b = .err (e, l)) :
    e = .pe (Wire.cause k b).typeId := by
  rw [tRead_eq] at h; exact C17.read_err_typeId k b e l h

/-- C03: ReadMessageBegin's own entry of the statement -/
theorem msgbegin_safe (g : Bool) (b : Bytes) :
    (∀ s, liftRdMsg (Funcs.Binary_ReadMessageBegin g b) ≠ .panic s) ∧
    liftRdMsg (Funcs.Binary_ReadMessageBegin g b) ≠ .oob ∧
    (∀ r, liftRdMsg (Funcs.Binary_ReadMessageBegin g b) = .ok r → r.2.2.2 ≤ b.length) := by
  rw [Binary_ReadMessageBegin_eq]; exact C03.wire_msgbegin_safe b

/-- C12 round trip, reader part: the encoded header followed by anything reads back as the same name, `typ mod 2^16`,
    the same seq, consuming exactly MessageBeginLength(name) bytes -/
theorem msgbegin_read_enc (g : Bool) (name : Bytes) (typ seq : Int) (hn : name.length < 2 ^ 31)
    (ht : Wire.inI32 typ) (hs : Wire.inI32 seq) (rest : Bytes) :
    liftRdMsg (Funcs.Binary_ReadMessageBegin g (Wire.enc (.messageBegin name typ seq) ++ rest)) =
      .ok (name, (Wire.msgType16 typ : Int), seq, Wire.lenMessageBegin name) := by
  rw [Binary_ReadMessageBegin_eq]; exact (C12.msgbegin_roundtrip name typ seq hn ht hs).2.2.2.1 rest

/-- C12 bad_version_iff: given at least 4 bytes, BAD_VERSION (4) exactly when the upper half of the first word is not
    the strict-version marker 0x8001 -/
theorem msgbegin_bad_version_iff (g : Bool) (b : Bytes) (h : 4 ≤ b.length) :
    (∃ l, liftRdMsg (Funcs.Binary_ReadMessageBegin g b) = .err (.pe 4, l)) ↔ rd32 b / 65536 ≠ 0x8001 := by
  rw [Binary_ReadMessageBegin_eq]; exact C12.bad_version_iff b h

/-- C12 truncated_err: every strict prefix of an encoded header is rejected with INVALID_DATA and length 0 -/
theorem msgbegin_truncated_err (g : Bool) (name : Bytes) (typ seq : Int) (hn : name.length < 2 ^ 31)
    (ht : Wire.inI32 typ) (hs : Wire.inI32 seq) (p : Bytes) (hp : p <+: Wire.enc (.messageBegin name typ seq))
    (hne : p ≠ Wire.enc (.messageBegin name typ seq)) :
    liftRdMsg (Funcs.Binary_ReadMessageBegin g p) = .err (.pe 1, 0) := by
  rw [Binary_ReadMessageBegin_eq]; exact C12.truncated_err name typ seq hn ht hs p hp hne

/-- C12 accepted_exact: whatever is accepted is exactly an encoded header of the domain -/
theorem msgbegin_accepted_exact (g : Bool) (b name : Bytes) (typ seq : Int) (l : Nat)
    (h : liftRdMsg (Funcs.Binary_ReadMessageBegin g b) = .ok (name, typ, seq, l)) :
    b.take l = Wire.enc (.messageBegin name typ seq) ∧ (Wire.Val.messageBegin name typ seq).wf := by
  rw [Binary_ReadMessageBegin_eq] at h; exact C12.accepted_exact b name typ seq l h

/-- C12: a name of 2^31 … 2^32-1 bytes is rejected with INVALID_DATA, never read back as a different header -/
theorem msgbegin_rejects_long_name (g : Bool) (name rest : Bytes) (typ seq : Int) (ht : Wire.inI32 typ)
    (hs : Wire.inI32 seq) (h1 : 2 ^ 31 ≤ name.length) (h2 : name.length < 2 ^ 32) :
    liftRdMsg (Funcs.Binary_ReadMessageBegin g (Wire.enc (.messageBegin name typ seq) ++ rest)) = .err (.pe 1, 0) := by
  rw [Binary_ReadMessageBegin_eq]; exact C12.msgbegin_rejects_long_name name rest typ seq ht hs h1 h2

/-- C12: the returned type is the low 16 bits of the first word -/
theorem msgbegin_type_low16 (g : Bool) (b method : Bytes) (typ seq : Int) (i : Nat)
    (h : liftRdMsg (Funcs.Binary_ReadMessageBegin g b) = .ok (method, typ, seq, i)) :
    typ = ((rd32 b % 65536 : Nat) : Int) ∧
    (rd32 b % 65536 = 1 ∨ rd32 b % 65536 = 2 ∨ rd32 b % 65536 = 4 → typ ≠ 3) := by
  rw [Binary_ReadMessageBegin_eq] at h; exact C12.call_reply_oneway_not_exception b method typ seq i h

/-! non-vacuity: values of the domain for `read_enc`; a bad-version and a truncated header; evaluation -/
example : (Wire.Val.str [0x68, 0xff]).wf ∧ (Wire.Val.messageBegin [0x66] 1 (-7)).wf ∧ (Wire.Val.fieldBegin 11 (-1)).wf ∧
    (Wire.Val.mapBegin 0xff 0x80 2147483647).wf ∧ (Wire.Val.double 0x7ff8000000000001).wf := by decide
example : tRead true .str (Wire.enc (.str [0x68, 0xff]) ++ [1, 2]) = .ok (.str [0x68, 0xff], 6) :=
  read_enc true (.str [0x68, 0xff]) (by decide) [1, 2]
example : tRead false .map [11, 8, 0xff, 0xff, 0xff, 0xff] = .ok (.mapBegin 11 8 4294967295, 6) := by decide
example : tRead true .str [0x80, 0, 0, 0] = .err (.pe 2, 0) ∧ Wire.cause .str [0x80, 0, 0, 0] = .negativeSize := by decide
example : 4 ≤ ([0x80, 0x02, 0, 1, 0, 0, 0, 0, 0, 0, 0, 0] : Bytes).length ∧
    rd32 [0x80, 0x02, 0, 1, 0, 0, 0, 0, 0, 0, 0, 0] / 65536 ≠ 0x8001 := by decide
example : ([0x66] : Bytes).length < 2 ^ 31 ∧ Wire.inI32 65537 ∧ Wire.inI32 (-1) ∧
    [0x80, 0x01, 0, 1, 0] <+: Wire.enc (.messageBegin [0x66] 1 7) ∧
    ([0x80, 0x01, 0, 1, 0] : Bytes) ≠ Wire.enc (.messageBegin [0x66] 1 7) := by decide


end Verif.Translated
